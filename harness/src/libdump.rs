//! Walk the stdlib symbol tables and dump them as one JSON document.
use crate::hex;
use crate::json::esc;
use resynth::verif::*;

fn valdef(v: &ValDef) -> String {
    let (t, val) = match v {
        ValDef::Nil => ("Void", "null".to_string()),
        ValDef::Bool(b) => ("Bool", format!("{}", b)),
        ValDef::U8(n) => ("U8", format!("{}", n)),
        ValDef::U16(n) => ("U16", format!("{}", n)),
        ValDef::U32(n) => ("U32", format!("{}", n)),
        ValDef::U64(n) => ("U64", esc(&format!("{}", n))),
        ValDef::Ip4(a) => ("Ip4", format!("{}", u32::from(*a))),
        ValDef::Sock4(s) => ("Sock4", esc(&format!("{}:{}", u32::from(*s.ip()), s.port()))),
        ValDef::Str(s) => ("Str", esc(&hex(s))),
        ValDef::Type(t) => ("Type", esc(&format!("{:?}", t))),
    };
    format!(
        "{{\"type\":{},\"value\":{},\"display\":{}}}",
        esc(t),
        val,
        esc(&format!("{}", v))
    )
}

fn func(path: &str, f: &FuncDef, out: &mut Vec<String>) {
    let mut args = Vec::new();
    for (i, a) in f.args.iter().enumerate() {
        let pos = (f.arg_pos)(a.name);
        let posj = match pos {
            Some(p) => format!("{}", p),
            None => "null".into(),
        };
        let d = match a.typ {
            ArgDecl::Positional(t) => format!("\"kind\":\"pos\",\"type\":{}", esc(&format!("{:?}", t))),
            ArgDecl::Optional(v) => format!("\"kind\":\"opt\",\"default\":{}", valdef(&v)),
        };
        args.push(format!(
            "{{\"name\":{},\"index\":{},\"arg_pos\":{},{},\"display\":{}}}",
            esc(a.name),
            i,
            posj,
            d,
            esc(&format!("{}", a))
        ));
    }
    out.push(format!(
        "{{\"path\":{},\"kind\":\"func\",\"name\":{},\"return_type\":{},\"collect_type\":{},\"min_args\":{},\"args\":[{}],\"doc\":{},\"display\":{}}}",
        esc(path),
        esc(f.name),
        esc(&format!("{:?}", f.return_type)),
        esc(&format!("{:?}", f.collect_type)),
        f.min_args,
        args.join(","),
        esc(f.doc),
        esc(&format!("{}", f))
    ));
}

fn symtab(prefix: &str, sep: &str, tab: &'static [SymDesc], out: &mut Vec<String>) {
    for SymDesc { name, sym } in tab.iter() {
        let path = if prefix.is_empty() {
            name.to_string()
        } else {
            format!("{}{}{}", prefix, sep, name)
        };
        match sym {
            Symbol::Module(m) => {
                out.push(format!(
                    "{{\"path\":{},\"kind\":\"module\",\"name\":{},\"defname\":{},\"doc\":{}}}",
                    esc(&path),
                    esc(name),
                    esc(m.name),
                    esc(m.doc)
                ));
                symtab(&path, "::", m.symtab, out);
            }
            Symbol::Class(c) => {
                out.push(format!(
                    "{{\"path\":{},\"kind\":\"class\",\"name\":{},\"defname\":{},\"doc\":{}}}",
                    esc(&path),
                    esc(name),
                    esc(c.name),
                    esc(c.doc)
                ));
                symtab(&path, ".", c.symtab, out);
            }
            Symbol::Func(f) => func(&path, f, out),
            Symbol::Val(v) => out.push(format!(
                "{{\"path\":{},\"kind\":\"val\",\"name\":{},\"def\":{}}}",
                esc(&path),
                esc(name),
                valdef(v)
            )),
        }
    }
}

pub fn dump(root: &'static Module) -> String {
    let mut out = Vec::new();
    symtab("", "::", root.symtab, &mut out);
    format!("{{\"root_doc\":{},\"symbols\":[{}]}}", esc(root.doc), out.join(","))
}

/// resolve `a::b::f` or `a::b::Class.m`
pub fn find_func(root: &'static Module, path: &str) -> Option<&'static FuncDef> {
    let (modpath, method) = match path.split_once('.') {
        Some((a, b)) => (a, Some(b)),
        None => (path, None),
    };
    let comps: Vec<&str> = modpath.split("::").collect();
    let mut m: &'static Module = root;
    for (i, c) in comps.iter().enumerate() {
        let last = i + 1 == comps.len();
        match m.get(c)? {
            Symbol::Module(n) if !last => m = n,
            Symbol::Func(f) if last && method.is_none() => return Some(f),
            Symbol::Class(cl) if last => {
                return match cl.get(method?)? {
                    Symbol::Func(f) => Some(f),
                    _ => None,
                }
            }
            _ => return None,
        }
    }
    None
}
