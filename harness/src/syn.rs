//! Canonical text form of syntax trees (must match Driver.lean `fmtStmt`).
use crate::hex;
use resynth::verif::*;

fn fmt_loc(l: Loc) -> String {
    format!("{}:{}", l.line(), l.col())
}

pub fn fmt_val(v: &Val) -> String {
    match v {
        Val::Nil => "nil".into(),
        Val::Bool(b) => format!("bool:{}", b),
        Val::U8(n) => format!("u8:{}", n),
        Val::U16(n) => format!("u16:{}", n),
        Val::U32(n) => format!("u32:{}", n),
        Val::U64(n) => format!("u64:{}", n),
        Val::Ip4(a) => format!("ip4:{}", u32::from(*a)),
        Val::Sock4(s) => format!("sock4:{}:{}", u32::from(*s.ip()), s.port()),
        Val::Str(b) => format!("str:{}", hex(b.as_ref())),
        Val::Obj(_) => "obj".into(),
        Val::Func(f) => format!("func:{}", f.name),
        Val::Method(_, f) => format!("method:{}", f.name),
        Val::Pkt(p) => format!("pkt:{}", hex(&p.to_vec())),
        Val::PktGen(g) => {
            let v: Vec<String> = g.iter().map(|p| hex(&p.to_vec())).collect();
            format!("pktgen:[{}]", v.join(","))
        }
        Val::TimeJump(n) => format!("timejump:{}", n),
    }
}

fn fmt_ref(o: &ObjectRef) -> String {
    format!(
        "(ref {} mods={} comps={})",
        fmt_loc(o.loc),
        o.modules.join(","),
        o.components.join(",")
    )
}

pub fn fmt_expr(e: &Expr) -> String {
    match e {
        Expr::Nil => "nil".into(),
        Expr::Literal(loc, v) => format!("(lit {} {})", fmt_loc(*loc), fmt_val(v)),
        Expr::ObjectRef(o) => fmt_ref(o),
        Expr::Call(c) => {
            let mut s = format!("(call {}", fmt_ref(&c.obj));
            for a in &c.args {
                s.push_str(&format!(
                    " [{} {}]",
                    a.name.as_deref().unwrap_or("-"),
                    fmt_expr(&a.expr)
                ));
            }
            s.push(')');
            s
        }
        Expr::Slash(a, b) => format!("(slash {} {})", fmt_expr(a), fmt_expr(b)),
    }
}

pub fn fmt_stmt(s: &Stmt) -> String {
    match s {
        Stmt::Import(i) => format!("(import {} {})", fmt_loc(i.loc), i.module),
        Stmt::Assign(a) => format!("(let {} {} {})", fmt_loc(a.loc), a.target, fmt_expr(&a.rvalue)),
        Stmt::Expr(e) => format!("(expr {})", fmt_expr(e)),
    }
}
