pub fn esc(s: &str) -> String {
    let mut o = String::with_capacity(s.len() + 2);
    o.push('"');
    for c in s.chars() {
        match c {
            '"' => o.push_str("\\\""),
            '\\' => o.push_str("\\\\"),
            '\n' => o.push_str("\\n"),
            '\r' => o.push_str("\\r"),
            '\t' => o.push_str("\\t"),
            c if (c as u32) < 0x20 => o.push_str(&format!("\\u{:04x}", c as u32)),
            c => o.push(c),
        }
    }
    o.push('"');
    o
}
