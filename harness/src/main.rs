//! Line-protocol harness: runs the real rapid7/resynth code in-process.
//! One request per line on stdin, one response line on stdout.
use std::io::{self, BufRead, Write};
use std::panic::{catch_unwind, AssertUnwindSafe};

use resynth::stdlib;
use resynth::verif::*;

mod json;
mod libdump;
mod syn;
mod vals;

fn unhex(s: &str) -> Option<Vec<u8>> {
    if s == "-" {
        return Some(vec![]);
    }
    if s.len() % 2 != 0 {
        return None;
    }
    let mut v = Vec::with_capacity(s.len() / 2);
    let b = s.as_bytes();
    for i in (0..b.len()).step_by(2) {
        let h = (b[i] as char).to_digit(16)?;
        let l = (b[i + 1] as char).to_digit(16)?;
        v.push((h * 16 + l) as u8);
    }
    Some(v)
}

pub fn hex(b: &[u8]) -> String {
    if b.is_empty() {
        return "-".to_string();
    }
    let mut s = String::with_capacity(b.len() * 2);
    for x in b {
        s.push_str(&format!("{:02x}", x));
    }
    s
}

fn tok_kind(t: TokType) -> &'static str {
    match t {
        TokType::Eof => "eof",
        TokType::LParen => "lparen",
        TokType::RParen => "rparen",
        TokType::Dot => "dot",
        TokType::DoubleColon => "dcolon",
        TokType::Colon => "colon",
        TokType::SemiColon => "semi",
        TokType::Equals => "equals",
        TokType::Comma => "comma",
        TokType::Slash => "slash",
        TokType::ImportKeyword => "import",
        TokType::LetKeyword => "let",
        TokType::BooleanLiteral => "bool",
        TokType::Identifier => "ident",
        TokType::IPv4Literal => "ipv4",
        TokType::StringLiteral => "str",
        TokType::HexIntegerLiteral => "hex",
        TokType::IntegerLiteral => "int",
        _ => "ignored",
    }
}

fn fmt_tok(t: &Token) -> String {
    let text = t.optval().map(|c| c.to_string()).unwrap_or_default();
    format!(
        "{}:{}:{}:{}",
        tok_kind(t.tok_type()),
        t.loc().line(),
        t.loc().col(),
        hex(text.as_bytes())
    )
}

/// `lexlines <hexline>*` : one Lexer over the given lines (numbered from 1)
fn cmd_lexlines(args: &[&str]) -> String {
    let mut lex = Lexer::default();
    let mut out = String::new();
    for (i, a) in args.iter().enumerate() {
        let bytes = match unhex(a) {
            Some(b) => b,
            None => return "bad-request".into(),
        };
        let line = match String::from_utf8(bytes) {
            Ok(s) => s,
            Err(_) => return "bad-request utf8".into(),
        };
        match lex.line(i + 1, &line) {
            Ok(toks) => {
                out.push_str("ok");
                for t in &toks {
                    out.push(' ');
                    out.push_str(&fmt_tok(t));
                    // every token of line i+1 is located on line i+1 (the rules give no other line); a deviation is made visible
                    if t.loc().line() != i + 1 {
                        out.push_str(&format!("!line={}", t.loc().line()));
                    }
                }
                out.push_str(&format!(" end={}", lex.loc().col()));
                if lex.loc().line() != i + 1 {
                    out.push_str(&format!("!line={}", lex.loc().line()));
                }
                out.push_str(" | ");
            }
            Err(_) => {
                out.push_str(&format!("err {}", lex.loc().col()));
                if lex.loc().line() != i + 1 {
                    out.push_str(&format!("!line={}", lex.loc().line()));
                }
                return out;
            }
        }
    }
    out.push_str("fin");
    if let Some(t) = lex.finish() {
        out.push(' ');
        out.push_str(&fmt_tok(&t));
    }
    out
}

/// `parse <hexsrc>`: the cli.rs loop without a Program: lex each line, feed each token, collect
/// statements; then EOF.
fn cmd_parse(args: &[&str]) -> String {
    let src = match args.first().and_then(|a| unhex(a)) {
        Some(b) => b,
        None => return "bad-request".into(),
    };
    let src = match String::from_utf8(src) {
        Ok(s) => s,
        Err(_) => return "bad-request utf8".into(),
    };
    let mut lex = Lexer::default();
    let mut parse = Parser::default();
    let mut trees: Vec<String> = Vec::new();
    let mut ntok = 0usize;
    for (lno, line) in src.lines().enumerate() {
        let toks = match lex.line(lno + 1, line) {
            Ok(t) => t,
            Err(_) => return format!("lexerr {} {}", lex.loc().line(), lex.loc().col()),
        };
        for tok in toks {
            if parse.feed(&tok).is_err() {
                return format!(
                    "parseerr {} {} {} {}",
                    ntok,
                    tok.loc().line(),
                    tok.loc().col(),
                    trees.join(" ")
                );
            }
            ntok += 1;
        }
        for s in parse.get_results() {
            trees.push(syn::fmt_stmt(&s));
        }
    }
    if let Some(tok) = lex.finish() {
        if parse.feed(&tok).is_err() {
            return format!(
                "parseerr {} {} {} {}",
                ntok,
                tok.loc().line(),
                tok.loc().col(),
                trees.join(" ")
            );
        }
        ntok += 1;
    }
    if parse.feed(&EOF).is_err() {
        return format!(
            "parseerr {} {} {} {}",
            ntok,
            lex.loc().line(),
            lex.loc().col(),
            trees.join(" ")
        );
    }
    for s in parse.get_results() {
        trees.push(syn::fmt_stmt(&s));
    }
    format!("ok {} {}", ntok, trees.join(" "))
}

fn cmd_csum(args: &[&str]) -> String {
    match args.first().and_then(|a| unhex(a)) {
        Some(b) => format!("{}", pkt::ipv4::ip_csum(&b)),
        None => "bad-request".into(),
    }
}

fn dispatch(line: &str) -> String {
    let parts: Vec<&str> = line.split_whitespace().collect();
    if parts.is_empty() {
        return "bad-request".into();
    }
    let args = &parts[1..];
    match parts[0] {
        "lexlines" => cmd_lexlines(args),
        "parse" => cmd_parse(args),
        "csum" => cmd_csum(args),
        "dumplib" => libdump::dump(stdlib::root()),
        "bind" => vals::cmd_bind(args),
        "call" => vals::cmd_call(args),
        "lit" => vals::cmd_lit(args),
        _ => "bad-request".into(),
    }
}

fn main() {
    // Panics are expected outcomes for some requests: silence the default hook.
    std::panic::set_hook(Box::new(|_| {}));
    let stdin = io::stdin();
    let stdout = io::stdout();
    let mut out = io::BufWriter::new(stdout.lock());
    for line in stdin.lock().lines() {
        let line = match line {
            Ok(l) => l,
            Err(_) => break,
        };
        let resp = match catch_unwind(AssertUnwindSafe(|| dispatch(&line))) {
            Ok(r) => r,
            Err(e) => {
                let msg = if let Some(s) = e.downcast_ref::<&str>() {
                    s.to_string()
                } else if let Some(s) = e.downcast_ref::<String>() {
                    s.clone()
                } else {
                    "?".to_string()
                };
                format!("panic {}", msg.replace('\n', " "))
            }
        };
        // the library prints diagnostics with println!; keep responses distinguishable
        writeln!(out, "@@ {}", resp).unwrap();
        out.flush().unwrap();
    }
}
