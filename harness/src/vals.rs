//! Value encoding and the `bind` / `call` / `lit` requests.
use crate::libdump::find_func;
use crate::syn::fmt_val;
use crate::{hex, unhex};
use resynth::stdlib;
use resynth::verif::*;
use std::net::{Ipv4Addr, SocketAddrV4};

/// `nil | bool:true | u8:N | u16:N | u32:N | u64:N | ip4:N | sock4:IP:PORT | str:HEX | $k | func:PATH | timejump:N`
fn parse_val(s: &str, results: &[Val]) -> Option<Val> {
    if s == "nil" {
        return Some(Val::Nil);
    }
    if let Some(k) = s.strip_prefix('$') {
        if let Some((k, m)) = k.split_once('.') {
            let v = results.get(k.parse::<usize>().ok()?)?;
            return v.method_lookup(m).ok();
        }
        return results.get(k.parse::<usize>().ok()?).cloned();
    }
    let (t, v) = s.split_once(':')?;
    Some(match t {
        "bool" => Val::Bool(v == "true"),
        "u8" => Val::U8(v.parse().ok()?),
        "u16" => Val::U16(v.parse().ok()?),
        "u32" => Val::U32(v.parse().ok()?),
        "u64" => Val::U64(v.parse().ok()?),
        "ip4" => Val::Ip4(Ipv4Addr::from(v.parse::<u32>().ok()?)),
        "sock4" => {
            let (a, p) = v.split_once(':')?;
            Val::Sock4(SocketAddrV4::new(
                Ipv4Addr::from(a.parse::<u32>().ok()?),
                p.parse().ok()?,
            ))
        }
        "str" => Val::str(&unhex(v)?[..]),
        "func" => Val::Func(find_func(stdlib::root(), v)?),
        "pkt" => {
            let b = unhex(v)?;
            let p = pkt::Packet::with_capacity(b.len());
            p.push_bytes(&b[..]);
            Val::from(p)
        }
        "pktgen" => {
            let inner = v.strip_prefix('[')?.strip_suffix(']')?;
            let mut ps = Vec::new();
            for h in inner.split(',').filter(|x| !x.is_empty()) {
                let b = unhex(h)?;
                let p = pkt::Packet::with_capacity(b.len());
                p.push_bytes(&b[..]);
                ps.push(p);
            }
            Val::from(ps)
        }
        "mk" => mk_obj(v)?,
        "mkm" => {
            let (k, m) = v.split_once('.')?;
            mk_obj(k)?.method_lookup(m).ok()?
        }
        "timejump" => Val::TimeJump(v.parse().ok()?),
        _ => return None,
    })
}

/// a fresh object of the given kind, made by the real constructor with fixed arguments
fn mk_obj(kind: &str) -> Option<Val> {
    let sock = |a: u32, p: u16| Val::Sock4(SocketAddrV4::new(Ipv4Addr::from(a), p));
    let ip = |a: u32| Val::Ip4(Ipv4Addr::from(a));
    let an = |v: Val| ArgSpec::new(None, v);
    let (path, args): (&str, Vec<ArgSpec>) = match kind {
        "tcp" => ("ipv4::tcp::flow", vec![an(sock(0x01020304, 1000)), an(sock(0x05060708, 80))]),
        "udp" => ("ipv4::udp::flow", vec![an(sock(0x01020304, 1000)), an(sock(0x05060708, 53))]),
        "icmp" => ("ipv4::icmp::flow", vec![an(ip(0x01020304)), an(ip(0x05060708))]),
        "frag" => ("ipv4::frag", vec![an(ip(0x01020304)), an(ip(0x05060708)), an(Val::str(&b"0123456789abcdefghij"[..]))]),
        "vxlan" => ("vxlan::session", vec![an(sock(0x01020304, 1000)), an(sock(0x05060708, 4789))]),
        "gre" => ("gre::session", vec![an(ip(0x01020304)), an(ip(0x05060708)), an(Val::U64(0x6558))]),
        "erspan1" => ("erspan1::session", vec![an(ip(0x01020304)), an(ip(0x05060708))]),
        "erspan2" => ("erspan2::session", vec![an(ip(0x01020304)), an(ip(0x05060708))]),
        "bufio" => ("io::bufio", vec![an(Val::str(&b"0123456789"[..]))]),
        _ => return None,
    };
    let f = find_func(stdlib::root(), path)?;
    let a = f.args(None, args).ok()?;
    (f.exec)(a).ok()
}

fn parse_argspecs(args: &[&str], results: &[Val]) -> Option<Vec<ArgSpec>> {
    let mut v = Vec::new();
    for a in args {
        let (n, val) = a.split_once('=')?;
        let name = if n == "-" { None } else { Some(n.to_string()) };
        v.push(ArgSpec::new(name, parse_val(val, results)?));
    }
    Some(v)
}

fn fmt_result(v: &Val) -> String {
    match v {
        Val::Obj(o) => format!("obj:{}", o.borrow().class_name()),
        Val::Func(f) => format!("func:{}", f.name),
        Val::Method(o, f) => format!("method:{}.{}", o.borrow().class_name(), f.name),
        other => fmt_val(other),
    }
}

fn err_name(e: &Error) -> &'static str {
    match e {
        Error::IoError(_) => "Io",
        Error::LexError => "Lex",
        Error::ParseError => "Parse",
        Error::MemoryError => "Memory",
        Error::ImportError(_) => "Import",
        Error::NameError => "Name",
        Error::TypeError => "Type",
        Error::RuntimeError => "Runtime",
        Error::MultipleAssignError(_) => "MultipleAssign",
    }
}

/// `bind <funcpath> (<name|->=VAL)*` → `ok args=v;v extra=v;v` | `typeerr`
pub fn cmd_bind(args: &[&str]) -> String {
    let f = match args.first().and_then(|p| find_func(stdlib::root(), p)) {
        Some(f) => f,
        None => return "bad-request nofunc".into(),
    };
    let specs = match parse_argspecs(&args[1..], &[]) {
        Some(s) => s,
        None => return "bad-request args".into(),
    };
    match f.argvec(None, specs) {
        Err(e) => format!("err {}", err_name(&e)),
        Ok(av) => {
            let mut a: Args = av.into();
            let mut pos = Vec::new();
            for _ in 0..f.args.len() {
                pos.push(fmt_result(&a.next()));
            }
            let extra: Vec<String> = a.raw_extra_args().iter().map(fmt_result).collect();
            format!("ok args={} extra={}", pos.join(";"), extra.join(";"))
        }
    }
}

/// `call <step> (| <step>)*`, step = `<funcpath | $k.method> (<name|->=VAL)*`; `$k` = result of step k.
/// Every step is executed; the response lists one result per step.
pub fn cmd_call(args: &[&str]) -> String {
    let mut results: Vec<Val> = Vec::new();
    let mut outs: Vec<String> = Vec::new();
    for step in args.split(|a| *a == "|") {
        if step.is_empty() {
            return "bad-request empty step".into();
        }
        let target = step[0];
        let (f, this): (&'static FuncDef, Option<ObjRef>) = if target.starts_with('$') {
            match parse_val(target, &results) {
                Some(Val::Method(o, f)) => (f, Some(o)),
                _ => {
                    outs.push("err NoMethod".into());
                    results.push(Val::Nil);
                    continue;
                }
            }
        } else {
            match find_func(stdlib::root(), target) {
                Some(f) => (f, None),
                None => return "bad-request nofunc".into(),
            }
        };
        let specs = match parse_argspecs(&step[1..], &results) {
            Some(s) => s,
            None => return "bad-request args".into(),
        };
        let r = std::panic::catch_unwind(std::panic::AssertUnwindSafe(|| {
            let a = f.args(this, specs)?;
            (f.exec)(a)
        }));
        match r {
            Ok(Ok(v)) => {
                outs.push(format!("ok {}", fmt_result(&v)));
                results.push(v);
            }
            Ok(Err(e)) => {
                outs.push(format!("err {}", err_name(&e)));
                results.push(Val::Nil);
            }
            Err(_) => {
                outs.push("panic".into());
                results.push(Val::Nil);
            }
        }
    }
    outs.join(" | ")
}

/// `lit <hex of string-literal text>`: `Buf::from_str`
pub fn cmd_lit(args: &[&str]) -> String {
    let b = match args.first().and_then(|a| unhex(a)) {
        Some(b) => b,
        None => return "bad-request".into(),
    };
    let s = match String::from_utf8(b) {
        Ok(s) => s,
        Err(_) => return "bad-request utf8".into(),
    };
    match s.parse::<Buf>() {
        Ok(b) => format!("ok {}", hex(b.as_ref())),
        Err(_) => "err".into(),
    }
}
