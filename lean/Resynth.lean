import Resynth.Model.Bytes
import Resynth.Model.Csum
import Resynth.Model.Hdr
import Resynth.Model.Tcp
import Resynth.Model.Flows
import Resynth.Model.Pcap
import Resynth.Model.Syntax
import Resynth.Model.Lit
