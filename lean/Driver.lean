import Resynth.Model.Batch
import Resynth.Gen.Stdlib
import Resynth.Model.Docs
import Resynth.Spec.Pcap
import Resynth.Spec.TcpDecode
import Resynth.Spec.Rfc791
import Resynth.Spec.Tunnel
import Resynth.Spec.Net
import Resynth.Spec.Grammar
import Resynth.Spec.Lexical
import Resynth.Spec.Calling
import Resynth.Spec.Framing
import Resynth.Spec.Dns
import Resynth.Spec.Registry
/-!
# Line-protocol driver over the model: one request per line, one response per line.
Mirrors /verif/harness (which runs the real Rust code) request for request.
-/
open Resynth

def fmtLoc (l : Loc) : String := s!"{l.line}:{l.col}"

def fmtLit : Lit → String
  | .bool b => s!"bool:{b}"
  | .u64 n => s!"u64:{n}"
  | .ip4 a => s!"ip4:{a}"
  | .sock4 i p => s!"sock4:{i}:{p}"
  | .str s => s!"str:{hexOrDash s}"

def fmtRef (o : ObjRef) : String :=
  s!"(ref {fmtLoc o.loc} mods={",".intercalate o.modules} comps={",".intercalate o.components})"

mutual
def fmtExpr : Expr → String
  | .nil => "nil"
  | .lit l v => s!"(lit {fmtLoc l} {fmtLit v})"
  | .ref o => fmtRef o
  | .call o args => s!"(call {fmtRef o}{fmtArgs args})"
  | .slash a b => s!"(slash {fmtExpr a} {fmtExpr b})"
def fmtArgs : Args → String
  | .nil => ""
  | .cons n e r => s!" [{n.getD "-"} {fmtExpr e}]" ++ fmtArgs r
end

def fmtStmt : Stmt → String
  | .imp l m => s!"(import {fmtLoc l} {m})"
  | .assign l t e => s!"(let {fmtLoc l} {t} {fmtExpr e})"
  | .expr e => s!"(expr {fmtExpr e})"

def fmtTok (t : Tok) : String :=
  s!"{t.kind.name}:{t.loc.line}:{t.loc.col}:{hexOrDash t.text.toUTF8.toList}"

def fmtVal : Val → String
  | .nil => "nil" | .bool b => s!"bool:{b}" | .u8 n => s!"u8:{n}" | .u16 n => s!"u16:{n}"
  | .u32 n => s!"u32:{n}" | .u64 n => s!"u64:{n}" | .ip4 a => s!"ip4:{a}" | .sock4 i p => s!"sock4:{i}:{p}"
  | .str s => s!"str:{hexOrDash s}"
  | .obj _ cls => s!"obj:{(cls.splitOn "::").getLast!}"
  | .func p => s!"func:{(p.splitOn "::").getLast!}"
  | .method _ cls p => s!"method:{(cls.splitOn "::").getLast!}.{(p.splitOn ".").getLast!}"
  | .pkt p => s!"pkt:{hexOrDash p.frame}"
  | .pktgen ps => s!"pktgen:[{",".intercalate (ps.map fun p => hexOrDash p.frame)}]"
  | .timejump n => s!"timejump:{n}"

def decodeHexStr (h : String) : Option String := (ofHex h).bind utf8Decode

/-- `lexlines` -/
def cmdLexlines (args : List String) : String := Id.run do
  let mut pending : Option String := none
  let mut out := ""
  let mut lno := 1
  let mut endLoc : Loc := Loc.nil
  for a in args do
    match decodeHexStr a with
    | none => return "bad-request"
    | some ln =>
      match Lex.line lno pending ln with
      | .error c => return out ++ s!"err {c}"
      | .ok lo =>
        out := out ++ "ok" ++ String.join (lo.toks.map fun t => " " ++ fmtTok t) ++ s!" end={lo.endCol} | "
        pending := lo.pending
        endLoc := ⟨lno, lo.endCol⟩
        lno := lno + 1
  -- the literal still pending after the last line (`Lexer::finish`)
  return out ++ "fin" ++ (match Lex.finish pending endLoc with | some t => " " ++ fmtTok t | none => "")

/-- Rust `str::lines`: split on \n, strip a trailing \r of each line, no final empty line -/
def strLines (s : String) : List String :=
  let parts := s.splitOn "\n"
  let parts := if parts.getLast? == some "" then parts.dropLast else parts
  parts.map fun p => if p.endsWith "\r" then (p.dropEnd 1).toString else p

def cmdParse (args : List String) : String := Id.run do
  let some src := args.head?.bind decodeHexStr | return "bad-request"
  let mut pending : Option String := none
  let mut cfg := LR.Cfg.init
  let mut trees : List String := []
  let mut ntok := 0
  let mut lno := 1
  let mut endLoc : Loc := Loc.nil
  for ln in strLines src do
    match Lex.line lno pending ln with
    | .error c => return s!"lexerr {lno} {c}"
    | .ok lo =>
      for t in lo.toks do
        match LR.feed cfg t with
        | .ok c => cfg := c; ntok := ntok + 1
        | .parseError => return s!"parseerr {ntok} {t.loc.line} {t.loc.col} {" ".intercalate trees}"
        | .panic => return "panic parser"
      let (ss, c) := cfg.takeResults
      cfg := c
      trees := trees ++ ss.map fmtStmt
      pending := lo.pending
      endLoc := ⟨lno, lo.endCol⟩
      lno := lno + 1
  match Lex.finish pending endLoc with
  | some t =>
    match LR.feed cfg t with
    | .ok c => cfg := c; ntok := ntok + 1
    | .parseError => return s!"parseerr {ntok} {t.loc.line} {t.loc.col} {" ".intercalate trees}"
    | .panic => return "panic parser"
  | none => pure ()
  match LR.feed cfg LR.eofTok with
  | .parseError => return s!"parseerr {ntok} {endLoc.line} {endLoc.col} {" ".intercalate trees}"
  | .panic => return "panic parser"
  | .ok c =>
    let (ss, _) := c.takeResults
    trees := trees ++ ss.map fmtStmt
    return s!"ok {ntok} {" ".intercalate trees}"

def mkCls : String → Option String
  | "tcp" => some "ipv4::tcp::TcpFlow" | "udp" => some "ipv4::udp::UdpFlow" | "icmp" => some "ipv4::icmp::Icmp"
  | "frag" => some "ipv4::IpFrag" | "vxlan" => some "vxlan::Vxlan" | "gre" => some "gre::Gre"
  | "erspan1" => some "erspan1::Erspan1" | "erspan2" => some "erspan2::Erspan2" | "bufio" => some "io::BufIO"
  | _ => none

def parseVal (results : List Val) (s : String) : Option Val :=
  if s == "nil" then some .nil
  else if s.startsWith "$" then
    let body := (s.drop 1).toString
    match body.splitOn "." with
    | [k] => k.toNat?.bind fun k => results[k]?
    | [k, m] =>
      match k.toNat?.bind (fun k => results[k]?) with
      | some (.obj id cls) =>
        match Gen.lib.get (cls ++ "." ++ m) with
        | some (.func f) => some (.method id cls f.path)
        | _ => none
      | _ => none
    | _ => none
  else match s.splitOn ":" with
    | ["bool", v] => some (.bool (v == "true"))
    | ["u8", v] => v.toNat?.map .u8
    | ["u16", v] => v.toNat?.map .u16
    | ["u32", v] => v.toNat?.map .u32
    | ["u64", v] => v.toNat?.map .u64
    | ["ip4", v] => v.toNat?.map .ip4
    | ["sock4", a, p] => do some (.sock4 (← a.toNat?) (← p.toNat?))
    | ["str", v] => (ofHex v).map .str
    | ["timejump", v] => v.toNat?.map .timejump
    | ["pkt", v] => (ofHex v).map fun b => .pkt (Packet.ofFrame b)
    | ["pktgen", v] =>
      let inner := ((v.drop 1).dropEnd 1).toString
      ((inner.splitOn ",").filter (· != "")).mapM ofHex |>.map fun bs => .pktgen (bs.map Packet.ofFrame)
    | ["mk", k] => (mkCls k).map fun c => .obj 0 c
    | ["mkm", km] =>
      match km.splitOn "." with
      | [k, m] => (mkCls k).bind fun c => match Gen.lib.get (c ++ "." ++ m) with
        | some (.func f) => some (.method 0 c f.path)
        | _ => none
      | _ => none
    | "func" :: rest =>
      let p := ":".intercalate rest
      match Gen.lib.get p with | some (.func f) => some (.func f.path) | _ => none
    | _ => none

def parseArgSpecs (results : List Val) (args : List String) : Option (List ArgSpec) :=
  args.mapM fun a =>
    match a.splitOn "=" with
    | [n, v] => (parseVal results v).map fun v => ⟨if n == "-" then none else some n, v⟩
    | _ => none

def cmdBind (args : List String) : String :=
  match args with
  | [] => "bad-request"
  | p :: rest =>
    match Gen.lib.get p with
    | some (.func f) =>
      match parseArgSpecs [] rest with
      | none => "bad-request args"
      | some specs =>
        match Bind.argvec f specs with
        | .typeError _ => "err Type"
        | .panic s => s!"panic {s}"
        | .ok av => s!"ok args={";".intercalate (av.args.map fmtVal)} extra={";".intercalate (av.extra.map fmtVal)}"
    | _ => "bad-request nofunc"

def splitSteps (args : List String) : List (List String) :=
  let (cur, acc) := args.foldl (fun (p : List String × List (List String)) a =>
    if a == "|" then ([], p.2 ++ [p.1]) else (p.1 ++ [a], p.2)) ([], [])
  acc ++ [cur]

def cmdCall (args : List String) : String := Id.run do
  let mut results : List Val := []
  let mut heap : Heap := []
  let mut outs : List String := []
  for step in splitSteps args do
    match step with
    | [] => return "bad-request empty step"
    | target :: rest =>
      let callee : Option (FuncDef × Option Nat) :=
        if target.startsWith "$" then
          match parseVal results target with
          | some (.method id _ path) =>
            match Gen.lib.get path with | some (.func f) => some (f, some id) | _ => none
          | _ => none
        else match Gen.lib.get target with
          | some (.func f) => some (f, none)
          | _ => none
      match callee with
      | none =>
        if target.startsWith "$" then
          outs := outs ++ ["err NoMethod"]; results := results ++ [.nil]
        else return "bad-request nofunc"
      | some (f, this) =>
        match parseArgSpecs results rest with
        | none => return "bad-request args"
        | some specs =>
          match Bind.argvec f specs with
          | .typeError _ => outs := outs ++ ["err Type"]; results := results ++ [.nil]
          | .panic _ => outs := outs ++ ["panic"]; results := results ++ [.nil]
          | .ok av =>
            match exec [] f.path this av heap with
            | .ok (v, h) => heap := h; outs := outs ++ [s!"ok {fmtVal v}"]; results := results ++ [v]
            | .err e _ => outs := outs ++ [s!"err {e.cls}"]; results := results ++ [.nil]
            | .panic _ => outs := outs ++ ["panic"]; results := results ++ [.nil]
  return " | ".intercalate outs

def cmdLit (args : List String) : String :=
  match args.head?.bind decodeHexStr with
  | none => "bad-request"
  | some s => match decodeStr s with
    | some b => s!"ok {hexOrDash b}"
    | none => "err"

def fmtOutcome : Outcome → String
  | .success => "success"
  | .failure cls d loc => s!"failure {cls} {fmtLoc loc} {if d.isEmpty then "-" else d}"
  | .panic s => s!"panic {s}"

/-- `prog <srchex> <budget|-> (<namehex>=<datahex>)*` -/
def cmdProg (args : List String) : String :=
  match args with
  | src :: budget :: files =>
    match ofHex src with
    | none => "bad-request"
    | some src =>
      let fs : Fs := files.filterMap fun f => match f.splitOn "=" with
        | [n, d] => do some (← ofHex n, ← ofHex d)
        | _ => none
      let r := processFile ⟨Gen.lib, fs⟩ budget.toNat? src
      s!"{fmtOutcome r.outcome} file={hexOrDash r.file} warnings={",".intercalate (r.warnings.map fmtLoc)} times={",".intercalate (r.emitted.map fun e => toString e.1)}"
  | _ => "bad-request"

/-- `batch <keep 0|1> (<stemhex|->:<srchex|MISSING>:<outok 0|1>:<budget|->)*` : the command-line loop over several inputs -/
def cmdBatch (args : List String) : String :=
  match args with
  | keep :: ins =>
    let inputs : Option (List Input) := ins.mapM fun a =>
      match a.splitOn ":" with
      | [st, src, ok, bud] => do
        let stem ← if st == "-" then some none else (decodeHexStr st).map some
        let unreadable := src == "UNREADABLE"
        let src ← if src == "MISSING" then some none else if unreadable then some (some []) else (ofHex src).map some
        some { stem := stem, src := src, unreadable := unreadable, outOk := ok == "1", budget := bud.toNat? }
      | _ => none
    match inputs with
    | none => "bad-request"
    | some inputs =>
      let r := runBatch ⟨Gen.lib, []⟩ (keep == "1") [] inputs
      let rep := r.reports.map fun
        | .ok => "ok"
        | .error cls _ loc => s!"error:{cls}:{loc.line}:{loc.col}"
        | .notAFileName => "notafilename"
        | .panic s => s!"panic:{s}"
      let dir := (r.dir.map fun (k, v) => s!"{hexOrDash k.toUTF8.toList}={hexOrDash v}")
      s!"exit={r.exit} reports={",".intercalate rep} dir={";".intercalate dir}"
  | _ => "bad-request"

def hx (b : Bytes) : String := hexOrDash b
def hxs (bs : List Bytes) : String := ",".intercalate (bs.map hx)

def fmtRR (r : Spec.DnsRR) : String := s!"[{".".intercalate (r.name.map hx)} {r.rtype} {r.rclass} {r.ttl} {hx r.rdata}]"

/-- `oracle frame <kind> <hex>`: the independent parsers of Spec/Framing.lean and Spec/Dns.lean -/
def oracleFrame (kind : String) (b : Bytes) : String :=
  match kind.splitOn ":" with
  | ["lenpfx", w] => match w.toNat?.bind (fun w => Spec.parseLenPrefixed w b) with
    | some (body, rest) => s!"ok body={hx body} rest={hx rest}" | none => "none"
  | ["uint", w] => match w.toNat?.bind (fun w => Spec.parseUInt w b) with
    | some (n, rest) => s!"ok n={n} rest={hx rest}" | none => "none"
  | ["tlsrecord"] => match Spec.parseTlsRecord b with
    | some (c, v, p, r) => s!"ok content={c} version={v} payload={hx p} rest={hx r}" | none => "none"
  | ["handshake"] => match Spec.parseHandshake b with
    | some (t, body, r) => s!"ok typ={t} body={hx body} rest={hx r}" | none => "none"
  | ["extension"] => match Spec.parseExtension b with
    | some ((e, d), r) => s!"ok ext={e} data={hx d} rest={hx r}" | none => "none"
  | ["extlist"] => match Spec.parseExtensionList b with
    | some l => s!"ok exts={",".intercalate (l.map fun e => s!"{e.1}:{hx e.2}")}" | none => "none"
  | ["sni"] => match Spec.parseSni b with
    | some (names, r) => s!"ok names={hxs names} rest={hx r}" | none => "none"
  | ["certs"] => match Spec.parseCertificates b with
    | some (cs, r) => s!"ok certs={hxs cs} rest={hx r}" | none => "none"
  | ["ciphers"] => match Spec.parseCipherList b with
    | some (ids, r) => s!"ok ids={",".intercalate (ids.map toString)} rest={hx r}" | none => "none"
  | ["clienthello"] => match Spec.parseClientHello b with
    | some (h, r) => s!"ok version={h.version} random={hx h.random} sid={hx h.sessionId} ciphers={",".intercalate (h.ciphers.map toString)} comp={hx h.compression} ext={match h.extensions with | some e => hx e | none => "absent"} rest={hx r}"
    | none => "none"
  | ["serverhello"] => match Spec.parseServerHello b with
    | some (h, r) => s!"ok version={h.version} random={hx h.random} sid={hx h.sessionId} cipher={h.cipher} comp={h.compression} ext={match h.extensions with | some e => hx e | none => "absent"} rest={hx r}"
    | none => "none"
  | ["helloheader"] => match Spec.parseHelloHeader b with
    | some ((t, v, rnd, body), r) => s!"ok typ={t} version={v} random={hx rnd} body={hx body} rest={hx r}" | none => "none"
  | ["dhcpopt"] => match Spec.parseDhcpOption b with
    | some ((o, d), r) => s!"ok opt={o} data={hx d} rest={hx r}" | none => "none"
  | ["rr", n] => match n.toNat?.bind (fun n => Spec.parseRR n b) with
    | some ((name, f), r) => s!"ok name={hx name} type={f.type} class={f.cls} ttl={f.ttl} data={hx f.rdata} rest={hx r}" | none => "none"
  | ["name"] => match Spec.parseName b with
    | some (labels, r) => s!"ok labels={".".intercalate (labels.map hx)} rest={hx r}" | none => "none"
  | ["pointer"] => match Spec.parsePointer b with
    | some (o, r) => s!"ok off={o} rest={hx r}" | none => "none"
  | ["netbios"] => match Spec.netbiosDecode b with
    | some d => s!"ok name={hx d}" | none => "none"
  | ["flags"] =>
    let f := Spec.splitFlags (beNat b)
    s!"ok qr={f.qr} opcode={f.opcode} aa={f.aa} tc={f.tc} rd={f.rd} ra={f.ra} z={f.z} ad={f.ad} cd={f.cd} rcode={f.rcode}"
  | ["dnsmsg"] => match Spec.parseDnsMessage b with
    | some m =>
      let f := m.flags
      s!"ok id={m.id} qr={f.qr} opcode={f.opcode} aa={f.aa} tc={f.tc} rd={f.rd} ra={f.ra} z={f.z} ad={f.ad} cd={f.cd} rcode={f.rcode} counts={m.qdcount},{m.ancount},{m.nscount},{m.arcount} q={";".intercalate (m.questions.map fun q => s!"[{".".intercalate (q.name.map hx)} {q.qtype} {q.qclass}]")} an={";".intercalate (m.answers.map fmtRR)}"
    | none => "none"
  | ["dhcp"] =>
    let fs : List (String × Spec.DhcpField) := [("op", .op), ("htype", .htype), ("hlen", .hlen), ("hops", .hops), ("xid", .xid),
      ("secs", .secs), ("flags", .flags), ("ciaddr", .ciaddr), ("yiaddr", .yiaddr), ("siaddr", .siaddr), ("giaddr", .giaddr),
      ("chaddr", .chaddr), ("sname", .sname), ("file", .file), ("magic", .magic)]
    s!"ok len={b.length} " ++ " ".intercalate (fs.map fun (n, f) => s!"{n}={match Spec.dhcpField f b with | some v => hx v | none => "none"}")
  | ["udpframe", raw] => match Spec.parseUdpFrame (raw == "1") b with
    | some u => s!"ok sip={u.srcIp} sport={u.srcPort} dip={u.dstIp} dport={u.dstPort} payload={hx u.payload}" | none => "none"
  | _ => "bad-request"

def optNat (s : String) : Option (Option Nat) := if s == "-" then some none else s.toNat?.map some

/-- op encoding: `open` `cm:HEX:ACK01:FO:SEQ:ACK` `sm:…` `cs:HEX:SEQ:ACK` `ss:…` `crs:…` `srs:…`
`chdr:N` `shdr:N` `ca:SEQ:ACK` `sa:…` `chole:N` `shole:N` `cclose` `sclose` `crst` `srst` -/
def parseTcpOp (s : String) : Option TcpOp :=
  match s.splitOn ":" with
  | ["open"] => some .open
  | ["cm", h, a, fo, sq, ak] => do some (.clientMessage (← ofHex h) (a == "1") (← fo.toNat?) (← optNat sq) (← optNat ak))
  | ["sm", h, a, fo, sq, ak] => do some (.serverMessage (← ofHex h) (a == "1") (← fo.toNat?) (← optNat sq) (← optNat ak))
  | ["cs", h, sq, ak] => do some (.clientSegment (← ofHex h) (← optNat sq) (← optNat ak))
  | ["ss", h, sq, ak] => do some (.serverSegment (← ofHex h) (← optNat sq) (← optNat ak))
  | ["crs", h, sq, ak] => do some (.clientRawSegment (← ofHex h) (← optNat sq) (← optNat ak))
  | ["srs", h, sq, ak] => do some (.serverRawSegment (← ofHex h) (← optNat sq) (← optNat ak))
  | ["chdr", n] => n.toNat?.map .clientHdr
  | ["shdr", n] => n.toNat?.map .serverHdr
  | ["ca", sq, ak] => do some (.clientAck (← optNat sq) (← optNat ak))
  | ["sa", sq, ak] => do some (.serverAck (← optNat sq) (← optNat ak))
  | ["chole", n] => n.toNat?.map .clientHole
  | ["shole", n] => n.toNat?.map .serverHole
  | ["cclose"] => some .clientClose
  | ["sclose"] => some .serverClose
  | ["crst"] => some .clientReset
  | ["srst"] => some .serverReset
  | _ => none

/-- the campaign puts raw segments and header-only results on the wire too (wrapped in ipv4::datagram) -/
def onWire : TcpOp → Bool := fun _ => true

def wireExpected (c0 s0 : Nat) (pre : List TcpOp) : List TcpOp → List TcpStream.Segment
  | [] => []
  | op :: ops =>
    (if onWire op then TcpStream.expectedOpsAux c0 s0 pre [op] else []) ++ wireExpected c0 s0 (pre ++ [op]) ops

/-- `oracle tcp <clIp> <clPort> <c0> <s0> <ops,comma-separated> <ip datagrams hex, comma-separated>`:
C04's spec evaluated on the segments the implementation really emitted -/
def oracleTcp (args : List String) : String :=
  match args with
  | [clIp, clPort, c0, s0, ops, frames] =>
    match clIp.toNat?, clPort.toNat?, c0.toNat?, s0.toNat?, (ops.splitOn ",").mapM parseTcpOp,
          ((frames.splitOn ",").filter (fun x => x != "" && x != "-")).mapM ofHex with
    | some clIp, some clPort, some c0, some s0, some ops, some frames =>
      match frames.mapM (TcpStream.decodeSegment clIp clPort) with
      | none => "bad undecodable-segment"
      | some segs =>
        let exp := wireExpected c0 s0 [] ops
        if segs != exp then
          let i := (List.range (max segs.length exp.length)).find? (fun i => segs[i]? != exp[i]?)
          s!"bad segment-mismatch at {i.getD 0}: got {repr (segs[i.getD 0]?)} expected {repr (exp[i.getD 0]?)}"
        else if TcpStream.noOverrides ops && ops.all onWire then
          let evs := ops.flatMap TcpOp.events
          let check (d : TcpStream.Dir) : Bool :=
            let n := TcpStream.consumed d evs
            n > 4096 || TcpStream.reassemble (TcpStream.isn c0 s0 d) d segs.reverse n == TcpStream.scriptCells d evs
          if check .c2s && check .s2c then s!"ok {segs.length} reassembled" else "bad reassembly"
        else s!"ok {segs.length}"
    | _, _, _, _, _, _ => "bad-request"
  | _ => "bad-request"

/-- `oracle <name> <hex>…`: the executable Spec predicates, run on bytes the implementation produced -/
def cmdOracle (args : List String) : String :=
  match args with
  | ["pcap", h] =>
    match ofHex h with
    | none => "bad-request"
    | some b =>
      match Spec.parsePcap b with
      | none => "bad unparsable"
      | some (_, rs) =>
        if Spec.pcapWellFormed b then
          s!"ok {rs.length} {",".intercalate (rs.map fun r => s!"{r.time}:{r.len}")}"
        else "bad fields"
  | "tcp" :: rest => oracleTcp rest
  | ["decap", kind, h] =>
    match ofHex h with
    | none => "bad-request"
    | some b =>
      match kind with
      | "vxlan" => match Spec.decapVxlan b with
        | some v => s!"ok sport={v.srcPort} dport={v.dstPort} vni={v.vni} inner={hexOrDash v.inner}"
        | none => "bad"
      | "gre" => match Spec.decapGre b with
        | some g => s!"ok flags={g.flags} proto={g.proto} seq={match g.seq with | some n => toString n | none => "-"} inner={hexOrDash g.inner}"
        | none => "bad"
      | "erspan1" => match Spec.decapErspan1 b with
        | some i => s!"ok inner={hexOrDash i}"
        | none => "bad"
      | "erspan2" => match Spec.decapErspan2 b with
        | some e => s!"ok seq={e.seq} ver={e.ver} vlan={e.vlan} cos={e.cos} en={e.en} t={e.t} session={e.sessionId} index={e.portIndex} inner={hexOrDash e.inner}"
        | none => "bad"
      | _ => "bad-request"
  | ["decappos", kind, h] =>
    -- outer datagram larger than 65535 bytes: positional decapsulation (Spec.decapPositional)
    let k? : Option Spec.TunnelKind :=
      if kind == "vxlan" then some .vxlan else if kind == "gre" then some .gre
      else if kind == "erspan1" then some .erspan1 else if kind == "erspan2" then some .erspan2 else none
    match ofHex h, k? with
    | some b, some k => match Spec.decapPositional k b with
      | some i => s!"ok inner={hexOrDash i}"
      | none => "bad"
    | _, _ => "bad-request"
  | ["net", raw, h] =>
    match ofHex h with
    | none => "bad-request"
    | some frame =>
      let d := Spec.ipOfFrame (raw == "1") frame
      s!"ok ipok={Spec.ipv4Ok d} src={Spec.ipSrc d} dst={Spec.ipDst d} proto={Spec.ipProto d} id={Spec.ipId d} ttl={Spec.ipTtl d} off={Spec.ipFragOff d} evil={Spec.ipEvil d} df={Spec.ipDF d} mf={Spec.ipMF d} tcpok={Spec.l4Ok 6 d} udpok={Spec.l4Ok 17 d} udplen={Spec.udpLenOk d} udpcsum={Spec.udpCsumField d} sport={Spec.udpSrcPort d} dport={Spec.udpDstPort d} icmptype={Spec.u8At d 20} icmpid={Spec.u16At d 24} icmpseq={Spec.u16At d 26} icmpok={Spec.icmpEchoOk (Spec.u8At d 20) (Spec.u16At d 24) (Spec.u16At d 26) d} ethok={Spec.ethMatchesIp frame} ethbc={Spec.ethBroadcastMatchesIp frame} len={d.length}"
  | "bind" :: p :: rest =>
    match Gen.lib.get p with
    | some (.func f) =>
      match parseArgSpecs [] rest with
      | none => "bad-request args"
      | some specs =>
        match Spec.bind f (specs.map fun a => (a.name, a.val)) with
        | none => "err Type"
        | some (args, tail) => s!"ok args={";".intercalate (args.map fmtVal)} extra={";".intercalate (tail.map fmtVal)}"
    | _ => "bad-request nofunc"
  | ["registry", m, name, n] =>
    match n.toNat? with
    | none => "bad-request"
    | some n =>
      if (Spec.Registry.tableOf m).isNone then "noregistry"
      else if Spec.Registry.assigns m name n then "ok" else "mismatch"
  | ["frame", kind, h] => match ofHex h with | some b => oracleFrame kind b | none => "bad-request"
  | "lex" :: lines =>
    -- Spec.lexLine over the given lines, threading the pending string (format of `lexlines` without end=)
    Id.run do
      let mut pending : Option String := none
      let mut out := ""
      let mut lno := 1
      let mut endLoc : Loc := Loc.nil
      for a in lines do
        match decodeHexStr a with
        | none => return "bad-request"
        | some ln =>
          match Spec.lexLine lno pending ln with
          | .error c => return out ++ s!"err {c}"
          | .ok (toks, p) =>
            out := out ++ "ok" ++ String.join (toks.map fun t => " " ++ fmtTok t) ++ " | "
            pending := p
            -- a line that lexes is consumed to its end: the lexer stops one past its last byte
            endLoc := ⟨lno, ln.utf8ByteSize + 1⟩
            lno := lno + 1
      return out ++ "fin" ++ String.join ((Spec.lexFinish pending endLoc).map fun t => " " ++ fmtTok t)
  | "parse" :: toks =>
    -- tokens as kind:line:col:texthex (what the real lexer produced); Spec.parse decides
    let ts := toks.mapM fun t => match t.splitOn ":" with
      | [k, l, c, h] => do
        let kind ← TokKind.ofName k
        let txt ← (ofHex h).bind utf8Decode
        some (⟨kind, txt, ⟨← l.toNat?, ← c.toNat?⟩⟩ : Tok)
      | _ => none
    match ts with
    | none => "bad-request"
    | some ts =>
      match Spec.parse ts with
      | .ok ss => s!"ok {ts.length} {" ".intercalate (ss.map fmtStmt)}"
      | .error i => s!"parseerr {i}"
  | ["frag", h] =>
    match (ofHex h).bind Spec.decodeFrag with
    | some f => s!"ok src={f.src} dst={f.dst} proto={f.proto} id={f.id} ttl={f.ttl} evil={f.evil} df={f.df} mf={f.mf} off={f.offset} data={hexOrDash f.data}"
    | none => "bad"
  | ["reasm", hs] =>
    match ((hs.splitOn ",").filter (fun x => x != "")).mapM ofHex with
    | some pkts => match Spec.reassemblePkts pkts with
      | some b => s!"ok {hexOrDash b}"
      | none => "none"
    | none => "bad-request"
  | _ => "bad-request"

def dispatch (line : String) : String :=
  match (line.trimAscii.toString.splitOn " ").filter (· != "") with
  | [] => "bad-request"
  | cmd :: args =>
    match cmd with
    | "csum" => match args.head?.bind ofHex with
      | some b => toString (ipCsum b)
      | none => "bad-request"
    | "lexlines" => cmdLexlines args
    | "parse" => cmdParse args
    | "bind" => cmdBind args
    | "call" => cmdCall args
    | "lit" => cmdLit args
    | "prog" => cmdProg args
    | "batch" => cmdBatch args
    | "oracle" => cmdOracle args
    | "docs" => " ".intercalate ((Docs.allPages Gen.lib Gen.docs).map fun (n, t) => s!"{n}={hexOrDash t.toUTF8.toList}")
    | _ => "bad-request"

partial def loop (h : IO.FS.Stream) (out : IO.FS.Stream) : IO Unit := do
  let line ← h.getLine
  if line.isEmpty then return ()
  out.putStrLn ("@@ " ++ dispatch line)
  out.flush
  loop h out

def main : IO Unit := do loop (← IO.getStdin) (← IO.getStdout)
