import Resynth.Lemmas.NetMisc
/-!
# ICMP flows over a whole history of operations
-/
namespace Resynth

/-- one call on an ICMP flow object -/
inductive IcmpOp where
  | echo (bytes : Bytes)
  | reply (bytes : Bytes)

def IcmpOp.bytes : IcmpOp → Bytes
  | .echo b => b
  | .reply b => b

/-- run the calls in order, collecting the emitted packets -/
def IcmpFlow.run (f : IcmpFlow) : List IcmpOp → IcmpFlow × List Bytes
  | [] => (f, [])
  | .echo b :: ops =>
    let (f1, fr) := f.echo b
    let (f2, frs) := f1.run ops
    (f2, fr :: frs)
  | .reply b :: ops =>
    let (f1, fr) := f.echoReply b
    let (f2, frs) := f1.run ops
    (f2, fr :: frs)

/-- what the k-th packet must say: (type, identifier, sequence number), where the sequence
number is the count of earlier requests (resp. replies), reduced to 16 bits -/
def icmpExpected (id : Nat) : (pings pongs : Nat) → List IcmpOp → List (Nat × Nat × Nat)
  | _, _, [] => []
  | pi, po, .echo _ :: ops => (8, id, pi % 65536) :: icmpExpected id (pi + 1) po ops
  | pi, po, .reply _ :: ops => (0, id, po % 65536) :: icmpExpected id pi (po + 1) ops

/-- the check applied to each (expectation, packet) pair -/
def icmpFrameOk (raw : Bool) (e : Nat × Nat × Nat) (fr : Bytes) : Bool :=
  Spec.icmpEchoOk e.1 e.2.1 e.2.2 (Spec.ipOfFrame raw fr)

theorem icmp_echo_frame_ok (src dst : Nat) (raw : Bool) (typ id seq : Nat) (bytes : Bytes)
    (ht : typ < 256) (hi : id < 65536) (hq : seq < 65536) (hfit : 28 + bytes.length ≤ 65535) :
    Spec.icmpEchoOk typ id seq (Spec.ipOfFrame raw (icmpEcho src dst raw typ id seq bytes)) = true := by
  rw [icmp_ipOfFrame]; exact icmp_echoOk src dst typ id seq bytes ht hi hq hfit

/-- generalised history lemma: any starting counters -/
theorem IcmpFlow.run_ok (ops : List IcmpOp) :
    ∀ (f : IcmpFlow) (pi po : Nat), f.id < 65536 → f.pingSeq = pi % 65536 → f.pongSeq = po % 65536 →
      (∀ op ∈ ops, 28 + op.bytes.length ≤ 65535) →
      Spec.allPairs (icmpFrameOk f.raw) (icmpExpected f.id pi po ops) (f.run ops).2 = true := by
  induction ops with
  | nil => intro f pi po _ _ _ _; rfl
  | cons op ops ih =>
    intro f pi po hid hpi hpo hfit
    cases op with
    | echo b =>
      have h1 := icmp_echo_frame_ok f.cl f.sv f.raw 8 f.id f.pingSeq b (by decide) hid (by omega)
        (hfit (.echo b) (by simp))
      have h2 := ih { f with pingSeq := (f.pingSeq + 1) % 65536 } (pi + 1) po hid
        (by show (f.pingSeq + 1) % 65536 = _; omega) hpo (fun op h => hfit op (by simp [h]))
      simp only [IcmpFlow.run, IcmpFlow.echo, icmpExpected, Spec.allPairs, Bool.and_eq_true]
      refine ⟨?_, h2⟩
      rw [← hpi]; exact h1
    | reply b =>
      have h1 := icmp_echo_frame_ok f.sv f.cl f.raw 0 f.id f.pongSeq b (by decide) hid (by omega)
        (hfit (.reply b) (by simp))
      have h2 := ih { f with pongSeq := (f.pongSeq + 1) % 65536 } pi (po + 1) hid hpi
        (by show (f.pongSeq + 1) % 65536 = _; omega) (fun op h => hfit op (by simp [h]))
      simp only [IcmpFlow.run, IcmpFlow.echoReply, icmpExpected, Spec.allPairs, Bool.and_eq_true]
      refine ⟨?_, h2⟩
      rw [← hpo]; exact h1

end Resynth
