import Resynth.Model.Lex
import Resynth.Spec.Lexical
/-!
# Basic lemmas for the lexer proofs: `longest`, `spanLen`, character classes
-/
namespace Resynth.LexLemmas
open Resynth Resynth.Lex Resynth.Spec

/-! ## `longest` -/

theorem longest_eq_some {p : Nat → Bool} {N n : Nat} :
    longest p N = some n ↔ 0 < n ∧ n ≤ N ∧ p n = true ∧ ∀ m, n < m → m ≤ N → p m = false := by
  induction N with
  | zero => simp [longest]; omega
  | succ N ih =>
    unfold longest
    by_cases h : p (N + 1) = true
    · rw [if_pos h, Option.some.injEq]
      constructor
      · intro hh; subst hh; exact ⟨by omega, by omega, h, fun m h1 h2 => by omega⟩
      · rintro ⟨h0, h1, h2, h3⟩
        by_cases hn : n = N + 1
        · exact hn.symm
        · have := h3 (N + 1) (by omega) (by omega); simp [h] at this
    · rw [if_neg h, ih]
      have h' : p (N + 1) = false := by simpa using h
      constructor
      · rintro ⟨h0, h1, h2, h3⟩
        refine ⟨h0, by omega, h2, fun m hm1 hm2 => ?_⟩
        by_cases hm : m = N + 1
        · subst hm; exact h'
        · exact h3 m hm1 (by omega)
      · rintro ⟨h0, h1, h2, h3⟩
        have : n ≠ N + 1 := by rintro rfl; simp [h2] at h'
        exact ⟨h0, by omega, h2, fun m hm1 hm2 => h3 m hm1 (by omega)⟩

theorem longest_eq_none {p : Nat → Bool} {N : Nat} :
    longest p N = none ↔ ∀ m, 0 < m → m ≤ N → p m = false := by
  induction N with
  | zero => simp [longest]; omega
  | succ N ih =>
    unfold longest
    by_cases h : p (N + 1) = true
    · rw [if_pos h]
      constructor
      · intro h; cases h
      · intro h2; have := h2 (N + 1) (by omega) (by omega); simp [h] at this
    · have h' : p (N + 1) = false := by simpa using h
      rw [if_neg h, ih]
      constructor
      · intro h2 m hm1 hm2
        by_cases hm : m = N + 1
        · subst hm; exact h'
        · exact h2 m hm1 (by omega)
      · intro h2 m hm1 hm2; exact h2 m hm1 (by omega)

/-- a predicate that holds exactly on an interval `[lo, k]` -/
theorem longest_interval {p : Nat → Bool} {N lo k : Nat}
    (h : ∀ m, 0 < m → m ≤ N → (p m = true ↔ lo ≤ m ∧ m ≤ k)) (hk : k ≤ N) :
    longest p N = if 0 < lo ∧ lo ≤ k then some k else if lo = 0 ∧ 0 < k then some k else none := by
  by_cases h1 : 0 < lo ∧ lo ≤ k
  · rw [if_pos h1, longest_eq_some]
    refine ⟨by omega, hk, (h k (by omega) hk).2 ⟨h1.2, Nat.le_refl _⟩, fun m hm1 hm2 => ?_⟩
    cases hp : p m with
    | false => rfl
    | true => have := (h m (by omega) hm2).1 hp; omega
  · rw [if_neg h1]
    by_cases h2 : lo = 0 ∧ 0 < k
    · rw [if_pos h2, longest_eq_some]
      refine ⟨h2.2, hk, (h k h2.2 hk).2 ⟨by omega, Nat.le_refl _⟩, fun m hm1 hm2 => ?_⟩
      cases hp : p m with
      | false => rfl
      | true => have := (h m (by omega) hm2).1 hp; omega
    · rw [if_neg h2, longest_eq_none]
      intro m hm1 hm2
      cases hp : p m with
      | false => rfl
      | true => have := (h m hm1 hm2).1 hp; omega

/-- a predicate that holds at most at the single point `L` -/
theorem longest_point {p : Nat → Bool} {N L : Nat} (hL : 0 < L)
    (h : ∀ m, 0 < m → m ≤ N → p m = true → m = L) :
    longest p N = if L ≤ N ∧ p L = true then some L else none := by
  by_cases h1 : L ≤ N ∧ p L = true
  · rw [if_pos h1, longest_eq_some]
    refine ⟨hL, h1.1, h1.2, fun m hm1 hm2 => ?_⟩
    cases hp : p m with
    | false => rfl
    | true => have := h m (by omega) hm2 hp; omega
  · rw [if_neg h1, longest_eq_none]
    intro m hm1 hm2
    cases hp : p m with
    | false => rfl
    | true => have := h m hm1 hm2 hp; subst this; exact absurd ⟨hm2, hp⟩ h1

/-! ## `spanLen` -/

theorem spanLen_le (p : Char → Bool) (cs : List Char) : spanLen p cs ≤ cs.length := by
  induction cs with
  | nil => simp [spanLen]
  | cons c cs ih => unfold spanLen; split <;> simp <;> omega

theorem all_take_iff (p : Char → Bool) (cs : List Char) (n : Nat) (hn : n ≤ cs.length) :
    (cs.take n).all p = true ↔ n ≤ spanLen p cs := by
  induction cs generalizing n with
  | nil => simp at hn; subst hn; simp [spanLen]
  | cons c cs ih =>
    cases n with
    | zero => simp
    | succ n =>
      simp only [List.length_cons, Nat.add_le_add_iff_right] at hn
      simp only [List.take_succ_cons, List.all_cons, Bool.and_eq_true, ih n hn]
      by_cases hc : p c = true
      · simp [spanLen, hc]
      · simp [spanLen, hc]

theorem spanLen_pos_iff (p : Char → Bool) (c : Char) (cs : List Char) :
    0 < spanLen p (c :: cs) ↔ p c = true := by
  unfold spanLen; by_cases hc : p c = true <;> simp [hc]

theorem spanLen_cons_pos (p : Char → Bool) (c : Char) (cs : List Char) (h : p c = true) :
    spanLen p (c :: cs) = spanLen p cs + 1 := by
  simp [spanLen, h]

theorem spanLen_cons_neg (p : Char → Bool) (c : Char) (cs : List Char) (h : p c = false) :
    spanLen p (c :: cs) = 0 := by
  simp [spanLen, h]

/-! ## character classes: the spec's classes coincide with the model's -/

theorem chDigit_eq : chDigit = isDigit := rfl
theorem chHex_eq : chHex = isHexDigit := rfl
theorem chIdStart_eq : chIdStart = isIdStart := rfl
theorem chIdCont_eq : chIdCont = isIdCont := rfl

theorem chBlank_eq : chBlank = isWs := by
  funext c
  simp only [chBlank, isWs, isUniWhitespace, whiteSpaceCodePoints, List.contains_cons, List.contains_nil]
  congr 1
  rw [Bool.eq_iff_iff]
  simp only [Bool.or_eq_true, beq_iff_eq, Bool.and_eq_true, decide_eq_true_eq, Bool.or_false]
  omega

end Resynth.LexLemmas
