import Resynth.Lemmas.ErrLocEof
import Resynth.Lemmas.LRSplit
/-!
# Which tokens a statement is built from: the tokens of its own `;`-terminated group

The parser completes a statement only when it sees the token AFTER its `;` (or `EOF`), so "the tokens fed
since the previous statement was completed" is not the right notion.  Instead tokens are numbered by the
number of `;` tokens fed before them (`idx`): the `k`-th statement the parser hands over records only
positions of tokens with number `k`.

`P : Nat → Loc → Prop` is arbitrary: `P k l` is to be read "`l` is the position of a token of group `k`".
`I2 P base c`: the nodes on the stack are `Good (P n)` for `n` = the number of the statement under
construction (or waiting to be reduced), and the `j`-th finished statement is `Good (P (base + j))`.
-/
namespace Resynth.LR

/-- the states in which a complete statement is on the stack, waiting for the next token to be reduced -/
def pending : State → Bool
  | .reduceImport | .reduceAssign | .reduceExprStmt | .reduceAssignStmt | .reduceStmt => true
  | _ => false

structure I2 (P : Nat → Loc → Prop) (base : Nat) (c : Cfg) : Prop where
  stack : StackGood (P (base + c.stmts.length)) c.stack
  stmts : ∀ (j : Nat) (s : Stmt), c.stmts[j]? = some s → s.Good (P (base + j))

/-- the number of `;` tokens fed so far, read off the parser: finished statements, plus the one waiting
to be reduced -/
def idx (base : Nat) (c : Cfg) : Nat := base + c.stmts.length + (if pending c.state then 1 else 0)

/-- below statement level a step leaves the finished statements alone, and ends in a `pending` state
exactly when it consumed a `;` -/
def StepShape (ss : List Stmt) (k : TokKind) : Res (Cfg × Bool) → Prop
  | .ok (c', b) => c'.stmts = ss ∧ pending c'.state = (b && k == .semi)
  | _ => True

section Steps
attribute [local simp] StepShape pending step dispatch bind pure Bind.bind Pure.pure reduceImportStmt popStr popPath
  reduceObject reduceModule reduceRef reduceSockaddr reduceLiteralExpr reduceRefExpr reduceCallExpr reduceBop
  reduceArg reduceCall reduceAssign reduceExprStmt reduceAssignStmt pushLiteral fromToken PathB.new

set_option linter.unusedVariables false

/-- destructure the shape invariant, then case on the token kind -/
local macro "wf_state" h:ident k:ident : tactic => `(tactic| (
  simp only [Inv] at $h:ident
  try split at $h:ident
  all_goals (try contradiction)
  all_goals (try subst $h:ident)
  all_goals (cases $k:ident <;> simp_all)))

/-- the same for states whose action does not depend on the token -/
local macro "wf_state0" h:ident : tactic => `(tactic| (
  simp only [Inv] at $h:ident
  try split at $h:ident
  all_goals (try contradiction)
  all_goals (try subst $h:ident)
  all_goals (simp_all)))

theorem sh_import_ (s : Stack) (ss : List Stmt) (k txt loc) (h : Inv .import_ s) : StepShape ss k (step ⟨.import_, s, ss⟩ ⟨k, txt, loc⟩) := by
  wf_state h k

theorem sh_importEnd (s : Stack) (ss : List Stmt) (k txt loc) (h : Inv .importEnd s) : StepShape ss k (step ⟨.importEnd, s, ss⟩ ⟨k, txt, loc⟩) := by
  wf_state h k

theorem sh_let_ (s : Stack) (ss : List Stmt) (k txt loc) (h : Inv .let_ s) : StepShape ss k (step ⟨.let_, s, ss⟩ ⟨k, txt, loc⟩) := by
  wf_state h k

theorem sh_assign (s : Stack) (ss : List Stmt) (k txt loc) (h : Inv .assign s) : StepShape ss k (step ⟨.assign, s, ss⟩ ⟨k, txt, loc⟩) := by
  wf_state h k

theorem sh_refComponent (s : Stack) (ss : List Stmt) (k txt loc) (h : Inv .refComponent s) : StepShape ss k (step ⟨.refComponent, s, ss⟩ ⟨k, txt, loc⟩) := by
  wf_state h k

theorem sh_refModule (s : Stack) (ss : List Stmt) (k txt loc) (h : Inv .refModule s) : StepShape ss k (step ⟨.refModule, s, ss⟩ ⟨k, txt, loc⟩) := by
  wf_state h k

theorem sh_refObject (s : Stack) (ss : List Stmt) (k txt loc) (h : Inv .refObject s) : StepShape ss k (step ⟨.refObject, s, ss⟩ ⟨k, txt, loc⟩) := by
  wf_state h k

theorem sh_refObjEnd (s : Stack) (ss : List Stmt) (k txt loc) (h : Inv .refObjEnd s) : StepShape ss k (step ⟨.refObjEnd, s, ss⟩ ⟨k, txt, loc⟩) := by
  wf_state h k

theorem sh_argNext (s : Stack) (ss : List Stmt) (k txt loc) (h : Inv .argNext s) : StepShape ss k (step ⟨.argNext, s, ss⟩ ⟨k, txt, loc⟩) := by
  wf_state h k

theorem sh_exprArg (s : Stack) (ss : List Stmt) (k txt loc) (h : Inv .exprArg s) : StepShape ss k (step ⟨.exprArg, s, ss⟩ ⟨k, txt, loc⟩) := by
  wf_state h k

theorem sh_argName (s : Stack) (ss : List Stmt) (k txt loc) (h : Inv .argName s) : StepShape ss k (step ⟨.argName, s, ss⟩ ⟨k, txt, loc⟩) := by
  wf_state h k

theorem sh_ipv4 (s : Stack) (ss : List Stmt) (k txt loc) (h : Inv .ipv4 s) : StepShape ss k (step ⟨.ipv4, s, ss⟩ ⟨k, txt, loc⟩) := by
  wf_state h k

theorem sh_slash (s : Stack) (ss : List Stmt) (k txt loc) (h : Inv .slash s) : StepShape ss k (step ⟨.slash, s, ss⟩ ⟨k, txt, loc⟩) := by
  wf_state h k

theorem sh_exprStmtEnd (s : Stack) (ss : List Stmt) (k txt loc) (h : Inv .exprStmtEnd s) : StepShape ss k (step ⟨.exprStmtEnd, s, ss⟩ ⟨k, txt, loc⟩) := by
  wf_state h k

theorem sh_assignStmtEnd (s : Stack) (ss : List Stmt) (k txt loc) (h : Inv .assignStmtEnd s) : StepShape ss k (step ⟨.assignStmtEnd, s, ss⟩ ⟨k, txt, loc⟩) := by
  wf_state h k

theorem sh_reduceModule (s : Stack) (ss : List Stmt) (k txt loc) (h : Inv .reduceModule s) : StepShape ss k (step ⟨.reduceModule, s, ss⟩ ⟨k, txt, loc⟩) := by
  wf_state0 h

theorem sh_reduceObject (s : Stack) (ss : List Stmt) (k txt loc) (h : Inv .reduceObject s) : StepShape ss k (step ⟨.reduceObject, s, ss⟩ ⟨k, txt, loc⟩) := by
  wf_state0 h

theorem sh_reduceRefCall (s : Stack) (ss : List Stmt) (k txt loc) (h : Inv .reduceRefCall s) : StepShape ss k (step ⟨.reduceRefCall, s, ss⟩ ⟨k, txt, loc⟩) := by
  wf_state0 h

theorem sh_reduceRefNaked (s : Stack) (ss : List Stmt) (k txt loc) (h : Inv .reduceRefNaked s) : StepShape ss k (step ⟨.reduceRefNaked, s, ss⟩ ⟨k, txt, loc⟩) := by
  wf_state0 h

theorem sh_reduceCall (s : Stack) (ss : List Stmt) (k txt loc) (h : Inv .reduceCall s) : StepShape ss k (step ⟨.reduceCall, s, ss⟩ ⟨k, txt, loc⟩) := by
  wf_state0 h

theorem sh_reduceArg (s : Stack) (ss : List Stmt) (k txt loc) (h : Inv .reduceArg s) : StepShape ss k (step ⟨.reduceArg, s, ss⟩ ⟨k, txt, loc⟩) := by
  wf_state0 h

theorem sh_exprStmt (s : Stack) (ss : List Stmt) (k txt loc) (h : Inv .exprStmt s) : StepShape ss k (step ⟨.exprStmt, s, ss⟩ ⟨k, txt, loc⟩) := by
  wf_state0 h

theorem sh_exprRvalue (s : Stack) (ss : List Stmt) (k txt loc) (h : Inv .exprRvalue s) : StepShape ss k (step ⟨.exprRvalue, s, ss⟩ ⟨k, txt, loc⟩) := by
  wf_state0 h

theorem sh_reduceLiteralExpr (s : Stack) (ss : List Stmt) (k txt loc) (h : Inv .reduceLiteralExpr s) : StepShape ss k (step ⟨.reduceLiteralExpr, s, ss⟩ ⟨k, txt, loc⟩) := by
  wf_state0 h

theorem sh_reduceRefExpr (s : Stack) (ss : List Stmt) (k txt loc) (h : Inv .reduceRefExpr s) : StepShape ss k (step ⟨.reduceRefExpr, s, ss⟩ ⟨k, txt, loc⟩) := by
  wf_state0 h

theorem sh_reduceCallExpr (s : Stack) (ss : List Stmt) (k txt loc) (h : Inv .reduceCallExpr s) : StepShape ss k (step ⟨.reduceCallExpr, s, ss⟩ ⟨k, txt, loc⟩) := by
  wf_state0 h

theorem sh_reduceSockAddr (s : Stack) (ss : List Stmt) (k txt loc) (h : Inv .reduceSockAddr s) : StepShape ss k (step ⟨.reduceSockAddr, s, ss⟩ ⟨k, txt, loc⟩) := by
  wf_state0 h

theorem sh_reduceBop (s : Stack) (ss : List Stmt) (k txt loc) (h : Inv .reduceBop s) : StepShape ss k (step ⟨.reduceBop, s, ss⟩ ⟨k, txt, loc⟩) := by
  wf_state0 h

theorem sh_expr (s : Stack) (ss : List Stmt) (k txt loc) (h : Inv .expr s) : StepShape ss k (step ⟨.expr, s, ss⟩ ⟨k, txt, loc⟩) := by
  simp only [Inv] at h
  cases hl : litOfToken ⟨k, txt, loc⟩ with
  | none => cases k <;> simp_all
  | some v => cases k <;> simp_all

theorem sh_argVal (s : Stack) (ss : List Stmt) (k txt loc) (h : Inv .argVal s) : StepShape ss k (step ⟨.argVal, s, ss⟩ ⟨k, txt, loc⟩) := by
  simp only [Inv] at h
  split at h
  · next n l o c =>
    cases hl : litOfToken ⟨k, txt, loc⟩ with
    | none =>
      cases k
      case rparen => cases n <;> simp_all
      all_goals simp_all
    | some v =>
      cases k
      case rparen => cases n <;> simp_all
      all_goals simp_all
  · contradiction

theorem sh_ipv4Colon (s : Stack) (ss : List Stmt) (k txt loc) (h : Inv .ipv4Colon s) : StepShape ss k (step ⟨.ipv4Colon, s, ss⟩ ⟨k, txt, loc⟩) := by
  simp only [Inv] at h
  split at h
  · cases hl : litOfToken ⟨k, txt, loc⟩ with
    | none => cases k <;> simp_all
    | some v =>
      cases k
      case intLit =>
        obtain ⟨n, rfl⟩ := litOfToken_int_some hl
        by_cases hn : n > 65535 <;> simp [hl, hn] <;> simp_all
      all_goals simp_all
  · contradiction

theorem sh_reduceExpr (s : Stack) (ss : List Stmt) (k txt loc) (h : Inv .reduceExpr s) : StepShape ss k (step ⟨.reduceExpr, s, ss⟩ ⟨k, txt, loc⟩) := by
  simp only [Inv] at h
  split at h
  · cases h <;> simp_all
  · contradiction



theorem step_shape (c : Cfg) (t : Tok) (hT : stmtLevel c.state = false) (h : Inv c.state c.stack) :
    StepShape c.stmts t.kind (step c t) := by
  obtain ⟨st, s, ss⟩ := c
  obtain ⟨k, txt, loc⟩ := t
  cases st <;> simp only [stmtLevel] at hT <;> (try contradiction)
  case import_ => exact sh_import_ s ss k txt loc h
  case importEnd => exact sh_importEnd s ss k txt loc h
  case let_ => exact sh_let_ s ss k txt loc h
  case assign => exact sh_assign s ss k txt loc h
  case refComponent => exact sh_refComponent s ss k txt loc h
  case reduceModule => exact sh_reduceModule s ss k txt loc h
  case refModule => exact sh_refModule s ss k txt loc h
  case reduceObject => exact sh_reduceObject s ss k txt loc h
  case reduceRefCall => exact sh_reduceRefCall s ss k txt loc h
  case reduceRefNaked => exact sh_reduceRefNaked s ss k txt loc h
  case refObject => exact sh_refObject s ss k txt loc h
  case refObjEnd => exact sh_refObjEnd s ss k txt loc h
  case reduceCall => exact sh_reduceCall s ss k txt loc h
  case reduceArg => exact sh_reduceArg s ss k txt loc h
  case argNext => exact sh_argNext s ss k txt loc h
  case exprArg => exact sh_exprArg s ss k txt loc h
  case argName => exact sh_argName s ss k txt loc h
  case argVal => exact sh_argVal s ss k txt loc h
  case exprStmt => exact sh_exprStmt s ss k txt loc h
  case expr => exact sh_expr s ss k txt loc h
  case exprRvalue => exact sh_exprRvalue s ss k txt loc h
  case ipv4 => exact sh_ipv4 s ss k txt loc h
  case ipv4Colon => exact sh_ipv4Colon s ss k txt loc h
  case reduceLiteralExpr => exact sh_reduceLiteralExpr s ss k txt loc h
  case reduceRefExpr => exact sh_reduceRefExpr s ss k txt loc h
  case reduceCallExpr => exact sh_reduceCallExpr s ss k txt loc h
  case slash => exact sh_slash s ss k txt loc h
  case reduceExpr => exact sh_reduceExpr s ss k txt loc h
  case reduceSockAddr => exact sh_reduceSockAddr s ss k txt loc h
  case exprStmtEnd => exact sh_exprStmtEnd s ss k txt loc h
  case assignStmtEnd => exact sh_assignStmtEnd s ss k txt loc h
  case reduceBop => exact sh_reduceBop s ss k txt loc h

/-- a statement waiting to be reduced: the step does not look at the token -/
def StepPending (Q : Loc → Prop) (ss : List Stmt) : Res (Cfg × Bool) → Prop
  | .ok (c', b) => b = false ∧ pending c'.state = true ∧ c'.stmts = ss ∧ StackGood Q c'.stack
  | _ => True

attribute [local simp] StepPending StepGood CfgGood NodeGood Expr.Good Args.Good Stmt.Good

local macro "wf_state0" h:ident : tactic => `(tactic| (
  simp only [Inv] at $h:ident
  try split at $h:ident
  all_goals (try contradiction)
  all_goals (try subst $h:ident)
  all_goals (simp_all)))

theorem step_pending (Q : Loc → Prop) (c : Cfg) (t : Tok) (hp : pending c.state = true)
    (hn : c.state ≠ .reduceStmt) (h : Inv c.state c.stack) (hw : StackGood Q c.stack) :
    StepPending Q c.stmts (step c t) := by
  obtain ⟨st, s, ss⟩ := c
  cases st <;> simp only [pending] at hp <;> (try contradiction)
  all_goals wf_state0 h

theorem step_reduceStmt (s : Stack) (ss : List Stmt) (t : Tok) (h : Inv .reduceStmt s) :
    ∃ st, s = [.stmt st] ∧ step ⟨.reduceStmt, s, ss⟩ t = .ok (⟨.initial, [], ss ++ [st]⟩, false) := by
  simp only [Inv] at h
  split at h
  · next st => exact ⟨st, rfl, rfl⟩
  · contradiction

theorem step_initial (s : Stack) (ss : List Stmt) (t : Tok) (h : Inv .initial s) :
    match step ⟨.initial, s, ss⟩ t with
    | .ok (c', b) => c'.stack = [] ∧ c'.stmts = ss ∧ pending c'.state = false ∧ (b && t.kind == .semi) = false
    | _ => True := by
  obtain ⟨k, txt, loc⟩ := t
  simp only [Inv] at h
  subst h
  cases k <;> simp

end Steps

/-! ## one loop iteration, `feed` -/

theorem idx_eq (base : Nat) (c c' : Cfg) (b : Bool) (k : TokKind) (hs : c'.stmts = c.stmts)
    (h0 : pending c.state = false) (hp : pending c'.state = (b && k == .semi)) :
    idx base c' = idx base c + (if (b && k == .semi) = true then 1 else 0) := by
  simp only [idx, hs, h0, hp]
  simp

theorem step_I2 (P : Nat → Loc → Prop) (base : Nat) (c : Cfg) (t : Tok) (h : Inv c.state c.stack)
    (hI : I2 P base c) (ht : stmtLevel c.state = false → P (idx base c) t.loc) {c' : Cfg} {b : Bool}
    (hs : step c t = .ok (c', b)) :
    I2 P base c' ∧ idx base c' = idx base c + (if (b && t.kind == .semi) = true then 1 else 0) := by
  cases hT : stmtLevel c.state with
  | false =>
    have hpend : pending c.state = false := by
      revert hT; cases c.state <;> simp [stmtLevel, pending]
    have hsh := step_shape c t hT h
    rw [hs] at hsh
    obtain ⟨hst, hp⟩ := hsh
    refine ⟨⟨?_, by rw [hst]; exact hI.stmts⟩, idx_eq base c c' b t.kind hst hpend hp⟩
    -- the stack: `step_good` on the same parser with no finished statements
    obtain ⟨st, s, ss⟩ := c
    have e := step_prepend ss st s [] t
    simp only [List.append_nil] at e
    rw [e] at hs
    have hg := step_good (P (base + ss.length)) ⟨st, s, []⟩ t h ⟨hI.stack, StmtsGood_nil _⟩
      (by have := ht hT; simpa [idx, hpend] using this)
    cases h0 : step ⟨st, s, []⟩ t with
    | parseError => simp [h0, Res.map] at hs
    | panic => simp [h0, Res.map] at hs
    | ok r0 =>
      rw [h0] at hg hs
      simp only [Res.map, Res.ok.injEq, Prod.mk.injEq] at hs
      obtain ⟨rfl, rfl⟩ := hs
      simp only at hst
      have : (r0.1.prepend ss).stack = r0.1.stack := rfl
      rw [this, hst]
      exact hg.1
  | true =>
    obtain ⟨st, s, ss⟩ := c
    cases st <;> simp only [stmtLevel] at hT <;> (try contradiction)
    case initial =>
      have := step_initial s ss t h
      rw [hs] at this
      obtain ⟨h1, h2, h3, h4⟩ := this
      refine ⟨⟨by rw [h1]; trivial, by rw [h2]; exact hI.stmts⟩, ?_⟩
      simp only [idx, h2, h3, h4]
      simp [pending]
    case reduceStmt =>
      obtain ⟨st, rfl, e⟩ := step_reduceStmt s ss t h
      rw [e] at hs
      simp only [Res.ok.injEq, Prod.mk.injEq] at hs
      obtain ⟨rfl, rfl⟩ := hs
      refine ⟨⟨trivial, ?_⟩, by simp [idx, pending]; omega⟩
      intro j s' hj
      simp only at hj
      rcases Nat.lt_or_ge j ss.length with hlt | hge
      · rw [List.getElem?_append_left hlt] at hj; exact hI.stmts j s' hj
      · rw [List.getElem?_append_right hge] at hj
        have hj0 : j - ss.length = 0 := by
          rcases Nat.eq_zero_or_pos (j - ss.length) with h0 | h0
          · exact h0
          · rw [List.getElem?_eq_none (by simp; omega)] at hj; cases hj
        rw [hj0] at hj
        simp only [List.getElem?_cons_zero, Option.some.injEq] at hj
        subst hj
        have : j = ss.length := by omega
        subst this
        exact hI.stack.1
    all_goals (
      have hp := step_pending (P (base + ss.length)) ⟨_, s, ss⟩ t rfl (by simp) h hI.stack
      rw [hs] at hp
      obtain ⟨rfl, h2, h3, h4⟩ := hp
      simp only at h3
      refine ⟨⟨by rw [h3]; exact h4, by rw [h3]; exact hI.stmts⟩, ?_⟩
      simp only [idx, h2, h3]
      simp [pending])

theorem feedAux_I2 (P : Nat → Loc → Prop) (base : Nat) (fuel : Nat) (c : Cfg) (t : Tok)
    (h : Inv c.state c.stack) (hI : I2 P base c) (ht : t.kind = .eof ∨ P (idx base c) t.loc) {c' : Cfg}
    (hf : feedAux fuel c t = .ok c') :
    I2 P base c' ∧ idx base c' = idx base c + (if (t.kind == .semi) = true then 1 else 0) := by
  induction fuel generalizing c with
  | zero => simp [feedAux] at hf
  | succ n ih =>
    have hP : stmtLevel c.state = false → P (idx base c) t.loc := by
      intro hT
      rcases ht with heof | hp
      · exfalso
        obtain ⟨k, txt, loc⟩ := t
        simp only at heof
        subst heof
        have := (feedAux_eof (fun _ => True) txt loc (n + 1) c h hf).1
        rw [hT] at this
        cases this
      · exact hp
    have hs := step_inv c t h
    unfold feedAux at hf
    cases hst : step c t with
    | parseError => simp [hst] at hf
    | panic => simp [hst] at hf
    | ok r =>
      obtain ⟨c1, b⟩ := r
      rw [hst] at hs
      obtain ⟨hI1, hidx⟩ := step_I2 P base c t h hI hP hst
      cases b with
      | true =>
        simp only [hst, Res.ok.injEq] at hf
        subst hf
        exact ⟨hI1, by simpa using hidx⟩
      | false =>
        simp only [hst] at hf
        simp only [Bool.false_and, Bool.false_eq_true, if_false, Nat.add_zero] at hidx
        have := ih c1 hs.1 hI1 (by rw [hidx]; exact ht) hf
        rw [hidx] at this
        exact this

/-- **a successful `feed`**: the invariant is kept, and the count of `;` goes up exactly when the token
is a `;` -/
theorem feed_I2 (P : Nat → Loc → Prop) (base : Nat) (c : Cfg) (t : Tok)
    (h : Inv c.state c.stack) (hI : I2 P base c) (ht : t.kind = .eof ∨ P (idx base c) t.loc) {c' : Cfg}
    (hf : feed c t = .ok c') :
    I2 P base c' ∧ idx base c' = idx base c + (if (t.kind == .semi) = true then 1 else 0) :=
  feedAux_I2 P base _ c t h hI ht hf

theorem I2_init (P : Nat → Loc → Prop) : I2 P 0 Cfg.init := ⟨trivial, fun j s h => by simp [Cfg.init] at h⟩

/-- `get_results`: the statements handed over are numbered from `base`; the parser goes on numbering
after them -/
theorem takeResults_I2 (P : Nat → Loc → Prop) (base : Nat) (c : Cfg) (hI : I2 P base c) :
    (∀ (j : Nat) (s : Stmt), c.takeResults.1[j]? = some s → s.Good (P (base + j))) ∧
    I2 P (base + c.stmts.length) c.takeResults.2 ∧
    idx (base + c.stmts.length) c.takeResults.2 = idx base c :=
  ⟨hI.stmts, ⟨by simpa [Cfg.takeResults] using hI.stack, fun j s h => by simp [Cfg.takeResults] at h⟩,
   rfl⟩

/-- the number of `;` tokens in a list -/
def semis (ts : List Tok) : Nat := (ts.filter (·.kind == .semi)).length

theorem semis_nil : semis [] = 0 := rfl
theorem semis_cons (t : Tok) (ts : List Tok) :
    semis (t :: ts) = (if (t.kind == .semi) = true then 1 else 0) + semis ts := by
  simp only [semis, List.filter_cons]
  split <;> simp <;> omega
theorem semis_append (a b : List Tok) : semis (a ++ b) = semis a + semis b := by
  simp [semis, List.filter_append]

end Resynth.LR
