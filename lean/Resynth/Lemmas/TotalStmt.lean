import Resynth.Lemmas.TotalInterp
import Resynth.Lemmas.TotalParseFeed
import Resynth.Model.Cli
/-!
# Whole-file totality (C08): statements and the per-file loop never panic

`addStmt_ok`/`addStmts_ok`: on well-formed statements and an `StOk` state, `add_stmt` does not panic
and keeps the invariant.  `lineLoop_ok`: the loop of `process_file` keeps the combined invariant
`LoopOk` (parser stack shape `Inv`, well-formed parser nodes `CfgWF`, interpreter `StOk`) and every
early exit is a `failure`, never a `panic`.
-/
namespace Resynth.C08
open LR

/-! ## the output side: `update_time`, `write_packet` -/

/-- an output step: no panic; registers and heap untouched -/
def OutOk (st : PState) : Res PState → Prop
  | .ok st' => st'.regs = st.regs ∧ st'.heap = st.heap
  | .err _ _ => True
  | .panic _ => False

theorem OutOk.bind {st : PState} {x : Res PState} {g : PState → Res PState} (hx : OutOk st x)
    (hg : ∀ st', st'.regs = st.regs → st'.heap = st.heap → OutOk st' (g st')) : OutOk st (x >>= g) := by
  cases x with
  | err e l => trivial
  | panic s => exact hx
  | ok st1 =>
    obtain ⟨h1, h2⟩ := hx
    have := hg st1 h1 h2
    show OutOk st (g st1)
    cases hr : g st1 with
    | err e l => trivial
    | panic s => rw [hr] at this; exact this
    | ok st2 => rw [hr] at this; exact ⟨this.1.trans h1, this.2.trans h2⟩

theorem updateTime_out (st : PState) (ns : Nat) : OutOk st (updateTime st ns) := by
  unfold updateTime
  split
  · exact ⟨rfl, rfl⟩
  · trivial

theorem foldl_updateTime_out : ∀ (ps : List Packet) (st : PState),
    OutOk st (ps.foldlM (fun st p => updateTime st p.bitTime) st)
  | [], st => ⟨rfl, rfl⟩
  | p :: ps, st => by
    simp only [List.foldlM_cons]
    exact (updateTime_out st p.bitTime).bind (fun st' _ _ => foldl_updateTime_out ps st')

/-- `write_packet` does not hit the `lower_headroom` assertion on a packet with 16 bytes of headroom -/
theorem writeRecord_out (st : PState) (p : Packet) (hp : p.headroom = 16) : OutOk st (writeRecord st p) := by
  unfold writeRecord Pcap.writePacket
  simp only [hp, Nat.lt_irrefl, if_false]
  split
  · exact ⟨rfl, rfl⟩
  · trivial

theorem writeRecords_out : ∀ (ps : List Packet) (st : PState), (∀ p ∈ ps, p.headroom = 16) →
    OutOk st (writeRecords st ps)
  | [], st, _ => ⟨rfl, rfl⟩
  | p :: ps, st, h => by
    simp only [writeRecords]
    exact (writeRecord_out st p (h p (by simp))).bind
      (fun st' _ _ => writeRecords_out ps st' (fun q hq => h q (by simp [hq])))

/-! ## statements -/

/-- outcome of a statement -/
def StmtOk : Res PState → Prop
  | .ok st' => StOk st'
  | .err _ _ => True
  | .panic _ => False

theorem StmtOk.ofOut {st : PState} (hst : StOk st) {r : Res PState} (h : OutOk st r) : StmtOk r := by
  cases r with
  | ok st' =>
    intro e he
    rw [h.1] at he
    show ValOk st'.heap e.2
    rw [h.2]
    exact hst e he
  | err => trivial
  | panic => exact h

theorem addStmt_ok (fs : Fs) (st : PState) (s : Stmt) (hw : s.WF) (hst : StOk st) :
    StmtOk (addStmt ⟨Gen.lib, fs⟩ st s) := by
  cases s with
  | imp loc m =>
    simp only [addStmt]
    split
    · exact hst.withLoc _
    · split
      · exact hst
      · trivial
      · next x sym hns hg =>
        exact absurd (plain_is_module hg hw) (by intro h; subst h; exact hns rfl)
  | assign loc target rvalue =>
    simp only [addStmt]
    split
    · trivial
    · have h := eval_ok fs rvalue { st with loc := loc } hw (hst.withLoc _)
      cases hr : eval ⟨Gen.lib, fs⟩ { st with loc := loc } rvalue with
      | err e l => trivial
      | panic s => rw [hr] at h; exact h
      | ok r =>
        obtain ⟨v, st1⟩ := r
        rw [hr] at h
        show StOk _
        intro e he
        simp only [List.mem_append, List.mem_singleton] at he
        rcases he with he | rfl
        · exact h.1 e he
        · exact h.2.1
  | expr e =>
    simp only [addStmt]
    have h := eval_ok fs e st hw hst
    cases hr : eval ⟨Gen.lib, fs⟩ st e with
    | err e l => trivial
    | panic s => rw [hr] at h; exact h
    | ok r =>
      obtain ⟨v, st1⟩ := r
      rw [hr] at h
      simp only [Res.bind_ok_eq]
      have hv := h.2.1
      cases v with
      | nil => exact h.1
      | pkt p =>
        exact StmtOk.ofOut h.1 ((updateTime_out st1 p.bitTime).bind (fun st' _ _ => writeRecord_out st' p hv))
      | pktgen ps =>
        exact StmtOk.ofOut h.1 ((foldl_updateTime_out ps st1).bind (fun st' _ _ => writeRecords_out ps st' hv))
      | timejump ns => exact StmtOk.ofOut h.1 (updateTime_out st1 ns)
      | _ => exact h.1

theorem addStmts_ok (fs : Fs) : ∀ (ss : List Stmt) (st : PState), StmtsWF ss → StOk st →
    StmtOk (addStmts ⟨Gen.lib, fs⟩ st ss)
  | [], st, _, hst => hst
  | s :: ss, st, hw, hst => by
    simp only [addStmts]
    have h := addStmt_ok fs st s (hw s (by simp)) hst
    cases hr : addStmt ⟨Gen.lib, fs⟩ st s with
    | err e l => trivial
    | panic s => rw [hr] at h; exact h
    | ok st1 =>
      rw [hr] at h
      exact addStmts_ok fs ss st1 (fun s' hs' => hw s' (by simp [hs'])) h

end Resynth.C08
