import Resynth.Lemmas.InterpInvStmt
import Resynth.Model.Cli
/-!
# Lemmas: `addStmtsKeep` (statement by statement, keeping the state reached) against `addStmts`

`addStmtsKeep` is `addStmts` that also says in which state a failing batch stops:

* it succeeds exactly when `addStmts` does, with the same state (`addStmtsKeep_none_iff`);
* it fails with `(st1, e, loc)` exactly when the batch splits as `pre ++ s :: post`, `pre` runs from the
  start state to `st1`, and `s` fails in `st1` with `e` at `loc` (`addStmtsKeep_err_iff`; same for
  panics) — hence `addStmts` fails with the same error at the same location (`addStmtsKeep_err`);
* it does not care how a statement list is cut into batches (`addStmtsKeep_append`).
-/
namespace Resynth

/-- what a batch leaves behind: the state, and why it stopped early (if it did) -/
abbrev Kept := PState × Option (Sum (ErrKind × Loc) String)

/-- how `runStmts` reports a batch: go on with the state reached, or end the run in the state reached -/
def keepResult : Kept → Except FileRun PState
  | (st, none) => .ok st
  | (st, some (.inl (e, loc))) => .error (finish st (.failure e.cls (errDetail e) loc))
  | (st, some (.inr s)) => .error (finish st (.panic s))

theorem addStmtsKeep_nil (env : Env) (st : PState) : addStmtsKeep env st [] = (st, none) := rfl

theorem addStmtsKeep_append (env : Env) (a b : List Stmt) : ∀ (st : PState),
    addStmtsKeep env st (a ++ b) =
      match addStmtsKeep env st a with
      | (st', none) => addStmtsKeep env st' b
      | r => r := by
  induction a with
  | nil => intro st; simp [addStmtsKeep]
  | cons s a ih =>
    intro st
    simp only [List.cons_append, addStmtsKeep]
    cases addStmt env st s with
    | err e l => rfl
    | panic x => rfl
    | ok s1 => exact ih s1

/-- success: exactly when `addStmts` succeeds, with the same state -/
theorem addStmtsKeep_none_iff (env : Env) (ss : List Stmt) : ∀ (st st' : PState),
    addStmtsKeep env st ss = (st', none) ↔ addStmts env st ss = .ok st' := by
  induction ss with
  | nil => intro st st'; simp [addStmtsKeep, addStmts]
  | cons s ss ih =>
    intro st st'
    simp only [addStmtsKeep, addStmts]
    cases addStmt env st s with
    | err e l => simp
    | panic x => simp
    | ok s1 => simp only [Res.bind_ok_eq]; exact ih s1 st'

/-- an error: exactly when some statement `s` of the batch fails in the state `st1` the statements
before it lead to -/
theorem addStmtsKeep_err_iff (env : Env) (ss : List Stmt) : ∀ (st st1 : PState) (e : ErrKind) (loc : Loc),
    addStmtsKeep env st ss = (st1, some (.inl (e, loc))) ↔
      ∃ pre s post, ss = pre ++ s :: post ∧ addStmts env st pre = .ok st1 ∧
        addStmt env st1 s = .err e loc := by
  induction ss with
  | nil => intro st st1 e loc; simp [addStmtsKeep]
  | cons s ss ih =>
    intro st st1 e loc
    simp only [addStmtsKeep]
    cases h : addStmt env st s with
    | err e' l' =>
      constructor
      · intro hk
        simp only [Prod.mk.injEq, Option.some.injEq, Sum.inl.injEq] at hk
        obtain ⟨rfl, rfl, rfl⟩ := hk
        exact ⟨[], s, ss, rfl, rfl, h⟩
      · rintro ⟨pre, s', post, hs, hpre, hs'⟩
        cases pre with
        | nil =>
          simp only [List.nil_append, List.cons.injEq] at hs
          obtain ⟨rfl, rfl⟩ := hs
          simp only [addStmts, Res.ok.injEq] at hpre
          subst hpre
          rw [h] at hs'; cases hs'; rfl
        | cons p pre =>
          simp only [List.cons_append, List.cons.injEq] at hs
          obtain ⟨rfl, rfl⟩ := hs
          simp [addStmts, h] at hpre
    | panic x =>
      constructor
      · intro hk; simp at hk
      · rintro ⟨pre, s', post, hs, hpre, hs'⟩
        cases pre with
        | nil =>
          simp only [List.nil_append, List.cons.injEq] at hs
          obtain ⟨rfl, rfl⟩ := hs
          simp only [addStmts, Res.ok.injEq] at hpre
          subst hpre
          rw [h] at hs'; cases hs'
        | cons p pre =>
          simp only [List.cons_append, List.cons.injEq] at hs
          obtain ⟨rfl, rfl⟩ := hs
          simp [addStmts, h] at hpre
    | ok s1 =>
      simp only []
      rw [ih s1 st1 e loc]
      constructor
      · rintro ⟨pre, s', post, rfl, hpre, hs'⟩
        exact ⟨s :: pre, s', post, rfl, by simp [addStmts, h, hpre], hs'⟩
      · rintro ⟨pre, s', post, hs, hpre, hs'⟩
        cases pre with
        | nil =>
          simp only [List.nil_append, List.cons.injEq] at hs
          obtain ⟨rfl, rfl⟩ := hs
          simp only [addStmts, Res.ok.injEq] at hpre
          subst hpre
          rw [h] at hs'; cases hs'
        | cons p pre =>
          simp only [List.cons_append, List.cons.injEq] at hs
          obtain ⟨rfl, rfl⟩ := hs
          simp only [addStmts, h, Res.bind_ok_eq] at hpre
          exact ⟨pre, s', post, rfl, hpre, hs'⟩

/-- a panic: exactly when some statement `s` of the batch panics in the state `st1` the statements
before it lead to -/
theorem addStmtsKeep_panic_iff (env : Env) (ss : List Stmt) : ∀ (st st1 : PState) (x : String),
    addStmtsKeep env st ss = (st1, some (.inr x)) ↔
      ∃ pre s post, ss = pre ++ s :: post ∧ addStmts env st pre = .ok st1 ∧
        addStmt env st1 s = .panic x := by
  induction ss with
  | nil => intro st st1 x; simp [addStmtsKeep]
  | cons s ss ih =>
    intro st st1 x
    simp only [addStmtsKeep]
    cases h : addStmt env st s with
    | panic x' =>
      constructor
      · intro hk
        simp only [Prod.mk.injEq, Option.some.injEq, Sum.inr.injEq] at hk
        obtain ⟨rfl, rfl⟩ := hk
        exact ⟨[], s, ss, rfl, rfl, h⟩
      · rintro ⟨pre, s', post, hs, hpre, hs'⟩
        cases pre with
        | nil =>
          simp only [List.nil_append, List.cons.injEq] at hs
          obtain ⟨rfl, rfl⟩ := hs
          simp only [addStmts, Res.ok.injEq] at hpre
          subst hpre
          rw [h] at hs'; cases hs'; rfl
        | cons p pre =>
          simp only [List.cons_append, List.cons.injEq] at hs
          obtain ⟨rfl, rfl⟩ := hs
          simp [addStmts, h] at hpre
    | err e' l' =>
      constructor
      · intro hk; simp at hk
      · rintro ⟨pre, s', post, hs, hpre, hs'⟩
        cases pre with
        | nil =>
          simp only [List.nil_append, List.cons.injEq] at hs
          obtain ⟨rfl, rfl⟩ := hs
          simp only [addStmts, Res.ok.injEq] at hpre
          subst hpre
          rw [h] at hs'; cases hs'
        | cons p pre =>
          simp only [List.cons_append, List.cons.injEq] at hs
          obtain ⟨rfl, rfl⟩ := hs
          simp [addStmts, h] at hpre
    | ok s1 =>
      simp only []
      rw [ih s1 st1 x]
      constructor
      · rintro ⟨pre, s', post, rfl, hpre, hs'⟩
        exact ⟨s :: pre, s', post, rfl, by simp [addStmts, h, hpre], hs'⟩
      · rintro ⟨pre, s', post, hs, hpre, hs'⟩
        cases pre with
        | nil =>
          simp only [List.nil_append, List.cons.injEq] at hs
          obtain ⟨rfl, rfl⟩ := hs
          simp only [addStmts, Res.ok.injEq] at hpre
          subst hpre
          rw [h] at hs'; cases hs'
        | cons p pre =>
          simp only [List.cons_append, List.cons.injEq] at hs
          obtain ⟨rfl, rfl⟩ := hs
          simp only [addStmts, h, Res.bind_ok_eq] at hpre
          exact ⟨pre, s', post, rfl, hpre, hs'⟩

/-- a failing batch: `addStmts` reports the same error at the same location -/
theorem addStmtsKeep_err {env : Env} {ss : List Stmt} {st st1 : PState} {e : ErrKind} {loc : Loc}
    (h : addStmtsKeep env st ss = (st1, some (.inl (e, loc)))) : addStmts env st ss = .err e loc := by
  obtain ⟨pre, s, post, rfl, hpre, hs⟩ := (addStmtsKeep_err_iff env ss st st1 e loc).1 h
  simp [addStmts_append, hpre, addStmts, hs]

theorem addStmtsKeep_panic {env : Env} {ss : List Stmt} {st st1 : PState} {x : String}
    (h : addStmtsKeep env st ss = (st1, some (.inr x))) : addStmts env st ss = .panic x := by
  obtain ⟨pre, s, post, rfl, hpre, hs⟩ := (addStmtsKeep_panic_iff env ss st st1 x).1 h
  simp [addStmts_append, hpre, addStmts, hs]

/-- the result of `addStmts` is the second component of `addStmtsKeep` -/
theorem addStmts_eq_of_keep (env : Env) (st : PState) (ss : List Stmt) :
    addStmts env st ss =
      match addStmtsKeep env st ss with
      | (st', none) => .ok st'
      | (_, some (.inl (e, loc))) => .err e loc
      | (_, some (.inr x)) => .panic x := by
  rcases hk : addStmtsKeep env st ss with ⟨st1, _ | ⟨⟨e, loc⟩ | x⟩⟩
  · exact (addStmtsKeep_none_iff env ss st st1).1 hk
  · exact addStmtsKeep_err hk
  · exact addStmtsKeep_panic hk

/-- a property kept by every successful statement holds in the state `addStmtsKeep` stops in, whether
the batch succeeded or not -/
theorem addStmtsKeep_induct {env : Env} (P : PState → Prop)
    (step : ∀ st st' s, P st → addStmt env st s = .ok st' → P st') :
    ∀ (ss : List Stmt) (st : PState), P st → P (addStmtsKeep env st ss).1 := by
  intro ss
  induction ss with
  | nil => intro st hp; exact hp
  | cons s ss ih =>
    intro st hp
    simp only [addStmtsKeep]
    cases h : addStmt env st s with
    | err e l => exact hp
    | panic x => exact hp
    | ok s1 => exact ih s1 (step _ _ _ hp h)

/-- `runStmts` in terms of `keepResult` -/
theorem runStmts_eq (env : Env) (ls : LoopSt) :
    runStmts env ls =
      match keepResult (addStmtsKeep env ls.st ls.cfg.takeResults.1) with
      | .ok st => .ok { ls with cfg := ls.cfg.takeResults.2, st := st }
      | .error r => .error r := by
  unfold runStmts
  simp only []
  rcases addStmtsKeep env ls.st ls.cfg.takeResults.1 with ⟨st1, _ | ⟨⟨e, loc⟩ | x⟩⟩ <;> rfl

end Resynth
