import Resynth.Lemmas.Tunnels
/-!
# Lemmas for C06 (any size): positional decapsulation of what the tunnel sessions emit

`Spec.decapPositional` ignores the IPv4 total-length / UDP length fields, so nothing here needs the
outer datagram to fit in 65535 bytes.
-/
namespace Resynth
open Spec

/-! ## `byteAt` basics -/

theorem byteAt_cons_zero (a : UInt8) (l : Bytes) : byteAt (a :: l) 0 = a.toNat := by
  simp [byteAt]

theorem byteAt_cons_succ (a : UInt8) (l : Bytes) (i : Nat) : byteAt (a :: l) (i + 1) = byteAt l i := by
  simp [byteAt]

theorem byteAt_drop (p : Bytes) (k i : Nat) : byteAt (p.drop k) i = byteAt p (k + i) := by
  simp [byteAt, List.getElem?_drop]

theorem byteAt_take (p : Bytes) (n i : Nat) (h : i < n) : byteAt (p.take n) i = byteAt p i := by
  simp [byteAt, h]

/-- the IPv4 total-length field of a packet that starts with its IPv4 header -/
def ipTotLen (p : Bytes) : Nat := byteAt p 2 * 256 + byteAt p 3

/-! ## What a GRE-family packet looks like to `decapPositional` -/

/-- facts about `IPv4 header ++ GRE flags ++ GRE protocol ++ tail` at the fixed offsets -/
theorem greShape (h : IpHdr) (flags proto : Nat) (tl : Bytes) (hv : h.ihlVersion = 0x45)
    (hp : h.protocol = 47) (hf : flags < 65536) (hpr : proto < 65536) :
    let pkt := h.serialize ++ (be16 flags ++ (be16 proto ++ tl))
    byteAt pkt 0 = 0x45 ∧ byteAt pkt 9 = 47 ∧ byteAt pkt 20 * 256 + byteAt pkt 21 = flags ∧
      byteAt pkt 22 * 256 + byteAt pkt 23 = proto ∧ pkt.length = 24 + tl.length ∧
      ∀ k, pkt.drop (24 + k) = tl.drop k := by
  intro pkt
  have e16 : ∀ x, x < 65536 → x / 256 % 256 * 256 + x % 256 = x := by intro x hx; omega
  simp only [pkt, IpHdr.serialize, be16, be32, List.cons_append, List.nil_append, byteAt_cons_succ,
    byteAt_cons_zero, b8_toNat, hv, hp, e16 _ hf, e16 _ hpr, List.length_cons]
  refine ⟨trivial, trivial, trivial, trivial, by omega, ?_⟩
  intro k
  rw [← List.drop_drop]
  simp only [List.drop_succ_cons, List.drop_zero]

theorem stripEth_grePkt (src dst flags proto : Nat) (raw : Bool) (s : Nat) (body : Bytes) :
    stripEth raw (grePkt src dst flags proto raw s body) = grePkt src dst flags proto true s body := by
  cases raw
  · have := ethHdr_length (macOfIp dst) (macOfIp src) 0x0800 (by simp) (by simp)
    simp [stripEth, grePkt, GreFrame.frame, GreFrame.push, GreFrame.seq, GreFrame.new,
      List.append_assoc, this]
  · rfl

/-- a raw GRE packet of the model is `IPv4 header (version/IHL 0x45, protocol 47) ++ flags ++
protocol ++ [sequence word iff S] ++ body`, whatever the body's size -/
theorem grePkt_raw (src dst flags proto s : Nat) (body : Bytes) :
    ∃ h : IpHdr, h.ihlVersion = 0x45 ∧ h.protocol = 47 ∧
      grePkt src dst flags proto true s body = h.serialize ++ (be16 flags ++ (be16 proto ++
        ((if flags &&& 0x1000 ≠ 0 then be32 s else []) ++ body))) := by
  refine ⟨(((GreFrame.new src dst flags proto true).seq s).push body).ip, ?_, ?_, ?_⟩
  · by_cases hS : flags &&& 0x1000 = 0 <;>
      simp [GreFrame.push, GreFrame.seq, GreFrame.new, IpHdr.calcCsum, IpHdr.addTotLen, hS]
  · by_cases hS : flags &&& 0x1000 = 0 <;>
      simp [GreFrame.push, GreFrame.seq, GreFrame.new, IpHdr.calcCsum, IpHdr.addTotLen, hS, Proto.gre]
  · by_cases hS : flags &&& 0x1000 = 0
    · simp only [grePkt, GreFrame.frame, GreFrame.push, GreFrame.seq, GreFrame.new, hS,
        bne_self_eq_false, Bool.false_eq_true, if_false, if_true, List.nil_append, Option.map_none,
        Option.getD_none, List.append_nil, List.append_assoc, ne_eq, not_true_eq_false]
    · have hS' : (flags &&& 0x1000 != 0) = true := by simpa using hS
      simp only [grePkt, GreFrame.frame, GreFrame.push, GreFrame.seq, GreFrame.new, hS', hS,
        if_true, List.nil_append, Option.map_some, Option.getD_some, List.append_assoc, ne_eq,
        not_false_eq_true]

theorem greMask : greC ||| greR ||| greK = 0xe000 := by decide

/-! ## `decapPositional` read off the fixed offsets -/

/-- GRE flags word / protocol type at their fixed offsets behind a 20-byte IPv4 header -/
def greFlagsAt (p : Bytes) : Nat := byteAt p 20 * 256 + byteAt p 21
def greProtoAt (p : Bytes) : Nat := byteAt p 22 * 256 + byteAt p 23

theorem pos_vxlan (p : Bytes) (h0 : byteAt p 0 = 0x45) (h9 : byteAt p 9 = 17)
    (h28 : byteAt p 28 = 8) (hl : 36 ≤ p.length) : decapPositional .vxlan p = some (p.drop 36) := by
  unfold decapPositional tunnelOverhead
  simp [h0, h9, h28, hl]

theorem pos_gre_noS (p : Bytes) (h0 : byteAt p 0 = 0x45) (h9 : byteAt p 9 = 47)
    (hcrk : greFlagsAt p &&& 0xe000 = 0) (hS : greFlagsAt p &&& 0x1000 = 0) (hl : 24 ≤ p.length) :
    decapPositional .gre p = some (p.drop 24) := by
  unfold greFlagsAt at hcrk hS
  unfold decapPositional tunnelOverhead
  simp [h0, h9, greMask, greS, hcrk, hS, hl]

theorem pos_gre_S (p : Bytes) (h0 : byteAt p 0 = 0x45) (h9 : byteAt p 9 = 47)
    (hcrk : greFlagsAt p &&& 0xe000 = 0) (hS : greFlagsAt p &&& 0x1000 ≠ 0) (hl : 28 ≤ p.length) :
    decapPositional .gre p = some (p.drop 28) := by
  unfold greFlagsAt at hcrk hS
  unfold decapPositional tunnelOverhead
  simp [h0, h9, greMask, greS, hcrk, hS, hl]

theorem pos_erspan1 (p : Bytes) (h0 : byteAt p 0 = 0x45) (h9 : byteAt p 9 = 47)
    (hpr : greProtoAt p = 0x88be) (hS : greFlagsAt p &&& 0x1000 = 0) (hl : 24 ≤ p.length) :
    decapPositional .erspan1 p = some (p.drop 24) := by
  unfold greFlagsAt at hS
  unfold greProtoAt at hpr
  unfold decapPositional tunnelOverhead
  simp [h0, h9, greS, ethertypeErspan, hpr, hS, hl]

theorem pos_erspan2 (p : Bytes) (h0 : byteAt p 0 = 0x45) (h9 : byteAt p 9 = 47)
    (hpr : greProtoAt p = 0x88be) (hS : greFlagsAt p &&& 0x1000 ≠ 0) (hl : 36 ≤ p.length) :
    decapPositional .erspan2 p = some (p.drop 36) := by
  unfold greFlagsAt at hS
  unfold greProtoAt at hpr
  unfold decapPositional tunnelOverhead
  simp [h0, h9, greS, ethertypeErspan, hpr, hS, hl]

/-- `decapPositional` on `IPv4 header ++ GRE flags ++ GRE protocol ++ tail`, per kind -/
theorem pos_greShape (h : IpHdr) (flags proto : Nat) (tl : Bytes) (hv : h.ihlVersion = 0x45)
    (hp : h.protocol = 47) (hf : flags < 65536) (hpr : proto < 65536) :
    let pkt := h.serialize ++ (be16 flags ++ (be16 proto ++ tl))
    (flags &&& 0xe000 = 0 → flags &&& 0x1000 = 0 → decapPositional .gre pkt = some tl) ∧
    (flags &&& 0xe000 = 0 → flags &&& 0x1000 ≠ 0 → 4 ≤ tl.length →
      decapPositional .gre pkt = some (tl.drop 4)) ∧
    (flags &&& 0x1000 = 0 → proto = 0x88be → decapPositional .erspan1 pkt = some tl) ∧
    (flags &&& 0x1000 ≠ 0 → proto = 0x88be → 12 ≤ tl.length →
      decapPositional .erspan2 pkt = some (tl.drop 12)) := by
  dsimp only
  obtain ⟨h0, h9, hfl, hproto, hlen, hdrop⟩ := greShape h flags proto tl hv hp hf hpr
  have hd0 := hdrop 0
  have hd4 := hdrop 4
  have hd12 := hdrop 12
  simp only [Nat.add_zero, List.drop_zero, Nat.reduceAdd] at hd0 hd4 hd12
  refine ⟨?_, ?_, ?_, ?_⟩
  · intro hcrk hS
    rw [pos_gre_noS _ h0 h9 (by rw [greFlagsAt, hfl]; exact hcrk) (by rw [greFlagsAt, hfl]; exact hS)
      (by omega), hd0]
  · intro hcrk hS hl
    rw [pos_gre_S _ h0 h9 (by rw [greFlagsAt, hfl]; exact hcrk) (by rw [greFlagsAt, hfl]; exact hS)
      (by omega), hd4]
  · intro hS hpe
    rw [pos_erspan1 _ h0 h9 (by rw [greProtoAt, hproto]; exact hpe) (by rw [greFlagsAt, hfl]; exact hS)
      (by omega), hd0]
  · intro hS hpe hl
    rw [pos_erspan2 _ h0 h9 (by rw [greProtoAt, hproto]; exact hpe) (by rw [greFlagsAt, hfl]; exact hS)
      (by omega), hd12]

/-- GRE, any flags word without C/R/K (with or without S), body of any size -/
theorem decapPositional_gre_grePkt (src dst flags proto : Nat) (raw : Bool) (s : Nat) (body : Bytes)
    (hf : flags < 65536) (hcrk : flags &&& 0xe000 = 0) (hp : proto < 65536) :
    decapPositional .gre (stripEth raw (grePkt src dst flags proto raw s body)) = some body := by
  rw [stripEth_grePkt]
  obtain ⟨h, hv, hpr, e⟩ := grePkt_raw src dst flags proto s body
  rw [e]
  obtain ⟨h1, h2, -, -⟩ := pos_greShape h flags proto
    ((if flags &&& 0x1000 ≠ 0 then be32 s else []) ++ body) hv hpr hf hp
  by_cases hS : flags &&& 0x1000 = 0
  · rw [h1 hcrk hS]; simp [hS]
  · rw [h2 hcrk hS (by simp [hS, be32])]; simp [hS, be32]

/-- ERSPAN type I shape: flags 0, protocol 0x88be -/
theorem decapPositional_erspan1_grePkt (src dst : Nat) (raw : Bool) (s : Nat) (body : Bytes) :
    decapPositional .erspan1 (stripEth raw (grePkt src dst 0 0x88be raw s body)) = some body := by
  rw [stripEth_grePkt]
  obtain ⟨h, hv, hpr, e⟩ := grePkt_raw src dst 0 0x88be s body
  rw [e]
  obtain ⟨-, -, h3, -⟩ := pos_greShape h 0 0x88be
    ((if 0 &&& 0x1000 ≠ 0 then be32 s else []) ++ body) hv hpr (by decide) (by decide)
  rw [h3 (by decide) rfl]; simp

/-- ERSPAN type II shape: flags 0x1000 (S), protocol 0x88be, body = 8-byte ERSPAN header ++ inner -/
theorem decapPositional_erspan2_grePkt (src dst : Nat) (raw : Bool) (s : Nat) (hdr inner : Bytes)
    (hh : hdr.length = 8) :
    decapPositional .erspan2 (stripEth raw (grePkt src dst 0x1000 0x88be raw s (hdr ++ inner))) =
      some inner := by
  rw [stripEth_grePkt]
  obtain ⟨h, hv, hpr, e⟩ := grePkt_raw src dst 0x1000 0x88be s (hdr ++ inner)
  rw [e]
  obtain ⟨-, -, -, h4⟩ := pos_greShape h 0x1000 0x88be
    ((if 0x1000 &&& 0x1000 ≠ 0 then be32 s else []) ++ (hdr ++ inner)) hv hpr (by decide) (by decide)
  rw [h4 (by decide) rfl (by simp [be32, hh])]
  congr 1
  rw [if_pos (by decide), ← List.append_assoc]
  apply List.drop_left'
  simp [be32, hh]

/-! ## The four sessions, inner frame of any size -/

theorem stripEth_vxlan (f : VxlanFlow) (b : Bytes) :
    stripEth f.raw (f.encap b) = ({ f with raw := true } : VxlanFlow).encap b := by
  cases hraw : f.raw
  · have := ethHdr_length (macOfIp f.sv.ip) (macOfIp f.cl.ip) 0x0800 (by simp) (by simp)
    simp [stripEth, VxlanFlow.encap, UdpDgram.frame, UdpDgram.push, UdpDgram.dst, UdpDgram.src,
      UdpDgram.new, UdpDgram.dgram, hraw, List.append_assoc, this]
  · simp [stripEth, VxlanFlow.encap, hraw]

theorem decapPositional_vxlan_encap (f : VxlanFlow) (b : Bytes) :
    decapPositional .vxlan (stripEth f.raw (f.encap b)) = some b := by
  rw [stripEth_vxlan]
  simp only [VxlanFlow.encap, UdpDgram.frame, UdpDgram.push, UdpDgram.dst, UdpDgram.src,
    UdpDgram.new, UdpDgram.dgram, if_true, List.nil_append]
  rw [pos_vxlan]
  · simp only [IpHdr.serialize, UdpHdr.serialize, vxlanHdr, be16, be32, List.cons_append,
      List.nil_append, List.drop_succ_cons, List.drop_zero]
  · simp only [IpHdr.serialize, be16, List.cons_append, List.nil_append, byteAt_cons_zero, b8_toNat,
      IpHdr.calcCsum, IpHdr.addTotLen]
  · simp only [IpHdr.serialize, be16, List.cons_append, List.nil_append, byteAt_cons_zero,
      byteAt_cons_succ, b8_toNat, IpHdr.calcCsum, IpHdr.addTotLen, Proto.udp]
  · simp only [IpHdr.serialize, UdpHdr.serialize, vxlanHdr, be16, be32, List.cons_append,
      List.nil_append, byteAt_cons_zero, byteAt_cons_succ]
    decide
  · simp [IpHdr.serialize, UdpHdr.serialize, vxlanHdr, be16, be32]

theorem decapPositional_gre_encap (f : GreFlow) (b : Bytes)
    (hf : f.flags < 65536) (hcrk : f.flags &&& 0xe000 = 0) (hp : f.ethertype < 65536) :
    decapPositional .gre (stripEth f.raw (f.encap b).2) = some b := by
  rw [GreFlow.encap_eq]
  exact decapPositional_gre_grePkt _ _ _ _ _ _ _ hf hcrk hp

theorem decapPositional_erspan1_encap (f : Erspan1Flow) (b : Bytes) :
    decapPositional .erspan1 (stripEth f.raw (f.encap b)) = some b := by
  rw [Erspan1Flow.encap_eq f b 0]
  exact decapPositional_erspan1_grePkt _ _ _ _ _

theorem erspan2Hdr_length (sess index : Nat) : (erspan2Hdr sess index).length = 8 := by
  simp [erspan2Hdr, be32]

theorem decapPositional_erspan2_encap (f : Erspan2Flow) (b : Bytes) (portIndex : Nat) :
    decapPositional .erspan2 (stripEth f.raw (f.encap b portIndex).2) = some b := by
  rw [Erspan2Flow.encap_eq]
  exact decapPositional_erspan2_grePkt _ _ _ _ _ _ (erspan2Hdr_length _ _)

/-! ## Whole `encap(gen)` calls on the stateful sessions -/

theorem GreFlow.decapPositional_encapAll (f : GreFlow) (inners : List Bytes)
    (hf : f.flags < 65536) (hcrk : f.flags &&& 0xe000 = 0) (hp : f.ethertype < 65536) :
    (f.encapAll inners).2.map (fun p => decapPositional .gre (stripEth f.raw p)) =
      inners.map some := by
  induction inners generalizing f with
  | nil => rfl
  | cons b bs ih =>
    have := ih (f.encap b).1 hf hcrk hp
    simp only [GreFlow.encapAll, List.map_cons, decapPositional_gre_encap f b hf hcrk hp]
    exact congrArg _ this

theorem Erspan2Flow.decapPositional_encapAll (f : Erspan2Flow) (portIndex : Nat)
    (inners : List Bytes) :
    (f.encapAll portIndex inners).2.map (fun p => decapPositional .erspan2 (stripEth f.raw p)) =
      inners.map some := by
  induction inners generalizing f with
  | nil => rfl
  | cons b bs ih =>
    have := ih (f.encap b portIndex).1
    simp only [Erspan2Flow.encapAll, List.map_cons, decapPositional_erspan2_encap f b portIndex]
    exact congrArg _ this

/-! ## The positional decoder against the ordinary ones -/

theorem ip4Payload_inv (p : Bytes) (proto : Nat) (pl : Bytes) (h : ip4Payload p = some (proto, pl)) :
    byteAt p 0 = 0x45 ∧ byteAt p 9 = proto ∧ 20 ≤ ipTotLen p ∧ ipTotLen p ≤ p.length ∧
      pl = (p.drop 20).take (ipTotLen p - 20) := by
  unfold ip4Payload at h
  split at h
  · rename_i vihl _tos l0 l1 _ _ _ _ _ pr _ _ _ _ _ _ _ _ _ _ rest
    simp only [rd16] at h
    simp only [Nat.sub_le_iff_le_add, Option.ite_none_right_eq_some, Option.some.injEq, Prod.mk.injEq] at h
    obtain ⟨⟨hv, h20, hle⟩, rfl, rfl⟩ := h
    simp only [ipTotLen, byteAt_cons_zero, byteAt_cons_succ, List.length_cons, List.drop_succ_cons,
      List.drop_zero, hv]
    refine ⟨by decide, trivial, h20, by omega, trivial⟩
  · cases h

/-- the first `k` bytes of the IP payload sit at offsets `20 …` of the packet, and what follows them
is what follows offset `20 + k`, cut at the IP total length -/
theorem ipPayload_facts (p pl : Bytes) (n k : Nat) (h20 : 20 ≤ n) (hle : n ≤ p.length)
    (hpl : pl = (p.drop 20).take (n - 20)) (hk : k ≤ pl.length) :
    20 + k ≤ p.length ∧ 20 + k ≤ n ∧ pl.drop k = (p.drop (20 + k)).take (n - (20 + k)) ∧
      ∀ i, i < k → byteAt pl i = byteAt p (20 + i) := by
  have hl : pl.length = min (n - 20) (p.length - 20) := by rw [hpl]; simp
  refine ⟨by omega, by omega, ?_, ?_⟩
  · rw [hpl, List.drop_take, List.drop_drop, Nat.sub_sub]
  · intro i hi
    rw [hpl, byteAt_take _ _ _ (by omega), byteAt_drop]

/-- `decapVxlan` succeeds ⇒ the positional decoder returns everything after the 36 header bytes, and
the ordinary decoder's inner frame is that, cut at the IP total length -/
theorem decapVxlan_positional (p : Bytes) (v : Vxlan) (h : decapVxlan p = some v) :
    decapPositional .vxlan p = some (p.drop 36) ∧
      v.inner = (p.drop 36).take (ipTotLen p - 36) := by
  unfold decapVxlan at h
  split at h
  · rename_i proto udp hip
    obtain ⟨h0, h9, h20, hle, hpl⟩ := ip4Payload_inv p proto udp hip
    split at h
    · rename_i sp0 sp1 dp0 dp1 ul0 ul1 uc0 uc1 flags r0 r1 r2 v0 v1 v2 r3 inner
      simp only [Option.ite_none_right_eq_some, Option.some.injEq] at h
      obtain ⟨⟨hproto, -, hfl, -⟩, rfl⟩ := h
      obtain ⟨f1, f2, f3, f4⟩ := ipPayload_facts p _ (ipTotLen p) 16 h20 hle hpl (by simp)
      have h28 := f4 8 (by omega)
      simp only [byteAt_cons_succ, byteAt_cons_zero, hfl] at h28
      simp only [List.drop_succ_cons, List.drop_zero] at f3
      exact ⟨pos_vxlan p h0 (by rw [h9, hproto]) h28.symm (by omega), f3⟩
    · cases h
  · cases h

/-- everything `decapGre` checked and returned, in terms of fixed offsets -/
theorem decapGre_inv (p : Bytes) (g : Gre) (h : decapGre p = some g) :
    byteAt p 0 = 0x45 ∧ byteAt p 9 = 47 ∧ g.flags = greFlagsAt p ∧ g.proto = greProtoAt p ∧
    g.flags &&& 0xe000 = 0 ∧
    ((g.flags &&& 0x1000 = 0 ∧ g.seq = none ∧ 24 ≤ p.length ∧
        g.inner = (p.drop 24).take (ipTotLen p - 24)) ∨
     (g.flags &&& 0x1000 ≠ 0 ∧ g.seq ≠ none ∧ 28 ≤ p.length ∧
        g.inner = (p.drop 28).take (ipTotLen p - 28))) := by
  unfold decapGre at h
  split at h
  · rename_i ipProto f0 f1 p0 p1 rest hip
    obtain ⟨h0, h9, h20, hle, hpl⟩ := ip4Payload_inv p ipProto _ hip
    obtain ⟨a1, a2, a3, a4⟩ := ipPayload_facts p _ (ipTotLen p) 4 h20 hle hpl (by simp)
    have b0 := a4 0 (by omega)
    have b1 := a4 1 (by omega)
    have b2 := a4 2 (by omega)
    have b3 := a4 3 (by omega)
    simp only [byteAt_cons_succ, byteAt_cons_zero] at b0 b1 b2 b3
    simp only [List.drop_succ_cons, List.drop_zero] at a3
    dsimp only at h
    rw [greMask] at h
    by_cases hc : ipProto ≠ 47 ∨ rd16 f0 f1 &&& 0xe000 ≠ 0
    · rw [if_pos hc] at h; cases h
    · rw [if_neg hc] at h
      have hproto : ipProto = 47 := by
        by_cases hq : ipProto = 47
        · exact hq
        · exact absurd (Or.inl hq) hc
      have hcrk : rd16 f0 f1 &&& 0xe000 = 0 := by
        by_cases hq : rd16 f0 f1 &&& 0xe000 = 0
        · exact hq
        · exact absurd (Or.inr hq) hc
      have hflags : rd16 f0 f1 = greFlagsAt p := by
        rw [rd16, greFlagsAt, b0, b1]
      have hpr : rd16 p0 p1 = greProtoAt p := by
        rw [rd16, greProtoAt, b2, b3]
      by_cases hS : rd16 f0 f1 &&& greS ≠ 0
      · rw [if_pos hS] at h
        split at h
        · rename_i s0 s1 s2 s3 inner
          cases h
          obtain ⟨c1, c2, c3, -⟩ := ipPayload_facts p _ (ipTotLen p) 8 h20 hle hpl (by simp)
          simp only [List.drop_succ_cons, List.drop_zero] at c3
          exact ⟨h0, by rw [h9, hproto], hflags, hpr, hcrk, Or.inr ⟨hS, by simp, by omega, c3⟩⟩
        · cases h
      · rw [if_neg hS] at h
        cases h
        exact ⟨h0, by rw [h9, hproto], hflags, hpr, hcrk,
          Or.inl ⟨by simpa [greS] using hS, rfl, by omega, a3⟩⟩
  · cases h

theorem tunnelOverhead_gre (p : Bytes) :
    tunnelOverhead .gre p = if greFlagsAt p &&& 0x1000 ≠ 0 then 28 else 24 := rfl

theorem decapGre_positional (p : Bytes) (g : Gre) (h : decapGre p = some g) :
    decapPositional .gre p = some (p.drop (tunnelOverhead .gre p)) ∧
      g.inner = (p.drop (tunnelOverhead .gre p)).take (ipTotLen p - tunnelOverhead .gre p) := by
  obtain ⟨h0, h9, hfl, -, hcrk, hS | hS⟩ := decapGre_inv p g h
  · obtain ⟨hS, -, hl, hin⟩ := hS
    rw [hfl] at hcrk hS
    rw [tunnelOverhead_gre, if_neg (by simpa using hS)]
    exact ⟨pos_gre_noS p h0 h9 hcrk hS hl, hin⟩
  · obtain ⟨hS, -, hl, hin⟩ := hS
    rw [hfl] at hcrk hS
    rw [tunnelOverhead_gre, if_pos hS]
    exact ⟨pos_gre_S p h0 h9 hcrk hS hl, hin⟩

theorem decapErspan1_positional (p b : Bytes) (h : decapErspan1 p = some b) :
    decapPositional .erspan1 p = some (p.drop 24) ∧ b = (p.drop 24).take (ipTotLen p - 24) := by
  unfold decapErspan1 at h
  split at h
  · rename_i g hg
    simp only [Option.ite_none_right_eq_some, Option.some.injEq] at h
    obtain ⟨⟨hpr, hseq⟩, rfl⟩ := h
    obtain ⟨h0, h9, hfl, hproto, -, hS | hS⟩ := decapGre_inv p g hg
    · obtain ⟨hS, -, hl, hin⟩ := hS
      rw [hfl] at hS
      rw [hproto] at hpr
      exact ⟨pos_erspan1 p h0 h9 hpr hS hl, hin⟩
    · exact absurd hseq hS.2.1
  · cases h

theorem decapErspan2_positional (p : Bytes) (e : Erspan2) (h : decapErspan2 p = some e) :
    decapPositional .erspan2 p = some (p.drop 36) ∧
      e.inner = (p.drop 36).take (ipTotLen p - 36) := by
  unfold decapErspan2 at h
  split at h
  · rename_i g hg
    split at h
    · rename_i seq a0 a1 a2 a3 b0 b1 b2 b3 inner hseq hinner
      simp only [Option.ite_none_right_eq_some, Option.some.injEq] at h
      obtain ⟨⟨hpr, -⟩, rfl⟩ := h
      obtain ⟨h0, h9, hfl, hproto, -, hS | hS⟩ := decapGre_inv p g hg
      · rw [hS.2.1] at hseq; cases hseq
      · obtain ⟨hS, -, hl, hin⟩ := hS
        rw [hfl] at hS
        rw [hproto] at hpr
        rw [hinner] at hin
        have hlen := congrArg List.length hin
        simp only [List.length_cons, List.length_take, List.length_drop] at hlen
        have hd := congrArg (List.drop 8) hin
        simp only [List.drop_succ_cons, List.drop_zero, List.drop_take, List.drop_drop,
          Nat.sub_sub, Nat.reduceAdd] at hd
        exact ⟨pos_erspan2 p h0 h9 hpr hS (by omega), hd⟩
    · cases h
  · cases h

/-- no trailing bytes behind the IP total length ⇒ cutting there cuts nothing -/
theorem take_drop_full (p : Bytes) (n k : Nat) (h : n = p.length) :
    (p.drop k).take (n - k) = p.drop k := by
  apply List.take_of_length_le
  simp only [List.length_drop]; omega

/-- the positional decoder's header size for a GRE session's packet follows the session's S bit -/
theorem tunnelOverhead_gre_encap (f : GreFlow) (b : Bytes) (hf : f.flags < 65536)
    (hp : f.ethertype < 65536) :
    tunnelOverhead .gre (stripEth f.raw (f.encap b).2) =
      if f.flags &&& 0x1000 ≠ 0 then 28 else 24 := by
  rw [GreFlow.encap_eq, stripEth_grePkt]
  obtain ⟨h, hv, hpr, e⟩ := grePkt_raw f.cl f.sv f.flags f.ethertype f.seq b
  rw [e, tunnelOverhead_gre, greFlagsAt]
  obtain ⟨-, -, hfl, -⟩ := greShape h f.flags f.ethertype
    ((if f.flags &&& 0x1000 ≠ 0 then be32 f.seq else []) ++ b) hv hpr hf hp
  rw [hfl]

/-! ## Nesting, any size -/

def Layer.kind : Layer → TunnelKind
  | .vxlan _ => .vxlan
  | .gre _ => .gre
  | .erspan1 _ => .erspan1
  | .erspan2 _ _ => .erspan2

/-- decapsulate positionally, as the layer's kind -/
def Layer.decapPos (l : Layer) (p : Bytes) : Option Bytes :=
  decapPositional l.kind (stripEth l.raw p)

/-- undo the layers outermost first with the positional decoder -/
def unwrapPos : List Layer → Bytes → Option Bytes
  | [], p => some p
  | l :: ls, p => (unwrapPos ls p).bind l.decapPos

theorem Layer.decapPos_encap (l : Layer) (b : Bytes) (hok : l.Ok) :
    l.decapPos (l.encap b) = some b := by
  cases l with
  | vxlan f => exact decapPositional_vxlan_encap f b
  | gre f =>
    obtain ⟨h1, h2, h3⟩ := hok
    exact decapPositional_gre_encap f b h1 h2 h3
  | erspan1 f => exact decapPositional_erspan1_encap f b
  | erspan2 f i => exact decapPositional_erspan2_encap f b i

theorem unwrapPos_wrap (ls : List Layer) (inner : Bytes) (hok : ∀ l ∈ ls, l.Ok) :
    unwrapPos ls (wrap ls inner) = some inner := by
  induction ls generalizing inner with
  | nil => rfl
  | cons l ls ih =>
    rw [wrap, unwrapPos, ih (l.encap inner) (fun l' hl' => hok l' (by simp [hl']))]
    exact Layer.decapPos_encap l inner (hok l (by simp))

theorem Layer.step_decapPos (l : Layer) (b : Bytes) : (l.step b).1.decapPos = l.decapPos := by
  cases l <;> rfl

theorem Layer.decapPos_encapAll (l : Layer) (bs : List Bytes) (hok : l.Ok) :
    (l.encapAll bs).2.map l.decapPos = bs.map some := by
  induction bs generalizing l with
  | nil => rfl
  | cons b bs ih =>
    have h1 := ih (l.step b).1 (l.step_ok b hok)
    rw [Layer.step_decapPos] at h1
    simp only [Layer.encapAll, List.map_cons, h1, Layer.step_snd, Layer.decapPos_encap l b hok]

theorem unwrapPos_wrapAll (ls : List Layer) (bs : List Bytes) (hok : ∀ l ∈ ls, l.Ok) :
    (wrapAll ls bs).map (unwrapPos ls) = bs.map some := by
  induction ls generalizing bs with
  | nil => simp [wrapAll, unwrapPos]
  | cons l ls ih =>
    have e : (wrapAll (l :: ls) bs).map (unwrapPos (l :: ls)) =
        ((wrapAll ls (l.encapAll bs).2).map (unwrapPos ls)).map (·.bind l.decapPos) := by
      simp [wrapAll, unwrapPos, List.map_map, Function.comp_def]
    rw [e, ih _ (fun l' hl' => hok l' (by simp [hl'])), List.map_map]
    simpa [Function.comp_def] using Layer.decapPos_encapAll l bs (hok l (by simp))

end Resynth
