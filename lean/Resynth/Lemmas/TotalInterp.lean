import Resynth.Lemmas.TotalTable
import Resynth.Lemmas.TotalExecCovered
import Resynth.Lemmas.TotalParse
import Resynth.Lemmas.InterpInvFrame
/-!
# Whole-file totality (C08): the interpreter never panics on well-formed statements

State invariant `StOk st`: every register value is `ValOk` in the current heap, where `ValOk h v` says
* an object handle / the receiver of a method value is a live slot of `h` of the recorded class,
* a function value is the path of a covered free function of `Gen.lib`, a method value the path of a
  covered method of the receiver's class,
* packets have the 16 bytes of headroom `PcapWriter::write_packet` borrows.

`eval_ok` / `evalArgs_ok` (mutual): on a well-formed expression and an `StOk` state, `eval` does not
panic and re-establishes the invariant; `addStmt_ok`, `addStmts_ok` lift this to statements.
Everything is for `env.lib = Gen.lib` (the real library table); the file system is arbitrary.
-/
namespace Resynth.C08

/-- a run-time value is well formed with respect to heap `h` -/
def ValOk (h : Heap) : Val → Prop
  | .obj id cls => Live h id cls
  | .func p => ∃ f, Gen.lib.get p = some (.func f) ∧ (none, f) ∈ covered
  | .method id cls p => ∃ f, Gen.lib.get p = some (.func f) ∧ (some cls, f) ∈ covered ∧ Live h id cls
  | .pkt p => p.headroom = 16
  | .pktgen ps => ∀ p ∈ ps, p.headroom = 16
  | _ => True

theorem ValOk.ofRes {h : Heap} {v : Val} (hr : ResOk h v) : ValOk h v := by
  cases v <;> first | exact hr | trivial | exact hr.elim

theorem ValOk.mono {h h' : Heap} {v : Val} (hv : ValOk h v) (he : HeapExt h h') : ValOk h' v := by
  cases v <;> try exact hv
  · exact Live.mono hv he
  · obtain ⟨f, h1, h2, h3⟩ := hv; exact ⟨f, h1, h2, h3.mono he⟩

theorem ValOk_ofDef (h : Heap) (d : ValDef) : ValOk h (Val.ofDef d) := by cases d <;> trivial
theorem ValOk_ofLit (h : Heap) (l : Lit) : ValOk h (Val.ofLit l) := by cases l <;> trivial

/-- the interpreter state invariant -/
def StOk (st : PState) : Prop := ∀ e ∈ st.regs, ValOk st.heap e.2

theorem StOk.withLoc {st : PState} (h : StOk st) (l : Loc) : StOk { st with loc := l } := h

theorem StOk.lookup {st : PState} (h : StOk st) {n : String} {v : Val} (hl : lookupReg st.regs n = some v) :
    ValOk st.heap v := by
  unfold lookupReg at hl
  cases hf : st.regs.find? (fun e => e.1 == n) with
  | none => simp [hf] at hl
  | some e =>
    simp only [hf, Option.map_some, Option.some.injEq] at hl
    subst hl
    exact h e (List.mem_of_find?_eq_some hf)

theorem StOk.ext {st st' : PState} (h : StOk st) (hr : st'.regs = st.regs) (he : HeapExt st.heap st'.heap) :
    StOk st' := by
  intro e hm
  rw [hr] at hm
  exact (h e hm).mono he

/-! ## references -/

/-- outcome of a reference: a well-formed value or an error -/
def RefOk (h : Heap) : Res Val → Prop
  | .ok v => ValOk h v
  | .err _ _ => True
  | .panic _ => False

def WalkOk : Res String → Prop
  | .ok r => NoDot r
  | .err _ _ => True
  | .panic _ => False

def WStepOk (cur c : String) : Res String → Prop
  | .ok r => r = cur ++ "::" ++ c
  | .err _ _ => True
  | .panic _ => False

/-- walking the sub-modules never panics and yields a path without `.` -/
theorem walk_ok {step : String → String → Res String} (hstep : ∀ cur c, WStepOk cur c (step cur c)) :
    ∀ (rest : List String) (cur : String) (r : Res String), rest.foldlM step cur = r →
      NoDot cur → (∀ c ∈ rest, Plain c) → WalkOk r
  | [], cur, r, h, hc, _ => by simp only [List.foldlM_nil] at h; subst h; exact hc
  | c :: rest, cur, r, h, hc, hr => by
    simp only [List.foldlM_cons] at h
    have hs := hstep cur c
    cases hg : step cur c with
    | err e l => rw [hg] at h; subst h; trivial
    | panic s => rw [hg] at hs; exact hs.elim
    | ok nxt =>
      rw [hg] at h hs
      simp only [WStepOk] at hs
      subst hs
      exact walk_ok hstep rest _ r h
        (NoDot_append (NoDot_append hc NoDot_sep) (Plain.noDot (hr c (by simp))))
        (fun c' hc' => hr c' (by simp [hc']))

theorem evalExternRef_ok (fs : Fs) (st : PState) (o : ObjRef) (hw : o.WF) :
    RefOk st.heap (evalExternRef ⟨Gen.lib, fs⟩ st o) ∨ o.modules = [] := by
  obtain ⟨loc, modules, components⟩ := o
  obtain ⟨hc, hm, hcs⟩ := hw
  simp only at hc hm hcs
  cases modules with
  | nil => exact .inr rfl
  | cons top rest =>
    left
    simp only [evalExternRef]
    split
    · trivial
    · have h1 : NoDot top := Plain.noDot (hm top (by simp))
      have h2 : ∀ c ∈ rest, Plain c := fun c hc' => hm c (by simp [hc'])
      split
      · trivial
      · next s heq =>
        exact (walk_ok (by intro cur c; split <;> simp [WStepOk]) rest top _ heq h1 h2).elim
      · next modPath heq =>
        have hwalk : NoDot modPath :=
          walk_ok (by intro cur c; split <;> simp [WStepOk]) rest top _ heq h1 h2
        cases components with
        | nil => exact absurd rfl hc
        | cons topvar more =>
          simp only
          have hk : NoDot (modPath ++ "::" ++ topvar) :=
            NoDot_append (NoDot_append hwalk NoDot_sep) (Plain.noDot (hcs topvar (by simp)))
          split
          · split
            · exact ValOk_ofDef _ _
            · trivial
          · next f hg =>
            split
            · obtain ⟨hcov, hp⟩ := free_function_covered hg hk
              exact ⟨f, by rw [hp]; exact hg, hcov⟩
            · trivial
          · trivial
          · trivial
          · trivial

theorem evalLocalRef_ok (fs : Fs) (st : PState) (o : ObjRef) (hw : o.WF) (hst : StOk st) :
    RefOk st.heap (evalLocalRef ⟨Gen.lib, fs⟩ st o) := by
  obtain ⟨loc, modules, components⟩ := o
  obtain ⟨hc, hm, hcs⟩ := hw
  simp only at hc hm hcs
  simp only [evalLocalRef]
  split
  · trivial
  · cases components with
    | nil => exact absurd rfl hc
    | cons var more =>
      simp only
      cases hl : lookupReg st.regs var with
      | none => trivial
      | some v =>
        have hv := hst.lookup hl
        simp only
        cases more with
        | nil => exact hv
        | cons m more' =>
          simp only
          cases v <;> try trivial
          next id cls =>
          simp only
          obtain ⟨ob, hob, hcls⟩ := hv
          split
          · trivial
          · next f hg =>
            obtain ⟨hcov, hp⟩ := method_covered ob hcls hg
            exact ⟨f, by rw [hp]; exact hg, hcov, ob, hob, hcls⟩
          · trivial

theorem evalObjRef_ok (fs : Fs) (st : PState) (o : ObjRef) (hw : o.WF) (hst : StOk st) :
    RefOk st.heap (evalObjRef ⟨Gen.lib, fs⟩ st o) := by
  unfold evalObjRef
  split
  · next hlen =>
    rcases evalExternRef_ok fs st o hw with h | h
    · exact h
    · rw [h] at hlen; simp at hlen
  · exact evalLocalRef_ok fs st o hw hst

/-! ## calls -/

/-- outcome of an evaluation started in `st` -/
def EvalOk (st : PState) : Res (Val × PState) → Prop
  | .ok (v, st') => StOk st' ∧ ValOk st'.heap v ∧ HeapExt st.heap st'.heap ∧ st'.regs = st.regs
  | .err _ _ => True
  | .panic _ => False

def ArgsOk (st : PState) : Res (List ArgSpec × PState) → Prop
  | .ok (_, st') => StOk st' ∧ HeapExt st.heap st'.heap ∧ st'.regs = st.regs
  | .err _ _ => True
  | .panic _ => False

theorem funcOf_ok (fs : Fs) {p : String} {f : FuncDef} (h : Gen.lib.get p = some (.func f)) :
    funcOf ⟨Gen.lib, fs⟩ p = .ok f := by
  simp [funcOf, h]

/-- a library call: no panic; the result is well formed in the extended heap -/
theorem bindAndExec_ok (e : Option String × FuncDef) (he : e ∈ covered) (env : Env) (st : PState)
    (this : Option Nat) (args : List ArgSpec) (hst : StOk st) (hthis : ThisOk e.1 this st.heap) :
    EvalOk st (bindAndExec env st e.2 this args) := by
  have hnp := bindAndExec_no_panic e he env st this args hthis
  have hwf := covered_wf e he
  cases hb : bindAndExec env st e.2 this args with
  | panic s => exact absurd hb (hnp s)
  | err k l => trivial
  | ok r =>
    obtain ⟨v, st'⟩ := r
    unfold bindAndExec at hb
    cases ha : Bind.argvec e.2 args with
    | typeError m => simp [ha] at hb
    | panic s => simp [ha] at hb
    | ok av =>
      have hwb := bind_ok_wellBound e.2 hwf args av ha
      have hp := covered_post e he env.fs this av st.heap hwb hthis
      simp only [ha] at hb
      cases hx : exec env.fs e.2.path this av st.heap with
      | panic s => simp [hx] at hb
      | err k l => simp [hx] at hb
      | ok r =>
        obtain ⟨v', h'⟩ := r
        rw [hx] at hp
        simp only [hx] at hb
        split at hb
        · cases hb
        · simp only [Res.ok.injEq, Prod.mk.injEq] at hb
          obtain ⟨rfl, rfl⟩ := hb
          obtain ⟨hext, hres⟩ := hp
          exact ⟨hst.ext rfl hext, ValOk.ofRes hres, hext, rfl⟩

/-! ## expressions -/

theorem EvalOk.trans {st st1 : PState} {r : Res (Val × PState)} (he : HeapExt st.heap st1.heap)
    (hr : st1.regs = st.regs) (h : EvalOk st1 r) : EvalOk st r := by
  cases r with
  | ok p => obtain ⟨v, st'⟩ := p; exact ⟨h.1, h.2.1, he.trans h.2.2.1, h.2.2.2.trans hr⟩
  | err => trivial
  | panic => exact h

mutual
theorem eval_ok (fs : Fs) : ∀ (e : Expr) (st : PState), e.WF → StOk st →
    EvalOk st (eval ⟨Gen.lib, fs⟩ st e)
  | .nil, st, _, hst => ⟨hst, trivial, HeapExt.refl _, rfl⟩
  | .lit loc v, st, _, hst => ⟨hst.withLoc loc, ValOk_ofLit _ _, HeapExt.refl _, rfl⟩
  | .ref o, st, hw, hst => by
    simp only [eval]
    have h := evalObjRef_ok fs { st with loc := o.loc } o (by simpa [Expr.WF] using hw) (hst.withLoc _)
    cases hr : evalObjRef ⟨Gen.lib, fs⟩ { st with loc := o.loc } o with
    | err e l => trivial
    | panic s => rw [hr] at h; exact h
    | ok v => rw [hr] at h; exact ⟨hst.withLoc _, h, HeapExt.refl _, rfl⟩
  | .call o args, st, hw, hst => by
    simp only [Expr.WF] at hw
    simp only [eval]
    have h := evalObjRef_ok fs { st with loc := o.loc } o hw.1 (hst.withLoc _)
    cases hr : evalObjRef ⟨Gen.lib, fs⟩ { st with loc := o.loc } o with
    | err e l => trivial
    | panic s => rw [hr] at h; exact h
    | ok callee =>
      rw [hr] at h
      simp only [Res.bind_ok_eq]
      cases callee <;> try trivial
      · next path =>
        obtain ⟨f, hf, hcov⟩ := h
        have ha := evalArgs_ok fs args { st with loc := o.loc } hw.2 (hst.withLoc _)
        cases hargs : evalArgs ⟨Gen.lib, fs⟩ { st with loc := o.loc } args with
        | err e l => trivial
        | panic s => rw [hargs] at ha; exact ha
        | ok r =>
          obtain ⟨argv, st2⟩ := r
          rw [hargs] at ha
          simp only [Res.bind_ok_eq, funcOf_ok fs hf]
          exact EvalOk.trans (st1 := st2) ha.2.1 ha.2.2
            (bindAndExec_ok (none, f) hcov _ st2 none argv ha.1 rfl)
      · next id cls path =>
        obtain ⟨f, hf, hcov, hlive⟩ := h
        have ha := evalArgs_ok fs args { st with loc := o.loc } hw.2 (hst.withLoc _)
        cases hargs : evalArgs ⟨Gen.lib, fs⟩ { st with loc := o.loc } args with
        | err e l => trivial
        | panic s => rw [hargs] at ha; exact ha
        | ok r =>
          obtain ⟨argv, st2⟩ := r
          rw [hargs] at ha
          simp only [Res.bind_ok_eq, funcOf_ok fs hf]
          obtain ⟨ob, hob, hcls⟩ := Live.mono hlive ha.2.1
          exact EvalOk.trans (st1 := st2) ha.2.1 ha.2.2
            (bindAndExec_ok (some cls, f) hcov _ st2 (some id) argv ha.1 ⟨id, ob, rfl, hob, hcls⟩)
  | .slash a b, st, hw, hst => by
    simp only [Expr.WF] at hw
    simp only [eval]
    have h1 := eval_ok fs a st hw.1 hst
    cases hr1 : eval ⟨Gen.lib, fs⟩ st a with
    | err e l => trivial
    | panic s => rw [hr1] at h1; exact h1
    | ok r1 =>
      obtain ⟨av, st1⟩ := r1
      rw [hr1] at h1
      simp only [Res.bind_ok_eq]
      split
      · trivial
      · next hip =>
        have h2 := eval_ok fs b st1 hw.2 h1.1
        cases hr2 : eval ⟨Gen.lib, fs⟩ st1 b with
        | err e l => trivial
        | panic s => rw [hr2] at h2; exact h2
        | ok r2 =>
          obtain ⟨bv, st2⟩ := r2
          rw [hr2] at h2
          simp only [Res.bind_ok_eq]
          split
          · trivial
          · next hint =>
            obtain ⟨ip, hipv⟩ := Val.toIp?_total (v := av) (by simpa using hip)
            obtain ⟨n, hn⟩ := Val.toNat?_total (v := bv) (by simpa using hint)
            simp only [hipv, hn]
            split
            · trivial
            · exact ⟨h2.1.withLoc _, trivial, h1.2.2.1.trans h2.2.2.1, h2.2.2.2.trans h1.2.2.2⟩

theorem evalArgs_ok (fs : Fs) : ∀ (a : Args) (st : PState), a.WF → StOk st →
    ArgsOk st (evalArgs ⟨Gen.lib, fs⟩ st a)
  | .nil, st, _, hst => ⟨hst, HeapExt.refl _, rfl⟩
  | .cons n e rest, st, hw, hst => by
    simp only [Args.WF] at hw
    simp only [evalArgs]
    have h1 := eval_ok fs e st hw.1 hst
    cases hr1 : eval ⟨Gen.lib, fs⟩ st e with
    | err e l => trivial
    | panic s => rw [hr1] at h1; exact h1
    | ok r1 =>
      obtain ⟨v, st1⟩ := r1
      rw [hr1] at h1
      simp only [Res.bind_ok_eq]
      have h2 := evalArgs_ok fs rest st1 hw.2 h1.1
      cases hr2 : evalArgs ⟨Gen.lib, fs⟩ st1 rest with
      | err e l => trivial
      | panic s => rw [hr2] at h2; exact h2
      | ok r2 =>
        obtain ⟨vs, st2⟩ := r2
        rw [hr2] at h2
        exact ⟨h2.1, h1.2.2.1.trans h2.2.1, h2.2.2.trans h1.2.2.2⟩
end

end Resynth.C08
