import Resynth.Lemmas.LRResume
import Resynth.Lemmas.LRStep
/-! # Every loop iteration of `feed` preserves `resume` — one lemma per state -/
namespace Resynth.LR
open Resynth.Spec

/-- what one loop iteration means for the reference parser -/
def StepSim (c : Cfg) (t : Tok) (ts : List Tok) : Res (Cfg × Bool) → Prop
  | .ok (c', true) => resume c (t :: ts) = resume c' ts ∧ (t.kind = .eof → c'.state = .accept)
  | .ok (c', false) => resume c (t :: ts) = resume c' (t :: ts)
  | .parseError => resume c (t :: ts) = .error (ts.length + 1)
  | .panic => False

attribute [local simp] StepSim step dispatch bind pure Bind.bind Pure.pure reduceImportStmt popStr popPath
  reduceObject reduceModule reduceRef reduceSockaddr reduceLiteralExpr reduceRefExpr reduceCallExpr reduceBop
  reduceArg reduceCall reduceAssign reduceExprStmt reduceAssignStmt pushLiteral fromToken PathB.new
  resume kExpr kSlashTail rStmtEnd expect rRefModule rRefObject rPort rIpv4 rArgName rArgVal rRvalue
  sExpr_ident sExpr_lit sExpr_ipv4 sExpr_other
  rArgs_rparen rArgs_ident rArgs_other rArgNext_comma rArgNext_rparen rArgNext_other
  sProgram_eof sProgram_import sProgram_let sProgram_ident sProgram_other
  rColons_dcolon rColons_dot rColons_lparen rColons_other rDots_dot rDots_lparen rDots_other

local macro "sim_state" h:ident k:ident : tactic => `(tactic| (
  simp only [Inv] at $h:ident
  try split at $h:ident
  all_goals (try contradiction)
  all_goals (try subst $h:ident)
  all_goals (cases $k:ident <;> simp [*])))

local macro "sim_state0" h:ident : tactic => `(tactic| (
  simp only [Inv] at $h:ident
  try split at $h:ident
  all_goals (try contradiction)
  all_goals (try subst $h:ident)
  all_goals (simp [*])))

theorem rs_initial (s : Stack) (ss : List Stmt) (k txt loc) (ts : List Tok) (h : Inv .initial s) :
    StepSim ⟨.initial, s, ss⟩ ⟨k, txt, loc⟩ ts (step ⟨.initial, s, ss⟩ ⟨k, txt, loc⟩) := by
  sim_state h k

theorem rs_import_ (s : Stack) (ss : List Stmt) (k txt loc) (ts : List Tok) (h : Inv .import_ s) :
    StepSim ⟨.import_, s, ss⟩ ⟨k, txt, loc⟩ ts (step ⟨.import_, s, ss⟩ ⟨k, txt, loc⟩) := by
  sim_state h k

theorem rs_importEnd (s : Stack) (ss : List Stmt) (k txt loc) (ts : List Tok) (h : Inv .importEnd s) :
    StepSim ⟨.importEnd, s, ss⟩ ⟨k, txt, loc⟩ ts (step ⟨.importEnd, s, ss⟩ ⟨k, txt, loc⟩) := by
  sim_state h k

theorem rs_reduceImport (s : Stack) (ss : List Stmt) (k txt loc) (ts : List Tok) (h : Inv .reduceImport s) :
    StepSim ⟨.reduceImport, s, ss⟩ ⟨k, txt, loc⟩ ts (step ⟨.reduceImport, s, ss⟩ ⟨k, txt, loc⟩) := by
  sim_state0 h

theorem rs_let_ (s : Stack) (ss : List Stmt) (k txt loc) (ts : List Tok) (h : Inv .let_ s) :
    StepSim ⟨.let_, s, ss⟩ ⟨k, txt, loc⟩ ts (step ⟨.let_, s, ss⟩ ⟨k, txt, loc⟩) := by
  sim_state h k

theorem rs_assign (s : Stack) (ss : List Stmt) (k txt loc) (ts : List Tok) (h : Inv .assign s) :
    StepSim ⟨.assign, s, ss⟩ ⟨k, txt, loc⟩ ts (step ⟨.assign, s, ss⟩ ⟨k, txt, loc⟩) := by
  sim_state h k

theorem rs_refComponent (s : Stack) (ss : List Stmt) (k txt loc) (ts : List Tok) (h : Inv .refComponent s) :
    StepSim ⟨.refComponent, s, ss⟩ ⟨k, txt, loc⟩ ts (step ⟨.refComponent, s, ss⟩ ⟨k, txt, loc⟩) := by
  sim_state h k

theorem rs_reduceModule (s : Stack) (ss : List Stmt) (k txt loc) (ts : List Tok) (h : Inv .reduceModule s) :
    StepSim ⟨.reduceModule, s, ss⟩ ⟨k, txt, loc⟩ ts (step ⟨.reduceModule, s, ss⟩ ⟨k, txt, loc⟩) := by
  sim_state0 h

theorem rs_refModule (s : Stack) (ss : List Stmt) (k txt loc) (ts : List Tok) (h : Inv .refModule s) :
    StepSim ⟨.refModule, s, ss⟩ ⟨k, txt, loc⟩ ts (step ⟨.refModule, s, ss⟩ ⟨k, txt, loc⟩) := by
  sim_state h k

theorem rs_reduceObject (s : Stack) (ss : List Stmt) (k txt loc) (ts : List Tok) (h : Inv .reduceObject s) :
    StepSim ⟨.reduceObject, s, ss⟩ ⟨k, txt, loc⟩ ts (step ⟨.reduceObject, s, ss⟩ ⟨k, txt, loc⟩) := by
  sim_state0 h

theorem rs_reduceRefCall (s : Stack) (ss : List Stmt) (k txt loc) (ts : List Tok) (h : Inv .reduceRefCall s) :
    StepSim ⟨.reduceRefCall, s, ss⟩ ⟨k, txt, loc⟩ ts (step ⟨.reduceRefCall, s, ss⟩ ⟨k, txt, loc⟩) := by
  sim_state0 h

theorem rs_reduceRefNaked (s : Stack) (ss : List Stmt) (k txt loc) (ts : List Tok) (h : Inv .reduceRefNaked s) :
    StepSim ⟨.reduceRefNaked, s, ss⟩ ⟨k, txt, loc⟩ ts (step ⟨.reduceRefNaked, s, ss⟩ ⟨k, txt, loc⟩) := by
  sim_state0 h

theorem rs_refObject (s : Stack) (ss : List Stmt) (k txt loc) (ts : List Tok) (h : Inv .refObject s) :
    StepSim ⟨.refObject, s, ss⟩ ⟨k, txt, loc⟩ ts (step ⟨.refObject, s, ss⟩ ⟨k, txt, loc⟩) := by
  sim_state h k

theorem rs_refObjEnd (s : Stack) (ss : List Stmt) (k txt loc) (ts : List Tok) (h : Inv .refObjEnd s) :
    StepSim ⟨.refObjEnd, s, ss⟩ ⟨k, txt, loc⟩ ts (step ⟨.refObjEnd, s, ss⟩ ⟨k, txt, loc⟩) := by
  sim_state h k

theorem rs_reduceCall (s : Stack) (ss : List Stmt) (k txt loc) (ts : List Tok) (h : Inv .reduceCall s) :
    StepSim ⟨.reduceCall, s, ss⟩ ⟨k, txt, loc⟩ ts (step ⟨.reduceCall, s, ss⟩ ⟨k, txt, loc⟩) := by
  sim_state0 h

theorem rs_reduceArg (s : Stack) (ss : List Stmt) (k txt loc) (ts : List Tok) (h : Inv .reduceArg s) :
    StepSim ⟨.reduceArg, s, ss⟩ ⟨k, txt, loc⟩ ts (step ⟨.reduceArg, s, ss⟩ ⟨k, txt, loc⟩) := by
  sim_state0 h

theorem rs_argNext (s : Stack) (ss : List Stmt) (k txt loc) (ts : List Tok) (h : Inv .argNext s) :
    StepSim ⟨.argNext, s, ss⟩ ⟨k, txt, loc⟩ ts (step ⟨.argNext, s, ss⟩ ⟨k, txt, loc⟩) := by
  sim_state h k

theorem rs_exprArg (s : Stack) (ss : List Stmt) (k txt loc) (ts : List Tok) (h : Inv .exprArg s) :
    StepSim ⟨.exprArg, s, ss⟩ ⟨k, txt, loc⟩ ts (step ⟨.exprArg, s, ss⟩ ⟨k, txt, loc⟩) := by
  sim_state h k

theorem sExpr_nil (k : Expr → List Tok → R) : andThen (sExpr []) k = .error 0 := by
  rw [sExpr_andThen, sPrimary]; rfl

theorem rs_argName (s : Stack) (ss : List Stmt) (k txt loc) (ts : List Tok) (h : Inv .argName s) :
    StepSim ⟨.argName, s, ss⟩ ⟨k, txt, loc⟩ ts (step ⟨.argName, s, ss⟩ ⟨k, txt, loc⟩) := by
  simp only [Inv] at h
  split at h
  · cases k
    case colon =>
      cases ts with
      | nil => simp [sExpr_nil]
      | cons t ts =>
        by_cases ht : t.kind = .rparen
        · simp [ht]
        · simp [ht]
    all_goals simp [*]
  · contradiction

theorem rs_ipv4 (s : Stack) (ss : List Stmt) (k txt loc) (ts : List Tok) (h : Inv .ipv4 s) :
    StepSim ⟨.ipv4, s, ss⟩ ⟨k, txt, loc⟩ ts (step ⟨.ipv4, s, ss⟩ ⟨k, txt, loc⟩) := by
  sim_state h k

theorem rs_reduceLiteralExpr (s : Stack) (ss : List Stmt) (k txt loc) (ts : List Tok) (h : Inv .reduceLiteralExpr s) :
    StepSim ⟨.reduceLiteralExpr, s, ss⟩ ⟨k, txt, loc⟩ ts (step ⟨.reduceLiteralExpr, s, ss⟩ ⟨k, txt, loc⟩) := by
  sim_state0 h

theorem rs_reduceRefExpr (s : Stack) (ss : List Stmt) (k txt loc) (ts : List Tok) (h : Inv .reduceRefExpr s) :
    StepSim ⟨.reduceRefExpr, s, ss⟩ ⟨k, txt, loc⟩ ts (step ⟨.reduceRefExpr, s, ss⟩ ⟨k, txt, loc⟩) := by
  sim_state0 h

theorem rs_reduceCallExpr (s : Stack) (ss : List Stmt) (k txt loc) (ts : List Tok) (h : Inv .reduceCallExpr s) :
    StepSim ⟨.reduceCallExpr, s, ss⟩ ⟨k, txt, loc⟩ ts (step ⟨.reduceCallExpr, s, ss⟩ ⟨k, txt, loc⟩) := by
  sim_state0 h

theorem rs_slash (s : Stack) (ss : List Stmt) (k txt loc) (ts : List Tok) (h : Inv .slash s) :
    StepSim ⟨.slash, s, ss⟩ ⟨k, txt, loc⟩ ts (step ⟨.slash, s, ss⟩ ⟨k, txt, loc⟩) := by
  sim_state h k

theorem rs_exprStmtEnd (s : Stack) (ss : List Stmt) (k txt loc) (ts : List Tok) (h : Inv .exprStmtEnd s) :
    StepSim ⟨.exprStmtEnd, s, ss⟩ ⟨k, txt, loc⟩ ts (step ⟨.exprStmtEnd, s, ss⟩ ⟨k, txt, loc⟩) := by
  sim_state h k

theorem rs_assignStmtEnd (s : Stack) (ss : List Stmt) (k txt loc) (ts : List Tok) (h : Inv .assignStmtEnd s) :
    StepSim ⟨.assignStmtEnd, s, ss⟩ ⟨k, txt, loc⟩ ts (step ⟨.assignStmtEnd, s, ss⟩ ⟨k, txt, loc⟩) := by
  sim_state h k

theorem rs_reduceBop (s : Stack) (ss : List Stmt) (k txt loc) (ts : List Tok) (h : Inv .reduceBop s) :
    StepSim ⟨.reduceBop, s, ss⟩ ⟨k, txt, loc⟩ ts (step ⟨.reduceBop, s, ss⟩ ⟨k, txt, loc⟩) := by
  sim_state0 h

theorem rs_reduceAssign (s : Stack) (ss : List Stmt) (k txt loc) (ts : List Tok) (h : Inv .reduceAssign s) :
    StepSim ⟨.reduceAssign, s, ss⟩ ⟨k, txt, loc⟩ ts (step ⟨.reduceAssign, s, ss⟩ ⟨k, txt, loc⟩) := by
  sim_state0 h

theorem rs_reduceExprStmt (s : Stack) (ss : List Stmt) (k txt loc) (ts : List Tok) (h : Inv .reduceExprStmt s) :
    StepSim ⟨.reduceExprStmt, s, ss⟩ ⟨k, txt, loc⟩ ts (step ⟨.reduceExprStmt, s, ss⟩ ⟨k, txt, loc⟩) := by
  sim_state0 h

theorem rs_reduceAssignStmt (s : Stack) (ss : List Stmt) (k txt loc) (ts : List Tok) (h : Inv .reduceAssignStmt s) :
    StepSim ⟨.reduceAssignStmt, s, ss⟩ ⟨k, txt, loc⟩ ts (step ⟨.reduceAssignStmt, s, ss⟩ ⟨k, txt, loc⟩) := by
  sim_state0 h

theorem rs_reduceStmt (s : Stack) (ss : List Stmt) (k txt loc) (ts : List Tok) (h : Inv .reduceStmt s) :
    StepSim ⟨.reduceStmt, s, ss⟩ ⟨k, txt, loc⟩ ts (step ⟨.reduceStmt, s, ss⟩ ⟨k, txt, loc⟩) := by
  sim_state0 h

theorem rs_accept (s : Stack) (ss : List Stmt) (k txt loc) (ts : List Tok) (h : Inv .accept s) :
    StepSim ⟨.accept, s, ss⟩ ⟨k, txt, loc⟩ ts (step ⟨.accept, s, ss⟩ ⟨k, txt, loc⟩) := by
  sim_state h k

theorem rs_exprStmt (s : Stack) (ss : List Stmt) (k txt loc) (ts : List Tok) (h : Inv .exprStmt s) :
    StepSim ⟨.exprStmt, s, ss⟩ ⟨k, txt, loc⟩ ts (step ⟨.exprStmt, s, ss⟩ ⟨k, txt, loc⟩) := by
  simp only [Inv] at h; subst h
  simp [-sExpr_ident, -sExpr_lit, -sExpr_ipv4, -sExpr_other]

theorem rs_exprRvalue (s : Stack) (ss : List Stmt) (k txt loc) (ts : List Tok) (h : Inv .exprRvalue s) :
    StepSim ⟨.exprRvalue, s, ss⟩ ⟨k, txt, loc⟩ ts (step ⟨.exprRvalue, s, ss⟩ ⟨k, txt, loc⟩) := by
  simp only [Inv] at h
  split at h
  · simp [-sExpr_ident, -sExpr_lit, -sExpr_ipv4, -sExpr_other]
  · contradiction

theorem rs_reduceExpr (s : Stack) (ss : List Stmt) (k txt loc) (ts : List Tok) (h : Inv .reduceExpr s) :
    StepSim ⟨.reduceExpr, s, ss⟩ ⟨k, txt, loc⟩ ts (step ⟨.reduceExpr, s, ss⟩ ⟨k, txt, loc⟩) := by
  simp only [Inv] at h
  split at h
  · cases h <;> simp
  · contradiction

theorem rs_reduceSockAddr (s : Stack) (ss : List Stmt) (k txt loc) (ts : List Tok) (h : Inv .reduceSockAddr s) :
    StepSim ⟨.reduceSockAddr, s, ss⟩ ⟨k, txt, loc⟩ ts (step ⟨.reduceSockAddr, s, ss⟩ ⟨k, txt, loc⟩) := by
  simp only [Inv] at h
  split at h
  · next p _ _ _ _ =>
    have : p % 65536 = p := Nat.mod_eq_of_lt (by omega)
    simp [this]
  · contradiction

theorem rs_expr (s : Stack) (ss : List Stmt) (k txt loc) (ts : List Tok) (_h : Inv .expr s) :
    StepSim ⟨.expr, s, ss⟩ ⟨k, txt, loc⟩ ts (step ⟨.expr, s, ss⟩ ⟨k, txt, loc⟩) := by
  cases k
  case ipv4Lit => cases hp : parseIpv4 txt <;> simp [ip4OfToken, litOfToken, hp]
  case strLit => cases hl : litOfToken ⟨.strLit, txt, loc⟩ <;> simp [hl]
  case boolLit => cases hl : litOfToken ⟨.boolLit, txt, loc⟩ <;> simp [hl]
  case hexLit => cases hl : litOfToken ⟨.hexLit, txt, loc⟩ <;> simp [hl]
  case intLit => cases hl : litOfToken ⟨.intLit, txt, loc⟩ <;> simp [hl]
  all_goals simp [*]

theorem rs_argVal (s : Stack) (ss : List Stmt) (k txt loc) (ts : List Tok) (h : Inv .argVal s) :
    StepSim ⟨.argVal, s, ss⟩ ⟨k, txt, loc⟩ ts (step ⟨.argVal, s, ss⟩ ⟨k, txt, loc⟩) := by
  simp only [Inv] at h
  split at h
  · next n l o c =>
    cases k
    case ipv4Lit => cases hp : parseIpv4 txt <;> simp [ip4OfToken, litOfToken, hp]
    case rparen => cases n <;> simp
    case strLit => cases hl : litOfToken ⟨.strLit, txt, loc⟩ <;> simp [hl]
    case boolLit => cases hl : litOfToken ⟨.boolLit, txt, loc⟩ <;> simp [hl]
    case hexLit => cases hl : litOfToken ⟨.hexLit, txt, loc⟩ <;> simp [hl]
    case intLit => cases hl : litOfToken ⟨.intLit, txt, loc⟩ <;> simp [hl]
    all_goals simp [*]
  · contradiction

theorem rs_ipv4Colon (s : Stack) (ss : List Stmt) (k txt loc) (ts : List Tok) (h : Inv .ipv4Colon s) :
    StepSim ⟨.ipv4Colon, s, ss⟩ ⟨k, txt, loc⟩ ts (step ⟨.ipv4Colon, s, ss⟩ ⟨k, txt, loc⟩) := by
  simp only [Inv] at h
  split at h
  · cases k
    case intLit =>
      cases hp : parseU64Dec txt with
      | none => simp [portOfToken, litOfToken, hp]
      | some n =>
        by_cases hn : n > 65535
        · have h2 : ¬ n ≤ 65535 := by omega
          simp [portOfToken, litOfToken, hp, hn, h2]
        · have h2 : n ≤ 65535 := by omega
          simp [portOfToken, litOfToken, hp, hn, h2]
    all_goals simp [portOfToken]
  · contradiction

end Resynth.LR
