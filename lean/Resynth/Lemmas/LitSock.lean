import Resynth.Lemmas.LitNum
import Resynth.Model.Interp
import Resynth.Model.LR
/-!
# Socket addresses: `ip/port` (interpreter) and `ip:port` (parser) (helper lemmas for C17)
-/
namespace Resynth.LitSock
open Resynth Resynth.Spec Resynth.LitNum

theorem eval_slash (env : Env) (st st1 st2 : PState) (a b : Expr) (av bv : Val) (ip port : Nat)
    (ha : eval env st a = .ok (av, st1)) (hty : av.valType = .ip4) (hip : av.toIp? = some ip)
    (hb : eval env st1 b = .ok (bv, st2)) (hint : bv.valType.isIntegral = true)
    (hport : bv.toNat? = some port) :
    eval env st (.slash a b) =
      if port > 65535 then .err .type_ st2.loc
      else .ok (.sock4 ip port, { st2 with loc := st1.loc }) := by
  rw [eval]
  simp only [bind, ha, hty, hb, hint, hip, hport]
  simp

theorem eval_slash_not_ip (env : Env) (st st1 : PState) (a b : Expr) (av : Val)
    (ha : eval env st a = .ok (av, st1)) (hty : av.valType ≠ .ip4) :
    eval env st (.slash a b) = .err .type_ st1.loc := by
  rw [eval]
  simp only [bind, ha]
  simp [hty]

theorem eval_slash_not_int (env : Env) (st st1 st2 : PState) (a b : Expr) (av bv : Val)
    (ha : eval env st a = .ok (av, st1)) (hty : av.valType = .ip4)
    (hb : eval env st1 b = .ok (bv, st2)) (hint : bv.valType.isIntegral = false) :
    eval env st (.slash a b) = .err .type_ st2.loc := by
  rw [eval]
  simp only [bind, ha, hty, hb, hint]
  simp

/-! ## `ip:port` in the parser -/

open Resynth.LR

theorem reduceSockaddr_eq (port a : Nat) (x l : Node) (s : Stack) :
    reduceSockaddr (.lit (.u64 port) :: x :: .lit (.ip4 a) :: l :: s) =
      .ok (.lit (.sock4 a (port % 65536)) :: l :: s) := rfl

theorem fromToken_int (t : Tok) (ds : List Char) (hk : t.kind = .intLit)
    (ht : t.text = String.ofList ds) (hne : ds ≠ []) (hd : ∀ c ∈ ds, isDec c = true) :
    fromToken t = if decValue ds < 2 ^ 64 then .ok (.u64 (decValue ds)) else .parseError := by
  unfold fromToken litOfToken
  rw [hk]
  simp only [ht, parseU64Dec_eq ds hne hd]
  by_cases h : decValue ds < 2 ^ 64
  · simp only [h, if_true, Option.map_some]
  · simp only [h, if_false, Option.map_none]

/-- the state function of `State::Ipv4Colon` on an integer token -/
theorem dispatch_ipv4Colon (c : Cfg) (t : Tok) (ds : List Char) (hs : c.state = .ipv4Colon)
    (hk : t.kind = .intLit) (ht : t.text = String.ofList ds) (hne : ds ≠ [])
    (hd : ∀ c ∈ ds, isDec c = true) :
    dispatch c t =
      if decValue ds ≤ 65535 then
        .ok (.shift .reduceSockAddr (.lit (.u64 (decValue ds))), .loc t.loc :: c.stack, c.stmts)
      else .parseError := by
  unfold dispatch
  simp only [hs, hk, fromToken_int t ds hk ht hne hd]
  by_cases h1 : decValue ds ≤ 65535
  · have h2 : decValue ds < 2 ^ 64 := Nat.lt_of_le_of_lt h1 (by decide)
    have h3 : ¬ decValue ds > 65535 := by omega
    simp only [h1, h2, if_true]
    simp only [bind, pure, h3, if_false]
  · by_cases h2 : decValue ds < 2 ^ 64
    · have h3 : decValue ds > 65535 := by omega
      simp only [h1, h2, if_true, if_false]
      simp only [bind, h3, if_true]
    · simp only [h1, h2, if_false]
      simp only [bind]

/-- with any other token `State::Ipv4Colon` is a parse error -/
theorem dispatch_ipv4Colon_other (c : Cfg) (t : Tok) (hs : c.state = .ipv4Colon)
    (hk : t.kind ≠ .intLit) : dispatch c t = .parseError := by
  unfold dispatch
  simp only [hs]
  rfl

/-- the two parser steps that consume the port and build the socket address -/
theorem step_ipv4Colon (c : Cfg) (t : Tok) (ds : List Char) (hs : c.state = .ipv4Colon)
    (hk : t.kind = .intLit) (ht : t.text = String.ofList ds) (hne : ds ≠ [])
    (hd : ∀ c ∈ ds, isDec c = true) :
    step c t =
      if decValue ds ≤ 65535 then
        .ok (⟨.reduceSockAddr, .lit (.u64 (decValue ds)) :: .loc t.loc :: c.stack, c.stmts⟩, true)
      else .parseError := by
  unfold step
  rw [dispatch_ipv4Colon c t ds hs hk ht hne hd]
  split <;> rfl

theorem step_reduceSockAddr (t : Tok) (port a : Nat) (x l : Node) (s : Stack) (stmts : List Stmt) :
    step ⟨.reduceSockAddr, .lit (.u64 port) :: x :: .lit (.ip4 a) :: l :: s, stmts⟩ t =
      .ok (⟨.reduceLiteralExpr, .lit (.sock4 a (port % 65536)) :: l :: s, stmts⟩, false) := rfl

end Resynth.LitSock
