import Resynth.Lemmas.InterpInvCli
/-!
# A tiny environment and hand-built programs for non-vacuity examples

The library entries are copied verbatim from the generated table (`Gen/Stdlib.lean`).
-/
namespace Resynth.Example

def lib : Lib := ⟨[
  ("eth", Sym.module),
  ("eth::frame", Sym.func ⟨"eth::frame", "frame", .pkt,
    [⟨"src", .positional .str⟩, ⟨"dst", .positional .str⟩, ⟨"ethertype", .optional (.u16 2048)⟩], .str⟩),
  ("time", Sym.module),
  ("time::jump_seconds", Sym.func ⟨"time::jump_seconds", "jump_seconds", .timejump, [⟨"seconds", .positional .u32⟩], .void⟩),
  ("time::jump_millis", Sym.func ⟨"time::jump_millis", "jump_millis", .timejump, [⟨"ms", .positional .u64⟩], .void⟩),
  ("time::jump_micros", Sym.func ⟨"time::jump_micros", "jump_micros", .timejump, [⟨"us", .positional .u64⟩], .void⟩),
  ("time::jump_nanos", Sym.func ⟨"time::jump_nanos", "jump_nanos", .timejump, [⟨"ns", .positional .u64⟩], .void⟩)]⟩

def env : Env := ⟨lib, []⟩

def L (l c : Nat) : Loc := ⟨l, c⟩

/-- `eth::frame("|000000000001|", "|000000000002|", "|aabb|")` -/
def frameExpr (l : Nat) (payload : Bytes) : Expr :=
  .call ⟨L l 9, ["eth"], ["frame"]⟩
    (.cons none (.lit (L l 20) (.str [0, 0, 0, 0, 0, 1]))
      (.cons none (.lit (L l 30) (.str [0, 0, 0, 0, 0, 2]))
        (.cons none (.lit (L l 40) (.str payload)) .nil)))

def jumpExpr (l : Nat) (fn : String) (n : Nat) : Expr :=
  .call ⟨L l 1, ["time"], [fn]⟩ (.cons none (.lit (L l 20) (.u64 n)) .nil)

/-- ```
import eth; import time;
let p = eth::frame(..., "|aabb|");
p;
time::jump_seconds(5);
p;
eth::frame(..., "|cc|");
``` -/
def prog : List Stmt := [
  .imp (L 1 1) "eth", .imp (L 1 13) "time",
  .assign (L 2 1) "p" (frameExpr 2 [0xaa, 0xbb]),
  .expr (.ref ⟨L 3 1, [], ["p"]⟩),
  .expr (jumpExpr 4 "jump_seconds" 5),
  .expr (.ref ⟨L 5 1, [], ["p"]⟩),
  .expr (frameExpr 6 [0xcc])]

def frameA : Bytes := [0, 0, 0, 0, 0, 2, 0, 0, 0, 0, 0, 1, 8, 0, 0xaa, 0xbb]
def frameB : Bytes := [0, 0, 0, 0, 0, 2, 0, 0, 0, 0, 0, 1, 8, 0, 0xcc]

def emittedOf : Res PState → Option (List (Nat × Bytes))
  | .ok st => some st.emitted
  | _ => none

def fileOf : Res PState → Option Bytes
  | .ok st => some st.wr.dropped
  | _ => none

def errOf : Res PState → Option ErrKind
  | .err e _ => some e
  | _ => none

end Resynth.Example
