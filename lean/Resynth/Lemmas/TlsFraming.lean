import Resynth.Lemmas.Framing
/-!
# Round trips of the TLS, DHCP-option and DNS-RR builders through `Spec/Framing.lean`
-/
namespace Resynth.Wire
open Spec

/-! ## records, handshake headers, extensions -/

theorem parseTlsRecord_tlsMessage (ver content : Nat) (b r : Bytes) (hb : b.length < 65536) :
    parseTlsRecord (tlsMessage ver content b ++ r) = some (content % 256, ver % 65536, b, r) := by
  simp [parseTlsRecord, tlsMessage, parseUInt_b8, parseUInt_be16, parseLenPrefixed_be16 b r hb]

theorem parseExtension_tlsExtension (ext : Nat) (b r : Bytes) (hb : b.length < 65536) :
    parseExtension (tlsExtension ext b ++ r) = some ((ext % 65536, b), r) := by
  simp [parseExtension, tlsExtension, parseUInt_be16, parseLenPrefixed_be16 b r hb]

theorem tlsExtension_ne_nil (ext : Nat) (b : Bytes) : tlsExtension ext b ≠ [] := by
  simp [tlsExtension, be16]

theorem parseExtensionList_flatMap (exts : List (Nat × Bytes)) (h : ∀ e ∈ exts, e.2.length < 65536) :
    parseExtensionList (exts.flatMap fun e => tlsExtension e.1 e.2) =
      some (exts.map fun e => (e.1 % 65536, e.2)) :=
  parseAll_flatMap (α := Nat × Bytes) (β := Nat × Bytes) parseExtension
    (fun e => tlsExtension e.1 e.2) (fun e => (e.1 % 65536, e.2)) exts
    (fun e he r => parseExtension_tlsExtension e.1 e.2 r (h e he))
    (fun e _ => tlsExtension_ne_nil e.1 e.2)

/-! ## cipher lists -/

theorem flatMap_be16_length (ids : List Nat) : (ids.flatMap be16).length = ids.length * 2 := by
  induction ids with
  | nil => rfl
  | cons a t ih => rw [List.flatMap_cons, List.length_append, ih]; simp; omega

theorem parseAll_ids (ids : List Nat) : parseAll (parseUInt 2) (ids.flatMap be16) = some (ids.map (· % 65536)) :=
  parseAll_flatMap (parseUInt 2) be16 (· % 65536) ids (fun n _ r => parseUInt_be16 n r)
    (fun n _ => by simp [be16])

theorem parseCipherList_tlsCiphers (ids : List Nat) (r : Bytes) (h : ids.length * 2 < 65536) :
    parseCipherList (tlsCiphers ids ++ r) = some (ids.map (· % 65536), r) := by
  have hl := flatMap_be16_length ids
  unfold parseCipherList tlsCiphers
  rw [← hl, List.append_assoc, parseLenPrefixed_be16 _ r (by omega)]
  simp [parseAll_ids]

/-! ## server names and certificates -/

theorem sniEntry_length (n : Bytes) : (sniEntry n).length = 3 + n.length := by
  simp [sniEntry] <;> omega
theorem certEntry_length (n : Bytes) : (certEntry n).length = 3 + n.length := by
  simp [certEntry] <;> omega

theorem flatMap_entries_length (entry : Bytes → Bytes) (he : ∀ n, (entry n).length = 3 + n.length)
    (names : List Bytes) : (names.flatMap entry).length = sniListLen names := by
  unfold sniListLen
  induction names with
  | nil => rfl
  | cons a t ih => rw [List.flatMap_cons, List.length_append, ih, he]; simp; omega

theorem parseSniEntry_sniEntry (n r : Bytes) (h : n.length < 65536) :
    parseSniEntry (sniEntry n ++ r) = some (n, r) := by
  have : (0 : UInt8) = b8 0 := rfl
  simp [parseSniEntry, sniEntry, this, parseUInt_b8, parseLenPrefixed_be16 n r h]

theorem parseSni_tlsSni (names : List Bytes) (r : Bytes) (hn : ∀ n ∈ names, n.length < 65536)
    (hl : 2 + sniListLen names < 65536) : parseSni (tlsSni names ++ r) = some (names, r) := by
  have hlen := flatMap_entries_length sniEntry sniEntry_length names
  have hall : parseAll parseSniEntry (names.flatMap sniEntry) = some names :=
    parseAll_flatMap_id parseSniEntry sniEntry names (fun n hn' r => parseSniEntry_sniEntry n r (hn n hn'))
      (fun n _ => by simp [sniEntry])
  have hinner : parseLenPrefixed 2 (be16 (sniListLen names) ++ names.flatMap sniEntry) =
      some (names.flatMap sniEntry, []) := by
    have := parseLenPrefixed_be16 (names.flatMap sniEntry) [] (by omega)
    rwa [hlen, List.append_nil] at this
  have hdlen : (be16 (sniListLen names) ++ names.flatMap sniEntry).length = 2 + sniListLen names := by
    simp [hlen]
  have hext := parseExtension_tlsExtension 0 (be16 (sniListLen names) ++ names.flatMap sniEntry) r (by omega)
  unfold tlsExtension at hext
  rw [hdlen] at hext
  unfold parseSni tlsSni
  simp only [List.append_assoc] at hext ⊢
  rw [hext]
  simp [hinner, hall]

theorem parseCert_certEntry (c r : Bytes) (h : c.length < 16777216) :
    parseLenPrefixed 3 (certEntry c ++ r) = some (c, r) := by
  simp [certEntry, parseLenPrefixed_be24 c r h]

theorem parseHandshake_of (typ : Nat) (body r : Bytes) (h : body.length < 16777216) :
    parseHandshake (b8 typ :: (be24 body.length ++ (body ++ r))) = some (typ % 256, body, r) := by
  simp [parseHandshake, parseUInt_b8, parseLenPrefixed_be24 body r h]

theorem parseCertificates_tlsCertificates (certs : List Bytes) (r : Bytes)
    (hc : ∀ c ∈ certs, c.length < 16777216) (hl : 3 + sniListLen certs < 16777216) :
    parseCertificates (tlsCertificates certs ++ r) = some (certs, r) := by
  have hlen := flatMap_entries_length certEntry certEntry_length certs
  have hall : parseAll (parseLenPrefixed 3) (certs.flatMap certEntry) = some certs :=
    parseAll_flatMap_id (parseLenPrefixed 3) certEntry certs (fun n hn' r => parseCert_certEntry n r (hc n hn'))
      (fun n _ => by simp [certEntry, be24])
  have hinner : parseLenPrefixed 3 (be24 (sniListLen certs) ++ certs.flatMap certEntry) =
      some (certs.flatMap certEntry, []) := by
    have := parseLenPrefixed_be24 (certs.flatMap certEntry) [] (by omega)
    rwa [hlen, List.append_nil] at this
  have hdlen : (be24 (sniListLen certs) ++ certs.flatMap certEntry).length = 3 + sniListLen certs := by
    simp [hlen]
  have hhs := parseHandshake_of 11 (be24 (sniListLen certs) ++ certs.flatMap certEntry) r (by omega)
  rw [hdlen] at hhs
  unfold parseCertificates tlsCertificates
  have e11 : (11 : UInt8) = b8 11 := rfl
  simp only [List.append_assoc, List.cons_append, List.nil_append, e11] at hhs ⊢
  rw [hhs]
  simp [hinner, hall]

/-! ## hellos -/

theorem clientRandom_length : clientRandom.length = 32 := by decide +kernel
theorem serverRandom_length : serverRandom.length = 32 := by decide +kernel

/-- what `tlsHello` appends after `mid`: nothing, or the 16-bit length and the extensions -/
def extBlock (ext : Bytes) : Bytes := if ext.length > 0 then be16 ext.length ++ ext else []

theorem extBlock_length (ext : Bytes) : (extBlock ext).length = (if ext.length > 0 then 2 else 0) + ext.length := by
  unfold extBlock; split <;> simp <;> omega

theorem tlsHello_eq (typ ver : Nat) (random mid ext : Bytes) (hr : random.length = 32) :
    tlsHello typ ver random mid ext =
      b8 typ :: (be24 (be16 ver ++ random ++ mid ++ extBlock ext).length ++
        (be16 ver ++ random ++ mid ++ extBlock ext)) := by
  have : (be16 ver ++ random ++ mid ++ extBlock ext).length =
      34 + mid.length + (if ext.length > 0 then 2 else 0) + ext.length := by
    simp [extBlock_length, hr]; omega
  rw [this]; simp [tlsHello, extBlock]

/-- the hello body length the builder declares -/
def helloLen (mid ext : Bytes) : Nat := 34 + mid.length + (if ext.length > 0 then 2 else 0) + ext.length

theorem helloBody_length (ver : Nat) (random mid ext : Bytes) (hr : random.length = 32) :
    (be16 ver ++ random ++ mid ++ extBlock ext).length = helloLen mid ext := by
  simp [extBlock_length, hr, helloLen]; omega

theorem parseHandshake_tlsHello (typ ver : Nat) (random mid ext r : Bytes) (hr : random.length = 32)
    (hl : helloLen mid ext < 16777216) :
    parseHandshake (tlsHello typ ver random mid ext ++ r) =
      some (typ % 256, be16 ver ++ random ++ mid ++ extBlock ext, r) := by
  rw [tlsHello_eq typ ver random mid ext hr]
  have := parseHandshake_of typ (be16 ver ++ random ++ mid ++ extBlock ext) r
    (by rw [helloBody_length ver random mid ext hr]; exact hl)
  simpa using this

theorem parseHelloHeader_tlsHello (typ ver : Nat) (random mid ext r : Bytes) (hr : random.length = 32)
    (hl : helloLen mid ext < 16777216) :
    parseHelloHeader (tlsHello typ ver random mid ext ++ r) =
      some ((typ % 256, ver % 65536, random, mid ++ extBlock ext), r) := by
  unfold parseHelloHeader
  rw [parseHandshake_tlsHello typ ver random mid ext r hr hl]
  simp [parseUInt_be16, takeN_append' 32 random _ hr]

theorem parseOptExtBlock_extBlock (ext : Bytes) (h : ext.length < 65536) :
    parseOptExtBlock (extBlock ext) = some (if ext = [] then none else some ext) := by
  unfold extBlock parseOptExtBlock
  cases ext with
  | nil => simp
  | cons a t =>
    have := parseLenPrefixed_be16 (a :: t) [] h
    simp only [List.append_nil] at this
    have hpos : (a :: t).length > 0 := by simp
    rw [if_pos hpos, if_neg (by simp [be16] : be16 (a :: t).length ++ a :: t ≠ []), this]
    simp

theorem parseClientHello_tlsClientHello (ver : Nat) (sid : Bytes) (ids : List Nat) (comp ext r : Bytes)
    (hs : sid.length < 256) (hi : ids.length * 2 < 65536) (hc : comp.length < 256) (he : ext.length < 65536)
    (hl : helloLen (lenU8 sid ++ tlsCiphers ids ++ lenU8 comp) ext < 16777216) :
    parseClientHello (tlsClientHello ver (lenU8 sid) (tlsCiphers ids) (lenU8 comp) ext ++ r) =
      some (⟨ver % 65536, clientRandom, sid, ids.map (· % 65536), comp,
             if ext = [] then none else some ext⟩, r) := by
  unfold parseClientHello tlsClientHello
  rw [parseHandshake_tlsHello 1 ver clientRandom _ ext r clientRandom_length hl]
  simp only [List.append_assoc, lenU8, List.cons_append]
  simp [parseUInt_be16, takeN_append' 32 clientRandom _ clientRandom_length,
    parseLenPrefixed_u8 sid _ hs, parseCipherList_tlsCiphers ids _ hi, parseLenPrefixed_u8 comp _ hc,
    parseOptExtBlock_extBlock ext he]

theorem parseServerHello_tlsServerHello (ver : Nat) (sid : Bytes) (cipher compression : Nat) (ext r : Bytes)
    (hs : sid.length < 256) (he : ext.length < 65536)
    (hl : helloLen (lenU8 sid ++ be16 cipher ++ [b8 compression]) ext < 16777216) :
    parseServerHello (tlsServerHello ver (lenU8 sid) cipher compression ext ++ r) =
      some (⟨ver % 65536, serverRandom, sid, cipher % 65536, compression % 256,
             if ext = [] then none else some ext⟩, r) := by
  unfold parseServerHello tlsServerHello
  rw [parseHandshake_tlsHello 2 ver serverRandom _ ext r serverRandom_length hl]
  simp only [List.append_assoc, lenU8, List.cons_append, List.nil_append]
  simp [parseUInt_be16, parseUInt_b8, takeN_append' 32 serverRandom _ serverRandom_length,
    parseLenPrefixed_u8 sid _ hs, parseOptExtBlock_extBlock ext he]

/-! ## DHCP options and DNS resource records -/

theorem parseDhcpOption_dhcpOption (opt : Nat) (data r : Bytes) (h : data.length < 256) :
    parseDhcpOption (dhcpOption opt data ++ r) = some ((opt % 256, data), r) := by
  simp [parseDhcpOption, dhcpOption, parseUInt_b8, parseLenPrefixed_u8 data r h]

theorem parseRRFixed_of (t c ttl : Nat) (data r : Bytes) (h : data.length < 65536) :
    parseRRFixed (be16 t ++ (be16 c ++ (be32 ttl ++ (be16 data.length ++ (data ++ r))))) =
      some (⟨t % 65536, c % 65536, ttl % 4294967296, data⟩, r) := by
  simp [parseRRFixed, parseUInt_be16, parseUInt_be32, parseLenPrefixed_be16 data r h]

theorem parseRR_dnsAnswer (name : Bytes) (t c ttl : Nat) (data r : Bytes) (h : data.length < 65536) :
    parseRR name.length (dnsAnswer name t c ttl data ++ r) =
      some ((name, ⟨t % 65536, c % 65536, ttl % 4294967296, data⟩), r) := by
  unfold parseRR dnsAnswer
  simp only [List.append_assoc]
  rw [takeN_append]
  simp [parseRRFixed_of t c ttl data r h]

end Resynth.Wire

namespace Resynth.Wire
open Spec

/-! ## lengths, for nesting -/

theorem tlsHello_length (typ ver : Nat) (random mid ext : Bytes) (hr : random.length = 32) :
    (tlsHello typ ver random mid ext).length = 4 + helloLen mid ext := by
  rw [tlsHello_eq typ ver random mid ext hr]
  simp only [List.length_cons, List.length_append, be24_length]
  have := helloBody_length ver random mid ext hr
  simp only [List.length_append] at this
  omega

theorem tlsExtension_length (e : Nat) (b : Bytes) : (tlsExtension e b).length = 4 + b.length := by
  simp [tlsExtension] <;> omega
theorem lenBe16_length (b : Bytes) : (lenBe16 b).length = 2 + b.length := by
  simp [lenBe16] <;> omega
theorem tlsMessage_length (v c : Nat) (b : Bytes) : (tlsMessage v c b).length = 5 + b.length := by
  simp [tlsMessage] <;> omega

end Resynth.Wire
