import Resynth.Lemmas.LexLemmas
/-!
# Lemmas: lexing two lines joined by whitespace (C13Layout, L5)

`run lno pos (cs ++ w :: t) s = run lno (pos + |cs|) (w :: t) s'` when `run lno pos cs s = .ok s'`,
`w` is whitespace and no comment starts at a lexeme boundary of `cs`.
-/
namespace Resynth
namespace Lex

/-! ## locality of `scanOne` when ANY text that starts with whitespace is appended -/

/-- everything but a whitespace run and a comment is unchanged (the proof of the corresponding
branch of `scanOne_append`, which does not use that the appended text is blank) -/
theorem scanOne_append_any (c : Char) (rest : List Char) {w : Char} (t : List Char)
    (hw : isWs w = true) (h1 : ¬ isWs c = true) (h2 : ¬ c = '#')
    (h3 : ¬ (c == '/' && rest.head? == some '/') = true)
    (hq : c = '"' → closeQuote (rest ++ w :: t) = closeQuote rest) :
    scanOne (c :: rest ++ w :: t) = scanOne (c :: rest) := by
  have E : ∀ x : Char, 32 < x.toNat ∧ x.toNat < 133 →
      ((rest ++ w :: t).head? == some x) = (rest.head? == some x) :=
    fun x hx => head?_append_beq t hw rest x hx
  have Ekw : ∀ kw : List Char, (∀ k ∈ kw, isIdCont k = true) →
      kwAt kw (c :: (rest ++ w :: t)) = kwAt kw (c :: rest) :=
    fun kw hk => kwAt_append t hw kw hk (c :: rest)
  have Esp : ∀ p : Char → Bool, p w = false →
      spanLen p (c :: (rest ++ w :: t)) = spanLen p (c :: rest) :=
    fun p hp => spanLen_append_stop p (c :: rest) w t hp
  have Eip : ipv4Len (c :: (rest ++ w :: t)) = ipv4Len (c :: rest) :=
    ipv4Len_append t hw (c :: rest)
  have hwd := isWs_not_isDigit hw
  have hwh := isWs_not_isHexDigit hw
  have Ehex : (c == '0' && (rest ++ w :: t).head? == some 'x' &&
        (((rest ++ w :: t).drop 1).head?.map isHexDigit).getD false) =
      (c == '0' && rest.head? == some 'x' && ((rest.drop 1).head?.map isHexDigit).getD false) := by
    rw [E 'x' (by decide)]
    cases rest with
    | nil => simp
    | cons a r => cases r <;> simp [hwh]
  have Eminus : (c == '-' && ((rest ++ w :: t).head?.map isDigit).getD false) =
      (c == '-' && (rest.head?.map isDigit).getD false) := by
    cases rest <;> simp [hwd]
  rw [List.cons_append, scanOne, scanOne]
  refine ite_congr3 rfl (fun h => absurd h h1) (fun _ => ?_)
  refine ite_congr3 rfl (fun h => absurd (by simpa using h) h2) (fun _ => ?_)
  refine ite_congr3 (by rw [E '/' (by decide)]) (fun h => absurd h h3) (fun _ => ?_)
  refine ite_congr3 rfl (fun _ => rfl) (fun _ => ?_)
  refine ite_congr3 rfl (fun _ => rfl) (fun _ => ?_)
  refine ite_congr3 rfl (fun _ => rfl) (fun _ => ?_)
  refine ite_congr3 rfl (fun _ => rfl) (fun _ => ?_)
  refine ite_congr3 (by rw [E ':' (by decide)]) (fun _ => rfl) (fun _ => ?_)
  refine ite_congr3 rfl (fun _ => rfl) (fun _ => ?_)
  refine ite_congr3 rfl (fun _ => rfl) (fun _ => ?_)
  refine ite_congr3 rfl (fun _ => rfl) (fun _ => ?_)
  refine ite_congr3 rfl (fun _ => rfl) (fun _ => ?_)
  refine ite_congr3 rfl (fun _ => rfl) (fun _ => ?_)
  refine ite_congr3 (by rw [Ekw _ (by decide)]) (fun _ => rfl) (fun _ => ?_)
  refine ite_congr3 (by rw [Ekw _ (by decide)]) (fun _ => rfl) (fun _ => ?_)
  refine ite_congr3 (by rw [Ekw _ (by decide)]) (fun _ => rfl) (fun _ => ?_)
  refine ite_congr3 (by rw [Ekw _ (by decide)]) (fun _ => rfl) (fun _ => ?_)
  refine ite_congr3 rfl (fun _ => by rw [Esp _ (isWs_not_isIdCont hw)]) (fun _ => ?_)
  rw [Eip]
  cases ipv4Len (c :: rest) with
  | some m => rfl
  | none =>
    dsimp only
    refine ite_congr3 rfl (fun h => by rw [hq (by simpa using h)]) (fun _ => ?_)
    refine ite_congr3 (by rw [Ehex]) (fun h => ?_) (fun _ => ?_)
    · simp only [Bool.and_eq_true, beq_iff_eq] at h
      cases rest with
      | nil => simp at h
      | cons a r =>
        simp only [List.cons_append, List.drop_succ_cons, List.drop_zero]
        rw [spanLen_append_stop _ _ _ _ hwh]
    refine ite_congr3 rfl (fun _ => by rw [Esp _ hwd]) (fun _ => ?_)
    refine ite_congr3 (by rw [Eminus]) (fun _ => by rw [spanLen_append_stop _ _ _ _ hwd])
      (fun _ => rfl)

/-! ## comment-free text -/

/-- no comment (`#…`, `//…`) starts at a lexeme boundary of the text (a `#` or `//` INSIDE a string
literal is fine); the walk over the lexemes is the one of `Lex.loop` -/
def commentFreeAux : Nat → List Char → Bool
  | 0, _ => true
  | fuel + 1, cs =>
    match scanOne cs with
    | none => true
    | some (_, n) =>
      !(cs.head? == some '#' || (cs.head? == some '/' && (cs.drop 1).head? == some '/')) &&
        commentFreeAux fuel (cs.drop n)

def commentFree (cs : List Char) : Bool := commentFreeAux (cs.length + 1) cs

theorem commentFreeAux_fuel : ∀ (f1 f2 : Nat) (cs : List Char), cs.length < f1 → cs.length < f2 →
    commentFreeAux f1 cs = commentFreeAux f2 cs := by
  intro f1
  induction f1 with
  | zero => intro f2 cs h; omega
  | succ f1 ih =>
    intro f2 cs h1 h2
    cases f2 with
    | zero => omega
    | succ f2 =>
      rw [commentFreeAux, commentFreeAux]
      cases hsc : scanOne cs with
      | none => rfl
      | some r =>
        obtain ⟨cls, n⟩ := r
        have hb := scanOne_bound hsc
        dsimp only
        congr 1
        apply ih <;> (simp only [List.length_drop]; omega)

theorem commentFree_step {cs : List Char} {cls : Cls} {n : Nat} (hsc : scanOne cs = some (cls, n)) :
    commentFree cs =
      (!(cs.head? == some '#' || (cs.head? == some '/' && (cs.drop 1).head? == some '/')) &&
        commentFree (cs.drop n)) := by
  have hb := scanOne_bound hsc
  unfold commentFree
  rw [commentFreeAux, hsc]
  dsimp only
  congr 1
  apply commentFreeAux_fuel <;> (simp only [List.length_drop]; omega)

/-! ## the scan of `cs ++ w :: t` -/

theorem spanLen_eq_length_all (p : Char → Bool) : ∀ cs : List Char, spanLen p cs = cs.length → cs.all p = true
  | [], _ => rfl
  | c :: cs, h => by
    have hl := spanLen_le p cs
    simp only [spanLen, List.length_cons] at h
    split at h
    · rename_i hc
      simp only [List.all_cons, hc, Bool.true_and]
      exact spanLen_eq_length_all p cs (by omega)
    · omega

/-- Scanning `cs ++ w :: t` (`w` whitespace, `cs` scans and is comment free): first exactly as `cs`
alone, then `w :: t` from where `cs` ended. -/
theorem run_append_any (lno : Nat) {w : Char} (t : List Char) (hw : isWs w = true) :
    ∀ (cs : List Char) (pos : Nat) (s s' : St), run lno pos cs s = .ok s' → commentFree cs = true →
    run lno pos (cs ++ w :: t) s = run lno (pos + utf8Len cs) (w :: t) s'
  | [], pos, s, s', h, _ => by
    rw [run_nil] at h; cases h
    simp [utf8Len]
  | c :: rest, pos, s, s', h, hcf => by
    cases hsc : scanOne (c :: rest) with
    | none => rw [run_none lno pos s (by simp) hsc] at h; cases h
    | some r =>
      obtain ⟨cls, n⟩ := r
      have hb := scanOne_bound hsc
      rw [commentFree_step hsc, Bool.and_eq_true] at hcf
      obtain ⟨hnc, hcf'⟩ := hcf
      simp only [List.head?_cons, List.drop_succ_cons, List.drop_zero] at hnc
      by_cases hall : (c :: rest).all isWs = true
      · -- the whole of `cs` is whitespace
        rw [run_ws_prefix lno pos (c :: rest) (w :: t) s hall]
        have := run_ws_prefix lno pos (c :: rest) [] s hall
        rw [List.append_nil, run_nil] at this
        rw [this] at h; cases h; rfl
      · have key : scanOne (c :: rest ++ w :: t) = some (cls, n) := by
          by_cases h1 : isWs c = true
          · -- a whitespace run that ends inside `cs`
            rw [scanOne_ws _ h1] at hsc
            rw [List.cons_append, scanOne_ws _ h1, ← List.cons_append]
            have hlt : spanLen isWs (c :: rest) < (c :: rest).length := by
              have hle := spanLen_le isWs (c :: rest)
              rcases Nat.lt_or_ge (spanLen isWs (c :: rest)) (c :: rest).length with h' | h'
              · exact h'
              · exact absurd (spanLen_eq_length_all isWs _ (by omega)) hall
            rw [spanLen_append_lt _ _ _ hlt]; exact hsc
          · have h2 : ¬ c = '#' := by
              intro hc; subst hc; simp at hnc
            have h3 : ¬ (c == '/' && rest.head? == some '/') = true := by
              intro hc
              simp only [Bool.and_eq_true, beq_iff_eq] at hc
              simp [hc.1, hc.2] at hnc
            have hq : c = '"' → closeQuote (rest ++ w :: t) = closeQuote rest := by
              rintro rfl
              exact closeQuote_append _ _ (.inl (scanOne_quote_some hsc))
            rw [scanOne_append_any c rest t hw h1 h2 h3 hq]; exact hsc
        rw [run_some lno pos s hsc] at h
        rw [run_some lno pos s key, List.take_append_of_le_length hb.2,
          List.drop_append_of_le_length hb.2,
          run_append_any lno t hw _ _ _ s' h hcf', Nat.add_assoc, ← utf8Len_append,
          List.take_append_drop]
termination_by cs => cs.length
decreasing_by simp only [List.length_drop, List.length_cons]; omega

/-! ## tokens already produced; the pieces of a pending literal -/

def prependSt (T : List Tok) (s : St) : St := { toks := T ++ s.toks, strs := s.strs }

theorem stepSt_prepend (T : List Tok) (lno pos : Nat) (cls : Cls) (n : Nat) (txt : List Char) (s : St) :
    stepSt lno pos cls n txt (prependSt T s) = prependSt T (stepSt lno pos cls n txt s) := by
  cases cls with
  | skip => rfl
  | str => rfl
  | tok k =>
    by_cases he : s.strs.isEmpty = true
    · simp [stepSt, flushStrs, prependSt, he]
    · simp [stepSt, flushStrs, prependSt, he]

/-- the scan only appends to the tokens produced so far -/
theorem run_prepend (T : List Tok) (lno : Nat) : ∀ (cs : List Char) (pos : Nat) (s : St),
    run lno pos cs (prependSt T s) = (run lno pos cs s).map (prependSt T)
  | [], pos, s => rfl
  | c :: rest, pos, s => by
    cases hsc : scanOne (c :: rest) with
    | none =>
      rw [run_none lno _ _ (by simp) hsc, run_none lno _ _ (by simp) hsc]; rfl
    | some r =>
      obtain ⟨cls, n⟩ := r
      have hb := scanOne_bound hsc
      rw [run_some lno _ _ hsc, run_some lno _ _ hsc, stepSt_prepend]
      exact run_prepend T lno _ _ _
termination_by cs => cs.length
decreasing_by simp only [List.length_drop, List.length_cons]; omega

/-- the pieces of the pending literal, joined: what is carried from line to line -/
def normSt (s : St) : St :=
  { toks := s.toks, strs := if s.strs.isEmpty then [] else [String.join s.strs] }

theorem join_snoc (l : List String) (x : String) : String.join (l ++ [x]) = String.join l ++ x := by
  induction l with
  | nil => simp [String.join_cons, String.join_nil]
  | cons a l ih => simp [String.join_cons, ih, String.append_assoc]

theorem stepSt_norm (lno pos : Nat) (cls : Cls) (n : Nat) (txt : List Char) (s1 s2 : St)
    (h : normSt s1 = normSt s2) :
    normSt (stepSt lno pos cls n txt s1) = normSt (stepSt lno pos cls n txt s2) := by
  obtain ⟨t1, r1⟩ := s1
  obtain ⟨t2, r2⟩ := s2
  simp only [normSt, St.mk.injEq] at h
  obtain ⟨rfl, hr⟩ := h
  have hj : String.join r1 = String.join r2 ∧ r1.isEmpty = r2.isEmpty := by
    cases r1 <;> cases r2 <;> simp_all
  cases cls with
  | skip => show normSt ⟨t1, r1⟩ = normSt ⟨t1, r2⟩; simp only [normSt, hr]
  | str =>
    simp only [stepSt, normSt, St.mk.injEq, true_and]
    simp [hj.1]
  | tok k =>
    by_cases he : r2.isEmpty = true <;> simp [stepSt, flushStrs, normSt, hj.1, hj.2, he]

theorem run_norm (lno : Nat) : ∀ (cs : List Char) (pos : Nat) (s1 s2 : St), normSt s1 = normSt s2 →
    (run lno pos cs s1).map normSt = (run lno pos cs s2).map normSt
  | [], pos, s1, s2, h => by simp only [run_nil, Except.map, h]
  | c :: rest, pos, s1, s2, h => by
    cases hsc : scanOne (c :: rest) with
    | none =>
      rw [run_none lno _ _ (by simp) hsc, run_none lno _ _ (by simp) hsc]
    | some r =>
      obtain ⟨cls, n⟩ := r
      have hb := scanOne_bound hsc
      rw [run_some lno _ _ hsc, run_some lno _ _ hsc]
      exact run_norm lno _ _ _ _ (stepSt_norm lno pos cls n _ s1 s2 h)
termination_by cs => cs.length
decreasing_by simp only [List.length_drop, List.length_cons]; omega

/-! ## `line` on two texts joined by whitespace -/

/-- what `line` reports for the final scan state -/
def outOf (endCol : Nat) (s : St) : LineOut :=
  { toks := s.toks, pending := if s.strs.isEmpty then none else some (String.join s.strs), endCol := endCol }

theorem line_eq_run' (lno : Nat) (p : Option String) (ln : String) :
    line lno p ln = (run lno 0 ln.toList { strs := strsOf p }).map (outOf (utf8Len ln.toList + 1)) := by
  rw [line_eq_run]
  cases run lno 0 ln.toList { strs := strsOf p } <;> rfl

theorem outOf_norm (e : Nat) (s : St) : outOf e (normSt s) = outOf e s := by
  obtain ⟨t, r⟩ := s
  cases r with
  | nil => rfl
  | cons a r => simp [outOf, normSt, String.join_cons, String.join_nil]

theorem normSt_strsOf (s : St) :
    normSt { toks := [], strs := s.strs } = normSt { toks := [], strs := strsOf (outOf 0 s).pending } := by
  obtain ⟨t, r⟩ := s
  cases r with
  | nil => rfl
  | cons a r => simp [outOf, normSt, strsOf, String.join_cons, String.join_nil]

/-- Two texts joined by a non-empty run of whitespace lex as the first followed by the second: the
tokens of the first, then the tokens of the second (lexed with the literal pending after the first)
with their columns shifted; a lex error in the second is reported at the shifted column.  The first
text must lex and contain no comment. -/
theorem line_join (lno : Nat) (p : Option String) (l1 l2 : String) (sep : List Char) (o1 : LineOut)
    (hsep : sep ≠ []) (hws : sep.all isWs = true)
    (h1 : line lno p l1 = .ok o1) (hcf : commentFree l1.toList = true) :
    line lno p (l1 ++ String.ofList sep ++ l2) =
      match line lno o1.pending l2 with
      | .ok o2 => .ok { toks := o1.toks ++ o2.toks.map (shiftTok (utf8Len l1.toList + utf8Len sep)),
                        pending := o2.pending, endCol := o2.endCol + (utf8Len l1.toList + utf8Len sep) }
      | .error c => .error (c + (utf8Len l1.toList + utf8Len sep)) := by
  obtain ⟨w, ws, rfl⟩ := List.exists_cons_of_ne_nil hsep
  have hw : isWs w = true := by simp only [List.all_cons, Bool.and_eq_true] at hws; exact hws.1
  rw [line_eq_run'] at h1
  cases hr : run lno 0 l1.toList { strs := strsOf p } with
  | error c => rw [hr] at h1; cases h1
  | ok s1 =>
    rw [hr] at h1
    simp only [Except.map, Except.ok.injEq] at h1
    subst h1
    have hl : (l1 ++ String.ofList (w :: ws) ++ l2).toList = l1.toList ++ w :: (ws ++ l2.toList) := by simp
    rw [line_eq_run', hl, run_append_any lno (ws ++ l2.toList) hw l1.toList 0 _ s1 hr hcf,
      ← List.cons_append, run_ws_prefix lno _ (w :: ws) l2.toList s1 hws]
    have hs1 : s1 = prependSt s1.toks { toks := [], strs := s1.strs } := by simp [prependSt]
    rw [hs1, run_prepend]
    simp only [Nat.zero_add]
    have hsh := run_shift lno (utf8Len l1.toList + utf8Len (w :: ws)) l2.toList 0 { toks := [], strs := s1.strs }
    rw [show shiftSt (utf8Len l1.toList + utf8Len (w :: ws)) { toks := [], strs := s1.strs }
        = { toks := [], strs := s1.strs } from rfl, Nat.zero_add] at hsh
    rw [hsh]
    have hn := run_norm lno l2.toList 0 _ _ (normSt_strsOf s1)
    rw [line_eq_run']
    have hpend : (outOf (utf8Len l1.toList + 1) (prependSt s1.toks { toks := [], strs := s1.strs })).pending =
        (outOf 0 s1).pending := rfl
    rw [hpend]
    have htoks : (outOf (utf8Len l1.toList + 1) (prependSt s1.toks { toks := [], strs := s1.strs })).toks = s1.toks := by
      simp [outOf, prependSt]
    rw [htoks]
    revert hn
    cases run lno 0 l2.toList { toks := [], strs := s1.strs } with
    | error c =>
      cases run lno 0 l2.toList { toks := [], strs := strsOf (outOf 0 s1).pending } with
      | error c' => intro hn; simp only [Except.map, Except.error.injEq] at hn; subst hn; rfl
      | ok b => intro hn; simp [Except.map] at hn
    | ok a =>
      cases run lno 0 l2.toList { toks := [], strs := strsOf (outOf 0 s1).pending } with
      | error c' => intro hn; simp [Except.map] at hn
      | ok b =>
        intro hn
        simp only [Except.map, Except.ok.injEq] at hn
        have ha : outOf (utf8Len l2.toList + 1) a = outOf (utf8Len l2.toList + 1) b := by
          rw [← outOf_norm, hn, outOf_norm]
        simp only [Except.map, shiftRes]
        congr 1
        have h1 : a.toks = b.toks := congrArg LineOut.toks ha
        have h2 : (outOf (utf8Len l2.toList + 1) a).pending = (outOf (utf8Len l2.toList + 1) b).pending :=
          congrArg LineOut.pending ha
        simp only [outOf] at h2 ⊢
        simp only [prependSt, shiftSt, h1, h2, utf8Len_append, LineOut.mk.injEq, true_and]
        omega

end Lex
end Resynth
