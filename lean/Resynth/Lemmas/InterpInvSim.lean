import Resynth.Lemmas.InterpInvCli
/-!
# Lemmas: the run on a device with a byte budget simulates the unlimited run

The interpreter looks at the writer only through the ok/fail bit of `write_all`; until the
first failing write the budgeted run and the unlimited run are in lock step
(`BufW.Shadow`), and at the first failing write the budgeted run stops with an `Io` error.
-/
namespace Resynth

/-- the same interpreter state with another writer -/
def withWr (st : PState) (w : BufW) : PState := { st with wr := w }

@[simp] theorem withWr_wr (st w) : (withWr st w).wr = w := rfl
@[simp] theorem withWr_now (st w) : (withWr st w).now = st.now := rfl
@[simp] theorem withWr_emitted (st w) : (withWr st w).emitted = st.emitted := rfl
@[simp] theorem withWr_warnings (st w) : (withWr st w).warnings = st.warnings := rfl
@[simp] theorem withWr_loc (st w) : (withWr st w).loc = st.loc := rfl

inductive SimRes (k0 : Nat) : Res PState → Res PState → Prop
  /-- both continue, in lock step -/
  | ok {su : PState} {w : BufW} : BufW.Shadow k0 w su.wr → SimRes k0 (.ok (withWr su w)) (.ok su)
  /-- both stop with the same error -/
  | err (e : ErrKind) (l : Loc) : SimRes k0 (.err e l) (.err e l)
  /-- both panic alike -/
  | panic (s : String) : SimRes k0 (.panic s) (.panic s)
  /-- the budgeted run hit a failing write: it reports `Io`, whatever the unlimited run does -/
  | io (l : Loc) (ru : Res PState) : SimRes k0 (.err .io l) ru

theorem SimRes.bind {k0 : Nat} {rk ru : Res PState} {f g : PState → Res PState} (h : SimRes k0 rk ru)
    (hfg : ∀ su w, BufW.Shadow k0 w su.wr → SimRes k0 (f (withWr su w)) (g su)) :
    SimRes k0 (rk >>= f) (ru >>= g) := by
  cases h with
  | ok hs => exact hfg _ _ hs
  | err e l => exact .err e l
  | panic s => exact .panic s
  | io l ru => exact .io l _

/-- lifting a writer-agnostic computation -/
theorem SimRes.of_mapOk {k0 : Nat} {w : BufW} (R : Res PState)
    (h : ∀ s, R = .ok s → BufW.Shadow k0 w s.wr) : SimRes k0 (R.mapOk (withWr · w)) R := by
  cases R with
  | ok s => exact .ok (h s rfl)
  | err e l => exact .err e l
  | panic s => exact .panic s

theorem eval_withWr (env : Env) (su : PState) (w : BufW) (e : Expr) :
    eval env (withWr su w) e = (eval env su e).mapOk (fun r => (r.1, withWr r.2 w)) := by
  have : withWr su w = su.setOut su.now w su.emitted su.warnings := rfl
  rw [this, eval_frame]
  cases h : eval env su e with
  | err e l => rfl
  | panic s => rfl
  | ok r =>
    obtain ⟨h1, _, _, _, h5, h6⟩ := eval_onlyLH env e su r h
    simp only [Res.mapOk_ok, Res.ok.injEq, Prod.mk.injEq, true_and]
    simp only [PState.setOut, withWr, ← h1, ← h5, ← h6]

theorem updateTime_withWr (st : PState) (w : BufW) (n : Nat) :
    updateTime (withWr st w) n = (updateTime st n).mapOk (withWr · w) := by
  unfold updateTime
  by_cases h : st.now + n < u64Max
  · rw [if_pos h, if_pos (show (withWr st w).now + n < u64Max from h)]; rfl
  · rw [if_neg h, if_neg (show ¬ (withWr st w).now + n < u64Max from h)]; rfl

theorem foldl_updateTime_withWr (ps : List Packet) (w : BufW) : ∀ (st : PState),
    ps.foldlM (fun st p => updateTime st p.bitTime) (withWr st w) =
      (ps.foldlM (fun st p => updateTime st p.bitTime) st).mapOk (withWr · w) := by
  induction ps with
  | nil => intro st; rfl
  | cons p ps ih =>
    intro st
    simp only [List.foldlM_cons, updateTime_withWr]
    cases updateTime st p.bitTime with
    | err e l => rfl
    | panic s => rfl
    | ok s1 => simp only [Res.mapOk_ok, Res.bind_ok_eq]; exact ih s1

theorem updateTime_wr {st st' : PState} {n : Nat} (h : updateTime st n = .ok st') : st'.wr = st.wr := by
  rw [(updateTime_ok h).1]

theorem foldl_updateTime_wr {ps : List Packet} {st st' : PState}
    (h : ps.foldlM (fun st p => updateTime st p.bitTime) st = .ok st') : st'.wr = st.wr := by
  rw [foldl_updateTime_ok ps h]

theorem writeRecord_sim {k0 : Nat} {su : PState} {w : BufW} (p : Packet) (h : BufW.Shadow k0 w su.wr) :
    SimRes k0 (writeRecord (withWr su w) p) (writeRecord su p) := by
  unfold writeRecord
  show SimRes k0 (match Pcap.writePacket su.now p with
      | .panic s => .panic s
      | .ok bytes _ =>
        if (w.writeAll bytes).2 = true then
          .ok (withWr { su with wr := (su.wr.writeAll bytes).1, emitted := su.emitted ++ [(su.now, p.frame)] }
            (w.writeAll bytes).1)
        else .err .io su.loc) _
  cases Pcap.writePacket su.now p with
  | panic s => exact .panic s
  | ok bytes p' =>
    simp only []
    have hu := (BufW.writeAll_none su.wr bytes h.1).1
    by_cases hk : (w.writeAll bytes).2 = true
    · rw [if_pos hk, if_pos hu]
      exact .ok (h.writeAll bytes hk)
    · rw [if_neg hk]; exact .io _ _

theorem writeRecords_sim {k0 : Nat} (ps : List Packet) : ∀ {su : PState} {w : BufW},
    BufW.Shadow k0 w su.wr → SimRes k0 (writeRecords (withWr su w) ps) (writeRecords su ps) := by
  induction ps with
  | nil => intro su w h; exact .ok h
  | cons p ps ih =>
    intro su w h
    simp only [writeRecords]
    exact (writeRecord_sim p h).bind (fun su' w' h' => ih h')

theorem addStmt_sim {k0 : Nat} (env : Env) (s : Stmt) {su : PState} {w : BufW} (h : BufW.Shadow k0 w su.wr) :
    SimRes k0 (addStmt env (withWr su w) s) (addStmt env su s) := by
  cases s with
  | imp loc m =>
    show SimRes k0
      (if su.imports.contains m = true then .ok (withWr { su with loc := loc } w)
       else match env.lib.get m with
        | some .module => .ok (withWr { su with loc := loc, imports := su.imports ++ [m] } w)
        | none => .err (.import_ m) loc
        | some _ => .panic "toplevel_module: unreachable")
      (if su.imports.contains m = true then .ok { su with loc := loc }
       else match env.lib.get m with
        | some .module => .ok { su with loc := loc, imports := su.imports ++ [m] }
        | none => .err (.import_ m) loc
        | some _ => .panic "toplevel_module: unreachable")
    by_cases hc : su.imports.contains m = true
    · rw [if_pos hc, if_pos hc]; exact .ok (su := { su with loc := loc }) h
    · rw [if_neg hc, if_neg hc]
      cases env.lib.get m with
      | none => exact .err _ _
      | some sym =>
        cases sym with
        | module => exact .ok (su := { su with loc := loc, imports := su.imports ++ [m] }) h
        | cls => exact .panic _
        | func f => exact .panic _
        | val d => exact .panic _
  | assign loc t e =>
    simp only [addStmt]
    show SimRes k0 (if (lookupReg su.regs t).isSome = true then .err (.multipleAssign t) loc
        else eval env (withWr { su with loc := loc } w) e >>= fun r => pure { r.2 with regs := r.2.regs ++ [(t, r.1)] })
      (if (lookupReg su.regs t).isSome = true then .err (.multipleAssign t) loc
        else eval env { su with loc := loc } e >>= fun r => pure { r.2 with regs := r.2.regs ++ [(t, r.1)] })
    by_cases hc : (lookupReg su.regs t).isSome = true
    · rw [if_pos hc, if_pos hc]; exact .err _ _
    · rw [if_neg hc, if_neg hc, eval_withWr]
      cases he : eval env { su with loc := loc } e with
      | err e l => exact .err _ _
      | panic x => exact .panic _
      | ok r =>
        have hwr : r.2.wr = su.wr := (eval_onlyLH env e _ r he).2.2.2.1
        exact .ok (su := { r.2 with regs := r.2.regs ++ [(t, r.1)] }) (by simpa [hwr] using h)
  | expr e =>
    simp only [addStmt]
    rw [eval_withWr]
    cases he : eval env su e with
    | err e l => exact .err _ _
    | panic x => exact .panic _
    | ok r =>
      obtain ⟨v, s1⟩ := r
      have hwr : s1.wr = su.wr := (eval_onlyLH env e _ _ he).2.2.2.1
      have h1 : BufW.Shadow k0 w s1.wr := by rw [hwr]; exact h
      simp only [Res.mapOk_ok, Res.bind_ok_eq]
      cases v with
      | pkt p =>
        simp only [updateTime_withWr]
        refine SimRes.bind (SimRes.of_mapOk _ (fun s hs => by rw [updateTime_wr hs]; exact h1)) ?_
        intro su' w' h'; exact writeRecord_sim p h'
      | pktgen ps =>
        simp only [foldl_updateTime_withWr]
        refine SimRes.bind (SimRes.of_mapOk _ (fun s hs => by rw [foldl_updateTime_wr hs]; exact h1)) ?_
        intro su' w' h'; exact writeRecords_sim ps h'
      | timejump ns =>
        simp only [updateTime_withWr]
        exact SimRes.of_mapOk _ (fun s hs => by rw [updateTime_wr hs]; exact h1)
      | nil => exact .ok h1
      | _ => exact .ok (su := { s1 with warnings := s1.warnings ++ [s1.loc] }) h1

theorem addStmts_sim {k0 : Nat} (env : Env) (ss : List Stmt) : ∀ {su : PState} {w : BufW},
    BufW.Shadow k0 w su.wr → SimRes k0 (addStmts env (withWr su w) ss) (addStmts env su ss) := by
  induction ss with
  | nil => intro su w h; exact .ok h
  | cons s ss ih =>
    intro su w h
    simp only [addStmts]
    exact (addStmt_sim env s h).bind (fun su' w' h' => ih h')

/-! ## whole runs -/

/-- how the run with byte budget `k0` (`rk`) relates to the unlimited run (`ru`) -/
structure SimRun (k0 : Nat) (rk ru : FileRun) : Prop where
  /-- the device content is a prefix of the complete file -/
  pre : rk.file <+: ru.file
  /-- and never exceeds the budget -/
  len : rk.file.length ≤ k0
  /-- success is only claimed for the complete file -/
  complete : rk.outcome = .success → rk.file = ru.file ∧ ru.outcome = .success ∧ rk.emitted = ru.emitted
  /-- the outcome is the unlimited run's, or an `Io` failure -/
  outcome : rk.outcome = ru.outcome ∨ ∃ l, rk.outcome = .failure "Io" "" l

/-- a run, one statement at a time: a failing statement ends the run in the state it was executed in -/
theorem execFrom_stmt_cons (env : Env) (fin : Option Outcome) (st : PState) (s : Stmt) (ss : List Stmt) :
    execFrom env fin st [s :: ss] =
      match addStmt env st s with
      | .ok st' => execFrom env fin st' [ss]
      | .err e loc => finish st (.failure e.cls (errDetail e) loc)
      | .panic x => finish st (.panic x) := by
  simp only [execFrom, runBatches, addStmtsKeep]
  cases addStmt env st s <;> rfl

theorem execFrom_stmt_nil (env : Env) (fin : Option Outcome) (st : PState) :
    execFrom env fin st [[]] = execFrom env fin st [] := rfl

theorem recsBytes_prefix {a b : List (Nat × Bytes)} (h : a <+: b) : recsBytes a <+: recsBytes b := by
  obtain ⟨c, rfl⟩ := h
  rw [recsBytes_append]; exact List.prefix_append _ _

theorem stop_sim {k0 : Nat} {su : PState} {w : BufW} (h : BufW.Shadow k0 w su.wr) (o : Outcome)
    (ho : o ≠ .success) : SimRun k0 (finish (withWr su w) o) (finish su o) := by
  have hp := h.dropped_prefix
  refine ⟨?_, hp.2, fun hs => absurd hs ho, Or.inl rfl⟩
  simp only [finish, withWr_wr, BufW.dropped_none _ h.1]
  exact hp.1

theorem io_sim {k0 : Nat} (env : Env) (fin : Option Outcome) (bs : List (List Stmt)) {su : PState} {w : BufW}
    (h : BufW.Shadow k0 w su.wr) (hi : OutInv su) (l : Loc) :
    SimRun k0 (finish (withWr su w) (.failure "Io" "" l)) (execFrom env fin su bs) := by
  have hp := h.dropped_prefix
  obtain ⟨hf, hpre⟩ := execFrom_none_file env fin bs su hi
  refine ⟨?_, hp.2, fun hs => by simp [finish] at hs, Or.inr ⟨l, rfl⟩⟩
  rw [hf]
  simp only [finish, withWr_wr]
  refine hp.1.trans ?_
  rw [hi.2]
  exact (List.prefix_append_right_inj _).2 (recsBytes_prefix hpre)

theorem execFrom_nil_sim {k0 : Nat} (env : Env) (fin : Option Outcome) (hfin : fin ≠ some .success)
    {su : PState} {w : BufW} (h : BufW.Shadow k0 w su.wr) :
    SimRun k0 (execFrom env fin (withWr su w) []) (execFrom env fin su []) := by
  simp only [execFrom, runBatches]
  cases fin with
  | some o => exact stop_sim h o (fun ho => hfin (by rw [ho]))
  | none =>
    show SimRun k0
      (if w.flushBuf.2 = true then finish (withWr su w.flushBuf.1) .success
       else finish (withWr su w.flushBuf.1) (.failure "Io" "" Loc.nil))
      (if su.wr.flushBuf.2 = true then finish { su with wr := su.wr.flushBuf.1 } .success
       else finish { su with wr := su.wr.flushBuf.1 } (.failure "Io" "" Loc.nil))
    have hu : su.wr.flushBuf.2 = true := by rw [BufW.flushBuf_none _ h.1]
    rw [if_pos hu]
    by_cases hk : w.flushBuf.2 = true
    · rw [if_pos hk]
      obtain ⟨e1, e2⟩ := h.flush_ok_dropped hk
      exact ⟨by simp only [finish, withWr_wr]; rw [e1]; exact List.prefix_refl _,
        by simpa only [finish, withWr_wr] using e2,
        fun _ => ⟨by simpa only [finish, withWr_wr] using e1, rfl, rfl⟩, Or.inl rfl⟩
    · rw [if_neg hk]
      have hp := h.dropped_prefix
      refine ⟨?_, ?_, fun hs => by simp [finish] at hs, Or.inr ⟨_, rfl⟩⟩
      · simp only [finish, withWr_wr, BufW.dropped_flushBuf, BufW.dropped_none _ h.1]; exact hp.1
      · simp only [finish, withWr_wr, BufW.dropped_flushBuf]; exact hp.2

/-- statement by statement: both runs are in lock step until one statement fails in both (then both
stop, in lock-step states) or the budgeted run hits a failing write (then it stops with `Io`, with a
prefix of whatever the unlimited run goes on to write) -/
theorem execFrom_stmts_sim {k0 : Nat} (env : Env) (fin : Option Outcome) (hfin : fin ≠ some .success)
    (ss : List Stmt) : ∀ {su : PState} {w : BufW}, BufW.Shadow k0 w su.wr → OutInv su →
      SimRun k0 (execFrom env fin (withWr su w) [ss]) (execFrom env fin su [ss]) := by
  induction ss with
  | nil =>
    intro su w h hi
    rw [execFrom_stmt_nil, execFrom_stmt_nil]
    exact execFrom_nil_sim env fin hfin h
  | cons s ss ih =>
    intro su w h hi
    rw [execFrom_stmt_cons, execFrom_stmt_cons]
    have hs := addStmt_sim env s h
    revert hs
    generalize hrk : addStmt env (withWr su w) s = rk
    cases hru : addStmt env su s with
    | ok su' =>
      intro hs
      cases hs with
      | ok h' => exact ih h' (hi.addStmt hru)
      | io l _ =>
        have := io_sim env fin [s :: ss] h hi l
        rw [execFrom_stmt_cons, hru] at this
        exact this
    | err e l =>
      intro hs
      cases hs with
      | err _ _ => exact stop_sim h _ (by simp)
      | io l _ =>
        have := io_sim env fin [s :: ss] h hi l
        rw [execFrom_stmt_cons, hru] at this
        exact this
    | panic x =>
      intro hs
      cases hs with
      | panic _ => exact stop_sim h _ (by simp)
      | io l _ =>
        have := io_sim env fin [s :: ss] h hi l
        rw [execFrom_stmt_cons, hru] at this
        exact this

theorem execFrom_sim {k0 : Nat} (env : Env) (fin : Option Outcome) (hfin : fin ≠ some .success)
    (bs : List (List Stmt)) {su : PState} {w : BufW} (h : BufW.Shadow k0 w su.wr) (hi : OutInv su) :
    SimRun k0 (execFrom env fin (withWr su w) bs) (execFrom env fin su bs) := by
  rw [execFrom_flatten env fin _ bs, execFrom_flatten env fin su bs]
  exact execFrom_stmts_sim env fin hfin bs.flatten h hi

theorem st0_shadow (k : Nat) : BufW.Shadow k (wr0 (some k)) (st0 none).wr := by
  simp [BufW.Shadow, st0, wr0_eq]

theorem execPlan_sim (env : Env) (k : Nat) (p : Plan) (hfin : p.final ≠ some .success) :
    SimRun k (execPlan env (some k) p) (execPlan env none p) :=
  execFrom_sim env p.final hfin p.batches (st0_shadow k) st0_outInv

/-- **the simulation theorem for whole runs** -/
theorem processFile_sim (env : Env) (k : Nat) (src : Bytes) :
    SimRun k (processFile env (some k) src) (processFile env none src) := by
  rw [processFile_eq, processFile_eq]
  exact execPlan_sim env k _ (planOf_final src)

end Resynth
