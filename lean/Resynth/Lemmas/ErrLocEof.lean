import Resynth.Lemmas.ErrLocParse
/-!
# End of input: which statements `EOF` can still complete

The end-of-input token carries no position (`Loc.nil`), and in one state (`ArgName`) the parser records
the position of the token it is looking at in a tree.  This file shows that such a tree never reaches the
interpreter: `EOF` is accepted only from the statement-level states (`stmtLevel`: a complete statement
is waiting to be reduced, or nothing is), where no token position is recorded (`feed_eof_good`).
Likewise the string literal the lexer flushes at end of input leaves the parser inside an expression
(`feed_str_state`), so the `EOF` that follows is a parse error and nothing built from that literal is
executed.
-/
namespace Resynth.LR

/-- the states in which a complete statement (or nothing) is on the stack -/
def stmtLevel : State → Bool
  | .initial | .reduceImport | .reduceAssign | .reduceExprStmt | .reduceAssignStmt | .reduceStmt
  | .accept => true
  | _ => false

def StepTop (P : Loc → Prop) : Res (Cfg × Bool) → Prop
  | .ok (c', _) => CfgGood P c' ∧ stmtLevel c'.state = true
  | _ => True

def StepInner : Res (Cfg × Bool) → Prop
  | .ok (c', b) => b = false ∧ stmtLevel c'.state = false
  | _ => True

def StepStr : Res (Cfg × Bool) → Prop
  | .ok (c', b) => b = true → stmtLevel c'.state = false
  | _ => True

section Steps
attribute [local simp] StepTop StepInner StepStr stmtLevel StepGood CfgGood NodeGood step dispatch bind pure Bind.bind Pure.pure
  reduceImportStmt popStr popPath
  reduceObject reduceModule reduceRef reduceSockaddr reduceLiteralExpr reduceRefExpr reduceCallExpr reduceBop
  reduceArg reduceCall reduceAssign reduceExprStmt reduceAssignStmt pushLiteral fromToken PathB.new
  Expr.Good Args.Good Stmt.Good List.forall_mem_append or_imp forall_and

set_option linter.unusedVariables false

local macro "wf_state0" h:ident : tactic => `(tactic| (
  simp only [Inv] at $h:ident
  try split at $h:ident
  all_goals (try contradiction)
  all_goals (try subst $h:ident)
  all_goals (simp_all)))

/-- from a statement-level state, an `EOF` step records no position and stays at statement level -/
theorem step_eof_top (P : Loc → Prop) (c : Cfg) (txt : String) (loc : Loc) (hT : stmtLevel c.state = true)
    (h : Inv c.state c.stack) (hw : CfgGood P c) : StepTop P (step c ⟨.eof, txt, loc⟩) := by
  obtain ⟨st, s, ss⟩ := c
  obtain ⟨hw1, hw2⟩ := hw
  cases st <;> simp only [stmtLevel] at hT <;> (try contradiction)
  all_goals wf_state0 h

/-- from any other state, an `EOF` step is not consumed and stays below statement level -/
theorem step_eof_inner (c : Cfg) (txt : String) (loc : Loc) (hT : stmtLevel c.state = false)
    (h : Inv c.state c.stack) : StepInner (step c ⟨.eof, txt, loc⟩) := by
  obtain ⟨st, s, ss⟩ := c
  cases st <;> simp only [stmtLevel] at hT <;> (try contradiction)
  case reduceExpr =>
    simp only [Inv] at h
    split at h
    · cases h <;> simp_all
    · contradiction
  all_goals wf_state0 h

/-- a string literal is consumed only as the literal of an expression -/
theorem step_str_state (c : Cfg) (txt : String) (loc : Loc) (h : Inv c.state c.stack) :
    StepStr (step c ⟨.strLit, txt, loc⟩) := by
  obtain ⟨st, s, ss⟩ := c
  cases st
  case reduceExpr =>
    simp only [Inv] at h
    split at h
    · cases h <;> simp_all
    · contradiction
  case expr =>
    simp only [Inv] at h
    cases hl : litOfToken ⟨.strLit, txt, loc⟩ <;> simp_all
  case argVal =>
    simp only [Inv] at h
    split at h
    · cases hl : litOfToken ⟨.strLit, txt, loc⟩ <;> simp_all
    · contradiction
  all_goals wf_state0 h

end Steps

/-! ## `feed` -/

theorem feedAux_eof (P : Loc → Prop) (txt : String) (loc : Loc) (fuel : Nat) (c : Cfg)
    (h : Inv c.state c.stack) {c' : Cfg} (hf : feedAux fuel c ⟨.eof, txt, loc⟩ = .ok c') :
    stmtLevel c.state = true ∧ (CfgGood P c → CfgGood P c') := by
  induction fuel generalizing c with
  | zero => simp [feedAux] at hf
  | succ n ih =>
    have hs := step_inv c ⟨.eof, txt, loc⟩ h
    unfold feedAux at hf
    cases hT : stmtLevel c.state with
    | false =>
      have hi := step_eof_inner c txt loc hT h
      cases hst : step c ⟨.eof, txt, loc⟩ with
      | parseError => simp [hst] at hf
      | panic => simp [hst] at hf
      | ok r =>
        obtain ⟨c1, b⟩ := r
        rw [hst] at hi hs
        obtain ⟨rfl, hT1⟩ := hi
        simp only [hst] at hf
        have := (ih c1 hs.1 hf).1
        rw [hT1] at this
        cases this
    | true =>
      refine ⟨rfl, fun hw => ?_⟩
      have ht := step_eof_top P c txt loc hT h hw
      cases hst : step c ⟨.eof, txt, loc⟩ with
      | parseError => simp [hst] at hf
      | panic => simp [hst] at hf
      | ok r =>
        obtain ⟨c1, b⟩ := r
        rw [hst] at ht hs
        cases b with
        | true => simp only [hst, Res.ok.injEq] at hf; subst hf; exact ht.1
        | false =>
          simp only [hst] at hf
          exact (ih c1 hs.1 hf).2 ht.1

/-- **`EOF` is accepted only at statement level, and the statements it completes carry no position of
its own**: whatever predicate `P` the positions in the parser satisfied before still holds after -/
theorem feed_eof_good (P : Loc → Prop) (c : Cfg) (h : Inv c.state c.stack) (hw : CfgGood P c) {c' : Cfg}
    (hf : feed c eofTok = .ok c') : CfgGood P c' :=
  (feedAux_eof P _ _ _ c h hf).2 hw

theorem feed_eof_stmtLevel (c : Cfg) (h : Inv c.state c.stack) {c' : Cfg}
    (hf : feed c eofTok = .ok c') : stmtLevel c.state = true :=
  (feedAux_eof (fun _ => True) _ _ _ c h hf).1

theorem feedAux_str (txt : String) (loc : Loc) (fuel : Nat) (c : Cfg)
    (h : Inv c.state c.stack) {c' : Cfg} (hf : feedAux fuel c ⟨.strLit, txt, loc⟩ = .ok c') :
    stmtLevel c'.state = false := by
  induction fuel generalizing c with
  | zero => simp [feedAux] at hf
  | succ n ih =>
    have hs := step_inv c ⟨.strLit, txt, loc⟩ h
    have hi := step_str_state c txt loc h
    unfold feedAux at hf
    cases hst : step c ⟨.strLit, txt, loc⟩ with
    | parseError => simp [hst] at hf
    | panic => simp [hst] at hf
    | ok r =>
      obtain ⟨c1, b⟩ := r
      rw [hst] at hi hs
      cases b with
      | true => simp only [hst, Res.ok.injEq] at hf; subst hf; exact hi rfl
      | false =>
        simp only [hst] at hf
        exact ih c1 hs.1 hf

/-- **after a string literal the parser is inside an expression** - so an `EOF` right after it (the
end-of-input flush of the lexer) is a parse error -/
theorem feed_str_then_eof (c c1 : Cfg) (t : Tok) (hk : t.kind = .strLit) (h : Inv c.state c.stack)
    (hf : feed c t = .ok c1) : ∀ c2, feed c1 eofTok ≠ .ok c2 := by
  intro c2 h2
  obtain ⟨k, txt, loc⟩ := t
  simp only at hk
  subst hk
  have h1 := feedAux_str txt loc _ c h hf
  have := feed_eof_stmtLevel c1 (feed_inv_ok h hf) h2
  rw [h1] at this
  cases this

end Resynth.LR
