import Resynth.Lemmas.LexProps
/-!
# Adjacent string literals are merged by raw concatenation (lexer side of C05)
-/
namespace Resynth.LexLemmas
open Resynth Resynth.Lex Resynth.Spec

theorem select_of_scanOne {cs : List Char} {c : Cls} {n : Nat} (h : scanOne cs = some (c, n)) :
    ∃ r, select cs = some (r, n) ∧ clsOf r = c := by
  rw [scanOne_eq_spec] at h
  simp only [Option.map_eq_some_iff, Prod.mk.injEq] at h
  obtain ⟨⟨r, m⟩, hs, hc, rfl⟩ := h
  exact ⟨r, hs, hc⟩

theorem kind_of_clsOf_skip {r : LexRule} (h : clsOf r = .skip) : r.kind = none := by
  simp only [clsOf] at h
  cases hk : r.kind with
  | none => rfl
  | some k => rw [hk] at h; cases k <;> cases h

theorem kind_of_clsOf_str {r : LexRule} (h : clsOf r = .str) : r.kind = some .strLit := by
  simp only [clsOf] at h
  cases hk : r.kind with
  | none => rw [hk] at h; cases h
  | some k => rw [hk] at h; cases k <;> first | rfl | cases h

theorem kind_of_clsOf_tok {r : LexRule} {k : TokKind} (h : clsOf r = .tok k) :
    r.kind = some k ∧ k ≠ .strLit := by
  simp only [clsOf] at h
  cases hk : r.kind with
  | none => rw [hk] at h; cases h
  | some k' =>
    rw [hk] at h
    cases k' <;> cases h <;> exact ⟨rfl, by decide⟩

/-! ## the three anchored matches that occur in `"a" "b";` -/

theorem closeQuote_append_quote (a rest : List Char) (ha : ∀ c ∈ a, c ≠ '"') :
    closeQuote (a ++ '"' :: rest) = some a.length := by
  induction a with
  | nil => simp [closeQuote]
  | cons c a ih =>
    have hc : c ≠ '"' := ha c (by simp)
    simp only [List.cons_append, closeQuote, beq_iff_eq, hc, if_false, List.length_cons]
    rw [ih (fun x hx => ha x (by simp [hx]))]; rfl

theorem scanOne_string (a rest : List Char) (ha : ∀ c ∈ a, c ≠ '"') :
    scanOne ('"' :: (a ++ '"' :: rest)) = some (.str, a.length + 2) := by
  have e1 : isWs '"' = false := by decide
  have e2 : isIdStart '"' = false := by decide
  have e3 : isDigit '"' = false := by decide
  have hip : ipv4Len ('"' :: (a ++ '"' :: rest)) = none := by
    simp [ipv4Len, octetDot, spanLen, e3, octetOk]
  simp only [scanOne, e1, e2, hip, closeQuote_append_quote a rest ha, kwAt]
  simp

theorem scanOne_semi (rest : List Char) : scanOne (';' :: rest) = some (.tok .semi, 1) := by
  have e1 : isWs ';' = false := by decide
  simp only [scanOne, e1]
  simp

theorem spanLen_append_stop (p : Char → Bool) (ws : List Char) (q : Char) (rest : List Char)
    (hws : ws.all p = true) (hq : p q = false) : spanLen p (ws ++ q :: rest) = ws.length := by
  induction ws with
  | nil => simp [spanLen, hq]
  | cons w ws ih =>
    simp only [List.all_cons, Bool.and_eq_true] at hws
    rw [List.cons_append, spanLen_cons_pos _ _ _ hws.1, ih hws.2]; rfl

theorem scanOne_ws (w : Char) (ws : List Char) (q : Char) (rest : List Char)
    (hw : isWs w = true) (hws : ws.all isWs = true) (hq : isWs q = false) :
    scanOne (w :: (ws ++ q :: rest)) = some (.skip, ws.length + 1) := by
  simp only [scanOne, hw, if_true]
  rw [← List.cons_append, spanLen_append_stop isWs (w :: ws) q rest (by simp [hw, hws]) hq]
  rfl

/-! ## the corresponding steps of the spec -/

theorem byteLen_quote : byteLen ['"'] = 1 := by decide

theorem specFrom_string (lno pos : Nat) (acc : Option String) (toks0 : List Tok) (a rest : List Char)
    (ha : ∀ c ∈ a, c ≠ '"') :
    specFrom lno pos acc toks0 ('"' :: (a ++ '"' :: rest)) =
      specFrom lno (pos + (byteLen a + 2)) (some (acc.getD "" ++ String.ofList a)) toks0 rest := by
  obtain ⟨r, hs, hc⟩ := select_of_scanOne (scanOne_string a rest ha)
  rw [specFrom_str hs (kind_of_clsOf_str hc)]
  have htake : ('"' :: (a ++ '"' :: rest)).take (a.length + 2) = '"' :: (a ++ ['"']) := by
    rw [List.take_succ_cons, show a ++ '"' :: rest = (a ++ ['"']) ++ rest by simp]
    rw [List.take_left' (by simp)]
  have hdrop : ('"' :: (a ++ '"' :: rest)).drop (a.length + 2) = rest := by
    rw [List.drop_succ_cons, show a ++ '"' :: rest = (a ++ ['"']) ++ rest by simp]
    rw [List.drop_left' (by simp)]
  rw [htake, hdrop]
  have hin : strInner ('"' :: (a ++ ['"'])) = String.ofList a := by
    simp [strInner]
  have hbl : byteLen ('"' :: (a ++ ['"'])) = byteLen a + 2 := by
    rw [show '"' :: (a ++ ['"']) = ['"'] ++ (a ++ ['"']) by rfl, byteLen_append, byteLen_append,
      byteLen_quote]; omega
  rw [hin, hbl]

theorem specFrom_ws (lno pos : Nat) (acc : Option String) (toks0 : List Tok) (ws : List Char) (q : Char)
    (rest : List Char) (hws : ws.all isWs = true) (hq : isWs q = false) :
    specFrom lno pos acc toks0 (ws ++ q :: rest) =
      specFrom lno (pos + byteLen ws) acc toks0 (q :: rest) := by
  cases ws with
  | nil => simp [byteLen_nil]
  | cons w ws =>
    simp only [List.all_cons, Bool.and_eq_true] at hws
    obtain ⟨r, hs, hc⟩ := select_of_scanOne (scanOne_ws w ws q rest hws.1 hws.2 hq)
    rw [List.cons_append, specFrom_skip hs (kind_of_clsOf_skip hc)]
    have htake : (w :: (ws ++ q :: rest)).take (ws.length + 1) = w :: ws := by
      rw [List.take_succ_cons, List.take_left' rfl]
    have hdrop : (w :: (ws ++ q :: rest)).drop (ws.length + 1) = q :: rest := by
      rw [List.drop_succ_cons, List.drop_left' rfl]
    rw [htake, hdrop]

theorem specFrom_semi_end (lno pos : Nat) (acc : Option String) (toks0 : List Tok) :
    specFrom lno pos acc toks0 [';'] =
      .ok (toks0 ++ (acc.map fun s => (⟨.strLit, s, ⟨lno, pos + 1⟩⟩ : Tok)).toList ++
        [⟨.semi, "", ⟨lno, pos + 1⟩⟩], none) := by
  obtain ⟨r, hs, hc⟩ := select_of_scanOne (scanOne_semi [])
  obtain ⟨hk, hne⟩ := kind_of_clsOf_tok hc
  rw [specFrom_tok hs hk hne]
  simp [specFrom_nil, tokVal]

/-! ## merging -/

/-- `"a"` (white space) `"b";` with `p` carried in: ONE string token with text `p ++ a ++ b`
(just `a ++ b` if nothing is carried in), positioned at the `;` -/
theorem lexLine_two_strings (lno : Nat) (p : Option String) (a sep b : List Char)
    (ha : ∀ c ∈ a, c ≠ '"') (hb : ∀ c ∈ b, c ≠ '"') (hsep : sep.all isWs = true) :
    lexLine lno p (String.ofList ('"' :: (a ++ '"' :: (sep ++ '"' :: (b ++ ['"', ';']))))) =
      .ok ([⟨.strLit, p.getD "" ++ String.ofList a ++ String.ofList b,
              ⟨lno, byteLen a + 2 + byteLen sep + (byteLen b + 2) + 1⟩⟩,
            ⟨.semi, "", ⟨lno, byteLen a + 2 + byteLen sep + (byteLen b + 2) + 1⟩⟩], none) := by
  rw [← specFrom_zero, String.toList_ofList, specFrom_string _ _ _ _ a _ ha,
    specFrom_ws _ _ _ _ sep '"' _ hsep (by decide), specFrom_string _ _ _ _ b _ hb, specFrom_semi_end]
  simp

/-- `"a"` alone on a line with `p` carried in: no token, `p ++ a` is carried on - as a pending
literal even if it is empty -/
theorem lexLine_string_only (lno : Nat) (p : Option String) (a : List Char) (ha : ∀ c ∈ a, c ≠ '"') :
    lexLine lno p (String.ofList ('"' :: (a ++ ['"']))) = .ok ([], some (p.getD "" ++ String.ofList a)) := by
  rw [← specFrom_zero, String.toList_ofList, specFrom_string _ _ _ _ a _ ha, specFrom_nil]

/-- `"b";` with `p` carried in: one string token `p ++ b` -/
theorem lexLine_string_semi (lno : Nat) (p : Option String) (b : List Char) (hb : ∀ c ∈ b, c ≠ '"') :
    lexLine lno p (String.ofList ('"' :: (b ++ ['"', ';']))) =
      .ok ([⟨.strLit, p.getD "" ++ String.ofList b, ⟨lno, byteLen b + 2 + 1⟩⟩,
            ⟨.semi, "", ⟨lno, byteLen b + 2 + 1⟩⟩], none) := by
  rw [← specFrom_zero, String.toList_ofList, specFrom_string _ _ _ _ b _ hb, specFrom_semi_end]
  simp

/-- `;` with the literal `q` carried in (possibly the EMPTY literal): the string token `q` -/
theorem lexLine_semi_only (lno : Nat) (q : String) :
    lexLine lno (some q) (String.ofList [';']) =
      .ok ([⟨.strLit, q, ⟨lno, 1⟩⟩, ⟨.semi, "", ⟨lno, 1⟩⟩], none) := by
  rw [← specFrom_zero, String.toList_ofList, specFrom_semi_end]
  simp

end Resynth.LexLemmas
