import Resynth.Lemmas.InterpBasic
/-!
# Where the interpreter locates its errors (C08: "a line within that statement")

Specification-level definitions: the positions recorded in a syntax tree (`Expr.locs`, `Args.locs`,
`Stmt.locs`), and the one shape of tree for which the interpreter model can report a position that is
NOT in the tree: an expression whose leftmost `/`-operand is the empty expression `Expr.nil`
(`Expr.startsNil`); the parser never builds such a tree (`Lemmas/ErrLocParse.lean`).

Lemmas: every error of `eval` / `evalArgs` / `addStmt` is reported at a position of the tree, or - only
for `startsNil` trees - at the position register the evaluation started with.
-/
namespace Resynth
open Sem

/-! ## positions recorded in a tree -/

mutual
/-- the positions recorded in an expression, in source order -/
def Expr.locs : Expr → List Loc
  | .nil => []
  | .lit loc _ => [loc]
  | .ref o => [o.loc]
  | .call o args => o.loc :: args.locs
  | .slash a b => a.locs ++ b.locs
/-- the positions recorded in an argument list, in source order -/
def Args.locs : Args → List Loc
  | .nil => []
  | .cons _ e rest => e.locs ++ rest.locs
end

/-- the positions recorded in a statement: the module name of an import, the target of an assignment
followed by the positions of its right-hand side, the positions of an expression statement -/
def Stmt.locs : Stmt → List Loc
  | .imp loc _ => [loc]
  | .assign loc _ e => loc :: e.locs
  | .expr e => e.locs

/-- the leftmost operand of the expression (following the left operands of `/`) is the empty
expression `Expr.nil`.  Such an expression does not set the position register before its first
check can fail. -/
def Expr.startsNil : Expr → Bool
  | .nil => true
  | .slash a _ => a.startsNil
  | _ => false

/-- the first argument that is not the empty expression `startsNil` -/
def Args.startsNil : Args → Bool
  | .nil => false
  | .cons _ .nil rest => rest.startsNil
  | .cons _ e _ => e.startsNil

/-- an expression statement whose expression `startsNil` (the other statements set the position
register themselves before anything can fail) -/
def Stmt.startsNil : Stmt → Bool
  | .expr e => e.startsNil
  | _ => false

mutual
/-- the empty expression occurs nowhere in the tree (what the parser builds) -/
def Expr.noNil : Expr → Bool
  | .nil => false
  | .lit _ _ => true
  | .ref _ => true
  | .call _ args => args.noNil
  | .slash a b => a.noNil && b.noNil
def Args.noNil : Args → Bool
  | .nil => true
  | .cons _ e rest => e.noNil && rest.noNil
end

def Stmt.noNil : Stmt → Bool
  | .imp _ _ => true
  | .assign _ _ e => e.noNil
  | .expr e => e.noNil

theorem Expr.startsNil_of_noNil : ∀ (e : Expr), e.noNil = true → e.startsNil = false
  | .nil, h => by simp [Expr.noNil] at h
  | .lit _ _, _ => rfl
  | .ref _, _ => rfl
  | .call _ _, _ => rfl
  | .slash a b, h => by
    simp only [Expr.noNil, Bool.and_eq_true] at h
    simp only [Expr.startsNil]
    exact Expr.startsNil_of_noNil a h.1

theorem Args.startsNil_of_noNil : ∀ (a : Args), a.noNil = true → a.startsNil = false
  | .nil, _ => rfl
  | .cons _ e rest, h => by
    simp only [Args.noNil, Bool.and_eq_true] at h
    cases e with
    | nil => simp [Expr.noNil] at h
    | lit _ _ => rfl
    | ref _ => rfl
    | call _ _ => rfl
    | slash a b => simp only [Args.startsNil]; exact Expr.startsNil_of_noNil _ h.1

theorem Stmt.startsNil_of_noNil (s : Stmt) (h : s.noNil = true) : s.startsNil = false := by
  cases s with
  | imp _ _ => rfl
  | assign _ _ _ => rfl
  | expr e => exact Expr.startsNil_of_noNil e h

theorem Expr.locs_ne_nil_of_noNil : ∀ (e : Expr), e.noNil = true → e.locs ≠ []
  | .nil, h => by simp [Expr.noNil] at h
  | .lit _ _, _ => by simp [Expr.locs]
  | .ref _, _ => by simp [Expr.locs]
  | .call _ _, _ => by simp [Expr.locs]
  | .slash a b, h => by
    simp only [Expr.noNil, Bool.and_eq_true] at h
    simp only [Expr.locs, ne_eq, List.append_eq_nil_iff, not_and]
    intro h1
    exact absurd h1 (Expr.locs_ne_nil_of_noNil a h.1)

/-! ## `Res`: where a bind can fail -/

theorem Res.bind_eq_err {α β} {x : Res α} {f : α → Res β} {k : ErrKind} {l : Loc} :
    (x >>= f) = .err k l ↔ x = .err k l ∨ ∃ a, x = .ok a ∧ f a = .err k l := by
  cases x <;> simp

/-! ## the pieces of `eval` that do not recurse: errors are at the position register -/

theorem evalExternRef_err {env : Env} {st : PState} {o : ObjRef} {k : ErrKind} {l : Loc}
    (h : evalExternRef env st o = .err k l) : l = st.loc := by
  have walk : ∀ (rest : List String) (cur : String),
      rest.foldlM (fun (cur : String) (c : String) =>
        match env.lib.get (cur ++ "::" ++ c) with
        | some .module => Res.ok (cur ++ "::" ++ c)
        | none => .err .name st.loc
        | some _ => .err .type_ st.loc) cur = .err k l → l = st.loc := by
    intro rest
    induction rest with
    | nil => intro cur h; simp at h
    | cons c rest ih =>
      intro cur h
      rw [List.foldlM_cons] at h
      rcases Res.bind_eq_err.1 h with h | ⟨a, _, h⟩
      · split at h <;> simp at h <;> exact h.2.symm
      · exact ih a h
  unfold evalExternRef at h
  split at h
  · simp at h
  · split at h
    · simp only [Res.err.injEq] at h; exact h.2.symm
    · simp only at h
      split at h
      · rename_i hw
        simp only [Res.err.injEq] at h
        obtain ⟨rfl, rfl⟩ := h
        exact walk _ _ hw
      · simp at h
      · split at h
        · simp at h
        · split at h <;> (try split at h) <;> simp at h <;> exact h.2.symm

theorem evalLocalRef_err {env : Env} {st : PState} {o : ObjRef} {k : ErrKind} {l : Loc}
    (h : evalLocalRef env st o = .err k l) : l = st.loc := by
  unfold evalLocalRef at h
  repeat' split at h
  all_goals simp at h
  all_goals exact h.2.symm

theorem evalObjRef_err {env : Env} {st : PState} {o : ObjRef} {k : ErrKind} {l : Loc}
    (h : evalObjRef env st o = .err k l) : l = st.loc := by
  unfold evalObjRef at h
  split at h
  · exact evalExternRef_err h
  · exact evalLocalRef_err h

theorem bindAndExec_err {env : Env} {st : PState} {f : FuncDef} {this : Option Nat} {args : List ArgSpec}
    {k : ErrKind} {l : Loc} (h : bindAndExec env st f this args = .err k l) : l = st.loc := by
  unfold bindAndExec at h
  repeat' split at h
  all_goals simp at h
  all_goals exact h.2.symm

theorem bindAndExec_ok_loc {env : Env} {st : PState} {f : FuncDef} {this : Option Nat} {args : List ArgSpec}
    {v : Val} {st' : PState} (h : bindAndExec env st f this args = .ok (v, st')) : st'.loc = st.loc := by
  unfold bindAndExec at h
  repeat' split at h
  all_goals simp at h
  rw [← h.2]

theorem funcOf_not_err {env : Env} {path : String} {k : ErrKind} {l : Loc} : funcOf env path ≠ .err k l := by
  unfold funcOf
  split <;> simp

/-! ## `eval` / `evalArgs` -/

/-- where `eval` started in `st` on `e` may report an error / leave the position register -/
def EvalLoc (st : PState) (e : Expr) : Res (Val × PState) → Prop
  | .ok (_, st') => st'.loc ∈ e.locs ∨ (e = .nil ∧ st'.loc = st.loc)
  | .err _ l => l ∈ e.locs ∨ (e.startsNil = true ∧ l = st.loc)
  | .panic _ => True

def ArgsLoc (st : PState) (a : Args) : Res (List ArgSpec × PState) → Prop
  | .ok (_, st') => st'.loc ∈ a.locs ∨ (a.locs = [] ∧ st'.loc = st.loc)
  | .err _ l => l ∈ a.locs ∨ (a.startsNil = true ∧ l = st.loc)
  | .panic _ => True

/-- the part of a call after the callee has been resolved -/
theorem call_tail_loc (env : Env) (st : PState) (o : ObjRef) (args : Args) (path : String) (this : Option Nat)
    (ih : ArgsLoc { st with loc := o.loc } args (evalArgs env { st with loc := o.loc } args)) :
    EvalLoc st (.call o args)
      (evalArgs env { st with loc := o.loc } args >>= fun r =>
        funcOf env path >>= fun f => bindAndExec env r.2 f this r.1) := by
  cases ha : evalArgs env { st with loc := o.loc } args with
  | panic s => simp [EvalLoc]
  | err k l =>
    rw [ha] at ih
    simp only [Res.err_bind, EvalLoc, Expr.locs, List.mem_cons]
    rcases ih with h | ⟨_, h⟩
    · exact .inl (.inr h)
    · exact .inl (.inl h)
  | ok r =>
    obtain ⟨argv, st1⟩ := r
    rw [ha] at ih
    have hst1 : st1.loc ∈ (Expr.call o args).locs := by
      simp only [Expr.locs, List.mem_cons]
      rcases ih with h | ⟨_, h⟩
      · exact .inr h
      · exact .inl h
    simp only [Res.ok_bind]
    cases hf : funcOf env path with
    | panic s => simp [EvalLoc]
    | err k l => exact absurd hf funcOf_not_err
    | ok f =>
      simp only [Res.ok_bind]
      cases hb : bindAndExec env st1 f this argv with
      | panic s => simp [EvalLoc]
      | err k l => rw [bindAndExec_err hb]; exact .inl hst1
      | ok r2 =>
        obtain ⟨v, st2⟩ := r2
        show st2.loc ∈ _ ∨ _
        rw [bindAndExec_ok_loc hb]; exact .inl hst1

mutual
theorem eval_locP (env : Env) : ∀ (e : Expr) (st : PState), EvalLoc st e (eval env st e)
  | .nil, st => by simp [eval, EvalLoc]
  | .lit loc v, st => by simp [eval, EvalLoc, Expr.locs]
  | .ref o, st => by
    simp only [eval]
    cases h : evalObjRef env { st with loc := o.loc } o with
    | panic s => simp [EvalLoc]
    | err k l => simp [EvalLoc, Expr.locs, evalObjRef_err h]
    | ok v => simp [EvalLoc, Expr.locs]
  | .call o args, st => by
    have ih := evalArgs_locP env args { st with loc := o.loc }
    simp only [eval]
    cases h : evalObjRef env { st with loc := o.loc } o with
    | panic s => simp [EvalLoc]
    | err k l => simp [EvalLoc, Expr.locs, evalObjRef_err h]
    | ok callee =>
      simp only [Res.ok_bind]
      split
      · exact call_tail_loc env st o args _ none ih
      · exact call_tail_loc env st o args _ (some _) ih
      · simp [EvalLoc, Expr.locs]
  | .slash a b, st => by
    have iha := eval_locP env a st
    simp only [eval]
    cases ha : eval env st a with
    | panic s => simp [EvalLoc]
    | err k l =>
      rw [ha] at iha
      simp only [Res.err_bind, EvalLoc, Expr.locs, Expr.startsNil, List.mem_append]
      rcases iha with h | h
      · exact .inl (.inl h)
      · exact .inr h
    | ok r =>
      obtain ⟨av, st1⟩ := r
      rw [ha] at iha
      simp only [Res.ok_bind]
      rcases iha with h1 | ⟨rfl, h1⟩
      · -- the left operand left the register at one of its own positions
        have hin : ∀ l, l ∈ a.locs ∨ l ∈ b.locs → EvalLoc st (.slash a b) (.err .type_ l) := by
          intro l hl
          simp only [EvalLoc, Expr.locs, List.mem_append]
          exact .inl hl
        split
        · exact hin _ (.inl h1)
        · have ihb := eval_locP env b st1
          cases hb : eval env st1 b with
          | panic s => simp [EvalLoc]
          | err k l =>
            rw [hb] at ihb
            simp only [Res.err_bind, EvalLoc, Expr.locs, List.mem_append]
            rcases ihb with h | ⟨_, h⟩
            · exact .inl (.inr h)
            · rw [h]; exact .inl (.inl h1)
          | ok r2 =>
            obtain ⟨bv, st2⟩ := r2
            rw [hb] at ihb
            have h2 : st2.loc ∈ a.locs ∨ st2.loc ∈ b.locs := by
              rcases ihb with h | ⟨_, h⟩
              · exact .inr h
              · rw [h]; exact .inl h1
            simp only [Res.ok_bind]
            split
            · exact hin _ h2
            · split
              · split
                · exact hin _ h2
                · simp only [EvalLoc, Expr.locs, List.mem_append]
                  exact .inl (.inl h1)
              · simp [EvalLoc]
      · -- the left operand is the empty expression: a type error at the incoming position
        simp only [eval, Res.ok.injEq, Prod.mk.injEq] at ha
        obtain ⟨rfl, rfl⟩ := ha
        simp [EvalLoc, Expr.startsNil, Val.valType]
theorem evalArgs_locP (env : Env) : ∀ (a : Args) (st : PState), ArgsLoc st a (evalArgs env st a)
  | .nil, st => by simp [evalArgs, ArgsLoc, Args.locs]
  | .cons n e rest, st => by
    have ihe := eval_locP env e st
    simp only [evalArgs]
    cases he : eval env st e with
    | panic s => simp [ArgsLoc]
    | err k l =>
      rw [he] at ihe
      simp only [Res.err_bind, ArgsLoc, Args.locs, List.mem_append]
      rcases ihe with h | ⟨h, h'⟩
      · exact .inl (.inl h)
      · refine .inr ⟨?_, h'⟩
        cases e with
        | nil => simp [eval] at he
        | lit _ _ => exact h
        | ref _ => exact h
        | call _ _ => exact h
        | slash _ _ => exact h
    | ok r =>
      obtain ⟨v, st1⟩ := r
      rw [he] at ihe
      have ihr := evalArgs_locP env rest st1
      simp only [Res.ok_bind]
      cases hr : evalArgs env st1 rest with
      | panic s => simp [ArgsLoc]
      | err k l =>
        rw [hr] at ihr
        simp only [Res.err_bind, ArgsLoc, Args.locs, List.mem_append]
        rcases ihr with h | ⟨h, h'⟩
        · exact .inl (.inr h)
        · rcases ihe with h1 | ⟨rfl, h1⟩
          · rw [h']; exact .inl (.inl h1)
          · exact .inr ⟨h, by rw [h', h1]⟩
      | ok r2 =>
        obtain ⟨vs, st2⟩ := r2
        rw [hr] at ihr
        simp only [Res.ok_bind, Res.pure_eq, ArgsLoc, Args.locs, List.mem_append, List.append_eq_nil_iff]
        rcases ihr with h | ⟨h, h'⟩
        · exact .inl (.inr h)
        · rcases ihe with h1 | ⟨rfl, h1⟩
          · rw [h']; exact .inl (.inl h1)
          · exact .inr ⟨⟨rfl, h⟩, by rw [h', h1]⟩
end

/-- the model's blind spot, exactly: an expression other than `nil` itself whose leftmost operand is the
empty expression always fails, with a type error at the position the register held BEFORE the
expression (the position of whatever was evaluated last) -/
theorem eval_startsNil (env : Env) : ∀ (e : Expr) (st : PState), e.startsNil = true → e ≠ .nil →
    eval env st e = .err .type_ st.loc
  | .nil, _, _, h => absurd rfl h
  | .lit _ _, _, h, _ => by simp [Expr.startsNil] at h
  | .ref _, _, h, _ => by simp [Expr.startsNil] at h
  | .call _ _, _, h, _ => by simp [Expr.startsNil] at h
  | .slash a b, st, h, _ => by
    simp only [Expr.startsNil] at h
    cases a with
    | nil => simp [eval, Val.valType]
    | lit _ _ => simp [Expr.startsNil] at h
    | ref _ => simp [Expr.startsNil] at h
    | call _ _ => simp [Expr.startsNil] at h
    | slash a1 a2 =>
      rw [eval, eval_startsNil env (.slash a1 a2) st h (by simp)]
      rfl

/-! ## after the evaluation: `updateTime`, `writeRecord` -/

theorem updateTime_err {st : PState} {ns : Nat} {k : ErrKind} {l : Loc} (h : updateTime st ns = .err k l) :
    l = st.loc := by
  unfold updateTime at h
  split at h <;> simp at h
  exact h.2.symm

theorem writeRecord_err {st : PState} {p : Packet} {k : ErrKind} {l : Loc} (h : writeRecord st p = .err k l) :
    l = st.loc := by
  unfold writeRecord at h
  split at h
  · simp at h
  · split at h
    split at h <;> simp at h
    exact h.2.symm

theorem writeRecords_err : ∀ (ps : List Packet) {st : PState} {k : ErrKind} {l : Loc},
    writeRecords st ps = .err k l → l = st.loc
  | [], st, k, l, h => by simp [writeRecords] at h
  | p :: ps, st, k, l, h => by
    simp only [writeRecords] at h
    rcases Res.bind_eq_err.1 h with h | ⟨st1, h1, h⟩
    · exact writeRecord_err h
    · obtain ⟨w, rfl⟩ := writeRecord_ok h1
      exact (writeRecords_err ps h :)

theorem foldl_updateTime_err : ∀ (ps : List Packet) {st : PState} {k : ErrKind} {l : Loc},
    ps.foldlM (fun st p => updateTime st p.bitTime) st = .err k l → l = st.loc
  | [], st, k, l, h => by simp at h
  | p :: ps, st, k, l, h => by
    simp only [List.foldlM_cons] at h
    rcases Res.bind_eq_err.1 h with h | ⟨st1, h1, h⟩
    · exact updateTime_err h
    · rw [updateTime_ok h1] at h
      exact (foldl_updateTime_err ps h :)

/-- the run-time errors after the evaluation of an expression statement (time overflow, write error)
are reported at the position register -/
theorem emitVal_err {st : PState} {v : Val} {k : ErrKind} {l : Loc} (h : emitVal st v = .err k l) :
    l = st.loc := by
  unfold emitVal at h
  split at h
  · simp at h
  · rcases Res.bind_eq_err.1 h with h | ⟨st1, h1, h⟩
    · exact updateTime_err h
    · rw [updateTime_ok h1] at h; exact (writeRecord_err h :)
  · rcases Res.bind_eq_err.1 h with h | ⟨st1, h1, h⟩
    · exact foldl_updateTime_err _ h
    · rw [foldl_updateTime_ok _ h1] at h; exact (writeRecords_err _ h :)
  · exact updateTime_err h
  · simp at h

theorem emitVal_nil (st : PState) : emitVal st .nil = .ok st := rfl

/-! ## statements -/

/-- every error of a statement is at one of its positions, or - only for an expression statement that
`startsNil` - at the position the register held before the statement -/
theorem addStmt_err_loc_all (env : Env) (st : PState) (s : Stmt) (k : ErrKind) (l : Loc)
    (h : addStmt env st s = .err k l) : l ∈ s.locs ∨ (s.startsNil = true ∧ l = st.loc) := by
  cases s with
  | imp loc m =>
    left
    simp only [addStmt] at h
    split at h
    · simp at h
    · split at h <;> simp at h
      simp [Stmt.locs, h.2]
  | assign loc t e =>
    left
    simp only [addStmt] at h
    split at h
    · simp only [Res.err.injEq] at h
      simp [Stmt.locs, ← h.2]
    · rcases Res.bind_eq_err.1 h with h | ⟨r, _, h⟩
      · have := eval_locP env e { st with loc := loc }
        rw [h] at this
        simp only [Stmt.locs, List.mem_cons]
        rcases this with h1 | ⟨_, h1⟩
        · exact .inr h1
        · exact .inl h1
      · simp at h
  | expr e =>
    rw [addStmt_expr] at h
    have he := eval_locP env e st
    rcases Res.bind_eq_err.1 h with h | ⟨⟨v, st1⟩, h1, h⟩
    · rw [h] at he; exact he
    · rw [h1] at he
      rcases he with h2 | ⟨rfl, _⟩
      · rw [emitVal_err h]; exact .inl h2
      · simp only [eval, Res.ok.injEq, Prod.mk.injEq] at h1
        obtain ⟨rfl, rfl⟩ := h1
        simp [emitVal_nil] at h

/-- the first failing statement of a list -/
theorem addStmts_err_split (env : Env) : ∀ (ss : List Stmt) (st : PState) (k : ErrKind) (l : Loc),
    addStmts env st ss = .err k l →
    ∃ pre s post st1, ss = pre ++ s :: post ∧ addStmts env st pre = .ok st1 ∧ addStmt env st1 s = .err k l
  | [], st, k, l, h => by simp [addStmts] at h
  | s :: ss, st, k, l, h => by
    simp only [addStmts] at h
    rcases Res.bind_eq_err.1 h with h | ⟨st1, h1, h⟩
    · exact ⟨[], s, ss, st, rfl, rfl, h⟩
    · obtain ⟨pre, s', post, st2, rfl, hp, hs⟩ := addStmts_err_split env ss st1 k l h
      exact ⟨s :: pre, s', post, st2, rfl, by simp [addStmts, h1, hp], hs⟩

end Resynth
