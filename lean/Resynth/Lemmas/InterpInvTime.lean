import Resynth.Lemmas.InterpInvStmt
/-!
# Lemmas: the clock (`now`) and the timestamps of emitted records
-/
namespace Resynth

theorem bitTime_pos (p : Packet) : 0 < p.bitTime := by
  simp only [Packet.bitTime]; omega

theorem gapOf_pos_of_frames {v : Val} (h : framesOf v ≠ []) : 0 < gapOf v := by
  cases v <;> simp only [framesOf, ne_eq, not_true_eq_false] at h
  · exact bitTime_pos _
  · rename_i ps
    cases ps with
    | nil => simp at h
    | cons p ps =>
      simp only [gapOf, List.map_cons, List.sum_cons]
      have := bitTime_pos p
      omega

/-- the effect of a statement, with the fact that emitting anything advances the clock -/
theorem addStmt_effect_pos {env : Env} {st st' : PState} {s : Stmt} (h : addStmt env st s = .ok st') :
    ∃ g fs, st'.now = st.now + g ∧ st'.emitted = st.emitted ++ fs.map (fun f => (st.now + g, f)) ∧
      (fs ≠ [] → 0 < g) := by
  cases s with
  | imp loc m =>
    obtain ⟨h1, h2, _⟩ := addStmt_imp_ok h
    exact ⟨0, [], by simp [h1], by simp [h2], by simp⟩
  | assign loc t e =>
    obtain ⟨v, st1, h1, h2, _⟩ := addStmt_assign_ok h
    obtain ⟨e1, _, _, _, _, e6⟩ := eval_onlyLH env e _ _ h1
    simp only at e1 e6
    subst h2
    exact ⟨0, [], by simp [e1], by simp [e6], by simp⟩
  | expr e =>
    obtain ⟨v, st1, _, h1, h2, _⟩ := addStmt_expr_ok h
    exact ⟨gapOf v, framesOf v, h1, h2, gapOf_pos_of_frames⟩

/-- timestamps are sorted and none is later than the clock -/
def TInv (st : PState) : Prop :=
  st.emitted.Pairwise (fun a b => a.1 ≤ b.1) ∧ ∀ e ∈ st.emitted, e.1 ≤ st.now

theorem TInv.addStmt {env : Env} {st st' : PState} {s : Stmt} (hi : TInv st)
    (h : addStmt env st s = .ok st') : TInv st' := by
  obtain ⟨g, fs, h1, h2, _⟩ := addStmt_effect_pos h
  obtain ⟨i1, i2⟩ := hi
  rw [TInv, h1, h2]
  refine ⟨?_, ?_⟩
  · rw [List.pairwise_append]
    refine ⟨i1, ?_, ?_⟩
    · rw [List.pairwise_map]
      exact List.Pairwise.imp (fun _ => Nat.le_refl _) (List.pairwise_of_forall (R := fun _ _ => True) (fun _ _ => trivial))
    · intro a ha b hb
      simp only [List.mem_map] at hb
      obtain ⟨f, _, rfl⟩ := hb
      have := i2 a ha
      simp only; omega
  · intro e he
    rw [List.mem_append] at he
    rcases he with he | he
    · have := i2 e he; omega
    · simp only [List.mem_map] at he
      obtain ⟨f, _, rfl⟩ := he
      exact Nat.le_refl _

theorem TInv.addStmts {env : Env} {st st' : PState} {ss : List Stmt} (hi : TInv st)
    (h : addStmts env st ss = .ok st') : TInv st' :=
  addStmts_induct TInv (fun _ _ _ hp hs => hp.addStmt hs) ss st st' hi h

theorem addStmt_now_le {env : Env} {st st' : PState} {s : Stmt} (h : addStmt env st s = .ok st') :
    st.now ≤ st'.now := by
  obtain ⟨g, fs, h1, _⟩ := addStmt_effect_pos h
  omega

theorem addStmts_now_le {env : Env} {st st' : PState} {ss : List Stmt} (h : addStmts env st ss = .ok st') :
    st.now ≤ st'.now :=
  addStmts_induct (fun s => st.now ≤ s.now) (fun _ _ _ hp hs => Nat.le_trans hp (addStmt_now_le hs))
    ss st st' (Nat.le_refl _) h

/-! ## shifting the clock -/

/-- add `d` to every timestamp -/
def shiftBy (d : Nat) (x : List (Nat × Bytes)) : List (Nat × Bytes) := x.map (fun e => (e.1 + d, e.2))

/-- `t` is `s` with the clock `d` later, where the records emitted after the common prefix `pre`
carry timestamps `d` later; `loc`, `wr`, `warnings` are not compared -/
structure Shifted (d : Nat) (pre : List (Nat × Bytes)) (s t : PState) : Prop where
  regs : t.regs = s.regs
  imports : t.imports = s.imports
  heap : t.heap = s.heap
  now : t.now = s.now + d
  em : ∃ x, s.emitted = pre ++ x ∧ t.emitted = pre ++ shiftBy d x

theorem Shifted.withLoc {d pre s t} (h : Shifted d pre s t) (l : Loc) :
    Shifted d pre { s with loc := l } { t with loc := l } :=
  ⟨h.regs, h.imports, h.heap, h.now, h.em⟩

/-- `eval` from the shifted state returns the same value and heap -/
theorem eval_shifted {env : Env} {d pre} {s t : PState} (h : Shifted d pre s t) {e : Expr} {v : Val} {s' : PState}
    (he : eval env s e = .ok (v, s')) :
    ∃ t', eval env t e = .ok (v, t') ∧ t'.heap = s'.heap := by
  obtain ⟨l', hl⟩ := eval_loc_indep env e s (v, s') t.loc he
  have ht : t = ({ s with loc := t.loc } : PState).setOut t.now t.wr t.emitted t.warnings := by
    obtain ⟨h1, h2, h3, _, _⟩ := h
    cases t; cases s
    simp only [PState.setOut] at h1 h2 h3 ⊢
    subst h1; subst h2; subst h3; rfl
  rw [ht, eval_frame, hl]
  exact ⟨_, rfl, rfl⟩

theorem addStmt_imp_imports {env : Env} {st st' : PState} {loc : Loc} {m : String}
    (h : addStmt env st (.imp loc m) = .ok st') :
    st'.imports = if st.imports.contains m = true then st.imports else st.imports ++ [m] := by
  have h' : (if st.imports.contains m = true then Res.ok ({ st with loc := loc } : PState)
       else match env.lib.get m with
        | some .module => .ok { st with loc := loc, imports := st.imports ++ [m] }
        | none => .err (.import_ m) loc
        | some _ => .panic "toplevel_module: unreachable") = .ok st' := h
  by_cases hc : st.imports.contains m = true
  · rw [if_pos hc] at h' ⊢; cases h'; rfl
  · rw [if_neg hc] at h' ⊢
    split at h'
    · cases h'; rfl
    · cases h'
    · cases h'

theorem addStmt_shifted {env : Env} {d pre} {s t s' t' : PState} {st : Stmt} (h : Shifted d pre s t)
    (hs : addStmt env s st = .ok s') (ht : addStmt env t st = .ok t') : Shifted d pre s' t' := by
  obtain ⟨x, hx1, hx2⟩ := h.em
  cases st with
  | imp loc m =>
    obtain ⟨a1, a2, _, a4, a5, _⟩ := addStmt_imp_ok hs
    obtain ⟨b1, b2, _, b4, b5, _⟩ := addStmt_imp_ok ht
    refine ⟨by rw [a4, b4, h.regs], ?_, by rw [a5, b5, h.heap], by rw [a1, b1, h.now], x, by rw [a2, hx1], by rw [b2, hx2]⟩
    rw [addStmt_imp_imports hs, addStmt_imp_imports ht, h.imports]
  | assign loc tg e =>
    obtain ⟨v, s1, a1, a2, _⟩ := addStmt_assign_ok hs
    obtain ⟨v2, t1, b1, b2, _⟩ := addStmt_assign_ok ht
    obtain ⟨t1', c1, c2⟩ := eval_shifted (h.withLoc loc) a1
    rw [b1] at c1
    cases c1
    obtain ⟨p1, p2, p3, _, _, p6⟩ := eval_onlyLH env e _ _ a1
    obtain ⟨q1, q2, q3, _, _, q6⟩ := eval_onlyLH env e _ _ b1
    simp only at p1 p2 p3 p6 q1 q2 q3 q6
    subst a2; subst b2
    exact ⟨by simp [p2, q2, h.regs], by simp [p3, q3, h.imports], by simpa using c2,
      by simp [p1, q1, h.now], x, by simp [p6, hx1], by simp [q6, hx2]⟩
  | expr e =>
    obtain ⟨v, s1, a1, a2, a3, _, a5, a6, a7⟩ := addStmt_expr_ok hs
    obtain ⟨v2, t1, b1, b2, b3, _, b5, b6, b7⟩ := addStmt_expr_ok ht
    obtain ⟨t1', c1, c2⟩ := eval_shifted h a1
    rw [b1] at c1
    cases c1
    refine ⟨by rw [a5, b5, h.regs], by rw [a6, b6, h.imports], by rw [a7, b7, c2],
      by rw [a2, b2, h.now]; omega, x ++ (framesOf v).map (fun f => (s.now + gapOf v, f)), ?_, ?_⟩
    · rw [a3, hx1, List.append_assoc]
    · rw [b3, hx2, h.now, List.append_assoc]
      simp only [shiftBy, List.map_append, List.map_map, Function.comp_def]
      congr 2
      apply List.map_congr_left
      intro f _
      simp only [Prod.mk.injEq, and_true]; omega

theorem addStmts_shifted {env : Env} {d pre} (ss : List Stmt) : ∀ {s t s' t' : PState}, Shifted d pre s t →
    addStmts env s ss = .ok s' → addStmts env t ss = .ok t' → Shifted d pre s' t' := by
  induction ss with
  | nil =>
    intro s t s' t' h hs ht
    simp only [addStmts] at hs ht; cases hs; cases ht; exact h
  | cons st ss ih =>
    intro s t s' t' h hs ht
    simp only [addStmts] at hs ht
    cases h1 : addStmt env s st with
    | err e l => simp [h1] at hs
    | panic x => simp [h1] at hs
    | ok s1 =>
      cases h2 : addStmt env t st with
      | err e l => simp [h2] at ht
      | panic x => simp [h2] at ht
      | ok t1 =>
        simp only [h1, h2, Res.bind_ok_eq] at hs ht
        exact ih (addStmt_shifted h h1 h2) hs ht

/-! ## the four `time::jump_*` library functions

The bodies are restated verbatim so that `rfl` only has to select the arm of `exec`. -/

def secondsBody (v : Val) (h : Heap) : Res (Val × Heap) := do
  pure (.timejump ((← Res.ofOpt "args.next()/conversion" v.toU32?) * 1000000000), h)
def millisBody (v : Val) (h : Heap) : Res (Val × Heap) := do
  let n := (← Res.ofOpt "args.next()/conversion" v.toU64?) * 1000000
  if n < 18446744073709551616 then pure (.timejump n, h) else .err .runtime Loc.nil
def microsBody (v : Val) (h : Heap) : Res (Val × Heap) := do
  let n := (← Res.ofOpt "args.next()/conversion" v.toU64?) * 1000
  if n < 18446744073709551616 then pure (.timejump n, h) else .err .runtime Loc.nil
def nanosBody (v : Val) (h : Heap) : Res (Val × Heap) := do
  pure (.timejump (← Res.ofOpt "args.next()/conversion" v.toU64?), h)

theorem exec_seconds_body (fs : Fs) (this : Option Nat) (v : Val) (x : List Val) (h : Heap) :
    exec fs "time::jump_seconds" this ⟨[v], x⟩ h = secondsBody v h := rfl
theorem exec_millis_body (fs : Fs) (this : Option Nat) (v : Val) (x : List Val) (h : Heap) :
    exec fs "time::jump_millis" this ⟨[v], x⟩ h = millisBody v h := rfl
theorem exec_micros_body (fs : Fs) (this : Option Nat) (v : Val) (x : List Val) (h : Heap) :
    exec fs "time::jump_micros" this ⟨[v], x⟩ h = microsBody v h := rfl
theorem exec_nanos_body (fs : Fs) (this : Option Nat) (v : Val) (x : List Val) (h : Heap) :
    exec fs "time::jump_nanos" this ⟨[v], x⟩ h = nanosBody v h := rfl

theorem exec_jump_seconds (fs : Fs) (this : Option Nat) (v : Val) (x : List Val) (h : Heap) (n : Nat)
    (hv : v.toNat? = some n) :
    exec fs "time::jump_seconds" this ⟨[v], x⟩ h = .ok (.timejump (n % 4294967296 * 1000000000), h) := by
  rw [exec_seconds_body]
  simp only [secondsBody, Val.toU32?, hv, Option.map_some, Res.ofOpt, Res.bind_ok_eq, Res.pure_eq_ok]

theorem exec_jump_millis (fs : Fs) (this : Option Nat) (v : Val) (x : List Val) (h : Heap) (n : Nat)
    (hv : v.toNat? = some n) :
    exec fs "time::jump_millis" this ⟨[v], x⟩ h =
      if n * 1000000 < 18446744073709551616 then .ok (.timejump (n * 1000000), h) else .err .runtime Loc.nil := by
  rw [exec_millis_body]
  simp only [millisBody, Val.toU64?, hv, Res.ofOpt, Res.bind_ok_eq, Res.pure_eq_ok]

theorem exec_jump_micros (fs : Fs) (this : Option Nat) (v : Val) (x : List Val) (h : Heap) (n : Nat)
    (hv : v.toNat? = some n) :
    exec fs "time::jump_micros" this ⟨[v], x⟩ h =
      if n * 1000 < 18446744073709551616 then .ok (.timejump (n * 1000), h) else .err .runtime Loc.nil := by
  rw [exec_micros_body]
  simp only [microsBody, Val.toU64?, hv, Res.ofOpt, Res.bind_ok_eq, Res.pure_eq_ok]

theorem exec_jump_nanos (fs : Fs) (this : Option Nat) (v : Val) (x : List Val) (h : Heap) (n : Nat)
    (hv : v.toNat? = some n) :
    exec fs "time::jump_nanos" this ⟨[v], x⟩ h = .ok (.timejump n, h) := by
  rw [exec_nanos_body]
  simp only [nanosBody, Val.toU64?, hv, Res.ofOpt, Res.bind_ok_eq, Res.pure_eq_ok]

/-! ## a call `time::jump_X(n)` with a literal argument, in any environment that has the function -/

/-- `time::<fn>(<n>)` as the parser builds it -/
def jumpCall (loc argLoc : Loc) (fn : String) (n : Nat) : Expr :=
  .call ⟨loc, ["time"], [fn]⟩ (.cons none (.lit argLoc (.u64 n)) .nil)

/-- the signature all four functions share up to names and the `u32`/`u64` parameter type -/
def jumpDef (fn arg : String) (ty : ValType) : FuncDef :=
  ⟨"time::" ++ fn, fn, .timejump, [⟨arg, .positional ty⟩], .void⟩

theorem argvec_jumpDef (fn arg : String) (ty : ValType) (hty : ty.isIntegral = true) (n : Nat) :
    Bind.argvec (jumpDef fn arg ty) [⟨none, .u64 n⟩] = .ok ⟨[.u64 n], []⟩ := by
  cases ty <;> first | rfl | (simp [ValType.isIntegral] at hty)

theorem evalObjRef_time (env : Env) (st : PState) (loc : Loc) (fn : String) (f : FuncDef)
    (himp : st.imports.contains "time" = true)
    (hlib : env.lib.get ("time::" ++ fn) = some (.func f)) :
    evalObjRef env st ⟨loc, ["time"], [fn]⟩ = .ok (.func f.path) := by
  have himp' : "time" ∈ st.imports := by simpa using himp
  simp [evalObjRef, evalExternRef, himp', hlib]

theorem eval_call_one_lit (env : Env) (st : PState) (o : ObjRef) (argLoc : Loc) (lit : Lit) (path : String)
    (f : FuncDef) (r : Val × PState)
    (h1 : evalObjRef env { st with loc := o.loc } o = .ok (.func path))
    (h2 : funcOf env path = .ok f)
    (h3 : bindAndExec env { st with loc := argLoc } f none [⟨none, Val.ofLit lit⟩] = .ok r) :
    eval env st (.call o (.cons none (.lit argLoc lit) .nil)) = .ok r := by
  simp only [eval, h1, Res.bind_ok_eq, evalArgs, Res.pure_eq_ok, h2]
  exact h3

theorem bindAndExec_ok_of (env : Env) (st : PState) (f : FuncDef) (this : Option Nat) (args : List ArgSpec)
    (av : ArgVec) (v : Val) (hp : Heap) (h1 : Bind.argvec f args = .ok av)
    (h2 : exec env.fs f.path this av st.heap = .ok (v, hp)) (h3 : v.valType = f.returnType) :
    bindAndExec env st f this args = .ok (v, { st with heap := hp }) := by
  simp [bindAndExec, h1, h2, h3]

theorem eval_jumpCall (env : Env) (st : PState) (loc argLoc : Loc) (fn arg : String) (ty : ValType)
    (hty : ty.isIntegral = true) (n d : Nat)
    (himp : st.imports.contains "time" = true)
    (hlib' : env.lib.get ("time::" ++ fn) = some (.func (jumpDef fn arg ty)))
    (hex : exec env.fs ("time::" ++ fn) none ⟨[.u64 n], []⟩ st.heap = .ok (.timejump d, st.heap)) :
    eval env st (jumpCall loc argLoc fn n) = .ok (.timejump d, { st with loc := argLoc }) := by
  unfold jumpCall
  refine eval_call_one_lit env st _ argLoc (.u64 n) ("time::" ++ fn) (jumpDef fn arg ty) _
    (evalObjRef_time env { st with loc := loc } loc fn _ himp hlib') (by simp [funcOf, hlib']) ?_
  exact bindAndExec_ok_of env _ _ none _ _ _ _ (argvec_jumpDef fn arg ty hty n) hex rfl

end Resynth
