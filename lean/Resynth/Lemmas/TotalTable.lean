import Resynth.Props.C08
import Resynth.Lemmas.TotalTableSplits
import Resynth.Lemmas.TotalLex
/-!
# Whole-file totality (C08): facts about the generated library table

* `plain_is_module`: a key without `.` and `:` is a module (`toplevel_module`'s `unreachable!()`).
* `free_function_covered`: a function entry whose key contains no `.` is a covered free function.
* `method_covered`: a function entry keyed `cls.m`, `cls` the class of a heap object, is a covered
  method of exactly that class.
-/
namespace Resynth.C08

theorem lib_get_mem {k : String} {sym : Sym} (h : Gen.lib.get k = some sym) : (k, sym) ∈ Gen.table := by
  unfold Lib.get at h
  cases hfind : Gen.lib.table.find? (fun e => e.1 == k) with
  | none => simp [hfind] at h
  | some e =>
    rw [hfind] at h
    simp only [Option.map_some, Option.some.injEq] at h
    have hmem : e ∈ Gen.table := List.mem_of_find?_eq_some hfind
    have hkey : e.1 = k := by simpa using List.find?_some hfind
    obtain ⟨k', s'⟩ := e
    simp only at h hkey
    subst h hkey
    exact hmem

theorem sep_toList : "::".toList = [':', ':'] := by decide
theorem dot_toList : ".".toList = ['.'] := by decide

theorem not_plain_of_split (a b : String) : ¬ Plain (a ++ "::" ++ b) := by
  intro h
  have := h ':' (by simp [String.toList_append, sep_toList])
  exact this.2 rfl

/-- every key of the table that is a plain name is a module -/
theorem plain_is_module {k : String} {sym : Sym} (h : Gen.lib.get k = some sym) (hp : Plain k) :
    sym = .module := by
  have hmem := lib_get_mem h
  cases sym with
  | module => rfl
  | cls =>
    have : k ∈ nonModuleKeys := List.mem_filterMap.mpr ⟨_, hmem, rfl⟩
    rw [nonModuleKeys_split] at this
    obtain ⟨p, _, rfl⟩ := List.mem_map.mp this
    exact absurd hp (not_plain_of_split _ _)
  | func f =>
    have : k ∈ nonModuleKeys := List.mem_filterMap.mpr ⟨_, hmem, rfl⟩
    rw [nonModuleKeys_split] at this
    obtain ⟨p, _, rfl⟩ := List.mem_map.mp this
    exact absurd hp (not_plain_of_split _ _)
  | val d =>
    have : k ∈ nonModuleKeys := List.mem_filterMap.mpr ⟨_, hmem, rfl⟩
    rw [nonModuleKeys_split] at this
    obtain ⟨p, _, rfl⟩ := List.mem_map.mp this
    exact absurd hp (not_plain_of_split _ _)

/-- no `.` in the string -/
def NoDot (s : String) : Prop := '.' ∉ s.toList

theorem Plain.noDot {s : String} (h : Plain s) : NoDot s := fun hm => (h '.' hm).1 rfl

theorem NoDot_append {a b : String} (ha : NoDot a) (hb : NoDot b) : NoDot (a ++ b) := by
  unfold NoDot at *
  simp [String.toList_append, ha, hb]

theorem NoDot_sep : NoDot "::" := by unfold NoDot; rw [sep_toList]; decide

theorem classOk_of_covered {e : Option String × FuncDef} (he : e ∈ covered) : classOk e = true :=
  List.all_eq_true.mp covered_classes e he

/-- a function of the table whose key contains no `.` is a (covered) free function -/
theorem free_function_covered {k : String} {f : FuncDef} (h : Gen.lib.get k = some (.func f)) (hk : NoDot k) :
    (none, f) ∈ covered ∧ f.path = k := by
  obtain ⟨c, hc, hp⟩ := library_function_covered k f h
  refine ⟨?_, hp⟩
  cases c with
  | none => exact hc
  | some c =>
    exfalso
    have hok := classOk_of_covered hc
    simp only [classOk, Bool.and_eq_true, beq_iff_eq] at hok
    rw [hp] at hok
    apply hk
    rw [hok.1]
    simp [String.toList_append, dot_toList]

theorem tableClasses_noDot : ∀ c ∈ tableClasses, NoDot c := by
  have h : tableClasses.all (fun c => !c.toList.contains '.') = true := by decide +kernel
  intro c hc
  have := List.all_eq_true.mp h c hc
  simpa [NoDot] using this

theorem Obj.cls_mem (o : Obj) : o.cls ∈ tableClasses := by
  cases o <;> (simp only [Obj.cls]; decide +kernel)

theorem split_unique : ∀ {l1 l2 r1 r2 : List Char}, '.' ∉ l1 → '.' ∉ l2 →
    l1 ++ '.' :: r1 = l2 ++ '.' :: r2 → l1 = l2
  | [], [], _, _, _, _, _ => rfl
  | [], b :: l2, _, _, _, h2, h => by
    simp only [List.nil_append, List.cons_append, List.cons.injEq] at h
    exact absurd (by simp [← h.1]) h2
  | a :: l1, [], _, _, h1, _, h => by
    simp only [List.nil_append, List.cons_append, List.cons.injEq] at h
    exact absurd (by simp [h.1]) h1
  | a :: l1, b :: l2, _, _, h1, h2, h => by
    simp only [List.cons_append, List.cons.injEq] at h
    simp only [List.mem_cons, not_or] at h1 h2
    rw [h.1, split_unique h1.2 h2.2 h.2]

/-- a function of the table keyed `cls.m`, with `cls` the class of a heap object, is a covered method of
exactly that class -/
theorem method_covered {cls m : String} {f : FuncDef} (o : Obj) (ho : o.cls = cls)
    (h : Gen.lib.get (cls ++ "." ++ m) = some (.func f)) :
    (some cls, f) ∈ covered ∧ f.path = cls ++ "." ++ m := by
  obtain ⟨c, hc, hp⟩ := library_function_covered _ f h
  refine ⟨?_, hp⟩
  have hok := classOk_of_covered hc
  cases c with
  | none =>
    exfalso
    simp only [classOk, Bool.not_eq_eq_eq_not, Bool.not_true, List.contains_eq_mem,
      decide_eq_false_iff_not] at hok
    apply hok
    rw [hp]
    simp [String.toList_append, dot_toList]
  | some c =>
    simp only [classOk, Bool.and_eq_true, beq_iff_eq, List.contains_eq_mem, decide_eq_true_eq] at hok
    obtain ⟨hpath, hcmem⟩ := hok
    have hcls : NoDot cls := by rw [← ho]; exact tableClasses_noDot _ (Obj.cls_mem o)
    have hc' : NoDot c := tableClasses_noDot _ hcmem
    have heq : (c ++ "." ++ f.name).toList = (cls ++ "." ++ m).toList := by rw [← hpath, hp]
    simp only [String.toList_append, dot_toList, List.append_assoc, List.singleton_append] at heq
    have := split_unique hc' hcls heq
    rw [String.toList_inj] at this
    subst this
    exact hc

end Resynth.C08
