import Resynth.Lemmas.ErrLocFile
import Resynth.Props.C10
/-!
# Columns of reported positions

Every position the front end (decoder, lexer, parser) or the interpreter reports is a `line:column`
inside the file: the line is one of the lines `BufRead::lines` delivers, the column is a 1-based byte
column of that line - the column of one of its bytes, or (only for the parser's complaint about the end
of the input) one past its last byte.

* `AtByte lines l`: `l` points AT A BYTE of a line of the file.
* `AtEnd lines l`: `l` is one column past the last byte of the LAST line of the file.
-/
namespace Resynth
open LR Spec LexLemmas

/-- `l` is the position of a byte of line `i + 1` of the file: `1 ≤ col ≤ length of that line` -/
def AtByte (lines : List Bytes) (l : Loc) : Prop :=
  ∃ (i : Nat) (raw : Bytes), lines[i]? = some raw ∧ l.line = i + 1 ∧ 1 ≤ l.col ∧ l.col ≤ raw.length

/-- `l` is the end of the input: one column past the last byte of the last line -/
def AtEnd (lines : List Bytes) (l : Loc) : Prop :=
  ∃ raw : Bytes, lines.getLast? = some raw ∧ l = ⟨lines.length, raw.length + 1⟩

/-- a line that decodes has as many bytes as the string it decodes to -/
theorem utf8Decode_length (raw : Bytes) (ln : String) (h : utf8Decode raw = some ln) :
    ln.utf8ByteSize = raw.length := by
  unfold utf8Decode String.fromUTF8? at h
  split at h
  · cases h
    simp [String.utf8ByteSize, String.fromUTF8, ByteArray.size]
  · cases h

/-! ## tokens of one line -/

/-- a non-string token of a line is located at the first byte of its (non-empty) lexeme -/
theorem line_nonstr_col (lno : Nat) (pending : Option String) (ln : String) (lo : Lex.LineOut)
    (h : Lex.line lno pending ln = .ok lo) (t : Tok) (ht : t ∈ lo.toks) (hk : t.kind ≠ .strLit) :
    t.loc.line = lno ∧ 1 ≤ t.loc.col ∧ t.loc.col ≤ ln.utf8ByteSize := by
  obtain ⟨hl, pre, lexeme, post, r, h1, h2, _, _, h5⟩ := C10.columns lno pending ln lo h t ht hk
  have hs : Lex.scanOne (lexeme ++ post) = some (clsOf r, lexeme.length) := by
    rw [C10.scanOne_eq_spec, h2]; rfl
  have hpos := (C10.scanOne_progress _ _ _ hs).1
  have hne : lexeme ≠ [] := by
    intro e; rw [e] at hpos; exact absurd hpos (by decide)
  have hb := byteLen_pos hne
  have hlen : byteLen ln.toList = byteLen pre + (byteLen lexeme + byteLen post) := by
    rw [h1, byteLen_append, byteLen_append]
  rw [byteLen_toList] at hlen
  have : (String.ofList pre).utf8ByteSize = byteLen pre := rfl
  refine ⟨hl, ?_, ?_⟩ <;> omega

/-- **every token the lexer delivers for a line is located at a byte of that line**: on line `lno`, at
a column between 1 and the byte length of the line.  (A string token is delivered together with the
next non-string token of the line, at that token's position; a string literal that is not followed by
another token on its line is not delivered for this line at all - it is carried to the next line.) -/
theorem line_tok_col (lno : Nat) (pending : Option String) (ln : String) (lo : Lex.LineOut)
    (h : Lex.line lno pending ln = .ok lo) (t : Tok) (ht : t ∈ lo.toks) :
    t.loc.line = lno ∧ 1 ≤ t.loc.col ∧ t.loc.col ≤ ln.utf8ByteSize := by
  by_cases hk : t.kind = .strLit
  · obtain ⟨a, b, hab⟩ := List.append_of_mem ht
    obtain ⟨t', b', rfl, hk', hloc⟩ := C10.string_token_position lno pending ln lo h a t b hab hk
    have ht' : t' ∈ lo.toks := by rw [hab]; simp
    rw [← hloc]
    exact line_nonstr_col lno pending ln lo h t' ht' hk'
  · exact line_nonstr_col lno pending ln lo h t ht hk

/-- the error column of a line that does not lex is the column of a byte of that line -/
theorem line_err_col (lno : Nat) (pending : Option String) (ln : String) (c : Nat)
    (h : Lex.line lno pending ln = .error c) : 1 ≤ c ∧ c ≤ ln.utf8ByteSize := by
  rcases C10.lex_total lno pending ln with ⟨out, ho⟩ | ⟨c', hc, h1, h2⟩
  · rw [ho] at h; cases h
  · rw [hc] at h; cases h; exact ⟨h1, h2⟩

/-- where the lexer stands after a line: one column past its last byte -/
theorem line_endCol (lno : Nat) (pending : Option String) (ln : String) (lo : Lex.LineOut)
    (h : Lex.line lno pending ln = .ok lo) : lo.endCol = ln.utf8ByteSize + 1 :=
  ((C10.scan_ok_iff lno pending ln lo).1 h).2

/-! ## the parser complains about the token it is fed -/

theorem feedToks_error_mem : ∀ (ts : List Tok) (c : Cfg) (l : Loc),
    feedToks c ts = .error (some l) → ∃ t ∈ ts, t.loc = l
  | [], c, l, h => by simp [feedToks] at h
  | t :: ts, c, l, h => by
    simp only [feedToks] at h
    cases hf : feed c t with
    | ok c1 =>
      simp only [hf] at h
      obtain ⟨t', ht', e⟩ := feedToks_error_mem ts c1 l h
      exact ⟨t', by simp [ht'], e⟩
    | parseError =>
      simp only [hf, Except.error.injEq, Option.some.injEq] at h
      exact ⟨t, by simp, h⟩
    | panic => simp [hf] at h

/-! ## token positions -/

/-- **a token position is the position of a byte of a line of the file** -/
theorem tokenPos_atByte (lines : List Bytes) (l : Loc) (h : TokenPos lines l) : AtByte lines l := by
  obtain ⟨i, raw, ln, pending, lo, t, hi, hd, hl, ht, rfl⟩ := h
  obtain ⟨h1, h2, h3⟩ := line_tok_col _ _ _ _ hl t ht
  rw [utf8Decode_length raw ln hd] at h3
  exact ⟨i, raw, hi, h1, h2, h3⟩

theorem atByte_line {lines : List Bytes} {l : Loc} (h : AtByte lines l) :
    1 ≤ l.line ∧ l.line ≤ lines.length := by
  obtain ⟨i, raw, hi, hl, _, _⟩ := h
  have : i < lines.length := by
    rcases Nat.lt_or_ge i lines.length with h | h
    · exact h
    · rw [List.getElem?_eq_none h] at hi; cases hi
  omega

theorem atEnd_line {lines : List Bytes} {l : Loc} (h : AtEnd lines l) :
    1 ≤ l.line ∧ l.line = lines.length ∧ lines[l.line - 1]? = lines.getLast? := by
  obtain ⟨raw, hr, rfl⟩ := h
  cases lines with
  | nil => cases hr
  | cons a as =>
    refine ⟨by simp, rfl, ?_⟩
    rw [List.getLast?_eq_getElem?]

/-- either way the position is inside the file: on line `i + 1`, at a column from 1 to one past the
length of that line -/
theorem inFile_of_atByte_or_atEnd {lines : List Bytes} {l : Loc} (h : AtByte lines l ∨ AtEnd lines l) :
    ∃ (i : Nat) (raw : Bytes), lines[i]? = some raw ∧ l.line = i + 1 ∧ 1 ≤ l.col ∧ l.col ≤ raw.length + 1 := by
  rcases h with ⟨i, raw, hi, hl, h1, h2⟩ | h
  · exact ⟨i, raw, hi, hl, h1, by omega⟩
  · obtain ⟨h1, h2, h3⟩ := atEnd_line h
    obtain ⟨raw, hr, rfl⟩ := h
    exact ⟨lines.length - 1, raw, by rw [← hr, ← h3], by simp only at h1 ⊢; omega, by simp, by simp⟩

/-! ## the front end -/

/-- a front-end failure inside the line loop: the decoder reports no position; the lexer and the parser
report the position of a byte of the offending line -/
theorem planLines_error_pos : ∀ (lines : List Bytes) (f : Front) (lno : Nat) (cls detail : String) (loc : Loc),
    (planLines f lno lines).2 = .error (.failure cls detail loc) →
    (cls = "Io" ∧ detail = "" ∧ loc = Loc.nil) ∨
    ((cls = "Lex" ∨ cls = "Parse") ∧ detail = "" ∧
      ∃ (j : Nat) (raw : Bytes), lines[j]? = some raw ∧ loc.line = lno + j ∧ 1 ≤ loc.col ∧ loc.col ≤ raw.length)
  | [], f, lno, cls, detail, loc, h => by simp [planLines] at h
  | raw :: rest, f, lno, cls, detail, loc, h => by
    simp only [planLines] at h
    cases h1 : utf8Decode raw with
    | none =>
      simp only [h1, Except.error.injEq, Outcome.failure.injEq] at h
      exact .inl ⟨h.1.symm, h.2.1.symm, h.2.2.symm⟩
    | some ln =>
      simp only [h1] at h
      have hlen := utf8Decode_length raw ln h1
      cases h2 : Lex.line lno f.pending ln with
      | error col =>
        simp only [h2, Except.error.injEq, Outcome.failure.injEq] at h
        obtain ⟨rfl, rfl, rfl⟩ := h
        obtain ⟨c1, c2⟩ := line_err_col _ _ _ _ h2
        exact .inr ⟨.inl rfl, rfl, 0, raw, by simp, rfl, c1, by rw [← hlen]; exact c2⟩
      | ok lo =>
        simp only [h2] at h
        cases h3 : feedToks f.cfg lo.toks with
        | error ol =>
          cases ol with
          | none => simp [h3] at h
          | some l =>
            simp only [h3, Except.error.injEq, Outcome.failure.injEq] at h
            obtain ⟨rfl, rfl, rfl⟩ := h
            obtain ⟨t, ht, rfl⟩ := feedToks_error_mem _ _ _ h3
            obtain ⟨c0, c1, c2⟩ := line_tok_col _ _ _ _ h2 t ht
            exact .inr ⟨.inr rfl, rfl, 0, raw, by simp, c0, c1, by rw [← hlen]; exact c2⟩
        | ok cfg =>
          simp only [h3] at h
          rcases planLines_error_pos rest _ (lno + 1) cls detail loc h with h' | ⟨hc, hd, j, raw', hj, hl, c1, c2⟩
          · exact .inl h'
          · exact .inr ⟨hc, hd, j + 1, raw', by simpa using hj, by omega, c1, c2⟩

/-- when all lines are consumed the lexer stands one column past the last byte of the last line; if
there is no line, nothing has happened at all -/
theorem planLines_ok_end : ∀ (lines : List Bytes) (f : Front) (lno : Nat) (f' : Front),
    (planLines f lno lines).2 = .ok f' →
    (lines = [] ∧ f' = f) ∨
    ∃ raw : Bytes, lines.getLast? = some raw ∧ f'.lexLoc = ⟨lno + lines.length - 1, raw.length + 1⟩
  | [], f, lno, f', h => by
    simp only [planLines, Except.ok.injEq] at h
    exact .inl ⟨rfl, h.symm⟩
  | raw :: rest, f, lno, f', h => by
    simp only [planLines] at h
    cases h1 : utf8Decode raw with
    | none => simp [h1] at h
    | some ln =>
      simp only [h1] at h
      cases h2 : Lex.line lno f.pending ln with
      | error col => simp [h2] at h
      | ok lo =>
        simp only [h2] at h
        cases h3 : feedToks f.cfg lo.toks with
        | error ol => cases ol <;> simp [h3] at h
        | ok cfg =>
          simp only [h3] at h
          right
          rcases planLines_ok_end rest _ (lno + 1) f' h with ⟨rfl, rfl⟩ | ⟨raw', hr, hl⟩
          · refine ⟨raw, rfl, ?_⟩
            simp only [List.length_cons, List.length_nil]
            rw [line_endCol _ _ _ _ h2, utf8Decode_length raw ln h1]
            congr 1
          · refine ⟨raw', ?_, ?_⟩
            · cases rest with
              | nil => cases hr
              | cons a as => simpa [List.getLast?_cons_cons] using hr
            · rw [hl]; simp only [List.length_cons]; congr 1; omega

/-- the parser accepts the empty input -/
theorem feed_init_eof_ok : ∃ c, feed Cfg.init eofTok = .ok c := ⟨_, rfl⟩

/-- **where the front end points.** When the front end (decoder, lexer, parser) ends the run with a
diagnostic, it is one of:
* `Io`, without a position (a line that is not valid UTF-8);
* `Lex`, at the byte of the first character that cannot start a token;
* `Parse`, at a byte of the file (the position of the token the parser rejects), or - when the parser
  rejects the end of the input (or the string literal still pending there) - one column past the last
  byte of the last line. -/
theorem planOf_final_pos (src : Bytes) (cls detail : String) (loc : Loc)
    (h : (planOf src).final = some (.failure cls detail loc)) :
    detail = "" ∧
    ((cls = "Io" ∧ loc = Loc.nil) ∨
     (cls = "Lex" ∧ AtByte (splitLines src) loc) ∨
     (cls = "Parse" ∧ (AtByte (splitLines src) loc ∨ AtEnd (splitLines src) loc))) := by
  unfold planOf at h
  simp only [] at h
  cases hr : (planLines ⟨none, Loc.nil, Cfg.init⟩ 1 (splitLines src)).2 with
  | error o =>
    simp only [hr, Option.some.injEq] at h
    subst h
    rcases planLines_error_pos _ _ _ _ _ _ hr with ⟨rfl, rfl, rfl⟩ | ⟨hc, rfl, j, raw, hj, hl, c1, c2⟩
    · exact ⟨rfl, .inl ⟨rfl, rfl⟩⟩
    · have hb : AtByte (splitLines src) loc := ⟨j, raw, hj, by omega, c1, c2⟩
      rcases hc with rfl | rfl
      · exact ⟨rfl, .inr (.inl ⟨rfl, hb⟩)⟩
      · exact ⟨rfl, .inr (.inr ⟨rfl, .inl hb⟩)⟩
  | ok f =>
    simp only [hr] at h
    -- the position of an end-of-input complaint
    have hend : ∀ cfg0, feedPending f = .parseError ∨ (feedPending f = .ok cfg0 ∧ feed cfg0 eofTok = .parseError) →
        AtEnd (splitLines src) f.lexLoc := by
      intro cfg0 hfe
      rcases planLines_ok_end _ _ _ _ hr with ⟨he, rfl⟩ | ⟨raw, hlast, hl⟩
      · exfalso
        obtain ⟨c, hc⟩ := feed_init_eof_ok
        have hp : feedPending ⟨none, Loc.nil, Cfg.init⟩ = .ok Cfg.init := rfl
        rcases hfe with hfe | ⟨h1, h2⟩
        · rw [hp] at hfe; cases hfe
        · rw [hp] at h1; cases h1; rw [hc] at h2; cases h2
      · refine ⟨raw, hlast, ?_⟩
        rw [hl]; congr 1; omega
    cases hp : feedPending f with
    | parseError =>
      simp only [hp, Option.some.injEq, Outcome.failure.injEq] at h
      obtain ⟨rfl, rfl, rfl⟩ := h
      exact ⟨rfl, .inr (.inr ⟨rfl, .inr (hend Cfg.init (.inl hp))⟩)⟩
    | panic => simp [hp] at h
    | ok cfg0 =>
      simp only [hp] at h
      cases he : feed cfg0 eofTok with
      | parseError =>
        simp only [he, Option.some.injEq, Outcome.failure.injEq] at h
        obtain ⟨rfl, rfl, rfl⟩ := h
        exact ⟨rfl, .inr (.inr ⟨rfl, .inr (hend cfg0 (.inr ⟨hp, he⟩))⟩)⟩
      | panic => simp [he] at h
      | ok cfg => simp [he] at h

end Resynth
