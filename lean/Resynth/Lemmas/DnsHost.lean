import Resynth.Lemmas.Dns
/-!
# `dns::host`: both messages decode completely; the frames carry the expected socket pair
-/
namespace Resynth.Wire
open Spec

theorem u16At_be16 (n : Nat) (r : Bytes) : rdU16 (be16 n ++ r) = some (n % 65536, r) := by
  simp [rdU16, be16]; omega
theorem u32At_be32 (n : Nat) (r : Bytes) : rdU32 (be32 n ++ r) = some (n % 4294967296, r) := by
  simp [rdU32, be32]; omega

theorem parseCount_flatMap {α β} (p : Bytes → Option (β × Bytes)) (build : α → Bytes) (g : α → β)
    (xs : List α) (hp : ∀ x ∈ xs, ∀ r, p (build x ++ r) = some (g x, r)) (r : Bytes) :
    parseCount p xs.length (xs.flatMap build ++ r) = some (xs.map g, r) := by
  induction xs with
  | nil => simp [parseCount]
  | cons x xs ih =>
    have ih' := ih (fun y hy => hp y (by simp [hy]))
    rw [List.flatMap_cons, List.append_assoc, List.length_cons, parseCount, hp x (by simp)]
    simp [ih']

/-- a question whose name is a plain label sequence -/
theorem parseQuestion_of (qn : Bytes) (labels : List Bytes)
    (hq : ∀ X, parseName (qn ++ X) = some (labels, X)) (t c : Nat) (r : Bytes) :
    parseQuestion (qn ++ (be16 t ++ (be16 c ++ r))) = some (⟨labels, t % 65536, c % 65536⟩, r) := by
  simp [parseQuestion, hq, u16At_be16]

theorem parseDnsRR_of (qn : Bytes) (labels : List Bytes)
    (hq : ∀ X, parseName (qn ++ X) = some (labels, X)) (t c ttl : Nat) (data r : Bytes)
    (hd : data.length < 65536) :
    parseDnsRR (qn ++ (be16 t ++ (be16 c ++ (be32 ttl ++ (be16 data.length ++ (data ++ r)))))) =
      some (⟨labels, t % 65536, c % 65536, ttl % 4294967296, data⟩, r) := by
  have : data.length % 65536 = data.length := Nat.mod_eq_of_lt hd
  simp [parseDnsRR, hq, u16At_be16, u32At_be32, this]

theorem splitFlags_query : splitFlags 0x0100 =
    { qr := false, opcode := 0, aa := false, tc := false, rd := true, ra := false, z := false, ad := false,
      cd := false, rcode := 0 } := by decide
theorem splitFlags_response : splitFlags 0x8080 =
    { qr := true, opcode := 0, aa := false, tc := false, rd := false, ra := true, z := false, ad := false,
      cd := false, rcode := 0 } := by decide

theorem parseDnsMessage_hostQuery (qn : Bytes) (labels : List Bytes)
    (hq : ∀ X, parseName (qn ++ X) = some (labels, X)) :
    parseDnsMessage (dnsHostQuery qn) =
      some { id := 0x1234
             flags := { qr := false, opcode := 0, aa := false, tc := false, rd := true, ra := false, z := false,
                        ad := false, cd := false, rcode := 0 }
             qdcount := 1, ancount := 0, nscount := 0, arcount := 0
             questions := [⟨labels, 1, 1⟩], answers := [], authority := [], additional := [] } := by
  have hqq := parseQuestion_of qn labels hq 1 1 []
  simp only [List.append_nil] at hqq
  simp [parseDnsMessage, dnsHostQuery, dnsHdr, u16At_be16, parseCount, hqq, splitFlags_query]

theorem parseDnsMessage_hostResponse (qn : Bytes) (labels : List Bytes)
    (hq : ∀ X, parseName (qn ++ X) = some (labels, X)) (ttl : Nat) (ips : List Nat)
    (hn : ips.length < 65536) :
    parseDnsMessage (dnsHostResponse qn ttl ips) =
      some { id := 0x1234
             flags := { qr := true, opcode := 0, aa := false, tc := false, rd := false, ra := true, z := false,
                        ad := false, cd := false, rcode := 0 }
             qdcount := 1, ancount := ips.length, nscount := 0, arcount := 0
             questions := [⟨labels, 1, 1⟩]
             answers := ips.map fun ip => ⟨labels, 1, 1, ttl % 4294967296, be32 ip⟩
             authority := [], additional := [] } := by
  have hrr := parseCount_flatMap parseDnsRR
    (fun ip => qn ++ (be16 1 ++ (be16 1 ++ (be32 ttl ++ (be16 4 ++ be32 ip)))))
    (fun ip => (⟨labels, 1, 1, ttl % 4294967296, be32 ip⟩ : DnsRR)) ips
    (fun ip _ r => by
      have := parseDnsRR_of qn labels hq 1 1 ttl (be32 ip) r (by simp)
      simpa using this) []
  simp only [List.append_nil] at hrr
  have hlen : ips.length % 65536 = ips.length := Nat.mod_eq_of_lt hn
  have hqq := fun r => parseQuestion_of qn labels hq 1 1 r
  unfold parseDnsMessage dnsHostResponse dnsHdr
  simp only [List.append_assoc, u16At_be16, Option.bind_eq_bind, Option.bind_some, hlen]
  simp only [parseCount, hqq, Option.bind_eq_bind, Option.bind_some]
  rw [hrr]
  simp [splitFlags_response]

/-! ## the frames -/

/-- any frame the UDP builder emits with MAC addresses derived from IP addresses, an option-less
IPv4 header and protocol 17 is read back field by field -/
theorem parseUdpFrame_frame (raw : Bool) (ma mb : Nat) (ip : IpHdr) (udp : UdpHdr) (data : Bytes)
    (hv : ip.ihlVersion = 0x45) (hp : ip.protocol = 17) :
    parseUdpFrame raw (UdpDgram.frame { raw := raw, ethDst := macOfIp ma, ethSrc := macOfIp mb, ip := ip,
                                        udp := udp, data := data }) =
      some { srcIp := ip.saddr % 4294967296, srcPort := udp.sport % 65536,
             dstIp := ip.daddr % 4294967296, dstPort := udp.dport % 65536, payload := data } := by
  have e45 : b8 0x45 = 0x45 := rfl
  have e17 : b8 17 = 17 := rfl
  have e8 : b8 8 = 8 := rfl
  have e0 : b8 2048 = 0 := by decide
  have h4 := beNat_be32 ip.saddr
  have h5 := beNat_be32 ip.daddr
  have h6 := beNat_be16 udp.sport
  have h7 := beNat_be16 udp.dport
  simp only [be16, be32] at h4 h5 h6 h7
  cases raw <;>
    simp [parseUdpFrame, UdpDgram.frame, UdpDgram.dgram, ethHdr, macOfIp, IpHdr.serialize, UdpHdr.serialize,
      be16, be32, hv, hp, e45, e17, e8, e0, h4, h5, h6, h7]

theorem clientDgram_csum_frame (f : UdpFlow) (msg : Bytes) :
    parseUdpFrame f.raw (f.clientDgram msg).csum.frame =
      some { srcIp := f.cl.ip % 4294967296, srcPort := f.cl.port % 65536,
             dstIp := f.sv.ip % 4294967296, dstPort := f.sv.port % 65536, payload := msg } := by
  have := parseUdpFrame_frame f.raw f.sv.ip f.cl.ip (f.clientDgram msg).csum.ip (f.clientDgram msg).csum.udp msg
    rfl rfl
  exact this

theorem serverDgram_csum_frame (f : UdpFlow) (msg : Bytes) :
    parseUdpFrame f.raw (f.serverDgram msg).csum.frame =
      some { srcIp := f.sv.ip % 4294967296, srcPort := f.sv.port % 65536,
             dstIp := f.cl.ip % 4294967296, dstPort := f.cl.port % 65536, payload := msg } := by
  have := parseUdpFrame_frame f.raw f.cl.ip f.sv.ip (f.serverDgram msg).csum.ip (f.serverDgram msg).csum.udp msg
    rfl rfl
  exact this

end Resynth.Wire
