import Resynth.Lemmas.StmtsKeep
import Resynth.Lemmas.TotalStmt
import Resynth.Props.C09
/-!
# Whole-file totality (C08): the loop of `process_file`

`LoopOk ls`: the parser configuration is reachable (`C09.Reachable`, hence `C09.parser_no_panic`
applies) and all its nodes and finished statements are well formed (`CfgWF`); the interpreter state
is `StOk`.  `lineLoop_ok` shows the loop keeps `LoopOk` and that every early exit is not a panic.
-/
namespace Resynth.C08
open LR

/-- the run did not end in a panic -/
def NoPanic (r : FileRun) : Prop := ∀ site, r.outcome ≠ .panic site

theorem NoPanic_failure (st : PState) (cls detail : String) (loc : Loc) :
    NoPanic (finish st (.failure cls detail loc)) := by
  intro site h; cases h

theorem NoPanic_success (st : PState) : NoPanic (finish st .success) := by
  intro site h; cases h

structure LoopOk (ls : LoopSt) : Prop where
  reach : C09.Reachable ls.cfg
  wf : CfgWF ls.cfg
  st : StOk ls.st

/-- feeding `TokOk` tokens to a reachable, well-formed parser: a parse error or a reachable,
well-formed parser — never the `panic` outcome -/
theorem feedToks_ok : ∀ (ts : List Tok) (c : Cfg), C09.Reachable c → CfgWF c → (∀ t ∈ ts, TokOk t) →
    match feedToks c ts with
    | .ok c' => C09.Reachable c' ∧ CfgWF c'
    | .error (some _) => True
    | .error none => False
  | [], c, hr, hw, _ => ⟨hr, hw⟩
  | t :: ts, c, hr, hw, ht => by
    simp only [feedToks]
    cases hf : feed c t with
    | panic => exact absurd hf (C09.parser_no_panic hr t)
    | parseError => trivial
    | ok c1 =>
      exact feedToks_ok ts c1 (.feed hr hf) (feed_wf c t hr.inv hw (ht t (by simp)) hf)
        (fun t' ht' => ht t' (by simp [ht']))

/-- `get_results` + `add_stmt` for each: the invariant is kept, an early exit is not a panic -/
theorem runStmts_ok (fs : Fs) (ls : LoopSt) (h : LoopOk ls) :
    match runStmts ⟨Gen.lib, fs⟩ ls with
    | .ok ls' => LoopOk ls'
    | .error r => NoPanic r := by
  unfold runStmts
  obtain ⟨hws, hwc⟩ := takeResults_wf ls.cfg h.wf
  have ha := addStmts_ok fs ls.cfg.takeResults.1 ls.st hws h.st
  simp only
  rcases hr : addStmtsKeep ⟨Gen.lib, fs⟩ ls.st ls.cfg.takeResults.1 with ⟨st', _ | ⟨⟨e, l⟩ | s⟩⟩
  · rw [(addStmtsKeep_none_iff _ _ _ _).1 hr] at ha; exact ⟨.take h.reach, hwc, ha⟩
  · exact NoPanic_failure _ _ _ _
  · rw [addStmtsKeep_panic hr] at ha; exact ha.elim

theorem lineLoop_ok (fs : Fs) : ∀ (lines : List Bytes) (ls : LoopSt) (lno : Nat), LoopOk ls →
    match lineLoop ⟨Gen.lib, fs⟩ ls lno lines with
    | .ok ls' => LoopOk ls'
    | .error r => NoPanic r
  | [], ls, lno, h => h
  | raw :: rest, ls, lno, h => by
    simp only [lineLoop]
    cases hu : utf8Decode raw with
    | none => exact NoPanic_failure _ _ _ _
    | some ln =>
      simp only
      cases hlex : Lex.line lno ls.pending ln with
      | error col => exact NoPanic_failure _ _ _ _
      | ok lo =>
        simp only
        have hf := feedToks_ok lo.toks ls.cfg h.reach h.wf (Lex.line_toks_ok hlex)
        cases hfeed : feedToks ls.cfg lo.toks with
        | error eo =>
          rw [hfeed] at hf
          cases eo with
          | none => exact hf.elim
          | some loc => exact NoPanic_failure _ _ _ _
        | ok cfg =>
          rw [hfeed] at hf
          simp only
          have hrs := runStmts_ok fs { ls with pending := lo.pending, lexLoc := ⟨lno, lo.endCol⟩, cfg := cfg }
            ⟨hf.1, hf.2, h.st⟩
          cases hr : runStmts ⟨Gen.lib, fs⟩
              { ls with pending := lo.pending, lexLoc := ⟨lno, lo.endCol⟩, cfg := cfg } with
          | error r => rw [hr] at hrs; exact hrs
          | ok ls' => rw [hr] at hrs; exact lineLoop_ok fs rest ls' (lno + 1) hrs

theorem LoopOk_init (st : PState) (hst : st.regs = []) : LoopOk { st := st } :=
  ⟨.init, CfgWF_init, by intro e he; rw [hst] at he; cases he⟩

/-- **`process_file` never ends in a panic**, for the real library table, any file system, any
output budget and any input bytes -/
theorem processFile_noPanic (fs : Fs) (budget : Option Nat) (src : Bytes) :
    NoPanic (processFile ⟨Gen.lib, fs⟩ budget src) := by
  unfold processFile
  simp only
  split
  · exact NoPanic_failure _ _ _ _
  · have hl := lineLoop_ok fs (splitLines src)
      { st := { wr := (({ budget := budget } : BufW).writeAll Pcap.header).1 } } 1 (LoopOk_init _ rfl)
    cases hr : lineLoop ⟨Gen.lib, fs⟩
        { st := { wr := (({ budget := budget } : BufW).writeAll Pcap.header).1 } } 1 (splitLines src) with
    | error r => rw [hr] at hl; exact hl
    | ok ls =>
      rw [hr] at hl
      simp only
      -- after the end-of-input flush of the lexer: `EOF`, the last statements, the final flush
      have rest : ∀ cfg0 : Cfg, C09.Reachable cfg0 → CfgWF cfg0 →
          NoPanic (match feed cfg0 eofTok with
            | .parseError => finish ls.st (.failure "Parse" "" ls.lexLoc)
            | .panic => finish ls.st (.panic "parser")
            | .ok cfg =>
              match runStmts ⟨Gen.lib, fs⟩ { ls with cfg := cfg } with
              | .error r => r
              | .ok ls =>
                if ls.st.wr.flushBuf.2 = true then finish { ls.st with wr := ls.st.wr.flushBuf.1 } .success
                else finish { ls.st with wr := ls.st.wr.flushBuf.1 } (.failure "Io" "" Loc.nil)) := by
        intro cfg0 hreach hwf
        cases hfeed : feed cfg0 eofTok with
        | parseError => exact NoPanic_failure _ _ _ _
        | panic => exact absurd hfeed (C09.parser_no_panic hreach _)
        | ok cfg =>
          simp only
          have hrs := runStmts_ok fs { ls with cfg := cfg }
            ⟨.feed hreach hfeed, feed_wf _ _ hreach.inv hwf eofTok_ok hfeed, hl.st⟩
          cases hr2 : runStmts ⟨Gen.lib, fs⟩ { ls with cfg := cfg } with
          | error r => rw [hr2] at hrs; exact hrs
          | ok ls2 =>
            simp only
            split
            · exact NoPanic_success _
            · exact NoPanic_failure _ _ _ _
      -- the literal still pending in the lexer (if any) is a string token: `TokOk`
      cases hfi : Lex.finish ls.pending ls.lexLoc with
      | none => exact rest ls.cfg hl.reach hl.wf
      | some t =>
        simp only
        cases hft : feed ls.cfg t with
        | parseError => exact NoPanic_failure _ _ _ _
        | panic => exact absurd hft (C09.parser_no_panic hl.reach _)
        | ok c =>
          exact rest c (.feed hl.reach hft) (feed_wf _ _ hl.reach.inv hl.wf (Lex.finish_tok_ok hfi) hft)

end Resynth.C08
