import Resynth.Lemmas.InterpBasic
/-!
# Simulation: source positions and unreferenced bindings are unobservable

`Sim skip a b`: the interpreter states `a` and `b` agree on everything except `loc`, the
content of `warnings` (their number agrees) and the bindings of names satisfying `skip`.
`ResRel R`: two results are both ok and `R`-related, or both the same error kind (any position),
or both the same panic.

Main results
* `eval_sim`: related states, expression `e.reloc r` (all positions changed by `r`) against `e`
  where `e` mentions no skipped name ⇒ related results.
* `addStmt_sim`, `addStmts_sim`: the same for statements.
* `eval_subst`, `addStmts_subst`: replacing references to a name bound to a literal value by
  that literal is an exact identity.
-/
namespace Resynth.Sem

/-! ## relations on results -/

inductive ResRel {α β : Type} (R : α → β → Prop) : Res α → Res β → Prop
  | ok {a : α} {b : β} : R a b → ResRel R (.ok a) (.ok b)
  | err (e : ErrKind) (l l' : Loc) : ResRel R (.err e l) (.err e l')
  | panic (s : String) : ResRel R (.panic s) (.panic s)

theorem ResRel.bind {α β γ δ : Type} {R : α → β → Prop} {S : γ → δ → Prop} {x : Res α} {y : Res β}
    {f : α → Res γ} {g : β → Res δ} (h : ResRel R x y) (hf : ∀ a b, R a b → ResRel S (f a) (g b)) :
    ResRel S (x >>= f) (y >>= g) := by
  cases h with
  | ok hab => exact hf _ _ hab
  | err e l l' => exact .err e l l'
  | panic s => exact .panic s

theorem ResRel.refl_eq {α : Type} (x : Res α) : ResRel Eq x x := by
  cases x
  · exact .ok rfl
  · exact .err _ _ _
  · exact .panic _

theorem ResRel.mono {α β : Type} {R S : α → β → Prop} {x : Res α} {y : Res β} (h : ResRel R x y)
    (hrs : ∀ a b, R a b → S a b) : ResRel S x y := by
  cases h with
  | ok hab => exact .ok (hrs _ _ hab)
  | err e l l' => exact .err e l l'
  | panic s => exact .panic s

theorem ResRel.symm {α β : Type} {R : α → β → Prop} {x : Res α} {y : Res β} (h : ResRel R x y) :
    ResRel (fun b a => R a b) y x := by
  cases h with
  | ok hab => exact .ok hab
  | err e l l' => exact .err e l' l
  | panic s => exact .panic s

theorem ResRel.trans {α β γ : Type} {R : α → β → Prop} {S : β → γ → Prop} {x : Res α} {y : Res β} {z : Res γ}
    (h1 : ResRel R x y) (h2 : ResRel S y z) : ResRel (fun a c => ∃ b, R a b ∧ S b c) x z := by
  cases h1 with
  | ok hab => cases h2 with | ok hbc => exact .ok ⟨_, hab, hbc⟩
  | err e l l' => cases h2 with | err _ _ l'' => exact .err e l l''
  | panic s => cases h2 with | panic _ => exact .panic s

/-- the outcome class: ok / error kind / panic site, forgetting values and positions -/
def _root_.Resynth.Res.cls {α : Type} : Res α → Option (Sum ErrKind String)
  | .ok _ => none
  | .err e _ => some (.inl e)
  | .panic s => some (.inr s)

theorem ResRel.cls_eq {α β : Type} {R : α → β → Prop} {x : Res α} {y : Res β} (h : ResRel R x y) :
    x.cls = y.cls := by
  cases h <;> rfl

/-! ## the simulation relation on states -/

structure Sim (skip : String → Prop) (a b : PState) : Prop where
  now : a.now = b.now
  imports : a.imports = b.imports
  heap : a.heap = b.heap
  wr : a.wr = b.wr
  emitted : a.emitted = b.emitted
  nwarn : a.warnings.length = b.warnings.length
  regs : ∀ y, ¬ skip y → lookupReg a.regs y = lookupReg b.regs y
  /-- when nothing is skipped the binding lists are literally equal -/
  regsEq : (∀ y, ¬ skip y) → a.regs = b.regs

namespace Sim
variable {skip : String → Prop}

theorem refl (a : PState) : Sim skip a a := ⟨rfl, rfl, rfl, rfl, rfl, rfl, fun _ _ => rfl, fun _ => rfl⟩

theorem symm {a b : PState} (h : Sim skip a b) : Sim skip b a :=
  ⟨h.now.symm, h.imports.symm, h.heap.symm, h.wr.symm, h.emitted.symm, h.nwarn.symm,
   fun y hy => (h.regs y hy).symm, fun hs => (h.regsEq hs).symm⟩

theorem trans {a b c : PState} (h1 : Sim skip a b) (h2 : Sim skip b c) : Sim skip a c :=
  ⟨h1.now.trans h2.now, h1.imports.trans h2.imports, h1.heap.trans h2.heap, h1.wr.trans h2.wr,
   h1.emitted.trans h2.emitted, h1.nwarn.trans h2.nwarn, fun y hy => (h1.regs y hy).trans (h2.regs y hy),
   fun hs => (h1.regsEq hs).trans (h2.regsEq hs)⟩

theorem setLoc {a b : PState} (h : Sim skip a b) (l l' : Loc) :
    Sim skip { a with loc := l } { b with loc := l' } :=
  ⟨h.now, h.imports, h.heap, h.wr, h.emitted, h.nwarn, h.regs, h.regsEq⟩

theorem setHeap {a b : PState} (h : Sim skip a b) (hp : Heap) :
    Sim skip { a with heap := hp } { b with heap := hp } :=
  ⟨h.now, h.imports, rfl, h.wr, h.emitted, h.nwarn, h.regs, h.regsEq⟩
end Sim

/-- value and state related -/
def VSim {α : Type} (skip : String → Prop) (p q : α × PState) : Prop := p.1 = q.1 ∧ Sim skip p.2 q.2

/-! ## changing positions; mentioning a name -/

def _root_.Resynth.ObjRef.reloc (r : Loc → Loc) (o : ObjRef) : ObjRef := { o with loc := r o.loc }

/-- `o` is a local reference whose variable is `x` (`x`, `x.m`, `x(...)`, `x.m(...)`) -/
def _root_.Resynth.ObjRef.mentions (x : String) (o : ObjRef) : Bool := o.modules.isEmpty && o.components.head? == some x

mutual
def _root_.Resynth.Expr.reloc (r : Loc → Loc) : Expr → Expr
  | .nil => .nil
  | .lit l v => .lit (r l) v
  | .ref o => .ref (o.reloc r)
  | .call o a => .call (o.reloc r) (a.reloc r)
  | .slash a b => .slash (a.reloc r) (b.reloc r)
def _root_.Resynth.Args.reloc (r : Loc → Loc) : Args → Args
  | .nil => .nil
  | .cons n e rest => .cons n (e.reloc r) (rest.reloc r)
end

mutual
def _root_.Resynth.Expr.mentions (x : String) : Expr → Bool
  | .nil => false
  | .lit _ _ => false
  | .ref o => o.mentions x
  | .call o a => o.mentions x || a.mentions x
  | .slash a b => a.mentions x || b.mentions x
def _root_.Resynth.Args.mentions (x : String) : Args → Bool
  | .nil => false
  | .cons _ e rest => e.mentions x || rest.mentions x
end

def _root_.Resynth.Stmt.reloc (r : Loc → Loc) : Stmt → Stmt
  | .imp l m => .imp (r l) m
  | .assign l t e => .assign (r l) t (e.reloc r)
  | .expr e => .expr (e.reloc r)

/-- the statement binds `x` or refers to it -/
def _root_.Resynth.Stmt.mentions (x : String) : Stmt → Bool
  | .imp _ _ => false
  | .assign _ t e => t == x || e.mentions x
  | .expr e => e.mentions x

/-! ## object references -/

def externStep (env : Env) (l : Loc) (cur c : String) : Res String :=
  match env.lib.get (cur ++ "::" ++ c) with
  | some .module => Res.ok (cur ++ "::" ++ c)
  | none => .err .name l
  | some _ => .err .type_ l

def externLeaf (env : Env) (l : Loc) (modPath : String) (comps : List String) : Res Val :=
  match comps with
  | [] => .panic "eval_extern_ref: no components"
  | topvar :: more =>
    match env.lib.get (modPath ++ "::" ++ topvar) with
    | some (.val d) => if more.isEmpty then .ok (Val.ofDef d) else .err .type_ l
    | some (.func f) => if more.isEmpty then .ok (.func f.path) else .err .type_ l
    | some .module => .err .type_ l
    | some .cls => .err .type_ l
    | none => .err .name l

/-- `evalExternRef` with its two inner pieces named -/
theorem evalExternRef_eq (env : Env) (st : PState) (o : ObjRef) :
    evalExternRef env st o =
      match o.modules with
      | [] => .panic "eval_extern_ref: no modules"
      | top :: rest =>
        if !st.imports.contains top then .err .name st.loc
        else (rest.foldlM (externStep env st.loc) top >>= fun m => externLeaf env st.loc m o.components) := by
  unfold evalExternRef
  cases o.modules with
  | nil => rfl
  | cons top rest =>
    simp only
    split
    · rfl
    · split
      · rename_i h
        have h' : List.foldlM (externStep env st.loc) top rest = .err _ _ := h
        rw [h']; rfl
      · rename_i h
        have h' : List.foldlM (externStep env st.loc) top rest = .panic _ := h
        rw [h']; rfl
      · rename_i h
        have h' : List.foldlM (externStep env st.loc) top rest = .ok _ := h
        rw [h']; rfl

theorem externStep_rel (env : Env) (l l' : Loc) (cur c : String) :
    ResRel Eq (externStep env l cur c) (externStep env l' cur c) := by
  unfold externStep
  rcases env.lib.get (cur ++ "::" ++ c) with _ | s
  · exact .err _ _ _
  · cases s
    · exact .ok rfl
    all_goals exact .err _ _ _

theorem externWalk_rel (env : Env) (l l' : Loc) : ∀ (rest : List String) (cur : String),
    ResRel Eq (rest.foldlM (externStep env l) cur) (rest.foldlM (externStep env l') cur)
  | [], cur => .ok rfl
  | c :: rest, cur => by
    simp only [List.foldlM_cons]
    refine ResRel.bind (externStep_rel env l l' cur c) ?_
    rintro a b rfl
    exact externWalk_rel env l l' rest a

theorem externLeaf_rel (env : Env) (l l' : Loc) (m : String) (comps : List String) :
    ResRel Eq (externLeaf env l m comps) (externLeaf env l' m comps) := by
  unfold externLeaf
  rcases comps with _ | ⟨topvar, more⟩
  · exact .panic _
  · simp only
    rcases env.lib.get _ with _ | s
    · exact .err _ _ _
    · cases s <;> simp only
      · exact .err _ _ _
      · exact .err _ _ _
      · split
        · exact .ok rfl
        · exact .err _ _ _
      · split
        · exact .ok rfl
        · exact .err _ _ _

theorem evalExternRef_rel (env : Env) (st st' : PState) (o o' : ObjRef) (hi : st.imports = st'.imports)
    (hm : o.modules = o'.modules) (hc : o.components = o'.components) :
    ResRel Eq (evalExternRef env st o) (evalExternRef env st' o') := by
  rw [evalExternRef_eq, evalExternRef_eq, ← hm, ← hc, ← hi]
  rcases o.modules with _ | ⟨top, rest⟩
  · exact .panic _
  · simp only
    split
    · exact .err _ _ _
    · refine ResRel.bind (externWalk_rel env _ _ rest top) ?_
      rintro a b rfl
      exact externLeaf_rel env _ _ a _

theorem evalLocalRef_rel (env : Env) (st st' : PState) (o o' : ObjRef)
    (hc : o.components = o'.components)
    (hr : ∀ y, o'.components.head? = some y → lookupReg st.regs y = lookupReg st'.regs y) :
    ResRel Eq (evalLocalRef env st o) (evalLocalRef env st' o') := by
  unfold evalLocalRef
  rw [hc]
  split
  · exact .err _ _ _
  · rcases hcomp : o'.components with _ | ⟨var, more⟩
    · exact .panic _
    · simp only
      rw [hr var (by rw [hcomp]; rfl)]
      rcases lookupReg st'.regs var with _ | v
      · exact .err _ _ _
      · simp only
        rcases more with _ | ⟨m, _⟩
        · exact .ok rfl
        · simp only
          cases v <;> try exact .err _ _ _
          simp only
          rcases env.lib.get _ with _ | s
          · exact .err _ _ _
          · cases s <;> first | exact .err _ _ _ | exact .ok rfl

theorem evalObjRef_sim {skip : String → Prop} (env : Env) {st st' : PState} (o : ObjRef) (r : Loc → Loc)
    (h : Sim skip st st') (hm : ∀ y, skip y → o.mentions y = false) :
    ResRel Eq (evalObjRef env st (o.reloc r)) (evalObjRef env st' o) := by
  unfold evalObjRef
  have h1 : (o.reloc r).modules = o.modules := rfl
  rw [h1]
  split
  · exact evalExternRef_rel env st st' _ _ h.imports rfl rfl
  · rename_i hlen
    refine evalLocalRef_rel env st st' _ _ rfl ?_
    intro y hy
    apply h.regs
    intro hs
    have := hm y hs
    have hmod : o.modules = [] := by
      cases hmo : o.modules with
      | nil => rfl
      | cons a b => rw [hmo] at hlen; simp at hlen
    simp [ObjRef.mentions, hmod, hy] at this

/-! ## expressions -/

theorem bindAndExec_sim {skip : String → Prop} (env : Env) {st st' : PState} (f : FuncDef) (this : Option Nat)
    (args : List ArgSpec) (h : Sim skip st st') :
    ResRel (VSim skip) (bindAndExec env st f this args) (bindAndExec env st' f this args) := by
  unfold bindAndExec
  rcases Bind.argvec f args with av | _ | _
  · simp only
    rw [h.heap]
    rcases exec env.fs f.path this av st'.heap with ⟨v, hp⟩ | _ | _
    · simp only
      split
      · exact .panic _
      · exact .ok ⟨rfl, h.setHeap hp⟩
    · exact .err _ _ _
    · exact .panic _
  · exact .err _ _ _
  · exact .panic _

mutual
theorem eval_sim {skip : String → Prop} (env : Env) (r : Loc → Loc) : ∀ (e : Expr) (st st' : PState),
    Sim skip st st' → (∀ y, skip y → e.mentions y = false) →
    ResRel (VSim skip) (eval env st (e.reloc r)) (eval env st' e)
  | .nil, st, st', h, _ => .ok ⟨rfl, h⟩
  | .lit l v, st, st', h, _ => .ok ⟨rfl, h.setLoc _ _⟩
  | .ref o, st, st', h, hm => by
    simp only [Expr.reloc, eval]
    refine ResRel.bind (evalObjRef_sim env o r (h.setLoc _ _) (by simpa [Expr.mentions] using hm)) ?_
    rintro a b rfl
    exact .ok ⟨rfl, h.setLoc _ _⟩
  | .call o args, st, st', h, hm => by
    have hm1 : ∀ y, skip y → o.mentions y = false := fun y hy => by
      have := hm y hy; simp only [Expr.mentions, Bool.or_eq_false_iff] at this; exact this.1
    have hm2 : ∀ y, skip y → args.mentions y = false := fun y hy => by
      have := hm y hy; simp only [Expr.mentions, Bool.or_eq_false_iff] at this; exact this.2
    simp only [Expr.reloc, eval]
    refine ResRel.bind (evalObjRef_sim env o r (h.setLoc _ _) hm1) ?_
    rintro callee b rfl
    have ha := evalArgs_sim env r args _ _ (h.setLoc (o.reloc r).loc o.loc) hm2
    cases callee
    case func path =>
      refine ResRel.bind ha ?_
      rintro ⟨argv, st1⟩ ⟨argv', st1'⟩ ⟨h1, h2⟩
      simp only at h1; subst h1
      refine ResRel.bind (ResRel.refl_eq (funcOf env path)) ?_
      rintro f f' rfl
      exact bindAndExec_sim env f none argv h2
    case method id cls path =>
      refine ResRel.bind ha ?_
      rintro ⟨argv, st1⟩ ⟨argv', st1'⟩ ⟨h1, h2⟩
      simp only at h1; subst h1
      refine ResRel.bind (ResRel.refl_eq (funcOf env path)) ?_
      rintro f f' rfl
      exact bindAndExec_sim env f (some id) argv h2
    all_goals exact .err _ _ _
  | .slash a b, st, st', h, hm => by
    have hm1 : ∀ y, skip y → a.mentions y = false := fun y hy => by
      have := hm y hy; simp only [Expr.mentions, Bool.or_eq_false_iff] at this; exact this.1
    have hm2 : ∀ y, skip y → b.mentions y = false := fun y hy => by
      have := hm y hy; simp only [Expr.mentions, Bool.or_eq_false_iff] at this; exact this.2
    simp only [Expr.reloc, eval]
    refine ResRel.bind (eval_sim env r a _ _ h hm1) ?_
    rintro ⟨av, st1⟩ ⟨av', st1'⟩ ⟨h1, h2⟩
    simp only at h1 h2; subst h1
    simp only
    split
    · exact .err _ _ _
    refine ResRel.bind (eval_sim env r b _ _ h2 hm2) ?_
    rintro ⟨bv, st2⟩ ⟨bv', st2'⟩ ⟨h3, h4⟩
    simp only at h3 h4; subst h3
    simp only
    split
    · exact .err _ _ _
    split
    · split
      · exact .err _ _ _
      · exact .ok ⟨rfl, h4.setLoc _ _⟩
    · exact .panic _
theorem evalArgs_sim {skip : String → Prop} (env : Env) (r : Loc → Loc) : ∀ (a : Args) (st st' : PState),
    Sim skip st st' → (∀ y, skip y → a.mentions y = false) →
    ResRel (VSim skip) (evalArgs env st (a.reloc r)) (evalArgs env st' a)
  | .nil, st, st', h, _ => .ok ⟨rfl, h⟩
  | .cons n e rest, st, st', h, hm => by
    have hm1 : ∀ y, skip y → e.mentions y = false := fun y hy => by
      have := hm y hy; simp only [Args.mentions, Bool.or_eq_false_iff] at this; exact this.1
    have hm2 : ∀ y, skip y → rest.mentions y = false := fun y hy => by
      have := hm y hy; simp only [Args.mentions, Bool.or_eq_false_iff] at this; exact this.2
    simp only [Args.reloc, evalArgs]
    refine ResRel.bind (eval_sim env r e _ _ h hm1) ?_
    rintro ⟨v, st1⟩ ⟨v', st1'⟩ ⟨h1, h2⟩
    simp only at h1 h2; subst h1
    refine ResRel.bind (evalArgs_sim env r rest _ _ h2 hm2) ?_
    rintro ⟨vs, st2⟩ ⟨vs', st2'⟩ ⟨h3, h4⟩
    simp only at h3 h4; subst h3
    exact .ok ⟨rfl, h4⟩
end

/-! ## statements -/

theorem updateTime_sim {skip : String → Prop} {st st' : PState} (ns : Nat) (h : Sim skip st st') :
    ResRel (Sim skip) (updateTime st ns) (updateTime st' ns) := by
  unfold updateTime
  rw [h.now]
  split
  · exact .ok ⟨rfl, h.imports, h.heap, h.wr, h.emitted, h.nwarn, h.regs, h.regsEq⟩
  · exact .err _ _ _

theorem writeRecord_sim {skip : String → Prop} {st st' : PState} (p : Packet) (h : Sim skip st st') :
    ResRel (Sim skip) (writeRecord st p) (writeRecord st' p) := by
  unfold writeRecord
  rw [h.now, h.wr, h.emitted]
  rcases Pcap.writePacket st'.now p with ⟨bytes, _⟩ | _
  · simp only
    rcases st'.wr.writeAll bytes with ⟨w, ok⟩
    simp only
    split
    · exact .ok ⟨rfl, h.imports, h.heap, rfl, rfl, h.nwarn, h.regs, h.regsEq⟩
    · exact .err _ _ _
  · exact .panic _

theorem writeRecords_sim {skip : String → Prop} : ∀ (ps : List Packet) {st st' : PState}, Sim skip st st' →
    ResRel (Sim skip) (writeRecords st ps) (writeRecords st' ps)
  | [], _, _, h => .ok h
  | p :: ps, _, _, h => by
    simp only [writeRecords]
    exact ResRel.bind (writeRecord_sim p h) (fun _ _ h' => writeRecords_sim ps h')

theorem foldl_updateTime_sim {skip : String → Prop} : ∀ (ps : List Packet) {st st' : PState}, Sim skip st st' →
    ResRel (Sim skip) (ps.foldlM (fun st p => updateTime st p.bitTime) st)
      (ps.foldlM (fun st p => updateTime st p.bitTime) st')
  | [], _, _, h => .ok h
  | p :: ps, _, _, h => by
    simp only [List.foldlM_cons]
    exact ResRel.bind (updateTime_sim _ h) (fun _ _ h' => foldl_updateTime_sim ps h')

theorem emitVal_sim {skip : String → Prop} {st st' : PState} (v : Val) (h : Sim skip st st') :
    ResRel (Sim skip) (emitVal st v) (emitVal st' v) := by
  have hw : Sim skip { st with warnings := st.warnings ++ [st.loc] }
      { st' with warnings := st'.warnings ++ [st'.loc] } :=
    ⟨h.now, h.imports, h.heap, h.wr, h.emitted, by simp [h.nwarn], h.regs, h.regsEq⟩
  cases v <;> simp only [emitVal, Res.pure_eq]
  case nil => exact .ok h
  case pkt p => exact ResRel.bind (updateTime_sim _ h) (fun _ _ h' => writeRecord_sim p h')
  case pktgen ps => exact ResRel.bind (foldl_updateTime_sim ps h) (fun _ _ h' => writeRecords_sim ps h')
  case timejump ns => exact updateTime_sim ns h
  all_goals exact .ok hw

theorem addStmt_sim {skip : String → Prop} (env : Env) (r : Loc → Loc) (s : Stmt) {st st' : PState}
    (h : Sim skip st st') (hm : ∀ y, skip y → s.mentions y = false) :
    ResRel (Sim skip) (addStmt env st (s.reloc r)) (addStmt env st' s) := by
  cases s with
  | imp l m =>
    simp only [Stmt.reloc, addStmt]
    rw [h.imports]
    split
    · exact .ok ⟨h.now, rfl, h.heap, h.wr, h.emitted, h.nwarn, h.regs, h.regsEq⟩
    · rcases env.lib.get m with _ | sy
      · exact .err _ _ _
      · cases sy
        · exact .ok ⟨h.now, rfl, h.heap, h.wr, h.emitted, h.nwarn, h.regs, h.regsEq⟩
        all_goals exact .panic _
  | assign l t e =>
    have hm1 : ¬ skip t := fun hs => by
      have := hm t hs; simp [Stmt.mentions] at this
    have hm2 : ∀ y, skip y → e.mentions y = false := fun y hy => by
      have := hm y hy; simp only [Stmt.mentions, Bool.or_eq_false_iff] at this; exact this.2
    simp only [Stmt.reloc, addStmt]
    rw [h.regs t hm1]
    split
    · exact .err _ _ _
    · refine ResRel.bind (eval_sim env r e _ _ (h.setLoc _ _) hm2) ?_
      rintro ⟨v, st1⟩ ⟨v', st1'⟩ ⟨h1, h2⟩
      simp only at h1 h2; subst h1
      refine .ok ⟨h2.now, h2.imports, h2.heap, h2.wr, h2.emitted, h2.nwarn, ?_, ?_⟩
      · intro y hy
        simp only [lookupReg_append, h2.regs y hy]
      · intro hs
        simp only [h2.regsEq hs]
  | expr e =>
    have hm2 : ∀ y, skip y → e.mentions y = false := fun y hy => by
      have := hm y hy; simpa [Stmt.mentions] using this
    simp only [Stmt.reloc]
    rw [addStmt_expr, addStmt_expr]
    refine ResRel.bind (eval_sim env r e _ _ h hm2) ?_
    rintro ⟨v, st1⟩ ⟨v', st1'⟩ ⟨h1, h2⟩
    simp only at h1 h2; subst h1
    exact emitVal_sim v h2

theorem addStmts_sim {skip : String → Prop} (env : Env) (r : Loc → Loc) : ∀ (ss : List Stmt) {st st' : PState},
    Sim skip st st' → (∀ s ∈ ss, ∀ y, skip y → s.mentions y = false) →
    ResRel (Sim skip) (addStmts env st (ss.map (Stmt.reloc r))) (addStmts env st' ss)
  | [], _, _, h, _ => .ok h
  | s :: ss, _, _, h, hm => by
    simp only [List.map_cons, addStmts]
    refine ResRel.bind (addStmt_sim env r s h (hm s (List.mem_cons_self ..))) ?_
    intro a b hab
    exact addStmts_sim env r ss hab (fun s' hs' => hm s' (List.mem_cons_of_mem _ hs'))

end Resynth.Sem
