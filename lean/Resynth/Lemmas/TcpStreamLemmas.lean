import Resynth.Spec.TcpStream
/-!
# Facts about the reference semantics `Spec/TcpStream.lean` alone

* arithmetic of `consumed`, prefix-shifting of `expectedAux`
* `Cell.merge` is a commutative idempotent monoid ⇒ reassembly is order-insensitive
* reassembling the expected segments of a history gives back the scripted cells
-/
namespace Resynth.TcpStream

/-! ## consumed -/

@[simp] theorem consumed_nil (d : Dir) : consumed d [] = 0 := rfl

theorem consumed_cons (d : Dir) (e : Ev) (es : List Ev) :
    consumed d (e :: es) = e.consumes d + consumed d es := by
  simp [consumed]

theorem consumed_append (d : Dir) (a b : List Ev) :
    consumed d (a ++ b) = consumed d a + consumed d b := by
  simp [consumed]

@[simp] theorem consumedOps_nil (d : Dir) : consumedOps d [] = 0 := rfl

theorem consumedOps_append (d : Dir) (a b : List TcpOp) :
    consumedOps d (a ++ b) = consumedOps d a + consumedOps d b := by
  simp [consumedOps]

theorem consumedOps_cons (d : Dir) (op : TcpOp) (ops : List TcpOp) :
    consumedOps d (op :: ops) = opConsumes d op + consumedOps d ops := by
  simp [consumedOps]

theorem consumedOps_snoc (d : Dir) (pre : List TcpOp) (op : TcpOp) :
    consumedOps d (pre ++ [op]) = consumedOps d pre + opConsumes d op := by
  simp [consumedOps]

theorem opConsumes_noOverride (d : Dir) (op : TcpOp) (h : noOverride op = true) :
    opConsumes d op = consumed d op.events := by
  simp only [noOverride, Bool.and_eq_true, Option.isNone_iff_eq_none] at h
  cases d <;> simp [opConsumes, ovFor, h.1, h.2]

theorem consumedOps_noOverrides (d : Dir) (h : List TcpOp) (hno : noOverrides h = true) :
    consumedOps d h = consumed d (h.flatMap TcpOp.events) := by
  induction h with
  | nil => rfl
  | cons op ops ih =>
    simp only [noOverrides, List.all_cons, Bool.and_eq_true] at hno
    have := ih (by simpa [noOverrides] using hno.2)
    simp only [consumedOps, List.map_cons, List.sum_cons, List.flatMap_cons, consumed_append] at *
    rw [this, opConsumes_noOverride d op hno.1]

/-! ## expected segments: prefix shifting and append -/

theorem nextSeq_shift (c0 s0 : Nat) (pre pre' : List Ev) (d : Dir) :
    nextSeq (nextSeq c0 s0 pre .c2s) (nextSeq c0 s0 pre .s2c) pre' d = nextSeq c0 s0 (pre ++ pre') d := by
  cases d <;> simp only [nextSeq, isn, consumed_append] <;> omega

theorem segment_shift (c0 s0 : Nat) (pre pre' : List Ev) (e : Ev) :
    e.segment (nextSeq c0 s0 pre .c2s) (nextSeq c0 s0 pre .s2c) pre' = e.segment c0 s0 (pre ++ pre') := by
  cases e <;> simp only [Ev.segment, nextSeq_shift]

theorem expectedAux_shift (c0 s0 : Nat) (pre pre' rest : List Ev) :
    expectedAux (nextSeq c0 s0 pre .c2s) (nextSeq c0 s0 pre .s2c) pre' rest
      = expectedAux c0 s0 (pre ++ pre') rest := by
  induction rest generalizing pre' with
  | nil => rfl
  | cons e es ih => simp only [expectedAux, segment_shift, ih, List.append_assoc]

theorem expectedAux_append (c0 s0 : Nat) (pre a b : List Ev) :
    expectedAux c0 s0 pre (a ++ b) = expectedAux c0 s0 pre a ++ expectedAux c0 s0 (pre ++ a) b := by
  induction a generalizing pre with
  | nil => simp [expectedAux]
  | cons e es ih => simp [expectedAux, ih, List.append_assoc]

theorem counterAfter_noOverrides (c0 s0 : Nat) (pre : List TcpOp) (d : Dir) (h : noOverrides pre = true) :
    counterAfter c0 s0 pre d = nextSeq c0 s0 (pre.flatMap TcpOp.events) d := by
  simp only [counterAfter, nextSeq, consumedOps_noOverrides d pre h]

/-- Without overrides the per-call definition is the flat one: every segment has
`seq = isn + consumed before`, `ack = peer's next`. -/
theorem expectedOpsAux_noOverrides (c0 s0 : Nat) (pre rest : List TcpOp)
    (hp : noOverrides pre = true) (hr : noOverrides rest = true) :
    expectedOpsAux c0 s0 pre rest
      = expectedAux c0 s0 (pre.flatMap TcpOp.events) (rest.flatMap TcpOp.events) := by
  induction rest generalizing pre with
  | nil => rfl
  | cons op ops ih =>
    simp only [noOverrides, List.all_cons, Bool.and_eq_true] at hr
    have hop := hr.1
    simp only [noOverride, Bool.and_eq_true, Option.isNone_iff_eq_none] at hop
    have hp' : noOverrides (pre ++ [op]) = true := by
      simp only [noOverrides, List.all_append, List.all_cons, List.all_nil, Bool.and_true,
        Bool.and_eq_true] at hp ⊢
      exact ⟨hp, hr.1⟩
    rw [expectedOpsAux, ih (pre ++ [op]) hp' (by simpa [noOverrides] using hr.2)]
    simp only [hop.1, hop.2, Option.getD_none, counterAfter_noOverrides _ _ _ _ hp, expectedEvs,
      expectedAux_shift, List.append_nil, List.flatMap_cons, expectedAux_append,
      List.flatMap_append, List.flatMap_nil]

theorem expectedOps_noOverrides (c0 s0 : Nat) (h : List TcpOp) (hno : noOverrides h = true) :
    expectedOps c0 s0 h = expectedEvs c0 s0 (h.flatMap TcpOp.events) := by
  simpa [expectedOps, expectedEvs] using expectedOpsAux_noOverrides c0 s0 [] h rfl hno

/-- Every expected segment belongs to an event of the history and is computed from the events
before it. -/
theorem expectedAux_mem (c0 s0 : Nat) (pre rest : List Ev) (s : Segment)
    (hs : s ∈ expectedAux c0 s0 pre rest) :
    ∃ a e b, rest = a ++ e :: b ∧ e.segment c0 s0 (pre ++ a) = some s := by
  induction rest generalizing pre with
  | nil => simp [expectedAux] at hs
  | cons e es ih =>
    simp only [expectedAux, List.mem_append, Option.mem_toList] at hs
    rcases hs with h | h
    · exact ⟨[], e, es, rfl, by simpa using h⟩
    · obtain ⟨a, e', b, h1, h2⟩ := ih (pre ++ [e]) h
      refine ⟨e :: a, e', b, by simp [h1], ?_⟩
      simpa [List.append_assoc] using h2

theorem expectedEvs_mem (c0 s0 : Nat) (evs : List Ev) (s : Segment) (hs : s ∈ expectedEvs c0 s0 evs) :
    ∃ pre e post, evs = pre ++ e :: post ∧ e.segment c0 s0 pre = some s := by
  simpa using expectedAux_mem c0 s0 [] evs s hs

/-! ## merge algebra -/

@[simp] theorem Cell.gap_merge (a : Cell) : Cell.merge .gap a = a := by simp [Cell.merge]
@[simp] theorem Cell.merge_gap (a : Cell) : Cell.merge a .gap = a := by
  unfold Cell.merge; split <;> simp_all

theorem Cell.merge_comm (a b : Cell) : a.merge b = b.merge a := by
  unfold Cell.merge; grind

theorem Cell.merge_assoc (a b c : Cell) : (a.merge b).merge c = a.merge (b.merge c) := by
  unfold Cell.merge; grind

theorem Cell.merge_left_comm (a b c : Cell) : a.merge (b.merge c) = b.merge (a.merge c) := by
  rw [← Cell.merge_assoc, Cell.merge_comm a b, Cell.merge_assoc]

/-! ## order-insensitivity -/

theorem cellAt_perm (isn : Nat) (d : Dir) (k : Nat) {l₁ l₂ : List Segment} (p : l₁.Perm l₂) :
    cellAt isn d l₁ k = cellAt isn d l₂ k := by
  unfold cellAt
  apply List.Perm.foldr_eq' p
  intro x _ y _ z
  by_cases hx : x.dir = d <;> by_cases hy : y.dir = d <;> simp [hx, hy, Cell.merge_left_comm]

/-- Reassembly does not depend on the order in which segments are seen. -/
theorem reassemble_perm (isn : Nat) (d : Dir) (n : Nat) {l₁ l₂ : List Segment} (p : l₁.Perm l₂) :
    reassemble isn d l₁ n = reassemble isn d l₂ n := by
  unfold reassemble
  apply List.map_congr_left
  intro k _
  exact cellAt_perm isn d k p

theorem cellAt_append (isn : Nat) (d : Dir) (k : Nat) (a b : List Segment) :
    cellAt isn d (a ++ b) k = (cellAt isn d a k).merge (cellAt isn d b k) := by
  induction a with
  | nil => simp [cellAt]
  | cons s ss ih =>
    simp only [cellAt, List.cons_append, List.foldr_cons] at ih ⊢
    by_cases hs : s.dir = d <;> simp [hs, ih, Cell.merge_assoc]

/-! ## getCell -/

@[simp] theorem getCell_nil (i : Nat) : getCell [] i = .gap := by simp [getCell]

theorem getCell_of_le (l : List Cell) (i : Nat) (h : l.length ≤ i) : getCell l i = .gap := by
  simp [getCell, List.getElem?_eq_none h]

theorem getCell_append_left (a b : List Cell) (i : Nat) (h : i < a.length) :
    getCell (a ++ b) i = getCell a i := by
  simp [getCell, List.getElem?_append_left h]

theorem getCell_append_right (a b : List Cell) (i : Nat) (h : a.length ≤ i) :
    getCell (a ++ b) i = getCell b (i - a.length) := by
  simp [getCell, List.getElem?_append_right h]

theorem getCell_replicate_gap (n i : Nat) : getCell (List.replicate n Cell.gap) i = .gap := by
  simp only [getCell, List.getElem?_replicate]; split <;> simp_all

theorem getCell_of_lt (l : List Cell) (i : Nat) (h : i < l.length) : getCell l i = l[i] := by
  simp [getCell, h]

/-! ## reassembling the expected segments -/

theorem cells_length (d : Dir) (e : Ev) : (e.cells d).length = e.consumes d := by
  cases e with
  | ctl d' k => by_cases h : d' = d <;> cases k <;> simp [Ev.cells, Ev.consumes, h, Kind.hasSyn, Kind.hasFin, Kind.seqUnits]
  | data d' bs => by_cases h : d' = d <;> simp [Ev.cells, Ev.consumes, h]
  | hdr d' n => by_cases h : d' = d <;> simp [Ev.cells, Ev.consumes, h]
  | hole d' n => by_cases h : d' = d <;> simp [Ev.cells, Ev.consumes, h]

theorem scriptCells_length (d : Dir) (evs : List Ev) : (scriptCells d evs).length = consumed d evs := by
  simp [scriptCells, consumed, List.length_flatMap, cells_length]

/-- index arithmetic: the unit of a segment sent at `isn + P` that sits at relative position `k` -/
theorem idx_eq (i k P : Nat) (hk : k < 4294967296) (hP : P ≤ 4294967296) :
    (i + k + 4294967296 - ((i + P) % 4294967296) % 4294967296) % 4294967296
      = if P ≤ k then k - P else k + 4294967296 - P := by
  split <;> omega

theorem getCell_idx (u : List Cell) (k P : Nat) (hk : k < 4294967296) (hP : P + u.length ≤ 4294967296) :
    getCell u (if P ≤ k then k - P else k + 4294967296 - P) = if k < P then Cell.gap else getCell u (k - P) := by
  by_cases h : P ≤ k
  · simp [h, Nat.not_lt.mpr h]
  · have : k < P := Nat.lt_of_not_le h
    simp only [h, this, if_true, if_false]
    exact getCell_of_le _ _ (by omega)

/-- what the segment of a single event contributes -/
theorem cellAt_event (c0 s0 : Nat) (d : Dir) (pre : List Ev) (e : Ev) (k : Nat)
    (hk : k < 4294967296) (hP : consumed d pre + e.consumes d ≤ 4294967296) :
    cellAt (isn c0 s0 d) d (e.segment c0 s0 pre).toList k
      = if k < consumed d pre then Cell.gap else getCell (e.cells d) (k - consumed d pre) := by
  have hlen := cells_length d e
  cases e with
  | hole d' n => simp [Ev.segment, cellAt, Ev.cells]; split <;> simp [getCell_replicate_gap]
  | hdr d' n =>
    by_cases h : d' = d
    · subst h
      simp [Ev.segment, cellAt, Ev.cells, getCell_replicate_gap, Segment.cellAt, Segment.units]
    · simp [Ev.segment, cellAt, Ev.cells, h]
  | data d' bs =>
    by_cases h : d' = d
    · subst h
      simp only [Ev.consumes, if_true] at hP
      simp only [Ev.segment, Option.toList_some, cellAt, List.foldr_cons, List.foldr_nil, if_true,
        Cell.merge_gap, Segment.cellAt, Segment.units, Bool.false_eq_true, if_false, List.nil_append,
        List.append_nil, nextSeq, Ev.cells]
      rw [idx_eq _ _ _ hk (by omega), getCell_idx _ _ _ hk (by simpa using hP)]
    · simp [Ev.segment, cellAt, Ev.cells, h]
  | ctl d' kd =>
    by_cases h : d' = d
    · subst h
      simp only [Ev.consumes, if_true] at hP
      simp only [Ev.segment, Option.toList_some, cellAt, List.foldr_cons, List.foldr_nil, if_true,
        Cell.merge_gap, Segment.cellAt, nextSeq]
      rw [idx_eq _ _ _ hk (by omega)]
      have hu : ({ dir := d', seq := (isn c0 s0 d' + consumed d' pre) % 4294967296,
                   ack := if kd.hasAck = true then some ((isn c0 s0 d'.peer + consumed d'.peer pre) % 4294967296) else none,
                   syn := kd.hasSyn, fin := kd.hasFin, rst := kd.hasRst, psh := false, payload := [] } : Segment).units
                = (Ev.ctl d' kd).cells d' := by
        cases kd <;> simp [Segment.units, Ev.cells, Kind.hasSyn, Kind.hasFin]
      rw [hu, getCell_idx _ _ _ hk (by rw [hlen]; simpa [Ev.consumes] using hP)]
    · simp [Ev.segment, cellAt, Ev.cells, h]

theorem cellAt_expectedAux (c0 s0 : Nat) (d : Dir) (k : Nat) (hk : k < 4294967296)
    (rest pre : List Ev) (hP : consumed d pre + consumed d rest ≤ 4294967296) :
    cellAt (isn c0 s0 d) d (expectedAux c0 s0 pre rest) k
      = if k < consumed d pre then Cell.gap else getCell (scriptCells d rest) (k - consumed d pre) := by
  induction rest generalizing pre with
  | nil => simp [expectedAux, cellAt, scriptCells]
  | cons e es ih =>
    rw [consumed_cons] at hP
    have hA := cellAt_event c0 s0 d pre e k hk (by omega)
    have hI := ih (pre ++ [e]) (by rw [consumed_append, consumed_cons, consumed_nil]; omega)
    rw [consumed_append, consumed_cons, consumed_nil, Nat.add_zero] at hI
    have hlen := cells_length d e
    rw [expectedAux, cellAt_append, hA, hI]
    have hsc : scriptCells d (e :: es) = e.cells d ++ scriptCells d es := by simp [scriptCells]
    rw [hsc]
    by_cases h1 : k < consumed d pre
    · have h2 : k < consumed d pre + e.consumes d := by omega
      simp [h1, h2]
    · by_cases h2 : k < consumed d pre + e.consumes d
      · simp only [h1, h2, if_true, if_false, Cell.merge_gap]
        rw [getCell_append_left _ _ _ (by omega)]
      · simp only [h1, h2, if_false]
        rw [getCell_of_le (e.cells d) _ (by omega), Cell.gap_merge,
          getCell_append_right _ _ _ (by omega), hlen]
        congr 1; omega

/-- Reassembling the expected segments of an event history, seen in any order, over the window
the history occupies gives exactly the scripted cells. -/
theorem reassemble_expectedEvs (c0 s0 : Nat) (d : Dir) (evs : List Ev)
    (hlt : consumed d evs ≤ 4294967296) (segs : List Segment)
    (hp : segs.Perm (expectedEvs c0 s0 evs)) :
    reassemble (isn c0 s0 d) d segs (consumed d evs) = scriptCells d evs := by
  rw [reassemble_perm _ _ _ hp]
  apply List.ext_getElem
  · simp [reassemble, scriptCells_length]
  · intro i h1 h2
    simp only [reassemble, List.length_map, List.length_range] at h1
    simp only [reassemble, List.getElem_map, List.getElem_range, expectedEvs]
    rw [cellAt_expectedAux c0 s0 d i (by omega) evs [] (by simpa using hlt)]
    simp only [consumed_nil, Nat.not_lt_zero, if_false, Nat.sub_zero]
    exact getCell_of_lt _ _ h2

/-- …and nothing lies beyond that window. -/
theorem cellAt_expectedEvs_beyond (c0 s0 : Nat) (d : Dir) (evs : List Ev)
    (hlt : consumed d evs ≤ 4294967296) (segs : List Segment)
    (hp : segs.Perm (expectedEvs c0 s0 evs)) (k : Nat) (hk : k < 4294967296)
    (hge : consumed d evs ≤ k) :
    cellAt (isn c0 s0 d) d segs k = .gap := by
  rw [cellAt_perm _ _ _ hp, expectedEvs, cellAt_expectedAux c0 s0 d k hk evs [] (by simpa using hlt)]
  simp only [consumed_nil, Nat.not_lt_zero, if_false, Nat.sub_zero]
  exact getCell_of_le _ _ (by rw [scriptCells_length]; exact hge)

/-! ## application view -/

theorem appStream_bytes (bs : Bytes) (rest : List Cell) :
    appStream (bs.map Cell.byte ++ rest) = (appStream rest).map (bs.map some ++ ·) := by
  induction bs with
  | nil => simp
  | cons b bs ih => simp [appStream, ih, Option.map_map, Function.comp_def]

theorem appStream_gaps (n : Nat) (rest : List Cell) :
    appStream (List.replicate n Cell.gap ++ rest) = (appStream rest).map (List.replicate n none ++ ·) := by
  induction n with
  | zero => simp
  | succ n ih => simp [List.replicate_succ, appStream, ih, Option.map_map, Function.comp_def]

theorem appStream_event (d : Dir) (e : Ev) (rest : List Cell) :
    appStream (e.cells d ++ rest) = (appStream rest).map ((e.chunks d).flatMap Chunk.flat ++ ·) := by
  cases e with
  | ctl d' k => by_cases h : d' = d <;> cases k <;> simp [Ev.cells, Ev.chunks, h, Kind.hasSyn, Kind.hasFin, appStream]
  | data d' bs => by_cases h : d' = d <;> simp [Ev.cells, Ev.chunks, h, appStream_bytes, Chunk.flat]
  | hdr d' n => by_cases h : d' = d <;> simp [Ev.cells, Ev.chunks, h, appStream_gaps, Chunk.flat]
  | hole d' n => by_cases h : d' = d <;> simp [Ev.cells, Ev.chunks, h, appStream_gaps, Chunk.flat]

/-- The application view of the scripted cells is the scripted stream. -/
theorem appStream_scriptCells (d : Dir) (evs : List Ev) :
    appStream (scriptCells d evs) = some ((streams d evs).flatMap Chunk.flat) := by
  induction evs with
  | nil => simp [scriptCells, streams, appStream]
  | cons e es ih =>
    have : scriptCells d (e :: es) = e.cells d ++ scriptCells d es := by simp [scriptCells]
    rw [this, appStream_event, ih]
    simp [streams]

end Resynth.TcpStream
