import Resynth.Lemmas.LRSim
import Resynth.Lemmas.LRFeed
/-! # The automaton computes what the reference parser computes -/
namespace Resynth.LR
open Resynth.Spec

theorem resume_step (c : Cfg) (t : Tok) (ts : List Tok) (h : Inv c.state c.stack) :
    StepSim c t ts (step c t) := by
  obtain ⟨st, s, ss⟩ := c
  obtain ⟨k, txt, loc⟩ := t
  cases st
  case initial => exact rs_initial s ss k txt loc ts h
  case import_ => exact rs_import_ s ss k txt loc ts h
  case importEnd => exact rs_importEnd s ss k txt loc ts h
  case reduceImport => exact rs_reduceImport s ss k txt loc ts h
  case let_ => exact rs_let_ s ss k txt loc ts h
  case assign => exact rs_assign s ss k txt loc ts h
  case refComponent => exact rs_refComponent s ss k txt loc ts h
  case reduceModule => exact rs_reduceModule s ss k txt loc ts h
  case refModule => exact rs_refModule s ss k txt loc ts h
  case reduceObject => exact rs_reduceObject s ss k txt loc ts h
  case reduceRefCall => exact rs_reduceRefCall s ss k txt loc ts h
  case reduceRefNaked => exact rs_reduceRefNaked s ss k txt loc ts h
  case refObject => exact rs_refObject s ss k txt loc ts h
  case refObjEnd => exact rs_refObjEnd s ss k txt loc ts h
  case reduceCall => exact rs_reduceCall s ss k txt loc ts h
  case reduceArg => exact rs_reduceArg s ss k txt loc ts h
  case argNext => exact rs_argNext s ss k txt loc ts h
  case exprArg => exact rs_exprArg s ss k txt loc ts h
  case argName => exact rs_argName s ss k txt loc ts h
  case argVal => exact rs_argVal s ss k txt loc ts h
  case exprStmt => exact rs_exprStmt s ss k txt loc ts h
  case expr => exact rs_expr s ss k txt loc ts h
  case exprRvalue => exact rs_exprRvalue s ss k txt loc ts h
  case ipv4 => exact rs_ipv4 s ss k txt loc ts h
  case ipv4Colon => exact rs_ipv4Colon s ss k txt loc ts h
  case reduceLiteralExpr => exact rs_reduceLiteralExpr s ss k txt loc ts h
  case reduceRefExpr => exact rs_reduceRefExpr s ss k txt loc ts h
  case reduceCallExpr => exact rs_reduceCallExpr s ss k txt loc ts h
  case slash => exact rs_slash s ss k txt loc ts h
  case reduceExpr => exact rs_reduceExpr s ss k txt loc ts h
  case reduceSockAddr => exact rs_reduceSockAddr s ss k txt loc ts h
  case exprStmtEnd => exact rs_exprStmtEnd s ss k txt loc ts h
  case assignStmtEnd => exact rs_assignStmtEnd s ss k txt loc ts h
  case reduceBop => exact rs_reduceBop s ss k txt loc ts h
  case reduceAssign => exact rs_reduceAssign s ss k txt loc ts h
  case reduceExprStmt => exact rs_reduceExprStmt s ss k txt loc ts h
  case reduceAssignStmt => exact rs_reduceAssignStmt s ss k txt loc ts h
  case reduceStmt => exact rs_reduceStmt s ss k txt loc ts h
  case accept => exact rs_accept s ss k txt loc ts h

/-- what `feed` means for the reference parser -/
def FeedSim (c : Cfg) (t : Tok) (ts : List Tok) : Res Cfg → Prop
  | .ok c' => resume c (t :: ts) = resume c' ts ∧ Inv c'.state c'.stack ∧
      (t.kind = .eof → c'.state = .accept)
  | .parseError => resume c (t :: ts) = .error (ts.length + 1)
  | .panic => False

theorem feedAux_sim (fuel : Nat) (c : Cfg) (t : Tok) (ts : List Tok) (h : Inv c.state c.stack)
    (hf : c.stack.length + rank c.state < fuel) : FeedSim c t ts (feedAux fuel c t) := by
  induction fuel generalizing c with
  | zero => omega
  | succ n ih =>
    have hs := step_inv c t h
    have hr := resume_step c t ts h
    cases hst : step c t with
    | parseError =>
      have key : feedAux (n + 1) c t = .parseError := by simp [feedAux, hst]
      rw [key]; simpa [hst, StepSim, FeedSim] using hr
    | panic => simp [hst, StepOk] at hs
    | ok r =>
      obtain ⟨c', b⟩ := r
      cases b with
      | true =>
        have key : feedAux (n + 1) c t = .ok c' := by simp [feedAux, hst]
        rw [key]
        simp only [hst, StepOk, StepSim] at hs hr
        exact ⟨hr.1, hs, hr.2⟩
      | false =>
        have key : feedAux (n + 1) c t = feedAux n c' t := by simp [feedAux, hst]
        rw [key]
        simp only [hst, StepOk, StepSim] at hs hr
        have := ih c' hs.1 (by omega)
        generalize feedAux n c' t = r at this ⊢
        cases r with
        | ok c'' => simp only [FeedSim, hr] at this ⊢; exact this
        | parseError => simp only [FeedSim, hr] at this ⊢; exact this
        | panic => simp [FeedSim] at this

theorem feed_sim (c : Cfg) (t : Tok) (ts : List Tok) (h : Inv c.state c.stack) :
    FeedSim c t ts (feed c t) :=
  feedAux_sim _ c t ts h (by have := rank_le c.state; omega)

theorem resume_accept (c : Cfg) (h : Inv c.state c.stack) (ha : c.state = .accept) :
    resume c [] = .ok c.stmts := by
  obtain ⟨st, s, ss⟩ := c
  simp only at ha h; subst ha
  simp only [Inv] at h; subst h
  simp [resume]

/-- what feeding an `EOF`-terminated token list means for the reference parser -/
def RunSim (c : Cfg) (i : Nat) (ts : List Tok) : Run → Prop
  | .done c' => resume c ts = .ok c'.stmts
  | .parseError j => i ≤ j ∧ j < i + ts.length ∧ resume c ts = .error (ts.length - (j - i))
  | .panic _ => False

theorem feedList_sim (c : Cfg) (i : Nat) (pre : List Tok) (e : Tok) (he : e.kind = .eof)
    (h : Inv c.state c.stack) : RunSim c i (pre ++ [e]) (feedList c i (pre ++ [e])) := by
  induction pre generalizing c i with
  | nil =>
    have hf := feed_sim c e [] h
    simp only [List.nil_append, feedList]
    cases hfe : feed c e with
    | ok c' =>
      simp only [hfe, FeedSim] at hf
      simp only [RunSim]
      rw [hf.1]; exact resume_accept c' hf.2.1 (hf.2.2 he)
    | parseError => simp only [hfe, FeedSim] at hf; simp [RunSim, hf]
    | panic => simp [hfe, FeedSim] at hf
  | cons t pre ih =>
    have hf := feed_sim c t (pre ++ [e]) h
    cases hfe : feed c t with
    | ok c' =>
      have key : feedList c i (t :: pre ++ [e]) = feedList c' (i + 1) (pre ++ [e]) := by
        simp [feedList, hfe]
      rw [key]
      simp only [hfe, FeedSim] at hf
      have := ih c' (i + 1) hf.2.1
      generalize feedList c' (i + 1) (pre ++ [e]) = r at this ⊢
      cases r with
      | done c'' => simp only [RunSim, List.cons_append, hf.1] at this ⊢; exact this
      | parseError j =>
        simp only [RunSim, List.cons_append, hf.1] at this ⊢
        obtain ⟨h1, h2, h3⟩ := this
        refine ⟨by omega, by simp at h2 ⊢; omega, ?_⟩
        rw [h3]; simp; omega
      | panic j => simp [RunSim] at this
    | parseError =>
      have key : feedList c i (t :: pre ++ [e]) = .parseError i := by simp [feedList, hfe]
      rw [key]
      simp only [hfe, FeedSim] at hf; simp [RunSim, hf]
    | panic => simp [hfe, FeedSim] at hf

theorem resume_init (ts : List Tok) : resume Cfg.init ts = sProgram [] ts := by
  simp [resume, Cfg.init]

end Resynth.LR
