import Resynth.Lemmas.LexIpv4
/-!
# `scanOne` is the spec's `select`: the first rule with a match, matched greedily
-/
namespace Resynth.LexLemmas
open Resynth Resynth.Lex Resynth.Spec

/-- the model's classification of what a rule produces -/
def clsOf (r : LexRule) : Cls :=
  match r.kind with
  | none => .skip
  | some .strLit => .str
  | some k => .tok k

theorem select_nil : select [] = none := by
  simp [select, rules, matchLen, longest]

theorem findSome_cons_or {α β : Type} (f : α → Option β) (a : α) (as : List α) :
    List.findSome? f (a :: as) = (f a).or (List.findSome? f as) := by
  rw [List.findSome?_cons]; cases f a <;> rfl

theorem or_ite {β : Type} (b : Bool) (x : β) (K : Option β) :
    (if b = true then some x else none).or K = if b = true then some x else K := by
  cases b <;> simp

theorem map_ite {β γ : Type} (g : β → γ) (b : Bool) (x : β) (K : Option β) :
    Option.map g (if b = true then some x else K) = if b = true then some (g x) else Option.map g K := by
  cases b <;> simp

theorem chain_step {α β : Type} (g : α → β) (b : Bool) (x : α) (y : β) (K : Option α) (L : Option β)
    (h1 : g x = y) (h2 : L = Option.map g K) :
    (if b = true then some y else L) = Option.map g (if b = true then some x else K) := by
  cases b <;> simp [h1, h2]

theorem scanOne_eq_spec (cs : List Char) :
    scanOne cs = (select cs).map fun p => (clsOf p.1, p.2) := by
  cases cs with
  | nil => simp [select_nil, scanOne]
  | cons c rest =>
    simp only [select, rules, findSome_cons_or, List.findSome?_nil]
    rw [matchLen_ws, matchLen_hash, matchLen_cpp, matchLen_newline]
    rw [matchLen_fixed1 .lparen "(" '(' rfl, matchLen_fixed1 .rparen ")" ')' rfl,
      matchLen_fixed1 .dot "." '.' rfl, matchLen_dcolon, matchLen_fixed1 .colon ":" ':' rfl,
      matchLen_fixed1 .semi ";" ';' rfl, matchLen_fixed1 .equals "=" '=' rfl,
      matchLen_fixed1 .comma "," ',' rfl, matchLen_fixed1 .slash "/" '/' rfl]
    rw [matchLen_kw .kwImport "import" (by decide), matchLen_kw .kwLet "let" (by decide),
      matchLen_kw .boolLit "true" (by decide), matchLen_kw .boolLit "false" (by decide)]
    rw [matchLen_ident, matchLen_ipv4, matchLen_string, matchLen_hex, matchLen_int]
    simp only [map_ite, Option.map_none]
    simp only [or_ite]
    unfold scanOne
    simp only []
    iterate 18 refine chain_step _ _ _ _ _ _ rfl ?_
    cases ipv4Len (c :: rest) with
    | some n => rfl
    | none =>
      simp only [Option.map_none, Option.none_or, Option.or_none]
      by_cases hq : (c == '"') = true
      · rw [if_pos hq, if_pos hq]
        cases closeQuote rest with
        | some n => rfl
        | none =>
          simp only [Option.map_none, Option.none_or]
          have hc : c = '"' := by simpa using hq
          subst hc
          have e1 : ('"' == '0') = false := by decide
          have e2 : isDigit '"' = false := by decide
          have e3 : ('"' == '-') = false := by decide
          simp [e1, e2, e3]
      · rw [if_neg hq, if_neg hq]
        simp only [Option.map_none, Option.none_or]
        refine chain_step _ _ _ _ _ _ rfl ?_
        refine chain_step _ _ _ _ _ _ rfl ?_
        refine chain_step _ _ _ _ _ _ rfl ?_
        rfl

end Resynth.LexLemmas
