import Resynth.Lemmas.ErrLoc
import Resynth.Lemmas.LRFeed
/-!
# The parser builds trees without the empty expression, whose positions are positions of tokens it was fed

`Expr.Good P e`: `Expr.nil` occurs nowhere in `e` and every position recorded in `e` satisfies `P`.
`NodeGood P` lifts this to the nodes of the parser stack (including the positions held in `Loc`,
`PathBuilder` and `ObjRef` nodes).  One lemma per parser state (`sg_*`) shows that a loop iteration of
`Parser::feed` on a token whose position satisfies `P` keeps every node and every finished statement
`Good P`; `feed_good` lifts this to `feed`.  (Same structure as `Lemmas/TotalParseStep.lean`.)
-/
namespace Resynth

mutual
/-- no empty expression inside, and every recorded position satisfies `P` -/
def Expr.Good (P : Loc → Prop) : Expr → Prop
  | .nil => False
  | .lit l _ => P l
  | .ref o => P o.loc
  | .call o a => P o.loc ∧ a.Good P
  | .slash a b => a.Good P ∧ b.Good P
def Args.Good (P : Loc → Prop) : Args → Prop
  | .nil => True
  | .cons _ e r => e.Good P ∧ r.Good P
end

def Stmt.Good (P : Loc → Prop) : Stmt → Prop
  | .imp l _ => P l
  | .assign l _ e => P l ∧ e.Good P
  | .expr e => e.Good P

mutual
theorem Expr.Good.spec {P : Loc → Prop} : ∀ (e : Expr), e.Good P → e.noNil = true ∧ ∀ x ∈ e.locs, P x
  | .nil, h => by simp [Expr.Good] at h
  | .lit l _, h => by simpa [Expr.Good, Expr.noNil, Expr.locs] using h
  | .ref o, h => by simpa [Expr.Good, Expr.noNil, Expr.locs] using h
  | .call o a, h => by
    simp only [Expr.Good] at h
    have := Args.Good.spec a h.2
    simp only [Expr.noNil, Expr.locs, List.mem_cons, forall_eq_or_imp]
    exact ⟨this.1, h.1, this.2⟩
  | .slash a b, h => by
    simp only [Expr.Good] at h
    have ha := Expr.Good.spec a h.1
    have hb := Expr.Good.spec b h.2
    simp only [Expr.noNil, Expr.locs, List.mem_append, Bool.and_eq_true]
    exact ⟨⟨ha.1, hb.1⟩, fun x hx => hx.elim (ha.2 x) (hb.2 x)⟩
theorem Args.Good.spec {P : Loc → Prop} : ∀ (a : Args), a.Good P → a.noNil = true ∧ ∀ x ∈ a.locs, P x
  | .nil, _ => by simp [Args.noNil, Args.locs]
  | .cons _ e r, h => by
    simp only [Args.Good] at h
    have he := Expr.Good.spec e h.1
    have hr := Args.Good.spec r h.2
    simp only [Args.noNil, Args.locs, List.mem_append, Bool.and_eq_true]
    exact ⟨⟨he.1, hr.1⟩, fun x hx => hx.elim (he.2 x) (hr.2 x)⟩
end

theorem Stmt.Good.spec {P : Loc → Prop} (s : Stmt) (h : s.Good P) : s.noNil = true ∧ ∀ x ∈ s.locs, P x := by
  cases s with
  | imp l m => simpa [Stmt.Good, Stmt.noNil, Stmt.locs] using h
  | assign l t e =>
    have := Expr.Good.spec e h.2
    simp only [Stmt.noNil, Stmt.locs, List.mem_cons, forall_eq_or_imp]
    exact ⟨this.1, h.1, this.2⟩
  | expr e => exact Expr.Good.spec e h

@[simp] theorem Args.Good_snoc (P : Loc → Prop) : ∀ (l : Args) (n : Option String) (e : Expr),
    (l.snoc n e).Good P ↔ l.Good P ∧ e.Good P
  | .nil, n, e => by simp [Args.snoc, Args.Good]
  | .cons m f r, n, e => by simp [Args.snoc, Args.Good, Args.Good_snoc P r n e, and_assoc]

namespace LR

/-- one stack node: its trees are `Good P`, the positions it holds satisfy `P` -/
def NodeGood (P : Loc → Prop) : Node → Prop
  | .argList l => l.Good P
  | .path p => P p.loc
  | .obj o => P o.loc
  | .expr e => e.Good P
  | .assign l _ e => P l ∧ e.Good P
  | .call o a => P o.loc ∧ a.Good P
  | .stmt s => s.Good P
  | .loc l => P l
  | _ => True

def StackGood (P : Loc → Prop) : Stack → Prop
  | [] => True
  | n :: s => NodeGood P n ∧ StackGood P s

def StmtsGood (P : Loc → Prop) (ss : List Stmt) : Prop := ∀ s ∈ ss, s.Good P

def CfgGood (P : Loc → Prop) (c : Cfg) : Prop := StackGood P c.stack ∧ StmtsGood P c.stmts

def StepGood (P : Loc → Prop) : Res (Cfg × Bool) → Prop
  | .ok (c', _) => CfgGood P c'
  | _ => True

@[simp] theorem StackGood_nil (P : Loc → Prop) : StackGood P [] ↔ True := Iff.rfl
@[simp] theorem StackGood_cons (P : Loc → Prop) (n s) : StackGood P (n :: s) ↔ NodeGood P n ∧ StackGood P s := Iff.rfl
@[simp] theorem StmtsGood_append (P : Loc → Prop) (a : List Stmt) (s : Stmt) :
    StmtsGood P (a ++ [s]) ↔ StmtsGood P a ∧ s.Good P := by
  simp [StmtsGood, List.mem_append, or_imp, forall_and]
theorem StmtsGood_nil (P : Loc → Prop) : StmtsGood P [] := by simp [StmtsGood]

section Steps
attribute [local simp] StepGood CfgGood NodeGood step dispatch bind pure Bind.bind Pure.pure reduceImportStmt popStr popPath
  reduceObject reduceModule reduceRef reduceSockaddr reduceLiteralExpr reduceRefExpr reduceCallExpr reduceBop
  reduceArg reduceCall reduceAssign reduceExprStmt reduceAssignStmt pushLiteral fromToken PathB.new
  Expr.Good Args.Good Stmt.Good List.forall_mem_append or_imp forall_and

set_option linter.unusedVariables false

/-- destructure the shape invariant, then case on the token kind -/
local macro "wf_state" h:ident k:ident : tactic => `(tactic| (
  simp only [Inv] at $h:ident
  try split at $h:ident
  all_goals (try contradiction)
  all_goals (try subst $h:ident)
  all_goals (cases $k:ident <;> simp_all)))

/-- the same for states whose action does not depend on the token -/
local macro "wf_state0" h:ident : tactic => `(tactic| (
  simp only [Inv] at $h:ident
  try split at $h:ident
  all_goals (try contradiction)
  all_goals (try subst $h:ident)
  all_goals (simp_all)))

theorem sg_initial (P : Loc → Prop) (s : Stack) (ss : List Stmt) (k txt loc) (h : Inv .initial s) (hw : StackGood P s)
    (hs : StmtsGood P ss) (ht : P loc) : StepGood P (step ⟨.initial, s, ss⟩ ⟨k, txt, loc⟩) := by
  wf_state h k

theorem sg_import_ (P : Loc → Prop) (s : Stack) (ss : List Stmt) (k txt loc) (h : Inv .import_ s) (hw : StackGood P s)
    (hs : StmtsGood P ss) (ht : P loc) : StepGood P (step ⟨.import_, s, ss⟩ ⟨k, txt, loc⟩) := by
  wf_state h k

theorem sg_importEnd (P : Loc → Prop) (s : Stack) (ss : List Stmt) (k txt loc) (h : Inv .importEnd s) (hw : StackGood P s)
    (hs : StmtsGood P ss) (ht : P loc) : StepGood P (step ⟨.importEnd, s, ss⟩ ⟨k, txt, loc⟩) := by
  wf_state h k

theorem sg_let_ (P : Loc → Prop) (s : Stack) (ss : List Stmt) (k txt loc) (h : Inv .let_ s) (hw : StackGood P s)
    (hs : StmtsGood P ss) (ht : P loc) : StepGood P (step ⟨.let_, s, ss⟩ ⟨k, txt, loc⟩) := by
  wf_state h k

theorem sg_assign (P : Loc → Prop) (s : Stack) (ss : List Stmt) (k txt loc) (h : Inv .assign s) (hw : StackGood P s)
    (hs : StmtsGood P ss) (ht : P loc) : StepGood P (step ⟨.assign, s, ss⟩ ⟨k, txt, loc⟩) := by
  wf_state h k

theorem sg_refComponent (P : Loc → Prop) (s : Stack) (ss : List Stmt) (k txt loc) (h : Inv .refComponent s) (hw : StackGood P s)
    (hs : StmtsGood P ss) (ht : P loc) : StepGood P (step ⟨.refComponent, s, ss⟩ ⟨k, txt, loc⟩) := by
  wf_state h k

theorem sg_refModule (P : Loc → Prop) (s : Stack) (ss : List Stmt) (k txt loc) (h : Inv .refModule s) (hw : StackGood P s)
    (hs : StmtsGood P ss) (ht : P loc) : StepGood P (step ⟨.refModule, s, ss⟩ ⟨k, txt, loc⟩) := by
  wf_state h k

theorem sg_refObject (P : Loc → Prop) (s : Stack) (ss : List Stmt) (k txt loc) (h : Inv .refObject s) (hw : StackGood P s)
    (hs : StmtsGood P ss) (ht : P loc) : StepGood P (step ⟨.refObject, s, ss⟩ ⟨k, txt, loc⟩) := by
  wf_state h k

theorem sg_refObjEnd (P : Loc → Prop) (s : Stack) (ss : List Stmt) (k txt loc) (h : Inv .refObjEnd s) (hw : StackGood P s)
    (hs : StmtsGood P ss) (ht : P loc) : StepGood P (step ⟨.refObjEnd, s, ss⟩ ⟨k, txt, loc⟩) := by
  wf_state h k

theorem sg_argNext (P : Loc → Prop) (s : Stack) (ss : List Stmt) (k txt loc) (h : Inv .argNext s) (hw : StackGood P s)
    (hs : StmtsGood P ss) (ht : P loc) : StepGood P (step ⟨.argNext, s, ss⟩ ⟨k, txt, loc⟩) := by
  wf_state h k

theorem sg_exprArg (P : Loc → Prop) (s : Stack) (ss : List Stmt) (k txt loc) (h : Inv .exprArg s) (hw : StackGood P s)
    (hs : StmtsGood P ss) (ht : P loc) : StepGood P (step ⟨.exprArg, s, ss⟩ ⟨k, txt, loc⟩) := by
  wf_state h k

theorem sg_argName (P : Loc → Prop) (s : Stack) (ss : List Stmt) (k txt loc) (h : Inv .argName s) (hw : StackGood P s)
    (hs : StmtsGood P ss) (ht : P loc) : StepGood P (step ⟨.argName, s, ss⟩ ⟨k, txt, loc⟩) := by
  wf_state h k

theorem sg_ipv4 (P : Loc → Prop) (s : Stack) (ss : List Stmt) (k txt loc) (h : Inv .ipv4 s) (hw : StackGood P s)
    (hs : StmtsGood P ss) (ht : P loc) : StepGood P (step ⟨.ipv4, s, ss⟩ ⟨k, txt, loc⟩) := by
  wf_state h k

theorem sg_slash (P : Loc → Prop) (s : Stack) (ss : List Stmt) (k txt loc) (h : Inv .slash s) (hw : StackGood P s)
    (hs : StmtsGood P ss) (ht : P loc) : StepGood P (step ⟨.slash, s, ss⟩ ⟨k, txt, loc⟩) := by
  wf_state h k

theorem sg_exprStmtEnd (P : Loc → Prop) (s : Stack) (ss : List Stmt) (k txt loc) (h : Inv .exprStmtEnd s) (hw : StackGood P s)
    (hs : StmtsGood P ss) (ht : P loc) : StepGood P (step ⟨.exprStmtEnd, s, ss⟩ ⟨k, txt, loc⟩) := by
  wf_state h k

theorem sg_assignStmtEnd (P : Loc → Prop) (s : Stack) (ss : List Stmt) (k txt loc) (h : Inv .assignStmtEnd s) (hw : StackGood P s)
    (hs : StmtsGood P ss) (ht : P loc) : StepGood P (step ⟨.assignStmtEnd, s, ss⟩ ⟨k, txt, loc⟩) := by
  wf_state h k

theorem sg_reduceImport (P : Loc → Prop) (s : Stack) (ss : List Stmt) (k txt loc) (h : Inv .reduceImport s) (hw : StackGood P s)
    (hs : StmtsGood P ss) (ht : P loc) : StepGood P (step ⟨.reduceImport, s, ss⟩ ⟨k, txt, loc⟩) := by
  wf_state0 h

theorem sg_reduceModule (P : Loc → Prop) (s : Stack) (ss : List Stmt) (k txt loc) (h : Inv .reduceModule s) (hw : StackGood P s)
    (hs : StmtsGood P ss) (ht : P loc) : StepGood P (step ⟨.reduceModule, s, ss⟩ ⟨k, txt, loc⟩) := by
  wf_state0 h

theorem sg_reduceObject (P : Loc → Prop) (s : Stack) (ss : List Stmt) (k txt loc) (h : Inv .reduceObject s) (hw : StackGood P s)
    (hs : StmtsGood P ss) (ht : P loc) : StepGood P (step ⟨.reduceObject, s, ss⟩ ⟨k, txt, loc⟩) := by
  wf_state0 h

theorem sg_reduceRefCall (P : Loc → Prop) (s : Stack) (ss : List Stmt) (k txt loc) (h : Inv .reduceRefCall s) (hw : StackGood P s)
    (hs : StmtsGood P ss) (ht : P loc) : StepGood P (step ⟨.reduceRefCall, s, ss⟩ ⟨k, txt, loc⟩) := by
  wf_state0 h

theorem sg_reduceRefNaked (P : Loc → Prop) (s : Stack) (ss : List Stmt) (k txt loc) (h : Inv .reduceRefNaked s) (hw : StackGood P s)
    (hs : StmtsGood P ss) (ht : P loc) : StepGood P (step ⟨.reduceRefNaked, s, ss⟩ ⟨k, txt, loc⟩) := by
  wf_state0 h

theorem sg_reduceCall (P : Loc → Prop) (s : Stack) (ss : List Stmt) (k txt loc) (h : Inv .reduceCall s) (hw : StackGood P s)
    (hs : StmtsGood P ss) (ht : P loc) : StepGood P (step ⟨.reduceCall, s, ss⟩ ⟨k, txt, loc⟩) := by
  wf_state0 h

theorem sg_reduceArg (P : Loc → Prop) (s : Stack) (ss : List Stmt) (k txt loc) (h : Inv .reduceArg s) (hw : StackGood P s)
    (hs : StmtsGood P ss) (ht : P loc) : StepGood P (step ⟨.reduceArg, s, ss⟩ ⟨k, txt, loc⟩) := by
  wf_state0 h

theorem sg_exprStmt (P : Loc → Prop) (s : Stack) (ss : List Stmt) (k txt loc) (h : Inv .exprStmt s) (hw : StackGood P s)
    (hs : StmtsGood P ss) (ht : P loc) : StepGood P (step ⟨.exprStmt, s, ss⟩ ⟨k, txt, loc⟩) := by
  wf_state0 h

theorem sg_exprRvalue (P : Loc → Prop) (s : Stack) (ss : List Stmt) (k txt loc) (h : Inv .exprRvalue s) (hw : StackGood P s)
    (hs : StmtsGood P ss) (ht : P loc) : StepGood P (step ⟨.exprRvalue, s, ss⟩ ⟨k, txt, loc⟩) := by
  wf_state0 h

theorem sg_reduceLiteralExpr (P : Loc → Prop) (s : Stack) (ss : List Stmt) (k txt loc) (h : Inv .reduceLiteralExpr s) (hw : StackGood P s)
    (hs : StmtsGood P ss) (ht : P loc) : StepGood P (step ⟨.reduceLiteralExpr, s, ss⟩ ⟨k, txt, loc⟩) := by
  wf_state0 h

theorem sg_reduceRefExpr (P : Loc → Prop) (s : Stack) (ss : List Stmt) (k txt loc) (h : Inv .reduceRefExpr s) (hw : StackGood P s)
    (hs : StmtsGood P ss) (ht : P loc) : StepGood P (step ⟨.reduceRefExpr, s, ss⟩ ⟨k, txt, loc⟩) := by
  wf_state0 h

theorem sg_reduceCallExpr (P : Loc → Prop) (s : Stack) (ss : List Stmt) (k txt loc) (h : Inv .reduceCallExpr s) (hw : StackGood P s)
    (hs : StmtsGood P ss) (ht : P loc) : StepGood P (step ⟨.reduceCallExpr, s, ss⟩ ⟨k, txt, loc⟩) := by
  wf_state0 h

theorem sg_reduceSockAddr (P : Loc → Prop) (s : Stack) (ss : List Stmt) (k txt loc) (h : Inv .reduceSockAddr s) (hw : StackGood P s)
    (hs : StmtsGood P ss) (ht : P loc) : StepGood P (step ⟨.reduceSockAddr, s, ss⟩ ⟨k, txt, loc⟩) := by
  wf_state0 h

theorem sg_reduceBop (P : Loc → Prop) (s : Stack) (ss : List Stmt) (k txt loc) (h : Inv .reduceBop s) (hw : StackGood P s)
    (hs : StmtsGood P ss) (ht : P loc) : StepGood P (step ⟨.reduceBop, s, ss⟩ ⟨k, txt, loc⟩) := by
  wf_state0 h

theorem sg_reduceAssign (P : Loc → Prop) (s : Stack) (ss : List Stmt) (k txt loc) (h : Inv .reduceAssign s) (hw : StackGood P s)
    (hs : StmtsGood P ss) (ht : P loc) : StepGood P (step ⟨.reduceAssign, s, ss⟩ ⟨k, txt, loc⟩) := by
  wf_state0 h

theorem sg_reduceExprStmt (P : Loc → Prop) (s : Stack) (ss : List Stmt) (k txt loc) (h : Inv .reduceExprStmt s) (hw : StackGood P s)
    (hs : StmtsGood P ss) (ht : P loc) : StepGood P (step ⟨.reduceExprStmt, s, ss⟩ ⟨k, txt, loc⟩) := by
  wf_state0 h

theorem sg_reduceAssignStmt (P : Loc → Prop) (s : Stack) (ss : List Stmt) (k txt loc) (h : Inv .reduceAssignStmt s) (hw : StackGood P s)
    (hs : StmtsGood P ss) (ht : P loc) : StepGood P (step ⟨.reduceAssignStmt, s, ss⟩ ⟨k, txt, loc⟩) := by
  wf_state0 h

theorem sg_reduceStmt (P : Loc → Prop) (s : Stack) (ss : List Stmt) (k txt loc) (h : Inv .reduceStmt s) (hw : StackGood P s)
    (hs : StmtsGood P ss) (ht : P loc) : StepGood P (step ⟨.reduceStmt, s, ss⟩ ⟨k, txt, loc⟩) := by
  wf_state0 h

theorem sg_accept (P : Loc → Prop) (s : Stack) (ss : List Stmt) (k txt loc) (h : Inv .accept s) (hw : StackGood P s)
    (hs : StmtsGood P ss) (ht : P loc) : StepGood P (step ⟨.accept, s, ss⟩ ⟨k, txt, loc⟩) := by
  wf_state0 h

theorem sg_expr (P : Loc → Prop) (s : Stack) (ss : List Stmt) (k txt loc) (h : Inv .expr s) (hw : StackGood P s)
    (hs : StmtsGood P ss) (ht : P loc) : StepGood P (step ⟨.expr, s, ss⟩ ⟨k, txt, loc⟩) := by
  simp only [Inv] at h
  cases hl : litOfToken ⟨k, txt, loc⟩ with
  | none => cases k <;> simp_all
  | some v => cases k <;> simp_all

theorem sg_argVal (P : Loc → Prop) (s : Stack) (ss : List Stmt) (k txt loc) (h : Inv .argVal s) (hw : StackGood P s)
    (hs : StmtsGood P ss) (ht : P loc) : StepGood P (step ⟨.argVal, s, ss⟩ ⟨k, txt, loc⟩) := by
  simp only [Inv] at h
  split at h
  · next n l o c =>
    cases hl : litOfToken ⟨k, txt, loc⟩ with
    | none =>
      cases k
      case rparen => cases n <;> simp_all
      all_goals simp_all
    | some v =>
      cases k
      case rparen => cases n <;> simp_all
      all_goals simp_all
  · contradiction

theorem sg_ipv4Colon (P : Loc → Prop) (s : Stack) (ss : List Stmt) (k txt loc) (h : Inv .ipv4Colon s) (hw : StackGood P s)
    (hs : StmtsGood P ss) (ht : P loc) : StepGood P (step ⟨.ipv4Colon, s, ss⟩ ⟨k, txt, loc⟩) := by
  simp only [Inv] at h
  split at h
  · cases hl : litOfToken ⟨k, txt, loc⟩ with
    | none => cases k <;> simp_all
    | some v =>
      cases k
      case intLit =>
        obtain ⟨n, rfl⟩ := litOfToken_int_some hl
        by_cases hn : n > 65535 <;> simp [hl, hn] <;> simp_all
      all_goals simp_all
  · contradiction

theorem sg_reduceExpr (P : Loc → Prop) (s : Stack) (ss : List Stmt) (k txt loc) (h : Inv .reduceExpr s) (hw : StackGood P s)
    (hs : StmtsGood P ss) (ht : P loc) : StepGood P (step ⟨.reduceExpr, s, ss⟩ ⟨k, txt, loc⟩) := by
  simp only [Inv] at h
  split at h
  · cases h <;> simp_all
  · contradiction



end Steps

/-! ## `step`, `feed` -/

theorem step_good (P : Loc → Prop) (c : Cfg) (t : Tok) (h : Inv c.state c.stack) (hw : CfgGood P c)
    (ht : P t.loc) : StepGood P (step c t) := by
  obtain ⟨st, s, ss⟩ := c
  obtain ⟨k, txt, loc⟩ := t
  cases st
  case initial => exact sg_initial P s ss k txt loc h hw.1 hw.2 ht
  case import_ => exact sg_import_ P s ss k txt loc h hw.1 hw.2 ht
  case importEnd => exact sg_importEnd P s ss k txt loc h hw.1 hw.2 ht
  case reduceImport => exact sg_reduceImport P s ss k txt loc h hw.1 hw.2 ht
  case let_ => exact sg_let_ P s ss k txt loc h hw.1 hw.2 ht
  case assign => exact sg_assign P s ss k txt loc h hw.1 hw.2 ht
  case refComponent => exact sg_refComponent P s ss k txt loc h hw.1 hw.2 ht
  case reduceModule => exact sg_reduceModule P s ss k txt loc h hw.1 hw.2 ht
  case refModule => exact sg_refModule P s ss k txt loc h hw.1 hw.2 ht
  case reduceObject => exact sg_reduceObject P s ss k txt loc h hw.1 hw.2 ht
  case reduceRefCall => exact sg_reduceRefCall P s ss k txt loc h hw.1 hw.2 ht
  case reduceRefNaked => exact sg_reduceRefNaked P s ss k txt loc h hw.1 hw.2 ht
  case refObject => exact sg_refObject P s ss k txt loc h hw.1 hw.2 ht
  case refObjEnd => exact sg_refObjEnd P s ss k txt loc h hw.1 hw.2 ht
  case reduceCall => exact sg_reduceCall P s ss k txt loc h hw.1 hw.2 ht
  case reduceArg => exact sg_reduceArg P s ss k txt loc h hw.1 hw.2 ht
  case argNext => exact sg_argNext P s ss k txt loc h hw.1 hw.2 ht
  case exprArg => exact sg_exprArg P s ss k txt loc h hw.1 hw.2 ht
  case argName => exact sg_argName P s ss k txt loc h hw.1 hw.2 ht
  case argVal => exact sg_argVal P s ss k txt loc h hw.1 hw.2 ht
  case exprStmt => exact sg_exprStmt P s ss k txt loc h hw.1 hw.2 ht
  case expr => exact sg_expr P s ss k txt loc h hw.1 hw.2 ht
  case exprRvalue => exact sg_exprRvalue P s ss k txt loc h hw.1 hw.2 ht
  case ipv4 => exact sg_ipv4 P s ss k txt loc h hw.1 hw.2 ht
  case ipv4Colon => exact sg_ipv4Colon P s ss k txt loc h hw.1 hw.2 ht
  case reduceLiteralExpr => exact sg_reduceLiteralExpr P s ss k txt loc h hw.1 hw.2 ht
  case reduceRefExpr => exact sg_reduceRefExpr P s ss k txt loc h hw.1 hw.2 ht
  case reduceCallExpr => exact sg_reduceCallExpr P s ss k txt loc h hw.1 hw.2 ht
  case slash => exact sg_slash P s ss k txt loc h hw.1 hw.2 ht
  case reduceExpr => exact sg_reduceExpr P s ss k txt loc h hw.1 hw.2 ht
  case reduceSockAddr => exact sg_reduceSockAddr P s ss k txt loc h hw.1 hw.2 ht
  case exprStmtEnd => exact sg_exprStmtEnd P s ss k txt loc h hw.1 hw.2 ht
  case assignStmtEnd => exact sg_assignStmtEnd P s ss k txt loc h hw.1 hw.2 ht
  case reduceBop => exact sg_reduceBop P s ss k txt loc h hw.1 hw.2 ht
  case reduceAssign => exact sg_reduceAssign P s ss k txt loc h hw.1 hw.2 ht
  case reduceExprStmt => exact sg_reduceExprStmt P s ss k txt loc h hw.1 hw.2 ht
  case reduceAssignStmt => exact sg_reduceAssignStmt P s ss k txt loc h hw.1 hw.2 ht
  case reduceStmt => exact sg_reduceStmt P s ss k txt loc h hw.1 hw.2 ht
  case accept => exact sg_accept P s ss k txt loc h hw.1 hw.2 ht

theorem feedAux_good (P : Loc → Prop) (fuel : Nat) (c : Cfg) (t : Tok) (h : Inv c.state c.stack)
    (hw : CfgGood P c) (ht : P t.loc) {c' : Cfg} (hf : feedAux fuel c t = .ok c') : CfgGood P c' := by
  induction fuel generalizing c with
  | zero => simp [feedAux] at hf
  | succ n ih =>
    have hs := step_inv c t h
    have hsw := step_good P c t h hw ht
    unfold feedAux at hf
    cases hst : step c t with
    | parseError => simp [hst] at hf
    | panic => simp [hst] at hf
    | ok r =>
      obtain ⟨c1, b⟩ := r
      rw [hst] at hsw hs
      cases b with
      | true => simp only [hst, Res.ok.injEq] at hf; subst hf; exact hsw
      | false =>
        simp only [hst] at hf
        exact ih c1 hs.1 hsw hf

/-- **a successful `feed` of a token positioned at a `P` position keeps every tree of the parser
free of empty expressions and positioned at `P` positions** -/
theorem feed_good (P : Loc → Prop) (c : Cfg) (t : Tok) (h : Inv c.state c.stack) (hw : CfgGood P c)
    (ht : P t.loc) {c' : Cfg} (hf : feed c t = .ok c') : CfgGood P c' :=
  feedAux_good P _ c t h hw ht hf

theorem CfgGood_init (P : Loc → Prop) : CfgGood P Cfg.init := ⟨trivial, StmtsGood_nil P⟩

theorem takeResults_good (P : Loc → Prop) (c : Cfg) (hw : CfgGood P c) :
    StmtsGood P c.takeResults.1 ∧ CfgGood P c.takeResults.2 :=
  ⟨hw.2, hw.1, StmtsGood_nil P⟩

theorem feed_inv_ok {c c' : Cfg} {t : Tok} (h : Inv c.state c.stack) (hf : feed c t = .ok c') :
    Inv c'.state c'.stack := by
  have := feed_inv c t h
  rw [hf] at this
  exact this

end LR
end Resynth
