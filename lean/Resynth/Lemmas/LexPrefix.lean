import Resynth.Lemmas.LexProps
/-!
# The text before a lex error lexes on its own

If no rule matches at `x :: rest`, then `x` is not an identifier character, so cutting the
line before `x` does not change any follow condition: the lexemes that tile the prefix inside
the line also tile the prefix alone.
-/
namespace Resynth.LexLemmas
open Resynth Resynth.Lex Resynth.Spec

theorem select_none_head {x : Char} {rest : List Char} (h : select (x :: rest) = none) :
    chIdCont x = false := by
  have hall := (select_none_iff _).1 h
  have h1 := hall .ident (by simp [rules])
  have h2 := hall .int (by simp [rules])
  rw [matchLen_ident] at h1
  rw [matchLen_int] at h2
  have hs : isIdStart x = false := by
    cases hh : isIdStart x with
    | false => rfl
    | true => rw [hh] at h1; simp at h1
  have hd : isDigit x = false := by
    cases hh : isDigit x with
    | false => rfl
    | true => rw [hh] at h2; simp at h2
  rw [chIdCont_eq]; simp [isIdCont, hs, hd]

theorem matchesAt_append (r : LexRule) (a : List Char) (x : Char) (rest : List Char) (m : Nat)
    (hx : chIdCont x = false) (hm : m ≤ a.length) :
    r.matchesAt (a ++ x :: rest) m = r.matchesAt a m := by
  simp only [LexRule.matchesAt, List.take_append_of_le_length hm]
  congr 1
  by_cases hlt : m < a.length
  · rw [List.drop_append_of_le_length (Nat.le_of_lt hlt)]
    have : a.drop m ≠ [] := by
      intro h; have := congrArg List.length h; simp at this; omega
    cases hd : a.drop m with
    | nil => exact absurd hd this
    | cons y ys => simp
  · have hm' : m = a.length := by omega
    subst hm'
    simp only [List.drop_left, List.head?_cons, List.drop_length, List.head?_nil]
    cases r <;> simp [LexRule.follow, hx]

theorem matchLen_append_some {r : LexRule} {a : List Char} {x : Char} {rest : List Char} {n : Nat}
    (hx : chIdCont x = false) (h : matchLen r (a ++ x :: rest) = some n) (hn : n ≤ a.length) :
    matchLen r a = some n := by
  unfold matchLen at h ⊢
  rw [longest_eq_some] at h ⊢
  obtain ⟨h1, h2, h3, h4⟩ := h
  refine ⟨h1, hn, by rw [← matchesAt_append r a x rest n hx hn]; exact h3, fun m hm1 hm2 => ?_⟩
  rw [← matchesAt_append r a x rest m hx hm2]
  exact h4 m hm1 (by simp; omega)

theorem matchLen_append_none {r : LexRule} {a : List Char} {x : Char} {rest : List Char}
    (hx : chIdCont x = false) (h : matchLen r (a ++ x :: rest) = none) : matchLen r a = none := by
  unfold matchLen at h ⊢
  rw [longest_eq_none] at h ⊢
  intro m hm1 hm2
  rw [← matchesAt_append r a x rest m hx hm2]
  exact h m hm1 (by simp; omega)

theorem select_append {a : List Char} {x : Char} {rest : List Char} {r : LexRule} {n : Nat}
    (hx : chIdCont x = false) (h : select (a ++ x :: rest) = some (r, n)) (hn : n ≤ a.length) :
    select a = some (r, n) := by
  simp only [select, List.findSome?_eq_some_iff, Option.map_eq_some_iff, Option.map_eq_none_iff,
    Prod.mk.injEq] at h ⊢
  obtain ⟨l1, r', l2, hl, ⟨m, hm, rfl, rfl⟩, hnone⟩ := h
  exact ⟨l1, r', l2, hl, ⟨m, matchLen_append_some hx hm hn, rfl, rfl⟩,
    fun y hy => matchLen_append_none hx (hnone y hy)⟩

theorem tiling_prefix (x : Char) (rest : List Char) (hx : chIdCont x = false) {cs : List Char}
    {ls : List Lexeme} (h : Tiling cs ls (x :: rest)) :
    ∀ a, cs = a ++ x :: rest → Tiling a ls [] := by
  generalize hR : x :: rest = R at h
  induction h with
  | done cs =>
    intro a ha
    subst hR
    have : a = [] := by
      have := congrArg List.length ha
      simp only [List.length_append, List.length_cons] at this
      exact List.eq_nil_of_length_eq_zero (by omega)
    subst this; exact .done []
  | step hsel ht ih =>
    rename_i cs r n ls R
    intro a ha
    subst hR
    have hcov := ht.cover
    have hb := select_bounds hsel
    have hn : n ≤ a.length := by
      have h1 := congrArg List.length hcov
      have h2 := congrArg List.length ha
      simp only [List.length_drop, List.length_append, List.length_cons] at h1 h2
      omega
    subst ha
    have hsel' := select_append hx hsel hn
    have htk : (a ++ x :: rest).take n = a.take n := List.take_append_of_le_length hn
    have hdr : (a ++ x :: rest).drop n = a.drop n ++ x :: rest := List.drop_append_of_le_length hn
    rw [htk]
    exact .step hsel' (ih rfl (a.drop n) hdr)

theorem tile_of_tiling {cs : List Char} {ls : List Lexeme} (h : Tiling cs ls []) : tile cs = (ls, true) := by
  generalize hR : ([] : List Char) = R at h
  induction h with
  | done cs => subst hR; rfl
  | step hsel ht ih =>
    rw [tile_cons_some hsel, ih hR]

/-- the text before the error column lexes on its own, to the same lexemes -/
theorem lexLine_error_prefix {lno : Nat} {pending : Option String} {ln : String} {c : Nat}
    (h : lexLine lno pending ln = .error c) :
    ∃ (pre rest : List Char) (ls : List Lexeme), ln.toList = pre ++ rest ∧ rest ≠ [] ∧ select rest = none ∧
      c = 1 + byteLen pre ∧ Tiling pre ls [] ∧ ls.flatMap (·.text) = pre ∧
      lexLine lno pending (String.ofList pre) = .ok (readToks lno 0 pending ls) := by
  obtain ⟨ls, rest, h1, h2, h3, h4⟩ := lexLine_error h
  cases rest with
  | nil => exact absurd rfl h2
  | cons x rest =>
    have hx := select_none_head h3
    have hcov := h1.cover
    have ht := tiling_prefix x rest hx h1 _ hcov
    refine ⟨ls.flatMap (·.text), x :: rest, ls, hcov, h2, h3, h4, ht, rfl, ?_⟩
    simp only [lexLine, String.toList_ofList, tile_of_tiling ht]

end Resynth.LexLemmas
