import Resynth.Lemmas.BindArgvec
/-!
# Readable consequences of the specification `Spec.bind`
-/
namespace Resynth.Spec

theorem bind_some {f : FuncDef} {call : Call} {args tail : List Val}
    (h : bind f call = some (args, tail)) :
    unknownName f call = false ∧ alreadySupplied f call = false ∧ misplacedNamed f call = false
      ∧ surplus f call = false ∧ incompatible f call = false
      ∧ paramValues f call = some args ∧ tail = tailValues f call := by
  unfold bind at h
  split at h
  · simp at h
  · rename_i hc
    simp only [Bool.not_eq_true, Bool.or_eq_false_iff] at hc
    obtain ⟨⟨⟨⟨h1, h2⟩, h3⟩, h4⟩, h5⟩ := hc
    cases hp : paramValues f call with
    | none => simp [hp] at h
    | some vs =>
      simp only [hp, Option.map_some, Option.some.injEq, Prod.mk.injEq] at h
      exact ⟨h1, h2, h3, h4, h5, by rw [h.1], h.2.symm⟩

theorem mapM_some_length {α β} (g : α → Option β) :
    ∀ (l : List α) (vs : List β), l.mapM g = some vs → vs.length = l.length := by
  intro l
  induction l with
  | nil => intro vs h; simp at h; simp [← h]
  | cons a l ih =>
    intro vs h
    simp only [List.mapM_cons] at h
    cases h0 : g a with
    | none => simp [h0] at h
    | some v0 =>
      cases h1 : l.mapM g with
      | none => simp [h0, h1] at h
      | some vs' =>
        simp [h0, h1] at h
        subst h
        simp [ih vs' h1]

theorem mapM_some_getElem {α β} (g : α → Option β) :
    ∀ (l : List α) (vs : List β), l.mapM g = some vs →
      ∀ (i : Nat) (a : α), l[i]? = some a → g a = vs[i]? := by
  intro l
  induction l with
  | nil => intro vs _ i a ha; simp at ha
  | cons a0 l ih =>
    intro vs h i a ha
    simp only [List.mapM_cons] at h
    cases h0 : g a0 with
    | none => simp [h0] at h
    | some v0 =>
      cases h1 : l.mapM g with
      | none => simp [h0, h1] at h
      | some vs' =>
        simp [h0, h1] at h
        subst h
        cases i with
        | zero => simp at ha; subst ha; simp [h0]
        | succ j => simp at ha; simpa using ih vs' h1 j a ha

theorem lead_length_le (f : FuncDef) (call : Call) : (phases f call).lead.length ≤ fillable f := by
  simp only [phases, List.length_map, List.length_take]
  omega

theorem lead_length_eq (f : FuncDef) (call : Call) :
    (phases f call).lead.length = min (fillable f) (call.takeWhile isUnnamed).length := by
  simp only [phases, List.length_map, List.length_take]

theorem paramValues_some {f : FuncDef} {call : Call} {args : List Val}
    (h : paramValues f call = some args) :
    ∃ vs, (f.args.drop (phases f call).lead.length).mapM (paramValue (phases f call).named) = some vs
      ∧ args = (phases f call).lead ++ vs := by
  unfold paramValues at h
  simp only [Option.map_eq_some_iff] at h
  obtain ⟨vs, h1, h2⟩ := h
  exact ⟨vs, h1, h2.symm⟩

/-- one value per parameter -/
theorem bind_length {f : FuncDef} {call : Call} {args tail : List Val}
    (h : bind f call = some (args, tail)) : args.length = f.args.length := by
  obtain ⟨vs, h1, h2⟩ := paramValues_some (bind_some h).2.2.2.2.2.1
  have := mapM_some_length _ _ _ h1
  have h3 := lead_length_le f call
  have h4 := Bind.fillable_le f
  subst h2
  simp only [List.length_append, this, List.length_drop]
  omega

theorem bind_wellBound {f : FuncDef} {call : Call} {args tail : List Val}
    (h : bind f call = some (args, tail)) : wellBound f args tail = true := by
  have hb := bind_some h
  have hlen := bind_length h
  obtain ⟨_, _, _, hs, hi, hp, ht⟩ := hb
  unfold incompatible at hi
  simp only [hp, Bool.or_eq_false_iff] at hi
  unfold surplus at hs
  unfold wellBound
  simp only [Bool.and_eq_true, beq_iff_eq, hlen, true_and]
  refine ⟨⟨?_, ?_⟩, ?_⟩
  · rw [List.all_eq_not_any_not]
    simp only [Bool.not_eq_true']
    exact hi.1
  · rw [ht, List.all_eq_not_any_not]
    simp only [Bool.not_eq_true']
    exact hi.2
  · rw [ht]
    unfold tailValues
    cases ht' : hasTail f
    · simp only [ht', Bool.not_false, Bool.and_true, Bool.not_eq_false'] at hs
      simp only [Bool.false_or, List.isEmpty_map]
      exact hs
    · simp

/-- the leading arguments of a call are its first entries -/
theorem lead_getElem (f : FuncDef) (call : Call) (i : Nat) (hi : i < (phases f call).lead.length) :
    (phases f call).lead[i]? = call[i]?.map (·.2) := by
  have hpre : (call.takeWhile isUnnamed).take (fillable f) <+: call :=
    (List.take_prefix _ _).trans (List.takeWhile_prefix _)
  obtain ⟨r, hr⟩ := hpre
  simp only [phases, List.length_map] at hi
  simp only [phases, List.getElem?_map]
  congr 1
  conv => rhs; rw [← hr]
  rw [List.getElem?_append_left hi]

/-- **Leading unnamed arguments fill the parameters in declaration order**: the `i`-th argument,
if it is among the leading unnamed ones and `i` is below the number of parameters unnamed
arguments can fill, is the value of parameter `i`. -/
theorem positional_in_order {f : FuncDef} {call : Call} {args tail : List Val}
    (h : bind f call = some (args, tail)) (i : Nat)
    (hi : i < (call.takeWhile isUnnamed).length) (hk : i < fillable f) :
    args[i]? = call[i]?.map (·.2) := by
  obtain ⟨vs, _, h2⟩ := paramValues_some (bind_some h).2.2.2.2.2.1
  have hl : i < (phases f call).lead.length := by rw [lead_length_eq]; omega
  subst h2
  rw [List.getElem?_append_left hl, lead_getElem f call i hl]

theorem mapM_paramValue_nil (ds : List ArgDesc) (vs : List Val)
    (h : ds.mapM (paramValue []) = some vs) :
    vs = ds.filterMap (fun d =>
          match d.decl with | .optional dfl => some (defaultVal dfl) | .positional _ => none)
      ∧ ds.filter isMandatory = [] := by
  induction ds generalizing vs with
  | nil => simp at h; simp [← h]
  | cons d ds ih =>
    simp only [List.mapM_cons] at h
    cases hdecl : d.decl with
    | positional t => simp [paramValue, hdecl, List.lookup] at h
    | optional dfl =>
      have h0 : paramValue [] d = some (defaultVal dfl) := by simp [paramValue, hdecl, List.lookup]
      cases h1 : ds.mapM (paramValue []) with
      | none => simp [h0, h1] at h
      | some vs' =>
        simp [h0, h1] at h
        subst h
        obtain ⟨ih1, ih2⟩ := ih vs' h1
        simp [hdecl, ← ih1, isMandatory, ih2]

/-- in a well-formed signature the mandatory parameters are exactly the first `mandatoryCount` -/
theorem wf_mandatory_prefix {f : FuncDef} (hwf : wf f = true) (i : Nat) (d : ArgDesc)
    (hd : f.args[i]? = some d) : isMandatory d = true ↔ i < mandatoryCount f := by
  unfold wf at hwf
  simp only [Bool.and_eq_true] at hwf
  have h1 := hwf.1
  unfold mandatoryCount
  generalize f.args = l at h1 hd
  induction l generalizing i with
  | nil => simp at hd
  | cons a l ih =>
    rw [List.dropWhile_cons] at h1
    by_cases ha : isMandatory a = true
    · simp only [ha, ↓reduceIte] at h1
      cases i with
      | zero => simp at hd; subst hd; simp [ha]
      | succ j =>
        simp at hd
        have := ih j h1 hd
        simp [ha, this]
    · simp only [ha, Bool.false_eq_true, ↓reduceIte] at h1
      have hall : ∀ x ∈ a :: l, isMandatory x = false := by
        intro x hx
        have := List.all_eq_true.mp h1 x hx
        simpa using this
      have hd' : isMandatory d = false := hall d (List.mem_of_getElem? hd)
      have hf : (a :: l).filter isMandatory = [] :=
        List.filter_eq_nil_iff.mpr (fun x hx => by simp [hall x hx])
      simp [hd', hf]

theorem takeWhile_unnamed_map (vs : List Val) :
    (vs.map (fun v => ((none : Option String), v))).takeWhile isUnnamed = vs.map (none, ·) := by
  induction vs with
  | nil => rfl
  | cons v vs ih => simp [List.takeWhile_cons, isUnnamed, ih]

/-- **A function with a variable tail takes only its mandatory parameters from unnamed
arguments; the further unnamed arguments are collected in order**, and every optional parameter
keeps its default. -/
theorem variable_tail_only_mandatory {f : FuncDef} (ht : hasTail f = true) (vs : List Val)
    {args tail : List Val} (h : bind f (vs.map (none, ·)) = some (args, tail)) :
    args.take (mandatoryCount f) = vs.take (mandatoryCount f)
      ∧ tail = vs.drop (mandatoryCount f)
      ∧ args.drop (mandatoryCount f) =
          (f.args.drop (mandatoryCount f)).filterMap (fun d =>
            match d.decl with | .optional dfl => some (defaultVal dfl) | .positional _ => none)
      ∧ mandatoryCount f ≤ vs.length := by
  have hb := bind_some h
  obtain ⟨vs', h1, h2⟩ := paramValues_some hb.2.2.2.2.2.1
  have htw := takeWhile_unnamed_map vs
  have hfill : fillable f = mandatoryCount f := by simp [fillable, ht]
  have hlead : (phases f (vs.map (none, ·))).lead = vs.take (mandatoryCount f) := by
    simp only [phases, htw, hfill, ← List.map_take, List.map_map]
    simp [Function.comp_def]
  have hnamed : (phases f (vs.map (none, ·))).named = [] := by
    have : ∀ l : Call, (∀ a ∈ l, isUnnamed a = true) → l.takeWhile isNamed = [] := by
      intro l hl
      cases l with
      | nil => rfl
      | cons a l =>
        have := hl a (by simp)
        rw [List.takeWhile_cons]
        cases ha : a.1 <;> simp_all [isNamed, isUnnamed]
    simp only [phases]
    rw [this]
    · rfl
    · intro a ha
      obtain ⟨v, _, rfl⟩ := List.mem_map.mp (List.mem_of_mem_drop ha)
      rfl
  have htail : tailValues f (vs.map (none, ·)) = vs.drop (mandatoryCount f) := by
    have hdw : ∀ l : Call, (∀ a ∈ l, isUnnamed a = true) → l.dropWhile isNamed = l := by
      intro l hl
      cases l with
      | nil => rfl
      | cons a l =>
        have := hl a (by simp)
        rw [List.dropWhile_cons]
        cases ha : a.1 <;> simp_all [isNamed, isUnnamed]
    have hll : (phases f (vs.map (none, ·))).lead.length = min (mandatoryCount f) vs.length := by
      rw [hlead, List.length_take]
    unfold tailValues
    simp only [phases] at hll ⊢
    rw [hdw]
    · simp only [List.length_map] at hll
      simp only [hll, ← List.map_drop, List.map_map]
      simp only [Function.comp_def, List.map_id']
      by_cases hle : mandatoryCount f ≤ vs.length
      · rw [Nat.min_eq_left hle]
      · rw [Nat.min_eq_right (by omega), List.drop_of_length_le (Nat.le_refl _),
          List.drop_of_length_le (by omega)]
    · intro a ha
      obtain ⟨v, _, rfl⟩ := List.mem_map.mp (List.mem_of_mem_drop ha)
      rfl
  -- with no named arguments every remaining parameter must be optional
  rw [hnamed] at h1
  obtain ⟨hvs', hnom⟩ := mapM_paramValue_nil _ _ h1
  have hll : (phases f (vs.map (none, ·))).lead.length = min (mandatoryCount f) vs.length := by
    rw [hlead, List.length_take]
  have hlen : mandatoryCount f ≤ vs.length := by
    have hsplit : mandatoryCount f
        = ((f.args.take (min (mandatoryCount f) vs.length)).filter isMandatory).length
          + ((f.args.drop (min (mandatoryCount f) vs.length)).filter isMandatory).length := by
      unfold mandatoryCount
      conv => lhs; rw [← List.take_append_drop (min (f.args.filter isMandatory).length vs.length) f.args]
      rw [List.filter_append, List.length_append]
    rw [hll] at hnom
    rw [hnom] at hsplit
    have h2 : ((f.args.take (min (mandatoryCount f) vs.length)).filter isMandatory).length
        ≤ min (mandatoryCount f) vs.length :=
      Nat.le_trans (List.length_filter_le _ _) (List.length_take_le _ _)
    simp only [List.length_nil] at hsplit
    omega
  rw [hll, Nat.min_eq_left hlen] at hvs'
  refine ⟨?_, ?_, ?_, hlen⟩
  · rw [h2, hlead, List.take_append_of_le_length (by rw [List.length_take]; omega)]
    rw [List.take_take, Nat.min_self]
  · rw [hb.2.2.2.2.2.2, htail]
  · rw [h2, hlead, List.drop_append_of_le_length (by rw [List.length_take]; omega)]
    rw [List.drop_of_length_le (by rw [List.length_take]; omega), List.nil_append, hvs']

/-! ## named arguments and defaults -/

theorem named_mem_call {f : FuncDef} {call : Call} {n : String} {v : Val}
    (h : (n, v) ∈ (phases f call).named) : (some n, v) ∈ call := by
  simp only [phases, List.mem_filterMap] at h
  obtain ⟨a, ha, hav⟩ := h
  have h1 := List.mem_of_mem_drop ((List.takeWhile_sublist _).subset ha)
  obtain ⟨o, w⟩ := a
  cases o with
  | none => simp at hav
  | some m =>
    simp at hav
    obtain ⟨rfl, rfl⟩ := hav
    exact h1

theorem call_mem_named {f : FuncDef} {call : Call} {n : String} {v : Val}
    (hmis : misplacedNamed f call = false) (h : (some n, v) ∈ call) :
    (n, v) ∈ (phases f call).named := by
  have hpre : (call.takeWhile isUnnamed).take (fillable f) <+: call :=
    (List.take_prefix _ _).trans (List.takeWhile_prefix _)
  have htk := List.prefix_iff_eq_take.mp hpre
  have hsplit : call = (call.takeWhile isUnnamed).take (fillable f)
      ++ ((call.drop ((call.takeWhile isUnnamed).take (fillable f)).length).takeWhile isNamed
        ++ (call.drop ((call.takeWhile isUnnamed).take (fillable f)).length).dropWhile isNamed) := by
    rw [List.takeWhile_append_dropWhile]
    conv => lhs; rw [← List.take_append_drop ((call.takeWhile isUnnamed).take (fillable f)).length call]
    rw [← htk]
  rw [hsplit] at h
  simp only [List.mem_append] at h
  rcases h with h | h | h
  · have := Bind.mem_takeWhile_imp' _ _ _ (List.mem_of_mem_take h)
    simp [isUnnamed] at this
  · simp only [phases, List.mem_filterMap]
    exact ⟨(some n, v), h, rfl⟩
  · unfold misplacedNamed at hmis
    simp only [phases, List.any_eq_false] at hmis
    have := hmis _ h
    simp [isNamed] at this

theorem lookup_of_mem_nodup (l : List (String × Val)) (hnd : (l.map (·.1)).Nodup) (k : String) (v : Val)
    (h : (k, v) ∈ l) : l.lookup k = some v := by
  induction l with
  | nil => simp at h
  | cons e l ih =>
    obtain ⟨k', v'⟩ := e
    simp only [List.map_cons, List.nodup_cons] at hnd
    rw [List.lookup_cons]
    rcases List.mem_cons.mp h with heq | hmem
    · simp only [Prod.mk.injEq] at heq
      obtain ⟨rfl, rfl⟩ := heq
      simp
    · have hne : ¬ k = k' := by
        intro e; subst e
        exact hnd.1 (List.mem_map.mpr ⟨(k, v), hmem, rfl⟩)
      have : (k == k') = false := by simp [hne]
      simp only [this]
      exact ih hnd.2 hmem

theorem lookup_none_of_not_mem (l : List (String × Val)) (k : String)
    (h : ∀ v, (k, v) ∉ l) : l.lookup k = none := by
  induction l with
  | nil => rfl
  | cons e l ih =>
    obtain ⟨k', v'⟩ := e
    rw [List.lookup_cons]
    have hne : ¬ k = k' := by
      intro e; subst e
      exact h v' (by simp)
    have : (k == k') = false := by simp [hne]
    simp only [this]
    exact ih (fun v hv => h v (by simp [hv]))

/-- the value of a parameter that the leading arguments did not fill -/
theorem args_getElem_rest {f : FuncDef} {call : Call} {args tail : List Val}
    (h : bind f call = some (args, tail)) (i : Nat) (d : ArgDesc) (hd : f.args[i]? = some d)
    (hi : (phases f call).lead.length ≤ i) :
    args[i]? = paramValue (phases f call).named d := by
  obtain ⟨vs, h1, h2⟩ := paramValues_some (bind_some h).2.2.2.2.2.1
  subst h2
  rw [List.getElem?_append_right hi]
  have hd' : (f.args.drop (phases f call).lead.length)[i - (phases f call).lead.length]? = some d := by
    rw [List.getElem?_drop]
    rw [show (phases f call).lead.length + (i - (phases f call).lead.length) = i by omega]
    exact hd
  exact (mapM_some_getElem _ _ _ h1 _ d hd').symm

/-- **`name: value` goes to the parameter of that name.** -/
theorem named_to_named {f : FuncDef} {call : Call} {args tail : List Val}
    (h : bind f call = some (args, tail)) (n : String) (v : Val) (hm : (some n, v) ∈ call) :
    ∃ i, f.argPos n = some i ∧ args[i]? = some v := by
  have hb := bind_some h
  have hnamed := call_mem_named hb.2.2.1 hm
  have hu := hb.1
  have hd := hb.2.1
  simp only [unknownName, List.any_eq_false, Bool.not_eq_true'] at hu
  simp only [alreadySupplied, Bool.or_eq_false_iff, List.any_eq_false, Bool.not_eq_false',
    decide_eq_true_eq] at hd
  have h1 : n ∈ paramNames f := by simpa using hu _ hnamed
  have h2 : n ∉ (paramNames f).take (phases f call).lead.length := by simpa using hd.2 _ hnamed
  have hlk := lookup_of_mem_nodup _ hd.1 n v hnamed
  cases hpos : f.argPos n with
  | none =>
    unfold FuncDef.argPos at hpos
    rw [List.findIdx?_eq_none_iff] at hpos
    obtain ⟨d, hd1, hd2⟩ := List.mem_map.mp h1
    have := hpos d hd1
    simp [hd2] at this
  | some i =>
    refine ⟨i, rfl, ?_⟩
    unfold FuncDef.argPos at hpos
    rw [List.findIdx?_eq_some_iff_getElem] at hpos
    obtain ⟨hlt, hname, _⟩ := hpos
    have hname' : f.args[i].name = n := by simpa using hname
    have hge : (phases f call).lead.length ≤ i := by
      by_cases hc : (phases f call).lead.length ≤ i
      · exact hc
      · exfalso
        apply h2
        rw [List.mem_take_iff_getElem]
        refine ⟨i, ?_, ?_⟩
        · simp only [paramNames, List.length_map]; omega
        · simp [paramNames, hname']
    rw [args_getElem_rest h i f.args[i] (List.getElem?_eq_getElem hlt) hge]
    unfold paramValue
    rw [hname', hlk]

/-- **Unspecified optional parameters take their documented defaults.** -/
theorem defaults_filled {f : FuncDef} {call : Call} {args tail : List Val}
    (h : bind f call = some (args, tail)) (i : Nat) (d : ArgDesc) (dfl : ValDef)
    (hd : f.args[i]? = some d) (hdecl : d.decl = .optional dfl)
    (hnot : ∀ v, (some d.name, v) ∉ call)
    (hi : min (fillable f) (call.takeWhile isUnnamed).length ≤ i) :
    args[i]? = some (defaultVal dfl) := by
  rw [← lead_length_eq] at hi
  rw [args_getElem_rest h i d hd hi]
  unfold paramValue
  rw [lookup_none_of_not_mem _ _ (fun v hv => hnot v (named_mem_call hv)), hdecl]

/-- **A call is rejected exactly for one of six reasons.** -/
theorem rejected_iff (f : FuncDef) (call : Call) :
    bind f call = none ↔
      (unknownName f call = true ∨ alreadySupplied f call = true ∨ missingMandatory f call = true
        ∨ surplus f call = true ∨ misplacedNamed f call = true ∨ incompatible f call = true) := by
  unfold bind missingMandatory
  cases unknownName f call <;> cases alreadySupplied f call <;> cases misplacedNamed f call <;>
    cases surplus f call <;> cases incompatible f call <;> cases paramValues f call <;> simp

end Resynth.Spec
