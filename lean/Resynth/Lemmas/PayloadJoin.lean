import Resynth.Lemmas.Framing
/-!
# What values contribute when used as bytes, and how `join_extra` joins them

* `Val.toBuf?` on each string-coercible kind of value (big-endian integers, addresses, packets, strings);
* `joinExtra` with the empty separator (concatenation) and with CRLF, against reference joins written
  with explicit recursion (`concatParts`, `joinWith`, `crlfJoin`);
* the `text::concat`, `text::crlflines`, `text::len` arms of `exec`.
-/
namespace Resynth.Payload
open Resynth Resynth.Wire

/-! ## big-endian byte strings are determined by their length and value -/

theorem rev_ind {α} {P : List α → Prop} (nil : P []) (snoc : ∀ l a, P l → P (l ++ [a])) : ∀ l, P l := by
  intro l
  rw [← List.reverse_reverse l]
  induction l.reverse with
  | nil => exact nil
  | cons a t ih => rw [List.reverse_cons]; exact snoc _ _ ih

theorem beNat_snoc (l : Bytes) (a : UInt8) : beNat (l ++ [a]) = beNat l * 256 + a.toNat := by
  simp [beNat, List.foldl_append]

/-- a byte string is the only one of its length with its big-endian value -/
theorem beNat_inj : ∀ (a b : Bytes), a.length = b.length → beNat a = beNat b → a = b := by
  intro a
  induction a using rev_ind with
  | nil => intro b hl _; exact (List.length_eq_zero_iff.mp hl.symm).symm
  | snoc l x ih =>
    intro b hl hv
    rcases List.eq_nil_or_concat b with rfl | ⟨l', y, rfl⟩
    · simp at hl
    · rw [List.concat_eq_append] at hl hv ⊢
      rw [beNat_snoc, beNat_snoc] at hv
      have hx := UInt8.toNat_lt x
      have hy := UInt8.toNat_lt y
      have h1 : beNat l = beNat l' := by omega
      have h2 : x.toNat = y.toNat := by omega
      have hl' : l.length = l'.length := by simpa using hl
      rw [ih l' hl' h1, UInt8.toNat_inj.mp h2]

/-! ## coercions -/

/-- `w`-byte big-endian encoding of `n` (truncated to `w` bytes): the specification -/
def IsBe (w n : Nat) (b : Bytes) : Prop := b.length = w ∧ beNat b = n % 2 ^ (8 * w)

theorem isBe_unique {w n : Nat} {a b : Bytes} (ha : IsBe w n a) (hb : IsBe w n b) : a = b :=
  beNat_inj a b (ha.1.trans hb.1.symm) (ha.2.trans hb.2.symm)

theorem toBuf_u8 (n : Nat) : ∃ b, (Val.u8 n).toBuf? = some b ∧ IsBe 1 n b :=
  ⟨[b8 n], rfl, rfl, beNat_b8 n⟩
theorem toBuf_u16 (n : Nat) : ∃ b, (Val.u16 n).toBuf? = some b ∧ IsBe 2 n b :=
  ⟨be16 n, rfl, rfl, beNat_be16 n⟩
theorem toBuf_u32 (n : Nat) : ∃ b, (Val.u32 n).toBuf? = some b ∧ IsBe 4 n b :=
  ⟨be32 n, rfl, rfl, beNat_be32 n⟩
theorem toBuf_u64 (n : Nat) : ∃ b, (Val.u64 n).toBuf? = some b ∧ IsBe 8 n b :=
  ⟨be64 n, rfl, rfl, beNat_be64 n⟩
theorem toBuf_ip4 (a : Nat) : ∃ b, (Val.ip4 a).toBuf? = some b ∧ b = be32 a ∧ IsBe 4 a b :=
  ⟨be32 a, rfl, rfl, rfl, beNat_be32 a⟩
theorem toBuf_pkt (p : Packet) : (Val.pkt p).toBuf? = some p.frame := rfl
theorem toBuf_str (s : Bytes) : (Val.str s).toBuf? = some s := rfl

/-- exactly the string-coercible kinds convert -/
theorem toBuf_isSome_iff (v : Val) : v.toBuf?.isSome = v.valType.isStringCoercible := by
  cases v <;> rfl

/-! ## reference joins (explicit recursion) -/

/-- the parts one after the other -/
def concatParts : List Bytes → Bytes
  | [] => []
  | p :: ps => p ++ concatParts ps

/-- the parts with `sep` between each two neighbours -/
def joinWith (sep : Bytes) : List Bytes → Bytes
  | [] => []
  | [p] => p
  | p :: q :: ps => p ++ sep ++ joinWith sep (q :: ps)

/-- the parts with CR LF between each two neighbours (no trailing CRLF) -/
def crlfJoin (parts : List Bytes) : Bytes := joinWith [13, 10] parts

theorem concatParts_eq_flatten (ps : List Bytes) : concatParts ps = ps.flatten := by
  induction ps with
  | nil => rfl
  | cons p ps ih => rw [concatParts, ih, List.flatten_cons]

theorem concatParts_append (a b : List Bytes) : concatParts (a ++ b) = concatParts a ++ concatParts b := by
  simp [concatParts_eq_flatten]

theorem concatParts_length (ps : List Bytes) : (concatParts ps).length = (ps.map List.length).sum := by
  induction ps with
  | nil => rfl
  | cons p ps ih => simp [concatParts, ih]

theorem joinWith_eq_intercalate (sep : Bytes) (ps : List Bytes) : joinWith sep ps = sep.intercalate ps := by
  unfold List.intercalate
  induction ps with
  | nil => rfl
  | cons p ps ih =>
    cases ps with
    | nil => simp [joinWith]
    | cons q ps =>
      rw [joinWith, ih, List.intersperse_cons_cons, List.flatten_cons, List.flatten_cons, List.append_assoc]

theorem joinWith_nil (ps : List Bytes) : joinWith [] ps = concatParts ps := by
  rw [joinWith_eq_intercalate, intercalate_nil_sep, concatParts_eq_flatten]

/-- `joinWith` really puts every part in, in order, contiguously: with the separators removed it is
the concatenation (stated through lengths: total = parts + (n-1) separators) -/
theorem joinWith_length (sep : Bytes) (ps : List Bytes) :
    (joinWith sep ps).length = (ps.map List.length).sum + (ps.length - 1) * sep.length := by
  induction ps with
  | nil => simp [joinWith]
  | cons p ps ih =>
    cases ps with
    | nil => simp [joinWith]
    | cons q ps =>
      rw [joinWith, List.length_append, List.length_append, ih]
      simp only [List.map_cons, List.sum_cons, List.length_cons, Nat.add_sub_cancel]
      rw [Nat.add_mul]; omega

/-! ## `join_extra` -/

/-- `bufs` are what the parts `x` coerce to, position by position -/
theorem mapM_toBuf_cons (v : Val) (x : List Val) (b : Bytes) (bufs : List Bytes) :
    (v :: x).mapM (m := Option) Val.toBuf? = some (b :: bufs) ↔
      v.toBuf? = some b ∧ x.mapM (m := Option) Val.toBuf? = some bufs := by
  rw [List.mapM_cons]
  cases hv : v.toBuf? with
  | none => simp
  | some a =>
    cases hx : x.mapM (m := Option) Val.toBuf? with
    | none => simp
    | some as => simp

theorem mapM_toBuf_nil_iff (bufs : List Bytes) :
    ([] : List Val).mapM (m := Option) Val.toBuf? = some bufs ↔ bufs = [] := by
  simp [eq_comm]

theorem mapM_toBuf_length : ∀ (x : List Val) (bufs : List Bytes),
    x.mapM (m := Option) Val.toBuf? = some bufs → bufs.length = x.length
  | [], bufs, h => by rw [(mapM_toBuf_nil_iff bufs).mp h]; rfl
  | v :: x, [], h => by
    rw [List.mapM_cons] at h
    cases hv : v.toBuf? <;> cases hx : x.mapM (m := Option) Val.toBuf? <;> simp [hv, hx] at h
  | v :: x, b :: bufs, h => by
    have := mapM_toBuf_length x bufs ((mapM_toBuf_cons v x b bufs).mp h).2
    simp [this]

/-- position by position: part `i` coerces to `bufs[i]` -/
theorem mapM_toBuf_get : ∀ (x : List Val) (bufs : List Bytes),
    x.mapM (m := Option) Val.toBuf? = some bufs →
    ∀ (i : Nat) (hi : i < x.length) (hj : i < bufs.length), x[i].toBuf? = some bufs[i]
  | [], _, _, i, hi, _ => by simp at hi
  | v :: x, [], h, _, _, hj => by simp at hj
  | v :: x, b :: bufs, h, i, hi, hj => by
    obtain ⟨h1, h2⟩ := (mapM_toBuf_cons v x b bufs).mp h
    cases i with
    | zero => exact h1
    | succ i => exact mapM_toBuf_get x bufs h2 i (by simpa using hi) (by simpa using hj)

/-- every list of string-coercible parts has such a `bufs` -/
theorem parts_exist : ∀ (x : List Val), (∀ v ∈ x, v.valType.isStringCoercible = true) →
    ∃ bufs, x.mapM (m := Option) Val.toBuf? = some bufs
  | [], _ => ⟨[], by simp⟩
  | v :: x, h => by
    obtain ⟨bufs, hb⟩ := parts_exist x (fun w hw => h w (by simp [hw]))
    have hv : v.toBuf?.isSome = true := by rw [toBuf_isSome_iff]; exact h v (by simp)
    obtain ⟨b, hb'⟩ := Option.isSome_iff_exists.mp hv
    exact ⟨b :: bufs, (mapM_toBuf_cons v x b bufs).mpr ⟨hb', hb⟩⟩

theorem joinExtra_sep (x : List Val) (sep : Bytes) (bufs : List Bytes)
    (hx : x.mapM (m := Option) Val.toBuf? = some bufs) : joinExtra x sep = .ok (joinWith sep bufs) := by
  unfold joinExtra
  rw [mapM_ofOpt _ _ x bufs hx, joinWith_eq_intercalate]
  rfl

theorem joinExtra_concat (x : List Val) (bufs : List Bytes)
    (hx : x.mapM (m := Option) Val.toBuf? = some bufs) : joinExtra x [] = .ok (concatParts bufs) := by
  rw [joinExtra_sep x [] bufs hx, joinWith_nil]

theorem joinExtra_crlf (x : List Val) (bufs : List Bytes)
    (hx : x.mapM (m := Option) Val.toBuf? = some bufs) : joinExtra x [13, 10] = .ok (crlfJoin bufs) :=
  joinExtra_sep x [13, 10] bufs hx

/-- a part that is not string-coercible makes the (unchecked) conversion panic -/
theorem joinExtra_panic (pre : List Val) (v : Val) (post : List Val) (sep : Bytes) (bufs : List Bytes)
    (hpre : pre.mapM (m := Option) Val.toBuf? = some bufs) (hv : v.toBuf? = none) :
    joinExtra (pre ++ v :: post) sep = .panic "join_extra: Buf::from" := by
  unfold joinExtra
  have : (pre ++ v :: post).mapM (fun v => Res.ofOpt "join_extra: Buf::from" v.toBuf?) =
      .panic "join_extra: Buf::from" := by
    clear sep
    induction pre generalizing bufs with
    | nil => rw [List.nil_append, List.mapM_cons, hv]; rfl
    | cons a pre ih =>
      cases bufs with
      | nil => have := mapM_toBuf_length _ _ hpre; simp at this
      | cons b bufs =>
        obtain ⟨h1, h2⟩ := (mapM_toBuf_cons a pre b bufs).mp hpre
        rw [List.cons_append, List.mapM_cons, h1, ih bufs h2]; rfl
  rw [this]; rfl

/-! ## the `text::` helpers -/

section text
variable (fs : Fs) (this : Option Nat) (h : Heap)

theorem exec_text_concat (x : List Val) (bufs : List Bytes) (hx : x.mapM (m := Option) Val.toBuf? = some bufs) :
    exec fs "text::concat" this ⟨[], x⟩ h = .ok (.str (concatParts bufs), h) := by
  exec_arm; simp [joinExtra_concat x bufs hx]

theorem exec_text_crlflines (x : List Val) (bufs : List Bytes) (hx : x.mapM (m := Option) Val.toBuf? = some bufs) :
    exec fs "text::crlflines" this ⟨[], x⟩ h = .ok (.str (crlfJoin bufs), h) := by
  exec_arm; simp [joinExtra_crlf x bufs hx]

theorem exec_text_len (x : List Val) (bufs : List Bytes) (hx : x.mapM (m := Option) Val.toBuf? = some bufs) :
    exec fs "text::len" this ⟨[], x⟩ h = .ok (.u64 (concatParts bufs).length, h) := by
  exec_arm; simp [joinExtra_concat x bufs hx]

end text

end Resynth.Payload
