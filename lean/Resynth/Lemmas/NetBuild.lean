import Resynth.Lemmas.NetIp
/-!
# Builder-independent facts: "this header says …", checksum insertion, Ethernet stripping
-/
namespace Resynth

open Spec (IpFields)

namespace IpHdr

/-- Everything about a header except that its checksum is up to date: it describes a datagram
with `n` bytes after the header and carries the fields `e`. The stored total length is only
required to be right modulo 2^16 (that is all `add_tot_len` guarantees). -/
structure IsPre (h : IpHdr) (e : IpFields) (n : Nat) : Prop where
  ver : h.ihlVersion = 0x45
  len : h.totLen % 65536 = (20 + n) % 65536
  src : h.saddr = e.src
  dst : h.daddr = e.dst
  proto : h.protocol = e.proto
  id : h.id = e.id
  ttl : h.ttl = e.ttl
  frag : FragIs h.fragOff e.off e.evil e.df e.mf

/-- `IsPre` plus an up-to-date checksum -/
structure Is (h : IpHdr) (e : IpFields) (n : Nat) : Prop extends IsPre h e n where
  fresh : h.Fresh

theorem IsPre.calc {h : IpHdr} {e : IpFields} {n : Nat} (w : h.IsPre e n) : h.calcCsum.Is e n :=
  { ver := w.ver, len := w.len, src := w.src, dst := w.dst, proto := w.proto, id := w.id,
    ttl := w.ttl, frag := w.frag, fresh := h.fresh_calcCsum }

theorem IsPre.addTotLen {h : IpHdr} {e : IpFields} {n : Nat} (w : h.IsPre e n) (more k : Nat)
    (hk : more % 65536 = k % 65536) : (h.addTotLen more).IsPre e (n + k) :=
  { ver := w.ver, src := w.src, dst := w.dst, proto := w.proto, id := w.id, ttl := w.ttl,
    frag := w.frag,
    len := by
      have := w.len
      show (h.totLen + more) % 65536 % 65536 = (20 + (n + k)) % 65536
      omega }

theorem IsPre.setFragOff {h : IpHdr} {e : IpFields} {n : Nat} (w : h.IsPre e n) (off : Nat)
    (hoff : off < 8192) : (h.setFragOff off).IsPre { e with off := off } n :=
  { ver := w.ver, len := w.len, src := w.src, dst := w.dst, proto := w.proto, id := w.id,
    ttl := w.ttl, frag := w.frag.setFragOff h off hoff }

theorem IsPre.setMf {h : IpHdr} {e : IpFields} {n : Nat} (w : h.IsPre e n) (v : Bool) :
    (h.setMf v).IsPre { e with mf := v } n :=
  { ver := w.ver, len := w.len, src := w.src, dst := w.dst, proto := w.proto, id := w.id,
    ttl := w.ttl, frag := w.frag.setMf h v }

theorem IsPre.setSaddr {h : IpHdr} {e : IpFields} {n : Nat} (w : h.IsPre e n) (ip : Nat) :
    ({ h with saddr := ip } : IpHdr).IsPre { e with src := ip } n :=
  { ver := w.ver, len := w.len, src := rfl, dst := w.dst, proto := w.proto, id := w.id,
    ttl := w.ttl, frag := w.frag }

/-- **C02 core.**  A header that `Is e n`, followed by `n` bytes, is a well-formed IPv4 datagram
carrying exactly the fields `e` — provided the datagram fits 16 bits and `e` is representable. -/
theorem Is.ok {h : IpHdr} {e : IpFields} {rest : Bytes} (w : h.Is e rest.length)
    (hr : e.inRange = true) (hfit : 20 + rest.length ≤ 65535) :
    Spec.ipv4Is e (h.serialize ++ rest) = true := by
  have hok := ipv4Ok_of h rest w.fresh w.ver w.len hfit
  obtain ⟨r1, r2, r3, r4⟩ := read_frag w.frag rest
  simp only [IpFields.inRange, Bool.and_eq_true, decide_eq_true_eq] at hr
  obtain ⟨⟨⟨⟨⟨h1, h2⟩, h3⟩, h4⟩, h5⟩, _⟩ := hr
  simp only [Spec.ipv4Is, hok, read_src, read_dst, read_proto, read_id, read_ttl, r1, r2, r3, r4,
    w.src, w.dst, w.proto, w.id, w.ttl, Bool.and_eq_true, beq_iff_eq, true_and, and_true]
  omega

theorem ipv4Ok_of_ipv4Is {e : IpFields} {d : Bytes} (h : Spec.ipv4Is e d = true) :
    Spec.ipv4Ok d = true := by
  simp only [Spec.ipv4Is, Bool.and_eq_true] at h
  exact h.1.1.1.1.1.1.1.1.1

end IpHdr

/-! ## stripping the Ethernet header -/

theorem ipOfFrame_eq (raw : Bool) (eth d : Bytes) (he : eth.length = 14) :
    Spec.ipOfFrame raw ((if raw then [] else eth) ++ d) = d := by
  cases raw <;> simp [Spec.ipOfFrame, ← he]

theorem ipOfFrame_framed (eth d : Bytes) (he : eth.length = 14) :
    Spec.ipOfFrame false (eth ++ d) = d := by
  simp [Spec.ipOfFrame, ← he]

theorem ethOk_of (dst src d : Bytes) (hd : dst.length = 6) (hs : src.length = 6) :
    Spec.ethOk dst src (ethHdr dst src 0x0800 ++ d) = true := by
  have : (ethHdr dst src 0x0800 ++ d).take 14 = dst ++ src ++ [0x08, 0x00] := by
    have e : ethHdr dst src 0x0800 = dst ++ src ++ [0x08, 0x00] := by
      simp [ethHdr, be16]; decide
    rw [e, List.take_append_of_le_length (by simp; omega)]
    exact List.take_of_length_le (by simp; omega)
  simp [Spec.ethOk, hd, hs, this]

/-- an Ethernet header built from two IPv4 addresses in front of a datagram that carries these
two addresses satisfies the Spec predicate "MACs are derived from the datagram's addresses" -/
theorem ethMatchesIp_of (h : IpHdr) (rest : Bytes) :
    Spec.ethMatchesIp (ethHdr (macOfIp h.daddr) (macOfIp h.saddr) 0x0800 ++ (h.serialize ++ rest)) = true := by
  have e : (ethHdr (macOfIp h.daddr) (macOfIp h.saddr) 0x0800 ++ (h.serialize ++ rest)).drop 14
      = h.serialize ++ rest := by
    rw [List.drop_append_of_le_length (by simp)]; simp
  rw [Spec.ethMatchesIp, e, IpHdr.read_src, IpHdr.read_dst, Spec.macOfIp_eq, Spec.macOfIp_eq,
    macOfIp_mod, macOfIp_mod, ethOk_of _ _ _ (by simp) (by simp)]
  simp; omega

theorem ethBroadcastMatchesIp_of (h : IpHdr) (rest : Bytes) :
    Spec.ethBroadcastMatchesIp (ethHdr macBroadcast (macOfIp h.saddr) 0x0800 ++ (h.serialize ++ rest)) = true := by
  have e : (ethHdr macBroadcast (macOfIp h.saddr) 0x0800 ++ (h.serialize ++ rest)).drop 14
      = h.serialize ++ rest := by
    rw [List.drop_append_of_le_length (by simp)]; simp
  rw [Spec.ethBroadcastMatchesIp, e, IpHdr.read_src, Spec.macOfIp_eq, Spec.macBroadcast_eq,
    macOfIp_mod, ethOk_of _ _ _ (by simp) (by simp)]
  simp; omega

/-- the canonical framing is recognised by the Spec predicates, for any datagram -/
theorem ethFrame_drop (d : Bytes) : (Spec.ethFrame d).drop 14 = d := by
  simp [Spec.ethFrame, Spec.macOfIp]

theorem ethFrameBroadcast_drop (d : Bytes) : (Spec.ethFrameBroadcast d).drop 14 = d := by
  simp [Spec.ethFrameBroadcast, Spec.macOfIp, Spec.macBroadcast]

theorem ethMatchesIp_ethFrame (d : Bytes) (hd : 20 ≤ d.length) :
    Spec.ethMatchesIp (Spec.ethFrame d) = true := by
  rw [Spec.ethMatchesIp, ethFrame_drop]
  simp [Spec.ethOk, Spec.ethFrame, Spec.macOfIp]; omega

theorem ethBroadcastMatchesIp_ethFrameBroadcast (d : Bytes) (hd : 20 ≤ d.length) :
    Spec.ethBroadcastMatchesIp (Spec.ethFrameBroadcast d) = true := by
  rw [Spec.ethBroadcastMatchesIp, ethFrameBroadcast_drop]
  simp [Spec.ethOk, Spec.ethFrameBroadcast, Spec.macOfIp, Spec.macBroadcast]; omega

theorem ipOfFrame_ethFrame (d : Bytes) : Spec.ipOfFrame false (Spec.ethFrame d) = d := by
  simp [Spec.ipOfFrame, ethFrame_drop]

/-! ## inserting a checksum into a zeroed field -/

/-- If `c` makes the plain word sum a non-zero multiple of 65535, the bytes with `c` stored at an
even offset pass the Spec verifier. -/
theorem csumOk_insert (pre post : Bytes) (c : Nat) (hpre : pre.length % 2 = 0) (hc : c ≤ 65535)
    (h : 0 < sum16 pre + sum16 post + c ∧ (sum16 pre + sum16 post + c) % 65535 = 0) :
    Spec.csumOk (pre ++ be16 c ++ post) = true := by
  rw [csumOk_iff, List.append_assoc, sum16_append_even _ _ hpre,
    sum16_append_even _ _ (by simp), sum16_be16, Nat.mod_eq_of_lt (by omega)]
  have e : sum16 pre + (c + sum16 post) = sum16 pre + sum16 post + c := by omega
  rw [e]; exact h

theorem sum16_lt_of_length (b : Bytes) (n : Nat) (h : b.length ≤ n) :
    sum16 b ≤ 65535 * ((n + 1) / 2) := by
  have := sum16_le b
  have : (b.length + 1) / 2 ≤ (n + 1) / 2 := Nat.div_le_div_right (by omega)
  have := Nat.mul_le_mul_left 65535 this
  omega

/-- `Spec.pseudo` of a serialised header followed by `rest` is the Model's pseudo-header for the
header's own addresses and the real transport length -/
theorem pseudo_eq (h : IpHdr) (rest : Bytes) (p : Nat) :
    Spec.pseudo p (h.serialize ++ rest) = pseudoHdr h.saddr h.daddr p rest.length := by
  have : (h.serialize ++ rest).length - 20 = rest.length := by simp
  rw [Spec.pseudo, this]
  simp [IpHdr.serialize_eq, pseudoHdr, be16, be32]

/-- **C03 core.**  A transport segment `pre ++ csum ++ post` behind an IP header, where the stored
checksum is `c`, verifies against the pseudo-header as soon as `c` complements the Model's
partial sums. -/
theorem l4Ok_of (h : IpHdr) (p : Nat) (pre post : Bytes) (c : Nat)
    (hp : h.protocol = p) (hp' : p < 256) (hpre : pre.length % 2 = 0) (hc : c ≤ 65535)
    (hlen : pre.length + 2 + post.length < 65536)
    (hs : let s := sum16 (pseudoHdr h.saddr h.daddr p (pre.length + 2 + post.length)) +
                   sum16 pre + sum16 post
          0 < s + c ∧ (s + c) % 65535 = 0) :
    Spec.l4Ok p (h.serialize ++ (pre ++ be16 c ++ post)) = true := by
  have hrl : (pre ++ be16 c ++ post).length = pre.length + 2 + post.length := by simp; omega
  have hl : (h.serialize ++ (pre ++ be16 c ++ post)).length = 20 + (pre.length + 2 + post.length) := by
    simp; omega
  have hpl : (pseudoHdr h.saddr h.daddr p (pre.length + 2 + post.length)).length = 12 := by
    simp [pseudoHdr]
  have hcs : Spec.csumOk (Spec.pseudo p (h.serialize ++ (pre ++ be16 c ++ post)) ++
      (h.serialize ++ (pre ++ be16 c ++ post)).drop 20) = true := by
    rw [pseudo_eq, IpHdr.drop20, hrl, ← List.append_assoc, ← List.append_assoc]
    apply csumOk_insert _ _ _ (by simp [hpl]; omega) hc
    rw [sum16_append_even _ _ (by omega)]
    exact hs
  simp only [Spec.l4Ok, IpHdr.read_proto, hl, hp, Nat.mod_eq_of_lt hp', hcs, beq_self_eq_true,
    Bool.and_true, decide_eq_true_eq, Bool.and_eq_true]
  omega

end Resynth
