import Resynth.Lemmas.ExecBasics
/-!
# Whole-file totality (C08): heap monotonicity and what library results look like

* `HeapExt h h'`: `h'` is `h` with objects appended (`allocObj`) and/or slots replaced by an object of
  the same class (`setObj` after `getThis`) — the only two heap operations of `exec`.
* `ResOk h v`: a value as a library function returns it: an object handle refers to a live slot of
  the recorded class, every packet has the 16 bytes of headroom `PcapWriter::write_packet` borrows,
  and it is never a function or method value.
* `Post h r`: the post-condition of a library call started on heap `h`.
-/
namespace Resynth

/-- heap slot `id` holds an object of class `cls` -/
def Live (h : Heap) (id : Nat) (cls : String) : Prop := ∃ o : Obj, h[id]? = some o ∧ o.cls = cls

/-- `h'` extends `h`: every live slot stays live with the same class -/
def HeapExt (h h' : Heap) : Prop :=
  ∀ (i : Nat) (o : Obj), h[i]? = some o → ∃ o' : Obj, h'[i]? = some o' ∧ o'.cls = o.cls

theorem HeapExt.refl (h : Heap) : HeapExt h h := by
  unfold HeapExt; intro _ o ho; exact ⟨o, ho, rfl⟩

theorem HeapExt.get {h h' : Heap} (he : HeapExt h h') {i : Nat} {o : Obj} (ho : h[i]? = some o) :
    ∃ o' : Obj, h'[i]? = some o' ∧ o'.cls = o.cls := he i o ho

theorem HeapExt.trans {a b c : Heap} (h1 : HeapExt a b) (h2 : HeapExt b c) : HeapExt a c := by
  unfold HeapExt
  intro i o ho
  obtain ⟨o1, ho1, hc1⟩ := h1.get ho
  obtain ⟨o2, ho2, hc2⟩ := h2.get ho1
  exact ⟨o2, ho2, hc2.trans hc1⟩

theorem Live.mono {h h' : Heap} {id cls} (hl : Live h id cls) (he : HeapExt h h') : Live h' id cls := by
  obtain ⟨o, ho, hc⟩ := hl
  obtain ⟨o', ho', hc'⟩ := he.get ho
  exact ⟨o', ho', hc'.trans hc⟩

@[simp] theorem HeapExt_self (h : Heap) : HeapExt h h ↔ True := iff_true_intro (HeapExt.refl h)

/-- `allocObj` appends -/
@[simp] theorem HeapExt_append (h : Heap) (o : Obj) : HeapExt h (h ++ [o]) ↔ True := by
  refine iff_true_intro ?_
  unfold HeapExt
  intro i o' ho'
  have hi : i < h.length := by
    rcases Nat.lt_or_ge i h.length with hlt | hge
    · exact hlt
    · rw [List.getElem?_eq_none hge] at ho'; cases ho'
  exact ⟨o', by rw [List.getElem?_append_left hi]; exact ho', rfl⟩

/-- `setObj` on the slot `getThis` returned, with an object of the same class -/
theorem HeapExt_setObj (h : Heap) (i : Nat) (o o' : Obj) (ho : h[i]? = some o) (hc : o'.cls = o.cls) :
    HeapExt h (setObj h i o') := by
  unfold HeapExt
  intro j oj hj
  unfold setObj
  by_cases hij : i = j
  · subst hij
    have hi : i < h.length := by
      rcases Nat.lt_or_ge i h.length with hlt | hge
      · exact hlt
      · rw [List.getElem?_eq_none hge] at ho; cases ho
    refine ⟨o', by simp [hi], ?_⟩
    rw [ho] at hj; cases hj; exact hc
  · exact ⟨oj, by rw [List.getElem?_set_ne hij]; exact hj, rfl⟩

/-- a value as a library function returns it -/
def ResOk (h : Heap) : Val → Prop
  | .obj id cls => Live h id cls
  | .pkt p => p.headroom = 16
  | .pktgen ps => ∀ p ∈ ps, p.headroom = 16
  | .func _ => False
  | .method .. => False
  | _ => True

@[simp] theorem Packet.headroom_ofFrame (f : Bytes) : (Packet.ofFrame f).headroom = 16 := rfl

@[simp] theorem ResOk_pktOf (h : Heap) (f : Bytes) : ResOk h (pktOf f) ↔ True := iff_true_intro rfl
@[simp] theorem ResOk_pktsOf (h : Heap) (fs : List Bytes) : ResOk h (pktsOf fs) ↔ True := by
  refine iff_true_intro ?_
  intro p hp
  obtain ⟨f, _, rfl⟩ := List.mem_map.mp hp
  rfl
@[simp] theorem ResOk_str (h : Heap) (b : Bytes) : ResOk h (.str b) ↔ True := Iff.rfl
@[simp] theorem ResOk_nil (h : Heap) : ResOk h .nil ↔ True := Iff.rfl
@[simp] theorem ResOk_u16 (h : Heap) (n) : ResOk h (.u16 n) ↔ True := Iff.rfl
@[simp] theorem ResOk_u64 (h : Heap) (n) : ResOk h (.u64 n) ↔ True := Iff.rfl
@[simp] theorem ResOk_timejump (h : Heap) (n) : ResOk h (.timejump n) ↔ True := Iff.rfl

/-- post-condition of a library call started on heap `h`: the heap is extended and the result is
`ResOk` in the new heap (errors and panics carry no obligation here; panics are excluded by
`C08.covered_good`) -/
def Post (h : Heap) : Res (Val × Heap) → Prop
  | .ok (v, h') => HeapExt h h' ∧ ResOk h' v
  | _ => True

@[simp] theorem Post_ok (h v h') : Post h (.ok (v, h')) ↔ HeapExt h h' ∧ ResOk h' v := Iff.rfl
@[simp] theorem Post_pure (h v h') : Post h (pure (v, h')) ↔ HeapExt h h' ∧ ResOk h' v := Iff.rfl
@[simp] theorem Post_err (h e l) : Post h (.err e l) ↔ True := Iff.rfl
@[simp] theorem Post_panic (h s) : Post h (.panic s) ↔ True := Iff.rfl

/-- `allocObj`: the new handle is live in the extended heap -/
@[simp] theorem Post_allocObj (h : Heap) (o : Obj) : Post h (pure (allocObj h o)) ↔ True := by
  refine iff_true_intro ?_
  show HeapExt h (h ++ [o]) ∧ Live (h ++ [o]) h.length o.cls
  exact ⟨(HeapExt_append h o).mpr trivial, o, by simp, rfl⟩
@[simp] theorem Post_allocObj' (h : Heap) (o : Obj) : Post h (.ok (allocObj h o)) ↔ True := Post_allocObj h o

/-- the library function with signature `f` (a method of class `cls`, if any) satisfies `Post` -/
def ExecPost (cls : Option String) (f : FuncDef) : Prop :=
  ∀ (fs : Fs) (this : Option Nat) (av : ArgVec) (h : Heap),
    Spec.wellBound f av.args av.extra = true → ThisOk cls this h →
    Post h (exec fs f.path this av h)

set_option hygiene false in
/-- like `exec_core` of `ExecBasics`, for `Post` -/
macro "post_core" : tactic => `(tactic|
  (try simp [Spec.paramAccepts, ValDef.valType] at hargs
   try simp [Spec.paramAccepts, ValDef.valType] at hextra
   exec_reduce
   try dsimp only
   try simp only [getThis_ok _ _ _ ho, Res.ok_bind]
   try simp only [joinExtra_ok _ _ hextra]
   try simp only [mapM_ofOpt_ok _ Val.toBuf? _ (fun v hv => Val.toBuf?_total (hextra v hv))]
   try simp only [mapM_ofOpt_ok _ Val.toIp? _ (fun v hv => Val.toIp?_total (hextra v hv))]
   try simp only [mapM_ofOpt_ok _ Val.toU16? _ (fun v hv => Val.toU16?_total (hextra v hv))]
   try simp [tcpOverride, ofOpt_toU8, ofOpt_toU16, ofOpt_toU32, ofOpt_toU64, ofOpt_toBool, ofOpt_toBuf,
     ofOpt_toPktGen, ofOpt_toIp, ofOpt_toSock, ofOpt_toPkt, ofOpt_toOptU32, ofOpt_toOptIp, ofOpt_toOptBuf, *]
   try (repeat' split) <;> simp [*]))

set_option hygiene false in
/-- `ExecPost none sig` for a free function -/
macro "exec_post_fn" : tactic => `(tactic| (destruct_av; post_core))

set_option hygiene false in
/-- `ExecPost (some cls) sig` for a method: `hset` is `HeapExt_setObj` for the slot of `this` -/
macro "exec_post_method" : tactic => `(tactic|
  (destruct_av
   obtain ⟨i, o, rfl, ho, hcls⟩ := hthis
   cases o <;> simp [Obj.cls] at hcls
   have hset := fun o' => HeapExt_setObj h i _ o' ho
   simp only [Obj.cls] at hset
   post_core))

end Resynth
