import Resynth.Spec.Grammar
/-!
# Soundness of the reference parser w.r.t. the derivation relation

Whatever `Spec.sX` accepts is a derivation of the nonterminal `X` for the consumed tokens.
-/
namespace Resynth.Spec

/-- concatenation of argument lists -/
def appArgs : Args → Args → Args
  | .nil, b => b
  | .cons n e r, b => .cons n e (appArgs r b)

@[simp] theorem appArgs_nil_left (b : Args) : appArgs .nil b = b := rfl
@[simp] theorem appArgs_nil_right : ∀ a : Args, appArgs a .nil = a
  | .nil => rfl
  | .cons n e r => by simp [appArgs, appArgs_nil_right r]
theorem appArgs_snoc : ∀ (a : Args) (n e b), appArgs (a.snoc n e) b = appArgs a (.cons n e b)
  | .nil, _, _, _ => rfl
  | .cons m f r, n, e, b => by simp [Args.snoc, appArgs, appArgs_snoc r]
theorem snoc_eq_appArgs : ∀ (a : Args) (n e), a.snoc n e = appArgs a (.cons n e .nil)
  | .nil, _, _ => rfl
  | .cons m f r, n, e => by simp [Args.snoc, appArgs, snoc_eq_appArgs r]

/-- `t'` may stand for `t` at the head of an expression: equal, or two identifier tokens with the
same text (the source position of a reference is not part of the derived tree) -/
def SameTok (t' t : Tok) : Prop := t'.kind = t.kind ∧ t'.text = t.text ∧ (t.kind ≠ .ident → t' = t)

theorem SameTok.refl (t : Tok) : SameTok t t := ⟨rfl, rfl, fun _ => rfl⟩

theorem sColons_sound {mods cur ts r} (h : sColons mods cur ts = .ok r) :
    ∃ pre ms, ts = pre ++ r.2 ∧ r.1.1 = mods ++ ms ∧ Colons cur pre ms r.1.2 := by
  fun_induction sColons mods cur ts with
  | case1 => cases h; exact ⟨[], [], rfl, by simp, .done _⟩
  | case2 => simp at h
  | case3 mods cur c hc i ts hi ih =>
    obtain ⟨pre, ms, h1, h2, h3⟩ := ih h
    exact ⟨c :: i :: pre, cur :: ms, by simp [← h1], by simp [h2], .step hc hi h3⟩
  | case4 => simp at h
  | case5 mods cur c ts hc => cases h; exact ⟨[], [], rfl, by simp, .done _⟩

theorem sDots_sound {comps ts r} (h : sDots comps ts = .ok r) :
    ∃ pre cs, ts = pre ++ r.2 ∧ r.1 = comps ++ cs ∧ Dots pre cs := by
  fun_induction sDots comps ts with
  | case1 => cases h; exact ⟨[], [], rfl, by simp, .done⟩
  | case2 => simp at h
  | case3 comps d hd i ts hi ih =>
    obtain ⟨pre, cs, h1, h2, h3⟩ := ih h
    exact ⟨d :: i :: pre, i.text :: cs, by simp [← h1], by simp [h2], .step hd hi h3⟩
  | case4 => simp at h
  | case5 comps d ts hd => cases h; exact ⟨[], [], rfl, by simp, .done⟩

theorem sRef_sound {loc first ts o rest} (h : sRef loc first ts = .ok (o, rest)) :
    ∃ pre, ts = pre ++ rest ∧
      ∀ (i : Tok) (l : Loc), i.kind = .ident → i.text = first →
        Ref (i :: pre) ⟨l, o.modules, o.components⟩ := by
  unfold sRef at h
  cases h1 : sColons [] first ts with
  | error n => simp [h1, bind, Except.bind] at h
  | ok a =>
    cases h2 : sDots [a.1.2] a.2 with
    | error n => simp [h1, h2, bind, Except.bind] at h
    | ok b =>
      simp [h1, h2, bind, Except.bind, pure, Except.pure] at h
      obtain ⟨rfl, rfl⟩ := h
      obtain ⟨pre1, ms, e1, e2, hc⟩ := sColons_sound h1
      obtain ⟨pre2, cs, e3, e4, hd⟩ := sDots_sound h2
      refine ⟨pre1 ++ pre2, by rw [e1, e3]; simp, ?_⟩
      intro i l hi ht
      simp only [e2, e4, List.nil_append, List.singleton_append]
      subst ht
      have := Ref.mk (i := i) l hi hc hd
      simpa using this

/-! ### expressions and argument lists -/

def SoundP (ts : List Tok) : Prop :=
  ∀ p, sPrimary ts = .ok p → ∃ t pre, ts = t :: pre ++ p.rest ∧
    ∀ t', SameTok t' t → Primary (t' :: pre) p.val
def SoundE (ts : List Tok) : Prop :=
  ∀ p, sExpr ts = .ok p → ∃ t pre, ts = t :: pre ++ p.rest ∧
    ∀ t', SameTok t' t → Expression (t' :: pre) p.val
def SoundA (ts : List Tok) : Prop :=
  ∀ acc p, sArgs acc ts = .ok p → ∃ pre r as, ts = pre ++ r :: p.rest ∧ r.kind = .rparen ∧
    ArgList pre as ∧ p.val = appArgs acc as
def SoundN (ts : List Tok) : Prop :=
  ∀ acc p, sArgNext acc ts = .ok p → ∃ r, r.kind = .rparen ∧
    ((ts = r :: p.rest ∧ p.val = acc) ∨
     ∃ c pre as, c.kind = .comma ∧ ts = c :: pre ++ r :: p.rest ∧ ArgList pre as ∧
       p.val = appArgs acc as)

theorem soundP_step (ts : List Tok) (ihA : ∀ ts', ts'.length < ts.length → SoundA ts') : SoundP ts := by
  intro p h
  cases ts with
  | nil => simp [sPrimary] at h
  | cons t ts1 =>
    rw [sPrimary] at h
    split at h
    all_goals try (
      split at h
      · next v hv =>
        simp only [ret, Except.ok.injEq] at h; subst h
        refine ⟨t, [], by simp, ?_⟩
        intro t' ⟨hk, _, he⟩
        have : t' = t := he (by simp [*])
        subst this
        exact .lit (by simp [isPlainLit, *]) hv
      · simp at h)
    · -- ipv4
      next hk =>
      split at h
      · simp at h
      · next a ha =>
        have hsame : ∀ t', SameTok t' t → t' = t := fun t' h => h.2.2 (by simp [hk])
        split at h
        · simp only [ret, Except.ok.injEq] at h; subst h
          refine ⟨t, [], by simp, ?_⟩
          intro t' ht; rw [hsame t' ht]; exact .ip4 ha
        · next c ts2 =>
          split at h
          · next hc =>
            split at h
            · simp at h
            · next q ts3 =>
              split at h
              · next n hn =>
                simp only [ret, Except.ok.injEq] at h; subst h
                refine ⟨t, [c, q], by simp, ?_⟩
                intro t' ht; rw [hsame t' ht]; exact .sock ha hc hn
              · simp at h
          · simp only [ret, Except.ok.injEq] at h; subst h
            refine ⟨t, [], by simp, ?_⟩
            intro t' ht; rw [hsame t' ht]; exact .ip4 ha
    · -- identifier
      next hk =>
      split at h
      · simp at h
      · next o rest hs =>
        obtain ⟨pre, e1, href⟩ := sRef_sound hs
        have hle := sRef_le hs
        dsimp only at h
        split at h
        · simp only [ret, Except.ok.injEq] at h; subst h
          refine ⟨t, pre, by simp [e1], ?_⟩
          intro t' ⟨hk', ht', _⟩
          exact .ref (href t' o.loc (by rw [hk', hk]) ht')
        · next l rest1 _ _ _ _ =>
          split at h
          · next hl =>
            split at h
            · simp at h
            · next args rest2 hsh hsa =>
              simp only [ret, Except.ok.injEq] at h; subst h
              have hlen : rest1.length < (t :: ts1).length := by
                simp at hle ⊢; omega
              obtain ⟨pre2, r, as, e2, hr, hal, hv⟩ := ihA rest1 hlen .nil _ hsa
              simp only [appArgs_nil_left] at hv
              refine ⟨t, pre ++ l :: pre2 ++ [r], by simp [e1, e2], ?_⟩
              intro t' ⟨hk', ht', _⟩
              have := Primary.call (href t' o.loc (by rw [hk', hk]) ht') hl hal hr
              rw [show args = as from hv]
              simpa using this
          · simp only [ret, Except.ok.injEq] at h; subst h
            refine ⟨t, pre, by simp [e1], ?_⟩
            intro t' ⟨hk', ht', _⟩
            exact .ref (href t' o.loc (by rw [hk', hk]) ht')
    · simp at h

theorem soundE_step (ts : List Tok) (hP : SoundP ts)
    (ihE : ∀ ts', ts'.length < ts.length → SoundE ts') : SoundE ts := by
  intro p h
  rw [sExpr] at h
  split at h
  · simp at h
  · next a rest hsh hp =>
    obtain ⟨t, pre, e1, hprim⟩ := hP _ hp
    simp only at e1 hprim
    split at h
    · simp only [ret, Except.ok.injEq] at h; subst h
      exact ⟨t, pre, by simpa using e1, fun t' ht => .prim (hprim t' ht)⟩
    · next s rest1 hsh _ =>
      split at h
      · next hs =>
        split at h
        · simp at h
        · next b rest2 hsh2 hb =>
          simp only [ret, Except.ok.injEq] at h; subst h
          have hlen : rest1.length < ts.length := by simp at hsh; omega
          obtain ⟨t2, pre2, e2, hex⟩ := ihE rest1 hlen _ hb
          simp only at e2 hex
          refine ⟨t, pre ++ s :: t2 :: pre2, by simp [e1, e2], ?_⟩
          intro t' ht
          have := Expression.slash (hprim t' ht) hs (hex t2 (SameTok.refl t2))
          simpa using this
      · simp only [ret, Except.ok.injEq] at h; subst h
        exact ⟨t, pre, by simpa using e1, fun t' ht => .prim (hprim t' ht)⟩

theorem soundN_step (ts : List Tok) (ihA : ∀ ts', ts'.length < ts.length → SoundA ts') : SoundN ts := by
  intro acc p h
  cases ts with
  | nil => simp [sArgNext] at h
  | cons t ts1 =>
    rw [sArgNext] at h
    split at h
    · next hc =>
      split at h
      · simp at h
      · next as rest hsh ha =>
        simp only [ret, Except.ok.injEq] at h; subst h
        obtain ⟨pre, r, as', e1, hr, hal, hv⟩ := ihA ts1 (by simp) acc _ ha
        exact ⟨r, hr, .inr ⟨t, pre, as', hc, by simpa using e1, hal, hv⟩⟩
    · split at h
      · next hr =>
        simp only [ret, Except.ok.injEq] at h; subst h
        exact ⟨t, hr, .inl ⟨rfl, rfl⟩⟩
      · simp at h

/-- an argument followed by the rest of the argument list -/
theorem soundA_arg {ts0 : List Tok} {acc : Args} {n : Option String} {e : Expr} {rest : List Tok}
    {pa : List Tok} (harg : Arg pa n e) (q : Parsed rest Args)
    (hq : sArgNext (acc.snoc n e) rest = .ok q) (hN : SoundN rest) (e0 : ts0 = pa ++ rest) :
    ∃ pre r as, ts0 = pre ++ r :: q.rest ∧ r.kind = .rparen ∧ ArgList pre as ∧
      q.val = appArgs acc as := by
  obtain ⟨r, hr, hcase⟩ := hN _ _ hq
  rcases hcase with ⟨e1, hv⟩ | ⟨c, pre, as, hc, e1, hal, hv⟩
  · exact ⟨pa, r, .cons n e .nil, by rw [e0, ← e1], hr, .last harg, by rw [hv, snoc_eq_appArgs]⟩
  · refine ⟨pa ++ c :: pre, r, .cons n e as, by rw [e0]; simp only [List.append_assoc, List.cons_append]; exact congrArg (pa ++ ·) (by simpa using e1), hr, .cons harg hc hal, ?_⟩
    rw [hv, appArgs_snoc]

theorem soundA_step (ts : List Tok) (hE : ∀ ts', ts'.length ≤ ts.length → SoundE ts')
    (ihN : ∀ ts', ts'.length < ts.length → SoundN ts') : SoundA ts := by
  intro acc p h
  cases ts with
  | nil => simp [sArgs] at h
  | cons t ts1 =>
    rw [sArgs.eq_def] at h
    simp only at h
    split at h
    · next hr =>
      simp only [ret, Except.ok.injEq] at h; subst h
      exact ⟨[], t, .nil, rfl, hr, .nil, by simp⟩
    · split at h
      · next hi =>
        split at h
        · simp at h
        · next u us =>
          split at h
          · next hc =>
            -- named argument
            split at h
            · simp at h
            · next e rest hsh he =>
              split at h
              · simp at h
              · next as rest1 hsh1 hq =>
                simp only [ret, Except.ok.injEq] at h; subst h
                obtain ⟨t2, pre2, e2, hex⟩ := hE us (by simp; omega) _ he
                simp only at e2 hex
                have harg : Arg (t :: u :: t2 :: pre2) (some t.text) e :=
                  .named hi hc (hex t2 (SameTok.refl t2))
                exact soundA_arg harg ⟨as, rest1, hsh1⟩ hq (ihN rest (by simp at hsh ⊢; omega)) (by simp [e2])
          · -- positional argument beginning with an identifier
            split at h
            · simp at h
            · next e rest hsh he =>
              split at h
              · simp at h
              · next as rest1 hsh1 hq =>
                simp only [ret, Except.ok.injEq] at h; subst h
                obtain ⟨t2, pre2, e2, hex⟩ := hE (restamp t u :: u :: us) (by simp) _ he
                simp only at e2 hex
                have ht2 : t2 = restamp t u := by simp at e2; exact e2.1.symm
                have e3 : u :: us = pre2 ++ rest := by simp at e2; exact e2.2
                have harg : Arg (t :: pre2) none e :=
                  .pos (hex t ⟨by simp [ht2, restamp], by simp [ht2, restamp],
                    fun hne => absurd (by simp [ht2, restamp, hi]) hne⟩)
                exact soundA_arg harg ⟨as, rest1, hsh1⟩ hq (ihN rest (by simp at hsh ⊢; omega)) (by simp [e3])
      · -- positional argument beginning with another token
        split at h
        · simp at h
        · next e rest hsh he =>
          split at h
          · simp at h
          · next as rest1 hsh1 hq =>
            simp only [ret, Except.ok.injEq] at h; subst h
            obtain ⟨t2, pre2, e2, hex⟩ := hE (t :: ts1) (by simp) _ he
            simp only at e2 hex
            have harg : Arg (t2 :: pre2) none e := .pos (hex t2 (SameTok.refl t2))
            exact soundA_arg harg ⟨as, rest1, hsh1⟩ hq (ihN rest (by simp at hsh ⊢; omega)) (by simpa using e2)

theorem sound_all (n : Nat) : ∀ ts : List Tok, ts.length ≤ n →
    SoundP ts ∧ SoundE ts ∧ SoundA ts ∧ SoundN ts := by
  induction n with
  | zero =>
    intro ts h
    have : ts = [] := by cases ts <;> simp_all
    subst this
    refine ⟨?_, ?_, ?_, ?_⟩
    · intro p h; simp [sPrimary] at h
    · intro p h; rw [sExpr] at h; simp [sPrimary] at h
    · intro acc p h; simp [sArgs] at h
    · intro acc p h; simp [sArgNext] at h
  | succ n ih =>
    have hP : ∀ ts : List Tok, ts.length ≤ n + 1 → SoundP ts := fun ts h =>
      soundP_step ts (fun ts' h' => (ih ts' (by omega)).2.2.1)
    have hE : ∀ ts : List Tok, ts.length ≤ n + 1 → SoundE ts := by
      intro ts h
      by_cases hlt : ts.length ≤ n
      · exact (ih ts hlt).2.1
      · exact soundE_step ts (hP ts h) (fun ts' h' => (ih ts' (by omega)).2.1)
    have hN : ∀ ts : List Tok, ts.length ≤ n + 1 → SoundN ts := fun ts h =>
      soundN_step ts (fun ts' h' => (ih ts' (by omega)).2.2.1)
    intro ts h
    exact ⟨hP ts h, hE ts h, soundA_step ts (fun ts' h' => hE ts' (by omega))
      (fun ts' h' => (ih ts' (by omega)).2.2.2), hN ts h⟩

theorem sExpr_sound {ts : List Tok} {p} (h : sExpr ts = .ok p) :
    ∃ pre, ts = pre ++ p.rest ∧ Expression pre p.val := by
  obtain ⟨t, pre, e1, hex⟩ := (sound_all ts.length ts (Nat.le_refl _)).2.1 p h
  exact ⟨t :: pre, e1, hex t (SameTok.refl t)⟩

/-! ### statements and programs -/

theorem Ref.ne_nil {ts o} (h : Ref ts o) : ts ≠ [] := by cases h; simp

mutual
theorem Primary.ne_nil : ∀ {ts e}, Primary ts e → ts ≠ []
  | _, _, .lit _ _ => by simp
  | _, _, .ip4 _ => by simp
  | _, _, .sock _ _ _ => by simp
  | _, _, .ref h => h.ne_nil
  | _, _, .call h _ _ _ => by have := h.ne_nil; simp
theorem Expression.ne_nil : ∀ {ts e}, Expression ts e → ts ≠ []
  | _, _, .prim h => h.ne_nil
  | _, _, .slash h _ h2 => by have := h.ne_nil; have := h2.ne_nil; simp
end

theorem expect_ok {k ts r} (h : expect k ts = .ok r) : ts = r.1 :: r.2 ∧ r.1.kind = k := by
  cases ts with
  | nil => simp [expect] at h
  | cons t ts => simp only [expect] at h; split at h <;> simp_all; subst h; simp [*]

theorem parseExpr_sound {ts : List Tok} {r} (h : parseExpr ts = .ok r) :
    ∃ pre, ts = pre ++ r.2 ∧ Expression pre r.1 := by
  unfold parseExpr at h
  split at h
  · next p hp => simp at h; subst h; exact sExpr_sound hp
  · simp at h

theorem sStmt_sound {ts : List Tok} {r} (h : sStmt ts = .ok r) :
    ∃ pre, ts = pre ++ r.2 ∧ Statement pre r.1 := by
  cases ts with
  | nil => simp [sStmt] at h
  | cons t ts =>
    simp only [sStmt] at h
    split at h
    · next hk =>
      cases h1 : expect .ident ts with
      | error n => simp [h1, bind, Except.bind] at h
      | ok a =>
        cases h2 : expect .semi a.2 with
        | error n => simp [h1, h2, bind, Except.bind] at h
        | ok b =>
          simp [h1, h2, bind, Except.bind, pure, Except.pure] at h; subst h
          obtain ⟨e1, k1⟩ := expect_ok h1; obtain ⟨e2, k2⟩ := expect_ok h2
          exact ⟨[t, a.1, b.1], by simp [e1, e2], .imp hk k1 k2⟩
    · next hk =>
      cases h1 : expect .ident ts with
      | error n => simp [h1, bind, Except.bind] at h
      | ok a =>
        cases h2 : expect .equals a.2 with
        | error n => simp [h1, h2, bind, Except.bind] at h
        | ok b =>
          cases h3 : parseExpr b.2 with
          | error n => simp [h1, h2, h3, bind, Except.bind] at h
          | ok c =>
            cases h4 : expect .semi c.2 with
            | error n => simp [h1, h2, h3, h4, bind, Except.bind] at h
            | ok d =>
              simp [h1, h2, h3, h4, bind, Except.bind, pure, Except.pure] at h; subst h
              obtain ⟨e1, k1⟩ := expect_ok h1; obtain ⟨e2, k2⟩ := expect_ok h2
              obtain ⟨pre, e3, hex⟩ := parseExpr_sound h3
              obtain ⟨e4, k4⟩ := expect_ok h4
              refine ⟨t :: a.1 :: b.1 :: pre ++ [d.1], ?_, .assign hk k1 k2 hex k4⟩
              simp only [e1, List.cons_append, List.append_assoc, List.cons.injEq, true_and]
              rw [e2]; simp only [List.cons.injEq, true_and]
              rw [e3]; simp only [List.append_cancel_left_eq]
              rw [e4]; simp
    · next hk =>
      cases h1 : parseExpr (t :: ts) with
      | error n => simp [h1, bind, Except.bind] at h
      | ok a =>
        cases h2 : expect .semi a.2 with
        | error n => simp [h1, h2, bind, Except.bind] at h
        | ok b =>
          simp [h1, h2, bind, Except.bind, pure, Except.pure] at h; subst h
          obtain ⟨pre, e1, hex⟩ := parseExpr_sound h1
          obtain ⟨e2, k2⟩ := expect_ok h2
          cases pre with
          | nil => exact absurd rfl hex.ne_nil
          | cons t' pre' =>
            simp only [List.cons_append, List.cons.injEq] at e1
            obtain ⟨rfl, e1⟩ := e1
            refine ⟨t :: pre' ++ [b.1], ?_, .expr hk hex k2⟩
            simp only [List.cons_append, List.append_assoc, List.cons.injEq, true_and]
            rw [e1, e2]; simp
    · simp at h

theorem sProgram_sound {acc ts ss} (h : sProgram acc ts = .ok ss) :
    ∃ ss', ss = acc ++ ss' ∧ Program ts ss' := by
  fun_induction sProgram acc ts with
  | case1 => simp at h
  | case2 acc t he => cases h; exact ⟨[], by simp, .eof he⟩
  | case3 => simp at h
  | case4 => simp at h
  | case5 acc t ts1 he s rest hs ih =>
    obtain ⟨ss', e1, hp⟩ := ih h
    obtain ⟨pre, e2, hst⟩ := sStmt_sound hs
    exact ⟨s :: ss', by simp [e1], by rw [e2]; exact .cons hst hp⟩

end Resynth.Spec
