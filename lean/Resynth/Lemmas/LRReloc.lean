import Resynth.Lemmas.LRSplit
import Resynth.Lemmas.InterpSubst
/-!
# The parser is position-agnostic

`feed` copies source positions from tokens into the trees and never looks at them: re-positioning
every token by `r : Loc → Loc` re-positions the parser configuration (and so the statements) by `r`
and changes nothing else.
-/
namespace Resynth.LR

variable (r : Loc → Loc)

def relocTok (t : Tok) : Tok := { t with loc := r t.loc }

def PathB.reloc (p : PathB) : PathB := { p with loc := r p.loc }

def Node.reloc : Node → Node
  | .st s => .st s | .lit v => .lit v | .module s => .module s | .assignTo s => .assignTo s
  | .comp s => .comp s | .argName n => .argName n | .argList l => .argList (l.reloc r)
  | .path p => .path (p.reloc r) | .obj o => .obj (o.reloc r) | .expr e => .expr (e.reloc r)
  | .assign l t e => .assign (r l) t (e.reloc r) | .call o a => .call (o.reloc r) (a.reloc r)
  | .stmt s => .stmt (s.reloc r) | .loc l => .loc (r l) | .slash => .slash

def relocStack (s : Stack) : Stack := s.map (Node.reloc r)

def Cfg.reloc (c : Cfg) : Cfg := ⟨c.state, relocStack r c.stack, c.stmts.map (Stmt.reloc r)⟩

def Action.reloc : Action → Action
  | .shift s n => .shift s (n.reloc r)
  | a => a

theorem Args.reloc_snoc : ∀ (l : Args) (n : Option String) (e : Expr),
    (l.snoc n e).reloc r = (l.reloc r).snoc n (e.reloc r)
  | .nil, n, e => by simp [Args.snoc, Args.reloc]
  | .cons m f rest, n, e => by simp [Args.snoc, Args.reloc, Args.reloc_snoc rest]

@[simp] theorem relocStack_cons (n : Node) (s : Stack) : relocStack r (n :: s) = n.reloc r :: relocStack r s := rfl
@[simp] theorem relocStack_nil : relocStack r [] = [] := rfl

theorem popStr_reloc (s : Stack) :
    popStr (relocStack r s) = Res.map (fun p => (p.1, relocStack r p.2)) (popStr s) := by
  cases s with
  | nil => rfl
  | cons a s => cases a <;> rfl

theorem popPath_reloc (s : Stack) :
    popPath (relocStack r s) = Res.map (fun p => (p.1.reloc r, relocStack r p.2)) (popPath s) := by
  cases s with
  | nil => rfl
  | cons a s => cases a <;> rfl

theorem reduceModule_reloc (s : Stack) :
    reduceModule (relocStack r s) = Res.map (relocStack r) (reduceModule s) := by
  simp only [reduceModule, popStr_reloc]
  cases h1 : popStr s with
  | parseError => rfl
  | panic => rfl
  | ok p =>
    simp only [Res.map, bind, popPath_reloc]
    cases h2 : popPath p.2 <;> rfl

theorem reduceObject_reloc (s : Stack) :
    reduceObject (relocStack r s) = Res.map (relocStack r) (reduceObject s) := by
  simp only [reduceObject, popStr_reloc]
  cases h1 : popStr s with
  | parseError => rfl
  | panic => rfl
  | ok p =>
    simp only [Res.map, bind, popPath_reloc]
    cases h2 : popPath p.2 <;> rfl

theorem reduceRef_reloc (s : Stack) :
    reduceRef (relocStack r s) = Res.map (relocStack r) (reduceRef s) := by
  simp only [reduceRef, reduceObject_reloc]
  cases h1 : reduceObject s with
  | parseError => rfl
  | panic => rfl
  | ok s1 =>
    simp only [Res.map, bind, popPath_reloc]
    cases h2 : popPath s1 <;> rfl

theorem reduceSockaddr_reloc (s : Stack) :
    reduceSockaddr (relocStack r s) = Res.map (relocStack r) (reduceSockaddr s) := by
  rcases s with _ | ⟨a, s⟩
  · rfl
  cases a <;> try rfl
  rename_i v
  cases v <;> try rfl
  rcases s with _ | ⟨b, s⟩
  · rfl
  rcases s with _ | ⟨c, s⟩
  · cases b <;> rfl
  cases c <;> try (cases b <;> rfl)
  rename_i v
  cases v <;> try (cases b <;> rfl)
  rcases s with _ | ⟨d, s⟩ <;> cases b <;> rfl

theorem reduceLiteralExpr_reloc (s : Stack) :
    reduceLiteralExpr (relocStack r s) = Res.map (relocStack r) (reduceLiteralExpr s) := by
  rcases s with _ | ⟨a, s⟩
  · rfl
  cases a <;> try rfl
  rcases s with _ | ⟨b, s⟩
  · rfl
  cases b <;> rfl

theorem reduceRefExpr_reloc (s : Stack) :
    reduceRefExpr (relocStack r s) = Res.map (relocStack r) (reduceRefExpr s) := by
  rcases s with _ | ⟨a, s⟩
  · rfl
  cases a <;> rfl

theorem reduceCallExpr_reloc (s : Stack) :
    reduceCallExpr (relocStack r s) = Res.map (relocStack r) (reduceCallExpr s) := by
  rcases s with _ | ⟨a, s⟩
  · rfl
  cases a <;> rfl

theorem reduceBop_reloc (s : Stack) :
    reduceBop (relocStack r s) = Res.map (relocStack r) (reduceBop s) := by
  rcases s with _ | ⟨a, s⟩
  · rfl
  cases a <;> try rfl
  rcases s with _ | ⟨b, s⟩
  · rfl
  cases b <;> try rfl
  rcases s with _ | ⟨c, s⟩
  · rfl
  cases c <;> rfl

theorem reduceArg_reloc (s : Stack) :
    reduceArg (relocStack r s) = Res.map (relocStack r) (reduceArg s) := by
  rcases s with _ | ⟨a, s⟩
  · rfl
  cases a <;> try rfl
  rcases s with _ | ⟨b, s⟩
  · rfl
  cases b <;> try rfl
  rcases s with _ | ⟨c, s⟩
  · rfl
  cases c <;> try rfl
  simp [reduceArg, Res.map, Node.reloc, Args.reloc_snoc]

theorem reduceCall_reloc (s : Stack) :
    reduceCall (relocStack r s) = Res.map (relocStack r) (reduceCall s) := by
  rcases s with _ | ⟨a, s⟩
  · rfl
  cases a <;> try rfl
  rcases s with _ | ⟨b, s⟩
  · rfl
  cases b <;> rfl

theorem reduceAssign_reloc (s : Stack) :
    reduceAssign (relocStack r s) = Res.map (relocStack r) (reduceAssign s) := by
  rcases s with _ | ⟨a, s⟩
  · rfl
  cases a <;> try rfl
  rcases s with _ | ⟨b, s⟩
  · rfl
  rcases s with _ | ⟨c, s⟩
  · cases b <;> rfl
  cases c <;> cases b <;> rfl

theorem reduceExprStmt_reloc (s : Stack) :
    reduceExprStmt (relocStack r s) = Res.map (relocStack r) (reduceExprStmt s) := by
  rcases s with _ | ⟨a, s⟩
  · rfl
  cases a <;> rfl

theorem reduceAssignStmt_reloc (s : Stack) :
    reduceAssignStmt (relocStack r s) = Res.map (relocStack r) (reduceAssignStmt s) := by
  rcases s with _ | ⟨a, s⟩
  · rfl
  cases a <;> rfl

theorem reduceImportStmt_reloc (s : Stack) :
    reduceImportStmt (relocStack r s) = Res.map (relocStack r) (reduceImportStmt s) := by
  rcases s with _ | ⟨a, s⟩
  · rfl
  rcases s with _ | ⟨b, s⟩
  · cases a <;> rfl
  cases b <;> cases a <;> rfl

@[simp] theorem relocTok_kind (t : Tok) : (relocTok r t).kind = t.kind := rfl
@[simp] theorem relocTok_text (t : Tok) : (relocTok r t).text = t.text := rfl
@[simp] theorem relocTok_loc (t : Tok) : (relocTok r t).loc = r t.loc := rfl

theorem litOfToken_reloc (t : Tok) : litOfToken (relocTok r t) = litOfToken t := by
  obtain ⟨k, txt, loc⟩ := t
  cases k <;> rfl

theorem fromToken_reloc (t : Tok) : fromToken (relocTok r t) = fromToken t := by
  simp only [fromToken, litOfToken_reloc]

theorem pushLiteral_reloc (s : Stack) (t : Tok) :
    pushLiteral (relocStack r s) (relocTok r t) =
      Res.map (fun p => (p.1.reloc r, relocStack r p.2)) (pushLiteral s t) := by
  obtain ⟨k, txt, loc⟩ := t
  cases k <;> try rfl
  all_goals (
    simp only [pushLiteral, relocTok_kind, fromToken_reloc]
    cases fromToken _ <;> rfl)

/-- what `dispatch` returns, re-positioned -/
def relocD (x : Action × Stack × List Stmt) : Action × Stack × List Stmt :=
  (x.1.reloc r, relocStack r x.2.1, x.2.2.map (Stmt.reloc r))

theorem dispatch_reloc (c : Cfg) (t : Tok) :
    dispatch (c.reloc r) (relocTok r t) = Res.map (relocD r) (dispatch c t) := by
  obtain ⟨st, s, ss⟩ := c
  obtain ⟨k, txt, loc⟩ := t
  cases st
  case initial => cases k <;> rfl
  case import_ => cases k <;> rfl
  case importEnd => cases k <;> rfl
  case let_ => cases k <;> rfl
  case assign => cases k <;> rfl
  case refComponent => cases k <;> rfl
  case refModule => cases k <;> rfl
  case refObject => cases k <;> rfl
  case refObjEnd => cases k <;> rfl
  case argNext => cases k <;> rfl
  case exprArg => cases k <;> rfl
  case exprStmt => rfl
  case exprRvalue => rfl
  case ipv4 => cases k <;> rfl
  case slash => cases k <;> rfl
  case exprStmtEnd => cases k <;> rfl
  case assignStmtEnd => cases k <;> rfl
  case accept => rfl
  case reduceImport =>
    simp only [dispatch, Cfg.reloc, reduceImportStmt_reloc]; cases reduceImportStmt s <;> rfl
  case reduceObject =>
    simp only [dispatch, Cfg.reloc, reduceObject_reloc]; cases reduceObject s <;> rfl
  case reduceRefCall =>
    simp only [dispatch, Cfg.reloc, reduceRef_reloc]; cases reduceRef s <;> rfl
  case reduceRefNaked =>
    simp only [dispatch, Cfg.reloc, reduceRef_reloc]; cases reduceRef s <;> rfl
  case reduceModule =>
    simp only [dispatch, Cfg.reloc, reduceModule_reloc]; cases reduceModule s <;> rfl
  case reduceArg =>
    simp only [dispatch, Cfg.reloc, reduceArg_reloc]; cases LR.reduceArg s <;> rfl
  case reduceLiteralExpr =>
    simp only [dispatch, Cfg.reloc, reduceLiteralExpr_reloc]; cases LR.reduceLiteralExpr s <;> rfl
  case reduceRefExpr =>
    simp only [dispatch, Cfg.reloc, reduceRefExpr_reloc]; cases LR.reduceRefExpr s <;> rfl
  case reduceCallExpr =>
    simp only [dispatch, Cfg.reloc, reduceCallExpr_reloc]; cases LR.reduceCallExpr s <;> rfl
  case reduceSockAddr =>
    simp only [dispatch, Cfg.reloc, reduceSockaddr_reloc]; cases reduceSockaddr s <;> rfl
  case reduceBop =>
    simp only [dispatch, Cfg.reloc, reduceBop_reloc]; cases LR.reduceBop s <;> rfl
  case reduceAssign =>
    simp only [dispatch, Cfg.reloc, reduceAssign_reloc]; cases LR.reduceAssign s <;> rfl
  case reduceExprStmt =>
    simp only [dispatch, Cfg.reloc, reduceExprStmt_reloc]; cases LR.reduceExprStmt s <;> rfl
  case reduceAssignStmt =>
    simp only [dispatch, Cfg.reloc, reduceAssignStmt_reloc]; cases LR.reduceAssignStmt s <;> rfl
  case reduceExpr =>
    rcases s with _ | ⟨a, s⟩
    · rfl
    rcases s with _ | ⟨b, s⟩
    · rfl
    cases b <;> rfl
  case reduceCall =>
    rcases s with _ | ⟨a, s⟩
    · rfl
    simp only [dispatch, Cfg.reloc, relocStack_cons, reduceCall_reloc]
    cases LR.reduceCall s <;> rfl
  case reduceStmt =>
    rcases s with _ | ⟨a, s⟩
    · rfl
    cases a <;> try rfl
    simp [dispatch, Cfg.reloc, Res.map, relocD, Node.reloc, Action.reloc]
  case argName =>
    cases k <;> try rfl
    all_goals (
      rcases s with _ | ⟨a, s⟩
      · rfl
      cases a <;> try rfl
      rename_i n
      cases n <;> rfl)
  case expr =>
    cases k <;> try rfl
    all_goals (
      simp only [dispatch, Cfg.reloc, relocTok_kind, pushLiteral_reloc]
      cases pushLiteral s _ <;> rfl)
  case argVal =>
    cases k <;> try rfl
    case rparen =>
      rcases s with _ | ⟨a, s⟩
      · rfl
      cases a <;> try rfl
      all_goals (
        try (rename_i n; cases n <;> rfl))
    all_goals (
      have e : (Node.st State.reduceArg) :: relocStack r s = relocStack r (Node.st State.reduceArg :: s) := rfl
      simp only [dispatch, Cfg.reloc, relocTok_kind, e, pushLiteral_reloc]
      cases pushLiteral _ _ <;> rfl)
  case ipv4Colon =>
    cases k <;> try rfl
    simp only [dispatch, Cfg.reloc, relocTok_kind, relocTok_loc, fromToken_reloc]
    cases fromToken _ with
    | parseError => rfl
    | panic => rfl
    | ok v =>
      cases v <;> try rfl
      rename_i n
      by_cases hn : n > 65535 <;> simp [hn, bind, Res.map, relocD, Action.reloc, Node.reloc, pure]

theorem step_reloc (c : Cfg) (t : Tok) :
    step (c.reloc r) (relocTok r t) = Res.map (fun p => (p.1.reloc r, p.2)) (step c t) := by
  simp only [step, dispatch_reloc]
  cases dispatch c t with
  | parseError => rfl
  | panic => rfl
  | ok x =>
    obtain ⟨a, s, st⟩ := x
    cases a <;> rfl

theorem feedAux_reloc (fuel : Nat) (c : Cfg) (t : Tok) :
    feedAux fuel (c.reloc r) (relocTok r t) = Res.map (Cfg.reloc r) (feedAux fuel c t) := by
  induction fuel generalizing c with
  | zero => rfl
  | succ n ih =>
    simp only [feedAux, step_reloc]
    cases step c t with
    | parseError => rfl
    | panic => rfl
    | ok x =>
      obtain ⟨c', b⟩ := x
      cases b with
      | true => rfl
      | false => exact ih c'

theorem feed_reloc (c : Cfg) (t : Tok) :
    feed (c.reloc r) (relocTok r t) = Res.map (Cfg.reloc r) (feed c t) := by
  unfold feed
  have : (c.reloc r).stack.length = c.stack.length := by simp [Cfg.reloc, relocStack]
  rw [this]
  exact feedAux_reloc r _ c t

theorem feedList_reloc (ts : List Tok) : ∀ (c : Cfg) (i : Nat),
    feedList (c.reloc r) i (ts.map (relocTok r)) = Run.map (Cfg.reloc r) (feedList c i ts) := by
  induction ts with
  | nil => intro c i; rfl
  | cons t ts ih =>
    intro c i
    simp only [List.map_cons, feedList, feed_reloc]
    cases feed c t with
    | parseError => rfl
    | panic => rfl
    | ok c' => exact ih c' (i + 1)

/-- the outcome of a whole parse, re-positioned -/
def Outcome.reloc : Outcome → Outcome
  | .ok ss => .ok (ss.map (Stmt.reloc r))
  | o => o

/-- **The parser is position-agnostic**: re-positioning every token re-positions the statements and
changes nothing else (same acceptance, same index of the offending token). -/
theorem parseAll_reloc (hr : r Loc.nil = Loc.nil) (ts : List Tok) :
    parseAll (ts.map (relocTok r)) = (parseAll ts).reloc r := by
  have he : relocTok r eofTok = eofTok := by simp [relocTok, eofTok, hr]
  have h := feedList_reloc r (ts ++ [eofTok]) Cfg.init 0
  rw [List.map_append, List.map_singleton, he] at h
  have h' : feedList Cfg.init 0 (ts.map (relocTok r) ++ [eofTok]) =
      Run.map (Cfg.reloc r) (feedList Cfg.init 0 (ts ++ [eofTok])) := h
  unfold parseAll
  rw [h']
  cases feedList Cfg.init 0 (ts ++ [eofTok]) <;> rfl

/-- forget the position of a token -/
def eraseTok (t : Tok) : Tok := relocTok (fun _ => Loc.nil) t

/-- Token sequences that agree up to positions are parsed alike: both accepted, with the same statements
up to positions, or both rejected at the same index. -/
theorem parseAll_erase_congr (ts ts' : List Tok) (h : ts.map eraseTok = ts'.map eraseTok) :
    match parseAll ts, parseAll ts' with
    | .ok a, .ok b => a.map Stmt.erase = b.map Stmt.erase
    | .parseError i, .parseError j => i = j
    | .panic i, .panic j => i = j
    | _, _ => False := by
  have h1 := parseAll_reloc (fun _ => Loc.nil) rfl ts
  have h2 := parseAll_reloc (fun _ => Loc.nil) rfl ts'
  have e : (parseAll ts).reloc (fun _ => Loc.nil) = (parseAll ts').reloc (fun _ => Loc.nil) := by
    rw [← h1, ← h2]; exact congrArg parseAll h
  revert e
  have hE : Stmt.erase = Stmt.reloc (fun _ => Loc.nil) := by funext s; rfl
  rw [hE]
  cases parseAll ts <;> cases parseAll ts' <;> simp [Outcome.reloc]

theorem eraseTok_of_kinds (ts ts' : List Tok)
    (h : ts.map (fun t => (t.kind, t.text)) = ts'.map (fun t => (t.kind, t.text))) :
    ts.map eraseTok = ts'.map eraseTok := by
  have e : eraseTok = (fun p : TokKind × String => (⟨p.1, p.2, Loc.nil⟩ : Tok)) ∘ (fun t => (t.kind, t.text)) := by
    funext t; rfl
  rw [e, ← List.map_map, ← List.map_map, h]

end Resynth.LR
