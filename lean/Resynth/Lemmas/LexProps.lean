import Resynth.Lemmas.LexLoop
/-!
# Consequences of `Lex.line = Spec.lexLine`: tiling, columns, error position, fuel
-/
namespace Resynth.LexLemmas
open Resynth Resynth.Lex Resynth.Spec

/-! ## tiling -/

theorem tile_tiling (cs : List Char) :
    ∃ rest, Tiling cs (tile cs).1 rest ∧ ((tile cs).2 = true → rest = []) ∧
      ((tile cs).2 = false → rest ≠ [] ∧ select rest = none) := by
  generalize hn : cs.length = n
  induction n using Nat.strongRecOn generalizing cs with
  | _ n ih =>
    cases cs with
    | nil => exact ⟨[], .done [], fun _ => rfl, fun h => (by simp [tile_nil] at h)⟩
    | cons c rest =>
      cases hsel : select (c :: rest) with
      | none =>
        rw [tile_cons_none hsel]
        exact ⟨c :: rest, .done _, fun h => (by cases h), fun _ => ⟨by simp, hsel⟩⟩
      | some p =>
        obtain ⟨r, m⟩ := p
        have hb := select_bounds hsel
        rw [tile_cons_some hsel]
        obtain ⟨rest', h1, h2, h3⟩ := ih ((c :: rest).drop m).length
          (by rw [← hn, List.length_drop]; simp at hb ⊢; omega) ((c :: rest).drop m) rfl
        exact ⟨rest', .step hsel h1, h2, h3⟩

theorem _root_.Resynth.Spec.Tiling.cover {cs : List Char} {ls : List Lexeme} {rest : List Char} (h : Tiling cs ls rest) :
    cs = ls.flatMap (·.text) ++ rest := by
  induction h with
  | done cs => simp
  | step hsel _ ih =>
    rename_i cs r n ls rest
    simp only [List.flatMap_cons, List.append_assoc]
    rw [← ih, List.take_append_drop]

/-- the lexeme in the middle of a tiling is the selected match at its position -/
theorem _root_.Resynth.Spec.Tiling.split {cs : List Char} {l1 : List Lexeme} {l : Lexeme} {l2 : List Lexeme}
    {rest : List Char} (h : Tiling cs (l1 ++ l :: l2) rest) :
    ∃ post, cs = l1.flatMap (·.text) ++ (l.text ++ post) ∧
      select (l.text ++ post) = some (l.rule, l.text.length) := by
  induction l1 generalizing cs with
  | nil =>
    cases h with
    | step hsel ht =>
      rename_i n
      have hb := select_bounds hsel
      refine ⟨cs.drop n, by simp, ?_⟩
      simp only [List.take_append_drop, List.length_take, Nat.min_eq_left hb.2]
      exact hsel
  | cons a l1 ih =>
    cases h with
    | step hsel ht =>
      rename_i n
      obtain ⟨post, h1, h2⟩ := ih ht
      refine ⟨post, ?_, h2⟩
      simp only [List.flatMap_cons, List.append_assoc]
      rw [← h1, List.take_append_drop]

/-! ## positions of the tokens -/

theorem readToks_nonstr (lno : Nat) (ls : List Lexeme) : ∀ (off : Nat) (acc : Option String) (t : Tok),
    t ∈ (readToks lno off acc ls).1 → t.kind ≠ .strLit →
    ∃ l1 l l2, ls = l1 ++ l :: l2 ∧ l.rule.kind = some t.kind ∧ t.text = tokVal t.kind l.text ∧
      t.loc = ⟨lno, off + byteLen (l1.flatMap (·.text)) + 1⟩ := by
  induction ls with
  | nil => intro off acc t ht; simp [readToks] at ht
  | cons l ls ih =>
    intro off acc t ht hk
    have lift : ∀ acc', t ∈ (readToks lno (off + byteLen l.text) acc' ls).1 →
        ∃ l1 l' l2, l :: ls = l1 ++ l' :: l2 ∧ l'.rule.kind = some t.kind ∧
          t.text = tokVal t.kind l'.text ∧ t.loc = ⟨lno, off + byteLen (l1.flatMap (·.text)) + 1⟩ := by
      intro acc' h
      obtain ⟨l1, l', l2, h1, h2, h3, h4⟩ := ih _ acc' t h hk
      refine ⟨l :: l1, l', l2, by rw [h1]; rfl, h2, h3, ?_⟩
      rw [h4, List.flatMap_cons, byteLen_append]
      simp only [Loc.mk.injEq, true_and]; omega
    cases hkind : l.rule.kind with
    | none =>
      simp only [readToks, hkind] at ht
      exact lift _ ht
    | some k =>
      by_cases hs : k = .strLit
      · subst hs
        simp only [readToks, hkind] at ht
        exact lift _ ht
      · have hrt : (readToks lno off acc (l :: ls)).1 =
            (acc.map fun s => (⟨.strLit, s, ⟨lno, off + 1⟩⟩ : Tok)).toList ++
              ⟨k, tokVal k l.text, ⟨lno, off + 1⟩⟩ :: (readToks lno (off + byteLen l.text) none ls).1 := by
          cases k <;> first | exact absurd rfl hs | simp [readToks, hkind]
        rw [hrt] at ht
        simp only [List.mem_append, List.mem_cons] at ht
        rcases ht with ht | ht | ht
        · cases acc with
          | none => simp at ht
          | some s => simp at ht; subst ht; exact absurd rfl hk
        · subst ht
          exact ⟨[], l, ls, rfl, hkind, rfl, by simp [byteLen_nil]⟩
        · exact lift _ ht

/-- a string token is immediately followed by a non-string token with the same position -/
theorem readToks_str (lno : Nat) (ls : List Lexeme) : ∀ (off : Nat) (acc : Option String)
    (a : List Tok) (t : Tok) (b : List Tok),
    (readToks lno off acc ls).1 = a ++ t :: b → t.kind = .strLit →
    ∃ t' b', b = t' :: b' ∧ t'.kind ≠ .strLit ∧ t'.loc = t.loc := by
  induction ls with
  | nil => intro off acc a t b h; simp [readToks] at h
  | cons l ls ih =>
    intro off acc a t b h hk
    cases hkind : l.rule.kind with
    | none => simp only [readToks, hkind] at h; exact ih _ _ a t b h hk
    | some k =>
      by_cases hs : k = .strLit
      · subst hs
        simp only [readToks, hkind] at h; exact ih _ _ a t b h hk
      · have hrt : (readToks lno off acc (l :: ls)).1 =
            (acc.map fun s => (⟨.strLit, s, ⟨lno, off + 1⟩⟩ : Tok)).toList ++
              ⟨k, tokVal k l.text, ⟨lno, off + 1⟩⟩ :: (readToks lno (off + byteLen l.text) none ls).1 := by
          cases k <;> first | exact absurd rfl hs | simp [readToks, hkind]
        rw [hrt] at h
        cases acc with
        | none =>
          simp only [Option.map_none, Option.toList_none, List.nil_append] at h
          cases a with
          | nil =>
            simp only [List.nil_append, List.cons.injEq] at h
            rw [← h.1] at hk; exact absurd hk hs
          | cons a0 a' =>
            simp only [List.cons_append, List.cons.injEq] at h
            exact ih _ _ a' t b h.2 hk
        | some s =>
          simp only [Option.map_some, Option.toList_some, List.cons_append, List.nil_append] at h
          cases a with
          | nil =>
            simp only [List.nil_append, List.cons.injEq] at h
            obtain ⟨h1, h2⟩ := h
            exact ⟨_, _, h2.symm, hs, by rw [← h1]⟩
          | cons a0 a' =>
            simp only [List.cons_append, List.cons.injEq] at h
            cases a' with
            | nil =>
              simp only [List.nil_append, List.cons.injEq] at h
              rw [← h.2.1] at hk; exact absurd hk hs
            | cons a1 a'' =>
              simp only [List.cons_append, List.cons.injEq] at h
              exact ih _ _ a'' t b h.2.2 hk

/-- the line number only shows up in `loc.line` -/
def relocate (lno : Nat) (t : Tok) : Tok := { t with loc := { t.loc with line := lno } }

theorem readToks_lno (lno lno' : Nat) (ls : List Lexeme) : ∀ (off : Nat) (acc : Option String),
    readToks lno' off acc ls =
      (((readToks lno off acc ls).1).map (relocate lno'), (readToks lno off acc ls).2) := by
  induction ls with
  | nil => intro off acc; simp [readToks]
  | cons l ls ih =>
    intro off acc
    cases hkind : l.rule.kind with
    | none => simp only [readToks, hkind]; exact ih _ _
    | some k =>
      by_cases hs : k = .strLit
      · subst hs; simp only [readToks, hkind]; exact ih _ _
      · have hrt : ∀ lno, readToks lno off acc (l :: ls) =
            ((acc.map fun s => (⟨.strLit, s, ⟨lno, off + 1⟩⟩ : Tok)).toList ++
              ⟨k, tokVal k l.text, ⟨lno, off + 1⟩⟩ :: (readToks lno (off + byteLen l.text) none ls).1,
              (readToks lno (off + byteLen l.text) none ls).2) := by
          intro lno
          cases k <;> first | exact absurd rfl hs | simp [readToks, hkind]
        rw [hrt, hrt, ih]
        cases acc <;> simp [relocate]

theorem readToks_line (lno : Nat) (ls : List Lexeme) : ∀ (off : Nat) (acc : Option String) (t : Tok),
    t ∈ (readToks lno off acc ls).1 → t.loc.line = lno := by
  induction ls with
  | nil => intro off acc t ht; simp [readToks] at ht
  | cons l ls ih =>
    intro off acc t ht
    cases hkind : l.rule.kind with
    | none => simp only [readToks, hkind] at ht; exact ih _ _ t ht
    | some k =>
      by_cases hs : k = .strLit
      · subst hs; simp only [readToks, hkind] at ht; exact ih _ _ t ht
      · have hrt : (readToks lno off acc (l :: ls)).1 =
            (acc.map fun s => (⟨.strLit, s, ⟨lno, off + 1⟩⟩ : Tok)).toList ++
              ⟨k, tokVal k l.text, ⟨lno, off + 1⟩⟩ :: (readToks lno (off + byteLen l.text) none ls).1 := by
          cases k <;> first | exact absurd rfl hs | simp [readToks, hkind]
        rw [hrt] at ht
        simp only [List.mem_append, List.mem_cons] at ht
        rcases ht with ht | ht | ht
        · cases acc with
          | none => simp at ht
          | some s => simp at ht; subst ht; rfl
        · subst ht; rfl
        · exact ih _ _ t ht

/-! ## the result of `lexLine` in terms of a tiling -/

theorem lexLine_ok {lno : Nat} {pending : Option String} {ln : String} {r : List Tok × Option String}
    (h : lexLine lno pending ln = .ok r) :
    ∃ ls, Tiling ln.toList ls [] ∧ r = readToks lno 0 pending ls := by
  obtain ⟨rest, h1, h2, h3⟩ := tile_tiling ln.toList
  simp only [lexLine] at h
  rcases htile : tile ln.toList with ⟨ls, ok⟩
  rw [htile] at h h1 h2
  cases ok with
  | false => simp at h
  | true =>
    simp only [Except.ok.injEq] at h
    rw [h2 rfl] at h1
    exact ⟨ls, h1, h.symm⟩

theorem lexLine_error {lno : Nat} {pending : Option String} {ln : String} {c : Nat}
    (h : lexLine lno pending ln = .error c) :
    ∃ ls rest, Tiling ln.toList ls rest ∧ rest ≠ [] ∧ select rest = none ∧
      c = 1 + byteLen (ls.flatMap (·.text)) := by
  obtain ⟨rest, h1, h2, h3⟩ := tile_tiling ln.toList
  simp only [lexLine] at h
  rcases htile : tile ln.toList with ⟨ls, ok⟩
  rw [htile] at h h1 h3
  cases ok with
  | true => simp at h
  | false =>
    simp only [Except.error.injEq] at h
    exact ⟨ls, rest, h1, (h3 rfl).1, (h3 rfl).2, h.symm⟩

theorem select_none_iff (cs : List Char) : select cs = none ↔ ∀ r ∈ rules, matchLen r cs = none := by
  simp only [select, List.findSome?_eq_none_iff, Option.map_eq_none_iff]

/-! ## fuel -/

theorem loop_fuel (lno : Nat) : ∀ (f1 f2 pos : Nat) (cs : List Char) (s : St),
    cs.length < f1 → cs.length < f2 → loop lno f1 pos cs s = loop lno f2 pos cs s := by
  intro f1
  induction f1 with
  | zero => intro f2 pos cs s h; omega
  | succ f1 ih =>
    intro f2 pos cs s h1 h2
    obtain ⟨f2, rfl⟩ : ∃ f, f2 = f + 1 := ⟨f2 - 1, by omega⟩
    cases cs with
    | nil => simp [loop]
    | cons c rest =>
      rw [loop, loop]
      simp only [List.isEmpty_cons, Bool.false_eq_true, if_false]
      cases hsc : scanOne (c :: rest) with
      | none => rfl
      | some p =>
        obtain ⟨cls, n⟩ := p
        have hb := scanOne_bounds hsc
        simp only []
        apply ih
        · rw [List.length_drop]; simp at h1 hb ⊢; omega
        · rw [List.length_drop]; simp at h2 hb ⊢; omega

end Resynth.LexLemmas

namespace Resynth.LexLemmas
open Resynth Resynth.Lex Resynth.Spec

/-! ## `Lex.line` results in terms of `lexLine` -/

theorem line_error_iff (lno : Nat) (pending : Option String) (ln : String) (c : Nat) :
    Lex.line lno pending ln = .error c ↔ lexLine lno pending ln = .error c := by
  rw [← line_eq_spec]
  cases Lex.line lno pending ln with
  | error e => simp [Except.map]
  | ok o => simp [Except.map]

theorem line_endCol {lno : Nat} {pending : Option String} {ln : String} {out : LineOut}
    (h : Lex.line lno pending ln = .ok out) : out.endCol = byteLen ln.toList + 1 := by
  simp only [Lex.line] at h
  split at h
  · cases h
  · cases h; simp [utf8Len_eq]

theorem line_ok_iff (lno : Nat) (pending : Option String) (ln : String) (out : LineOut) :
    Lex.line lno pending ln = .ok out ↔
      lexLine lno pending ln = .ok (out.toks, out.pending) ∧ out.endCol = byteLen ln.toList + 1 := by
  constructor
  · intro h
    refine ⟨?_, line_endCol h⟩
    rw [← line_eq_spec, h]; rfl
  · rintro ⟨h1, h2⟩
    rw [← line_eq_spec] at h1
    cases hl : Lex.line lno pending ln with
    | error e => rw [hl] at h1; simp [Except.map] at h1
    | ok o =>
      rw [hl] at h1
      simp only [Except.map, Except.ok.injEq, Prod.mk.injEq] at h1
      have := line_endCol hl
      congr 1
      cases o; cases out
      simp_all

theorem byteLen_pos {cs : List Char} (h : cs ≠ []) : 0 < byteLen cs := by
  cases cs with
  | nil => exact absurd rfl h
  | cons c cs => rw [byteLen_cons]; have := Char.utf8Size_pos c; omega

theorem byteLen_toList (s : String) : byteLen s.toList = s.utf8ByteSize := by
  simp [byteLen, String.ofList_toList]

/-- the only rule that produces string tokens is `.string` -/
theorem rule_of_str {r : LexRule} (hr : r ∈ rules) (hk : r.kind = some .strLit) : r = .string := by
  simp only [rules, List.mem_cons, List.not_mem_nil, or_false] at hr
  rcases hr with h | h | h | h | h | h | h | h | h | h | h | h | h | h | h | h | h | h | h | h | h | h <;>
    subst h <;> first | rfl | (simp [LexRule.kind] at hk)

/-- a string lexeme is at least the two quotes: the slice `[1 .. len - 1]` is in range -/
theorem scanOne_str_len {cs : List Char} {n : Nat} (h : scanOne cs = some (.str, n)) : 2 ≤ n := by
  rw [scanOne_eq_spec] at h
  simp only [Option.map_eq_some_iff, Prod.mk.injEq] at h
  obtain ⟨⟨r, m⟩, hs, hc, rfl⟩ := h
  have hr := select_spec hs
  have hk : r.kind = some .strLit := by
    simp only [clsOf] at hc
    cases hkind : r.kind with
    | none => rw [hkind] at hc; cases hc
    | some k => rw [hkind] at hc; cases k <;> first | rfl | cases hc
  have := rule_of_str hr.1 hk
  subst this
  have hm := hr.2
  cases cs with
  | nil => simp [matchLen, longest] at hm
  | cons c rest =>
    rw [matchLen_string] at hm
    split at hm
    · split at hm
      · cases hm; omega
      · cases hm
    · cases hm

end Resynth.LexLemmas
