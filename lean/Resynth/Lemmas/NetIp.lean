import Resynth.Lemmas.Csum
import Resynth.Model.Hdr
/-!
# IPv4 header: serialise / read back, checksum, flag and offset bit fields
-/
namespace Resynth

/-! ## readers on explicit lists -/

@[simp] theorem Spec.u8At_cons_zero (x : UInt8) (l : Bytes) : Spec.u8At (x :: l) 0 = x.toNat := by
  simp [Spec.u8At]

@[simp] theorem Spec.u8At_cons_succ (x : UInt8) (l : Bytes) (n : Nat) :
    Spec.u8At (x :: l) (n + 1) = Spec.u8At l n := by
  simp [Spec.u8At]

theorem Spec.u8At_append_right (a b : Bytes) (n : Nat) :
    Spec.u8At (a ++ b) (a.length + n) = Spec.u8At b n := by
  simp [Spec.u8At]

theorem Spec.u16At_append_right (a b : Bytes) (n : Nat) :
    Spec.u16At (a ++ b) (a.length + n) = Spec.u16At b n := by
  simp only [Spec.u16At, Nat.add_assoc, Spec.u8At_append_right]

theorem Spec.u32At_append_right (a b : Bytes) (n : Nat) :
    Spec.u32At (a ++ b) (a.length + n) = Spec.u32At b n := by
  simp only [Spec.u32At, Nat.add_assoc, Spec.u16At_append_right]

theorem Spec.macOfIp_eq (ip : Nat) : Spec.macOfIp ip = Resynth.macOfIp ip := rfl
theorem Spec.macBroadcast_eq : Spec.macBroadcast = Resynth.macBroadcast := rfl

theorem macOfIp_mod (ip : Nat) : macOfIp (ip % 4294967296) = macOfIp ip := by
  unfold macOfIp; rw [be32_mod]

@[simp] theorem macOfIp_length_six (ip : Nat) : (macOfIp ip).length = 6 := rfl
@[simp] theorem macBroadcast_length : macBroadcast.length = 6 := rfl
@[simp] theorem ethHdr_length_sum (d s : Bytes) (p : Nat) : (ethHdr d s p).length = d.length + s.length + 2 := by
  simp [ethHdr]; omega

namespace IpHdr

theorem serialize_eq (h : IpHdr) : h.serialize =
    [b8 h.ihlVersion, b8 h.tos, b8 (h.totLen / 256), b8 h.totLen, b8 (h.id / 256), b8 h.id,
     b8 (h.fragOff / 256), b8 h.fragOff, b8 h.ttl, b8 h.protocol, b8 (h.csum / 256), b8 h.csum,
     b8 (h.saddr / 16777216), b8 (h.saddr / 65536), b8 (h.saddr / 256), b8 h.saddr,
     b8 (h.daddr / 16777216), b8 (h.daddr / 65536), b8 (h.daddr / 256), b8 h.daddr] := rfl

@[simp] theorem serialize_len (h : IpHdr) : h.serialize.length = 20 := rfl

/-- plain word sum of the 20 header bytes without the checksum field -/
def sumNoCsum (h : IpHdr) : Nat :=
  (h.ihlVersion % 256) * 256 + h.tos % 256 + h.totLen % 65536 + h.id % 65536 + h.fragOff % 65536 +
  (h.ttl % 256) * 256 + h.protocol % 256 +
  (h.saddr / 65536 % 65536 + h.saddr % 65536) + (h.daddr / 65536 % 65536 + h.daddr % 65536)

theorem sum16_serialize (h : IpHdr) : sum16 h.serialize = h.sumNoCsum + h.csum % 65536 := by
  simp [serialize_eq, sum16, sumNoCsum]; omega

theorem sumNoCsum_lt (h : IpHdr) : h.sumNoCsum < 4294967296 := by
  unfold sumNoCsum; omega

/-! ### `calcCsum` touches only the checksum field -/

@[simp] theorem calcCsum_ihlVersion (h : IpHdr) : h.calcCsum.ihlVersion = h.ihlVersion := rfl
@[simp] theorem calcCsum_tos (h : IpHdr) : h.calcCsum.tos = h.tos := rfl
@[simp] theorem calcCsum_totLen (h : IpHdr) : h.calcCsum.totLen = h.totLen := rfl
@[simp] theorem calcCsum_id (h : IpHdr) : h.calcCsum.id = h.id := rfl
@[simp] theorem calcCsum_fragOff (h : IpHdr) : h.calcCsum.fragOff = h.fragOff := rfl
@[simp] theorem calcCsum_ttl (h : IpHdr) : h.calcCsum.ttl = h.ttl := rfl
@[simp] theorem calcCsum_protocol (h : IpHdr) : h.calcCsum.protocol = h.protocol := rfl
@[simp] theorem calcCsum_saddr (h : IpHdr) : h.calcCsum.saddr = h.saddr := rfl
@[simp] theorem calcCsum_daddr (h : IpHdr) : h.calcCsum.daddr = h.daddr := rfl

theorem calcCsum_csum (h : IpHdr) : h.calcCsum.csum = csumFold h.sumNoCsum := by
  simp [calcCsum, ipCsum, sum16_serialize, sumNoCsum]

@[simp] theorem calcCsum_sumNoCsum (h : IpHdr) : h.calcCsum.sumNoCsum = h.sumNoCsum := rfl

/-- a header whose stored checksum is the one `calcCsum` would store -/
def Fresh (h : IpHdr) : Prop := h.csum = csumFold h.sumNoCsum

theorem fresh_calcCsum (h : IpHdr) : h.calcCsum.Fresh := by
  simp [Fresh, calcCsum_csum]

/-- the 20 serialised bytes of a fresh header pass the Spec verifier -/
theorem csumOk_serialize (h : IpHdr) (hf : h.Fresh) : Spec.csumOk h.serialize = true := by
  rw [csumOk_iff, sum16_serialize, hf, Nat.mod_eq_of_lt (by have := csumFold_le h.sumNoCsum; omega)]
  exact csumFold_verifies _ h.sumNoCsum_lt

/-! ### read-back of every field from `serialize ++ rest` -/

variable (h : IpHdr) (rest : Bytes)

theorem read_ver : Spec.u8At (h.serialize ++ rest) 0 = h.ihlVersion % 256 := by
  simp [serialize_eq]

theorem read_totLen : Spec.u16At (h.serialize ++ rest) 2 = h.totLen % 65536 := by
  simp [serialize_eq, Spec.u16At]; omega

theorem read_id : Spec.ipId (h.serialize ++ rest) = h.id % 65536 := by
  simp [serialize_eq, Spec.ipId, Spec.u16At]; omega

theorem read_frag16 : Spec.u16At (h.serialize ++ rest) 6 = h.fragOff % 65536 := by
  simp [serialize_eq, Spec.u16At]; omega

theorem read_ttl : Spec.ipTtl (h.serialize ++ rest) = h.ttl % 256 := by
  simp [serialize_eq, Spec.ipTtl]

theorem read_proto : Spec.ipProto (h.serialize ++ rest) = h.protocol % 256 := by
  simp [serialize_eq, Spec.ipProto]

theorem read_src : Spec.ipSrc (h.serialize ++ rest) = h.saddr % 4294967296 := by
  simp [serialize_eq, Spec.ipSrc, Spec.u32At, Spec.u16At]; omega

theorem read_dst : Spec.ipDst (h.serialize ++ rest) = h.daddr % 4294967296 := by
  simp [serialize_eq, Spec.ipDst, Spec.u32At, Spec.u16At]; omega

theorem read_fragOff : Spec.ipFragOff (h.serialize ++ rest) = h.fragOff % 8192 := by
  rw [Spec.ipFragOff, read_frag16]; omega

theorem read_mf : Spec.ipMF (h.serialize ++ rest) = h.fragOff.testBit 13 := by
  rw [Spec.ipMF, read_frag16, Nat.testBit_eq_decide_div_mod_eq]
  have : h.fragOff % 65536 / 8192 % 2 = h.fragOff / 2 ^ 13 % 2 := by omega
  rw [this]
  rcases Nat.mod_two_eq_zero_or_one (h.fragOff / 2 ^ 13) with e | e <;> simp [e]

theorem read_df : Spec.ipDF (h.serialize ++ rest) = h.fragOff.testBit 14 := by
  rw [Spec.ipDF, read_frag16, Nat.testBit_eq_decide_div_mod_eq]
  have : h.fragOff % 65536 / 16384 % 2 = h.fragOff / 2 ^ 14 % 2 := by omega
  rw [this]
  rcases Nat.mod_two_eq_zero_or_one (h.fragOff / 2 ^ 14) with e | e <;> simp [e]

theorem read_evil : Spec.ipEvil (h.serialize ++ rest) = h.fragOff.testBit 15 := by
  rw [Spec.ipEvil, read_frag16, Nat.testBit_eq_decide_div_mod_eq]
  have : h.fragOff % 65536 / 32768 % 2 = h.fragOff / 2 ^ 15 % 2 := by omega
  rw [this]
  rcases Nat.mod_two_eq_zero_or_one (h.fragOff / 2 ^ 15) with e | e <;> simp [e]

@[simp] theorem take20 : (h.serialize ++ rest).take 20 = h.serialize := by
  rw [List.take_append_of_le_length (by simp)]; exact List.take_of_length_le (by simp)

@[simp] theorem drop20 : (h.serialize ++ rest).drop 20 = rest := by
  rw [List.drop_append_of_le_length (by simp)]; simp

/-- **General IPv4 header lemma.**  A serialised header with a fresh checksum followed by `rest`
is a well-formed IPv4 datagram exactly when it says version 4 / IHL 5 and its total-length field
counts the 20 header bytes plus `rest`. -/
theorem ipv4Ok_iff (hf : h.Fresh) :
    Spec.ipv4Ok (h.serialize ++ rest) = true ↔
      h.ihlVersion % 256 = 0x45 ∧ h.totLen % 65536 = 20 + rest.length := by
  simp [Spec.ipv4Ok, read_ver, read_totLen, csumOk_serialize h hf]

theorem ipv4Ok_calcCsum_iff :
    Spec.ipv4Ok (h.calcCsum.serialize ++ rest) = true ↔
      h.ihlVersion % 256 = 0x45 ∧ h.totLen % 65536 = 20 + rest.length := by
  simpa using ipv4Ok_iff h.calcCsum rest h.fresh_calcCsum

/-- the form used by all builders: stored total length is congruent to the real one and the
real one fits 16 bits -/
theorem ipv4Ok_of (hf : h.Fresh) (hv : h.ihlVersion = 0x45)
    (hl : h.totLen % 65536 = (20 + rest.length) % 65536) (hfit : 20 + rest.length ≤ 65535) :
    Spec.ipv4Ok (h.serialize ++ rest) = true := by
  rw [ipv4Ok_iff h rest hf, hv, hl]; omega

/-- Conversely a total length that does not fit 16 bits can never be right. -/
theorem not_ipv4Ok_of_big (hbig : 65535 < 20 + rest.length) :
    Spec.ipv4Ok (h.serialize ++ rest) = false := by
  simp only [Spec.ipv4Ok, read_totLen, Bool.and_eq_false_iff, beq_eq_false_iff_ne]
  left; right
  have : (h.serialize ++ rest).length = 20 + rest.length := by simp
  omega

/-! ### flag bits and fragment offset -/

theorem setFragOff_mod (off : Nat) : (h.setFragOff off).fragOff % 8192 = off % 8192 := by
  show (off % 65536 ||| h.fragOff &&& 0xe000) % 2 ^ 13 = off % 8192
  rw [Nat.or_mod_two_pow, Nat.and_mod_two_pow]
  simp

theorem setFragOff_testBit (off k : Nat) (hoff : off < 8192) (hk : 13 ≤ k) (hk' : k ≤ 15) :
    (h.setFragOff off).fragOff.testBit k = h.fragOff.testBit k := by
  show (off % 65536 ||| h.fragOff &&& 0xe000).testBit k = _
  have h1 : (off % 65536).testBit k = false := by
    apply Nat.testBit_lt_two_pow
    calc off % 65536 ≤ off := Nat.mod_le _ _
      _ < 2 ^ 13 := hoff
      _ ≤ 2 ^ k := Nat.pow_le_pow_right (by decide) hk
  have h2 : Nat.testBit 0xe000 k = true := by
    have : k = 13 ∨ k = 14 ∨ k = 15 := by omega
    rcases this with rfl | rfl | rfl <;> decide
  simp [Nat.testBit_or, Nat.testBit_and, h1, h2]

theorem setFlag_testBit (k j : Nat) (v : Bool) (hk : 13 ≤ k ∧ k ≤ 15) (hj : 13 ≤ j ∧ j ≤ 15) :
    (h.setFlag (2 ^ k) v).fragOff.testBit j = if j = k then v else h.fragOff.testBit j := by
  have hk' : k = 13 ∨ k = 14 ∨ k = 15 := by omega
  have hj' : j = 13 ∨ j = 14 ∨ j = 15 := by omega
  rcases hk' with rfl | rfl | rfl <;> rcases hj' with rfl | rfl | rfl <;> cases v <;>
    simp +decide [setFlag, Nat.testBit_or, Nat.testBit_and]

theorem or_mod_8192 (a m : Nat) (hm : m % 8192 = 0) : (a ||| m) % 8192 = a % 8192 := by
  have := @Nat.or_mod_two_pow a m 13
  simp only [Nat.reducePow] at this
  rw [this, hm]; simp

theorem and_mod_8192 (a m : Nat) (hm : m % 8192 = 8191) : (a &&& m) % 8192 = a % 8192 := by
  have := @Nat.and_mod_two_pow a m 13
  have e := Nat.and_two_pow_sub_one_eq_mod (a % 8192) 13
  simp only [Nat.reducePow, Nat.reduceSub] at this e
  rw [this, hm, e]; omega

theorem setFlag_mod (k : Nat) (v : Bool) (hk : 13 ≤ k ∧ k ≤ 15) :
    (h.setFlag (2 ^ k) v).fragOff % 8192 = h.fragOff % 8192 := by
  have hk' : k = 13 ∨ k = 14 ∨ k = 15 := by omega
  rcases hk' with rfl | rfl | rfl <;> cases v <;>
    simp [setFlag, or_mod_8192, and_mod_8192]

theorem setMf_eq (v : Bool) : h.setMf v = h.setFlag (2 ^ 13) v := rfl
theorem setDf_eq (v : Bool) : h.setDf v = h.setFlag (2 ^ 14) v := rfl
theorem setEvil_eq (v : Bool) : h.setEvil v = h.setFlag (2 ^ 15) v := rfl

/-- the four components of the 16-bit flags/offset word -/
structure FragIs (x : Nat) (off : Nat) (evil df mf : Bool) : Prop where
  off : x % 8192 = off
  evil : x.testBit 15 = evil
  df : x.testBit 14 = df
  mf : x.testBit 13 = mf

theorem fragIs_self (x : Nat) : FragIs x (x % 8192) (x.testBit 15) (x.testBit 14) (x.testBit 13) :=
  ⟨rfl, rfl, rfl, rfl⟩

theorem fragIs_zero : FragIs 0 0 false false false := ⟨rfl, rfl, rfl, rfl⟩

theorem FragIs.setMf {o e d m} (w : FragIs h.fragOff o e d m) (v : Bool) :
    FragIs (h.setMf v).fragOff o e d v := by
  refine ⟨?_, ?_, ?_, ?_⟩
  · rw [setMf_eq, setFlag_mod _ _ _ (by omega)]; exact w.off
  · rw [setMf_eq, setFlag_testBit _ _ _ _ (by omega) (by omega)]; simpa using w.evil
  · rw [setMf_eq, setFlag_testBit _ _ _ _ (by omega) (by omega)]; simpa using w.df
  · rw [setMf_eq, setFlag_testBit _ _ _ _ (by omega) (by omega)]; simp

theorem FragIs.setDf {o e d m} (w : FragIs h.fragOff o e d m) (v : Bool) :
    FragIs (h.setDf v).fragOff o e v m := by
  refine ⟨?_, ?_, ?_, ?_⟩
  · rw [setDf_eq, setFlag_mod _ _ _ (by omega)]; exact w.off
  · rw [setDf_eq, setFlag_testBit _ _ _ _ (by omega) (by omega)]; simpa using w.evil
  · rw [setDf_eq, setFlag_testBit _ _ _ _ (by omega) (by omega)]; simp
  · rw [setDf_eq, setFlag_testBit _ _ _ _ (by omega) (by omega)]; simpa using w.mf

theorem FragIs.setEvil {o e d m} (w : FragIs h.fragOff o e d m) (v : Bool) :
    FragIs (h.setEvil v).fragOff o v d m := by
  refine ⟨?_, ?_, ?_, ?_⟩
  · rw [setEvil_eq, setFlag_mod _ _ _ (by omega)]; exact w.off
  · rw [setEvil_eq, setFlag_testBit _ _ _ _ (by omega) (by omega)]; simp
  · rw [setEvil_eq, setFlag_testBit _ _ _ _ (by omega) (by omega)]; simpa using w.df
  · rw [setEvil_eq, setFlag_testBit _ _ _ _ (by omega) (by omega)]; simpa using w.mf

theorem FragIs.setFragOff {o e d m} (w : FragIs h.fragOff o e d m) (off : Nat) (hoff : off < 8192) :
    FragIs (h.setFragOff off).fragOff off e d m := by
  refine ⟨?_, ?_, ?_, ?_⟩
  · rw [setFragOff_mod]; omega
  · rw [setFragOff_testBit _ _ _ hoff (by omega) (by omega)]; exact w.evil
  · rw [setFragOff_testBit _ _ _ hoff (by omega) (by omega)]; exact w.df
  · rw [setFragOff_testBit _ _ _ hoff (by omega) (by omega)]; exact w.mf

/-- what the Spec readers see when the flags/offset word has the given components -/
theorem read_frag {x : IpHdr} {o : Nat} {e d m : Bool} (w : FragIs x.fragOff o e d m) (rest : Bytes) :
    Spec.ipFragOff (x.serialize ++ rest) = o ∧ Spec.ipEvil (x.serialize ++ rest) = e ∧
    Spec.ipDF (x.serialize ++ rest) = d ∧ Spec.ipMF (x.serialize ++ rest) = m := by
  rw [read_fragOff, read_evil, read_df, read_mf]
  exact ⟨w.off, w.evil, w.df, w.mf⟩

end IpHdr
end Resynth
