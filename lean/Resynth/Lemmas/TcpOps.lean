import Resynth.Model.Tcp
import Resynth.Spec.TcpStream
/-!
# The methods of the `TcpFlow` class as a step function (src/stdlib/ipv4/tcp.rs)

`TcpOp.stepModel` is a literal transcription of the method bodies on top of the functions of
`Model/Tcp.lean` (bytes out).  `TcpOp.step` does the same at the `TcpSeg` level so that the
header fields of what is emitted stay available symbolically; `step_refines` ties the two.
-/
namespace Resynth
open TcpStream

/-- what a method hands back to the script for one `TcpSeg` -/
inductive Wire where
  /-- a packet (Ethernet/IP/TCP frame) -/
  | frame
  /-- `into_tcpseg`: TCP header + payload only, *not a frame* (scripts wrap it in IPv4 fragments) -/
  | segment
  /-- `tcp_hdr_bytes`: the 20 header bytes only, *not a frame* -/
  | header
  deriving Repr, DecidableEq

/-- One emitted TCP segment: the builder object it came from, its direction, and which bytes
of it the method returns. -/
structure Out where
  dir : Dir
  seg : TcpSeg
  wire : Wire

namespace Out
def bytes (o : Out) : Bytes :=
  match o.wire with
  | .frame => o.seg.frame
  | .segment => o.seg.segment
  | .header => o.seg.tcp.serialize

def seq (o : Out) : Nat := o.seg.tcp.seq
def ack (o : Out) : Nat := o.seg.tcp.ack
def flags (o : Out) : Nat := o.seg.tcp.flags
def payload (o : Out) : Bytes := o.seg.data

/-- decode the header fields into the spec's segment record -/
def toSegment (o : Out) : Segment :=
  { dir := o.dir
    seq := o.seq
    ack := if o.flags.testBit 4 then some o.ack else none
    syn := o.flags.testBit 1
    fin := o.flags.testBit 0
    rst := o.flags.testBit 2
    psh := o.flags.testBit 3
    payload := o.payload }
end Out

namespace TcpFlow

/-- `cl_tx` keeping the segment object -/
def clTxS (f : TcpFlow) (s : TcpSeg) : TcpFlow × Out := (f.clUpdate s.seqConsumed, ⟨.c2s, s.tcpCsum, .frame⟩)
def svTxS (f : TcpFlow) (s : TcpSeg) : TcpFlow × Out := (f.svUpdate s.seqConsumed, ⟨.s2c, s.tcpCsum, .frame⟩)

def openS (f : TcpFlow) : TcpFlow × List Out :=
  let (f, a) := f.clTxS f.clSeg0.syn
  let (f, b) := f.svTxS f.svSeg0.synAck
  let (f, c) := f.clTxS f.clSeg0.ack
  (f, [a, b, c])

def clientCloseS (f : TcpFlow) : TcpFlow × List Out :=
  let (f, a) := f.clTxS f.clSeg0.finAck
  let (f, b) := f.svTxS f.svSeg0.finAck
  let (f, c) := f.clTxS f.clSeg0.ack
  (f, [a, b, c])

def serverCloseS (f : TcpFlow) : TcpFlow × List Out :=
  let (f, a) := f.svTxS f.svSeg0.finAck
  let (f, b) := f.clTxS f.clSeg0.finAck
  let (f, c) := f.svTxS f.svSeg0.ack
  (f, [a, b, c])

def clientMessageS (f : TcpFlow) (bytes : Bytes) (sendAck : Bool) (fragOff : Nat) : TcpFlow × List Out :=
  let (f, a) := f.clTxS (f.clSeg bytes fragOff)
  if sendAck then
    let (f, b) := f.svTxS f.svSeg0.ack
    (f, [a, b])
  else (f, [a])

def serverMessageS (f : TcpFlow) (bytes : Bytes) (sendAck : Bool) (fragOff : Nat) : TcpFlow × List Out :=
  let (f, a) := f.svTxS (f.svSeg bytes fragOff)
  if sendAck then
    let (f, b) := f.clTxS f.clSeg0.ack
    (f, [a, b])
  else (f, [a])

/-- `let saved = push_state(seq, ack); …; pop_state(saved)` -/
def withState {α : Type} (f : TcpFlow) (seq ack : Option Nat) (body : TcpFlow → TcpFlow × α) : TcpFlow × α :=
  let (g, saved) := f.pushState seq ack
  let (g', r) := body g
  (g'.popState saved, r)

end TcpFlow

open TcpFlow

/-- The method bodies of src/stdlib/ipv4/tcp.rs over `Model/Tcp.lean`, bytes out. -/
def TcpOp.stepModel (f : TcpFlow) : TcpOp → TcpFlow × List Bytes
  | .open => f.open
  | .clientMessage bs sendAck fo seq ack => f.withState seq ack fun g => g.clientMessage bs sendAck fo
  | .serverMessage bs sendAck fo seq ack => f.withState seq ack fun g => g.serverMessage bs sendAck fo
  | .clientSegment bs seq ack =>
      f.withState seq ack fun g => let (g', s) := g.clientDataSegment bs; (g', [s.frame])
  | .serverSegment bs seq ack =>
      f.withState seq ack fun g => let (g', s) := g.serverDataSegment bs; (g', [s.frame])
  | .clientRawSegment bs seq ack =>
      f.withState seq ack fun g => let (g', s) := g.clientDataSegment bs; (g', [s.segment])
  | .serverRawSegment bs seq ack =>
      f.withState seq ack fun g => let (g', s) := g.serverDataSegment bs; (g', [s.segment])
  | .clientHdr dlen => let (g, b) := f.clientHdr dlen; (g, [b])
  | .serverHdr dlen => let (g, b) := f.serverHdr dlen; (g, [b])
  | .clientAck seq ack => f.withState seq ack fun g => (g, [g.clientAck])
  | .serverAck seq ack => f.withState seq ack fun g => (g, [g.serverAck])
  | .clientHole n => (f.clientHole n, [])
  | .serverHole n => (f.serverHole n, [])
  | .clientClose => f.clientClose
  | .serverClose => f.serverClose
  | .clientReset => (f, [f.clientReset])
  | .serverReset => (f, [f.serverReset])

/-- The same at the `TcpSeg` level. -/
def TcpOp.step (f : TcpFlow) : TcpOp → TcpFlow × List Out
  | .open => f.openS
  | .clientMessage bs sendAck fo seq ack => f.withState seq ack fun g => g.clientMessageS bs sendAck fo
  | .serverMessage bs sendAck fo seq ack => f.withState seq ack fun g => g.serverMessageS bs sendAck fo
  | .clientSegment bs seq ack =>
      f.withState seq ack fun g => let (g', s) := g.clientDataSegment bs; (g', [⟨.c2s, s, .frame⟩])
  | .serverSegment bs seq ack =>
      f.withState seq ack fun g => let (g', s) := g.serverDataSegment bs; (g', [⟨.s2c, s, .frame⟩])
  | .clientRawSegment bs seq ack =>
      f.withState seq ack fun g => let (g', s) := g.clientDataSegment bs; (g', [⟨.c2s, s, .segment⟩])
  | .serverRawSegment bs seq ack =>
      f.withState seq ack fun g => let (g', s) := g.serverDataSegment bs; (g', [⟨.s2c, s, .segment⟩])
  | .clientHdr dlen =>
      let s := f.clSeg0.push
      (f.clUpdate (u32 (s.seqConsumed + dlen)), [⟨.c2s, s, .header⟩])
  | .serverHdr dlen =>
      let s := f.svSeg0.push
      (f.svUpdate (u32 (s.seqConsumed + dlen)), [⟨.s2c, s, .header⟩])
  | .clientAck seq ack => f.withState seq ack fun g => (g, [⟨.c2s, g.clSeg0.ack.tcpCsum, .frame⟩])
  | .serverAck seq ack => f.withState seq ack fun g => (g, [⟨.s2c, g.svSeg0.ack.tcpCsum, .frame⟩])
  | .clientHole n => (f.clientHole n, [])
  | .serverHole n => (f.serverHole n, [])
  | .clientClose => f.clientCloseS
  | .serverClose => f.serverCloseS
  | .clientReset => (f, [⟨.c2s, f.clSeg0.rst.tcpCsum, .frame⟩])
  | .serverReset => (f, [⟨.s2c, f.svSeg0.rst.tcpCsum, .frame⟩])

/-- run a history, collecting everything emitted in order -/
def TcpOp.run (f : TcpFlow) : List TcpOp → TcpFlow × List Out
  | [] => (f, [])
  | op :: ops =>
    let (g, a) := TcpOp.step f op
    let (g', b) := TcpOp.run g ops
    (g', a ++ b)

def TcpOp.runModel (f : TcpFlow) : List TcpOp → TcpFlow × List Bytes
  | [] => (f, [])
  | op :: ops =>
    let (g, a) := TcpOp.stepModel f op
    let (g', b) := TcpOp.runModel g ops
    (g', a ++ b)

/-- `step` emits exactly the bytes of the transcription and reaches the same state. -/
theorem TcpOp.step_refines (f : TcpFlow) (op : TcpOp) :
    TcpOp.stepModel f op = ((TcpOp.step f op).1, (TcpOp.step f op).2.map Out.bytes) := by
  cases op <;> try rfl
  case clientMessage bs sa fo seq ack =>
    cases sa <;> rfl
  case serverMessage bs sa fo seq ack =>
    cases sa <;> rfl

theorem TcpOp.run_refines (f : TcpFlow) (h : List TcpOp) :
    TcpOp.runModel f h = ((TcpOp.run f h).1, (TcpOp.run f h).2.map Out.bytes) := by
  induction h generalizing f with
  | nil => rfl
  | cons op ops ih =>
    simp only [TcpOp.runModel, TcpOp.run, TcpOp.step_refines, ih, List.map_append]

end Resynth
