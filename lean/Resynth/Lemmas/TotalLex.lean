import Resynth.Model.Lex
/-!
# Whole-file totality (C08): identifier tokens contain neither `.` nor `:`

The interpreter's flat library table is keyed by strings (`a::b::f` for functions, `a::b::K.m` for
methods); an identifier containing a `.` or `::` could name a method as if it were a free function, or
a function as if it were a top-level module.  The lexer only produces identifiers over `[A-Za-z0-9_]`.
-/
namespace Resynth

/-- a plain name: neither `.` nor `:` occurs in the string -/
def Plain (s : String) : Prop := ∀ c ∈ s.toList, c ≠ '.' ∧ c ≠ ':'

/-- what the parser needs to know about a token: identifiers are plain names -/
def TokOk (t : Tok) : Prop := t.kind = .ident → Plain t.text

namespace Lex

theorem isIdCont_plain {c : Char} (h : isIdCont c = true) : c ≠ '.' ∧ c ≠ ':' := by
  constructor <;> (rintro rfl; revert h; decide)

theorem take_spanLen_all (p : Char → Bool) : ∀ cs : List Char, ∀ c ∈ cs.take (spanLen p cs), p c = true
  | [], c, h => by simp [spanLen] at h
  | a :: cs, c, h => by
    unfold spanLen at h
    by_cases ha : p a = true
    · simp only [ha, if_true, List.take_succ_cons, List.mem_cons] at h
      rcases h with rfl | h
      · exact ha
      · exact take_spanLen_all p cs c h
    · simp [ha] at h

theorem ite_eq_cases {α} {c : Prop} [Decidable c] {a b r : α} (h : (if c then a else b) = r) :
    (c ∧ a = r) ∨ (¬c ∧ b = r) := by
  by_cases hc : c
  · rw [if_pos hc] at h; exact .inl ⟨hc, h⟩
  · rw [if_neg hc] at h; exact .inr ⟨hc, h⟩

set_option hygiene false in
/-- discard one alternative of `scanOne` that does not produce an identifier -/
local macro "peel" : tactic => `(tactic| (
  rcases ite_eq_cases h with ⟨_, h⟩ | ⟨_, h⟩
  · simp at h
  ))

/-- the identifier alternative is the only one that yields an identifier token -/
theorem scanOne_ident {cs : List Char} {n : Nat} (h : scanOne cs = some (.tok .ident, n)) :
    n = spanLen isIdCont cs := by
  unfold scanOne at h
  split at h
  · cases h
  · iterate 17 peel
    rcases ite_eq_cases h with ⟨_, h⟩ | ⟨_, h⟩
    · simp only [Option.some.injEq, Prod.mk.injEq] at h; exact h.2.symm
    · split at h
      · simp at h
      · iterate 2 (split at h <;> try (simp at h; done))
        iterate 3 peel
        simp at h

theorem Plain_ident {cs : List Char} {n : Nat} (h : scanOne cs = some (.tok .ident, n)) :
    Plain (tokText .ident (cs.take n)) := by
  rw [scanOne_ident h]
  simp only [Plain, tokText, String.toList_ofList]
  intro c hm
  exact isIdCont_plain (take_spanLen_all _ _ _ hm)

theorem flushStrs_ok (s : St) (loc : Loc) (h : ∀ t ∈ s.toks, TokOk t) : ∀ t ∈ (flushStrs s loc).toks, TokOk t := by
  unfold flushStrs
  split
  · exact h
  · intro t ht
    simp only [List.mem_append, List.mem_singleton] at ht
    rcases ht with ht | rfl
    · exact h t ht
    · intro hk; cases hk

theorem loop_toks_ok (lno : Nat) : ∀ (fuel pos : Nat) (cs : List Char) (s s' : St),
    loop lno fuel pos cs s = .ok s' → (∀ t ∈ s.toks, TokOk t) → ∀ t ∈ s'.toks, TokOk t
  | 0, _, _, s, s', h, hs => by simp only [loop] at h; cases h; exact hs
  | fuel + 1, pos, cs, s, s', h, hs => by
    simp only [loop] at h
    split at h
    · cases h; exact hs
    · split at h
      · cases h
      · next cls n hsc =>
        refine loop_toks_ok lno fuel _ _ _ s' h ?_
        cases cls with
        | skip => exact hs
        | str => exact hs
        | tok k =>
          intro t ht
          simp only [List.mem_append, List.mem_singleton] at ht
          rcases ht with ht | rfl
          · exact flushStrs_ok s _ hs t ht
          · intro hk
            simp only at hk
            subst hk
            exact Plain_ident hsc

/-- **every token `Lexer::line` delivers is `TokOk`** -/
theorem line_toks_ok {lno : Nat} {pending : Option String} {ln : String} {lo : LineOut} (h : line lno pending ln = .ok lo) :
    ∀ t ∈ lo.toks, TokOk t := by
  unfold line at h
  simp only at h
  split at h
  · cases h
  · next s hl =>
    cases h
    exact loop_toks_ok lno _ _ _ _ s hl (by simp)

/-- the token of `Lexer::finish` (the literal still pending at end of input) is a string token,
hence `TokOk` -/
theorem finish_tok_ok {pending : Option String} {loc : Loc} {t : Tok} (h : finish pending loc = some t) :
    TokOk t := by
  cases pending with
  | none => cases h
  | some p => simp only [finish, Option.map_some, Option.some.injEq] at h; subst h; intro hk; cases hk

end Lex
end Resynth
