import Resynth.Lemmas.TcpOps
import Resynth.Lemmas.TcpStreamLemmas
/-!
# The `TcpFlow` model against the reference semantics, one call at a time and over histories
-/
namespace Resynth
open TcpStream TcpFlow

/-- the counters are `u32` values -/
def FlowWf (f : TcpFlow) : Prop := f.clSeq < 4294967296 ∧ f.svSeq < 4294967296

instance (f : TcpFlow) : Decidable (FlowWf f) := by unfold FlowWf; infer_instance

set_option linter.unusedSimpArgs false

macro "tcp_unfold" : tactic => `(tactic|
  simp [TcpOp.step, withState, pushState, popState, clientMessageS, serverMessageS, openS, clientCloseS, serverCloseS,
    clientDataSegment, serverDataSegment, clientHole, serverHole,
    clSeg, svSeg, TcpSeg.fragOff, TcpSeg.pushBytes, TcpSeg.push, TcpSeg.appendData, clTxS, svTxS, clSeg0, svSeg0,
    clUpdate, svUpdate, TcpSeg.new, TcpSeg.syn, TcpSeg.synAck, TcpSeg.fin, TcpSeg.finAck, TcpSeg.rst,
    TcpSeg.ack, TcpSeg.orFlag, TcpSeg.tcpCsum, TcpSeg.seqConsumed, Out.toSegment, Out.seq, Out.ack, Out.flags, Out.payload,
    TcpOp.events, TcpOp.seqOv, TcpOp.ackOv, expectedEvs, expectedAux, Ev.segment, nextSeq, consumed, Ev.consumes,
    Kind.seqUnits, isn, u32, Kind.hasAck, Kind.hasSyn, Kind.hasFin, Kind.hasRst, Dir.peer, Segment.flagByte,
    TcpHdr.SYN, TcpHdr.ACK, TcpHdr.PSH, TcpHdr.FIN, TcpHdr.RST, Nat.testBit])

/-- One call, from any state, with or without overrides: what is emitted and where the
counters end up. -/
theorem step_spec (f : TcpFlow) (hf : FlowWf f) (op : TcpOp) (hop : opWf op = true) :
    (TcpOp.step f op).2.map Out.toSegment
        = expectedEvs (op.seqOv.getD f.clSeq) (op.ackOv.getD f.svSeq) op.events
    ∧ (TcpOp.step f op).1.clSeq
        = (if op.seqOv.isSome then f.clSeq else (f.clSeq + consumed .c2s op.events) % 4294967296)
    ∧ (TcpOp.step f op).1.svSeq
        = (if op.ackOv.isSome then f.svSeq else (f.svSeq + consumed .s2c op.events) % 4294967296) := by
  obtain ⟨h1, h2⟩ := hf
  cases op
  case clientMessage bs sa fo seq ack =>
    cases sa <;> cases seq <;> cases ack <;> simp [opWf, TcpOp.seqOv, TcpOp.ackOv] at hop <;> tcp_unfold <;> omega
  case serverMessage bs sa fo seq ack =>
    cases sa <;> cases seq <;> cases ack <;> simp [opWf, TcpOp.seqOv, TcpOp.ackOv] at hop <;> tcp_unfold <;> omega
  case clientSegment bs seq ack =>
    cases seq <;> cases ack <;> simp [opWf, TcpOp.seqOv, TcpOp.ackOv] at hop <;> tcp_unfold <;> omega
  case serverSegment bs seq ack =>
    cases seq <;> cases ack <;> simp [opWf, TcpOp.seqOv, TcpOp.ackOv] at hop <;> tcp_unfold <;> omega
  case clientRawSegment bs seq ack =>
    cases seq <;> cases ack <;> simp [opWf, TcpOp.seqOv, TcpOp.ackOv] at hop <;> tcp_unfold <;> omega
  case serverRawSegment bs seq ack =>
    cases seq <;> cases ack <;> simp [opWf, TcpOp.seqOv, TcpOp.ackOv] at hop <;> tcp_unfold <;> omega
  case clientAck seq ack =>
    cases seq <;> cases ack <;> simp [opWf, TcpOp.seqOv, TcpOp.ackOv] at hop <;> tcp_unfold <;> omega
  case serverAck seq ack =>
    cases seq <;> cases ack <;> simp [opWf, TcpOp.seqOv, TcpOp.ackOv] at hop <;> tcp_unfold <;> omega
  all_goals (tcp_unfold <;> omega)

/-- the flag byte of everything emitted is exactly the one the decoded record prescribes
(no stray bits) -/
theorem step_flags (f : TcpFlow) (op : TcpOp) :
    ∀ o ∈ (TcpOp.step f op).2, o.flags = o.toSegment.flagByte := by
  cases op
  case clientMessage bs sa fo seq ack => cases sa <;> tcp_unfold
  case serverMessage bs sa fo seq ack => cases sa <;> tcp_unfold
  all_goals tcp_unfold

/-- counters not touched by a call's override depend only on their own starting value -/
theorem step_clSeq_indep (f g : TcpFlow) (op : TcpOp) (h : f.clSeq = g.clSeq) (hov : op.seqOv = none) :
    (TcpOp.step f op).1.clSeq = (TcpOp.step g op.clearOv).1.clSeq := by
  cases op
  case clientMessage bs sa fo seq ack =>
    cases sa <;> cases ack <;> simp [TcpOp.seqOv] at hov <;> subst hov <;> tcp_unfold <;> simp [TcpOp.clearOv, h] <;> tcp_unfold
  case serverMessage bs sa fo seq ack =>
    cases sa <;> cases ack <;> simp [TcpOp.seqOv] at hov <;> subst hov <;> tcp_unfold <;> simp [TcpOp.clearOv, h] <;> tcp_unfold
  case clientSegment bs seq ack =>
    cases ack <;> simp [TcpOp.seqOv] at hov <;> subst hov <;> tcp_unfold <;> simp [TcpOp.clearOv, h] <;> tcp_unfold
  case serverSegment bs seq ack =>
    cases ack <;> simp [TcpOp.seqOv] at hov <;> subst hov <;> tcp_unfold <;> simp [TcpOp.clearOv, h] <;> tcp_unfold
  case clientRawSegment bs seq ack =>
    cases ack <;> simp [TcpOp.seqOv] at hov <;> subst hov <;> tcp_unfold <;> simp [TcpOp.clearOv, h] <;> tcp_unfold
  case serverRawSegment bs seq ack =>
    cases ack <;> simp [TcpOp.seqOv] at hov <;> subst hov <;> tcp_unfold <;> simp [TcpOp.clearOv, h] <;> tcp_unfold
  case clientAck seq ack =>
    cases ack <;> simp [TcpOp.seqOv] at hov <;> subst hov <;> tcp_unfold <;> simp [TcpOp.clearOv, h] <;> tcp_unfold
  case serverAck seq ack =>
    cases ack <;> simp [TcpOp.seqOv] at hov <;> subst hov <;> tcp_unfold <;> simp [TcpOp.clearOv, h] <;> tcp_unfold
  all_goals (simp [TcpOp.clearOv]; tcp_unfold; simp [h])

theorem step_svSeq_indep (f g : TcpFlow) (op : TcpOp) (h : f.svSeq = g.svSeq) (hov : op.ackOv = none) :
    (TcpOp.step f op).1.svSeq = (TcpOp.step g op.clearOv).1.svSeq := by
  cases op
  case clientMessage bs sa fo seq ack =>
    cases sa <;> cases seq <;> simp [TcpOp.ackOv] at hov <;> subst hov <;> tcp_unfold <;> simp [TcpOp.clearOv, h] <;> tcp_unfold
  case serverMessage bs sa fo seq ack =>
    cases sa <;> cases seq <;> simp [TcpOp.ackOv] at hov <;> subst hov <;> tcp_unfold <;> simp [TcpOp.clearOv, h] <;> tcp_unfold
  case clientSegment bs seq ack =>
    cases seq <;> simp [TcpOp.ackOv] at hov <;> subst hov <;> tcp_unfold <;> simp [TcpOp.clearOv, h] <;> tcp_unfold
  case serverSegment bs seq ack =>
    cases seq <;> simp [TcpOp.ackOv] at hov <;> subst hov <;> tcp_unfold <;> simp [TcpOp.clearOv, h] <;> tcp_unfold
  case clientRawSegment bs seq ack =>
    cases seq <;> simp [TcpOp.ackOv] at hov <;> subst hov <;> tcp_unfold <;> simp [TcpOp.clearOv, h] <;> tcp_unfold
  case serverRawSegment bs seq ack =>
    cases seq <;> simp [TcpOp.ackOv] at hov <;> subst hov <;> tcp_unfold <;> simp [TcpOp.clearOv, h] <;> tcp_unfold
  case clientAck seq ack =>
    cases seq <;> simp [TcpOp.ackOv] at hov <;> subst hov <;> tcp_unfold <;> simp [TcpOp.clearOv, h] <;> tcp_unfold
  case serverAck seq ack =>
    cases seq <;> simp [TcpOp.ackOv] at hov <;> subst hov <;> tcp_unfold <;> simp [TcpOp.clearOv, h] <;> tcp_unfold
  all_goals (simp [TcpOp.clearOv]; tcp_unfold; simp [h])

end Resynth
