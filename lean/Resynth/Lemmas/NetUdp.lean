import Resynth.Lemmas.NetTcp
import Resynth.Model.Flows
/-!
# UDP datagrams: builder invariant, sealing by `csum`, what the Spec decoders see
-/
namespace Resynth

open Spec (IpFields)

namespace UdpHdr

/-- the 6 bytes before the checksum field -/
def pre (u : UdpHdr) : Bytes := be16 u.sport ++ be16 u.dport ++ be16 u.len

theorem serialize_split (u : UdpHdr) : u.serialize = u.pre ++ be16 u.csum := by
  simp [serialize, pre]

@[simp] theorem pre_length (u : UdpHdr) : u.pre.length = 6 := rfl
@[simp] theorem serialize_len (u : UdpHdr) : u.serialize.length = 8 := rfl

theorem sum16_serialize (u : UdpHdr) : sum16 u.serialize = sum16 u.pre + u.csum % 65536 := by
  rw [serialize_split, sum16_append_even _ _ (by simp)]; simp

end UdpHdr

namespace UdpDgram

/-- the IPv4 datagram of a UDP packet -/
def ipDgram (d : UdpDgram) : Bytes := d.ip.serialize ++ d.dgram

/-- Invariant of a datagram under construction, apart from checksums: the IP header carries
fields `e` (checksum possibly stale), lengths are right modulo 2^16, the Ethernet addresses are
`macD`, `macS`. -/
structure Pre (d : UdpDgram) (e : IpFields) (macD macS : Bytes) (raw : Bool) : Prop where
  ip : d.ip.IsPre e (8 + d.data.length)
  len : d.udp.len % 65536 = (8 + d.data.length) % 65536
  ethDst : d.ethDst = macD
  ethSrc : d.ethSrc = macS
  raw : d.raw = raw

/-- `Pre` with an up-to-date IP checksum -/
structure Shape (d : UdpDgram) (e : IpFields) (macD macS : Bytes) (raw : Bool) : Prop
    extends Pre d e macD macS raw where
  fresh : d.ip.Fresh

/-- fold, and transmit a computed zero as 0xffff -/
def udpCsumOf (s : Nat) : Nat := if csumFold s = 0 then 0xffff else csumFold s

/-- the UDP checksum field holds what `csum` stores -/
def CsumSet (d : UdpDgram) : Prop :=
  d.udp.csum = udpCsumOf (sum16 (pseudoHdr d.ip.saddr d.ip.daddr d.ip.protocol d.csumLen) +
                sum16 d.udp.pre + sum16 d.data)

variable {d : UdpDgram} {e : IpFields} {macD macS : Bytes} {raw : Bool}

theorem Shape.is (w : d.Shape e macD macS raw) : d.ip.Is e (8 + d.data.length) :=
  { w.ip with fresh := w.fresh }

/-- `new.src.dst` -/
theorem Pre.base (s t : Sock) (raw : Bool) :
    (((UdpDgram.new raw).src s).dst t).Pre { src := s.ip, dst := t.ip, proto := 17 }
      (macOfIp t.ip) (macOfIp s.ip) raw where
  ip := { ver := rfl, len := rfl, src := rfl, dst := rfl, proto := rfl, id := rfl, ttl := rfl,
          frag := IpHdr.fragIs_zero }
  len := rfl
  ethDst := rfl
  ethSrc := rfl
  raw := rfl

theorem base_csum0 (s t : Sock) (raw : Bool) : (((UdpDgram.new raw).src s).dst t).udp.csum = 0 := rfl

theorem Pre.broadcast (w : d.Pre e macD macS raw) : d.broadcast.Pre e macBroadcast macS raw :=
  ⟨w.ip, w.len, rfl, w.ethSrc, w.raw⟩

theorem Pre.push (w : d.Pre e macD macS raw) (bytes : Bytes) : (d.push bytes).Shape e macD macS raw where
  ip := by
    have := (w.ip.addTotLen (bytes.length % 65536) bytes.length (by omega)).calc.toIsPre
    show IpHdr.IsPre _ _ (8 + (d.data ++ bytes).length)
    rw [List.length_append, ← Nat.add_assoc]; exact this
  len := by
    have := w.len
    show (d.udp.len + bytes.length % 65536) % 65536 % 65536 = (8 + (d.data ++ bytes).length) % 65536
    rw [List.length_append]; omega
  ethDst := w.ethDst
  ethSrc := w.ethSrc
  raw := w.raw
  fresh := IpHdr.fresh_calcCsum _

theorem Pre.srcip (w : d.Pre e macD macS raw) (ip : Nat) :
    (d.srcip ip).Shape { e with src := ip } macD macS raw where
  ip := (w.ip.setSaddr ip).calc.toIsPre
  len := w.len
  ethDst := w.ethDst
  ethSrc := w.ethSrc
  raw := w.raw
  fresh := IpHdr.fresh_calcCsum _

theorem Pre.fragOff (w : d.Pre e macD macS raw) (off : Nat) (h : off < 8192) :
    (d.fragOff off).Shape { e with off := off } macD macS raw where
  ip := (w.ip.setFragOff off h).calc.toIsPre
  len := w.len
  ethDst := w.ethDst
  ethSrc := w.ethSrc
  raw := w.raw
  fresh := IpHdr.fresh_calcCsum _

theorem Shape.csum (w : d.Shape e macD macS raw) : d.csum.Shape e macD macS raw :=
  { ip := w.ip, len := w.len, ethDst := w.ethDst, ethSrc := w.ethSrc, raw := w.raw, fresh := w.fresh }

theorem csumSet_csum (d : UdpDgram) (h0 : d.udp.csum = 0) : d.csum.CsumSet := by
  show udpCsumOf (sum16 (pseudoHdr d.ip.saddr d.ip.daddr d.ip.protocol d.csumLen) +
                sum16 d.udp.serialize + sum16 d.data) =
       udpCsumOf (sum16 (pseudoHdr d.ip.saddr d.ip.daddr d.ip.protocol d.csumLen) +
                sum16 d.udp.pre + sum16 d.data)
  rw [UdpHdr.sum16_serialize, h0]
  simp

@[simp] theorem push_csum0 (d : UdpDgram) (b : Bytes) : (d.push b).udp.csum = d.udp.csum := rfl
@[simp] theorem fragOff_csum0 (d : UdpDgram) (o : Nat) : (d.fragOff o).udp.csum = d.udp.csum := rfl
@[simp] theorem srcip_csum0 (d : UdpDgram) (o : Nat) : (d.srcip o).udp.csum = d.udp.csum := rfl
@[simp] theorem broadcast_csum0 (d : UdpDgram) : d.broadcast.udp.csum = d.udp.csum := rfl
@[simp] theorem push_data (d : UdpDgram) (b : Bytes) : (d.push b).data = d.data ++ b := rfl
@[simp] theorem fragOff_data (d : UdpDgram) (o : Nat) : (d.fragOff o).data = d.data := rfl
@[simp] theorem srcip_data (d : UdpDgram) (o : Nat) : (d.srcip o).data = d.data := rfl
@[simp] theorem broadcast_data (d : UdpDgram) : d.broadcast.data = d.data := rfl
@[simp] theorem csum_data (d : UdpDgram) : d.csum.data = d.data := rfl
@[simp] theorem base_data (s t : Sock) (raw : Bool) : (((UdpDgram.new raw).src s).dst t).data = [] := rfl

/-! ### consequences of `Shape` -/

theorem Shape.frame_eq (w : d.Shape e macD macS raw) :
    d.frame = (if raw then [] else ethHdr macD macS 0x0800) ++ d.ipDgram := by
  simp [frame, ipDgram, w.raw, w.ethDst, w.ethSrc]

theorem Shape.ipOfFrame (w : d.Shape e macD macS raw) (hD : macD.length = 6) (hS : macS.length = 6) :
    Spec.ipOfFrame raw d.frame = d.ipDgram := by
  rw [w.frame_eq]; exact ipOfFrame_eq _ _ _ (by simp [hD, hS])

theorem dgram_length (d : UdpDgram) : d.dgram.length = 8 + d.data.length := by simp [dgram]

theorem Shape.ipv4 (w : d.Shape e macD macS raw) (hD : macD.length = 6) (hS : macS.length = 6)
    (hr : e.inRange = true) (hfit : 28 + d.data.length ≤ 65535) :
    Spec.ipv4Is e (Spec.ipOfFrame raw d.frame) = true := by
  rw [w.ipOfFrame hD hS]
  apply IpHdr.Is.ok (rest := d.dgram)
  · rw [dgram_length]; exact w.is
  · exact hr
  · rw [dgram_length]; omega

theorem Shape.udpLen (w : d.Shape e macD macS raw) (hD : macD.length = 6) (hS : macS.length = 6)
    (hfit : 28 + d.data.length ≤ 65535) :
    Spec.udpLenOk (Spec.ipOfFrame raw d.frame) = true := by
  rw [w.ipOfFrame hD hS]
  have h1 : d.ipDgram.length = 28 + d.data.length := by simp [ipDgram, dgram]; omega
  have h2 : (d.ipDgram.drop 28).length = d.data.length := by simp [h1]
  have h3 : Spec.u16At d.ipDgram 24 = d.udp.len % 65536 := by
    simp [ipDgram, dgram, IpHdr.serialize_eq, UdpHdr.serialize, be16, Spec.u16At]; omega
  have := w.len
  simp only [Spec.udpLenOk, h1, h2, h3, Bool.and_eq_true, decide_eq_true_eq, beq_iff_eq]
  omega

theorem Shape.framing (w : d.Shape e macD macS raw) :
    d.frame = if raw then d.ipDgram else macD ++ macS ++ [0x08, 0x00] ++ d.ipDgram := by
  rw [w.frame_eq]
  have : ethHdr macD macS 0x0800 = macD ++ macS ++ [0x08, 0x00] := by simp [ethHdr, be16]; decide
  cases raw <;> simp [this]

theorem Shape.framing_unicast (w : d.Shape e (macOfIp e.dst) (macOfIp e.src) raw) :
    d.frame = if raw then d.ipDgram else Spec.ethFrame d.ipDgram := by
  rw [w.frame_eq, ipDgram, ethFrame_eq, w.ip.src, w.ip.dst]
  cases raw <;> simp

theorem Shape.framing_broadcast (w : d.Shape e macBroadcast (macOfIp e.src) raw) :
    d.frame = if raw then d.ipDgram else Spec.ethFrameBroadcast d.ipDgram := by
  rw [w.frame_eq, ipDgram, ethFrameBroadcast_eq, w.ip.src]
  cases raw <;> simp

/-- C18 from the bare minimum: the Ethernet addresses are derived from the addresses in the IP
header (no assumption on lengths, offsets or checksums) -/
theorem framing_of (d : UdpDgram) (raw : Bool) (hraw : d.raw = raw)
    (hD : d.ethDst = macOfIp d.ip.daddr) (hS : d.ethSrc = macOfIp d.ip.saddr) :
    d.frame = if raw then d.ipDgram else Spec.ethFrame d.ipDgram := by
  rw [ipDgram, ethFrame_eq]
  cases raw <;> simp [frame, hraw, hD, hS]

theorem framing_bcast_of (d : UdpDgram) (raw : Bool) (hraw : d.raw = raw)
    (hD : d.ethDst = macBroadcast) (hS : d.ethSrc = macOfIp d.ip.saddr) :
    d.frame = if raw then d.ipDgram else Spec.ethFrameBroadcast d.ipDgram := by
  rw [ipDgram, ethFrameBroadcast_eq]
  cases raw <;> simp [frame, hraw, hD, hS]

/-! ### consequences of a set checksum -/

theorem Shape.l4 (w : d.Shape e macD macS raw) (hc : d.CsumSet) (hD : macD.length = 6)
    (hS : macS.length = 6) (hp : e.proto = 17) (hfit : 28 + d.data.length ≤ 65535) :
    Spec.l4Ok 17 (Spec.ipOfFrame raw d.frame) = true ∧
    Spec.udpCsumNonZero (Spec.ipOfFrame raw d.frame) = true := by
  rw [w.ipOfFrame hD hS]
  have hproto : d.ip.protocol = 17 := by rw [w.ip.proto, hp]
  have hcl : d.csumLen = 8 + d.data.length := by unfold csumLen; omega
  have b1 := sum16_lt_of_length (pseudoHdr d.ip.saddr d.ip.daddr 17 (8 + d.data.length)) 12 (by simp [pseudoHdr])
  have b2 := sum16_lt_of_length d.udp.pre 6 (by simp)
  have b3 := sum16_le d.data
  have hcs : d.udp.csum = udpCsumOf (sum16 (pseudoHdr d.ip.saddr d.ip.daddr 17 (8 + d.data.length)) +
                sum16 d.udp.pre + sum16 d.data) := by
    have := hc; unfold CsumSet at this; rw [hproto, hcl] at this; exact this
  obtain ⟨k1, k2, k3, k4⟩ := csumFold_udp_verifies (sum16 (pseudoHdr d.ip.saddr d.ip.daddr 17 (8 + d.data.length)) +
    sum16 d.udp.pre + sum16 d.data) (by omega) d.udp.csum hcs
  constructor
  · rw [ipDgram, dgram, UdpHdr.serialize_split, List.append_assoc]
    have hlen : d.udp.pre.length + 2 + d.data.length = 8 + d.data.length := by simp
    apply l4Ok_of d.ip 17 d.udp.pre d.data d.udp.csum hproto (by decide) (by simp) k2 (by omega)
    rw [hlen]
    exact ⟨k3, k4⟩
  · have h1 : d.ipDgram.length = 28 + d.data.length := by simp [ipDgram, dgram]; omega
    have h3 : Spec.udpCsumField d.ipDgram = d.udp.csum % 65536 := by
      simp [Spec.udpCsumField, ipDgram, dgram, IpHdr.serialize_eq, UdpHdr.serialize, be16, Spec.u16At]; omega
    simp only [Spec.udpCsumNonZero, h1, h3, Bool.and_eq_true, decide_eq_true_eq, bne_iff_ne]
    omega

end UdpDgram
end Resynth
