import Resynth.Model.Stdlib
/-!
# Pure byte-level builders behind the `exec` arms of the framing / DNS / NetBIOS / DHCP / TLS helpers

Each definition here is the byte string the corresponding arm of `Resynth.exec` (Model/Stdlib.lean)
computes once its arguments have been converted; the `exec_*` lemmas are the bridges
`exec fs "<path>" none ⟨args, extra⟩ h = .ok (.str (<pure fn> …), h)`.

Conventions of the bridges
* an integer argument is any value `v` with `v.toNat? = some n` (so `.bool`, `.u8`, `.u16`, `.u32`, `.u64`),
  and the arm sees `n` reduced modulo the declared width;
* the collected ("extra") arguments of a `Str`-collecting function are any values `x` whose
  `Buf` conversions are `bufs` (`x.mapM Val.toBuf? = some bufs`); the arm sees `bufs.flatten`.
-/
namespace Resynth.Wire

/-! ## `Res` is a lawful monad -/

@[simp] theorem Res.pure_eq {α} (a : α) : (pure a : Res α) = .ok a := rfl
@[simp] theorem Res.ok_bind {α β} (a : α) (f : α → Res β) : (Res.ok a >>= f) = f a := rfl
@[simp] theorem Res.err_bind {α β} (e l) (f : α → Res β) : (Res.err e l >>= f) = .err e l := rfl
@[simp] theorem Res.panic_bind {α β} (s) (f : α → Res β) : (Res.panic s >>= f) = .panic s := rfl
@[simp] theorem Res.ofOpt_some {α} (s : String) (a : α) : Res.ofOpt s (some a) = .ok a := rfl

instance : LawfulMonad Res := LawfulMonad.mk' Res
  (id_map := fun x => by cases x <;> rfl)
  (pure_bind := fun _ _ => rfl)
  (bind_assoc := fun x _ _ => by cases x <;> rfl)

/-- converting every element through `Res.ofOpt` succeeds when the `Option` conversions do -/
theorem mapM_ofOpt {α} (s : String) (conv : Val → Option α) :
    ∀ (x : List Val) (ys : List α), x.mapM (m := Option) conv = some ys →
      x.mapM (fun e => Res.ofOpt s (conv e)) = .ok ys
  | [], ys, h => by simp at h; subst h; simp
  | v :: x, ys, h => by
    rw [List.mapM_cons] at h
    cases hv : conv v with
    | none => simp [hv] at h
    | some a =>
      cases hx : x.mapM (m := Option) conv with
      | none => simp [hv, hx] at h
      | some as =>
        simp [hv, hx] at h
        subst h
        rw [List.mapM_cons, hv, mapM_ofOpt s conv x as hx]
        rfl

theorem intercalate_nil_sep (bs : List Bytes) : ([] : Bytes).intercalate bs = bs.flatten := by
  unfold List.intercalate
  induction bs with
  | nil => rfl
  | cons a t ih =>
    cases t with
    | nil => simp
    | cons b t => simp [List.intersperse] at ih ⊢; exact ih

/-- `Args::join_extra(b"")` on collected arguments whose `Buf` conversions are `bufs` -/
theorem joinExtra_nil (x : List Val) (bufs : List Bytes) (hx : x.mapM (m := Option) Val.toBuf? = some bufs) :
    joinExtra x [] = .ok bufs.flatten := by
  unfold joinExtra
  rw [mapM_ofOpt _ _ x bufs hx]
  simp [intercalate_nil_sep]

theorem mapM_map_some {α} (conv : Val → Option α) (mk : α → Val) (hc : ∀ a, conv (mk a) = some a) :
    ∀ as : List α, (as.map mk).mapM (m := Option) conv = some as
  | [] => by simp
  | a :: as => by simp [List.mapM_cons, hc, mapM_map_some conv mk hc as]

/-- the canonical way to pass byte strings as collected arguments -/
theorem mapM_toBuf_str (bs : List Bytes) : (bs.map Val.str).mapM (m := Option) Val.toBuf? = some bs :=
  mapM_map_some (conv := Val.toBuf?) (mk := Val.str) (fun _ => rfl) bs

theorem mapM_toIp_ip4 (ips : List Nat) : (ips.map Val.ip4).mapM (m := Option) Val.toIp? = some ips :=
  mapM_map_some (conv := Val.toIp?) (mk := Val.ip4) (fun _ => rfl) ips

theorem mapM_toU16_u16 (ids : List Nat) :
    (ids.map Val.u16).mapM (m := Option) Val.toU16? = some (ids.map (· % 65536)) := by
  induction ids with
  | nil => simp
  | cons a t ih => simp [List.mapM_cons, ih, Val.toU16?, Val.toNat?]

/-! ## integer conversions -/

theorem toU8_of {v : Val} {n : Nat} (h : v.toNat? = some n) : v.toU8? = some (n % 256) := by
  simp [Val.toU8?, h]
theorem toU16_of {v : Val} {n : Nat} (h : v.toNat? = some n) : v.toU16? = some (n % 65536) := by
  simp [Val.toU16?, h]
theorem toU32_of {v : Val} {n : Nat} (h : v.toNat? = some n) : v.toU32? = some (n % 4294967296) := by
  simp [Val.toU32?, h]
theorem toU64_of {v : Val} {n : Nat} (h : v.toNat? = some n) : v.toU64? = some n := by
  simp [Val.toU64?, h]

/-- `Option<Buf>` argument: `Nil` when not supplied -/
def optStr : Option Bytes → Val
  | none => .nil
  | some b => .str b

@[simp] theorem toOptBuf_optStr (o : Option Bytes) : (optStr o).toOptBuf? = some o := by
  cases o <;> rfl

/-! ## the pure builders -/

/-- `std::len_u8` -/
def lenU8 (b : Bytes) : Bytes := b8 b.length :: b
/-- `std::len_be16` -/
def lenBe16 (b : Bytes) : Bytes := be16 b.length ++ b
/-- `std::len_be32` -/
def lenBe32 (b : Bytes) : Bytes := be32 b.length ++ b
/-- `std::len_be64` -/
def lenBe64 (b : Bytes) : Bytes := be64 b.length ++ b

/-- `tls::message(version, content, *payload)`: a TLS record -/
def tlsMessage (ver content : Nat) (b : Bytes) : Bytes := [b8 content] ++ be16 ver ++ be16 b.length ++ b
/-- `tls::extension(ext, *data)` -/
def tlsExtension (ext : Nat) (b : Bytes) : Bytes := be16 ext ++ be16 b.length ++ b
/-- `tls::ciphers(*ids)` -/
def tlsCiphers (ids : List Nat) : Bytes := be16 (ids.length * 2) ++ ids.flatMap be16

def clientRandom : Bytes := str "_client__random__client__random_"
def serverRandom : Bytes := str "_server__random__server__random_"

/-- `tls::client_hello(version, sessionid, ciphers, compression, *extensions)`; `sid`, `ciphers`,
`comp` are the already framed byte strings supplied by the script, `ext` the concatenated extensions -/
def tlsClientHello (ver : Nat) (sid ciphers comp ext : Bytes) : Bytes :=
  tlsHello 1 ver clientRandom (sid ++ ciphers ++ comp) ext
/-- `tls::server_hello(version, sessionid, cipher, compression, *extensions)` -/
def tlsServerHello (ver : Nat) (sid : Bytes) (cipher comp : Nat) (ext : Bytes) : Bytes :=
  tlsHello 2 ver serverRandom (sid ++ be16 cipher ++ [b8 comp]) ext

/-- one `ServerName` entry: type 0 (host_name), 16-bit length, name -/
def sniEntry (n : Bytes) : Bytes := [0] ++ be16 n.length ++ n
def sniListLen (names : List Bytes) : Nat := 3 * names.length + (names.map List.length).sum
/-- `tls::sni(*names)` -/
def tlsSni (names : List Bytes) : Bytes :=
  be16 0 ++ be16 (2 + sniListLen names) ++ be16 (sniListLen names) ++ names.flatMap sniEntry

def certEntry (c : Bytes) : Bytes := be24 c.length ++ c
/-- `tls::certificates(*certs)` -/
def tlsCertificates (certs : List Bytes) : Bytes :=
  [11] ++ be24 (3 + sniListLen certs) ++ be24 (sniListLen certs) ++ certs.flatMap certEntry

/-- `dhcp::option(opt, *data)` -/
def dhcpOption (opt : Nat) (data : Bytes) : Bytes := [b8 opt, b8 data.length] ++ data

/-- `dns::question(qname, qtype, qclass)` -/
def dnsQuestion (name : Bytes) (t c : Nat) : Bytes := name ++ be16 t ++ be16 c
/-- `dns::answer(aname, atype, aclass, ttl, *data)` -/
def dnsAnswer (name : Bytes) (t c ttl : Nat) (data : Bytes) : Bytes :=
  name ++ be16 t ++ be16 c ++ be32 ttl ++ be16 data.length ++ data
/-- `dns::name(*parts, complete:)` -/
def dnsName (complete : Bool) (parts : List Bytes) : Bytes :=
  if complete then
    match parts with
    | [] => [0]
    | [one] => dnsNameFrom one
    | _ => parts.flatMap dnsLabel ++ [0]
  else parts.flatMap dnsLabel
/-- `dns::pointer(offset)` -/
def dnsPointer (off : Nat) : Bytes := [b8 (0xc0 ||| (off / 256) % 256), b8 off]

/-- the two frames of `dns::host` -/
def dnsHostFrames (client : Nat) (name : Bytes) (ttl ns : Nat) (raw : Bool) (ips : List Nat) : List Bytes :=
  let flow : UdpFlow := ⟨⟨client, 32768⟩, ⟨ns, 53⟩, raw⟩
  [(flow.clientDgram (dnsHostQuery (dnsNameFrom name))).csum.frame,
   (flow.serverDgram (dnsHostResponse (dnsNameFrom name) ttl ips)).csum.frame]

/-! ## bridges -/

/-- select the arm of `exec` for a literal path and a literal argument list -/
macro "exec_arm" : tactic => `(tactic| (
  unfold exec
  delta exec.match_49
  simp only [↓reduceDIte, String.reduceEq]
  dsimp only [exec._sparseCasesOn_3, exec._sparseCasesOn_8, exec._sparseCasesOn_13, exec._sparseCasesOn_22,
    exec._sparseCasesOn_27, exec._sparseCasesOn_30, exec._sparseCasesOn_33, exec._sparseCasesOn_38,
    exec._sparseCasesOn_41, exec._sparseCasesOn_46, exec._sparseCasesOn_49]))

section bridges
variable (fs : Fs) (h : Heap)

/-! ### fixed-width integers -/

theorem exec_be16 (v : Val) (n : Nat) (hv : v.toNat? = some n) :
    exec fs "std::be16" none ⟨[v], []⟩ h = .ok (.str (be16 (n % 65536)), h) := by
  exec_arm; simp [toU16_of hv]
theorem exec_be32 (v : Val) (n : Nat) (hv : v.toNat? = some n) :
    exec fs "std::be32" none ⟨[v], []⟩ h = .ok (.str (be32 (n % 4294967296)), h) := by
  exec_arm; simp [toU32_of hv]
theorem exec_be64 (v : Val) (n : Nat) (hv : v.toNat? = some n) :
    exec fs "std::be64" none ⟨[v], []⟩ h = .ok (.str (be64 n), h) := by
  exec_arm; simp [toU64_of hv]
theorem exec_le16 (v : Val) (n : Nat) (hv : v.toNat? = some n) :
    exec fs "std::le16" none ⟨[v], []⟩ h = .ok (.str (le16 (n % 65536)), h) := by
  exec_arm; simp [toU16_of hv]
theorem exec_le32 (v : Val) (n : Nat) (hv : v.toNat? = some n) :
    exec fs "std::le32" none ⟨[v], []⟩ h = .ok (.str (le32 (n % 4294967296)), h) := by
  exec_arm; simp [toU32_of hv]
theorem exec_le64 (v : Val) (n : Nat) (hv : v.toNat? = some n) :
    exec fs "std::le64" none ⟨[v], []⟩ h = .ok (.str (le64 n), h) := by
  exec_arm; simp [toU64_of hv]
theorem exec_u8 (v : Val) (n : Nat) (hv : v.toNat? = some n) :
    exec fs "std::u8" none ⟨[v], []⟩ h = .ok (.str [b8 (n % 256)], h) := by
  exec_arm; simp [toU8_of hv]

/-! ### generic length prefixes -/

theorem exec_len_u8 (x : List Val) (bufs : List Bytes) (hx : x.mapM (m := Option) Val.toBuf? = some bufs) :
    exec fs "std::len_u8" none ⟨[], x⟩ h = .ok (.str (lenU8 bufs.flatten), h) := by
  exec_arm; simp [joinExtra_nil x bufs hx, lenU8]
theorem exec_len_be16 (x : List Val) (bufs : List Bytes) (hx : x.mapM (m := Option) Val.toBuf? = some bufs) :
    exec fs "std::len_be16" none ⟨[], x⟩ h = .ok (.str (lenBe16 bufs.flatten), h) := by
  exec_arm; simp [joinExtra_nil x bufs hx, lenBe16]
theorem exec_len_be32 (x : List Val) (bufs : List Bytes) (hx : x.mapM (m := Option) Val.toBuf? = some bufs) :
    exec fs "std::len_be32" none ⟨[], x⟩ h = .ok (.str (lenBe32 bufs.flatten), h) := by
  exec_arm; simp [joinExtra_nil x bufs hx, lenBe32]
theorem exec_len_be64 (x : List Val) (bufs : List Bytes) (hx : x.mapM (m := Option) Val.toBuf? = some bufs) :
    exec fs "std::len_be64" none ⟨[], x⟩ h = .ok (.str (lenBe64 bufs.flatten), h) := by
  exec_arm; simp [joinExtra_nil x bufs hx, lenBe64]

/-! ### TLS -/

theorem exec_tls_message (ver content : Val) (nv nc : Nat) (hv : ver.toNat? = some nv) (hc : content.toNat? = some nc)
    (x : List Val) (bufs : List Bytes) (hx : x.mapM (m := Option) Val.toBuf? = some bufs) :
    exec fs "tls::message" none ⟨[ver, content], x⟩ h =
      .ok (.str (tlsMessage (nv % 65536) (nc % 256) bufs.flatten), h) := by
  exec_arm; simp [joinExtra_nil x bufs hx, toU16_of hv, toU8_of hc, tlsMessage]

theorem exec_tls_extension (ext : Val) (ne : Nat) (he : ext.toNat? = some ne)
    (x : List Val) (bufs : List Bytes) (hx : x.mapM (m := Option) Val.toBuf? = some bufs) :
    exec fs "tls::extension" none ⟨[ext], x⟩ h = .ok (.str (tlsExtension (ne % 65536) bufs.flatten), h) := by
  exec_arm; simp [joinExtra_nil x bufs hx, toU16_of he, tlsExtension]

theorem exec_tls_ciphers (x : List Val) (ids : List Nat) (hx : x.mapM (m := Option) Val.toU16? = some ids) :
    exec fs "tls::ciphers" none ⟨[], x⟩ h = .ok (.str (tlsCiphers ids), h) := by
  exec_arm; simp [mapM_ofOpt _ _ x ids hx, tlsCiphers]

theorem exec_tls_client_hello (ver : Val) (nv : Nat) (hv : ver.toNat? = some nv) (sid ciphers comp : Bytes)
    (x : List Val) (bufs : List Bytes) (hx : x.mapM (m := Option) Val.toBuf? = some bufs) :
    exec fs "tls::client_hello" none ⟨[ver, .str sid, .str ciphers, .str comp], x⟩ h =
      .ok (.str (tlsClientHello (nv % 65536) sid ciphers comp bufs.flatten), h) := by
  exec_arm; simp [joinExtra_nil x bufs hx, toU16_of hv, tlsClientHello, Val.toBuf?, clientRandom]

theorem exec_tls_server_hello (ver cipher comp : Val) (nv nc nz : Nat) (hv : ver.toNat? = some nv)
    (hc : cipher.toNat? = some nc) (hz : comp.toNat? = some nz) (sid : Bytes)
    (x : List Val) (bufs : List Bytes) (hx : x.mapM (m := Option) Val.toBuf? = some bufs) :
    exec fs "tls::server_hello" none ⟨[ver, .str sid, cipher, comp], x⟩ h =
      .ok (.str (tlsServerHello (nv % 65536) sid (nc % 65536) (nz % 256) bufs.flatten), h) := by
  exec_arm
  simp [joinExtra_nil x bufs hx, toU16_of hv, toU16_of hc, toU8_of hz, tlsServerHello, Val.toBuf?, serverRandom]

theorem exec_tls_sni (x : List Val) (names : List Bytes) (hx : x.mapM (m := Option) Val.toBuf? = some names) :
    exec fs "tls::sni" none ⟨[], x⟩ h = .ok (.str (tlsSni names), h) := by
  exec_arm; simp [mapM_ofOpt _ _ x names hx, tlsSni, sniListLen]; rfl

theorem exec_tls_certificates (x : List Val) (certs : List Bytes)
    (hx : x.mapM (m := Option) Val.toBuf? = some certs) :
    exec fs "tls::certificates" none ⟨[], x⟩ h = .ok (.str (tlsCertificates certs), h) := by
  exec_arm; simp [mapM_ofOpt _ _ x certs hx, tlsCertificates, sniListLen]; rfl

/-! ### DHCP -/

theorem exec_dhcp_option (opt : Val) (no : Nat) (ho : opt.toNat? = some no)
    (x : List Val) (bufs : List Bytes) (hx : x.mapM (m := Option) Val.toBuf? = some bufs) :
    exec fs "dhcp::option" none ⟨[opt], x⟩ h = .ok (.str (dhcpOption (no % 256) bufs.flatten), h) := by
  exec_arm; simp [joinExtra_nil x bufs hx, toU8_of ho, dhcpOption]

theorem exec_dhcp_hdr (op ht hl hops xid magic : Val) (nop nht nhl nhops nxid nmagic : Nat)
    (h1 : op.toNat? = some nop) (h2 : ht.toNat? = some nht) (h3 : hl.toNat? = some nhl)
    (h4 : hops.toNat? = some nhops) (h5 : xid.toNat? = some nxid) (h6 : magic.toNat? = some nmagic)
    (ci yi si gi : Nat) (ch sn fl : Option Bytes) :
    exec fs "dhcp::hdr" none
      ⟨[op, ht, hl, hops, xid, .ip4 ci, .ip4 yi, .ip4 si, .ip4 gi, optStr ch, optStr sn, optStr fl, magic], []⟩ h =
      .ok (.str (dhcpHdr (nop % 256) (nht % 256) (nhl % 256) (nhops % 256) (nxid % 4294967296) ci yi si gi
        ch sn fl (nmagic % 4294967296)), h) := by
  exec_arm
  simp [toU8_of h1, toU8_of h2, toU8_of h3, toU8_of h4, toU32_of h5, toU32_of h6, Val.toIp?]

/-! ### DNS / NetBIOS -/

theorem exec_dns_name (complete : Bool) (x : List Val) (parts : List Bytes)
    (hx : x.mapM (m := Option) Val.toBuf? = some parts) :
    exec fs "dns::name" none ⟨[.bool complete], x⟩ h = .ok (.str (dnsName complete parts), h) := by
  exec_arm; simp only [mapM_ofOpt _ _ x parts hx, Val.toBool?, dnsName, Res.ofOpt_some, Res.ok_bind, Res.pure_eq]
  cases complete
  · rfl
  · rcases parts with _ | ⟨a, _ | ⟨b, t⟩⟩ <;> rfl

theorem exec_dns_pointer (off : Val) (n : Nat) (hv : off.toNat? = some n) :
    exec fs "dns::pointer" none ⟨[off], []⟩ h = .ok (.str (dnsPointer (n % 65536)), h) := by
  exec_arm; simp [toU16_of hv, dnsPointer]

theorem exec_dns_flags (op rc : Val) (nop nrc : Nat) (ho : op.toNat? = some nop) (hr : rc.toNat? = some nrc)
    (r aa tc rd ra z ad cd : Bool) :
    exec fs "dns::flags" none
      ⟨[op, .bool r, .bool aa, .bool tc, .bool rd, .bool ra, .bool z, .bool ad, .bool cd, rc], []⟩ h =
      .ok (.u16 (dnsFlags (nop % 256) r aa tc rd ra z ad cd (nrc % 256)), h) := by
  exec_arm; simp [toU8_of ho, toU8_of hr, Val.toBool?]

theorem exec_netbios_ns_flags (op rc : Val) (nop nrc : Nat) (ho : op.toNat? = some nop) (hr : rc.toNat? = some nrc)
    (r aa tc rd ra z ad cd : Bool) :
    exec fs "netbios::ns::flags" none
      ⟨[op, .bool r, .bool aa, .bool tc, .bool rd, .bool ra, .bool z, .bool ad, .bool cd, rc], []⟩ h =
      .ok (.u16 (dnsFlags (nop % 256) r aa tc rd ra z ad cd (nrc % 256)), h) := by
  exec_arm; simp [toU8_of ho, toU8_of hr, Val.toBool?]

theorem exec_dns_hdr (id fl qd an ns ar : Val) (nid nfl nqd nan nns nar : Nat)
    (h1 : id.toNat? = some nid) (h2 : fl.toNat? = some nfl) (h3 : qd.toNat? = some nqd)
    (h4 : an.toNat? = some nan) (h5 : ns.toNat? = some nns) (h6 : ar.toNat? = some nar) :
    exec fs "dns::hdr" none ⟨[id, fl, qd, an, ns, ar], []⟩ h =
      .ok (.str (dnsHdr (nid % 65536) (nfl % 65536) (nqd % 65536) (nan % 65536) (nns % 65536) (nar % 65536)), h) := by
  exec_arm; simp [toU16_of h1, toU16_of h2, toU16_of h3, toU16_of h4, toU16_of h5, toU16_of h6]

theorem exec_dns_question (name : Bytes) (qt qc : Val) (nt nc : Nat) (ht : qt.toNat? = some nt)
    (hc : qc.toNat? = some nc) :
    exec fs "dns::question" none ⟨[.str name, qt, qc], []⟩ h =
      .ok (.str (dnsQuestion name (nt % 65536) (nc % 65536)), h) := by
  exec_arm; simp [toU16_of ht, toU16_of hc, Val.toBuf?, dnsQuestion]

theorem exec_dns_answer (name : Bytes) (aty ac ttl : Val) (nt nc nttl : Nat) (ht : aty.toNat? = some nt)
    (hc : ac.toNat? = some nc) (hl : ttl.toNat? = some nttl)
    (x : List Val) (bufs : List Bytes) (hx : x.mapM (m := Option) Val.toBuf? = some bufs) :
    exec fs "dns::answer" none ⟨[.str name, aty, ac, ttl], x⟩ h =
      .ok (.str (dnsAnswer name (nt % 65536) (nc % 65536) (nttl % 4294967296) bufs.flatten), h) := by
  exec_arm
  simp [joinExtra_nil x bufs hx, toU16_of ht, toU16_of hc, toU32_of hl, Val.toBuf?, dnsAnswer]

theorem exec_dns_host (client nsip : Nat) (name : Bytes) (ttl : Val) (nttl : Nat) (hl : ttl.toNat? = some nttl)
    (raw : Bool) (x : List Val) (ips : List Nat) (hx : x.mapM (m := Option) Val.toIp? = some ips) :
    exec fs "dns::host" none ⟨[.ip4 client, .str name, ttl, .ip4 nsip, .bool raw], x⟩ h =
      .ok (pktsOf (dnsHostFrames client name (nttl % 4294967296) nsip raw ips), h) := by
  exec_arm
  simp only [mapM_ofOpt _ _ x ips hx]
  simp [toU32_of hl, Val.toBuf?, Val.toIp?, Val.toBool?, dnsHostFrames]

theorem exec_netbios_encode_some (suffix : Val) (ns : Nat) (hs : suffix.toNat? = some ns)
    (x : List Val) (bufs : List Bytes) (hx : x.mapM (m := Option) Val.toBuf? = some bufs)
    (r : Bytes) (hr : netbiosEncode bufs.flatten (ns % 256) = some r) :
    exec fs "netbios::name::encode" none ⟨[suffix], x⟩ h = .ok (.str r, h) := by
  exec_arm; simp [joinExtra_nil x bufs hx, toU8_of hs, hr]

theorem exec_netbios_encode_none (suffix : Val) (ns : Nat) (hs : suffix.toNat? = some ns)
    (x : List Val) (bufs : List Bytes) (hx : x.mapM (m := Option) Val.toBuf? = some bufs)
    (hr : netbiosEncode bufs.flatten (ns % 256) = none) :
    exec fs "netbios::name::encode" none ⟨[suffix], x⟩ h = .err .runtime Loc.nil := by
  exec_arm; simp [joinExtra_nil x bufs hx, toU8_of hs, hr]

end bridges
end Resynth.Wire
