import Resynth.Lemmas.TotalParseStep
/-! # `Parser::feed` keeps every syntax tree well formed (`feed_wf`) -/
namespace Resynth.LR

theorem step_wf (c : Cfg) (t : Tok) (h : Inv c.state c.stack) (hw : CfgWF c) (ht : TokOk t) :
    StepWF (step c t) := by
  obtain ⟨st, s, ss⟩ := c
  obtain ⟨k, txt, loc⟩ := t
  cases st
  case initial => exact sw_initial s ss k txt loc h hw.1 hw.2 ht
  case import_ => exact sw_import_ s ss k txt loc h hw.1 hw.2 ht
  case importEnd => exact sw_importEnd s ss k txt loc h hw.1 hw.2 ht
  case reduceImport => exact sw_reduceImport s ss k txt loc h hw.1 hw.2 ht
  case let_ => exact sw_let_ s ss k txt loc h hw.1 hw.2 ht
  case assign => exact sw_assign s ss k txt loc h hw.1 hw.2 ht
  case refComponent => exact sw_refComponent s ss k txt loc h hw.1 hw.2 ht
  case reduceModule => exact sw_reduceModule s ss k txt loc h hw.1 hw.2 ht
  case refModule => exact sw_refModule s ss k txt loc h hw.1 hw.2 ht
  case reduceObject => exact sw_reduceObject s ss k txt loc h hw.1 hw.2 ht
  case reduceRefCall => exact sw_reduceRefCall s ss k txt loc h hw.1 hw.2 ht
  case reduceRefNaked => exact sw_reduceRefNaked s ss k txt loc h hw.1 hw.2 ht
  case refObject => exact sw_refObject s ss k txt loc h hw.1 hw.2 ht
  case refObjEnd => exact sw_refObjEnd s ss k txt loc h hw.1 hw.2 ht
  case reduceCall => exact sw_reduceCall s ss k txt loc h hw.1 hw.2 ht
  case reduceArg => exact sw_reduceArg s ss k txt loc h hw.1 hw.2 ht
  case argNext => exact sw_argNext s ss k txt loc h hw.1 hw.2 ht
  case exprArg => exact sw_exprArg s ss k txt loc h hw.1 hw.2 ht
  case argName => exact sw_argName s ss k txt loc h hw.1 hw.2 ht
  case argVal => exact sw_argVal s ss k txt loc h hw.1 hw.2 ht
  case exprStmt => exact sw_exprStmt s ss k txt loc h hw.1 hw.2 ht
  case expr => exact sw_expr s ss k txt loc h hw.1 hw.2 ht
  case exprRvalue => exact sw_exprRvalue s ss k txt loc h hw.1 hw.2 ht
  case ipv4 => exact sw_ipv4 s ss k txt loc h hw.1 hw.2 ht
  case ipv4Colon => exact sw_ipv4Colon s ss k txt loc h hw.1 hw.2 ht
  case reduceLiteralExpr => exact sw_reduceLiteralExpr s ss k txt loc h hw.1 hw.2 ht
  case reduceRefExpr => exact sw_reduceRefExpr s ss k txt loc h hw.1 hw.2 ht
  case reduceCallExpr => exact sw_reduceCallExpr s ss k txt loc h hw.1 hw.2 ht
  case slash => exact sw_slash s ss k txt loc h hw.1 hw.2 ht
  case reduceExpr => exact sw_reduceExpr s ss k txt loc h hw.1 hw.2 ht
  case reduceSockAddr => exact sw_reduceSockAddr s ss k txt loc h hw.1 hw.2 ht
  case exprStmtEnd => exact sw_exprStmtEnd s ss k txt loc h hw.1 hw.2 ht
  case assignStmtEnd => exact sw_assignStmtEnd s ss k txt loc h hw.1 hw.2 ht
  case reduceBop => exact sw_reduceBop s ss k txt loc h hw.1 hw.2 ht
  case reduceAssign => exact sw_reduceAssign s ss k txt loc h hw.1 hw.2 ht
  case reduceExprStmt => exact sw_reduceExprStmt s ss k txt loc h hw.1 hw.2 ht
  case reduceAssignStmt => exact sw_reduceAssignStmt s ss k txt loc h hw.1 hw.2 ht
  case reduceStmt => exact sw_reduceStmt s ss k txt loc h hw.1 hw.2 ht
  case accept => exact sw_accept s ss k txt loc h hw.1 hw.2 ht

theorem feedAux_wf (fuel : Nat) (c : Cfg) (t : Tok) (h : Inv c.state c.stack) (hw : CfgWF c) (ht : TokOk t)
    {c' : Cfg} (hf : feedAux fuel c t = .ok c') : CfgWF c' := by
  induction fuel generalizing c with
  | zero => simp [feedAux] at hf
  | succ n ih =>
    have hs := step_inv c t h
    have hsw := step_wf c t h hw ht
    unfold feedAux at hf
    cases hst : step c t with
    | parseError => simp [hst] at hf
    | panic => simp [hst] at hf
    | ok r =>
      obtain ⟨c1, b⟩ := r
      rw [hst] at hsw hs
      cases b with
      | true => simp only [hst, Res.ok.injEq] at hf; subst hf; exact hsw
      | false =>
        simp only [hst] at hf
        exact ih c1 hs.1 hsw hf

/-- **a successful `feed` of a `TokOk` token keeps the configuration well formed** -/
theorem feed_wf (c : Cfg) (t : Tok) (h : Inv c.state c.stack) (hw : CfgWF c) (ht : TokOk t)
    {c' : Cfg} (hf : feed c t = .ok c') : CfgWF c' :=
  feedAux_wf _ c t h hw ht hf

theorem CfgWF_init : CfgWF Cfg.init := ⟨trivial, StmtsWF_nil⟩

/-- `get_results` hands over well-formed statements and leaves a well-formed parser -/
theorem takeResults_wf (c : Cfg) (hw : CfgWF c) : StmtsWF c.takeResults.1 ∧ CfgWF c.takeResults.2 :=
  ⟨hw.2, hw.1, StmtsWF_nil⟩

theorem eofTok_ok : TokOk eofTok := by intro h; cases h

end Resynth.LR
