import Lean
import Resynth.Spec.Calling
import Resynth.Model.Stdlib
/-!
# Tools for "library functions never panic on well-bound arguments"
-/
namespace Resynth

/-! ## coercions are total on the types the binder accepts -/
namespace Val

theorem toNat?_total {v : Val} (h : v.valType.isIntegral = true) : ∃ n, v.toNat? = some n := by
  cases v <;> simp [valType, ValType.isIntegral] at h <;> exact ⟨_, rfl⟩
theorem toU8?_total {v : Val} (h : v.valType.isIntegral = true) : ∃ n, v.toU8? = some n := by
  obtain ⟨n, hn⟩ := toNat?_total h; exact ⟨n % 256, by simp [toU8?, hn]⟩
theorem toU16?_total {v : Val} (h : v.valType.isIntegral = true) : ∃ n, v.toU16? = some n := by
  obtain ⟨n, hn⟩ := toNat?_total h; exact ⟨n % 65536, by simp [toU16?, hn]⟩
theorem toU32?_total {v : Val} (h : v.valType.isIntegral = true) : ∃ n, v.toU32? = some n := by
  obtain ⟨n, hn⟩ := toNat?_total h; exact ⟨n % 4294967296, by simp [toU32?, hn]⟩
theorem toU64?_total {v : Val} (h : v.valType.isIntegral = true) : ∃ n, v.toU64? = some n := by
  obtain ⟨n, hn⟩ := toNat?_total h; exact ⟨n, by simp [toU64?, hn]⟩
theorem toBool?_total {v : Val} (h : v.valType.isIntegral = true) : ∃ b, v.toBool? = some b := by
  cases v <;> simp [valType, ValType.isIntegral] at h <;> exact ⟨_, rfl⟩
theorem toBuf?_total {v : Val} (h : v.valType.isStringCoercible = true) : ∃ b, v.toBuf? = some b := by
  cases v <;> simp [valType, ValType.isStringCoercible] at h <;> exact ⟨_, rfl⟩
theorem toPktGen?_total {v : Val} (h : v.valType.isPktgenCoercible = true) : ∃ b, v.toPktGen? = some b := by
  cases v <;> simp [valType, ValType.isPktgenCoercible] at h <;> exact ⟨_, rfl⟩
theorem toIp?_total {v : Val} (h : v.valType = .ip4) : ∃ a, v.toIp? = some a := by
  cases v <;> simp [valType] at h <;> exact ⟨_, rfl⟩
theorem toSock?_total {v : Val} (h : v.valType = .sock4) : ∃ a, v.toSock? = some a := by
  cases v <;> simp [valType] at h <;> exact ⟨_, rfl⟩
theorem toPkt?_total {v : Val} (h : v.valType = .pkt) : ∃ a, v.toPkt? = some a := by
  cases v <;> simp [valType] at h <;> exact ⟨_, rfl⟩
theorem toOptU32?_total {v : Val} (h : v.valType = .void ∨ v.valType.isIntegral = true) :
    ∃ a, v.toOptU32? = some a := by
  cases v <;> simp [valType, ValType.isIntegral] at h <;>
    first | exact ⟨_, rfl⟩ | (simp [toOptU32?, toU32?, toNat?])
theorem toOptIp?_total {v : Val} (h : v.valType = .void ∨ v.valType = .ip4) :
    ∃ a, v.toOptIp? = some a := by
  cases v <;> simp [valType] at h <;> exact ⟨_, rfl⟩
theorem toOptBuf?_total {v : Val} (h : v.valType = .void ∨ v.valType.isStringCoercible = true) :
    ∃ a, v.toOptBuf? = some a := by
  cases v <;> simp [valType, ValType.isStringCoercible] at h <;>
    first | exact ⟨_, rfl⟩ | (simp [toOptBuf?, toBuf?])

end Val

/-! ## outcomes -/

/-- a good outcome of a library call declared to return `rt`: a value of type `rt`, or an error;
never a panic -/
def Good (rt : ValType) : Res (Val × Heap) → Prop
  | .ok (v, _) => v.valType = rt
  | .err _ _ => True
  | .panic _ => False

theorem Good.noPanic {rt r} (h : Good rt r) : ∀ s, r ≠ .panic s := by
  intro s e; subst e; exact h

theorem Good.retType {rt r} (h : Good rt r) : ∀ v h', r = .ok (v, h') → v.valType = rt := by
  intro v h' e; subst e; exact h

@[simp] theorem Good_ok (rt v h) : Good rt (.ok (v, h)) ↔ v.valType = rt := Iff.rfl
@[simp] theorem Good_pure (rt v h) : Good rt (pure (v, h)) ↔ v.valType = rt := Iff.rfl
@[simp] theorem Good_err (rt e l) : Good rt (.err e l) ↔ True := Iff.rfl
@[simp] theorem Good_panic (rt s) : Good rt (.panic s) ↔ False := Iff.rfl

@[simp] theorem Res.ok_bind {α β} (a : α) (g : α → Res β) : (Res.ok a >>= g) = g a := rfl
@[simp] theorem Res.pure_bind' {α β} (a : α) (g : α → Res β) : ((pure a : Res α) >>= g) = g a := rfl
@[simp] theorem Res.err_bind {α β} (e l) (g : α → Res β) : (Res.err e l >>= g) = .err e l := rfl
@[simp] theorem Res.panic_bind {α β} (s) (g : α → Res β) : (Res.panic s >>= g) = .panic s := rfl

instance : LawfulMonad Res := LawfulMonad.mk'
  (id_map := fun x => by cases x <;> rfl)
  (pure_bind := fun _ _ => rfl)
  (bind_assoc := fun x _ _ => by cases x <;> rfl)

@[simp] theorem Res.map_ok {α β} (g : α → β) (a : α) : (g <$> Res.ok a) = Res.ok (g a) := rfl
@[simp] theorem Res.map_err {α β} (g : α → β) (e l) : (g <$> (Res.err e l : Res α)) = Res.err e l := rfl
@[simp] theorem Res.map_panic {α β} (g : α → β) (s) : (g <$> (Res.panic s : Res α)) = Res.panic s := rfl

theorem Res.ofOpt_some {α} (s : String) {o : Option α} {a : α} (h : o = some a) : Res.ofOpt s o = .ok a := by
  subst h; rfl

/-- `Good` of a bind whose first action succeeds -/
theorem Good_bind_ok {α} {rt} {x : Res α} {a : α} (hx : x = .ok a) (g : α → Res (Val × Heap)) :
    Good rt (x >>= g) ↔ Good rt (g a) := by subst hx; rfl

/-! ## rewriting rules: a coercion applied to a value of an accepted type is `.ok` -/
section conv
variable (s : String) {v : Val}

theorem ofOpt_toU8 (h : v.valType.isIntegral = true) : Res.ofOpt s v.toU8? = .ok (v.toU8?.getD 0) := by
  obtain ⟨n, hn⟩ := Val.toU8?_total h; simp [hn, Res.ofOpt]
theorem ofOpt_toU16 (h : v.valType.isIntegral = true) : Res.ofOpt s v.toU16? = .ok (v.toU16?.getD 0) := by
  obtain ⟨n, hn⟩ := Val.toU16?_total h; simp [hn, Res.ofOpt]
theorem ofOpt_toU32 (h : v.valType.isIntegral = true) : Res.ofOpt s v.toU32? = .ok (v.toU32?.getD 0) := by
  obtain ⟨n, hn⟩ := Val.toU32?_total h; simp [hn, Res.ofOpt]
theorem ofOpt_toU64 (h : v.valType.isIntegral = true) : Res.ofOpt s v.toU64? = .ok (v.toU64?.getD 0) := by
  obtain ⟨n, hn⟩ := Val.toU64?_total h; simp [hn, Res.ofOpt]
theorem ofOpt_toBool (h : v.valType.isIntegral = true) : Res.ofOpt s v.toBool? = .ok (v.toBool?.getD false) := by
  obtain ⟨n, hn⟩ := Val.toBool?_total h; simp [hn, Res.ofOpt]
theorem ofOpt_toBuf (h : v.valType.isStringCoercible = true) : Res.ofOpt s v.toBuf? = .ok (v.toBuf?.getD []) := by
  obtain ⟨n, hn⟩ := Val.toBuf?_total h; simp [hn, Res.ofOpt]
theorem ofOpt_toPktGen (h : v.valType.isPktgenCoercible = true) :
    Res.ofOpt s v.toPktGen? = .ok (v.toPktGen?.getD []) := by
  obtain ⟨n, hn⟩ := Val.toPktGen?_total h; simp [hn, Res.ofOpt]
theorem ofOpt_toIp (h : v.valType = .ip4) : Res.ofOpt s v.toIp? = .ok (v.toIp?.getD 0) := by
  obtain ⟨n, hn⟩ := Val.toIp?_total h; simp [hn, Res.ofOpt]
theorem ofOpt_toSock (h : v.valType = .sock4) : Res.ofOpt s v.toSock? = .ok (v.toSock?.getD ⟨0, 0⟩) := by
  obtain ⟨n, hn⟩ := Val.toSock?_total h; simp [hn, Res.ofOpt]
theorem ofOpt_toPkt (h : v.valType = .pkt) : Res.ofOpt s v.toPkt? = .ok (v.toPkt?.getD default) := by
  obtain ⟨n, hn⟩ := Val.toPkt?_total h; simp [hn, Res.ofOpt]
theorem ofOpt_toOptU32 (h : v.valType = .void ∨ v.valType.isIntegral = true) :
    Res.ofOpt s v.toOptU32? = .ok (v.toOptU32?.getD none) := by
  obtain ⟨n, hn⟩ := Val.toOptU32?_total h; simp [hn, Res.ofOpt]
theorem ofOpt_toOptIp (h : v.valType = .void ∨ v.valType = .ip4) :
    Res.ofOpt s v.toOptIp? = .ok (v.toOptIp?.getD none) := by
  obtain ⟨n, hn⟩ := Val.toOptIp?_total h; simp [hn, Res.ofOpt]
theorem ofOpt_toOptBuf (h : v.valType = .void ∨ v.valType.isStringCoercible = true) :
    Res.ofOpt s v.toOptBuf? = .ok (v.toOptBuf?.getD none) := by
  obtain ⟨n, hn⟩ := Val.toOptBuf?_total h; simp [hn, Res.ofOpt]
end conv

/-- mapping a total coercion over the tail -/
theorem mapM_ofOpt_ok {β} (s : String) (g : Val → Option β) (x : List Val)
    (hx : ∀ v ∈ x, ∃ b, g v = some b) :
    x.mapM (fun e => Res.ofOpt s (g e)) = .ok (x.filterMap g) := by
  induction x with
  | nil => rfl
  | cons a x ih =>
    obtain ⟨b, hb⟩ := hx a (by simp)
    have ih' := ih (fun v hv => hx v (by simp [hv]))
    rw [List.mapM_cons, ih', hb, List.filterMap_cons, hb]
    rfl

theorem joinExtra_ok (x : List Val) (sep : Bytes) (hx : ∀ v ∈ x, v.valType.isStringCoercible = true) :
    joinExtra x sep = .ok (sep.intercalate (x.filterMap Val.toBuf?)) := by
  unfold joinExtra
  rw [mapM_ofOpt_ok _ _ _ (fun v hv => Val.toBuf?_total (hx v hv))]
  rfl

theorem getThis_ok (h : Heap) (i : Nat) (o : Obj) (ho : h[i]? = some o) :
    getThis h (some i) = .ok (i, o) := by
  simp [getThis, ho]

/-! ## what the binder's acceptance means for each declared type -/
section accepts
open Spec
variable (t : ValType)
@[simp] theorem accepts_bool : accepts .bool t = t.isIntegral := by cases t <;> rfl
@[simp] theorem accepts_u8 : accepts .u8 t = t.isIntegral := by cases t <;> rfl
@[simp] theorem accepts_u16 : accepts .u16 t = t.isIntegral := by cases t <;> rfl
@[simp] theorem accepts_u32 : accepts .u32 t = t.isIntegral := by cases t <;> rfl
@[simp] theorem accepts_u64 : accepts .u64 t = t.isIntegral := by cases t <;> rfl
@[simp] theorem accepts_str : accepts .str t = t.isStringCoercible := by cases t <;> rfl
@[simp] theorem accepts_pktgen : accepts .pktgen t = t.isPktgenCoercible := by cases t <;> rfl
@[simp] theorem accepts_ip4 : accepts .ip4 t = (t == .ip4) := by cases t <;> rfl
@[simp] theorem accepts_sock4 : accepts .sock4 t = (t == .sock4) := by cases t <;> rfl
@[simp] theorem accepts_pkt : accepts .pkt t = (t == .pkt) := by cases t <;> rfl
@[simp] theorem accepts_void : accepts .void t = (t == .void) := by cases t <;> rfl
end accepts

/-- `this` as the interpreter supplies it: nothing for a free function (`cls = none`), a live
object of class `c` for a method of class `c` -/
def ThisOk (cls : Option String) (this : Option Nat) (h : Heap) : Prop :=
  match cls with
  | none => this = none
  | some c => ∃ i o, this = some i ∧ h[i]? = some o ∧ o.cls = c

/-- the library function with signature `f` (a method of class `cls`, if any) has a good outcome
on every argument vector the binder can produce, every heap and every proper `this` -/
def ExecGood (cls : Option String) (f : FuncDef) : Prop :=
  ∀ (fs : Fs) (this : Option Nat) (av : ArgVec) (h : Heap),
    Spec.wellBound f av.args av.extra = true → ThisOk cls this h →
    Good f.returnType (exec fs f.path this av h)

open Lean Meta Elab Tactic in
/-- replace every `exec fs "literal" this ⟨[…], x⟩ h` in the goal by the body of the arm of
`exec` it selects (unfold + matcher reduction; checked by the kernel as a definitional equality) -/
elab "exec_reduce" : tactic => withMainContext do
  let g ← getMainGoal
  let t ← instantiateMVars (← g.getType)
  let t' ← Meta.transform t (pre := fun e => do
    if e.isAppOfArity ``Resynth.exec 5 then
      match ← unfoldDefinition? e with
      | some e1 =>
        let e2 ← whnfCore e1
        return .done e2
      | none => return .continue
    else return .continue)
  let g' ← g.replaceTargetDefEq t'
  replaceMainGoal [g']

set_option hygiene false in
/-- split `av` into a literal argument list (`a1 … an`) with the type facts `hargs`, `hextra` -/
macro "destruct_av" : tactic => `(tactic|
  (intro fs this av h hwb hthis
   obtain ⟨args, extra⟩ := av
   simp only [Spec.wellBound, Bool.and_eq_true, beq_iff_eq] at hwb
   obtain ⟨⟨⟨hlen, hargs⟩, hextra⟩, htail⟩ := hwb
   rcases args with _ | ⟨a1, _ | ⟨a2, _ | ⟨a3, _ | ⟨a4, _ | ⟨a5, _ | ⟨a6, _ | ⟨a7, _ | ⟨a8, _ | ⟨a9,
     _ | ⟨a10, _ | ⟨a11, _ | ⟨a12, _ | ⟨a13, _ | ⟨a14, args⟩⟩⟩⟩⟩⟩⟩⟩⟩⟩⟩⟩⟩⟩ <;>
     first
     | (exfalso; simp at hlen; done)
     | (exfalso; simp at hlen; omega)
     | skip))

set_option hygiene false in
/-- select the arm of `exec`, discharge every coercion with the type facts, compute the result type -/
macro "exec_core" : tactic => `(tactic|
  (try simp [Spec.paramAccepts, ValDef.valType] at hargs
   try simp [Spec.paramAccepts, ValDef.valType] at hextra
   exec_reduce
   dsimp only
   try simp only [getThis_ok _ _ _ ho, Res.ok_bind]
   try simp only [joinExtra_ok _ _ hextra]
   try simp only [mapM_ofOpt_ok _ Val.toBuf? _ (fun v hv => Val.toBuf?_total (hextra v hv))]
   try simp only [mapM_ofOpt_ok _ Val.toIp? _ (fun v hv => Val.toIp?_total (hextra v hv))]
   try simp only [mapM_ofOpt_ok _ Val.toU16? _ (fun v hv => Val.toU16?_total (hextra v hv))]
   try simp [tcpOverride, ofOpt_toU8, ofOpt_toU16, ofOpt_toU32, ofOpt_toU64, ofOpt_toBool, ofOpt_toBuf,
     ofOpt_toPktGen, ofOpt_toIp, ofOpt_toSock, ofOpt_toPkt, ofOpt_toOptU32, ofOpt_toOptIp, ofOpt_toOptBuf, *]
   try (repeat' split) <;> simp [pktOf, pktsOf, allocObj, Val.valType]))

set_option hygiene false in
/-- `ExecGood none sig` for a free function -/
macro "exec_good_fn" : tactic => `(tactic| (destruct_av; exec_core))

set_option hygiene false in
/-- `ExecGood (some cls) sig` for a method: `this` is an object of the right class -/
macro "exec_good_method" : tactic => `(tactic|
  (destruct_av
   obtain ⟨i, o, rfl, ho, hcls⟩ := hthis
   cases o <;> simp [Obj.cls] at hcls
   exec_core))

end Resynth
