import Resynth.Model.LR
/-!
# Stack-shape invariant of the LR automaton

`Inv st s` describes the node stack `s` (head = top) in every state `st`.  `step_inv` shows that one
loop iteration of `Parser::feed` never panics from a configuration satisfying `Inv`, preserves
`Inv`, and that a `Goto` iteration decreases `stack.length + rank state` — so the budget
`stack.length + 16` of `feed` is never exhausted.
-/
namespace Resynth.LR

/-- the part of the stack below an expression under construction -/
inductive ECtx : Stack → Prop
  | stmt : ECtx [.st .exprStmtEnd]
  | asg (l t) : ECtx [.st .assignStmtEnd, .assignTo t, .loc l]
  | arg {c} (n l o) : ECtx c → ECtx (.st .reduceArg :: .argName n :: .argList l :: .obj o :: c)
  | bop {c} (e) : ECtx c → ECtx (.st .reduceBop :: .slash :: .expr e :: c)

@[simp] theorem ECtx_stmt : ECtx [.st .exprStmtEnd] := .stmt
@[simp] theorem ECtx_asg (l t) : ECtx [.st .assignStmtEnd, .assignTo t, .loc l] := .asg l t
@[simp] theorem ECtx_arg {c n l o} :
    ECtx (.st .reduceArg :: .argName n :: .argList l :: .obj o :: c) ↔ ECtx c :=
  ⟨fun h => by cases h; assumption, .arg n l o⟩
@[simp] theorem ECtx_bop {c e} : ECtx (.st .reduceBop :: .slash :: .expr e :: c) ↔ ECtx c :=
  ⟨fun h => by cases h; assumption, .bop e⟩

theorem ECtx.length_pos {c} (h : ECtx c) : 0 < c.length := by cases h <;> simp

def Inv (st : State) (s : Stack) : Prop :=
  match st with
  | .initial | .import_ | .let_ | .exprStmt | .accept => s = []
  | .importEnd | .reduceImport => match s with | [.module _, .loc _] => True | _ => False
  | .assign | .exprRvalue => match s with | [.assignTo _, .loc _] => True | _ => False
  | .expr => ECtx s
  | .refComponent | .reduceModule | .reduceObject | .refObjEnd | .reduceRefCall | .reduceRefNaked =>
      match s with | .comp _ :: .path _ :: c => ECtx c | _ => False
  | .refModule | .refObject => match s with | .path _ :: c => ECtx c | _ => False
  | .exprArg | .argNext => match s with | .argList _ :: .obj _ :: c => ECtx c | _ => False
  | .argName => match s with | .argName (some _) :: .argList _ :: .obj _ :: c => ECtx c | _ => False
  | .argVal => match s with | .argName _ :: .argList _ :: .obj _ :: c => ECtx c | _ => False
  | .ipv4 | .ipv4Colon => match s with | .lit (.ip4 _) :: .loc _ :: c => ECtx c | _ => False
  | .reduceSockAddr => match s with
      | .lit (.u64 p) :: .loc _ :: .lit (.ip4 _) :: .loc _ :: c => p ≤ 65535 ∧ ECtx c | _ => False
  | .reduceLiteralExpr => match s with | .lit _ :: .loc _ :: c => ECtx c | _ => False
  | .reduceRefExpr => match s with | .obj _ :: c => ECtx c | _ => False
  | .reduceCallExpr => match s with | .call _ _ :: c => ECtx c | _ => False
  | .slash | .reduceExpr => match s with | .expr _ :: c => ECtx c | _ => False
  | .reduceArg => match s with
      | .expr _ :: .argName _ :: .argList _ :: .obj _ :: c => ECtx c | _ => False
  | .reduceCall => match s with | _ :: .argList _ :: .obj _ :: c => ECtx c | _ => False
  | .reduceBop => match s with | .expr _ :: .slash :: .expr _ :: c => ECtx c | _ => False
  | .exprStmtEnd | .reduceExprStmt => match s with | [.expr _] => True | _ => False
  | .assignStmtEnd | .reduceAssign => match s with
      | [.expr _, .assignTo _, .loc _] => True | _ => False
  | .reduceAssignStmt => match s with | [.assign _ _ _] => True | _ => False
  | .reduceStmt => match s with | [.stmt _] => True | _ => False

/-- potential of a state for the `Goto` loop -/
def rank : State → Nat
  | .argName => 7
  | .reduceExprStmt | .reduceAssignStmt => 4
  | .initial | .reduceStmt | .reduceImport | .reduceAssign | .refComponent | .refObjEnd
  | .reduceRefCall => 3
  | .exprStmt | .exprRvalue | .reduceRefExpr | .reduceCallExpr | .ipv4 | .reduceRefNaked
  | .exprArg => 2
  | .slash | .reduceLiteralExpr | .reduceCall => 1
  | _ => 0

theorem rank_le (st : State) : rank st ≤ 7 := by cases st <;> simp [rank]

/-- a literal token of kind `ipv4Lit` has an `ip4` value, one of kind `intLit` a `u64` value -/
theorem litOfToken_ipv4 {t : Tok} (h : t.kind = .ipv4Lit) :
    litOfToken t = (parseIpv4 t.text).map .ip4 := by simp [litOfToken, h]
theorem litOfToken_int {t : Tok} (h : t.kind = .intLit) :
    litOfToken t = (parseU64Dec t.text).map .u64 := by simp [litOfToken, h]

/-- what one loop iteration guarantees -/
def StepOk (st : State) (s : Stack) : Res (Cfg × Bool) → Prop
  | .ok (c', true) => Inv c'.state c'.stack
  | .ok (c', false) => Inv c'.state c'.stack ∧ c'.stack.length + rank c'.state < s.length + rank st
  | .parseError => True
  | .panic => False

end Resynth.LR
