import Resynth.Lemmas.ExecBasics
/-!
# C14 (heap): library calls are local to the object they are called on — tools

`Sim m this h h2 r r2` relates the outcome `r` of a library call started on heap `h` to the outcome
`r2` of the *same* call started on another heap `h2`:

* both fail in the same way (same error kind and location / same panic site), or
* both return the same value and leave their heap alone (`keep`), or
* (free functions only, `m = false`) both append the same new object and return the handle of
  the slot it landed in (`alloc`), or
* (methods only, `m = true`) both return the same value and store the same new object in the slot
  `this` refers to, which is live in both heaps (`set`).

`LocalAt m path` says that the arm `path` of `exec` is such a call: for a free function whatever the
two heaps are, for a method as soon as the two heaps agree on the one slot `this` refers to.
Everything in `Props/C14Heap.lean` is a corollary of `LocalAt` for the 85 covered functions.
-/
namespace Resynth

inductive Sim (m : Bool) (this : Option Nat) (h h2 : Heap) : Res (Val × Heap) → Res (Val × Heap) → Prop
  | err (e : ErrKind) (l : Loc) : Sim m this h h2 (.err e l) (.err e l)
  | panic (s : String) : Sim m this h h2 (.panic s) (.panic s)
  | keep (v : Val) : Sim m this h h2 (.ok (v, h)) (.ok (v, h2))
  | alloc (o : Obj) : m = false →
      Sim m this h h2 (.ok (.obj h.length o.cls, h ++ [o])) (.ok (.obj h2.length o.cls, h2 ++ [o]))
  | set (v : Val) (i : Nat) (o : Obj) : m = true → this = some i → i < h.length → i < h2.length →
      Sim m this h h2 (.ok (v, h.set i o)) (.ok (v, h2.set i o))

/-- the arm `path` of `exec` is local (see the file header) -/
def LocalAt (m : Bool) (path : String) : Prop :=
  ∀ (fs : Fs) (this : Option Nat) (av : ArgVec) (h h2 : Heap),
    (m = true → ∀ i, this = some i → h[i]? = h2[i]?) →
    Sim m this h h2 (exec fs path this av h) (exec fs path this av h2)

namespace Sim
variable {m : Bool} {this : Option Nat} {h h2 : Heap}

theorem bind {α} (x : Res α) (f g : α → Res (Val × Heap))
    (hfg : ∀ a, Sim m this h h2 (f a) (g a)) : Sim m this h h2 (x >>= f) (x >>= g) := by
  cases x with
  | ok a => exact hfg a
  | err e l => exact .err e l
  | panic s => exact .panic s

theorem keep_pure (v : Val) : Sim m this h h2 (pure (v, h)) (pure (v, h2)) := .keep v

theorem alloc_pure (o : Obj) : Sim false this h h2 (pure (allocObj h o)) (pure (allocObj h2 o)) :=
  .alloc o rfl

theorem set_pure (v : Val) (i : Nat) (o : Obj) (hi : i < h.length) (hi2 : i < h2.length) :
    Sim true (some i) h h2 (pure (v, setObj h i o)) (pure (v, setObj h2 i o)) :=
  .set v i o rfl rfl hi hi2

theorem err' (e : ErrKind) (l : Loc) : Sim m this h h2 (.err e l) (.err e l) := .err e l
theorem panic' (s : String) : Sim m this h h2 (.panic s) (.panic s) := .panic s

/-- what a success on the first heap says about the run on the second one -/
theorem inv_ok {v : Val} {h' : Heap} {r2 : Res (Val × Heap)} (s : Sim m this h h2 (.ok (v, h')) r2) :
    (h' = h ∧ r2 = .ok (v, h2)) ∨
    (m = false ∧ ∃ o : Obj, h' = h ++ [o] ∧ v = .obj h.length o.cls ∧
      r2 = .ok (.obj h2.length o.cls, h2 ++ [o])) ∨
    (m = true ∧ ∃ (i : Nat) (o : Obj), this = some i ∧ i < h.length ∧ i < h2.length ∧ h' = h.set i o ∧
      r2 = .ok (v, h2.set i o)) := by
  generalize hr : (Res.ok (v, h') : Res (Val × Heap)) = r at s
  cases s with
  | err e l => cases hr
  | panic s => cases hr
  | keep v0 => cases hr; exact .inl ⟨rfl, rfl⟩
  | alloc o hm => cases hr; exact .inr (.inl ⟨hm, o, rfl, rfl, rfl⟩)
  | set v0 i o hm ht hi hi2 => cases hr; exact .inr (.inr ⟨hm, i, o, ht, hi, hi2, rfl, rfl⟩)

theorem inv_err {e : ErrKind} {l : Loc} {r2 : Res (Val × Heap)} (s : Sim m this h h2 (.err e l) r2) :
    r2 = .err e l := by
  generalize hr : (Res.err e l : Res (Val × Heap)) = r at s
  cases s <;> cases hr
  rfl

theorem inv_panic {site : String} {r2 : Res (Val × Heap)} (s : Sim m this h h2 (.panic site) r2) :
    r2 = .panic site := by
  generalize hr : (Res.panic site : Res (Val × Heap)) = r at s
  cases s <;> cases hr
  rfl

end Sim

theorem getThis_none (h : Heap) : getThis h none = .panic "take_this: None" := rfl

theorem getThis_dangling (h : Heap) (i : Nat) (hq : h[i]? = none) :
    getThis h (some i) = .panic "take_this: dangling" := by
  simp [getThis, hq]

theorem lt_of_getElem?_some {α} {l : List α} {i : Nat} {a : α} (h : l[i]? = some a) : i < l.length := by
  rcases Nat.lt_or_ge i l.length with hlt | hge
  · exact hlt
  · rw [List.getElem?_eq_none hge] at h; cases h

/-- close / decompose a `Sim` goal whose two sides are the same computation on two heaps -/
macro "sim_step" : tactic => `(tactic|
  first
  | exact Sim.keep_pure _
  | exact Sim.alloc_pure _
  | exact Sim.set_pure _ _ _ (by assumption) (by assumption)
  | exact Sim.err' _ _
  | exact Sim.panic' _
  | refine Sim.bind _ _ _ (fun _ => ?_)
  | split)

macro "sim_loop" : tactic => `(tactic| repeat' sim_step)

set_option hygiene false in
/-- after the arity split and `exec_reduce`: a free function -/
macro "local_fn_core" : tactic => `(tactic|
  (exec_reduce
   try dsimp only
   sim_loop))

set_option hygiene false in
/-- after the arity split and `exec_reduce`: a method (`this`, `h`, `h2`, `hthis` in scope) -/
macro "local_method_core" : tactic => `(tactic|
  (exec_reduce
   try dsimp only
   cases this with
   | none => simp only [getThis_none, Res.panic_bind]; sim_loop
   | some i =>
     have e := hthis rfl i rfl
     cases hq : h2[i]? with
     | none =>
       simp only [getThis_dangling h i (e.trans hq), getThis_dangling h2 i hq, Res.panic_bind]
       sim_loop
     | some o =>
       have hi : i < h.length := lt_of_getElem?_some (e.trans hq)
       have hi2 : i < h2.length := lt_of_getElem?_some hq
       simp only [getThis_ok h i o (e.trans hq), getThis_ok h2 i o hq, Res.ok_bind]
       sim_loop))

end Resynth
