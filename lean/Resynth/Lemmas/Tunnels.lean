import Resynth.Lemmas.Frag
import Resynth.Spec.Tunnel
/-!
# Lemmas for C06: tunnel sessions and what the reference decoders make of their output
-/
namespace Resynth
open Spec

theorem ip4Payload_serialize (h : IpHdr) (rest : Bytes) (hv : h.ihlVersion = 0x45)
    (hp : h.protocol < 256) (hlen : h.totLen = 20 + rest.length) (hfit : 20 + rest.length ≤ 65535) :
    ip4Payload (h.serialize ++ rest) = some (h.protocol, rest) := by
  simp only [IpHdr.serialize, be16, be32, List.cons_append, List.nil_append, ip4Payload, rd16,
    b8_toNat]
  have e16 : ∀ x, x < 65536 → x / 256 % 256 * 256 + x % 256 = x := by intro x hx; omega
  have ht : h.totLen < 65536 := by omega
  rw [e16 _ ht, Nat.mod_eq_of_lt hp, hv, hlen]
  simp [b8]

/-! ## GRE frames -/

/-- the packet `GreFrame::new(src, dst, flags, proto, raw).seq(s).push(body)` -/
def grePkt (src dst flags proto : Nat) (raw : Bool) (s : Nat) (body : Bytes) : Bytes :=
  (((GreFrame.new src dst flags proto raw).seq s).push body).frame

theorem GreFrame.push_push (g : GreFrame) (a b : Bytes) : (g.push a).push b = g.push (a ++ b) := by
  simp only [GreFrame.push, IpHdr.calcCsum, IpHdr.addTotLen, List.append_assoc, List.length_append]
  have e : ((g.ip.totLen + a.length % 65536) % 65536 + b.length % 65536) % 65536 =
      (g.ip.totLen + (a.length + b.length) % 65536) % 65536 := by omega
  rw [e]

theorem GreFlow.encap_eq (f : GreFlow) (b : Bytes) :
    f.encap b = ({ f with seq := (f.seq + 1) % 4294967296 },
      grePkt f.cl f.sv f.flags f.ethertype f.raw f.seq b) := rfl

theorem Erspan1Flow.encap_eq (f : Erspan1Flow) (b : Bytes) (s : Nat) :
    f.encap b = grePkt f.cl f.sv 0 0x88be f.raw s b := by
  simp [Erspan1Flow.encap, grePkt, GreFrame.new, GreFrame.seq]

theorem Erspan2Flow.encap_eq (f : Erspan2Flow) (b : Bytes) (portIndex : Nat) :
    f.encap b portIndex = ({ f with seq := (f.seq + 1) % 4294967296 },
      grePkt f.cl f.sv 0x1000 0x88be f.raw f.seq (erspan2Hdr f.sessionId portIndex ++ b)) := by
  simp only [Erspan2Flow.encap, grePkt, GreFrame.push_push]

theorem decapGre_grePkt (src dst flags proto : Nat) (raw : Bool) (s : Nat) (body : Bytes)
    (hf : flags < 65536) (hcrk : flags &&& 0xe000 = 0) (hp : proto < 65536)
    (hfit : 24 + (if flags &&& 0x1000 ≠ 0 then 4 else 0) + body.length ≤ 65535) :
    decapGre (stripEth raw (grePkt src dst flags proto raw s body)) = some
      { flags := flags, proto := proto
        seq := if flags &&& 0x1000 ≠ 0 then some (s % 4294967296) else none
        inner := body } := by
  have hstrip : stripEth raw (grePkt src dst flags proto raw s body) =
      grePkt src dst flags proto true s body := by
    cases raw
    · have := ethHdr_length (macOfIp dst) (macOfIp src) 0x0800 (by simp) (by simp)
      simp [stripEth, grePkt, GreFrame.frame, GreFrame.push, GreFrame.seq, GreFrame.new,
        List.append_assoc, this]
    · rfl
  rw [hstrip]
  have e16 : ∀ x, x < 65536 → x / 256 % 256 * 256 + x % 256 = x := by intro x hx; omega
  by_cases hS : flags &&& 0x1000 = 0
  · simp only [hS, ne_eq, not_true_eq_false, if_false] at hfit ⊢
    simp only [grePkt, GreFrame.frame, GreFrame.push, GreFrame.seq, GreFrame.new, hS, bne_self_eq_false,
      Bool.false_eq_true, if_false, if_true, List.nil_append, Option.map_none, Option.getD_none,
      List.append_nil, List.append_assoc]
    unfold decapGre
    rw [ip4Payload_serialize _ (be16 flags ++ (be16 proto ++ body)) rfl (by simp [IpHdr.calcCsum, IpHdr.addTotLen, Proto.gre])
      (by simp [IpHdr.calcCsum, IpHdr.addTotLen, be16]; omega) (by simp [be16]; omega)]
    simp only [be16, List.cons_append, List.nil_append, rd16, b8_toNat, e16 _ hf, e16 _ hp]
    simp [IpHdr.calcCsum, IpHdr.addTotLen, Proto.gre, greC, greR, greK, greS, hcrk, hS]
  · simp only [hS, ne_eq, not_false_eq_true, if_true] at hfit ⊢
    have hS' : (flags &&& 0x1000 != 0) = true := by simpa using hS
    simp only [grePkt, GreFrame.frame, GreFrame.push, GreFrame.seq, GreFrame.new, hS',
      if_true, List.nil_append, Option.map_some, Option.getD_some, List.append_assoc]
    unfold decapGre
    rw [ip4Payload_serialize _ (be16 flags ++ (be16 proto ++ (be32 s ++ body))) rfl (by simp [IpHdr.calcCsum, IpHdr.addTotLen, Proto.gre])
      (by simp [IpHdr.calcCsum, IpHdr.addTotLen, be16, be32]; omega) (by simp [be16, be32]; omega)]
    simp only [be16, be32, List.cons_append, List.nil_append, rd16, rd32, b8_toNat, e16 _ hf, e16 _ hp]
    have e32 : ((s / 16777216 % 256 * 256 + s / 65536 % 256) * 256 + s / 256 % 256) * 256 + s % 256
        = s % 4294967296 := by omega
    simp [IpHdr.calcCsum, IpHdr.addTotLen, Proto.gre, greC, greR, greK, greS, hcrk, hS, e32]

/-! ## VXLAN -/

theorem decapVxlan_encap (f : VxlanFlow) (b : Bytes) (hcp : f.cl.port < 65536)
    (hsp : f.sv.port < 65536) (hv : f.vni < 16777216) (hfit : 36 + b.length ≤ 65535) :
    decapVxlan (stripEth f.raw (f.encap b)) = some
      { srcPort := f.cl.port, dstPort := f.sv.port, vni := f.vni, inner := b } := by
  have hstrip : stripEth f.raw (f.encap b) = ({ f with raw := true } : VxlanFlow).encap b := by
    cases hraw : f.raw
    · have := ethHdr_length (macOfIp f.sv.ip) (macOfIp f.cl.ip) 0x0800 (by simp) (by simp)
      simp [stripEth, VxlanFlow.encap, UdpDgram.frame, UdpDgram.push, UdpDgram.dst, UdpDgram.src,
        UdpDgram.new, UdpDgram.dgram, hraw, List.append_assoc, this]
    · simp [stripEth, VxlanFlow.encap, hraw]
  rw [hstrip]
  simp only [VxlanFlow.encap, UdpDgram.frame, UdpDgram.push, UdpDgram.dst, UdpDgram.src,
    UdpDgram.new, UdpDgram.dgram, if_true, List.nil_append]
  unfold decapVxlan
  rw [ip4Payload_serialize _ _ rfl (by simp [IpHdr.calcCsum, IpHdr.addTotLen, Proto.udp])
    (by simp [IpHdr.calcCsum, IpHdr.addTotLen, UdpHdr.serialize, vxlanHdr, be16, be32]; omega)
    (by simp [UdpHdr.serialize, vxlanHdr, be16, be32]; omega)]
  have e16 : ∀ x, x < 65536 → x / 256 % 256 * 256 + x % 256 = x := by intro x hx; omega
  simp only [UdpHdr.serialize, vxlanHdr, be16, be32, List.cons_append, List.nil_append, rd16, rd24,
    b8_toNat, e16 _ hcp, e16 _ hsp]
  simp [IpHdr.calcCsum, IpHdr.addTotLen, Proto.udp]
  refine ⟨⟨by omega, ?_⟩, by omega⟩
  apply UInt8.toNat_inj.1
  rw [b8_toNat]; simp

/-! ## ERSPAN -/

theorem decapGre_erspan1 (f : Erspan1Flow) (b : Bytes) (hfit : 24 + b.length ≤ 65535) :
    decapGre (stripEth f.raw (f.encap b)) = some
      { flags := 0, proto := 0x88be, seq := none, inner := b } := by
  rw [Erspan1Flow.encap_eq f b 0,
    decapGre_grePkt _ _ 0 0x88be _ _ _ (by decide) (by decide) (by decide) (by simpa using hfit)]
  rfl

theorem decapErspan1_encap (f : Erspan1Flow) (b : Bytes) (hfit : 24 + b.length ≤ 65535) :
    decapErspan1 (stripEth f.raw (f.encap b)) = some b := by
  simp [decapErspan1, decapGre_erspan1 f b hfit, ethertypeErspan]

theorem erspan2_flagsWord (sess : Nat) (hs : sess < 1024) :
    (sess &&& 0x3ff) ||| (3 <<< 11) ||| (1 <<< 28) = 268435456 + 6144 + sess := by
  have h1 : sess &&& 0x3ff = sess := by
    show sess &&& 2 ^ 10 - 1 = sess
    rw [Nat.and_two_pow_sub_one_eq_mod]; omega
  rw [h1, Nat.or_comm sess, ← Nat.shiftLeft_add_eq_or_of_lt (by omega), Nat.or_comm,
    ← Nat.shiftLeft_add_eq_or_of_lt (by simp [Nat.shiftLeft_eq]; omega)]
  simp [Nat.shiftLeft_eq]; omega

theorem decapGre_erspan2 (f : Erspan2Flow) (b : Bytes) (portIndex : Nat)
    (hfit : 36 + b.length ≤ 65535) :
    decapGre (stripEth f.raw (f.encap b portIndex).2) = some
      { flags := 0x1000, proto := 0x88be, seq := some (f.seq % 4294967296)
        inner := erspan2Hdr f.sessionId portIndex ++ b } := by
  rw [Erspan2Flow.encap_eq,
    decapGre_grePkt _ _ 0x1000 0x88be _ _ _ (by decide) (by decide) (by decide)
      (by simp [erspan2Hdr, be32]; omega)]
  rfl

theorem decapErspan2_encap (f : Erspan2Flow) (b : Bytes) (portIndex : Nat)
    (hs : f.sessionId < 1024) (hpi : portIndex < 1048576) (hfit : 36 + b.length ≤ 65535) :
    decapErspan2 (stripEth f.raw (f.encap b portIndex).2) = some
      { seq := f.seq % 4294967296, ver := 1, vlan := 0, cos := 0, en := 3, t := 0
        sessionId := f.sessionId, portIndex := portIndex, inner := b } := by
  have hidx : portIndex &&& 0xfffff = portIndex := by
    show portIndex &&& 2 ^ 20 - 1 = portIndex
    rw [Nat.and_two_pow_sub_one_eq_mod]; omega
  have e32 : ∀ x, x < 4294967296 →
      ((x / 16777216 % 256 * 256 + x / 65536 % 256) * 256 + x / 256 % 256) * 256 + x % 256 = x := by
    intro x hx; omega
  unfold decapErspan2
  rw [decapGre_erspan2 f b portIndex hfit]
  simp only [erspan2Hdr, erspan2_flagsWord _ hs, hidx, be32, List.cons_append, List.nil_append]
  simp only [rd32, b8_toNat, ethertypeErspan]
  rw [e32 _ (by omega), e32 _ (by omega)]
  have : portIndex / 2 ^ 20 = 0 := by omega
  simp [this]
  omega

/-! ## Session operations: stdlib `session.encap(gen)`

Each `encap(gen)` method loops over the packets of `gen` calling the flow's `encap`, which threads
the flow state (`GreFlow` and `Erspan2Flow` carry a sequence counter; `VxlanFlow` and
`Erspan1Flow` are stateless).  A session *history* is a list of such calls. -/

def VxlanFlow.encapAll (f : VxlanFlow) (inners : List Bytes) : List Bytes := inners.map f.encap

def Erspan1Flow.encapAll (f : Erspan1Flow) (inners : List Bytes) : List Bytes := inners.map f.encap

def GreFlow.encapAll (f : GreFlow) : List Bytes → GreFlow × List Bytes
  | [] => (f, [])
  | b :: bs =>
    let r := f.encap b
    let rs := GreFlow.encapAll r.1 bs
    (rs.1, r.2 :: rs.2)

/-- `encap(gen, port_index: i)` -/
def Erspan2Flow.encapAll (f : Erspan2Flow) (portIndex : Nat) : List Bytes → Erspan2Flow × List Bytes
  | [] => (f, [])
  | b :: bs =>
    let r := f.encap b portIndex
    let rs := Erspan2Flow.encapAll r.1 portIndex bs
    (rs.1, r.2 :: rs.2)

/-- several `encap(gen)` calls on one session; all emitted packets in order -/
def GreFlow.history (f : GreFlow) : List (List Bytes) → GreFlow × List Bytes
  | [] => (f, [])
  | c :: cs =>
    let r := f.encapAll c
    let rs := GreFlow.history r.1 cs
    (rs.1, r.2 ++ rs.2)

/-- several `encap(gen, port_index:)` calls, each with its own port index -/
def Erspan2Flow.history (f : Erspan2Flow) : List (Nat × List Bytes) → Erspan2Flow × List Bytes
  | [] => (f, [])
  | c :: cs =>
    let r := f.encapAll c.1 c.2
    let rs := Erspan2Flow.history r.1 cs
    (rs.1, r.2 ++ rs.2)

/-- the inner frames of a history, in order, each with the port index of its call -/
def erspan2Inners (calls : List (Nat × List Bytes)) : List (Nat × Bytes) :=
  calls.flatMap fun c => c.2.map fun b => (c.1, b)

/-- helper: per-packet port index -/
def Erspan2Flow.encapSeq (f : Erspan2Flow) : List (Nat × Bytes) → Erspan2Flow × List Bytes
  | [] => (f, [])
  | b :: bs =>
    let r := f.encap b.2 b.1
    let rs := Erspan2Flow.encapSeq r.1 bs
    (rs.1, r.2 :: rs.2)

theorem GreFlow.encapAll_append (f : GreFlow) (xs ys : List Bytes) :
    f.encapAll (xs ++ ys) =
      ((GreFlow.encapAll (f.encapAll xs).1 ys).1, (f.encapAll xs).2 ++ (GreFlow.encapAll (f.encapAll xs).1 ys).2) := by
  induction xs generalizing f with
  | nil => rfl
  | cons x xs ih => simp [GreFlow.encapAll, ih]

theorem GreFlow.history_eq (f : GreFlow) (calls : List (List Bytes)) :
    f.history calls = f.encapAll calls.flatten := by
  induction calls generalizing f with
  | nil => rfl
  | cons c cs ih => simp [GreFlow.history, GreFlow.encapAll_append, ih]

theorem Erspan2Flow.encapSeq_append (f : Erspan2Flow) (xs ys : List (Nat × Bytes)) :
    f.encapSeq (xs ++ ys) =
      ((Erspan2Flow.encapSeq (f.encapSeq xs).1 ys).1, (f.encapSeq xs).2 ++ (Erspan2Flow.encapSeq (f.encapSeq xs).1 ys).2) := by
  induction xs generalizing f with
  | nil => rfl
  | cons x xs ih => simp [Erspan2Flow.encapSeq, ih]

theorem Erspan2Flow.encapAll_eq (f : Erspan2Flow) (portIndex : Nat) (bs : List Bytes) :
    f.encapAll portIndex bs = f.encapSeq (bs.map fun b => (portIndex, b)) := by
  induction bs generalizing f with
  | nil => rfl
  | cons b bs ih => simp [Erspan2Flow.encapAll, Erspan2Flow.encapSeq, ih]

theorem Erspan2Flow.history_eq (f : Erspan2Flow) (calls : List (Nat × List Bytes)) :
    f.history calls = f.encapSeq (erspan2Inners calls) := by
  induction calls generalizing f with
  | nil => rfl
  | cons c cs ih =>
    simp [Erspan2Flow.history, erspan2Inners, Erspan2Flow.encapSeq_append, Erspan2Flow.encapAll_eq, ih]

theorem GreFlow.encapAll_length (f : GreFlow) (bs : List Bytes) :
    (f.encapAll bs).2.length = bs.length := by
  induction bs generalizing f with
  | nil => rfl
  | cons b bs ih => simp [GreFlow.encapAll, ih]

theorem GreFlow.encapAll_seq (f : GreFlow) (bs : List Bytes) :
    (f.encapAll bs).1.seq % 4294967296 = (f.seq + bs.length) % 4294967296 := by
  induction bs generalizing f with
  | nil => rfl
  | cons b bs ih =>
    show ((f.encap b).1.encapAll bs).1.seq % 4294967296 = _
    rw [ih]; simp only [GreFlow.encap, List.length_cons]; omega

theorem Erspan2Flow.encapSeq_length (f : Erspan2Flow) (bs : List (Nat × Bytes)) :
    (f.encapSeq bs).2.length = bs.length := by
  induction bs generalizing f with
  | nil => rfl
  | cons b bs ih => simp [Erspan2Flow.encapSeq, ih]

/-- the `i`-th packet of a GRE session call is built with the counter advanced `i` times -/
theorem GreFlow.encapAll_getElem (f : GreFlow) (bs : List Bytes) (i : Nat) (hi : i < bs.length) :
    ∃ s, s % 4294967296 = (f.seq + i) % 4294967296 ∧
      (f.encapAll bs).2[i]? = some (grePkt f.cl f.sv f.flags f.ethertype f.raw s bs[i]) := by
  induction bs generalizing f i with
  | nil => cases hi
  | cons b bs ih =>
    cases i with
    | zero => exact ⟨f.seq, rfl, by simp [GreFlow.encapAll, GreFlow.encap_eq]⟩
    | succ i =>
      obtain ⟨s, h1, h2⟩ := ih (f.encap b).1 i (by simpa using hi)
      refine ⟨s, ?_, ?_⟩
      · rw [h1]; simp only [GreFlow.encap_eq]; omega
      · simpa [GreFlow.encapAll, GreFlow.encap_eq] using h2

theorem Erspan2Flow.encapSeq_getElem (f : Erspan2Flow) (bs : List (Nat × Bytes)) (i : Nat)
    (hi : i < bs.length) :
    ∃ s, s % 4294967296 = (f.seq + i) % 4294967296 ∧
      (f.encapSeq bs).2[i]? = some (grePkt f.cl f.sv 0x1000 0x88be f.raw s
        (erspan2Hdr f.sessionId bs[i].1 ++ bs[i].2)) := by
  induction bs generalizing f i with
  | nil => cases hi
  | cons b bs ih =>
    cases i with
    | zero => exact ⟨f.seq, rfl, by simp [Erspan2Flow.encapSeq, Erspan2Flow.encap_eq]⟩
    | succ i =>
      obtain ⟨s, h1, h2⟩ := ih (f.encap b.2 b.1).1 i (by simpa using hi)
      refine ⟨s, ?_, ?_⟩
      · rw [h1]; simp only [Erspan2Flow.encap_eq]; omega
      · simpa [Erspan2Flow.encapSeq, Erspan2Flow.encap_eq] using h2

theorem map_eq_of_getElem {α β γ : Type} (outs : List α) (ins : List β) (g : α → Option γ)
    (k : β → γ) (hl : outs.length = ins.length)
    (h : ∀ i (hi : i < ins.length), outs[i]?.bind g = some (k ins[i])) :
    outs.map g = ins.map fun b => some (k b) := by
  apply List.ext_getElem
  · simp [hl]
  · intro i h1 h2
    have hi : i < ins.length := by simpa using h2
    have ho : i < outs.length := by simpa using h1
    have := h i hi
    rw [List.getElem?_eq_getElem ho] at this
    simpa using this

/-- `GreFlow.encapAll`, decoded: one outer per inner, in order, with the session's flags and
protocol type, and (iff the S bit is set) the running counter -/
theorem GreFlow.decap_encapAll (f : GreFlow) (inners : List Bytes)
    (hf : f.flags < 65536) (hcrk : f.flags &&& 0xe000 = 0) (hp : f.ethertype < 65536)
    (hfit : ∀ b ∈ inners, 24 + (if f.flags &&& 0x1000 ≠ 0 then 4 else 0) + b.length ≤ 65535)
    (i : Nat) (hi : i < inners.length) :
    (f.encapAll inners).2[i]?.bind (fun p => decapGre (stripEth f.raw p)) = some
      { flags := f.flags, proto := f.ethertype
        seq := if f.flags &&& 0x1000 ≠ 0 then some ((f.seq + i) % 4294967296) else none
        inner := inners[i] } := by
  obtain ⟨s, h1, h2⟩ := f.encapAll_getElem inners i hi
  rw [h2, Option.bind_some,
    decapGre_grePkt _ _ _ _ _ _ _ hf hcrk hp (hfit _ (List.getElem_mem hi)), h1]

theorem Erspan2Flow.decap_encapSeq (f : Erspan2Flow) (inners : List (Nat × Bytes))
    (hs : f.sessionId < 1024)
    (hfit : ∀ b ∈ inners, b.1 < 1048576 ∧ 36 + b.2.length ≤ 65535)
    (i : Nat) (hi : i < inners.length) :
    (f.encapSeq inners).2[i]?.bind (fun p => decapErspan2 (stripEth f.raw p)) = some
      { seq := (f.seq + i) % 4294967296, ver := 1, vlan := 0, cos := 0, en := 3, t := 0
        sessionId := f.sessionId, portIndex := inners[i].1, inner := inners[i].2 } := by
  obtain ⟨s, h1, h2⟩ := f.encapSeq_getElem inners i hi
  obtain ⟨hpi, hlen⟩ := hfit _ (List.getElem_mem hi)
  have := decapErspan2_encap { f with seq := s } inners[i].2 inners[i].1 hs hpi hlen
  rw [Erspan2Flow.encap_eq] at this
  rw [h2, Option.bind_some]
  simpa [h1] using this

/-! ## Nesting -/

/-- one level of encapsulation: a session (in some state) of one of the four kinds -/
inductive Layer
  | vxlan (f : VxlanFlow)
  | gre (f : GreFlow)
  | erspan1 (f : Erspan1Flow)
  | erspan2 (f : Erspan2Flow) (portIndex : Nat)

namespace Layer

def encap : Layer → Bytes → Bytes
  | .vxlan f, b => f.encap b
  | .gre f, b => (f.encap b).2
  | .erspan1 f, b => f.encap b
  | .erspan2 f i, b => (f.encap b i).2

def raw : Layer → Bool
  | .vxlan f => f.raw
  | .gre f => f.raw
  | .erspan1 f => f.raw
  | .erspan2 f _ => f.raw

/-- decapsulate with the reference decoder of the layer's kind -/
def decap : Layer → Bytes → Option Bytes
  | .vxlan f, p => (decapVxlan (stripEth f.raw p)).map (·.inner)
  | .gre f, p => (decapGre (stripEth f.raw p)).map (·.inner)
  | .erspan1 f, p => decapErspan1 (stripEth f.raw p)
  | .erspan2 f _, p => (decapErspan2 (stripEth f.raw p)).map (·.inner)

/-- session parameters within the widths of the Rust types / wire fields; for GRE the C, R, K
flag bits are clear (the builder never emits those optional fields) -/
def Ok : Layer → Prop
  | .vxlan f => f.cl.port < 65536 ∧ f.sv.port < 65536 ∧ f.vni < 16777216
  | .gre f => f.flags < 65536 ∧ f.flags &&& 0xe000 = 0 ∧ f.ethertype < 65536
  | .erspan1 _ => True
  | .erspan2 f i => f.sessionId < 1024 ∧ i < 1048576

instance (l : Layer) : Decidable l.Ok := by
  cases l <;> unfold Ok <;> infer_instance

/-- bytes the outer IP datagram adds to the inner frame -/
def overhead : Layer → Nat
  | .vxlan _ => 36
  | .gre f => 24 + (if f.flags &&& 0x1000 ≠ 0 then 4 else 0)
  | .erspan1 _ => 24
  | .erspan2 _ _ => 36

/-- length of the emitted packet for an inner frame of `n` bytes -/
def outLen (l : Layer) (n : Nat) : Nat := (if l.raw then 0 else 14) + l.overhead + n

end Layer

/-- apply the layers innermost first -/
def wrap : List Layer → Bytes → Bytes
  | [], b => b
  | l :: ls, b => wrap ls (l.encap b)

/-- undo them outermost first, with the `Spec` decoders -/
def unwrap : List Layer → Bytes → Option Bytes
  | [], p => some p
  | l :: ls, p => (unwrap ls p).bind l.decap

/-- every layer has in-range parameters and every outer datagram fits in 65535 bytes -/
def Fits : List Layer → Nat → Prop
  | [], _ => True
  | l :: ls, n => l.Ok ∧ l.overhead + n ≤ 65535 ∧ Fits ls (l.outLen n)

instance Fits.dec : (ls : List Layer) → (n : Nat) → Decidable (Fits ls n)
  | [], _ => isTrue trivial
  | l :: ls, n =>
    have := Fits.dec ls (l.outLen n)
    inferInstanceAs (Decidable (l.Ok ∧ l.overhead + n ≤ 65535 ∧ Fits ls (l.outLen n)))

theorem IpHdr.serialize_length (h : IpHdr) : h.serialize.length = 20 := by
  simp [IpHdr.serialize, be16, be32]

theorem grePkt_length (src dst flags proto : Nat) (raw : Bool) (s : Nat) (body : Bytes) :
    (grePkt src dst flags proto raw s body).length =
      (if raw then 0 else 14) + (24 + (if flags &&& 0x1000 ≠ 0 then 4 else 0)) + body.length := by
  have := ethHdr_length (macOfIp dst) (macOfIp src) 0x0800 (by simp) (by simp)
  by_cases hS : flags &&& 0x1000 = 0 <;> cases raw <;>
    simp [grePkt, GreFrame.frame, GreFrame.push, GreFrame.seq, GreFrame.new, hS,
      IpHdr.serialize_length, be16, be32, this] <;> omega

theorem Layer.encap_length (l : Layer) (b : Bytes) : (l.encap b).length = l.outLen b.length := by
  cases l with
  | vxlan f =>
    have := ethHdr_length (macOfIp f.sv.ip) (macOfIp f.cl.ip) 0x0800 (by simp) (by simp)
    cases hr : f.raw <;>
      simp [Layer.encap, Layer.outLen, Layer.raw, Layer.overhead, VxlanFlow.encap, UdpDgram.frame,
        UdpDgram.push, UdpDgram.dst, UdpDgram.src, UdpDgram.new, UdpDgram.dgram, hr,
        IpHdr.serialize_length, UdpHdr.serialize, vxlanHdr, be16, be32, this] <;> omega
  | gre f =>
    cases hr : f.raw <;>
      simp [Layer.encap, GreFlow.encap_eq, grePkt_length, Layer.outLen, Layer.raw, Layer.overhead, hr]
  | erspan1 f =>
    cases hr : f.raw <;>
      simp [Layer.encap, Erspan1Flow.encap_eq f b 0, grePkt_length, Layer.outLen, Layer.raw,
        Layer.overhead, hr]
  | erspan2 f i =>
    cases hr : f.raw <;>
      simp [Layer.encap, Erspan2Flow.encap_eq, grePkt_length, Layer.outLen, Layer.raw,
        Layer.overhead, hr, erspan2Hdr, be32] <;> omega

theorem Layer.decap_encap (l : Layer) (b : Bytes) (hok : l.Ok) (hfit : l.overhead + b.length ≤ 65535) :
    l.decap (l.encap b) = some b := by
  cases l with
  | vxlan f =>
    obtain ⟨h1, h2, h3⟩ := hok
    simp [Layer.decap, Layer.encap, decapVxlan_encap f b h1 h2 h3 hfit]
  | gre f =>
    obtain ⟨h1, h2, h3⟩ := hok
    simp [Layer.decap, Layer.encap, GreFlow.encap_eq, decapGre_grePkt _ _ _ _ _ _ _ h1 h2 h3 hfit]
  | erspan1 f =>
    simp [Layer.decap, Layer.encap, decapErspan1_encap f b hfit]
  | erspan2 f i =>
    obtain ⟨h1, h2⟩ := hok
    simp [Layer.decap, Layer.encap, decapErspan2_encap f b i h1 h2 hfit]

theorem unwrap_wrap (ls : List Layer) (inner : Bytes) (hfit : Fits ls inner.length) :
    unwrap ls (wrap ls inner) = some inner := by
  induction ls generalizing inner with
  | nil => rfl
  | cons l ls ih =>
    obtain ⟨hok, h1, h2⟩ := hfit
    rw [wrap, unwrap, ih (l.encap inner) (by rw [Layer.encap_length]; exact h2)]
    exact Layer.decap_encap l inner hok h1

/-! ## Nesting whole packet lists (sessions keep their state between packets) -/

/-- one `encap` call on the layer's session: new session state and the outer packet -/
def Layer.step : Layer → Bytes → Layer × Bytes
  | .vxlan f, b => (.vxlan f, f.encap b)
  | .gre f, b => (.gre (f.encap b).1, (f.encap b).2)
  | .erspan1 f, b => (.erspan1 f, f.encap b)
  | .erspan2 f i, b => (.erspan2 (f.encap b i).1 i, (f.encap b i).2)

/-- `session.encap(gen)` for a layer of any kind -/
def Layer.encapAll (l : Layer) : List Bytes → Layer × List Bytes
  | [] => (l, [])
  | b :: bs =>
    let r := l.step b
    let rs := Layer.encapAll r.1 bs
    (rs.1, r.2 :: rs.2)

/-- `outer.encap(… (innermost.encap(gen)))`, innermost session first -/
def wrapAll : List Layer → List Bytes → List Bytes
  | [], bs => bs
  | l :: ls, bs => wrapAll ls (l.encapAll bs).2

/-- every layer's parameters in range, and at every level every outer datagram fits 65535 bytes -/
def FitsAll : List Layer → List Bytes → Prop
  | [], _ => True
  | l :: ls, bs => l.Ok ∧ (∀ b ∈ bs, l.overhead + b.length ≤ 65535) ∧ FitsAll ls (l.encapAll bs).2

instance FitsAll.dec : (ls : List Layer) → (bs : List Bytes) → Decidable (FitsAll ls bs)
  | [], _ => isTrue trivial
  | l :: ls, bs =>
    have := FitsAll.dec ls (l.encapAll bs).2
    inferInstanceAs (Decidable (l.Ok ∧ (∀ b ∈ bs, l.overhead + b.length ≤ 65535) ∧
      FitsAll ls (l.encapAll bs).2))

theorem Layer.step_snd (l : Layer) (b : Bytes) : (l.step b).2 = l.encap b := by
  cases l <;> rfl

theorem Layer.step_decap (l : Layer) (b : Bytes) : (l.step b).1.decap = l.decap := by
  cases l <;> rfl

theorem Layer.step_ok (l : Layer) (b : Bytes) (h : l.Ok) : (l.step b).1.Ok := by
  cases l <;> exact h

theorem Layer.step_overhead (l : Layer) (b : Bytes) : (l.step b).1.overhead = l.overhead := by
  cases l <;> rfl

theorem Layer.encapAll_length (l : Layer) (bs : List Bytes) : (l.encapAll bs).2.length = bs.length := by
  induction bs generalizing l with
  | nil => rfl
  | cons b bs ih => simp [Layer.encapAll, ih]

theorem Layer.decap_encapAll (l : Layer) (bs : List Bytes) (hok : l.Ok)
    (hfit : ∀ b ∈ bs, l.overhead + b.length ≤ 65535) :
    (l.encapAll bs).2.map l.decap = bs.map some := by
  induction bs generalizing l with
  | nil => rfl
  | cons b bs ih =>
    have h1 := ih (l.step b).1 (l.step_ok b hok)
      (by intro b' hb'; rw [Layer.step_overhead]; exact hfit b' (by simp [hb']))
    rw [Layer.step_decap] at h1
    simp only [Layer.encapAll, List.map_cons, h1, Layer.step_snd,
      Layer.decap_encap l b hok (hfit b (by simp))]

/-- `Layer.encapAll` is the per-kind `encapAll` -/
theorem Layer.encapAll_vxlan (f : VxlanFlow) (bs : List Bytes) :
    (Layer.vxlan f).encapAll bs = (.vxlan f, f.encapAll bs) := by
  induction bs with
  | nil => rfl
  | cons b bs ih => simp [Layer.encapAll, Layer.step, ih, VxlanFlow.encapAll]

theorem Layer.encapAll_erspan1 (f : Erspan1Flow) (bs : List Bytes) :
    (Layer.erspan1 f).encapAll bs = (.erspan1 f, f.encapAll bs) := by
  induction bs with
  | nil => rfl
  | cons b bs ih => simp [Layer.encapAll, Layer.step, ih, Erspan1Flow.encapAll]

theorem Layer.encapAll_gre (f : GreFlow) (bs : List Bytes) :
    (Layer.gre f).encapAll bs = (.gre (f.encapAll bs).1, (f.encapAll bs).2) := by
  induction bs generalizing f with
  | nil => rfl
  | cons b bs ih => simp [Layer.encapAll, Layer.step, ih, GreFlow.encapAll]

theorem Layer.encapAll_erspan2 (f : Erspan2Flow) (i : Nat) (bs : List Bytes) :
    (Layer.erspan2 f i).encapAll bs = (.erspan2 (f.encapAll i bs).1 i, (f.encapAll i bs).2) := by
  induction bs generalizing f with
  | nil => rfl
  | cons b bs ih => simp [Layer.encapAll, Layer.step, ih, Erspan2Flow.encapAll]

theorem wrapAll_length (ls : List Layer) (bs : List Bytes) : (wrapAll ls bs).length = bs.length := by
  induction ls generalizing bs with
  | nil => rfl
  | cons l ls ih => simp [wrapAll, ih, Layer.encapAll_length]

theorem unwrap_wrapAll (ls : List Layer) (bs : List Bytes) (hfit : FitsAll ls bs) :
    (wrapAll ls bs).map (unwrap ls) = bs.map some := by
  induction ls generalizing bs with
  | nil => simp [wrapAll, unwrap]
  | cons l ls ih =>
    obtain ⟨hok, h1, h2⟩ := hfit
    have e : (wrapAll (l :: ls) bs).map (unwrap (l :: ls)) =
        ((wrapAll ls (l.encapAll bs).2).map (unwrap ls)).map (·.bind l.decap) := by
      simp [wrapAll, unwrap, List.map_map, Function.comp_def]
    rw [e, ih _ h2, List.map_map]
    simpa [Function.comp_def] using Layer.decap_encapAll l bs hok h1

end Resynth
