import Resynth.Lemmas.InterpInvFrame
import Resynth.Lemmas.IoLemmas
import Resynth.Lemmas.PcapLemmas
/-!
# Lemmas: the output effect of one statement

`addStmt_*_ok`: what a successful `addStmt` does to `now`, `emitted`, `wr` (and `regs`).
-/
namespace Resynth

/-- the frames an expression statement with value `v` emits (`add_expr`) -/
def framesOf : Val → List Bytes
  | .pkt p => [p.frame]
  | .pktgen ps => ps.map (·.frame)
  | _ => []

/-- the amount by which an expression statement with value `v` advances the clock -/
def gapOf : Val → Nat
  | .pkt p => p.bitTime
  | .pktgen ps => (ps.map (·.bitTime)).sum
  | .timejump ns => ns
  | _ => 0

/-- hand the records of `fs`, all stamped `t`, to the writer (results ignored) -/
def writeFrames (w : BufW) (t : Nat) : List Bytes → BufW
  | [] => w
  | f :: fs => writeFrames (w.writeAll (Pcap.record t f)).1 t fs

theorem updateTime_ok {st st' : PState} {ns : Nat} (h : updateTime st ns = .ok st') :
    st' = { st with now := st.now + ns } ∧ st.now + ns < u64Max := by
  unfold updateTime at h
  split at h
  · cases h; exact ⟨rfl, by assumption⟩
  · cases h

theorem foldl_updateTime_ok (ps : List Packet) : ∀ {st st' : PState},
    ps.foldlM (fun st p => updateTime st p.bitTime) st = .ok st' →
    st' = { st with now := st.now + (ps.map (·.bitTime)).sum } := by
  induction ps with
  | nil => intro st st' h; simp only [List.foldlM_nil, Res.pure_eq_ok] at h; cases h; rfl
  | cons p ps ih =>
    intro st st' h
    simp only [List.foldlM_cons] at h
    cases h1 : updateTime st p.bitTime with
    | err e l => simp [h1] at h
    | panic s => simp [h1] at h
    | ok s1 =>
      simp only [h1, Res.bind_ok_eq] at h
      rw [ih h, (updateTime_ok h1).1]
      simp [Nat.add_assoc]

theorem writeRecord_ok {st st' : PState} {p : Packet} (h : writeRecord st p = .ok st') :
    st' = { st with wr := (st.wr.writeAll (Pcap.record st.now p.frame)).1,
                    emitted := st.emitted ++ [(st.now, p.frame)] } ∧
    (st.wr.writeAll (Pcap.record st.now p.frame)).2 = true := by
  unfold writeRecord at h
  split at h
  · cases h
  · rename_i bytes p' hw
    have hb := (writePacket_ok_bytes _ _ _ _ hw).1
    subst hb
    simp only at h
    split at h
    · rename_i hok; cases h; exact ⟨rfl, hok⟩
    · cases h

theorem writeRecords_ok (ps : List Packet) : ∀ {st st' : PState}, writeRecords st ps = .ok st' →
    st' = { st with wr := writeFrames st.wr st.now (ps.map (·.frame)),
                    emitted := st.emitted ++ ps.map (fun p => (st.now, p.frame)) } := by
  induction ps with
  | nil => intro st st' h; simp only [writeRecords] at h; cases h; simp [writeFrames]
  | cons p ps ih =>
    intro st st' h
    simp only [writeRecords] at h
    cases h1 : writeRecord st p with
    | err e l => simp [h1] at h
    | panic s => simp [h1] at h
    | ok s1 =>
      simp only [h1, Res.bind_ok_eq] at h
      rw [ih h, (writeRecord_ok h1).1]
      simp [writeFrames]

theorem addStmt_imp_ok {env : Env} {st st' : PState} {loc : Loc} {m : String}
    (h : addStmt env st (.imp loc m) = .ok st') :
    st'.now = st.now ∧ st'.emitted = st.emitted ∧ st'.wr = st.wr ∧ st'.regs = st.regs ∧
      st'.heap = st.heap ∧ st'.warnings = st.warnings := by
  simp only [addStmt] at h
  split at h
  · cases h; simp
  · split at h
    · cases h; simp
    · cases h
    · cases h

theorem addStmt_assign_ok {env : Env} {st st' : PState} {loc : Loc} {t : String} {e : Expr}
    (h : addStmt env st (.assign loc t e) = .ok st') :
    ∃ v st1, eval env { st with loc := loc } e = .ok (v, st1) ∧
      st' = { st1 with regs := st1.regs ++ [(t, v)] } ∧ lookupReg st.regs t = none := by
  simp only [addStmt] at h
  split at h
  · cases h
  · rename_i hnone
    cases h1 : eval env { st with loc := loc } e with
    | err e l => simp [h1] at h
    | panic s => simp [h1] at h
    | ok r =>
      simp only [h1, Res.bind_ok_eq, Res.pure_eq_ok] at h
      cases h
      refine ⟨r.1, r.2, rfl, rfl, ?_⟩
      simpa using hnone

theorem addStmt_expr_ok {env : Env} {st st' : PState} {e : Expr}
    (h : addStmt env st (.expr e) = .ok st') :
    ∃ v st1, eval env st e = .ok (v, st1) ∧
      st'.now = st.now + gapOf v ∧
      st'.emitted = st.emitted ++ (framesOf v).map (fun f => (st.now + gapOf v, f)) ∧
      st'.wr = writeFrames st.wr (st.now + gapOf v) (framesOf v) ∧
      st'.regs = st.regs ∧ st'.imports = st.imports ∧ st'.heap = st1.heap := by
  simp only [addStmt] at h
  cases h1 : eval env st e with
  | err e l => simp [h1] at h
  | panic s => simp [h1] at h
  | ok r =>
    obtain ⟨v, st1⟩ := r
    simp only [h1, Res.bind_ok_eq] at h
    obtain ⟨e1, e2, e3, e4, e5, e6⟩ := eval_onlyLH env e st _ h1
    simp only at e1 e2 e3 e4 e5 e6
    refine ⟨v, st1, rfl, ?_⟩
    split at h
    · -- nil
      simp only [Res.pure_eq_ok] at h; cases h
      simp [gapOf, framesOf, writeFrames, e1, e2, e3, e4, e6]
    · -- pkt
      rename_i p
      cases h2 : updateTime st1 p.bitTime with
      | err e l => simp [h2] at h
      | panic s => simp [h2] at h
      | ok s2 =>
        simp only [h2, Res.bind_ok_eq] at h
        obtain ⟨hs2, hlt⟩ := updateTime_ok h2
        obtain ⟨hs3, _⟩ := writeRecord_ok h
        subst hs2
        subst hs3
        simp [gapOf, framesOf, writeFrames, e1, e2, e3, e4, e6]
    · -- pktgen
      rename_i ps
      cases h2 : ps.foldlM (fun st p => updateTime st p.bitTime) st1 with
      | err e l => simp [h2] at h
      | panic s => simp [h2] at h
      | ok s2 =>
        simp only [h2, Res.bind_ok_eq] at h
        have hs2 := foldl_updateTime_ok ps h2
        have hs3 := writeRecords_ok ps h
        subst hs2
        subst hs3
        simp [gapOf, framesOf, e1, e2, e3, e4, e6, Function.comp_def]
    · -- timejump
      rename_i ns
      obtain ⟨hs2, hlt⟩ := updateTime_ok h
      subst hs2
      simp [gapOf, framesOf, writeFrames, e1, e2, e3, e4, e6]
    · -- anything else: warning
      rename_i hn hp hg hj
      simp only [Res.pure_eq_ok] at h; cases h
      cases v <;> first | (exact absurd rfl (hn)) | (exact (hp _ rfl).elim) | (exact (hg _ rfl).elim) | (exact (hj _ rfl).elim) | simp [gapOf, framesOf, writeFrames, e1, e2, e3, e4, e6]

/-- the output effect of any successful statement: the clock advances by some `g`, then the
frames `fs` are written and recorded, all stamped with the new time -/
theorem addStmt_effect {env : Env} {st st' : PState} {s : Stmt} (h : addStmt env st s = .ok st') :
    ∃ g fs, st'.now = st.now + g ∧ st'.emitted = st.emitted ++ fs.map (fun f => (st.now + g, f)) ∧
      st'.wr = writeFrames st.wr (st.now + g) fs := by
  cases s with
  | imp loc m =>
    obtain ⟨h1, h2, h3, _⟩ := addStmt_imp_ok h
    exact ⟨0, [], by simp [h1], by simp [h2], by simp [h3, writeFrames]⟩
  | assign loc t e =>
    obtain ⟨v, st1, h1, h2, _⟩ := addStmt_assign_ok h
    obtain ⟨e1, e2, e3, e4, e5, e6⟩ := eval_onlyLH env e _ _ h1
    simp only at e1 e2 e3 e4 e5 e6
    subst h2
    exact ⟨0, [], by simp [e1], by simp [e6], by simp [e4, writeFrames]⟩
  | expr e =>
    obtain ⟨v, st1, _, h1, h2, h3, _⟩ := addStmt_expr_ok h
    exact ⟨gapOf v, framesOf v, h1, h2, h3⟩

theorem writeFrames_none (t : Nat) (fs : List Bytes) : ∀ (w : BufW), w.budget = none →
    (writeFrames w t fs).budget = none ∧ (writeFrames w t fs).cap = w.cap ∧
    (writeFrames w t fs).content = w.content ++ recsBytes (fs.map (fun f => (t, f))) := by
  induction fs with
  | nil => intro w h; simp [writeFrames, h, recsBytes]
  | cons f fs ih =>
    intro w h
    obtain ⟨_, h2, h3, h4⟩ := BufW.writeAll_none w (Pcap.record t f) h
    obtain ⟨i1, i2, i3⟩ := ih _ h2
    simp only [writeFrames, List.map_cons, recsBytes_cons]
    exact ⟨i1, i2.trans h3, by rw [i3, h4, List.append_assoc]⟩

/-- on an unlimited device: the writer holds the pcap header followed by the records of
everything emitted so far -/
def OutInv (st : PState) : Prop :=
  st.wr.budget = none ∧ st.wr.content = Pcap.header ++ recsBytes st.emitted

theorem OutInv.addStmt {env : Env} {st st' : PState} {s : Stmt} (hi : OutInv st)
    (h : addStmt env st s = .ok st') : OutInv st' := by
  obtain ⟨g, fs, h1, h2, h3⟩ := addStmt_effect h
  obtain ⟨w1, w2, w3⟩ := writeFrames_none (st.now + g) fs st.wr hi.1
  refine ⟨by rw [h3]; exact w1, ?_⟩
  rw [h3, w3, hi.2, h2, recsBytes_append, List.append_assoc]

theorem addStmts_induct {env : Env} (P : PState → Prop)
    (step : ∀ st st' s, P st → addStmt env st s = .ok st' → P st') :
    ∀ (ss : List Stmt) (st st' : PState), P st → addStmts env st ss = .ok st' → P st' := by
  intro ss
  induction ss with
  | nil => intro st st' hp h; simp only [addStmts] at h; cases h; exact hp
  | cons s ss ih =>
    intro st st' hp h
    simp only [addStmts] at h
    cases h1 : addStmt env st s with
    | err e l => simp [h1] at h
    | panic x => simp [h1] at h
    | ok s1 =>
      simp only [h1, Res.bind_ok_eq] at h
      exact ih s1 st' (step _ _ _ hp h1) h

theorem addStmts_append (env : Env) (a b : List Stmt) : ∀ (st : PState),
    addStmts env st (a ++ b) = addStmts env st a >>= fun s => addStmts env s b := by
  induction a with
  | nil => intro st; simp [addStmts]
  | cons s a ih =>
    intro st
    simp only [List.cons_append, addStmts]
    cases addStmt env st s with
    | err e l => rfl
    | panic x => rfl
    | ok s1 => simp only [Res.bind_ok_eq]; exact ih s1

theorem OutInv.addStmts {env : Env} {st st' : PState} {ss : List Stmt} (hi : OutInv st)
    (h : addStmts env st ss = .ok st') : OutInv st' :=
  addStmts_induct OutInv (fun _ _ _ hp hs => hp.addStmt hs) ss st st' hi h

/-- `emitted` only grows -/
theorem addStmt_emitted_prefix {env : Env} {st st' : PState} {s : Stmt}
    (h : addStmt env st s = .ok st') : st.emitted <+: st'.emitted := by
  obtain ⟨g, fs, _, h2, _⟩ := addStmt_effect h
  rw [h2]; exact List.prefix_append _ _

theorem addStmts_emitted_prefix {env : Env} {st st' : PState} {ss : List Stmt}
    (h : addStmts env st ss = .ok st') : st.emitted <+: st'.emitted :=
  addStmts_induct (fun s => st.emitted <+: s.emitted)
    (fun _ _ _ hp hs => hp.trans (addStmt_emitted_prefix hs)) ss st st' (List.prefix_refl _) h

/-! ## registers: `let` bindings persist -/

theorem lookupReg_append_some {regs ext : List (String × Val)} {x : String} {v : Val}
    (h : lookupReg regs x = some v) : lookupReg (regs ++ ext) x = some v := by
  unfold lookupReg at h ⊢
  rw [List.find?_append]
  cases hf : List.find? (fun e => e.1 == x) regs with
  | none => simp [hf] at h
  | some e => simpa [hf] using h

theorem lookupReg_append_new {regs : List (String × Val)} {x : String} {v : Val}
    (h : lookupReg regs x = none) : lookupReg (regs ++ [(x, v)]) x = some v := by
  unfold lookupReg at h ⊢
  rw [List.find?_append]
  cases hf : List.find? (fun e => e.1 == x) regs with
  | none => simp
  | some e => simp [hf] at h

theorem addStmt_regs {env : Env} {st st' : PState} {s : Stmt} (h : addStmt env st s = .ok st') :
    ∃ ext, st'.regs = st.regs ++ ext := by
  cases s with
  | imp loc m => exact ⟨[], by simp [(addStmt_imp_ok h).2.2.2.1]⟩
  | assign loc t e =>
    obtain ⟨v, st1, h1, h2, _⟩ := addStmt_assign_ok h
    have : st1.regs = st.regs := (eval_onlyLH env e _ _ h1).2.1
    subst h2
    exact ⟨[(t, v)], by simp [this]⟩
  | expr e =>
    obtain ⟨v, st1, _, _, _, _, h1, _⟩ := addStmt_expr_ok h
    exact ⟨[], by simp [h1]⟩

theorem lookupReg_addStmts {env : Env} {st st' : PState} {ss : List Stmt} {x : String} {v : Val}
    (h : addStmts env st ss = .ok st') (hx : lookupReg st.regs x = some v) :
    lookupReg st'.regs x = some v :=
  addStmts_induct (fun s => lookupReg s.regs x = some v)
    (fun _ _ _ hp hs => by
      obtain ⟨ext, he⟩ := addStmt_regs hs
      rw [he]; exact lookupReg_append_some hp) ss st st' hx h

/-- evaluating a bare local variable: no library lookup, no `exec`, heap untouched; the same for
every `env` -/
theorem eval_local_var (env : Env) (st : PState) (loc : Loc) (x : String) (v : Val)
    (h : lookupReg st.regs x = some v) :
    eval env st (.ref ⟨loc, [], [x]⟩) = .ok (v, { st with loc := loc }) := by
  simp [eval, evalObjRef, evalLocalRef, h]

/-! ## the frames of a run, statement by statement -/

/-- the frames statement `s` contributes when run in state `st`: those of the value of an
expression statement, nothing for `let` / `import` -/
def stmtFrames (env : Env) (st : PState) : Stmt → List Bytes
  | .expr e => match eval env st e with
    | .ok (v, _) => framesOf v
    | _ => []
  | _ => []

/-- … and of a statement list, each statement run in the state its predecessors left -/
def runFrames (env : Env) : PState → List Stmt → List Bytes
  | _, [] => []
  | st, s :: ss => stmtFrames env st s ++
    (match addStmt env st s with
     | .ok st' => runFrames env st' ss
     | _ => [])

theorem addStmt_frames {env : Env} {st st' : PState} {s : Stmt} (h : addStmt env st s = .ok st') :
    st'.emitted.map (·.2) = st.emitted.map (·.2) ++ stmtFrames env st s := by
  cases s with
  | imp loc m => simp [stmtFrames, (addStmt_imp_ok h).2.1]
  | assign loc t e =>
    obtain ⟨v, st1, h1, h2, _⟩ := addStmt_assign_ok h
    have : st1.emitted = st.emitted := (eval_onlyLH env e _ _ h1).2.2.2.2.2
    subst h2
    simp [stmtFrames, this]
  | expr e =>
    obtain ⟨v, st1, h1, _, h3, _⟩ := addStmt_expr_ok h
    simp [stmtFrames, h1, h3, Function.comp_def]

theorem addStmts_frames {env : Env} (ss : List Stmt) : ∀ {st st' : PState}, addStmts env st ss = .ok st' →
    st'.emitted.map (·.2) = st.emitted.map (·.2) ++ runFrames env st ss := by
  induction ss with
  | nil => intro st st' h; simp only [addStmts] at h; cases h; simp [runFrames]
  | cons s ss ih =>
    intro st st' h
    simp only [addStmts] at h
    cases h1 : addStmt env st s with
    | err e l => simp [h1] at h
    | panic x => simp [h1] at h
    | ok s1 =>
      simp only [h1, Res.bind_ok_eq] at h
      rw [ih h, addStmt_frames h1]
      simp [runFrames, h1]

end Resynth
