import Resynth.Lemmas.InterpSim
import Resynth.Lemmas.InterpInvFrame
/-!
# Consistent renaming of a variable (alpha-renaming) is unobservable

`Stmt.rename x y` replaces the variable `x` by `y` everywhere it can occur as a variable: as the
target of a `let`, and as the head of a local reference (`x`, `x.m`, `x(...)`, `x.m(...)`), also
inside call arguments and `/` operands.  Module paths, member names and argument labels are not
variables and are left alone.

For `y` fresh (not bound in the state, not mentioned by the program) the renamed program, run from
the state with the binding of `x` renamed, performs exactly the same run: `eval` returns the same
value / the same error at the same position / the same panic, and the same state up to the renaming
of the key (`eval_rename`); statements likewise, except that a `MultipleAssign n` error carries the
renamed name (`RenRes`, `addStmts_rename`).
-/
namespace Resynth
open Sem

/-! ## the renaming -/

def renName (x y n : String) : String := if n = x then y else n

def ObjRef.rename (x y : String) (o : ObjRef) : ObjRef :=
  if o.modules = [] then
    { o with components := match o.components with
                           | [] => []
                           | c :: cs => renName x y c :: cs }
  else o

mutual
def Expr.rename (x y : String) : Expr → Expr
  | .nil => .nil
  | .lit l v => .lit l v
  | .ref o => .ref (o.rename x y)
  | .call o a => .call (o.rename x y) (a.rename x y)
  | .slash a b => .slash (a.rename x y) (b.rename x y)
def Args.rename (x y : String) : Args → Args
  | .nil => .nil
  | .cons n e rest => .cons n (e.rename x y) (rest.rename x y)
end

def Stmt.rename (x y : String) : Stmt → Stmt
  | .imp l m => .imp l m
  | .assign l t e => .assign l (renName x y t) (e.rename x y)
  | .expr e => .expr (e.rename x y)

def renRegs (x y : String) (regs : List (String × Val)) : List (String × Val) :=
  regs.map (fun e => (renName x y e.1, e.2))

/-- the same state with the key `x` of the binding list renamed to `y` -/
def PState.renamed (x y : String) (st : PState) : PState := { st with regs := renRegs x y st.regs }

/-- how the result of the renamed program relates to the result of the original one -/
inductive RenRes (x y : String) : Res PState → Res PState → Prop
  | ok (s : PState) : RenRes x y (.ok s) (.ok (s.renamed x y))
  | err (e : ErrKind) (l : Loc) : RenRes x y (.err e l) (.err e l)
  | rebind (n : String) (l : Loc) :
      RenRes x y (.err (.multipleAssign n) l) (.err (.multipleAssign (renName x y n)) l)
  | panic (s : String) : RenRes x y (.panic s) (.panic s)

/-! ## names and lookups -/

theorem renName_inj {x y k n : String} (hk : k ≠ y) (hn : n ≠ y) :
    renName x y k = renName x y n ↔ k = n := by
  unfold renName
  split <;> split
  · rename_i a b; exact ⟨fun _ => a.trans b.symm, fun _ => rfl⟩
  · rename_i a b; exact ⟨fun h => absurd h.symm hn, fun h => absurd (h.symm.trans a) b⟩
  · rename_i a b; exact ⟨fun h => absurd h hk, fun h => absurd (h.trans b) a⟩
  · exact Iff.rfl

theorem lookupReg_renRegs (x y : String) : ∀ (regs : List (String × Val)), y ∉ keys regs → ∀ n, n ≠ y →
    lookupReg (renRegs x y regs) (renName x y n) = lookupReg regs n
  | [], _, _, _ => rfl
  | (k, v) :: r, hy, n, hn => by
    have hk : k ≠ y := fun h => hy (by simp [keys, h])
    have hy' : y ∉ keys r := fun h => hy (by simp only [keys, List.map_cons, List.mem_cons]; exact Or.inr h)
    show lookupReg ((renName x y k, v) :: renRegs x y r) (renName x y n) = lookupReg ((k, v) :: r) n
    rw [lookupReg_cons, lookupReg_cons, lookupReg_renRegs x y r hy' n hn]
    by_cases h : k = n
    · rw [if_pos h, if_pos ((renName_inj hk hn).2 h)]
    · rw [if_neg h, if_neg (fun h' => h ((renName_inj hk hn).1 h'))]

theorem ObjRef.rename_loc (x y : String) (o : ObjRef) : (o.rename x y).loc = o.loc := by
  unfold ObjRef.rename; split <;> rfl

/-! ## object references -/

theorem evalObjRef_rename (env : Env) (x y : String) (st : PState) (o : ObjRef) (hy : y ∉ keys st.regs)
    (hm : o.mentions y = false) :
    evalObjRef env (st.renamed x y) (o.rename x y) = evalObjRef env st o := by
  obtain ⟨l, ms, cs⟩ := o
  by_cases hmod : ms = []
  · subst hmod
    simp only [ObjRef.rename, if_true, evalObjRef, List.length_nil, Nat.lt_irrefl, if_false]
    cases cs with
    | nil => rfl
    | cons c cs =>
      have hc : c ≠ y := by
        intro h; subst h
        simp [ObjRef.mentions] at hm
      simp only [evalLocalRef, List.length_cons]
      have hl := lookupReg_renRegs x y st.regs hy c hc
      simp only [PState.renamed]
      rw [hl]
  · have hlen : ms.length > 0 := List.length_pos_iff.2 hmod
    simp only [ObjRef.rename, if_neg hmod, evalObjRef, if_pos hlen]
    rfl

/-! ## expressions -/

theorem bindAndExec_renamed (env : Env) (x y : String) (st : PState) (f : FuncDef) (this : Option Nat)
    (args : List ArgSpec) :
    bindAndExec env (st.renamed x y) f this args =
      (bindAndExec env st f this args).mapOk (fun r => (r.1, r.2.renamed x y)) := by
  unfold bindAndExec
  split
  · rfl
  · rfl
  · simp only [PState.renamed]
    split
    · split <;> rfl
    · rfl
    · rfl

mutual
theorem eval_rename (env : Env) (x y : String) : ∀ (e : Expr) (st : PState), y ∉ keys st.regs →
    e.mentions y = false →
    eval env (st.renamed x y) (e.rename x y) = (eval env st e).mapOk (fun r => (r.1, r.2.renamed x y))
  | .nil, st, _, _ => by simp [Expr.rename, eval]
  | .lit loc v, st, _, _ => by simp only [Expr.rename, eval, Res.mapOk_ok]; rfl
  | .ref o, st, hy, hm => by
    simp only [Expr.rename, eval, ObjRef.rename_loc]
    have : evalObjRef env { st.renamed x y with loc := o.loc } (o.rename x y) =
        evalObjRef env { st with loc := o.loc } o :=
      evalObjRef_rename env x y { st with loc := o.loc } o hy (by simpa [Expr.mentions] using hm)
    rw [this]
    cases evalObjRef env { st with loc := o.loc } o <;> simp
    rfl
  | .call o args, st, hy, hm => by
    have hm1 : o.mentions y = false := by
      simp only [Expr.mentions, Bool.or_eq_false_iff] at hm; exact hm.1
    have hm2 : args.mentions y = false := by
      simp only [Expr.mentions, Bool.or_eq_false_iff] at hm; exact hm.2
    simp only [Expr.rename, eval, ObjRef.rename_loc]
    have : evalObjRef env { st.renamed x y with loc := o.loc } (o.rename x y) =
        evalObjRef env { st with loc := o.loc } o :=
      evalObjRef_rename env x y { st with loc := o.loc } o hy hm1
    rw [this]
    cases evalObjRef env { st with loc := o.loc } o with
    | err e l => simp
    | panic s => simp
    | ok callee =>
      simp only [Res.bind_ok_eq]
      have ha := evalArgs_rename env x y args { st with loc := o.loc } hy hm2
      have hst : ({ st.renamed x y with loc := o.loc } : PState) =
          PState.renamed x y { st with loc := o.loc } := rfl
      cases callee <;> simp only [Res.mapOk_err]
      · rw [hst, ha]
        cases evalArgs env { st with loc := o.loc } args with
        | err e l => simp
        | panic s => simp
        | ok r =>
          simp only [Res.mapOk_ok, Res.bind_ok_eq]
          cases funcOf env _ with
          | err e l => simp
          | panic s => simp
          | ok f => simp only [Res.bind_ok_eq, bindAndExec_renamed]
      · rw [hst, ha]
        cases evalArgs env { st with loc := o.loc } args with
        | err e l => simp
        | panic s => simp
        | ok r =>
          simp only [Res.mapOk_ok, Res.bind_ok_eq]
          cases funcOf env _ with
          | err e l => simp
          | panic s => simp
          | ok f => simp only [Res.bind_ok_eq, bindAndExec_renamed]
  | .slash a b, st, hy, hm => by
    have hm1 : a.mentions y = false := by
      simp only [Expr.mentions, Bool.or_eq_false_iff] at hm; exact hm.1
    have hm2 : b.mentions y = false := by
      simp only [Expr.mentions, Bool.or_eq_false_iff] at hm; exact hm.2
    simp only [Expr.rename, eval]
    rw [eval_rename env x y a st hy hm1]
    cases h1 : eval env st a with
    | err e l => simp
    | panic s => simp
    | ok r =>
      have hy1 : y ∉ keys r.2.regs := by rw [(eval_onlyLH env a st r h1).2.1]; exact hy
      simp only [Res.mapOk_ok, Res.bind_ok_eq]
      split
      · simp only [Res.mapOk_err]; rfl
      · rw [eval_rename env x y b r.2 hy1 hm2]
        cases eval env r.2 b with
        | err e l => simp
        | panic s => simp
        | ok r2 =>
          simp only [Res.mapOk_ok, Res.bind_ok_eq]
          split
          · simp only [Res.mapOk_err]; rfl
          · split
            · split
              · simp only [Res.mapOk_err]; rfl
              · simp only [Res.mapOk_ok]; rfl
            · simp

theorem evalArgs_rename (env : Env) (x y : String) : ∀ (a : Args) (st : PState), y ∉ keys st.regs →
    a.mentions y = false →
    evalArgs env (st.renamed x y) (a.rename x y) = (evalArgs env st a).mapOk (fun r => (r.1, r.2.renamed x y))
  | .nil, st, _, _ => by simp [Args.rename, evalArgs]
  | .cons nm e rest, st, hy, hm => by
    have hm1 : e.mentions y = false := by
      simp only [Args.mentions, Bool.or_eq_false_iff] at hm; exact hm.1
    have hm2 : rest.mentions y = false := by
      simp only [Args.mentions, Bool.or_eq_false_iff] at hm; exact hm.2
    simp only [Args.rename, evalArgs]
    rw [eval_rename env x y e st hy hm1]
    cases h1 : eval env st e with
    | err e l => simp
    | panic s => simp
    | ok r =>
      have hy1 : y ∉ keys r.2.regs := by rw [(eval_onlyLH env e st r h1).2.1]; exact hy
      simp only [Res.mapOk_ok, Res.bind_ok_eq]
      rw [evalArgs_rename env x y rest r.2 hy1 hm2]
      cases evalArgs env r.2 rest <;> simp
end

/-! ## the writer half of a statement does not look at `regs` -/

theorem Res.mapOk_bind_comm {α β : Type} (φ : α → α) (ψ : β → β) (r : Res α) (f g : α → Res β)
    (h : ∀ s, g (φ s) = (f s).mapOk ψ) : (r.mapOk φ >>= g) = (r >>= f).mapOk ψ := by
  cases r with
  | ok a => exact h a
  | err e l => rfl
  | panic s => rfl

theorem updateTime_renamed (x y : String) (st : PState) (ns : Nat) :
    updateTime (st.renamed x y) ns = (updateTime st ns).mapOk (PState.renamed x y) := by
  have e : (st.renamed x y).now = st.now := rfl
  have e2 : (st.renamed x y).loc = st.loc := rfl
  unfold updateTime
  rw [e, e2]
  by_cases h : st.now + ns < u64Max
  · rw [if_pos h, if_pos h]; rfl
  · rw [if_neg h, if_neg h]; rfl

theorem writeRecord_renamed (x y : String) (st : PState) (p : Packet) :
    writeRecord (st.renamed x y) p = (writeRecord st p).mapOk (PState.renamed x y) := by
  have e : (st.renamed x y).now = st.now := rfl
  have e2 : (st.renamed x y).loc = st.loc := rfl
  have e3 : (st.renamed x y).wr = st.wr := rfl
  unfold writeRecord
  rw [e, e2, e3]
  cases Pcap.writePacket st.now p with
  | panic s => rfl
  | ok bytes q =>
    simp only
    by_cases hw : (st.wr.writeAll bytes).2 = true
    · rw [if_pos hw, if_pos hw]; rfl
    · rw [if_neg hw, if_neg hw]; rfl

theorem writeRecords_renamed (x y : String) : ∀ (ps : List Packet) (st : PState),
    writeRecords (st.renamed x y) ps = (writeRecords st ps).mapOk (PState.renamed x y)
  | [], _ => rfl
  | p :: ps, st => by
    simp only [writeRecords]
    rw [writeRecord_renamed]
    exact Res.mapOk_bind_comm _ _ _ _ _ (fun s => writeRecords_renamed x y ps s)

theorem foldl_updateTime_renamed (x y : String) : ∀ (ps : List Packet) (st : PState),
    ps.foldlM (fun st p => updateTime st p.bitTime) (st.renamed x y) =
      (ps.foldlM (fun st p => updateTime st p.bitTime) st).mapOk (PState.renamed x y)
  | [], _ => rfl
  | p :: ps, st => by
    simp only [List.foldlM_cons]
    rw [updateTime_renamed]
    exact Res.mapOk_bind_comm _ _ _ _ _ (fun s => foldl_updateTime_renamed x y ps s)

theorem emitVal_renamed (x y : String) (st : PState) (v : Val) :
    emitVal (st.renamed x y) v = (emitVal st v).mapOk (PState.renamed x y) := by
  cases v <;> simp only [emitVal, Res.pure_eq_ok, Res.mapOk_ok]
  case pkt p =>
    rw [updateTime_renamed]
    exact Res.mapOk_bind_comm _ _ _ _ _ (fun s => writeRecord_renamed x y s p)
  case pktgen ps =>
    rw [foldl_updateTime_renamed]
    exact Res.mapOk_bind_comm _ _ _ _ _ (fun s => writeRecords_renamed x y ps s)
  case timejump ns => exact updateTime_renamed x y st ns
  all_goals rfl

/-! ## statements -/

theorem RenRes.of_mapOk {x y : String} (r : Res PState) : RenRes x y r (r.mapOk (PState.renamed x y)) := by
  cases r with
  | ok s => exact .ok s
  | err e l => exact .err e l
  | panic s => exact .panic s

theorem addStmt_rename (env : Env) (x y : String) (s : Stmt) (st : PState) (hy : y ∉ keys st.regs)
    (hm : s.mentions y = false) :
    RenRes x y (addStmt env st s) (addStmt env (st.renamed x y) (s.rename x y)) := by
  cases s with
  | imp l m =>
    have : addStmt env (st.renamed x y) (.imp l m) = (addStmt env st (.imp l m)).mapOk (PState.renamed x y) := by
      have e : ({ st.renamed x y with loc := l } : PState).imports = st.imports := rfl
      have e' : ({ st with loc := l } : PState).imports = st.imports := rfl
      simp only [addStmt]
      rw [e, e']
      by_cases hc : st.imports.contains m = true
      · rw [if_pos hc, if_pos hc]; rfl
      · rw [if_neg hc, if_neg hc]
        cases env.lib.get m with
        | none => rfl
        | some sy => cases sy <;> rfl
    simp only [Stmt.rename]
    rw [this]
    exact RenRes.of_mapOk _
  | assign l t e =>
    have ht : t ≠ y := by
      intro h; subst h; simp [Stmt.mentions] at hm
    have he : e.mentions y = false := by
      simp only [Stmt.mentions, Bool.or_eq_false_iff] at hm; exact hm.2
    simp only [Stmt.rename, addStmt]
    have hl : lookupReg (PState.renamed x y st).regs (renName x y t) = lookupReg st.regs t :=
      lookupReg_renRegs x y st.regs hy t ht
    have hl' : lookupReg ({ st.renamed x y with loc := l } : PState).regs (renName x y t) =
        lookupReg ({ st with loc := l } : PState).regs t := hl
    rw [hl']
    split
    · exact .rebind t l
    · have hev := eval_rename env x y e { st with loc := l } hy he
      have hst : ({ st.renamed x y with loc := l } : PState) = PState.renamed x y { st with loc := l } := rfl
      rw [hst, hev]
      cases eval env { st with loc := l } e with
      | err e l => exact .err _ _
      | panic s => exact .panic _
      | ok r =>
        simp only [Res.mapOk_ok, Res.bind_ok_eq, Res.pure_eq_ok]
        have : ({ r.2.renamed x y with regs := (r.2.renamed x y).regs ++ [(renName x y t, r.1)] } : PState) =
            PState.renamed x y { r.2 with regs := r.2.regs ++ [(t, r.1)] } := by
          simp [PState.renamed, renRegs]
        rw [this]
        exact .ok _
  | expr e =>
    have he : e.mentions y = false := by simpa [Stmt.mentions] using hm
    simp only [Stmt.rename]
    rw [addStmt_expr, addStmt_expr, eval_rename env x y e st hy he]
    cases eval env st e with
    | err e l => exact .err _ _
    | panic s => exact .panic _
    | ok r =>
      simp only [Res.mapOk_ok, Res.bind_ok_eq]
      rw [emitVal_renamed]
      exact RenRes.of_mapOk _

/-- the fresh name stays fresh -/
theorem addStmt_fresh_stays {env : Env} {st st' : PState} {s : Stmt} {y : String}
    (h : addStmt env st s = .ok st') (hy : y ∉ keys st.regs) (hm : s.mentions y = false) :
    y ∉ keys st'.regs := by
  cases s with
  | imp l m => rw [(Sem.addStmt_imp_ok h).1]; exact hy
  | assign l t e =>
    obtain ⟨_, v, st1, _, rfl⟩ := Sem.addStmt_assign_ok h
    have ht : t ≠ y := by
      intro h; subst h; simp [Stmt.mentions] at hm
    simp only [keys, List.map_append, List.map_cons, List.map_nil, List.mem_append, List.mem_singleton, not_or]
    exact ⟨hy, fun h => ht h.symm⟩
  | expr e =>
    rcases Sem.addStmt_regs h with h' | ⟨t, v, _, h'⟩
    · rw [h']; exact hy
    · -- an expression statement never binds
      obtain ⟨v', st1, h1, h2⟩ := Sem.addStmt_expr_ok h
      rw [(emitVal_ok h2).1, (Sem.eval_frame env e _ _ _ h1).regs]; exact hy

theorem addStmts_rename (env : Env) (x y : String) : ∀ (ss : List Stmt) (st : PState), y ∉ keys st.regs →
    (∀ s ∈ ss, s.mentions y = false) →
    RenRes x y (addStmts env st ss) (addStmts env (st.renamed x y) (ss.map (Stmt.rename x y)))
  | [], st, _, _ => .ok st
  | s :: ss, st, hy, hm => by
    simp only [List.map_cons, addStmts]
    have h1 := addStmt_rename env x y s st hy (hm s (List.mem_cons_self ..))
    generalize addStmt env (st.renamed x y) (Stmt.rename x y s) = rb at h1 ⊢
    cases hs : addStmt env st s with
    | ok st1 =>
      rw [hs] at h1
      cases h1
      simp only [Res.bind_ok_eq]
      exact addStmts_rename env x y ss st1 (addStmt_fresh_stays hs hy (hm s (List.mem_cons_self ..)))
        (fun s' hs' => hm s' (List.mem_cons_of_mem _ hs'))
    | err e l =>
      rw [hs] at h1
      cases h1 with
      | err _ _ => exact .err _ _
      | rebind n _ => exact .rebind n l
    | panic p =>
      rw [hs] at h1
      cases h1
      exact .panic _

/-! ## reading `RenRes` -/

theorem renRegs_of_fresh (x y : String) : ∀ (regs : List (String × Val)), x ∉ keys regs → renRegs x y regs = regs
  | [], _ => rfl
  | (k, v) :: r, h => by
    have hk : k ≠ x := fun e => h (by simp [keys, e])
    have hr : x ∉ keys r := fun e => h (by simp only [keys, List.map_cons, List.mem_cons]; exact Or.inr e)
    simp only [renRegs, List.map_cons, renName, if_neg hk]
    congr 1
    exact renRegs_of_fresh x y r hr

/-- What `RenRes` means for the observer: the renamed program succeeds iff the original does, with
the same writer contents, records, clock, warnings (positions included), imports, heap and `loc`,
and the bindings up to the name; it fails iff the original fails, at the same position with an
error of the same class (the same error, or `MultipleAssign` of the renamed name); it panics iff
the original does, at the same site. -/
theorem renRes_observable {x y : String} {a b : Res PState} (h : RenRes x y a b) :
    (∀ s, a = .ok s → ∃ s', b = .ok s' ∧ s'.wr = s.wr ∧ s'.emitted = s.emitted ∧ s'.now = s.now ∧
        s'.warnings = s.warnings ∧ s'.imports = s.imports ∧ s'.heap = s.heap ∧ s'.loc = s.loc ∧
        s'.regs = renRegs x y s.regs) ∧
    (∀ e l, a = .err e l → ∃ e', b = .err e' l ∧ e'.cls = e.cls ∧
        (e' = e ∨ ∃ n, e = .multipleAssign n ∧ e' = .multipleAssign (renName x y n))) ∧
    (∀ p, a = .panic p → b = .panic p) ∧
    ((∃ s, a = .ok s) ↔ (∃ s', b = .ok s')) := by
  cases h with
  | ok s =>
    refine ⟨?_, ?_, ?_, ?_⟩
    · intro s0 h0; cases h0
      exact ⟨_, rfl, rfl, rfl, rfl, rfl, rfl, rfl, rfl, rfl⟩
    · intro e l h0; cases h0
    · intro p h0; cases h0
    · exact ⟨fun _ => ⟨_, rfl⟩, fun _ => ⟨_, rfl⟩⟩
  | err e l =>
    refine ⟨?_, ?_, ?_, ?_⟩
    · intro s0 h0; cases h0
    · intro e0 l0 h0; cases h0
      exact ⟨_, rfl, rfl, Or.inl rfl⟩
    · intro p h0; cases h0
    · constructor <;> (rintro ⟨_, h0⟩; cases h0)
  | rebind n l =>
    refine ⟨?_, ?_, ?_, ?_⟩
    · intro s0 h0; cases h0
    · intro e0 l0 h0; cases h0
      exact ⟨_, rfl, rfl, Or.inr ⟨n, rfl, rfl⟩⟩
    · intro p h0; cases h0
    · constructor <;> (rintro ⟨_, h0⟩; cases h0)
  | panic p =>
    refine ⟨?_, ?_, ?_, ?_⟩
    · intro s0 h0; cases h0
    · intro e l h0; cases h0
    · intro p0 h0; cases h0; rfl
    · constructor <;> (rintro ⟨_, h0⟩; cases h0)

end Resynth
