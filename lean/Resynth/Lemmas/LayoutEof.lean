import Resynth.Lemmas.LayoutLemmas
import Resynth.Props.C09Eof
/-!
# Lemmas: blank lines appended to a source, at the level of the front-end plan (C13Layout, L3)

Uses `C09.pending_at_eof_rejected`: a string literal pending at end of input is a parse error there,
wherever "there" is.
-/
namespace Resynth

/-- when all lines lex, the front end ends where `C09.lexLines` says -/
theorem planLines_lexLines : ∀ (lines : List Bytes) (f : Front) (lno : Nat) (f' : Front),
    (planLines f lno lines).2 = .ok f' →
    ∃ toks, C09.lexLines f.pending f.lexLoc lno lines = some (toks, f'.pending, f'.lexLoc)
  | [], f, lno, f', h => by
    simp only [planLines, Except.ok.injEq] at h; subst h; exact ⟨[], rfl⟩
  | raw :: rest, f, lno, f', h => by
    simp only [planLines] at h
    cases hd : utf8Decode raw with
    | none => simp [hd] at h
    | some ln =>
      simp only [hd] at h
      cases hl : Lex.line lno f.pending ln with
      | error col => simp [hl] at h
      | ok lo =>
        simp only [hl] at h
        cases hf : feedToks f.cfg lo.toks with
        | error ol => cases ol <;> simp [hf] at h
        | ok cfg =>
          simp only [hf] at h
          obtain ⟨toks, ht⟩ := planLines_lexLines rest _ _ f' h
          exact ⟨lo.toks ++ toks, by simp only [C09.lexLines, hd, hl]; simp only [] at ht; rw [ht]; rfl⟩

/-- the three ways the front end can end once all lines are consumed -/
theorem planOf_cases (src : Bytes) (f : Front)
    (hr : (planLines ⟨none, Loc.nil, LR.Cfg.init⟩ 1 (splitLines src)).2 = .ok f) :
    planOf src = ⟨(planLines ⟨none, Loc.nil, LR.Cfg.init⟩ 1 (splitLines src)).1,
      some (.failure "Parse" "" f.lexLoc)⟩ ∨
    planOf src = ⟨(planLines ⟨none, Loc.nil, LR.Cfg.init⟩ 1 (splitLines src)).1, some (.panic "parser")⟩ ∨
    ∃ b, planOf src = ⟨(planLines ⟨none, Loc.nil, LR.Cfg.init⟩ 1 (splitLines src)).1 ++ [b], none⟩ := by
  unfold planOf
  simp only [hr]
  cases feedPending f with
  | parseError => exact .inl rfl
  | panic => exact .inr (.inl rfl)
  | ok cfg0 =>
    simp only []
    cases LR.feed cfg0 LR.eofTok with
    | parseError => exact .inl rfl
    | panic => exact .inr (.inl rfl)
    | ok cfg => exact .inr (.inr ⟨_, rfl⟩)

/-- Blank lines appended to a source (that is empty or ends with a line terminator) add empty batches
only; the front end ends the same way, except that a parse error at end of input is reported at the
new end of input. -/
theorem planOf_blank_tail (src tail : Bytes) (hsrc : src = [] ∨ src.getLast? = some 10)
    (hb : ∀ b ∈ splitLines tail, blankLine b = true) :
    (planOf (src ++ tail)).batches.filter (fun b => !b.isEmpty) =
      (planOf src).batches.filter (fun b => !b.isEmpty) ∧
    ((planOf (src ++ tail)).final = (planOf src).final ∨
      ((planOf src).final = some (.failure "Parse" "" (eofLoc src)) ∧
       (planOf (src ++ tail)).final = some (.failure "Parse" "" (eofLoc (src ++ tail))))) := by
  have hsplit := splitLines_append src tail hsrc
  have hpl := planLines_append_blanks (splitLines src) (splitLines tail) ⟨none, Loc.nil, LR.Cfg.init⟩ 1 hb rfl
  rw [← hsplit] at hpl
  cases hr : (planLines ⟨none, Loc.nil, LR.Cfg.init⟩ 1 (splitLines src)).2 with
  | error o =>
    rw [hr] at hpl
    have e1 : planOf src = ⟨(planLines ⟨none, Loc.nil, LR.Cfg.init⟩ 1 (splitLines src)).1, some o⟩ := by
      unfold planOf; simp only [hr]
    have e2 : planOf (src ++ tail) =
        ⟨(planLines ⟨none, Loc.nil, LR.Cfg.init⟩ 1 (splitLines src)).1, some o⟩ := by
      unfold planOf; simp only [hpl]
    rw [e1, e2]; exact ⟨rfl, .inl rfl⟩
  | ok f' =>
    rw [hr] at hpl
    simp only [] at hpl
    have hl : f'.lexLoc = eofLoc src := planLines_lexLoc _ _ _ _ hr
    have hL : lastEnd f'.lexLoc (1 + (splitLines src).length) (splitLines tail) = eofLoc (src ++ tail) := by
      unfold eofLoc at hl ⊢; rw [hsplit, lastEnd_append, ← hl]
    rw [hL] at hpl
    have hr2 : (planLines ⟨none, Loc.nil, LR.Cfg.init⟩ 1 (splitLines (src ++ tail))).2 =
        .ok ⟨f'.pending, eofLoc (src ++ tail), f'.cfg⟩ := by rw [hpl]
    have hb2 : (planLines ⟨none, Loc.nil, LR.Cfg.init⟩ 1 (splitLines (src ++ tail))).1 =
        (planLines ⟨none, Loc.nil, LR.Cfg.init⟩ 1 (splitLines src)).1 ++
          List.replicate (splitLines tail).length [] := by rw [hpl]
    have hfilt : ∀ (x : List (List Stmt)) (n : Nat) (y : List (List Stmt)),
        (x ++ List.replicate n [] ++ y).filter (fun b => !b.isEmpty) = (x ++ y).filter (fun b => !b.isEmpty) := by
      intro x n y
      simp [List.filter_append]
    obtain ⟨p, l, c⟩ := f'
    simp only at hl hr2 hb2
    subst hl
    cases p with
    | none =>
      -- nothing pending: the parser is in the same configuration; only an error at `EOF` moves
      unfold planOf
      simp only [hr, hr2, hb2, feedPending, Lex.finish, Option.map_none]
      cases LR.feed c LR.eofTok with
      | parseError =>
        refine ⟨?_, .inr ⟨rfl, rfl⟩⟩
        simp [List.filter_append]
      | panic =>
        refine ⟨?_, .inl rfl⟩
        simp [List.filter_append]
      | ok cfg => exact ⟨hfilt _ _ _, .inl rfl⟩
    | some q =>
      -- a literal is pending: both runs end with a parse error at their end of input (C09)
      obtain ⟨t1, h1⟩ := planLines_lexLines _ _ _ _ hr
      obtain ⟨t2, h2⟩ := planLines_lexLines _ _ _ _ hr2
      obtain ⟨l1, hf1⟩ := (C09.pending_at_eof_rejected default none src t1 q _ h1).1
      obtain ⟨l2, hf2⟩ := (C09.pending_at_eof_rejected default none (src ++ tail) t2 q _ h2).1
      have c1 := planOf_cases src _ hr
      have c2 := planOf_cases (src ++ tail) _ hr2
      rcases c1 with c1 | c1 | ⟨_, c1⟩ <;> rw [c1] at hf1 <;> simp only [Option.some.injEq, reduceCtorEq] at hf1
      rcases c2 with c2 | c2 | ⟨_, c2⟩ <;> rw [c2] at hf2 <;> simp only [Option.some.injEq, reduceCtorEq] at hf2
      rw [c1, c2, hb2]
      refine ⟨?_, .inr ⟨rfl, rfl⟩⟩
      simp [List.filter_append]

end Resynth
