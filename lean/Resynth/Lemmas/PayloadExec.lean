import Resynth.Lemmas.PayloadJoin
import Resynth.Lemmas.PayloadFrames
/-!
# The payload-carrying arms of `exec`, as equations in terms of the pure builders

Conventions: an integer argument is any `v` with `v.toNat? = some n`; a flag any `v` with
`v.toBool? = some b`; the collected arguments are any `x` with `x.mapM Val.toBuf? = some bufs`,
and the builder receives `concatParts bufs`.
-/
namespace Resynth.Payload
open Resynth Resynth.Wire

theorem getThis_some (h : Heap) (i : Nat) (o : Obj) (ho : h[i]? = some o) : getThis h (some i) = .ok (i, o) := by
  simp [getThis, ho]

section arms
variable (fs : Fs) (h : Heap)

/-! ## TCP -/

theorem exec_client_message (f : TcpFlow) (i : Nat) (hi : h[i]? = some (.tcp f))
    (sa seq ack fo : Val) (b : Bool) (s a : Option Nat) (n : Nat)
    (hsa : sa.toBool? = some b) (hseq : seq.toOptU32? = some s) (hack : ack.toOptU32? = some a)
    (hfo : fo.toNat? = some n)
    (x : List Val) (bufs : List Bytes) (hx : x.mapM (m := Option) Val.toBuf? = some bufs) :
    exec fs "ipv4::tcp::TcpFlow.client_message" (some i) ⟨[sa, seq, ack, fo], x⟩ h =
      .ok (pktsOf ((f.pushState s a).1.clientMessage (concatParts bufs) b (n % 65536)).2,
           setObj h i (.tcp (((f.pushState s a).1.clientMessage (concatParts bufs) b (n % 65536)).1.popState
             (f.pushState s a).2))) := by
  exec_arm
  simp only [getThis_some h i _ hi, joinExtra_concat x bufs hx, tcpOverride, hsa, hseq, hack, toU16_of hfo,
    Res.ofOpt_some, Res.ok_bind, Res.pure_eq]

theorem exec_server_message (f : TcpFlow) (i : Nat) (hi : h[i]? = some (.tcp f))
    (sa seq ack fo : Val) (b : Bool) (s a : Option Nat) (n : Nat)
    (hsa : sa.toBool? = some b) (hseq : seq.toOptU32? = some s) (hack : ack.toOptU32? = some a)
    (hfo : fo.toNat? = some n)
    (x : List Val) (bufs : List Bytes) (hx : x.mapM (m := Option) Val.toBuf? = some bufs) :
    exec fs "ipv4::tcp::TcpFlow.server_message" (some i) ⟨[sa, seq, ack, fo], x⟩ h =
      .ok (pktsOf ((f.pushState s a).1.serverMessage (concatParts bufs) b (n % 65536)).2,
           setObj h i (.tcp (((f.pushState s a).1.serverMessage (concatParts bufs) b (n % 65536)).1.popState
             (f.pushState s a).2))) := by
  exec_arm
  simp only [getThis_some h i _ hi, joinExtra_concat x bufs hx, tcpOverride, hsa, hseq, hack, toU16_of hfo,
    Res.ofOpt_some, Res.ok_bind, Res.pure_eq]

theorem exec_client_segment (f : TcpFlow) (i : Nat) (hi : h[i]? = some (.tcp f))
    (seq ack : Val) (s a : Option Nat) (hseq : seq.toOptU32? = some s) (hack : ack.toOptU32? = some a)
    (x : List Val) (bufs : List Bytes) (hx : x.mapM (m := Option) Val.toBuf? = some bufs) :
    exec fs "ipv4::tcp::TcpFlow.client_segment" (some i) ⟨[seq, ack], x⟩ h =
      .ok (pktOf ((f.pushState s a).1.clientDataSegment (concatParts bufs)).2.frame,
           setObj h i (.tcp (((f.pushState s a).1.clientDataSegment (concatParts bufs)).1.popState
             (f.pushState s a).2))) := by
  exec_arm
  simp only [getThis_some h i _ hi, joinExtra_concat x bufs hx, tcpOverride, hseq, hack,
    Res.ofOpt_some, Res.ok_bind, Res.pure_eq]

theorem exec_server_segment (f : TcpFlow) (i : Nat) (hi : h[i]? = some (.tcp f))
    (seq ack : Val) (s a : Option Nat) (hseq : seq.toOptU32? = some s) (hack : ack.toOptU32? = some a)
    (x : List Val) (bufs : List Bytes) (hx : x.mapM (m := Option) Val.toBuf? = some bufs) :
    exec fs "ipv4::tcp::TcpFlow.server_segment" (some i) ⟨[seq, ack], x⟩ h =
      .ok (pktOf ((f.pushState s a).1.serverDataSegment (concatParts bufs)).2.frame,
           setObj h i (.tcp (((f.pushState s a).1.serverDataSegment (concatParts bufs)).1.popState
             (f.pushState s a).2))) := by
  exec_arm
  simp only [getThis_some h i _ hi, joinExtra_concat x bufs hx, tcpOverride, hseq, hack,
    Res.ofOpt_some, Res.ok_bind, Res.pure_eq]

theorem exec_client_raw_segment (f : TcpFlow) (i : Nat) (hi : h[i]? = some (.tcp f))
    (seq ack : Val) (s a : Option Nat) (hseq : seq.toOptU32? = some s) (hack : ack.toOptU32? = some a)
    (x : List Val) (bufs : List Bytes) (hx : x.mapM (m := Option) Val.toBuf? = some bufs) :
    exec fs "ipv4::tcp::TcpFlow.client_raw_segment" (some i) ⟨[seq, ack], x⟩ h =
      .ok (.str ((f.pushState s a).1.clientDataSegment (concatParts bufs)).2.segment,
           setObj h i (.tcp (((f.pushState s a).1.clientDataSegment (concatParts bufs)).1.popState
             (f.pushState s a).2))) := by
  exec_arm
  simp only [getThis_some h i _ hi, joinExtra_concat x bufs hx, tcpOverride, hseq, hack,
    Res.ofOpt_some, Res.ok_bind, Res.pure_eq]

theorem exec_server_raw_segment (f : TcpFlow) (i : Nat) (hi : h[i]? = some (.tcp f))
    (seq ack : Val) (s a : Option Nat) (hseq : seq.toOptU32? = some s) (hack : ack.toOptU32? = some a)
    (x : List Val) (bufs : List Bytes) (hx : x.mapM (m := Option) Val.toBuf? = some bufs) :
    exec fs "ipv4::tcp::TcpFlow.server_raw_segment" (some i) ⟨[seq, ack], x⟩ h =
      .ok (.str ((f.pushState s a).1.serverDataSegment (concatParts bufs)).2.segment,
           setObj h i (.tcp (((f.pushState s a).1.serverDataSegment (concatParts bufs)).1.popState
             (f.pushState s a).2))) := by
  exec_arm
  simp only [getThis_some h i _ hi, joinExtra_concat x bufs hx, tcpOverride, hseq, hack,
    Res.ofOpt_some, Res.ok_bind, Res.pure_eq]

/-! ## UDP -/

theorem exec_udp_unicast (this : Option Nat) (src dst : Sock) (raw : Val) (r : Bool) (hr : raw.toBool? = some r)
    (x : List Val) (bufs : List Bytes) (hx : x.mapM (m := Option) Val.toBuf? = some bufs) :
    exec fs "ipv4::udp::unicast" this ⟨[.sock4 src.ip src.port, .sock4 dst.ip dst.port, raw], x⟩ h =
      .ok (pktOf (udpUnicast src dst r (concatParts bufs)), h) := by
  exec_arm
  simp only [joinExtra_concat x bufs hx, hr, Val.toSock?, Res.ofOpt_some, Res.ok_bind, Res.pure_eq]

theorem exec_udp_broadcast (this : Option Nat) (src dst : Sock) (srcip raw : Val) (o : Option Nat) (r : Bool)
    (ho : srcip.toOptIp? = some o) (hr : raw.toBool? = some r)
    (x : List Val) (bufs : List Bytes) (hx : x.mapM (m := Option) Val.toBuf? = some bufs) :
    exec fs "ipv4::udp::broadcast" this ⟨[.sock4 src.ip src.port, .sock4 dst.ip dst.port, srcip, raw], x⟩ h =
      .ok (pktOf (udpBroadcast src dst o r (concatParts bufs)), h) := by
  exec_arm
  simp only [joinExtra_concat x bufs hx, hr, ho, Val.toSock?, Res.ofOpt_some, Res.ok_bind, Res.pure_eq]

theorem exec_udp_client_dgram (f : UdpFlow) (i : Nat) (hi : h[i]? = some (.udp f))
    (fo cs : Val) (n : Nat) (c : Bool) (hfo : fo.toNat? = some n) (hcs : cs.toBool? = some c)
    (x : List Val) (bufs : List Bytes) (hx : x.mapM (m := Option) Val.toBuf? = some bufs) :
    exec fs "ipv4::udp::UdpFlow.client_dgram" (some i) ⟨[fo, cs], x⟩ h =
      .ok (pktOf (f.dgramCall true (n % 65536) c (concatParts bufs)), h) := by
  exec_arm
  simp only [getThis_some h i _ hi, joinExtra_concat x bufs hx, hcs, toU16_of hfo,
    Res.ofOpt_some, Res.ok_bind, Res.pure_eq]

theorem exec_udp_server_dgram (f : UdpFlow) (i : Nat) (hi : h[i]? = some (.udp f))
    (fo cs : Val) (n : Nat) (c : Bool) (hfo : fo.toNat? = some n) (hcs : cs.toBool? = some c)
    (x : List Val) (bufs : List Bytes) (hx : x.mapM (m := Option) Val.toBuf? = some bufs) :
    exec fs "ipv4::udp::UdpFlow.server_dgram" (some i) ⟨[fo, cs], x⟩ h =
      .ok (pktOf (f.dgramCall false (n % 65536) c (concatParts bufs)), h) := by
  exec_arm
  simp only [getThis_some h i _ hi, joinExtra_concat x bufs hx, hcs, toU16_of hfo,
    Res.ofOpt_some, Res.ok_bind, Res.pure_eq]

theorem exec_udp_client_raw_dgram (f : UdpFlow) (i : Nat) (hi : h[i]? = some (.udp f))
    (cs : Val) (c : Bool) (hcs : cs.toBool? = some c)
    (x : List Val) (bufs : List Bytes) (hx : x.mapM (m := Option) Val.toBuf? = some bufs) :
    exec fs "ipv4::udp::UdpFlow.client_raw_dgram" (some i) ⟨[cs], x⟩ h =
      .ok (.str (f.rawDgramCall true c (concatParts bufs)), h) := by
  exec_arm
  simp only [getThis_some h i _ hi, joinExtra_concat x bufs hx, hcs, Res.ofOpt_some, Res.ok_bind, Res.pure_eq]

theorem exec_udp_server_raw_dgram (f : UdpFlow) (i : Nat) (hi : h[i]? = some (.udp f))
    (cs : Val) (c : Bool) (hcs : cs.toBool? = some c)
    (x : List Val) (bufs : List Bytes) (hx : x.mapM (m := Option) Val.toBuf? = some bufs) :
    exec fs "ipv4::udp::UdpFlow.server_raw_dgram" (some i) ⟨[cs], x⟩ h =
      .ok (.str (f.rawDgramCall false c (concatParts bufs)), h) := by
  exec_arm
  simp only [getThis_some h i _ hi, joinExtra_concat x bufs hx, hcs, Res.ofOpt_some, Res.ok_bind, Res.pure_eq]

/-! ## ICMP (the payload is one positional argument, any string-coercible value) -/

theorem exec_icmp_echo (f : IcmpFlow) (i : Nat) (hi : h[i]? = some (.icmp f))
    (payload : Val) (b : Bytes) (hp : payload.toBuf? = some b) :
    exec fs "ipv4::icmp::Icmp.echo" (some i) ⟨[payload], []⟩ h =
      .ok (pktOf (f.echo b).2, setObj h i (.icmp (f.echo b).1)) := by
  exec_arm
  simp only [getThis_some h i _ hi, hp, Res.ofOpt_some, Res.ok_bind, Res.pure_eq]

theorem exec_icmp_echo_reply (f : IcmpFlow) (i : Nat) (hi : h[i]? = some (.icmp f))
    (payload : Val) (b : Bytes) (hp : payload.toBuf? = some b) :
    exec fs "ipv4::icmp::Icmp.echo_reply" (some i) ⟨[payload], []⟩ h =
      .ok (pktOf (f.echoReply b).2, setObj h i (.icmp (f.echoReply b).1)) := by
  exec_arm
  simp only [getThis_some h i _ hi, hp, Res.ofOpt_some, Res.ok_bind, Res.pure_eq]

/-! ## Ethernet / raw IP -/

theorem exec_eth_frame (this : Option Nat) (src dst et : Val) (s d : Bytes) (n : Nat)
    (hs : src.toBuf? = some s) (hd : dst.toBuf? = some d) (het : et.toNat? = some n)
    (hs6 : s.length = 6) (hd6 : d.length = 6)
    (x : List Val) (bufs : List Bytes) (hx : x.mapM (m := Option) Val.toBuf? = some bufs) :
    exec fs "eth::frame" this ⟨[src, dst, et], x⟩ h =
      .ok (pktOf (d ++ s ++ be16 (n % 65536) ++ concatParts bufs), h) := by
  exec_arm
  simp [joinExtra_concat x bufs hx, hs, hd, toU16_of het, hs6, hd6, ethHdr]

/-- a source or destination address that is not 6 bytes long is a run-time error -/
theorem exec_eth_frame_badlen (this : Option Nat) (src dst et : Val) (s d : Bytes) (n : Nat)
    (hs : src.toBuf? = some s) (hd : dst.toBuf? = some d) (het : et.toNat? = some n)
    (hbad : s.length ≠ 6 ∨ d.length ≠ 6)
    (x : List Val) (bufs : List Bytes) (hx : x.mapM (m := Option) Val.toBuf? = some bufs) :
    exec fs "eth::frame" this ⟨[src, dst, et], x⟩ h = .err .runtime Loc.nil := by
  exec_arm
  simp only [joinExtra_concat x bufs hx, hs, hd, toU16_of het, Res.ofOpt_some, Res.ok_bind, Res.pure_eq]
  by_cases h1 : s.length = 6
  · have h2 : d.length ≠ 6 := by rcases hbad with hb | hb; exact absurd h1 hb; exact hb
    simp [h1, h2]
  · simp [h1]

theorem exec_ipv4_datagram (this : Option Nat) (src dst : Nat) (id evil df mf ttl fo proto : Val)
    (nid nttl nfo nproto : Nat) (be bd bm : Bool)
    (h1 : id.toNat? = some nid) (h2 : evil.toBool? = some be) (h3 : df.toBool? = some bd)
    (h4 : mf.toBool? = some bm) (h5 : ttl.toNat? = some nttl) (h6 : fo.toNat? = some nfo)
    (h7 : proto.toNat? = some nproto)
    (x : List Val) (bufs : List Bytes) (hx : x.mapM (m := Option) Val.toBuf? = some bufs) :
    exec fs "ipv4::datagram" this ⟨[.ip4 src, .ip4 dst, id, evil, df, mf, ttl, fo, proto], x⟩ h =
      .ok (pktOf (ipv4Datagram src dst (nid % 65536) be bd bm (nttl % 256) (nfo % 65536) (nproto % 256)
        (concatParts bufs)), h) := by
  exec_arm
  simp only [joinExtra_concat x bufs hx, toU16_of h1, h2, h3, h4, toU8_of h5, toU16_of h6, toU8_of h7,
    Val.toIp?, Res.ofOpt_some, Res.ok_bind, Res.pure_eq]

/-- the header template `ipv4::frag` stores -/
def fragHdr (src dst id : Nat) (evil df : Bool) (ttl proto : Nat) : IpHdr :=
  { ((({ id := id } : IpHdr).setEvil evil).setDf df) with ttl := ttl, protocol := proto, saddr := src, daddr := dst }

/-- `ipv4::frag(...)` stores the joined payload in a new `IpFrag` object -/
theorem exec_ipv4_frag (this : Option Nat) (src dst : Nat) (id evil df ttl proto : Val)
    (nid nttl nproto : Nat) (be bd : Bool)
    (h1 : id.toNat? = some nid) (h2 : evil.toBool? = some be) (h3 : df.toBool? = some bd)
    (h5 : ttl.toNat? = some nttl) (h7 : proto.toNat? = some nproto)
    (x : List Val) (bufs : List Bytes) (hx : x.mapM (m := Option) Val.toBuf? = some bufs) :
    exec fs "ipv4::frag" this ⟨[.ip4 src, .ip4 dst, id, evil, df, ttl, proto], x⟩ h =
      .ok (.obj h.length "ipv4::IpFrag",
        h ++ [.frag ⟨fragHdr src dst (nid % 65536) be bd (nttl % 256) (nproto % 256), concatParts bufs⟩]) := by
  exec_arm
  simp only [joinExtra_concat x bufs hx, toU16_of h1, h2, h3, toU8_of h5, toU8_of h7,
    Val.toIp?, Res.ofOpt_some, Res.ok_bind, Res.pure_eq, allocObj, Obj.cls, fragHdr]

theorem exec_ipfrag_datagram (f : IpFrag) (i : Nat) (hi : h[i]? = some (.frag f))
    (raw : Val) (r : Bool) (hr : raw.toBool? = some r) :
    exec fs "ipv4::IpFrag.datagram" (some i) ⟨[raw], []⟩ h = .ok (pktOf (f.datagram r), h) := by
  exec_arm
  simp only [getThis_some h i _ hi, hr, Res.ofOpt_some, Res.ok_bind, Res.pure_eq]

theorem exec_ipfrag_fragment (f : IpFrag) (i : Nat) (hi : h[i]? = some (.frag f))
    (off len raw : Val) (no nl : Nat) (r : Bool) (ho : off.toNat? = some no) (hl : len.toNat? = some nl)
    (hr : raw.toBool? = some r) :
    exec fs "ipv4::IpFrag.fragment" (some i) ⟨[off, len, raw], []⟩ h =
      .ok (pktOf (f.fragment (no % 65536) (nl % 65536) r), h) := by
  exec_arm
  simp only [getThis_some h i _ hi, hr, toU16_of ho, toU16_of hl, Res.ofOpt_some, Res.ok_bind, Res.pure_eq]

/-! ## tunnels: a packet used as the payload contributes its frame -/

theorem exec_vxlan_dgram (f : VxlanFlow) (i : Nat) (hi : h[i]? = some (.vxlan f)) (p : Packet) :
    exec fs "vxlan::Vxlan.dgram" (some i) ⟨[.pkt p], []⟩ h = .ok (pktOf (f.encap p.frame), h) := by
  exec_arm
  simp only [getThis_some h i _ hi, Val.toPkt?, Res.ofOpt_some, Res.ok_bind, Res.pure_eq]

/-! ## `io::bufio` -/

theorem exec_bufio (this : Option Nat)
    (x : List Val) (bufs : List Bytes) (hx : x.mapM (m := Option) Val.toBuf? = some bufs) :
    exec fs "io::bufio" this ⟨[], x⟩ h = .ok (.obj h.length "io::BufIO", h ++ [.bufio (concatParts bufs) 0]) := by
  exec_arm
  simp only [joinExtra_concat x bufs hx, Res.ok_bind, Res.pure_eq, allocObj, Obj.cls]

theorem exec_bufio_read (buf : Bytes) (taken : Nat) (i : Nat) (hi : h[i]? = some (.bufio buf taken))
    (v : Val) (n : Nat) (hv : v.toNat? = some n) :
    exec fs "io::BufIO.read" (some i) ⟨[v], []⟩ h =
      .ok (.str ((buf.drop taken).take (min (buf.length - taken) n)),
           setObj h i (.bufio buf (taken + min (buf.length - taken) n))) := by
  exec_arm
  simp only [getThis_some h i _ hi, toU64_of hv, Res.ofOpt_some, Res.ok_bind, Res.pure_eq]

theorem exec_bufio_read_all (buf : Bytes) (taken : Nat) (i : Nat) (hi : h[i]? = some (.bufio buf taken)) :
    exec fs "io::BufIO.read_all" (some i) ⟨[], []⟩ h =
      .ok (.str (buf.drop taken), setObj h i (.bufio buf buf.length)) := by
  exec_arm
  simp only [getThis_some h i _ hi, Res.ok_bind, Res.pure_eq]

end arms
end Resynth.Payload
