import Resynth.Model.Stdlib
/-!
# Payload fidelity of the packet builders: every frame is `headers ++ payload`

For each payload-carrying builder of `Model/Tcp.lean` / `Model/Flows.lean` the header bytes are
given a name (`…Hdr`), the frame is shown to be *exactly* `hdr ++ payload` and the header length is
computed.  Nothing here depends on the payload length: the statements hold for every byte string,
including those whose length overflows the 16-bit length fields.
-/
namespace Resynth.Payload
open Resynth

/-- length of the optional Ethernet header -/
def ethLen (raw : Bool) : Nat := if raw then 0 else 14

@[simp] theorem ethLen_true : ethLen true = 0 := rfl
@[simp] theorem ethLen_false : ethLen false = 14 := rfl

theorem ipSer_len (h : IpHdr) : h.serialize.length = 20 := rfl
theorem tcpSer_len (h : TcpHdr) : h.serialize.length = 20 := rfl
theorem udpSer_len (h : UdpHdr) : h.serialize.length = 8 := rfl
theorem macOfIp_len (ip : Nat) : (macOfIp ip).length = 6 := rfl
theorem ethHdr_len (d s : Bytes) (p : Nat) : (ethHdr d s p).length = d.length + s.length + 2 := by
  simp [ethHdr, be16]; omega

theorem optEth_len (raw : Bool) (e : Bytes) (he : e.length = 14) :
    (if raw then ([] : Bytes) else e).length = ethLen raw := by
  cases raw <;> simp [he]

/-! ## TCP -/

/-- everything of a TCP frame that precedes the payload -/
def tcpSegHdr (s : TcpSeg) : Bytes := (if s.raw then [] else s.eth) ++ s.ip.serialize ++ s.tcp.serialize

theorem tcpSeg_frame (s : TcpSeg) : s.frame = tcpSegHdr s ++ s.data := by
  simp [TcpSeg.frame, TcpSeg.segment, tcpSegHdr, List.append_assoc]

theorem tcpSegHdr_len (s : TcpSeg) (he : s.eth.length = 14) : (tcpSegHdr s).length = ethLen s.raw + 40 := by
  unfold tcpSegHdr
  rw [List.length_append, List.length_append, optEth_len _ _ he, ipSer_len, tcpSer_len]

/-- the data segment a flow builds for `bytes`: it carries exactly `bytes` -/
theorem clSeg_data (f : TcpFlow) (bytes : Bytes) (fo : Nat) : ((f.clSeg bytes fo).tcpCsum).data = bytes := rfl
theorem svSeg_data (f : TcpFlow) (bytes : Bytes) (fo : Nat) : ((f.svSeg bytes fo).tcpCsum).data = bytes := rfl
theorem clSeg_raw (f : TcpFlow) (bytes : Bytes) (fo : Nat) : ((f.clSeg bytes fo).tcpCsum).raw = f.raw := rfl
theorem svSeg_raw (f : TcpFlow) (bytes : Bytes) (fo : Nat) : ((f.svSeg bytes fo).tcpCsum).raw = f.raw := rfl
theorem clSeg_eth (f : TcpFlow) (bytes : Bytes) (fo : Nat) : ((f.clSeg bytes fo).tcpCsum).eth.length = 14 := rfl
theorem svSeg_eth (f : TcpFlow) (bytes : Bytes) (fo : Nat) : ((f.svSeg bytes fo).tcpCsum).eth.length = 14 := rfl

theorem clSeg_frame (f : TcpFlow) (bytes : Bytes) (fo : Nat) :
    ∃ h, ((f.clSeg bytes fo).tcpCsum).frame = h ++ bytes ∧ h.length = ethLen f.raw + 40 := by
  refine ⟨tcpSegHdr (f.clSeg bytes fo).tcpCsum, ?_, ?_⟩
  · rw [tcpSeg_frame, clSeg_data]
  · rw [tcpSegHdr_len _ (clSeg_eth f bytes fo), clSeg_raw]

theorem svSeg_frame (f : TcpFlow) (bytes : Bytes) (fo : Nat) :
    ∃ h, ((f.svSeg bytes fo).tcpCsum).frame = h ++ bytes ∧ h.length = ethLen f.raw + 40 := by
  refine ⟨tcpSegHdr (f.svSeg bytes fo).tcpCsum, ?_, ?_⟩
  · rw [tcpSeg_frame, svSeg_data]
  · rw [tcpSegHdr_len _ (svSeg_eth f bytes fo), svSeg_raw]

/-- first frame of `client_message` -/
theorem clientMessage_frames (f : TcpFlow) (bytes : Bytes) (sa : Bool) (fo : Nat) :
    ∃ rest, (f.clientMessage bytes sa fo).2 = ((f.clSeg bytes fo).tcpCsum).frame :: rest ∧
      rest.length = if sa then 1 else 0 := by
  cases sa
  · exact ⟨[], rfl, rfl⟩
  · exact ⟨_, rfl, rfl⟩

theorem serverMessage_frames (f : TcpFlow) (bytes : Bytes) (sa : Bool) (fo : Nat) :
    ∃ rest, (f.serverMessage bytes sa fo).2 = ((f.svSeg bytes fo).tcpCsum).frame :: rest ∧
      rest.length = if sa then 1 else 0 := by
  cases sa
  · exact ⟨[], rfl, rfl⟩
  · exact ⟨_, rfl, rfl⟩

theorem clientDataSegment_seg (f : TcpFlow) (bytes : Bytes) :
    (f.clientDataSegment bytes).2 = (f.clSeg bytes 0).tcpCsum := rfl
theorem serverDataSegment_seg (f : TcpFlow) (bytes : Bytes) :
    (f.serverDataSegment bytes).2 = (f.svSeg bytes 0).tcpCsum := rfl

/-! ## UDP -/

def udpDgramHdr (d : UdpDgram) : Bytes :=
  (if d.raw then [] else ethHdr d.ethDst d.ethSrc 0x0800) ++ d.ip.serialize ++ d.udp.serialize

theorem udpDgram_frame (d : UdpDgram) : d.frame = udpDgramHdr d ++ d.data := by
  simp [UdpDgram.frame, UdpDgram.dgram, udpDgramHdr, List.append_assoc]

theorem udpDgramHdr_len (d : UdpDgram) (h1 : d.ethDst.length = 6) (h2 : d.ethSrc.length = 6) :
    (udpDgramHdr d).length = ethLen d.raw + 28 := by
  unfold udpDgramHdr
  rw [List.length_append, List.length_append,
    optEth_len _ _ (by rw [ethHdr_len, h1, h2]), ipSer_len, udpSer_len]

/-- the datagram after `new.src.dst.push`: data, raw flag, MAC lengths -/
theorem udpBase (raw : Bool) (a b : Sock) (bytes : Bytes) :
    let d := (((UdpDgram.new raw).src a).dst b).push bytes
    d.data = bytes ∧ d.raw = raw ∧ d.ethDst.length = 6 ∧ d.ethSrc.length = 6 :=
  ⟨rfl, rfl, rfl, rfl⟩

theorem udp_frame_of (d : UdpDgram) (bytes : Bytes) (raw : Bool)
    (h : d.data = bytes ∧ d.raw = raw ∧ d.ethDst.length = 6 ∧ d.ethSrc.length = 6) :
    ∃ hd, d.frame = hd ++ bytes ∧ hd.length = ethLen raw + 28 := by
  obtain ⟨h0, h1, h2, h3⟩ := h
  refine ⟨udpDgramHdr d, ?_, ?_⟩
  · rw [udpDgram_frame, h0]
  · rw [udpDgramHdr_len d h2 h3, h1]

theorem udp_dgram_of (d : UdpDgram) (bytes : Bytes) (h : d.data = bytes) :
    ∃ hd, d.dgram = hd ++ bytes ∧ hd.length = 8 :=
  ⟨d.udp.serialize, by rw [UdpDgram.dgram, h], udpSer_len _⟩

/-! ## ICMP -/

theorem icmpEcho_frame (src dst : Nat) (raw : Bool) (typ id seq : Nat) (bytes : Bytes) :
    ∃ hd, icmpEcho src dst raw typ id seq bytes = hd ++ bytes ∧ hd.length = ethLen raw + 28 := by
  refine ⟨(if raw then [] else ethHdr (macOfIp dst) (macOfIp src) 0x0800) ++
      (((({ protocol := Proto.icmp, totLen := 28, saddr := src, daddr := dst } : IpHdr).calcCsum).addTotLen
        (bytes.length % 65536)).calcCsum).serialize ++
      [b8 typ, 0] ++ be16 (ipCsum ([b8 typ, 0, 0, 0] ++ (be16 id ++ be16 seq ++ bytes))) ++ (be16 id ++ be16 seq),
    ?_, ?_⟩
  · simp [icmpEcho, List.append_assoc]
  · cases raw <;> rfl

/-! ## raw IP -/

theorem ipDgramFrag_frame (h : IpHdr) (payload : Bytes) (raw : Bool) (off : Nat) (mf : Bool) :
    ∃ hd, ipDgramFrag h payload raw off mf = hd ++ payload ∧ hd.length = ethLen raw + 20 := by
  refine ⟨(if raw then [] else ethHdr (macOfIp h.daddr) (macOfIp h.saddr) 0x0800) ++
    (((({ h with totLen := (payload.length % 65536 + 20) % 65536 } : IpHdr).setFragOff off).setMf mf).calcCsum).serialize,
    rfl, ?_⟩
  cases raw <;> rfl

theorem ipv4Datagram_frame (src dst id : Nat) (evil df mf : Bool) (ttl fo proto : Nat) (data : Bytes) :
    ∃ hd, ipv4Datagram src dst id evil df mf ttl fo proto data = hd ++ data ∧ hd.length = 34 :=
  ⟨_, rfl, rfl⟩

/-! ## GRE family -/

def greHdr (g : GreFrame) : Bytes :=
  (if g.raw then [] else g.eth) ++ g.ip.serialize ++ g.gre ++ (g.seqHdr.getD [])

theorem gre_frame (g : GreFrame) : g.frame = greHdr g ++ g.body := rfl

/-- length of the optional GRE sequence-number word -/
def greSeqLen (flags : Nat) : Nat := if flags &&& 0x1000 != 0 then 4 else 0

theorem greNew_hdr_len (src dst flags proto : Nat) (raw : Bool) (n : Nat) :
    (greHdr ((GreFrame.new src dst flags proto raw).seq n)).length = ethLen raw + 24 + greSeqLen flags := by
  unfold greHdr GreFrame.seq GreFrame.new greSeqLen
  cases raw <;> by_cases hf : (flags &&& 0x1000 != 0) = true <;> simp [hf, ethHdr, macOfIp, be32, be16, zeros, IpHdr.serialize]

theorem greNew_hdr_len' (src dst flags proto : Nat) (raw : Bool) :
    (greHdr (GreFrame.new src dst flags proto raw)).length = ethLen raw + 24 + greSeqLen flags := by
  unfold greHdr GreFrame.new greSeqLen
  cases raw <;> by_cases hf : (flags &&& 0x1000 != 0) = true <;> simp [hf, ethHdr, macOfIp, be32, be16, zeros, IpHdr.serialize]

theorem grePush_frame (g : GreFrame) (bytes : Bytes) :
    (g.push bytes).frame = greHdr (g.push bytes) ++ g.body ++ bytes := by
  rw [gre_frame]; simp [GreFrame.push, List.append_assoc]

theorem grePush_hdr_len (g : GreFrame) (bytes : Bytes) : (greHdr (g.push bytes)).length = (greHdr g).length := by
  unfold greHdr
  simp only [List.length_append, ipSer_len]
  rfl

/-- pushing `bytes` onto a GRE frame whose headers and body so far are `N` bytes long -/
theorem grePush_suffix (g : GreFrame) (bytes : Bytes) (N : Nat) (hN : (greHdr g).length + g.body.length = N) :
    ∃ hd, (g.push bytes).frame = hd ++ bytes ∧ hd.length = N :=
  ⟨greHdr (g.push bytes) ++ g.body, grePush_frame g bytes, by
    rw [List.length_append, grePush_hdr_len, hN]⟩

theorem grePush_body (g : GreFrame) (bytes : Bytes) : (g.push bytes).body = g.body ++ bytes := rfl

end Resynth.Payload
