import Resynth.Lemmas.InterpBasic
/-!
# Instrumented evaluator: which `exec` calls happen, in which order, on which heap

`evalT`/`evalArgsT` are `eval`/`evalArgs` (Model/Interp.lean) with the same text, run in a
writer-over-`Res` monad that records every call of `exec` (also on failing runs).
`evalT_fst`/`evalArgsT_fst` show that forgetting the trace gives back `eval`/`evalArgs`.
-/
namespace Resynth.Sem

/-- one call of `exec`: its inputs and what it returned -/
structure ExecEv where
  path : String
  this : Option Nat
  av : ArgVec
  heapIn : Heap
  out : Res (Val × Heap)

/-- result plus the `exec` calls performed so far (kept on failure too) -/
structure TRes (α : Type) where
  res : Res α
  trace : List ExecEv

namespace TRes
def lift {α} (x : Res α) : TRes α := ⟨x, []⟩
def bind' {α β} (x : TRes α) (f : α → TRes β) : TRes β :=
  match x.res with
  | .ok a => ⟨(f a).res, x.trace ++ (f a).trace⟩
  | .err e l => ⟨.err e l, x.trace⟩
  | .panic s => ⟨.panic s, x.trace⟩
instance : Monad TRes where
  pure a := ⟨.ok a, []⟩
  bind := bind'

theorem bind_def {α β} (x : TRes α) (f : α → TRes β) : (x >>= f) = bind' x f := rfl
theorem pure_def {α} (a : α) : (pure a : TRes α) = ⟨.ok a, []⟩ := rfl

@[simp] theorem res_lift {α} (x : Res α) : (lift x).res = x := rfl
@[simp] theorem trace_lift {α} (x : Res α) : (lift x).trace = [] := rfl
@[simp] theorem res_pure {α} (a : α) : (pure a : TRes α).res = .ok a := rfl
@[simp] theorem trace_pure {α} (a : α) : (pure a : TRes α).trace = [] := rfl

theorem res_bind {α β} (x : TRes α) (f : α → TRes β) : (x >>= f).res = (x.res >>= fun a => (f a).res) := by
  obtain ⟨r, t⟩ := x
  cases r <;> rfl

theorem trace_bind {α β} (x : TRes α) (f : α → TRes β) :
    (x >>= f).trace = x.trace ++ (match x.res with | .ok a => (f a).trace | _ => []) := by
  obtain ⟨r, t⟩ := x
  cases r <;> simp [bind_def, bind']

theorem lift_bind {α β} (r : Res α) (f : α → TRes β) :
    (lift r >>= f) = match r with
      | .ok a => f a
      | .err e l => ⟨.err e l, []⟩
      | .panic s => ⟨.panic s, []⟩ := by
  cases r <;> simp [bind_def, bind', lift]

theorem ok_bind {α β} (a : α) (t : List ExecEv) (f : α → TRes β) :
    ((⟨.ok a, t⟩ : TRes α) >>= f) = ⟨(f a).res, t ++ (f a).trace⟩ := rfl
end TRes

/-- `bindAndExec`, recording the `exec` call -/
def bindAndExecT (env : Env) (st : PState) (f : FuncDef) (this : Option Nat) (args : List ArgSpec) :
    TRes (Val × PState) :=
  match Bind.argvec f args with
  | .typeError _ => TRes.lift (.err .type_ st.loc)
  | .panic s => TRes.lift (.panic s)
  | .ok av =>
    let r := exec env.fs f.path this av st.heap
    ⟨(match r with
      | .ok (v, h) =>
        if v.valType != f.returnType then .panic "debug_assert!(ret.val_type() == func.return_type)"
        else .ok (v, { st with heap := h })
      | .err e _ => .err e st.loc
      | .panic s => .panic s),
     [⟨f.path, this, av, st.heap, r⟩]⟩

theorem bindAndExecT_fst (env : Env) (st : PState) (f : FuncDef) (this : Option Nat) (args : List ArgSpec) :
    (bindAndExecT env st f this args).res = bindAndExec env st f this args := by
  unfold bindAndExecT bindAndExec
  cases Bind.argvec f args <;> rfl

mutual
def evalT (env : Env) (st : PState) : Expr → TRes (Val × PState)
  | .nil => pure (.nil, st)
  | .lit loc v => pure (Val.ofLit v, { st with loc := loc })
  | .ref o => do
    let st := { st with loc := o.loc }
    let v ← TRes.lift (evalObjRef env st o)
    pure (v, st)
  | .call o args => do
    let st := { st with loc := o.loc }
    let callee ← TRes.lift (evalObjRef env st o)
    match callee with
    | .func path =>
      let (argv, st) ← evalArgsT env st args
      let f ← TRes.lift (funcOf env path)
      bindAndExecT env st f none argv
    | .method id _ path =>
      let (argv, st) ← evalArgsT env st args
      let f ← TRes.lift (funcOf env path)
      bindAndExecT env st f (some id) argv
    | _ => TRes.lift (.err .type_ st.loc)
  | .slash a b => do
    let (av, st) ← evalT env st a
    if av.valType != .ip4 then TRes.lift (.err .type_ st.loc) else
    let aLoc := st.loc
    let (bv, st) ← evalT env st b
    if !bv.valType.isIntegral then TRes.lift (.err .type_ st.loc) else
    TRes.lift (match av.toIp?, bv.toNat? with
    | some ip, some port =>
      if port > 65535 then .err .type_ st.loc
      else .ok (.sock4 ip port, { st with loc := aLoc })
    | _, _ => .panic "slash conversion")

def evalArgsT (env : Env) (st : PState) : Args → TRes (List ArgSpec × PState)
  | .nil => pure ([], st)
  | .cons n e rest => do
    let (v, st) ← evalT env st e
    let (vs, st) ← evalArgsT env st rest
    pure (⟨n, v⟩ :: vs, st)
end

/-! ## forgetting the trace gives the model's evaluator -/

mutual
theorem evalT_fst (env : Env) : ∀ (e : Expr) (st : PState), (evalT env st e).res = eval env st e
  | .nil, st => rfl
  | .lit _ _, st => rfl
  | .ref o, st => by
    simp only [evalT, eval, TRes.res_bind, TRes.res_lift, TRes.res_pure]; rfl
  | .call o args, st => by
    simp only [evalT, eval, TRes.res_bind, TRes.res_lift]
    congr 1
    funext callee
    cases callee <;> simp only [TRes.res_lift, TRes.res_bind, evalArgsT_fst env args, bindAndExecT_fst]
  | .slash a b, st => by
    simp only [evalT, eval, TRes.res_bind, evalT_fst env a]
    congr 1
    funext r
    split
    · rfl
    · simp only [TRes.res_bind, evalT_fst env b]
      congr 1
      funext r2
      split
      · rfl
      · rfl
theorem evalArgsT_fst (env : Env) : ∀ (a : Args) (st : PState), (evalArgsT env st a).res = evalArgs env st a
  | .nil, st => rfl
  | .cons n e rest, st => by
    simp only [evalArgsT, evalArgs, TRes.res_bind, evalT_fst env e, evalArgsT_fst env rest]
    rfl
end

/-! ## leaves perform no `exec` -/

theorem evalT_nil_trace (env : Env) (st : PState) : (evalT env st .nil).trace = [] := rfl
theorem evalT_lit_trace (env : Env) (st : PState) (l : Loc) (v : Lit) : (evalT env st (.lit l v)).trace = [] := rfl
theorem evalT_ref_trace (env : Env) (st : PState) (o : ObjRef) : (evalT env st (.ref o)).trace = [] := by
  simp only [evalT, TRes.lift_bind]
  cases evalObjRef env { st with loc := o.loc } o <;> rfl

/-! ## arguments: left to right, each exactly once, each in the state left by the previous one -/

theorem evalArgsT_cons (env : Env) (st : PState) (n : Option String) (e : Expr) (rest : Args) :
    evalArgsT env st (.cons n e rest) =
      match evalT env st e with
      | ⟨.ok (v, st1), t1⟩ =>
        (match evalArgsT env st1 rest with
         | ⟨.ok (vs, st2), t2⟩ => ⟨.ok (⟨n, v⟩ :: vs, st2), t1 ++ t2⟩
         | ⟨.err k l, t2⟩ => ⟨.err k l, t1 ++ t2⟩
         | ⟨.panic s, t2⟩ => ⟨.panic s, t1 ++ t2⟩)
      | ⟨.err k l, t1⟩ => ⟨.err k l, t1⟩
      | ⟨.panic s, t1⟩ => ⟨.panic s, t1⟩ := by
  simp only [evalArgsT]
  rcases evalT env st e with ⟨r1, t1⟩
  rcases r1 with ⟨v, st1⟩ | _ | _
  · simp only [TRes.ok_bind]
    rcases evalArgsT env st1 rest with ⟨r2, t2⟩
    rcases r2 with ⟨vs, st2⟩ | _ | _ <;> simp [TRes.bind_def, TRes.bind', TRes.pure_def]
  · rfl
  · rfl

/-- `ArgsRun env st args vs st' tr`: evaluating the argument list `args` from `st` evaluates the
first argument in `st`, the second in the state the first left, …; the values are `vs` (with
their names), the final state `st'`, and the `exec` trace is the concatenation of the
arguments' traces in source order. -/
inductive ArgsRun (env : Env) : PState → Args → List ArgSpec → PState → List ExecEv → Prop
  | nil (st : PState) : ArgsRun env st .nil [] st []
  | cons {st : PState} {n : Option String} {e : Expr} {rest : Args} {v : Val} {st1 : PState}
      {t1 : List ExecEv} {vs : List ArgSpec} {st2 : PState} {t2 : List ExecEv} :
      evalT env st e = ⟨.ok (v, st1), t1⟩ → ArgsRun env st1 rest vs st2 t2 →
      ArgsRun env st (.cons n e rest) (⟨n, v⟩ :: vs) st2 (t1 ++ t2)

theorem evalArgsT_ok_of_run {env : Env} {st : PState} {a : Args} {vs : List ArgSpec} {st' : PState}
    {t : List ExecEv} (h : ArgsRun env st a vs st' t) : evalArgsT env st a = ⟨.ok (vs, st'), t⟩ := by
  induction h with
  | nil st => rfl
  | cons h1 _ ih => rw [evalArgsT_cons, h1]; simp only; rw [ih]

theorem run_of_evalArgsT_ok (env : Env) : ∀ (a : Args) (st : PState) (vs : List ArgSpec) (st' : PState)
    (t : List ExecEv), evalArgsT env st a = ⟨.ok (vs, st'), t⟩ → ArgsRun env st a vs st' t
  | .nil, st, vs, st', t, h => by
    simp only [evalArgsT, TRes.pure_def, TRes.mk.injEq, Res.ok.injEq, Prod.mk.injEq] at h
    obtain ⟨⟨rfl, rfl⟩, rfl⟩ := h
    exact .nil st
  | .cons n e rest, st, vs, st', t, h => by
    rw [evalArgsT_cons] at h
    rcases h1 : evalT env st e with ⟨r1, t1⟩
    rw [h1] at h
    rcases r1 with ⟨v, st1⟩ | _ | _
    · simp only at h
      rcases h2 : evalArgsT env st1 rest with ⟨r2, t2⟩
      rw [h2] at h
      rcases r2 with ⟨vs2, st2⟩ | _ | _
      · simp only [TRes.mk.injEq, Res.ok.injEq, Prod.mk.injEq] at h
        obtain ⟨⟨rfl, rfl⟩, rfl⟩ := h
        exact .cons h1 (run_of_evalArgsT_ok env rest _ _ _ _ h2)
      · simp at h
      · simp at h
    · simp at h
    · simp at h

theorem evalArgsT_ok_iff (env : Env) (a : Args) (st : PState) (vs : List ArgSpec) (st' : PState)
    (t : List ExecEv) : evalArgsT env st a = ⟨.ok (vs, st'), t⟩ ↔ ArgsRun env st a vs st' t :=
  ⟨run_of_evalArgsT_ok env a st vs st' t, evalArgsT_ok_of_run⟩

/-! ## calls: arguments first, then the call itself -/

/-- library path and receiver of a callable value -/
def calleeOf : Val → Option (String × Option Nat)
  | .func p => some (p, none)
  | .method id _ p => some (p, some id)
  | _ => none

theorem evalT_call (env : Env) (st : PState) (o : ObjRef) (args : Args) :
    evalT env st (.call o args) =
      (TRes.lift (evalObjRef env { st with loc := o.loc } o) >>= fun callee =>
        match calleeOf callee with
        | some (path, this) =>
          evalArgsT env { st with loc := o.loc } args >>= fun r =>
          TRes.lift (funcOf env path) >>= fun f => bindAndExecT env r.2 f this r.1
        | none => TRes.lift (.err .type_ o.loc)) := by
  simp only [evalT]
  congr 1
  funext callee
  cases callee <;> rfl

/-- the trace of any call expression (successful or not): the arguments' trace, then the call -/
theorem evalT_call_trace (env : Env) (st : PState) (o : ObjRef) (args : Args) (callee : Val)
    (path : String) (this : Option Nat)
    (hc : evalObjRef env { st with loc := o.loc } o = .ok callee) (hp : calleeOf callee = some (path, this)) :
    (evalT env st (.call o args)).trace =
      (evalArgsT env { st with loc := o.loc } args).trace ++
        (match (evalArgsT env { st with loc := o.loc } args).res with
         | .ok (argv, st2) =>
           (match funcOf env path with
            | .ok f => (bindAndExecT env st2 f this argv).trace
            | _ => [])
         | _ => []) := by
  rw [evalT_call, hc, TRes.lift_bind]
  simp only [hp, TRes.trace_bind]
  congr 1
  rcases (evalArgsT env { st with loc := o.loc } args).res with ⟨argv, st2⟩ | _ | _
  · cases funcOf env path <;> simp
  · rfl
  · rfl

theorem bindAndExecT_trace (env : Env) (st : PState) (f : FuncDef) (this : Option Nat) (args : List ArgSpec) :
    (bindAndExecT env st f this args).trace =
      match Bind.argvec f args with
      | .ok av => [⟨f.path, this, av, st.heap, exec env.fs f.path this av st.heap⟩]
      | _ => [] := by
  unfold bindAndExecT
  cases Bind.argvec f args <;> rfl

theorem bindAndExec_ok {env : Env} {st : PState} {f : FuncDef} {this : Option Nat} {args : List ArgSpec}
    {v : Val} {st' : PState} (h : bindAndExec env st f this args = .ok (v, st')) :
    ∃ av h', Bind.argvec f args = .ok av ∧ exec env.fs f.path this av st.heap = .ok (v, h') ∧
      st' = { st with heap := h' } := by
  unfold bindAndExec at h
  split at h <;> try (simp at h; done)
  rename_i av hav
  split at h <;> try (simp at h; done)
  rename_i v' h' hex
  split at h <;> try (simp at h; done)
  simp only [Res.ok.injEq, Prod.mk.injEq] at h
  obtain ⟨rfl, rfl⟩ := h
  exact ⟨av, h', hav, hex, rfl⟩

/-- a successful call: the callee is resolved first (no `exec`), then the arguments run left to
right (`ArgsRun`), then `exec` is called once, on the heap the last argument left; the trace is
the arguments' trace followed by that one call. -/
theorem evalT_call_ok {env : Env} {st : PState} {o : ObjRef} {args : Args} {v : Val} {st' : PState}
    {tr : List ExecEv} (h : evalT env st (.call o args) = ⟨.ok (v, st'), tr⟩) :
    ∃ callee path this argv st2 trA f av h',
      evalObjRef env { st with loc := o.loc } o = .ok callee ∧ calleeOf callee = some (path, this) ∧
      ArgsRun env { st with loc := o.loc } args argv st2 trA ∧
      funcOf env path = .ok f ∧ Bind.argvec f argv = .ok av ∧
      exec env.fs f.path this av st2.heap = .ok (v, h') ∧ st' = { st2 with heap := h' } ∧
      tr = trA ++ [⟨f.path, this, av, st2.heap, .ok (v, h')⟩] := by
  rw [evalT_call, TRes.lift_bind] at h
  rcases hc : evalObjRef env { st with loc := o.loc } o with callee | _ | _
  · rw [hc] at h
    simp only at h
    rcases hp : calleeOf callee with _ | ⟨path, this⟩
    · rw [hp] at h; simp [TRes.lift] at h
    · rw [hp] at h
      simp only at h
      rcases ha : evalArgsT env { st with loc := o.loc } args with ⟨ra, trA⟩
      rw [ha] at h
      rcases ra with ⟨argv, st2⟩ | _ | _
      · rw [TRes.ok_bind, TRes.lift_bind] at h
        rcases hf : funcOf env path with f | _ | _
        · rw [hf] at h
          simp only [TRes.mk.injEq] at h
          obtain ⟨h1, h2⟩ := h
          rw [bindAndExecT_fst] at h1
          obtain ⟨av, h', hav, hex, hst⟩ := bindAndExec_ok h1
          rw [bindAndExecT_trace, hav] at h2
          simp only at h2
          rw [hex] at h2
          exact ⟨callee, path, this, argv, st2, trA, f, av, h', rfl, hp,
            (evalArgsT_ok_iff ..).1 ha, hf, hav, hex, hst, h2.symm⟩
        · rw [hf] at h; simp at h
        · rw [hf] at h; simp at h
      · simp [TRes.bind_def, TRes.bind'] at h
      · simp [TRes.bind_def, TRes.bind'] at h
  · rw [hc] at h; simp at h
  · rw [hc] at h; simp at h

/-! ## the heap is threaded: each `exec` sees the heap the previous one left -/

/-- `HeapChain h tr h'`: starting from heap `h`, every call in `tr` receives the heap returned by
the previous call (the first receives `h`), all succeed, and the last returns `h'`. -/
def HeapChain : Heap → List ExecEv → Heap → Prop
  | h, [], h' => h = h'
  | h, ev :: r, h' => ev.heapIn = h ∧ ∃ v h1, ev.out = .ok (v, h1) ∧ HeapChain h1 r h'

/-- the same for a run that may have failed: a failing `exec` is the last one -/
def HeapChainPre : Heap → List ExecEv → Prop
  | _, [] => True
  | h, ev :: r => ev.heapIn = h ∧
      ((∃ v h1, ev.out = .ok (v, h1) ∧ HeapChainPre h1 r) ∨ ((∀ v h1, ev.out ≠ .ok (v, h1)) ∧ r = []))

/-- every recorded event is a genuine call of the model's `exec` -/
def Faithful (env : Env) (tr : List ExecEv) : Prop :=
  ∀ ev ∈ tr, ev.out = exec env.fs ev.path ev.this ev.av ev.heapIn

theorem HeapChain.append : ∀ {t1 t2 : List ExecEv} {h h1 h2 : Heap},
    HeapChain h t1 h1 → HeapChain h1 t2 h2 → HeapChain h (t1 ++ t2) h2
  | [], _, _, _, _, a, b => by simp only [HeapChain] at a; subst a; exact b
  | ev :: r, t2, h, h1, h2, a, b => by
    obtain ⟨e1, v, hm, e2, c⟩ := a
    exact ⟨e1, v, hm, e2, HeapChain.append c b⟩

theorem HeapChain.append_pre : ∀ {t1 t2 : List ExecEv} {h h1 : Heap},
    HeapChain h t1 h1 → HeapChainPre h1 t2 → HeapChainPre h (t1 ++ t2)
  | [], _, _, _, a, b => by simp only [HeapChain] at a; subst a; exact b
  | ev :: r, t2, h, h1, a, b => by
    obtain ⟨e1, v, hm, e2, c⟩ := a
    exact ⟨e1, Or.inl ⟨v, hm, e2, HeapChain.append_pre c b⟩⟩

theorem HeapChain.pre : ∀ {t : List ExecEv} {h h1 : Heap}, HeapChain h t h1 → HeapChainPre h t
  | [], _, _, _ => trivial
  | ev :: r, h, h1, a => by
    obtain ⟨e1, v, hm, e2, c⟩ := a
    exact ⟨e1, Or.inl ⟨v, hm, e2, c.pre⟩⟩

/-- invariant of a traced computation started on heap `h` -/
def TInv {α : Type} (env : Env) (h : Heap) (x : TRes (α × PState)) : Prop :=
  Faithful env x.trace ∧
  match x.res with
  | .ok (_, st') => HeapChain h x.trace st'.heap
  | _ => HeapChainPre h x.trace

theorem TInv.bind {α β : Type} {env : Env} {h : Heap} {x : TRes (α × PState)}
    {f : α × PState → TRes (β × PState)} (hx : TInv env h x)
    (hf : ∀ a st1, x.res = .ok (a, st1) → TInv env st1.heap (f (a, st1))) : TInv env h (x >>= f) := by
  obtain ⟨r, t⟩ := x
  rcases r with ⟨a, st1⟩ | _ | _
  · rw [TRes.ok_bind]
    obtain ⟨hfa, hc⟩ := hx
    obtain ⟨hfa2, hc2⟩ := hf a st1 rfl
    refine ⟨?_, ?_⟩
    · intro ev hev
      rcases List.mem_append.1 hev with h' | h'
      · exact hfa ev h'
      · exact hfa2 ev h'
    · simp only at hc hc2 ⊢
      rcases hr : (f (a, st1)).res with ⟨b, st2⟩ | _ | _
      · rw [hr] at hc2; exact hc.append hc2
      · rw [hr] at hc2; exact hc.append_pre hc2
      · rw [hr] at hc2; exact hc.append_pre hc2
  · exact hx
  · exact hx

theorem TInv.lift_err {α : Type} (env : Env) (h : Heap) (k : ErrKind) (l : Loc) :
    TInv (α := α) env h (TRes.lift (.err k l)) := ⟨(fun _ hev => nomatch hev), trivial⟩
theorem TInv.lift_panic {α : Type} (env : Env) (h : Heap) (s : String) :
    TInv (α := α) env h (TRes.lift (.panic s)) := ⟨(fun _ hev => nomatch hev), trivial⟩
theorem TInv.pure {α : Type} (env : Env) (a : α) (st : PState) :
    TInv env st.heap (Pure.pure (a, st) : TRes (α × PState)) := ⟨(fun _ hev => nomatch hev), rfl⟩

theorem bindAndExecT_inv (env : Env) (st : PState) (f : FuncDef) (this : Option Nat) (args : List ArgSpec) :
    TInv env st.heap (bindAndExecT env st f this args) := by
  unfold bindAndExecT
  rcases Bind.argvec f args with av | _ | _
  · simp only
    refine ⟨?_, ?_⟩
    · intro ev hev
      simp only [List.mem_singleton] at hev
      subst hev; rfl
    · simp only
      rcases hex : exec env.fs f.path this av st.heap with ⟨v, h'⟩ | _ | _
      · simp only
        by_cases hvt : (v.valType != f.returnType) = true
        · rw [if_pos hvt]; exact ⟨rfl, Or.inl ⟨v, h', rfl, trivial⟩⟩
        · rw [if_neg hvt]; exact ⟨rfl, v, h', rfl, rfl⟩
      · exact ⟨rfl, Or.inr ⟨by simp, rfl⟩⟩
      · exact ⟨rfl, Or.inr ⟨by simp, rfl⟩⟩
  · exact TInv.lift_err ..
  · exact TInv.lift_panic ..

mutual
theorem evalT_inv (env : Env) : ∀ (e : Expr) (st : PState), TInv env st.heap (evalT env st e)
  | .nil, st => TInv.pure env _ st
  | .lit l v, st => TInv.pure env _ { st with loc := l }
  | .ref o, st => by
    simp only [evalT, TRes.lift_bind]
    cases evalObjRef env { st with loc := o.loc } o
    · exact TInv.pure env _ { st with loc := o.loc }
    · exact TInv.lift_err ..
    · exact TInv.lift_panic ..
  | .call o args, st => by
    rw [evalT_call, TRes.lift_bind]
    rcases evalObjRef env { st with loc := o.loc } o with callee | _ | _
    · simp only
      rcases calleeOf callee with _ | ⟨path, this⟩
      · exact TInv.lift_err ..
      · simp only
        refine TInv.bind (evalArgsT_inv env args { st with loc := o.loc }) ?_
        intro argv st2 _
        rw [TRes.lift_bind]
        rcases funcOf env path with f | _ | _
        · exact bindAndExecT_inv ..
        · exact TInv.lift_err ..
        · exact TInv.lift_panic ..
    · exact TInv.lift_err ..
    · exact TInv.lift_panic ..
  | .slash a b, st => by
    simp only [evalT]
    refine TInv.bind (evalT_inv env a st) ?_
    intro av st1 _
    simp only
    split
    · exact TInv.lift_err ..
    · refine TInv.bind (evalT_inv env b st1) ?_
      intro bv st2 _
      simp only
      split
      · exact TInv.lift_err ..
      · split
        · split
          · exact TInv.lift_err ..
          · exact TInv.pure env _ { st2 with loc := st1.loc }
        · exact TInv.lift_panic ..
theorem evalArgsT_inv (env : Env) : ∀ (a : Args) (st : PState), TInv env st.heap (evalArgsT env st a)
  | .nil, st => TInv.pure env _ st
  | .cons n e rest, st => by
    simp only [evalArgsT]
    refine TInv.bind (evalT_inv env e st) ?_
    intro v st1 _
    refine TInv.bind (evalArgsT_inv env rest st1) ?_
    intro vs st2 _
    exact TInv.pure env _ st2
end

end Resynth.Sem
