import Resynth.Lemmas.ErrLocGroupFile
import Resynth.Props.C10
/-!
# Lines of a token group

The token stream of a file is sorted by line.  Hence a position in group `k` is on a line between the
line of the `;` that ends group `k - 1` (or any earlier token) and the line of the `;` that ends group `k`.
-/
namespace Resynth
open LR

theorem lexedToks_lines : ∀ (rest : List Bytes) (pending : Option String) (lno : Nat),
    (∀ t ∈ lexedToks pending lno rest, lno ≤ t.loc.line) ∧
    (lexedToks pending lno rest).Pairwise (fun a b => a.loc.line ≤ b.loc.line)
  | [], _, _ => by simp [lexedToks]
  | raw :: rest, pending, lno => by
    simp only [lexedToks]
    cases h1 : utf8Decode raw with
    | none => simp
    | some ln =>
      simp only []
      cases h2 : Lex.line lno pending ln with
      | error c => simp
      | ok lo =>
        simp only []
        have hl := C10.line_numbers lno pending ln lo h2
        obtain ⟨ih1, ih2⟩ := lexedToks_lines rest lo.pending (lno + 1)
        constructor
        · intro t ht
          rcases List.mem_append.1 ht with h | h
          · rw [hl t h]; exact Nat.le_refl _
          · exact Nat.le_of_succ_le (ih1 t h)
        · rw [List.pairwise_append]
          refine ⟨?_, ih2, ?_⟩
          · rw [List.pairwise_iff_forall_sublist]
            intro a b hab
            have ha := hl a (hab.subset (by simp))
            have hb := hl b (hab.subset (by simp))
            omega
          · intro a ha b hb
            have := ih1 b hb
            rw [hl a ha]; omega

theorem semis_take_mono (toks : List Tok) {a b : Nat} (h : a ≤ b) : semis (toks.take a) ≤ semis (toks.take b) := by
  have h1 : semis (toks.take b) = semis ((toks.take b).take a) + semis ((toks.take b).drop a) := by
    rw [← semis_append, List.take_append_drop]
  rw [List.take_take, Nat.min_eq_left h] at h1
  omega

theorem semis_take_succ (toks : List Tok) (j : Nat) (t : Tok) (h : toks[j]? = some t) :
    semis (toks.take (j + 1)) = semis (toks.take j) + (if (t.kind == .semi) = true then 1 else 0) := by
  rw [List.take_add_one, h, semis_append]
  simp only [Option.toList_some, semis_cons, semis_nil]
  omega

theorem pairwise_line {toks : List Tok} (hp : toks.Pairwise (fun a b => a.loc.line ≤ b.loc.line))
    {i j : Nat} {a b : Tok} (hij : i ≤ j) (ha : toks[i]? = some a) (hb : toks[j]? = some b) :
    a.loc.line ≤ b.loc.line := by
  rcases Nat.lt_or_eq_of_le hij with h | rfl
  · have hi : i < toks.length := by
      rcases Nat.lt_or_ge i toks.length with h | h
      · exact h
      · rw [List.getElem?_eq_none h] at ha; cases ha
    have hj : j < toks.length := by
      rcases Nat.lt_or_ge j toks.length with h | h
      · exact h
      · rw [List.getElem?_eq_none h] at hb; cases hb
    rw [List.getElem?_eq_getElem hi, Option.some.injEq] at ha
    rw [List.getElem?_eq_getElem hj, Option.some.injEq] at hb
    subst ha hb
    exact List.pairwise_iff_getElem.1 hp i j hi hj h
  · rw [ha] at hb; cases hb; exact Nat.le_refl _

/-- **a position of group `k` lies between the `;` before the group and the `;` that ends it**: every
`;` with fewer than `k` tokens `;` before it (the ones that end the groups before `k`) is on the same or
an earlier line, and the `;` with exactly `k` tokens `;` before it (the one that ends group `k`) is on the
same or a later line -/
theorem inGroup_lines (src : Bytes) (k : Nat) (l : Loc) (h : InGroup (fileToks src) k l) :
    (∀ (j : Nat) (t : Tok), (fileToks src)[j]? = some t → t.kind = .semi →
      semis ((fileToks src).take j) < k → t.loc.line ≤ l.line) ∧
    (∀ (j : Nat) (t : Tok), (fileToks src)[j]? = some t → t.kind = .semi →
      semis ((fileToks src).take j) = k → l.line ≤ t.loc.line) := by
  obtain ⟨i, ti, hi, rfl, hk⟩ := h
  have hp := (lexedToks_lines (splitLines src) none 1).2
  constructor
  · intro j t hj _ hs
    rcases Nat.lt_or_ge i j with hlt | hge
    · exfalso
      have := semis_take_mono (fileToks src) (Nat.le_of_lt hlt)
      omega
    · exact pairwise_line hp hge hj hi
  · intro j t hj hsemi hs
    rcases Nat.lt_or_ge j i with hlt | hge
    · exfalso
      have h1 := semis_take_succ (fileToks src) j t hj
      have h2 := semis_take_mono (fileToks src) (show j + 1 ≤ i from hlt)
      simp only [hsemi, beq_self_eq_true, if_true] at h1
      omega
    · exact pairwise_line hp hge hi hj

/-- a position of a group is on a line of the file -/
theorem inGroup_line_bound (src : Bytes) (k : Nat) (l : Loc) (h : InGroup (fileToks src) k l) :
    1 ≤ l.line := by
  obtain ⟨i, ti, hi, rfl, _⟩ := h
  exact (lexedToks_lines (splitLines src) none 1).1 ti (List.mem_of_getElem? hi)

end Resynth
