import Resynth.Lemmas.InterpInvStmt
import Resynth.Lemmas.StmtsKeep
import Resynth.Model.Cli
/-!
# Lemmas: `processFile` = front end (writer-independent) + batch execution

The lexer/parser part of `lineLoop` never looks at the interpreter state, so the per-line loop
factors into a *plan* (the statement batches the parser hands over, and how the front end ends)
computed from the source alone, and `execPlan`, which runs the batches.  All whole-run theorems
are proved on `execPlan`.
-/
namespace Resynth

/-- front-end part of `LoopSt` -/
structure Front where
  pending : Option String
  lexLoc : Loc
  cfg : LR.Cfg

/-- the statement batches produced line by line, and how the front end stops: `.error o` is a
lex/parse/decoding failure with the outcome to report, `.ok f` means all lines were consumed -/
def planLines (f : Front) (lno : Nat) : List Bytes → List (List Stmt) × Except Outcome Front
  | [] => ([], .ok f)
  | raw :: rest =>
    match utf8Decode raw with
    | none => ([], .error (.failure "Io" "" Loc.nil))
    | some ln =>
      match Lex.line lno f.pending ln with
      | .error col => ([], .error (.failure "Lex" "" ⟨lno, col⟩))
      | .ok lo =>
        match feedToks f.cfg lo.toks with
        | .error (some loc) => ([], .error (.failure "Parse" "" loc))
        | .error none => ([], .error (.panic "parser"))
        | .ok cfg =>
          let r := planLines ⟨lo.pending, ⟨lno, lo.endCol⟩, cfg.takeResults.2⟩ (lno + 1) rest
          (cfg.takeResults.1 :: r.1, r.2)

/-- run the batches, one statement at a time; a failing statement ends the run with the state reached
*at that statement* (the statements before it in the same batch have taken effect) -/
def runBatches (env : Env) (st : PState) : List (List Stmt) → Except FileRun PState
  | [] => .ok st
  | b :: bs =>
    match keepResult (addStmtsKeep env st b) with
    | .ok st' => runBatches env st' bs
    | .error r => .error r

/-- the three ways a batch can go -/
theorem keepResult_cases (k : Kept) :
    (∃ st', k = (st', none) ∧ keepResult k = .ok st') ∨
    (∃ st1 e loc, k = (st1, some (.inl (e, loc))) ∧
      keepResult k = .error (finish st1 (.failure e.cls (errDetail e) loc))) ∨
    (∃ st1 x, k = (st1, some (.inr x)) ∧ keepResult k = .error (finish st1 (.panic x))) := by
  rcases k with ⟨st1, _ | ⟨⟨e, loc⟩ | x⟩⟩
  · exact .inl ⟨st1, rfl, rfl⟩
  · exact .inr (.inl ⟨st1, e, loc, rfl, rfl⟩)
  · exact .inr (.inr ⟨st1, x, rfl, rfl⟩)

theorem lineLoop_eq (env : Env) : ∀ (lines : List Bytes) (ls : LoopSt) (lno : Nat),
    lineLoop env ls lno lines =
      match runBatches env ls.st (planLines ⟨ls.pending, ls.lexLoc, ls.cfg⟩ lno lines).1 with
      | .error r => .error r
      | .ok st =>
        match (planLines ⟨ls.pending, ls.lexLoc, ls.cfg⟩ lno lines).2 with
        | .error o => .error (finish st o)
        | .ok f => .ok ⟨f.pending, f.lexLoc, f.cfg, st⟩ := by
  intro lines
  induction lines with
  | nil => intro ls lno; simp [lineLoop, planLines, runBatches]
  | cons raw rest ih =>
    intro ls lno
    simp only [lineLoop, planLines]
    cases h1 : utf8Decode raw with
    | none => simp [runBatches]
    | some ln =>
      simp only []
      cases h2 : Lex.line lno ls.pending ln with
      | error col => simp [runBatches]
      | ok lo =>
        simp only []
        cases h3 : feedToks ls.cfg lo.toks with
        | error ol => cases ol <;> simp [runBatches]
        | ok cfg =>
          simp only [runStmts_eq, runBatches]
          cases h4 : keepResult (addStmtsKeep env ls.st cfg.takeResults.1) with
          | error r => simp
          | ok st' =>
            simp only []
            rw [ih]

/-- everything the front end contributes to a run -/
structure Plan where
  batches : List (List Stmt)
  /-- `some o`: the front end stops with outcome `o` after the batches; `none`: end of input
  (the literal still pending in the lexer, if any, then `EOF`), the parser accepted, the run ends with
  the final flush -/
  final : Option Outcome

/-- end of input: the literal the lexer still holds (`Lex.finish`), if any, goes to the parser -/
def feedPending (f : Front) : LR.Res LR.Cfg :=
  match Lex.finish f.pending f.lexLoc with
  | some t => LR.feed f.cfg t
  | none => .ok f.cfg

def planOf (src : Bytes) : Plan :=
  let r := planLines ⟨none, Loc.nil, LR.Cfg.init⟩ 1 (splitLines src)
  match r.2 with
  | .error o => ⟨r.1, some o⟩
  | .ok f =>
    match feedPending f with
    | .parseError => ⟨r.1, some (.failure "Parse" "" f.lexLoc)⟩
    | .panic => ⟨r.1, some (.panic "parser")⟩
    | .ok cfg0 =>
    match LR.feed cfg0 LR.eofTok with
    | .parseError => ⟨r.1, some (.failure "Parse" "" f.lexLoc)⟩
    | .panic => ⟨r.1, some (.panic "parser")⟩
    | .ok cfg => ⟨r.1 ++ [cfg.takeResults.1], none⟩

/-- the writer after `PcapWriter::create` wrote the file header -/
def wr0 (budget : Option Nat) : BufW := (({ budget := budget } : BufW).writeAll Pcap.header).1

def st0 (budget : Option Nat) : PState := { wr := wr0 budget }

/-- run the batches `bs` from state `st`, then end the run as `fin` says -/
def execFrom (env : Env) (fin : Option Outcome) (st : PState) (bs : List (List Stmt)) : FileRun :=
  match runBatches env st bs with
  | .error r => r
  | .ok st =>
    match fin with
    | some o => finish st o
    | none =>
      if st.wr.flushBuf.2 = true then finish { st with wr := st.wr.flushBuf.1 } .success
      else finish { st with wr := st.wr.flushBuf.1 } (.failure "Io" "" Loc.nil)

def execPlan (env : Env) (budget : Option Nat) (p : Plan) : FileRun :=
  execFrom env p.final (st0 budget) p.batches

theorem header_write (budget : Option Nat) :
    (({ budget := budget } : BufW).writeAll Pcap.header) =
      ({ buf := Pcap.header, budget := budget }, true) := by
  rw [BufW.writeAll_eq]
  simp [header_length]

theorem wr0_eq (budget : Option Nat) : wr0 budget = { buf := Pcap.header, budget := budget } := by
  simp [wr0, header_write]

theorem runBatches_append (env : Env) (bs cs : List (List Stmt)) : ∀ (st : PState),
    runBatches env st (bs ++ cs) =
      match runBatches env st bs with
      | .error r => .error r
      | .ok st' => runBatches env st' cs := by
  induction bs with
  | nil => intro st; simp [runBatches]
  | cons a bs ih =>
    intro st
    simp only [List.cons_append, runBatches]
    cases keepResult (addStmtsKeep env st a) with
    | error r => simp
    | ok st' => simp only []; rw [ih]

/-- the batch boundaries do not matter: running the batches is running the flattened statement list
as one batch — also for the state a failing run stops in -/
theorem runBatches_flatten (env : Env) : ∀ (bs : List (List Stmt)) (st : PState),
    runBatches env st bs = keepResult (addStmtsKeep env st bs.flatten)
  | [], st => rfl
  | b :: bs, st => by
    simp only [runBatches, List.flatten_cons, addStmtsKeep_append]
    rcases addStmtsKeep env st b with ⟨st1, _ | ⟨⟨e, loc⟩ | x⟩⟩
    · simp only [keepResult]; exact runBatches_flatten env bs st1
    · rfl
    · rfl

/-- Running batch by batch against `addStmts` on the flattened statement list: the same statements run,
the same one fails (if any) with the same error; the state reported on failure is the one in which the
failing STATEMENT was executed (all statements before it have taken effect). -/
theorem runBatches_addStmts (env : Env) (bs : List (List Stmt)) (st : PState) :
    match addStmts env st bs.flatten with
    | .ok st' => runBatches env st bs = .ok st'
    | .err e loc => ∃ pre s post st1, bs.flatten = pre ++ s :: post ∧ addStmts env st pre = .ok st1 ∧
        addStmt env st1 s = .err e loc ∧
        runBatches env st bs = .error (finish st1 (.failure e.cls (errDetail e) loc))
    | .panic x => ∃ pre s post st1, bs.flatten = pre ++ s :: post ∧ addStmts env st pre = .ok st1 ∧
        addStmt env st1 s = .panic x ∧
        runBatches env st bs = .error (finish st1 (.panic x)) := by
  rw [runBatches_flatten, addStmts_eq_of_keep]
  rcases hk : addStmtsKeep env st bs.flatten with ⟨st1, _ | ⟨⟨e, loc⟩ | x⟩⟩
  · rfl
  · obtain ⟨pre, s, post, h1, h2, h3⟩ := (addStmtsKeep_err_iff env _ st st1 e loc).1 hk
    exact ⟨pre, s, post, st1, h1, h2, h3, rfl⟩
  · obtain ⟨pre, s, post, h1, h2, h3⟩ := (addStmtsKeep_panic_iff env _ st st1 x).1 hk
    exact ⟨pre, s, post, st1, h1, h2, h3, rfl⟩

/-- batch boundaries do not matter for a run: it is the run of the flattened statement list -/
theorem execFrom_flatten (env : Env) (fin : Option Outcome) (st : PState) (bs : List (List Stmt)) :
    execFrom env fin st bs = execFrom env fin st [bs.flatten] := by
  simp only [execFrom, runBatches_flatten, List.flatten_cons, List.flatten_nil, List.append_nil]

theorem processFile_eq (env : Env) (budget : Option Nat) (src : Bytes) :
    processFile env budget src = execPlan env budget (planOf src) := by
  unfold processFile execPlan execFrom planOf
  simp only [header_write, Bool.not_true, Bool.false_eq_true, if_false, lineLoop_eq, st0, wr0_eq]
  generalize planLines ⟨none, Loc.nil, LR.Cfg.init⟩ 1 (splitLines src) = r
  obtain ⟨bs, fin⟩ := r
  cases fin with
  | error o =>
    simp only []
    cases runBatches env _ bs <;> simp
  | ok f =>
    obtain ⟨pend, floc, fcfg⟩ := f
    simp only []
    -- the parser after the end-of-input flush, in the form it has inside `processFile`
    have hfin : ∀ fp, feedPending ⟨pend, floc, fcfg⟩ = fp →
        (match pend with
          | some p => LR.feed fcfg ⟨.strLit, p, floc⟩
          | none => .ok fcfg) = fp := by
      intro fp h; cases pend <;> exact h
    cases hpend : feedPending ⟨pend, floc, fcfg⟩ with
    | parseError =>
      have h' := hfin _ hpend
      simp only []
      cases pend with
      | none => cases h'
      | some p =>
        simp only [] at h'
        cases runBatches env _ bs <;> simp [Lex.finish, h']
    | panic =>
      have h' := hfin _ hpend
      simp only []
      cases pend with
      | none => cases h'
      | some p =>
        simp only [] at h'
        cases runBatches env _ bs <;> simp [Lex.finish, h']
    | ok cfg0 =>
    have h' := hfin _ hpend
    have hL : (∃ p, pend = some p ∧ LR.feed fcfg ⟨.strLit, p, floc⟩ = .ok cfg0) ∨ (pend = none ∧ fcfg = cfg0) := by
      cases pend with
      | none => right; simpa using h'
      | some p => left; exact ⟨p, rfl, h'⟩
    clear h' hfin hpend
    simp only []
    cases hfeed : LR.feed cfg0 LR.eofTok with
    | parseError =>
      simp only []
      rcases hL with ⟨p, rfl, h'⟩ | ⟨rfl, rfl⟩ <;> cases runBatches env _ bs <;> simp [Lex.finish, *]
    | panic =>
      simp only []
      rcases hL with ⟨p, rfl, h'⟩ | ⟨rfl, rfl⟩ <;> cases runBatches env _ bs <;> simp [Lex.finish, *]
    | ok cfg =>
      simp only [runBatches_append]
      cases hb : runBatches env _ bs with
      | error r => simp
      | ok st =>
        rcases hL with ⟨p, rfl, h'⟩ | ⟨rfl, rfl⟩ <;>
        · simp only [Lex.finish, Option.map_some, Option.map_none, *, runStmts_eq, runBatches]
          cases keepResult (addStmtsKeep env st cfg.takeResults.1) with
          | error r => simp
          | ok st' =>
            simp only []

/-! ## invariants along a run -/

theorem runBatches_cases {env : Env} (P : PState → Prop)
    (step : ∀ st st' s, P st → addStmt env st s = .ok st' → P st') :
    ∀ (bs : List (List Stmt)) (st : PState), P st →
      match runBatches env st bs with
      | .ok st' => P st'
      | .error r => ∃ st1 o, P st1 ∧ r = finish st1 o ∧ o ≠ .success := by
  intro bs
  induction bs with
  | nil => intro st hp; simpa [runBatches] using hp
  | cons b bs ih =>
    intro st hp
    simp only [runBatches]
    have hk := addStmtsKeep_induct P step b st hp
    rcases keepResult_cases (addStmtsKeep env st b) with ⟨st', h1, h2⟩ | ⟨st1, e, loc, h1, h2⟩ | ⟨st1, x, h1, h2⟩
    · rw [h2]; rw [h1] at hk; exact ih st' hk
    · rw [h2]; rw [h1] at hk; exact ⟨st1, _, hk, rfl, by simp⟩
    · rw [h2]; rw [h1] at hk; exact ⟨st1, _, hk, rfl, by simp⟩

/-- how a run ends -/
inductive Ending (st : PState) : FileRun → Prop
  /-- stopped by an error/panic of a statement, or by the front end, in state `st` -/
  | stopped (o : Outcome) : Ending st (finish st o)
  /-- all statements ran; the final flush succeeded -/
  | flushed : st.wr.flushBuf.2 = true → Ending st (finish { st with wr := st.wr.flushBuf.1 } .success)
  /-- all statements ran; the final flush failed -/
  | flushFailed : st.wr.flushBuf.2 = false →
      Ending st (finish { st with wr := st.wr.flushBuf.1 } (.failure "Io" "" Loc.nil))

theorem execFrom_cases {env : Env} (P : PState → Prop)
    (step : ∀ st st' s, P st → addStmt env st s = .ok st' → P st') (fin : Option Outcome)
    (bs : List (List Stmt)) (st : PState) (h0 : P st) :
    ∃ st', P st' ∧ Ending st' (execFrom env fin st bs) := by
  unfold execFrom
  have := runBatches_cases P step bs st h0
  cases hr : runBatches env st bs with
  | error r =>
    rw [hr] at this
    obtain ⟨st1, o, hp, hr', _⟩ := this
    exact ⟨st1, hp, by simp only [hr']; exact .stopped o⟩
  | ok st' =>
    rw [hr] at this
    refine ⟨st', this, ?_⟩
    simp only []
    cases fin with
    | some o => exact .stopped o
    | none =>
      simp only []
      cases hf : st'.wr.flushBuf.2 with
      | true => simp only [if_true]; exact .flushed hf
      | false => simp only [Bool.false_eq_true, if_false]; exact .flushFailed hf

theorem execPlan_cases {env : Env} (P : PState → Prop)
    (step : ∀ st st' s, P st → addStmt env st s = .ok st' → P st') (budget : Option Nat) (p : Plan)
    (h0 : P (st0 budget)) : ∃ st, P st ∧ Ending st (execPlan env budget p) :=
  execFrom_cases P step p.final p.batches (st0 budget) h0

theorem st0_outInv : OutInv (st0 none) := by
  simp [OutInv, st0, wr0_eq, BufW.content, recsBytes]

theorem OutInv.flush {st : PState} (h : OutInv st) : OutInv { st with wr := st.wr.flushBuf.1 } := by
  obtain ⟨h1, h2⟩ := h
  refine ⟨?_, ?_⟩
  · simp [BufW.flushBuf_none _ h1, h1]
  · simp only [BufW.flushBuf_none _ h1, BufW.content, List.append_nil]
    exact h2

theorem OutInv.finish_file {st : PState} (h : OutInv st) (o : Outcome) :
    (finish st o).file = Pcap.header ++ recsBytes (finish st o).emitted := by
  simp only [finish, BufW.dropped_none _ h.1, h.2]

/-- On an unlimited device, whatever the outcome, the file is the header followed by the
records of the emitted list, and the emitted list extends the one the run started from. -/
theorem execFrom_none_file (env : Env) (fin : Option Outcome) (bs : List (List Stmt)) (st : PState)
    (h : OutInv st) :
    (execFrom env fin st bs).file = Pcap.header ++ recsBytes (execFrom env fin st bs).emitted ∧
    st.emitted <+: (execFrom env fin st bs).emitted := by
  obtain ⟨st', ⟨hp, hpre⟩, he⟩ := execFrom_cases (env := env) (fun s => OutInv s ∧ st.emitted <+: s.emitted)
    (fun _ _ _ hp hs => ⟨hp.1.addStmt hs, hp.2.trans (addStmt_emitted_prefix hs)⟩) fin bs st
    ⟨h, List.prefix_refl _⟩
  revert he; generalize execFrom env fin st bs = r; intro he
  cases he with
  | stopped o => exact ⟨hp.finish_file o, hpre⟩
  | flushed _ => exact ⟨hp.flush.finish_file _, hpre⟩
  | flushFailed _ => exact ⟨hp.flush.finish_file _, hpre⟩

theorem execPlan_none_file (env : Env) (p : Plan) :
    (execPlan env none p).file = Pcap.header ++ recsBytes (execPlan env none p).emitted :=
  (execFrom_none_file env p.final p.batches (st0 none) st0_outInv).1

theorem processFile_none_file (env : Env) (src : Bytes) :
    (processFile env none src).file = Pcap.header ++ recsBytes (processFile env none src).emitted := by
  rw [processFile_eq]; exact execPlan_none_file env _

theorem planLines_error_ne_success : ∀ (lines : List Bytes) (f : Front) (lno : Nat) (o : Outcome),
    (planLines f lno lines).2 = .error o → o ≠ .success := by
  intro lines
  induction lines with
  | nil => intro f lno o h; simp [planLines] at h
  | cons raw rest ih =>
    intro f lno o h
    simp only [planLines] at h
    cases h1 : utf8Decode raw with
    | none => simp only [h1] at h; cases h; simp
    | some ln =>
      simp only [h1] at h
      cases h2 : Lex.line lno f.pending ln with
      | error col => simp only [h2] at h; cases h; simp
      | ok lo =>
        simp only [h2] at h
        cases h3 : feedToks f.cfg lo.toks with
        | error ol => cases ol <;> (simp only [h3] at h; cases h; simp)
        | ok cfg =>
          simp only [h3] at h
          exact ih _ _ o h

theorem planOf_final (src : Bytes) : (planOf src).final ≠ some .success := by
  unfold planOf
  simp only []
  cases h : (planLines ⟨none, Loc.nil, LR.Cfg.init⟩ 1 (splitLines src)).2 with
  | error o =>
    simp only []
    have := planLines_error_ne_success _ _ _ o h
    intro hc; cases hc; exact this rfl
  | ok f =>
    simp only []
    cases feedPending f with
    | parseError => simp
    | panic => simp
    | ok cfg0 =>
      simp only []
      cases LR.feed cfg0 LR.eofTok <;> simp

/-! ## a successful run executed all statements of all batches, in order -/

theorem runBatches_ok {env : Env} (bs : List (List Stmt)) : ∀ {st st' : PState},
    runBatches env st bs = .ok st' → addStmts env st bs.flatten = .ok st' := by
  induction bs with
  | nil => intro st st' h; simp only [runBatches] at h; cases h; rfl
  | cons b bs ih =>
    intro st st' h
    simp only [runBatches] at h
    rw [List.flatten_cons, addStmts_append]
    rcases keepResult_cases (addStmtsKeep env st b) with ⟨s1, h1, h2⟩ | ⟨s1, e, loc, h1, h2⟩ | ⟨s1, x, h1, h2⟩
    · rw [h2] at h
      rw [(addStmtsKeep_none_iff env b st s1).1 h1]
      simp only [Res.bind_ok_eq]
      exact ih h
    · rw [h2] at h; cases h
    · rw [h2] at h; cases h

theorem execFrom_success {env : Env} {fin : Option Outcome} (hfin : fin ≠ some .success) {st : PState}
    {bs : List (List Stmt)} (h : (execFrom env fin st bs).outcome = .success) :
    ∃ st', addStmts env st bs.flatten = .ok st' ∧ (execFrom env fin st bs).emitted = st'.emitted := by
  unfold execFrom at h ⊢
  have hc := runBatches_cases (env := env) (fun _ => True) (fun _ _ _ _ _ => trivial) bs st trivial
  cases hr : runBatches env st bs with
  | error r =>
    rw [hr] at hc h
    obtain ⟨s1, o, _, rfl, ho⟩ := hc
    exact absurd h ho
  | ok st' =>
    rw [hr] at h
    refine ⟨st', runBatches_ok bs hr, ?_⟩
    simp only []
    cases fin with
    | some o => simp only [finish] at h; exact absurd (by rw [h]) hfin
    | none =>
      simp only []
      split <;> rfl

/-! ## a run stopped by a statement: the statements before the failing one have taken effect -/

/-- If the statements of a run fail (`addStmts` on all of them, in order, reports `e` at `loc`), the run
ends with that error in the state `st1` reached by the statements before the failing one `s` — wherever
the batch boundaries are. -/
theorem execFrom_stmt_err {env : Env} {fin : Option Outcome} {st : PState} {bs : List (List Stmt)}
    {e : ErrKind} {loc : Loc} (h : addStmts env st bs.flatten = .err e loc) :
    ∃ pre s post st1, bs.flatten = pre ++ s :: post ∧ addStmts env st pre = .ok st1 ∧
      addStmt env st1 s = .err e loc ∧
      execFrom env fin st bs = finish st1 (.failure e.cls (errDetail e) loc) := by
  have hb := runBatches_addStmts env bs st
  rw [h] at hb
  obtain ⟨pre, s, post, st1, h1, h2, h3, h4⟩ := hb
  exact ⟨pre, s, post, st1, h1, h2, h3, by unfold execFrom; rw [h4]⟩

end Resynth
