import Resynth.Lemmas.LexRules
/-!
# The IPv4 rule: longest prefix in the dotted-quad language = the model's `ipv4Len`
-/
namespace Resynth.LexLemmas
open Resynth Resynth.Lex Resynth.Spec

/-! ## more `spanLen` -/

theorem takeWhile_take (p : Char → Bool) (cs : List Char) (n : Nat) :
    (cs.take n).takeWhile p = cs.take (min n (spanLen p cs)) := by
  induction cs generalizing n with
  | nil => simp
  | cons c cs ih =>
    cases n with
    | zero => simp
    | succ n =>
      rw [List.take_succ_cons, List.takeWhile_cons]
      by_cases hc : p c = true
      · rw [if_pos hc, spanLen_cons_pos _ _ _ hc, ih, Nat.add_min_add_right, List.take_succ_cons]
      · rw [if_neg hc, spanLen_cons_neg _ _ _ (by simpa using hc)]; simp

theorem dropWhile_take (p : Char → Bool) (cs : List Char) (n : Nat) :
    (cs.take n).dropWhile p = (cs.drop (spanLen p cs)).take (n - spanLen p cs) := by
  induction cs generalizing n with
  | nil => simp
  | cons c cs ih =>
    cases n with
    | zero => simp
    | succ n =>
      rw [List.take_succ_cons, List.dropWhile_cons]
      by_cases hc : p c = true
      · rw [if_pos hc, spanLen_cons_pos _ _ _ hc, ih, List.drop_succ_cons, Nat.add_sub_add_right]
      · rw [if_neg hc, spanLen_cons_neg _ _ _ (by simpa using hc)]; simp

theorem all_take_spanLen (p : Char → Bool) (cs : List Char) : (cs.take (spanLen p cs)).all p = true :=
  (all_take_iff p cs _ (spanLen_le p cs)).2 (Nat.le_refl _)

theorem head_drop_spanLen (p : Char → Bool) (cs : List Char) (x : Char)
    (h : (cs.drop (spanLen p cs)).head? = some x) : p x = false := by
  induction cs with
  | nil => simp at h
  | cons c cs ih =>
    by_cases hc : p c = true
    · rw [spanLen_cons_pos _ _ _ hc, List.drop_succ_cons] at h; exact ih h
    · rw [spanLen_cons_neg _ _ _ (by simpa using hc)] at h
      simp at h; subst h; simpa using hc

theorem spanLen_unique (p : Char → Bool) (cs : List Char) (j : Nat) (hj : j ≤ cs.length)
    (h1 : (cs.take j).all p = true) (h2 : ∀ x, (cs.drop j).head? = some x → p x = false) :
    spanLen p cs = j := by
  induction cs generalizing j with
  | nil => simp at hj; subst hj; rfl
  | cons c cs ih =>
    cases j with
    | zero =>
      have := h2 c (by simp)
      exact spanLen_cons_neg _ _ _ this
    | succ j =>
      simp only [List.take_succ_cons, List.all_cons, Bool.and_eq_true] at h1
      rw [spanLen_cons_pos _ _ _ h1.1, ih j (by simpa using hj) h1.2 (by simpa using h2)]

/-! ## characters as numbers -/

theorem isDigit_iff (c : Char) : isDigit c = true ↔ 48 ≤ c.toNat ∧ c.toNat ≤ 57 := by
  simp only [isDigit, Bool.and_eq_true, decide_eq_true_eq, Char.le_def, UInt32.le_iff_toNat_le, Char.toNat]
  constructor <;> intro h <;> exact h

theorem char_eq_iff (c d : Char) : c = d ↔ c.toNat = d.toNat := by
  constructor
  · rintro rfl; rfl
  · intro h; exact Char.ext (UInt32.toNat_inj.mp h)

theorem t0 : ('0' : Char).toNat = 48 := rfl
theorem t1 : ('1' : Char).toNat = 49 := rfl
theorem t2 : ('2' : Char).toNat = 50 := rfl
theorem t5 : ('5' : Char).toNat = 53 := rfl

/-! ## the octet language -/

theorem octetLang_eq_octetOk (ds : List Char) : octetLang ds = octetOk ds := by
  rw [Bool.eq_iff_iff]
  match ds with
  | [] => simp [octetLang, octetOk]
  | [a] =>
    simp only [octetLang, octetOk, chDigit_eq, List.isEmpty_cons, Bool.not_false, List.length_cons,
      List.length_nil, List.all_cons, List.all_nil, Bool.and_true,
      Bool.and_eq_true, decide_eq_true_eq, isDigit_iff]
    simp only [decVal, List.foldl_cons, List.foldl_nil, true_and]
    omega
  | [a, b] =>
    simp only [octetLang, octetOk, chDigit_eq, List.isEmpty_cons, Bool.not_false, List.length_cons,
      List.length_nil, List.all_cons, List.all_nil, Bool.and_true,
      Bool.and_eq_true, decide_eq_true_eq, isDigit_iff]
    simp only [decVal, List.foldl_cons, List.foldl_nil, true_and]
    omega
  | [a, b, c] =>
    simp only [octetLang, octetOk, chDigit_eq, List.isEmpty_cons, Bool.not_false, List.length_cons,
      List.length_nil, List.all_cons, List.all_nil, Bool.and_true,
      Bool.and_eq_true, Bool.or_eq_true, decide_eq_true_eq, isDigit_iff, beq_iff_eq, char_eq_iff, t0, t1, t2, t5]
    simp only [decVal, List.foldl_cons, List.foldl_nil, true_and]
    omega
  | a :: b :: c :: d :: r =>
    simp only [octetLang, octetOk, List.length_cons, Bool.and_eq_true, decide_eq_true_eq]
    constructor
    · rintro ⟨⟨⟨_, h⟩, _⟩, _⟩; omega
    · intro h; cases h

theorem octetOk_props (ds : List Char) (h : octetOk ds = true) :
    0 < ds.length ∧ ds.length ≤ 3 ∧ ds.all isDigit = true := by
  match ds with
  | [] => simp [octetOk] at h
  | [a] => simp_all [octetOk]
  | [a, b] => simp_all [octetOk]
  | [a, b, c] =>
    simp only [octetOk, Bool.and_eq_true] at h
    simp [h.1.1.1, h.1.1.2, h.1.2]
  | a :: b :: c :: d :: r => simp [octetOk] at h

theorem octetOk_short (ds : List Char) (h1 : 0 < ds.length) (h2 : ds.length ≤ 2)
    (h : ds.all isDigit = true) : octetOk ds = true := by
  match ds with
  | [] => simp at h1
  | [a] => simpa [octetOk] using h
  | [a, b] => simpa [octetOk] using h
  | a :: b :: c :: r => simp at h2

/-! ## `dotted` on prefixes -/

theorem dotted_succ_take (k : Nat) (cs : List Char) (n : Nat) (hn : n ≤ cs.length) :
    dotted (k + 1) (cs.take n) =
      (decide (spanLen (· != '.') cs < n) && octetLang (cs.take (spanLen (· != '.') cs)) &&
        dotted k ((cs.drop (spanLen (· != '.') cs + 1)).take (n - spanLen (· != '.') cs - 1))) := by
  rw [dotted, takeWhile_take, dropWhile_take]
  by_cases hj : spanLen (· != '.') cs < n
  · have hlt : spanLen (· != '.') cs < cs.length := by omega
    rw [List.drop_eq_getElem_cons hlt]
    obtain ⟨m, hm⟩ : ∃ m, n - spanLen (· != '.') cs = m + 1 := ⟨n - spanLen (· != '.') cs - 1, by omega⟩
    rw [hm, List.take_succ_cons, Nat.min_eq_right (by omega)]
    simp [hj]
  · have : n - spanLen (· != '.') cs = 0 := by omega
    rw [this]; simp [hj]

theorem octetDot_iff (cs : List Char) (a : Nat) :
    octetDot cs = some a ↔
      a = spanLen (· != '.') cs + 1 ∧ spanLen (· != '.') cs < cs.length ∧
        octetLang (cs.take (spanLen (· != '.') cs)) = true := by
  have hdig_ne : ∀ x : Char, isDigit x = true → (x != '.') = true := by
    intro x hx
    rw [bne_iff_ne]; rintro rfl; revert hx; decide
  simp only [octetDot]
  constructor
  · intro h
    split at h
    · rename_i hc
      simp only [Option.some.injEq] at h
      simp only [Bool.and_eq_true, beq_iff_eq] at hc
      have hu : spanLen (· != '.') cs = spanLen isDigit cs := by
        apply spanLen_unique _ _ _ (spanLen_le _ _)
        · rw [List.all_eq_true]
          intro x hx
          exact hdig_ne x (List.all_eq_true.1 (all_take_spanLen isDigit cs) x hx)
        · intro x hx; rw [hc.2] at hx; cases hx; decide
      have hlt : spanLen isDigit cs < cs.length := by
        have := hc.2
        rw [List.head?_drop] at this
        exact (List.getElem?_eq_some_iff.1 this).1
      rw [hu, octetLang_eq_octetOk]
      exact ⟨h.symm, hlt, hc.1⟩
    · cases h
  · rintro ⟨rfl, hlt, hok⟩
    rw [octetLang_eq_octetOk] at hok
    have hd : (cs.take (spanLen (· != '.') cs)).all isDigit = true := (octetOk_props _ hok).2.2
    have hhead : (cs.drop (spanLen (· != '.') cs)).head? = some '.' := by
      rw [List.drop_eq_getElem_cons hlt, List.head?_cons]
      have := head_drop_spanLen (· != '.') cs (cs[spanLen (· != '.') cs])
        (by rw [List.drop_eq_getElem_cons hlt, List.head?_cons])
      simp only [bne_eq_false_iff_eq] at this
      rw [this]
    have hu : spanLen isDigit cs = spanLen (· != '.') cs := by
      apply spanLen_unique _ _ _ (spanLen_le _ _) hd
      intro x hx; rw [hhead] at hx; cases hx; decide
    rw [hu, hok, hhead]; simp

theorem octetDot_le (cs : List Char) (a : Nat) (h : octetDot cs = some a) : 0 < a ∧ a ≤ cs.length := by
  obtain ⟨rfl, h2, _⟩ := (octetDot_iff cs a).1 h
  omega

/-! ## `longest` under a shift -/

theorem longest_shift (q : Nat → Bool) (a N : Nat) (ha : a ≤ N) (hq0 : q 0 = false) :
    longest (fun n => decide (a ≤ n) && q (n - a)) N = (longest q (N - a)).map (· + a) := by
  cases hl : longest q (N - a) with
  | none =>
    rw [longest_eq_none] at hl
    rw [Option.map_none, longest_eq_none]
    intro m hm1 hm2
    by_cases ham : a ≤ m
    · by_cases hz : m - a = 0
      · simp [hz, hq0]
      · simp [hl (m - a) (by omega) (by omega)]
    · simp [ham]
  | some n =>
    rw [longest_eq_some] at hl
    obtain ⟨h1, h2, h3, h4⟩ := hl
    rw [Option.map_some, longest_eq_some]
    refine ⟨by omega, by omega, by simp [h3], fun m hm1 hm2 => ?_⟩
    have : m - a > n := by omega
    simp [h4 (m - a) this (by omega)]

theorem dotted_nil (k : Nat) : dotted k [] = false := by
  cases k <;> simp [dotted, octetLang]

/-! ## the last octet -/

theorem longest_octet (cs : List Char) :
    longest (fun n => octetLang (cs.take n)) cs.length = octetLast cs := by
  have hp : ∀ m, m ≤ cs.length → (octetLang (cs.take m) = true ↔ octetOk (cs.take m) = true) := by
    intro m _; rw [octetLang_eq_octetOk]
  have hlen : ∀ m, m ≤ cs.length → (cs.take m).length = m := by
    intro m hm; simp [List.length_take]; omega
  -- prefixes of length > 3 or beyond the digit run are never octets
  have hbig : ∀ m, m ≤ cs.length → octetOk (cs.take m) = true → m ≤ 3 ∧ m ≤ spanLen isDigit cs := by
    intro m hm h
    have := octetOk_props _ h
    rw [hlen m hm] at this
    exact ⟨this.2.1, (all_take_iff isDigit cs m hm).1 this.2.2⟩
  have hsmall : ∀ m, 0 < m → m ≤ 2 → m ≤ spanLen isDigit cs → octetOk (cs.take m) = true := by
    intro m h0 h2 hd
    have hm : m ≤ cs.length := Nat.le_trans hd (spanLen_le _ _)
    exact octetOk_short _ (by rw [hlen m hm]; exact h0) (by rw [hlen m hm]; exact h2)
      ((all_take_iff isDigit cs m hm).2 hd)
  have hd := spanLen_le isDigit cs
  simp only [octetLast]
  by_cases c3 : (decide (min 3 (spanLen isDigit cs) ≥ 3) && octetOk (cs.take 3)) = true
  · rw [if_pos c3]
    simp only [Bool.and_eq_true, decide_eq_true_eq] at c3
    rw [longest_eq_some]
    refine ⟨by omega, by omega, by rw [octetLang_eq_octetOk]; exact c3.2, fun m hm1 hm2 => ?_⟩
    cases h : octetLang (cs.take m) with
    | false => rfl
    | true => have := hbig m hm2 ((hp m hm2).1 h); omega
  · rw [if_neg c3]
    have n3 : ∀ m, m ≤ cs.length → 3 ≤ m → octetLang (cs.take m) = false := by
      intro m hm h3
      cases h : octetLang (cs.take m) with
      | false => rfl
      | true =>
        have h' := (hp m hm).1 h
        have hb := hbig m hm h'
        have : m = 3 := by omega
        subst this
        exact absurd (by simp only [Bool.and_eq_true, decide_eq_true_eq]; exact ⟨by omega, h'⟩) c3
    by_cases c2 : (decide (min 3 (spanLen isDigit cs) ≥ 2) && octetOk (cs.take 2)) = true
    · rw [if_pos c2]
      simp only [Bool.and_eq_true, decide_eq_true_eq] at c2
      rw [longest_eq_some]
      refine ⟨by omega, by omega, by rw [octetLang_eq_octetOk]; exact c2.2, fun m hm1 hm2 => ?_⟩
      exact n3 m hm2 (by omega)
    · rw [if_neg c2]
      have n2 : spanLen isDigit cs < 2 := by
        apply Nat.lt_of_not_le
        intro h2
        exact c2 (by simp only [Bool.and_eq_true, decide_eq_true_eq]; exact ⟨by omega, hsmall 2 (by omega) (by omega) h2⟩)
      by_cases c1 : min 3 (spanLen isDigit cs) ≥ 1
      · rw [if_pos c1, longest_eq_some]
        refine ⟨by omega, by omega, by rw [octetLang_eq_octetOk]; exact hsmall 1 (by omega) (by omega) (by omega),
          fun m hm1 hm2 => ?_⟩
        cases h : octetLang (cs.take m) with
        | false => rfl
        | true => have := hbig m hm2 ((hp m hm2).1 h); omega
      · rw [if_neg c1, longest_eq_none]
        intro m hm1 hm2
        cases h : octetLang (cs.take m) with
        | false => rfl
        | true => have := hbig m hm2 ((hp m hm2).1 h); omega

/-! ## the whole rule -/

/-- the model's `ipv4Len`, generalised to `k + 1` octets -/
def dottedLen : Nat → List Char → Option Nat
  | 0, cs => octetLast cs
  | k + 1, cs => match octetDot cs with
    | some a => (dottedLen k (cs.drop a)).map (a + ·)
    | none => none

theorem longest_dotted (k : Nat) (cs : List Char) :
    longest (fun n => dotted k (cs.take n)) cs.length = dottedLen k cs := by
  induction k generalizing cs with
  | zero => simp only [dotted, dottedLen]; exact longest_octet cs
  | succ k ih =>
    simp only [dottedLen]
    cases ho : octetDot cs with
    | none =>
      rw [longest_eq_none]
      intro m hm1 hm2
      rw [dotted_succ_take k cs m hm2]
      cases hj : decide (spanLen (· != '.') cs < m) with
      | false => simp
      | true =>
        cases hl : octetLang (cs.take (spanLen (· != '.') cs)) with
        | false => simp
        | true =>
          have := (octetDot_iff cs (spanLen (· != '.') cs + 1)).2
            ⟨rfl, by simp at hj; omega, hl⟩
          rw [ho] at this; cases this
    | some a =>
      obtain ⟨rfl, hlt, hok⟩ := (octetDot_iff cs a).1 ho
      have hfun : ∀ n, n ≤ cs.length → dotted (k + 1) (cs.take n) =
          (decide (spanLen (· != '.') cs + 1 ≤ n) &&
            dotted k ((cs.drop (spanLen (· != '.') cs + 1)).take (n - (spanLen (· != '.') cs + 1)))) := by
        intro n hn
        rw [dotted_succ_take k cs n hn, hok, Bool.and_true]
        congr 1
      have hcongr : longest (fun n => dotted (k + 1) (cs.take n)) cs.length =
          longest (fun n => decide (spanLen (· != '.') cs + 1 ≤ n) &&
            dotted k ((cs.drop (spanLen (· != '.') cs + 1)).take (n - (spanLen (· != '.') cs + 1)))) cs.length := by
        cases hr : longest (fun n => decide (spanLen (· != '.') cs + 1 ≤ n) &&
            dotted k ((cs.drop (spanLen (· != '.') cs + 1)).take (n - (spanLen (· != '.') cs + 1)))) cs.length with
        | none =>
          rw [longest_eq_none] at hr ⊢
          intro m h1 h2; rw [hfun m h2]; exact hr m h1 h2
        | some n =>
          rw [longest_eq_some] at hr ⊢
          obtain ⟨h1, h2, h3, h4⟩ := hr
          exact ⟨h1, h2, by rw [hfun n h2]; exact h3, fun m hm1 hm2 => by rw [hfun m hm2]; exact h4 m hm1 hm2⟩
      rw [hcongr, longest_shift (fun n => dotted k ((cs.drop (spanLen (· != '.') cs + 1)).take n)) _ _
        (by omega) (by simp [dotted_nil])]
      have := ih (cs.drop (spanLen (· != '.') cs + 1))
      rw [List.length_drop] at this
      rw [this]
      simp only []
      cases dottedLen k (cs.drop (spanLen (· != '.') cs + 1)) with
      | none => simp
      | some b => simp [Nat.add_comm]

theorem ipv4Len_eq (cs : List Char) : ipv4Len cs = dottedLen 3 cs := by
  simp only [ipv4Len, dottedLen, bind, Option.bind, pure]
  cases h1 : octetDot cs with
  | none => rfl
  | some a =>
    simp only []
    cases h2 : octetDot (cs.drop a) with
    | none => rfl
    | some b =>
      simp only [List.drop_drop]
      cases h3 : octetDot (cs.drop (a + b)) with
      | none => rfl
      | some c =>
        simp only []
        cases h4 : octetLast (cs.drop (a + b + c)) with
        | none => simp
        | some d => simp [Nat.add_assoc]

theorem matchLen_ipv4 (cs : List Char) : matchLen .ipv4 cs = ipv4Len cs := by
  rw [ipv4Len_eq, ← longest_dotted]
  unfold matchLen
  congr 1
  funext n
  simp [LexRule.matchesAt, LexRule.lang, LexRule.follow]

end Resynth.LexLemmas
