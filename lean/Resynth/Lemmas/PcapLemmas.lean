import Resynth.Model.Pcap
import Resynth.Spec.Pcap
/-!
# Lemmas: the pcap writer's bytes are read back by the independent reader `Spec.parsePcap`
-/
namespace Resynth
open Spec

theorem b8_toNat_pcap (n : Nat) : (b8 n).toNat = n % 256 := by
  simp [b8]

theorem recHdr_length (t l : Nat) : (Pcap.recHdr t l).length = 16 := by
  simp [Pcap.recHdr, le32]

theorem header_length : Pcap.header.length = 24 := by
  simp [Pcap.header, le32, le16]

theorem record_length (t : Nat) (f : Bytes) : (Pcap.record t f).length = 16 + f.length := by
  simp [Pcap.record, recHdr_length]

theorem le32At_recHdr_0 (t l : Nat) (rest : Bytes) :
    le32At (Pcap.recHdr t l ++ rest) 0 = (t / 1000000000) % 4294967296 := by
  simp [Pcap.recHdr, le32, le32At, b8_toNat_pcap]; omega

theorem le32At_recHdr_4 (t l : Nat) (rest : Bytes) :
    le32At (Pcap.recHdr t l ++ rest) 4 = t % 1000000000 := by
  simp [Pcap.recHdr, le32, le32At, b8_toNat_pcap]; omega

theorem le32At_recHdr_8 (t l : Nat) (rest : Bytes) :
    le32At (Pcap.recHdr t l ++ rest) 8 = l % 4294967296 := by
  simp [Pcap.recHdr, le32, le32At, b8_toNat_pcap]; omega

theorem le32At_recHdr_12 (t l : Nat) (rest : Bytes) :
    le32At (Pcap.recHdr t l ++ rest) 12 = l % 4294967296 := by
  simp [Pcap.recHdr, le32, le32At, b8_toNat_pcap]; omega

theorem drop_recHdr (t l : Nat) (rest : Bytes) : (Pcap.recHdr t l ++ rest).drop 16 = rest := by
  rw [List.drop_append_of_le_length (by simp [recHdr_length])]
  simp [recHdr_length]


/-- what the reader returns for one written record -/
def recOf (r : Nat × Bytes) : PcapRec :=
  ⟨(r.1 / 1000000000) % 4294967296, r.1 % 1000000000, r.2.length, r.2.length, r.2⟩

/-- the byte image of a record list -/
def recsBytes (rs : List (Nat × Bytes)) : Bytes := rs.flatMap (fun r => Pcap.record r.1 r.2)

theorem recsBytes_nil : recsBytes [] = [] := rfl
theorem recsBytes_cons (r : Nat × Bytes) (rs) : recsBytes (r :: rs) = Pcap.record r.1 r.2 ++ recsBytes rs := by
  simp [recsBytes]
theorem recsBytes_append (a b : List (Nat × Bytes)) : recsBytes (a ++ b) = recsBytes a ++ recsBytes b := by
  simp [recsBytes]

theorem parseRecs_recsBytes (rs : List (Nat × Bytes)) (h : ∀ r ∈ rs, r.2.length < 4294967296) :
    ∀ fuel, (recsBytes rs).length < fuel → parseRecs fuel (recsBytes rs) = some (rs.map recOf) := by
  induction rs with
  | nil =>
    intro fuel hf
    cases fuel with
    | zero => simp at hf
    | succ n => simp [recsBytes, parseRecs]
  | cons r rs ih =>
    intro fuel hf
    have hr : r.2.length < 4294967296 := h r (by simp)
    have ih' := ih (fun x hx => h x (by simp [hx]))
    cases fuel with
    | zero => simp at hf
    | succ n =>
      rw [recsBytes_cons] at hf ⊢
      simp only [Pcap.record, List.append_assoc] at hf ⊢
      have hlen : (Pcap.recHdr r.1 r.2.length ++ (r.2 ++ recsBytes rs)).length
          = 16 + (r.2.length + (recsBytes rs).length) := by simp [recHdr_length]
      have hne : (Pcap.recHdr r.1 r.2.length ++ (r.2 ++ recsBytes rs)).isEmpty = false := by
        cases hh : (Pcap.recHdr r.1 r.2.length ++ (r.2 ++ recsBytes rs)) with
        | nil => rw [hh] at hlen; simp at hlen; omega
        | cons a b => rfl
      rw [parseRecs]
      simp only [hne, Bool.false_eq_true, if_false]
      rw [if_neg (by rw [hlen]; omega)]
      simp only [le32At_recHdr_0, le32At_recHdr_4, le32At_recHdr_8, le32At_recHdr_12, drop_recHdr,
        Nat.mod_eq_of_lt hr]
      rw [if_neg (by simp)]
      simp only [List.drop_left, List.take_left]
      rw [ih' n (by rw [hlen] at hf; omega)]
      simp [recOf]

theorem le_header (rest : Bytes) :
    le32At (Pcap.header ++ rest) 0 = 0xa1b23c4d ∧ le16At (Pcap.header ++ rest) 4 = 2 ∧
    le16At (Pcap.header ++ rest) 6 = 4 ∧ le32At (Pcap.header ++ rest) 20 = 1 := by
  simp [Pcap.header, le32, le16, le32At, le16At, b8]

theorem drop_header (rest : Bytes) : (Pcap.header ++ rest).drop 24 = rest := by
  rw [List.drop_append_of_le_length (by simp [header_length])]
  simp [header_length]

/-- the standard header every run writes -/
def stdHdr : PcapHdr := ⟨0xa1b23c4d, 2, 4, 1⟩

/-- Reader ∘ writer, general form: only frame lengths are bounded; the seconds field wraps
mod 2^32 exactly as `as u32` does. -/
theorem parsePcap_file_mod (rs : List (Nat × Bytes)) (h : ∀ r ∈ rs, r.2.length < 4294967296) :
    parsePcap (Pcap.header ++ recsBytes rs) = some (stdHdr, rs.map recOf) := by
  unfold parsePcap
  rw [if_neg (by simp [header_length])]
  rw [drop_header, parseRecs_recsBytes rs h _ (by simp; omega)]
  obtain ⟨h1, h2, h3, h4⟩ := le_header (recsBytes rs)
  simp only [h1, h2, h3, h4, stdHdr]

theorem recOf_of_lt (r : Nat × Bytes) (h : r.1 < 4294967296 * 1000000000) :
    recOf r = ⟨r.1 / 1000000000, r.1 % 1000000000, r.2.length, r.2.length, r.2⟩ := by
  have : r.1 / 1000000000 < 4294967296 := by omega
  simp [recOf, Nat.mod_eq_of_lt this]

theorem recOf_time (r : Nat × Bytes) (h : r.1 < 4294967296 * 1000000000) : (recOf r).time = r.1 := by
  rw [recOf_of_lt r h]; simp only [PcapRec.time]; omega

theorem recOf_nsec_lt (r : Nat × Bytes) : (recOf r).nsec < 1000000000 := by
  simp only [recOf]; omega

theorem recOf_injective (r s : Nat × Bytes) (hr : r.1 < 4294967296 * 1000000000)
    (hs : s.1 < 4294967296 * 1000000000) (h : recOf r = recOf s) : r = s := by
  have h1 := recOf_time r hr
  have h2 := recOf_time s hs
  rw [h] at h1
  have hd : (recOf r).data = (recOf s).data := by rw [h]
  simp only [recOf] at hd
  cases r; cases s; simp_all

theorem wellFormed_file (rs : List (Nat × Bytes)) (h : ∀ r ∈ rs, r.2.length < 4294967296) :
    pcapWellFormed (Pcap.header ++ recsBytes rs) = true := by
  unfold pcapWellFormed
  rw [parsePcap_file_mod rs h]
  simp only [stdHdr, beq_self_eq_true, Bool.true_and, List.all_map, List.all_eq_true]
  intro r _
  have := recOf_nsec_lt r
  simp [Function.comp, recOf] at this ⊢
  exact decide_eq_true this

/-! ## `write_packet` gives the headroom back -/

theorem ofFrame_headroom (f : Bytes) : (Packet.ofFrame f).headroom = 16 := by
  simp [Packet.ofFrame, Packet.headroom, zeros]

theorem ofFrame_frame (f : Bytes) : (Packet.ofFrame f).frame = f := rfl

/-- whenever `write_packet` does not panic, what it hands to the writer is the record of the
frame, whatever the headroom -/
theorem writePacket_ok_bytes (t : Nat) (p : Packet) (bytes : Bytes) (p' : Packet)
    (h : Pcap.writePacket t p = .ok bytes p') :
    bytes = Pcap.record t p.frame ∧ p'.frame = p.frame ∧ p'.headroom = p.headroom := by
  unfold Pcap.writePacket at h
  split at h
  · cases h
  · rename_i h1
    cases h
    refine ⟨rfl, rfl, ?_⟩
    simp only [Packet.headroom, List.length_append, List.length_take, recHdr_length] at h1 ⊢
    omega

theorem writePacket_restores (t : Nat) (p : Packet) (h16 : 16 ≤ p.headroom) :
    ∃ p', Pcap.writePacket t p = .ok (Pcap.record t p.frame) p' ∧ p'.frame = p.frame ∧
      p'.headroom = p.headroom := by
  unfold Pcap.writePacket
  rw [if_neg (by omega)]
  refine ⟨_, rfl, rfl, ?_⟩
  simp only [Packet.headroom, List.length_append, List.length_take, recHdr_length] at h16 ⊢
  omega

end Resynth
