import Resynth.Model.Lit
import Resynth.Spec.Literal
/-!
# Integer literals: `digitsVal` computes the positional value (helper lemmas for C17)
-/
namespace Resynth.LitNum
open Resynth Resynth.Spec

/-! ## characters -/

theorem char_le_iff (a b : Char) : a ≤ b ↔ a.toNat ≤ b.toNat := by
  rw [Char.le_def, UInt32.le_iff_toNat_le]; rfl

theorem isDec_iff (c : Char) : isDec c = true ↔ 48 ≤ c.toNat ∧ c.toNat ≤ 57 := by
  simp only [isDec, Bool.and_eq_true, decide_eq_true_eq, char_le_iff]
  exact Iff.rfl

theorem isDigit_eq_isDec (c : Char) : isDigit c = isDec c := rfl

theorem decDigit_lt {c : Char} (h : isDec c = true) : decDigitVal c < 10 := by
  rw [isDec_iff] at h; unfold decDigitVal; omega

theorem hexVal_of_isDec {c : Char} (h : isDec c = true) : hexVal c = some (decDigitVal c) := by
  have h' : '0' ≤ c ∧ c ≤ '9' := by
    simpa only [isDec, Bool.and_eq_true, decide_eq_true_eq] using h
  simp only [hexVal, h', and_self, if_true, decDigitVal]

theorem hexVal_of_isHex {c : Char} (h : isHex c = true) :
    hexVal c = some (hexDigitVal c) ∧ hexDigitVal c < 16 := by
  by_cases hd : isDec c = true
  · have hv : hexDigitVal c = decDigitVal c := by simp [hexDigitVal, hd, decDigitVal]
    rw [hv]
    exact ⟨hexVal_of_isDec hd, Nat.lt_trans (decDigit_lt hd) (by decide)⟩
  · have hd' : ¬ ('0' ≤ c ∧ c ≤ '9') := by
      intro hh; apply hd; simp only [isDec, Bool.and_eq_true, decide_eq_true_eq]; exact hh
    by_cases hl : ('a' ≤ c ∧ c ≤ 'f')
    · have hl' := hl
      rw [char_le_iff, char_le_iff] at hl'
      have e1 : ('a' : Char).toNat = 97 := rfl
      have e2 : ('f' : Char).toNat = 102 := rfl
      have hv : hexDigitVal c = c.toNat - 97 + 10 := by simp [hexDigitVal, hd, hl]
      have hx : hexVal c = some (c.toNat - 87) := by simp [hexVal, hd', hl]
      rw [hv, hx]
      refine ⟨?_, ?_⟩
      · congr 1; omega
      · omega
    · have hu : ('A' ≤ c ∧ c ≤ 'F') := by
        simp only [isHex, Bool.or_eq_true, Bool.and_eq_true, decide_eq_true_eq] at h
        rcases h with (h | h) | h
        · exact absurd h hd
        · exact absurd h hl
        · exact h
      have hu' := hu
      rw [char_le_iff, char_le_iff] at hu'
      have e1 : ('A' : Char).toNat = 65 := rfl
      have e2 : ('F' : Char).toNat = 70 := rfl
      have hv : hexDigitVal c = c.toNat - 65 + 10 := by
        simp only [hexDigitVal, hd, Bool.and_eq_true, decide_eq_true_eq, hl]; simp
      have hx : hexVal c = some (c.toNat - 55) := by simp [hexVal, hd', hl, hu]
      rw [hv, hx]
      refine ⟨?_, ?_⟩
      · congr 1; omega
      · omega

/-! ## the positional value -/

theorem posValue_append_singleton (b : Nat) (dig : Char → Nat) (ds : List Char) (c : Char) :
    posValue b dig (ds ++ [c]) = posValue b dig ds * b + dig c := by
  induction ds with
  | nil => simp [posValue]
  | cons d ds ih =>
    simp only [List.cons_append, posValue, ih, List.length_append, List.length_cons,
      List.length_nil, Nat.zero_add, Nat.pow_succ, Nat.add_mul, Nat.mul_assoc, Nat.add_assoc]

/-- the positional reading, most significant digit first -/
theorem decValue_cons (c : Char) (ds : List Char) :
    decValue (c :: ds) = decDigitVal c * 10 ^ ds.length + decValue ds := rfl

/-- the positional reading, Horner form -/
theorem decValue_snoc (ds : List Char) (c : Char) :
    decValue (ds ++ [c]) = decValue ds * 10 + decDigitVal c :=
  posValue_append_singleton 10 decDigitVal ds c

theorem hexValue_cons (c : Char) (hs : List Char) :
    hexValue (c :: hs) = hexDigitVal c * 16 ^ hs.length + hexValue hs := rfl

theorem hexValue_snoc (hs : List Char) (c : Char) :
    hexValue (hs ++ [c]) = hexValue hs * 16 + hexDigitVal c :=
  posValue_append_singleton 16 hexDigitVal hs c

/-- `digitsVal`'s fold, from any accumulator -/
theorem foldlM_digits (radix : Nat) (dig : Char → Nat) (f : Nat → Char → Option Nat)
    (cs : List Char) (h : ∀ acc c, c ∈ cs → f acc c = some (acc * radix + dig c)) (acc : Nat) :
    cs.foldlM f acc = some (acc * radix ^ cs.length + posValue radix dig cs) := by
  induction cs generalizing acc with
  | nil => simp [posValue]
  | cons c cs ih =>
    rw [List.foldlM_cons, h acc c List.mem_cons_self]
    show (List.foldlM f (acc * radix + dig c) cs) = _
    rw [ih (fun a c' hc' => h a c' (List.mem_cons_of_mem _ hc'))]
    simp only [posValue, List.length_cons, Nat.pow_succ, Nat.add_mul, Nat.mul_assoc,
      Nat.add_assoc, Nat.mul_comm radix (radix ^ cs.length)]

theorem digitsVal_dec {ds : List Char} (h : ∀ c ∈ ds, isDec c = true) :
    digitsVal 10 ds = some (decValue ds) := by
  unfold digitsVal
  refine (foldlM_digits 10 decDigitVal _ ds ?_ 0).trans (by simp [decValue])
  intro acc c hc
  simp only [hexVal_of_isDec (h c hc), decDigit_lt (h c hc), if_true]

theorem digitsVal_hex {hs : List Char} (h : ∀ c ∈ hs, isHex c = true) :
    digitsVal 16 hs = some (hexValue hs) := by
  unfold digitsVal
  refine (foldlM_digits 16 hexDigitVal _ hs ?_ 0).trans (by simp [hexValue])
  intro acc c hc
  simp only [(hexVal_of_isHex (h c hc)).1, (hexVal_of_isHex (h c hc)).2, if_true]

/-- a string that starts with anything but a digit is not a digit string -/
theorem digitsVal_cons_none (radix : Nat) (c : Char) (cs : List Char) (h : hexVal c = none) :
    digitsVal radix (c :: cs) = none := by
  unfold digitsVal
  rw [List.foldlM_cons]
  simp only [h]
  rfl

theorem hexVal_minus : hexVal '-' = none := by decide

/-! ## the two integer syntaxes -/

theorem parseU64Dec_eq (ds : List Char) (hne : ds ≠ []) (h : ∀ c ∈ ds, isDec c = true) :
    parseU64Dec (String.ofList ds) =
      if decValue ds < 2 ^ 64 then some (decValue ds) else none := by
  unfold parseU64Dec
  rw [String.toList_ofList]
  cases ds with
  | nil => exact absurd rfl hne
  | cons c cs => simp only [digitsVal_dec h]

theorem parseU64Dec_neg (ds : List Char) : parseU64Dec (String.ofList ('-' :: ds)) = none := by
  unfold parseU64Dec
  rw [String.toList_ofList]
  simp only [digitsVal_cons_none 10 '-' ds hexVal_minus]

theorem parseU64Hex_eq (hs : List Char) (hne : hs ≠ []) (h : ∀ c ∈ hs, isHex c = true) :
    parseU64Hex (String.ofList ('0' :: 'x' :: hs)) =
      if hexValue hs < 2 ^ 64 then some (hexValue hs) else none := by
  unfold parseU64Hex
  rw [String.toList_ofList]
  cases hs with
  | nil => exact absurd rfl hne
  | cons c cs => simp only [List.isEmpty_cons, Bool.false_eq_true, if_false, digitsVal_hex h]

end Resynth.LitNum
