import Resynth.Lemmas.LexBasic
/-!
# Per-rule lemmas: `Spec.matchLen r cs` computed as the model's `scanOne` computes it
(all rules except IPv4, which is in `LexIpv4.lean`)
-/
namespace Resynth.LexLemmas
open Resynth Resynth.Lex Resynth.Spec

/-- a predicate `m ↦ lo ≤ m ≤ k` with `0 < lo` -/
theorem longest_range {p : Nat → Bool} {N lo k : Nat} (hlo : 0 < lo)
    (h : ∀ m, 0 < m → m ≤ N → (p m = true ↔ lo ≤ m ∧ m ≤ k)) (hk : k ≤ N) :
    longest p N = if lo ≤ k then some k else none := by
  rw [longest_interval h hk]
  by_cases h1 : lo ≤ k
  · rw [if_pos ⟨hlo, h1⟩, if_pos h1]
  · rw [if_neg (fun hh => h1 hh.2), if_neg (fun hh => by omega), if_neg h1]

theorem follow_true (r : LexRule) (hr : ∀ k w, r ≠ .keyword k w) (o : Option Char) : r.follow o = true := by
  cases r <;> first | rfl | exact absurd rfl (hr _ _)

/-! ## languages on `c :: r` -/

theorem lang_hash (c : Char) (r : List Char) :
    LexRule.lang .hashComment (c :: r) = (c == '#' && r.all (· != '\n')) := by
  simp only [LexRule.lang]
  split
  · rename_i h; cases h; simp
  · rename_i h
    have : c ≠ '#' := fun hc => h r (by rw [hc])
    simp [this]

theorem lang_cpp (c : Char) (r : List Char) :
    LexRule.lang .cppComment (c :: r) =
      (c == '/' && match r with | d :: r' => d == '/' && r'.all (· != '\n') | [] => false) := by
  simp only [LexRule.lang]
  split
  · rename_i h; cases h; simp
  · rename_i h
    cases r with
    | nil => simp
    | cons d r' =>
      by_cases hc : c = '/'
      · by_cases hd : d = '/'
        · exact absurd (by rw [hc, hd]) (h r')
        · simp [hd]
      · simp [hc]

theorem lang_ident (c : Char) (r : List Char) :
    LexRule.lang .ident (c :: r) = (isIdStart c && r.all isIdCont) := by
  simp [LexRule.lang, chIdStart_eq, chIdCont_eq]

theorem lang_ws (c : Char) (r : List Char) :
    LexRule.lang .whitespace (c :: r) = (isWs c && r.all isWs) := by
  simp [LexRule.lang, chBlank_eq]

theorem lang_string (c : Char) (r : List Char) :
    LexRule.lang .string (c :: r) = (c == '"' && strBody r) := by
  simp only [LexRule.lang]
  split
  · rename_i h; cases h; simp
  · rename_i h
    have : c ≠ '"' := fun hc => h r (by rw [hc])
    simp [this]

theorem lang_hex (c : Char) (r : List Char) :
    LexRule.lang .hex (c :: r) =
      (c == '0' && match r with | d :: r' => d == 'x' && !r'.isEmpty && r'.all isHexDigit | [] => false) := by
  simp only [LexRule.lang]
  split
  · rename_i h; cases h; simp [chHex_eq]
  · rename_i h
    cases r with
    | nil => simp
    | cons d r' =>
      by_cases hc : c = '0'
      · by_cases hd : d = 'x'
        · exact absurd (by rw [hc, hd]) (h r')
        · simp [hd]
      · simp [hc]

theorem lang_int (c : Char) (r : List Char) :
    LexRule.lang .int (c :: r) =
      if c == '-' then (!r.isEmpty && r.all isDigit) else (isDigit c && r.all isDigit) := by
  simp only [LexRule.lang]
  split
  · rename_i h; cases h; simp [chDigit_eq]
  · rename_i h
    have : c ≠ '-' := fun hc => h r (by rw [hc])
    simp [this, chDigit_eq]

/-! ## greedy rules -/

theorem matchLen_ws (c : Char) (rest : List Char) :
    matchLen .whitespace (c :: rest) = if isWs c then some (spanLen isWs (c :: rest)) else none := by
  unfold matchLen
  by_cases hc : isWs c = true
  · rw [longest_range (lo := 1) (k := spanLen isWs (c :: rest)) (by omega) ?_ (spanLen_le _ _)]
    · have := (spanLen_pos_iff isWs c rest).2 hc
      simp [hc]; omega
    · intro m hm hm2
      obtain ⟨m, rfl⟩ : ∃ m', m = m' + 1 := ⟨m - 1, by omega⟩
      simp only [LexRule.matchesAt, LexRule.follow, Bool.and_true, List.take_succ_cons, lang_ws, hc,
        Bool.true_and]
      rw [all_take_iff _ _ _ (by simpa using hm2), spanLen_cons_pos _ _ _ hc]; omega
  · rw [if_neg hc, longest_eq_none]
    intro m hm hm2
    obtain ⟨m, rfl⟩ : ∃ m', m = m' + 1 := ⟨m - 1, by omega⟩
    simp [LexRule.matchesAt, lang_ws, hc]

theorem matchLen_hash (c : Char) (rest : List Char) :
    matchLen .hashComment (c :: rest) =
      if c == '#' then some (1 + spanLen (· != '\n') rest) else none := by
  unfold matchLen
  by_cases hc : (c == '#') = true
  · rw [longest_range (lo := 1) (k := 1 + spanLen (· != '\n') rest) (by omega) ?_
      (by have := spanLen_le (· != '\n') rest; simp; omega)]
    · simp [hc]
    · intro m hm hm2
      obtain ⟨m, rfl⟩ : ∃ m', m = m' + 1 := ⟨m - 1, by omega⟩
      simp only [LexRule.matchesAt, LexRule.follow, Bool.and_true, List.take_succ_cons, lang_hash, hc,
        Bool.true_and]
      rw [all_take_iff _ _ _ (by simpa using hm2)]; omega
  · rw [if_neg hc, longest_eq_none]
    intro m hm hm2
    obtain ⟨m, rfl⟩ : ∃ m', m = m' + 1 := ⟨m - 1, by omega⟩
    simp [LexRule.matchesAt, lang_hash, hc]

theorem matchLen_cpp (c : Char) (rest : List Char) :
    matchLen .cppComment (c :: rest) =
      if c == '/' && rest.head? == some '/' then some (2 + spanLen (· != '\n') (rest.drop 1)) else none := by
  unfold matchLen
  by_cases hc : (c == '/' && rest.head? == some '/') = true
  · rw [if_pos hc]
    obtain ⟨d, r', rfl⟩ : ∃ d r', rest = d :: r' := by
      cases rest with
      | nil => simp at hc
      | cons d r' => exact ⟨d, r', rfl⟩
    simp only [List.head?_cons, Bool.and_eq_true, beq_iff_eq, Option.some.injEq] at hc
    obtain ⟨rfl, rfl⟩ := hc
    rw [longest_range (lo := 2) (k := 2 + spanLen (· != '\n') r') (by omega) ?_
      (by have := spanLen_le (· != '\n') r'; simp; omega)]
    · simp
    · intro m hm hm2
      obtain ⟨m, rfl⟩ : ∃ m', m = m' + 1 := ⟨m - 1, by omega⟩
      cases m with
      | zero => simp [LexRule.matchesAt, lang_cpp]
      | succ m =>
        simp only [LexRule.matchesAt, LexRule.follow, Bool.and_true, List.take_succ_cons, lang_cpp,
          beq_self_eq_true, Bool.true_and]
        rw [all_take_iff _ _ _ (by simpa using hm2)]; omega
  · rw [if_neg hc, longest_eq_none]
    intro m hm hm2
    obtain ⟨m, rfl⟩ : ∃ m', m = m' + 1 := ⟨m - 1, by omega⟩
    simp only [LexRule.matchesAt, LexRule.follow, Bool.and_true, List.take_succ_cons, lang_cpp]
    cases rest with
    | nil => simp
    | cons d r' =>
      cases m with
      | zero => simp
      | succ m =>
        simp only [List.head?_cons, Bool.and_eq_true, beq_iff_eq, Option.some.injEq, not_and] at hc
        simp only [List.take_succ_cons, Bool.and_eq_false_iff, beq_eq_false_iff_ne, ne_eq]
        by_cases h1 : c = '/'
        · right; left; exact hc h1
        · left; exact h1

theorem matchLen_ident (c : Char) (rest : List Char) :
    matchLen .ident (c :: rest) = if isIdStart c then some (spanLen isIdCont (c :: rest)) else none := by
  unfold matchLen
  by_cases hc : isIdStart c = true
  · have hc' : isIdCont c = true := by simp [isIdCont, hc]
    rw [longest_range (lo := 1) (k := spanLen isIdCont (c :: rest)) (by omega) ?_ (spanLen_le _ _)]
    · rw [spanLen_cons_pos _ _ _ hc']; simp [hc]
    · intro m hm hm2
      obtain ⟨m, rfl⟩ : ∃ m', m = m' + 1 := ⟨m - 1, by omega⟩
      simp only [LexRule.matchesAt, LexRule.follow, Bool.and_true, List.take_succ_cons, lang_ident, hc,
        Bool.true_and]
      rw [all_take_iff _ _ _ (by simpa using hm2), spanLen_cons_pos _ _ _ hc']; omega
  · rw [if_neg hc, longest_eq_none]
    intro m hm hm2
    obtain ⟨m, rfl⟩ : ∃ m', m = m' + 1 := ⟨m - 1, by omega⟩
    simp [LexRule.matchesAt, lang_ident, hc]

theorem head_isSome_iff (p : Char → Bool) (rest : List Char) :
    (rest.head?.map p).getD false = true ↔ 1 ≤ spanLen p rest := by
  cases rest with
  | nil => simp [spanLen]
  | cons d r => simp only [List.head?_cons, Option.map_some, Option.getD_some]; rw [← spanLen_pos_iff p d r]; omega

theorem matchLen_hex (c : Char) (rest : List Char) :
    matchLen .hex (c :: rest) =
      if c == '0' && rest.head? == some 'x' && ((rest.drop 1).head?.map isHexDigit).getD false
      then some (2 + spanLen isHexDigit (rest.drop 1)) else none := by
  unfold matchLen
  by_cases hc : (c == '0' && rest.head? == some 'x') = true
  · obtain ⟨d, r', rfl⟩ : ∃ d r', rest = d :: r' := by
      cases rest with
      | nil => simp at hc
      | cons d r' => exact ⟨d, r', rfl⟩
    rw [hc, Bool.true_and]
    simp only [List.head?_cons, Bool.and_eq_true, beq_iff_eq, Option.some.injEq] at hc
    obtain ⟨rfl, rfl⟩ := hc
    simp only [List.drop_succ_cons, List.drop_zero]
    rw [longest_range (lo := 3) (k := 2 + spanLen isHexDigit r') (by omega) ?_
      (by have := spanLen_le isHexDigit r'; simp; omega)]
    · have := head_isSome_iff isHexDigit r'
      by_cases h : 1 ≤ spanLen isHexDigit r'
      · rw [if_pos (by omega), if_pos (this.2 h)]
      · rw [if_neg (by omega), if_neg (fun hh => h (this.1 hh))]
    · intro m hm hm2
      obtain ⟨m, rfl⟩ : ∃ m', m = m' + 1 := ⟨m - 1, by omega⟩
      cases m with
      | zero => simp [LexRule.matchesAt, lang_hex]
      | succ m =>
        simp only [LexRule.matchesAt, LexRule.follow, Bool.and_true, List.take_succ_cons, lang_hex,
          beq_self_eq_true, Bool.true_and, Bool.and_eq_true]
        rw [all_take_iff _ _ _ (by simpa using hm2)]
        cases m with
        | zero => simp
        | succ m =>
          cases r' with
          | nil => simp at hm2
          | cons e r'' => simp; omega
  · rw [if_neg (by simp only [Bool.and_eq_true] at hc ⊢; exact fun hh => hc hh.1), longest_eq_none]
    intro m hm hm2
    obtain ⟨m, rfl⟩ : ∃ m', m = m' + 1 := ⟨m - 1, by omega⟩
    simp only [LexRule.matchesAt, LexRule.follow, Bool.and_true, List.take_succ_cons, lang_hex]
    cases rest with
    | nil => simp
    | cons d r' =>
      cases m with
      | zero => simp
      | succ m =>
        simp only [List.head?_cons, Bool.and_eq_true, beq_iff_eq, Option.some.injEq, not_and] at hc
        simp only [List.take_succ_cons, Bool.and_eq_false_iff, beq_eq_false_iff_ne, ne_eq]
        by_cases h1 : c = '0'
        · right; left; left; exact hc h1
        · left; exact h1

theorem not_digit_minus : isDigit '-' = false := by decide

theorem matchLen_int (c : Char) (rest : List Char) :
    matchLen .int (c :: rest) =
      if isDigit c then some (spanLen isDigit (c :: rest))
      else if c == '-' && (rest.head?.map isDigit).getD false then some (1 + spanLen isDigit rest)
      else none := by
  unfold matchLen
  by_cases hm : (c == '-') = true
  · have hcm : c = '-' := by simpa using hm
    subst hcm
    rw [if_neg (by simp [not_digit_minus]), hm, Bool.true_and]
    rw [longest_range (lo := 2) (k := 1 + spanLen isDigit rest) (by omega) ?_
      (by have := spanLen_le isDigit rest; simp; omega)]
    · have := head_isSome_iff isDigit rest
      by_cases h : 1 ≤ spanLen isDigit rest
      · rw [if_pos (by omega), if_pos (this.2 h)]
      · rw [if_neg (by omega), if_neg (fun hh => h (this.1 hh))]
    · intro m hm1 hm2
      obtain ⟨m, rfl⟩ : ∃ m', m = m' + 1 := ⟨m - 1, by omega⟩
      simp only [LexRule.matchesAt, LexRule.follow, Bool.and_true, List.take_succ_cons, lang_int,
        beq_self_eq_true, if_true, Bool.and_eq_true]
      rw [all_take_iff _ _ _ (by simpa using hm2)]
      cases m with
      | zero => simp
      | succ m =>
        cases rest with
        | nil => simp at hm2
        | cons e r'' => simp; omega
  · by_cases hc : isDigit c = true
    · rw [if_pos hc]
      rw [longest_range (lo := 1) (k := spanLen isDigit (c :: rest)) (by omega) ?_ (spanLen_le _ _)]
      · rw [spanLen_cons_pos _ _ _ hc]; simp
      · intro m hm1 hm2
        obtain ⟨m, rfl⟩ : ∃ m', m = m' + 1 := ⟨m - 1, by omega⟩
        simp only [LexRule.matchesAt, LexRule.follow, Bool.and_true, List.take_succ_cons, lang_int, hm,
          hc, Bool.true_and]
        rw [if_neg (by simp), all_take_iff _ _ _ (by simpa using hm2), spanLen_cons_pos _ _ _ hc]; omega
    · rw [if_neg hc, if_neg (by simp only [Bool.and_eq_true]; exact fun hh => hm hh.1), longest_eq_none]
      intro m hm1 hm2
      obtain ⟨m, rfl⟩ : ∃ m', m = m' + 1 := ⟨m - 1, by omega⟩
      simp [LexRule.matchesAt, lang_int, hm, hc]

/-! ## strings -/

theorem strBody_take (rest : List Char) (m : Nat) (hm : m ≤ rest.length) :
    strBody (rest.take m) = true ↔ ∃ q, closeQuote rest = some q ∧ m = q + 1 := by
  induction rest generalizing m with
  | nil => simp at hm; subst hm; simp [strBody, closeQuote]
  | cons c r ih =>
    cases m with
    | zero => simp [strBody]
    | succ m =>
      simp only [List.length_cons, Nat.add_le_add_iff_right] at hm
      rw [List.take_succ_cons]
      cases m with
      | zero =>
        simp only [List.take_zero, strBody, beq_iff_eq, closeQuote]
        by_cases hc : c = '"'
        · simp [hc]
        · simp only [hc, if_false, Option.map_eq_some_iff, false_iff]
          rintro ⟨q, ⟨a, _, rfl⟩, h⟩; omega
      | succ m =>
        cases r with
        | nil => simp at hm
        | cons d r' =>
          rw [List.take_succ_cons]
          have ih' := ih (m + 1) hm
          rw [List.take_succ_cons] at ih'
          simp only [strBody, Bool.and_eq_true, bne_iff_ne, ne_eq, ih']
          rw [show closeQuote (c :: d :: r') =
            (if c == '"' then some 0 else (closeQuote (d :: r')).map (· + 1)) from rfl]
          by_cases hc : c = '"'
          · simp [hc]
          · simp only [hc, not_false_eq_true, true_and, beq_iff_eq, if_false, Option.map_eq_some_iff]
            constructor
            · rintro ⟨q, h1, h2⟩; exact ⟨q + 1, ⟨q, h1, rfl⟩, by omega⟩
            · rintro ⟨q, ⟨a, h1, rfl⟩, h2⟩; exact ⟨a, h1, by omega⟩

theorem closeQuote_lt (rest : List Char) (q : Nat) (h : closeQuote rest = some q) : q < rest.length := by
  induction rest generalizing q with
  | nil => simp [closeQuote] at h
  | cons c r ih =>
    simp only [closeQuote] at h
    split at h
    · cases h; simp
    · simp only [Option.map_eq_some_iff] at h
      obtain ⟨a, h1, rfl⟩ := h
      have := ih a h1; simp; omega

theorem matchLen_string (c : Char) (rest : List Char) :
    matchLen .string (c :: rest) =
      if c == '"' then (match closeQuote rest with | some n => some (n + 2) | none => none) else none := by
  unfold matchLen
  by_cases hc : (c == '"') = true
  · rw [if_pos hc]
    have key : ∀ m, 0 < m → m ≤ (c :: rest).length →
        (LexRule.matchesAt .string (c :: rest) m = true ↔ ∃ q, closeQuote rest = some q ∧ m = q + 2) := by
      intro m hm hm2
      obtain ⟨m, rfl⟩ : ∃ m', m = m' + 1 := ⟨m - 1, by omega⟩
      simp only [LexRule.matchesAt, LexRule.follow, Bool.and_true, List.take_succ_cons, lang_string, hc,
        Bool.true_and]
      rw [strBody_take _ _ (by simpa using hm2)]
      constructor
      · rintro ⟨q, h1, h2⟩; exact ⟨q, h1, by omega⟩
      · rintro ⟨q, h1, h2⟩; exact ⟨q, h1, by omega⟩
    cases hq : closeQuote rest with
    | none =>
      rw [longest_eq_none]
      intro m hm hm2
      cases hp : LexRule.matchesAt .string (c :: rest) m with
      | false => rfl
      | true => obtain ⟨q, h1, _⟩ := (key m hm hm2).1 hp; rw [hq] at h1; cases h1
    | some q =>
      have hlt := closeQuote_lt rest q hq
      rw [longest_eq_some]
      refine ⟨by omega, by simp; omega, (key _ (by omega) (by simp; omega)).2 ⟨q, hq, rfl⟩, fun m hm1 hm2 => ?_⟩
      cases hp : LexRule.matchesAt .string (c :: rest) m with
      | false => rfl
      | true =>
        obtain ⟨q', h1, h2⟩ := (key m (by omega) hm2).1 hp
        rw [hq] at h1; cases h1; omega
  · rw [if_neg hc, longest_eq_none]
    intro m hm hm2
    obtain ⟨m, rfl⟩ : ∃ m', m = m' + 1 := ⟨m - 1, by omega⟩
    simp [LexRule.matchesAt, lang_string, hc]

/-! ## fixed words: punctuation and keywords -/

theorem matchLen_word (r : LexRule) (w : List Char) (hw : w ≠ []) (cs : List Char)
    (hlang : ∀ x, r.lang x = (x == w)) :
    matchLen r cs =
      if w.isPrefixOf cs && r.follow (cs.drop w.length).head? then some w.length else none := by
  unfold matchLen
  have hL : 0 < w.length := List.length_pos_iff.mpr hw
  rw [longest_point (L := w.length) hL]
  · by_cases hp : w.isPrefixOf cs = true
    · have hp' := List.isPrefixOf_iff_prefix.1 hp
      have hle := hp'.length_le
      have htk := List.prefix_iff_eq_take.1 hp'
      simp only [LexRule.matchesAt, hlang, hp, Bool.true_and, ← htk, beq_self_eq_true, hle, true_and]
    · have : (cs.take w.length == w) = false := by
        rw [beq_eq_false_iff_ne]
        intro h
        exact hp (List.isPrefixOf_iff_prefix.2 (h ▸ List.take_prefix _ _))
      have hpf : w.isPrefixOf cs = false := by
        cases hh : w.isPrefixOf cs with
        | false => rfl
        | true => exact absurd hh hp
      simp only [LexRule.matchesAt, hlang, this, Bool.false_and, Bool.false_eq_true, and_false, if_false, hpf]
  · intro m hm hm2 hp
    simp only [LexRule.matchesAt, hlang, Bool.and_eq_true, beq_iff_eq] at hp
    have := congrArg List.length hp.1
    simp only [List.length_take] at this
    omega

theorem matchLen_fixed1 (k : TokKind) (s : String) (a : Char) (hs : s.toList = [a]) (c : Char)
    (rest : List Char) :
    matchLen (.fixed k s) (c :: rest) = if c == a then some 1 else none := by
  rw [matchLen_word (.fixed k s) [a] (by simp) _ (by intro x; simp [LexRule.lang, hs])]
  simp only [LexRule.follow, Bool.and_true, List.length_cons, List.length_nil]
  by_cases h : c = a
  · subst h; simp [List.isPrefixOf]
  · have h' : ¬ a = c := fun hh => h hh.symm
    simp [List.isPrefixOf, h, h']

theorem matchLen_newline (c : Char) (rest : List Char) :
    matchLen .newline (c :: rest) = if c == '\n' then some 1 else none := by
  rw [matchLen_word .newline ['\n'] (by simp) _ (by intro x; simp [LexRule.lang])]
  simp only [LexRule.follow, Bool.and_true, List.length_cons, List.length_nil]
  by_cases h : c = '\n'
  · subst h; simp [List.isPrefixOf]
  · have h' : ¬ '\n' = c := fun hh => h hh.symm
    simp [List.isPrefixOf, h, h']

theorem matchLen_dcolon (c : Char) (rest : List Char) :
    matchLen (.fixed .dcolon "::") (c :: rest) =
      if c == ':' && rest.head? == some ':' then some 2 else none := by
  rw [matchLen_word (.fixed .dcolon "::") [':', ':'] (by simp) _ (by intro x; simp [LexRule.lang])]
  simp only [LexRule.follow, Bool.and_true, List.length_cons, List.length_nil]
  cases rest with
  | nil => simp [List.isPrefixOf]
  | cons d r =>
    have e1 : (':' == c) = (c == ':') := by
      rw [Bool.eq_iff_iff, beq_iff_eq, beq_iff_eq]; exact eq_comm
    have e2 : (':' == d) = (d == ':') := by
      rw [Bool.eq_iff_iff, beq_iff_eq, beq_iff_eq]; exact eq_comm
    simp only [List.isPrefixOf, e1, e2, Bool.and_true, List.head?_cons]
    by_cases h : c = ':' <;> by_cases h2 : d = ':' <;> simp [h, h2]

theorem follow_kw (k : TokKind) (s : String) (l : List Char) :
    LexRule.follow (.keyword k s) l.head? = (match l with | [] => true | c :: _ => !isIdCont c) := by
  cases l <;> simp [LexRule.follow, chIdCont_eq]

theorem matchLen_kw (k : TokKind) (s : String) (hs : s.toList ≠ []) (cs : List Char) :
    matchLen (.keyword k s) cs = if kwAt s.toList cs then some s.toList.length else none := by
  rw [matchLen_word (.keyword k s) s.toList hs _ (by intro x; simp [LexRule.lang])]
  rw [follow_kw]; rfl

end Resynth.LexLemmas
