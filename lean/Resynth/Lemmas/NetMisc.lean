import Resynth.Lemmas.NetUdp
/-!
# ICMP echo, raw IP datagrams / fragments, GRE frames
-/
namespace Resynth

open Spec (IpFields)

/-! ## ICMP -/

/-- the IP header `icmpEcho` builds for `n` payload bytes -/
def icmpIp (src dst n : Nat) : IpHdr :=
  ((({ protocol := Proto.icmp, totLen := 28, saddr := src, daddr := dst } : IpHdr).calcCsum).addTotLen
    (n % 65536)).calcCsum

/-- the ICMP message `icmpEcho` builds -/
def icmpMsg (typ id seq : Nat) (bytes : Bytes) : Bytes :=
  [b8 typ, 0] ++ be16 (ipCsum ([b8 typ, 0, 0, 0] ++ (be16 id ++ be16 seq ++ bytes))) ++
    (be16 id ++ be16 seq ++ bytes)

theorem icmpEcho_eq (src dst : Nat) (raw : Bool) (typ id seq : Nat) (bytes : Bytes) :
    icmpEcho src dst raw typ id seq bytes =
      (if raw then [] else ethHdr (macOfIp dst) (macOfIp src) 0x0800) ++
        ((icmpIp src dst bytes.length).serialize ++ icmpMsg typ id seq bytes) := by
  simp [icmpEcho, icmpIp, icmpMsg]

@[simp] theorem icmpMsg_length (typ id seq : Nat) (bytes : Bytes) :
    (icmpMsg typ id seq bytes).length = 8 + bytes.length := by
  simp [icmpMsg]; omega

theorem icmpIp_is (src dst n : Nat) : (icmpIp src dst n).Is { src := src, dst := dst, proto := 1 } (8 + n) := by
  have base : IpHdr.IsPre ({ protocol := Proto.icmp, totLen := 28, saddr := src, daddr := dst } : IpHdr)
      { src := src, dst := dst, proto := 1 } 8 :=
    { ver := rfl, len := rfl, src := rfl, dst := rfl, proto := rfl, id := rfl, ttl := rfl,
      frag := IpHdr.fragIs_zero }
  exact (base.calc.toIsPre.addTotLen (n % 65536) n (by omega)).calc

theorem icmpMsg_csumOk (typ id seq : Nat) (bytes : Bytes) (hfit : 28 + bytes.length ≤ 65535) :
    Spec.csumOk (icmpMsg typ id seq bytes) = true := by
  unfold icmpMsg
  apply csumOk_insert _ _ _ (by simp) (csumFold_le _)
  have e : sum16 ([b8 typ, 0, 0, 0] ++ (be16 id ++ be16 seq ++ bytes)) =
      sum16 [b8 typ, 0] + sum16 (be16 id ++ be16 seq ++ bytes) := by
    simp [sum16]
  have b1 := sum16_lt_of_length [b8 typ, 0] 2 (by simp)
  have b2 := sum16_le (be16 id ++ be16 seq ++ bytes)
  have hl : (be16 id ++ be16 seq ++ bytes).length = 4 + bytes.length := by simp; omega
  rw [hl] at b2
  rw [e]
  exact csumFold_verifies _ (by omega)

/-- C03 for ICMP, on the IP datagram -/
theorem icmp_echoOk (src dst typ id seq : Nat) (bytes : Bytes) (ht : typ < 256) (hi : id < 65536)
    (hq : seq < 65536) (hfit : 28 + bytes.length ≤ 65535) :
    Spec.icmpEchoOk typ id seq ((icmpIp src dst bytes.length).serialize ++ icmpMsg typ id seq bytes) = true := by
  have hcs := icmpMsg_csumOk typ id seq bytes hfit
  have h1 : Spec.u8At ((icmpIp src dst bytes.length).serialize ++ icmpMsg typ id seq bytes) 20 = typ := by
    simp [IpHdr.serialize_eq, icmpMsg]; omega
  have h2 : Spec.u8At ((icmpIp src dst bytes.length).serialize ++ icmpMsg typ id seq bytes) 21 = 0 := by
    simp [IpHdr.serialize_eq, icmpMsg]
  have h3 : Spec.u16At ((icmpIp src dst bytes.length).serialize ++ icmpMsg typ id seq bytes) 24 = id := by
    simp [IpHdr.serialize_eq, icmpMsg, be16, Spec.u16At]; omega
  have h4 : Spec.u16At ((icmpIp src dst bytes.length).serialize ++ icmpMsg typ id seq bytes) 26 = seq := by
    simp [IpHdr.serialize_eq, icmpMsg, be16, Spec.u16At]; omega
  simp only [Spec.icmpEchoOk, h1, h2, h3, h4, IpHdr.drop20, hcs, beq_self_eq_true, Bool.and_true,
    decide_eq_true_eq]
  simp; omega

/-- C02 for ICMP -/
theorem icmp_ipv4 (src dst : Nat) (raw : Bool) (typ id seq : Nat) (bytes : Bytes)
    (hs : src < 4294967296) (hd : dst < 4294967296) (hfit : 28 + bytes.length ≤ 65535) :
    Spec.ipv4Is { src := src, dst := dst, proto := 1 }
      (Spec.ipOfFrame raw (icmpEcho src dst raw typ id seq bytes)) = true := by
  rw [icmpEcho_eq, ipOfFrame_eq _ _ _ (by simp)]
  apply IpHdr.Is.ok
  · rw [icmpMsg_length]; exact icmpIp_is ..
  · simp [IpFields.inRange, hs, hd]
  · rw [icmpMsg_length]; omega

theorem icmp_ipOfFrame (src dst : Nat) (raw : Bool) (typ id seq : Nat) (bytes : Bytes) :
    Spec.ipOfFrame raw (icmpEcho src dst raw typ id seq bytes) =
      (icmpIp src dst bytes.length).serialize ++ icmpMsg typ id seq bytes := by
  rw [icmpEcho_eq, ipOfFrame_eq _ _ _ (by simp)]

/-- C18 for ICMP -/
theorem icmp_framing (src dst : Nat) (typ id seq : Nat) (bytes : Bytes) :
    icmpEcho src dst false typ id seq bytes = Spec.ethFrame (icmpEcho src dst true typ id seq bytes) := by
  rw [icmpEcho_eq, icmpEcho_eq]
  simp only [Bool.false_eq_true, if_false, if_true, List.nil_append]
  rw [ethFrame_eq, (icmpIp_is src dst bytes.length).src, (icmpIp_is src dst bytes.length).dst]

/-! ## raw IP datagrams and fragments -/

/-- the context header's fields are representable and it is a plain 20-byte header -/
def IpHdr.inRange (h : IpHdr) : Bool :=
  h.ihlVersion == 0x45 && decide (h.saddr < 4294967296) && decide (h.daddr < 4294967296) &&
    decide (h.protocol < 256) && decide (h.id < 65536) && decide (h.ttl < 256)

/-- the fields a fragment built from context header `h` must carry -/
def fragFields (h : IpHdr) (off : Nat) (mf : Bool) : IpFields :=
  { src := h.saddr, dst := h.daddr, proto := h.protocol, id := h.id, ttl := h.ttl, off := off,
    evil := h.fragOff.testBit 15, df := h.fragOff.testBit 14, mf := mf }

/-- the header `ipDgramFrag` emits -/
def fragHdr (h : IpHdr) (n off : Nat) (mf : Bool) : IpHdr :=
  ((({ h with totLen := (n % 65536 + 20) % 65536 } : IpHdr).setFragOff off).setMf mf).calcCsum

theorem ipDgramFrag_eq (h : IpHdr) (payload : Bytes) (raw : Bool) (off : Nat) (mf : Bool) :
    ipDgramFrag h payload raw off mf =
      (if raw then [] else ethHdr (macOfIp h.daddr) (macOfIp h.saddr) 0x0800) ++
        ((fragHdr h payload.length off mf).serialize ++ payload) := by
  simp [ipDgramFrag, fragHdr]

theorem fragHdr_is (h : IpHdr) (n off : Nat) (mf : Bool) (hv : h.ihlVersion = 0x45) (ho : off < 8192) :
    (fragHdr h n off mf).Is (fragFields h off mf) n := by
  have base : IpHdr.IsPre ({ h with totLen := (n % 65536 + 20) % 65536 } : IpHdr)
      { src := h.saddr, dst := h.daddr, proto := h.protocol, id := h.id, ttl := h.ttl,
        off := h.fragOff % 8192, evil := h.fragOff.testBit 15, df := h.fragOff.testBit 14,
        mf := h.fragOff.testBit 13 } n :=
    { ver := hv, len := by show (n % 65536 + 20) % 65536 % 65536 = _; omega,
      src := rfl, dst := rfl, proto := rfl, id := rfl, ttl := rfl, frag := IpHdr.fragIs_self _ }
  exact ((base.setFragOff off ho).setMf mf).calc

theorem ipDgramFrag_ipv4 (h : IpHdr) (payload : Bytes) (raw : Bool) (off : Nat) (mf : Bool)
    (hr : h.inRange = true) (ho : off < 8192) (hfit : 20 + payload.length ≤ 65535) :
    Spec.ipv4Is (fragFields h off mf) (Spec.ipOfFrame raw (ipDgramFrag h payload raw off mf)) = true := by
  simp only [IpHdr.inRange, Bool.and_eq_true, beq_iff_eq, decide_eq_true_eq] at hr
  obtain ⟨⟨⟨⟨⟨h0, h1⟩, h2⟩, h3⟩, h4⟩, h5⟩ := hr
  rw [ipDgramFrag_eq, ipOfFrame_eq _ _ _ (by simp)]
  apply IpHdr.Is.ok (fragHdr_is h payload.length off mf h0 ho)
  · simp [IpFields.inRange, fragFields, *]
  · exact hfit

theorem ipDgramFrag_framing (h : IpHdr) (payload : Bytes) (off : Nat) (mf : Bool) :
    ipDgramFrag h payload false off mf = Spec.ethFrame (ipDgramFrag h payload true off mf) := by
  rw [ipDgramFrag_eq, ipDgramFrag_eq]
  simp only [Bool.false_eq_true, if_false, if_true, List.nil_append]
  rw [ethFrame_eq]
  rfl

/-- the header `ipv4Datagram` emits -/
def dgramHdr (src dst id : Nat) (evil df mf : Bool) (ttl fragOff proto n : Nat) : IpHdr :=
  ({ (((({ totLen := (20 + n % 65536) % 65536, id := id } : IpHdr).setEvil evil).setDf df).setMf mf).setFragOff
      fragOff with ttl := ttl, protocol := proto, saddr := src, daddr := dst } : IpHdr).calcCsum

theorem ipv4Datagram_eq (src dst id : Nat) (evil df mf : Bool) (ttl fragOff proto : Nat) (data : Bytes) :
    ipv4Datagram src dst id evil df mf ttl fragOff proto data =
      ethHdr (macOfIp dst) (macOfIp src) 0x0800 ++
        ((dgramHdr src dst id evil df mf ttl fragOff proto data.length).serialize ++ data) := by
  simp [ipv4Datagram, dgramHdr]

theorem dgramHdr_is (src dst id : Nat) (evil df mf : Bool) (ttl fragOff proto n : Nat) (ho : fragOff < 8192) :
    (dgramHdr src dst id evil df mf ttl fragOff proto n).Is
      { src := src, dst := dst, proto := proto, id := id, ttl := ttl, off := fragOff,
        evil := evil, df := df, mf := mf } n := by
  let h0 : IpHdr := { totLen := (20 + n % 65536) % 65536, id := id }
  have f0 : IpHdr.FragIs h0.fragOff 0 false false false := IpHdr.fragIs_zero
  have f1 := f0.setEvil h0 evil
  have f2 := f1.setDf _ df
  have f3 := f2.setMf _ mf
  have f4 := f3.setFragOff _ fragOff ho
  exact IpHdr.IsPre.calc
    { ver := rfl, len := by show (20 + n % 65536) % 65536 % 65536 = _; omega,
      src := rfl, dst := rfl, proto := rfl, id := rfl, ttl := rfl, frag := f4 }

/-! ## GRE -/

namespace GreFrame

/-- everything after the IP header -/
def payload (g : GreFrame) : Bytes := g.gre ++ g.seqHdr.getD [] ++ g.body

def ipDgram (g : GreFrame) : Bytes := g.ip.serialize ++ g.payload

def fields (src dst : Nat) : IpFields := { src := src, dst := dst, proto := 47 }

structure Pre (g : GreFrame) (src dst : Nat) (raw : Bool) : Prop where
  ip : g.ip.IsPre (fields src dst) g.payload.length
  seqLen : ∀ x, g.seqHdr = some x → x.length = 4
  eth : g.eth = ethHdr (macOfIp dst) (macOfIp src) 0x0800
  raw : g.raw = raw

structure Shape (g : GreFrame) (src dst : Nat) (raw : Bool) : Prop extends Pre g src dst raw where
  fresh : g.ip.Fresh

variable {g : GreFrame} {src dst : Nat} {raw : Bool}

theorem Shape.is (w : g.Shape src dst raw) : g.ip.Is (fields src dst) g.payload.length :=
  { w.ip with fresh := w.fresh }

theorem Pre.new (src dst flags proto : Nat) (raw : Bool) :
    (GreFrame.new src dst flags proto raw).Pre src dst raw := by
  have base : IpHdr.IsPre ({ protocol := Proto.gre, totLen := 24, saddr := src, daddr := dst } : IpHdr)
      (fields src dst) 4 :=
    { ver := rfl, len := rfl, src := rfl, dst := rfl, proto := rfl, id := rfl, ttl := rfl,
      frag := IpHdr.fragIs_zero }
  by_cases hseq : (flags &&& 0x1000 != 0) = true
  · refine ⟨?_, ?_, rfl, rfl⟩
    · have := base.calc.toIsPre.addTotLen 4 4 rfl
      simpa [GreFrame.new, hseq, payload, zeros] using this
    · intro x hx
      simp [GreFrame.new, hseq] at hx
      simp [← hx, zeros]
  · refine ⟨?_, ?_, rfl, rfl⟩
    · have := base.calc.toIsPre
      simpa [GreFrame.new, hseq, payload] using this
    · intro x hx
      simp [GreFrame.new, hseq] at hx

theorem Pre.seq (w : g.Pre src dst raw) (n : Nat) : (g.seq n).Pre src dst raw := by
  have hl : (g.seq n).payload.length = g.payload.length := by
    unfold GreFrame.seq payload
    cases h : g.seqHdr with
    | none => simp
    | some x => simp [w.seqLen x h]
  refine ⟨?_, ?_, w.eth, w.raw⟩
  · rw [hl]; exact w.ip
  · intro x hx
    cases h : g.seqHdr with
    | none => simp [GreFrame.seq, h] at hx
    | some y => simp [GreFrame.seq, h] at hx; simp [← hx]

theorem Pre.push (w : g.Pre src dst raw) (bytes : Bytes) : (g.push bytes).Shape src dst raw := by
  have hl : (g.push bytes).payload.length = g.payload.length + bytes.length := by
    simp [GreFrame.push, payload]; omega
  refine ⟨⟨?_, w.seqLen, w.eth, w.raw⟩, IpHdr.fresh_calcCsum _⟩
  rw [hl]
  exact (w.ip.addTotLen (bytes.length % 65536) bytes.length (by omega)).calc.toIsPre

theorem Shape.frame_eq (w : g.Shape src dst raw) :
    g.frame = (if raw then [] else ethHdr (macOfIp dst) (macOfIp src) 0x0800) ++ g.ipDgram := by
  simp [frame, ipDgram, payload, w.raw, w.eth]

theorem Shape.ipOfFrame (w : g.Shape src dst raw) : Spec.ipOfFrame raw g.frame = g.ipDgram := by
  rw [w.frame_eq]; exact ipOfFrame_eq _ _ _ (by simp)

theorem Shape.ipv4 (w : g.Shape src dst raw) (hs : src < 4294967296) (hd : dst < 4294967296)
    (hfit : 20 + g.payload.length ≤ 65535) :
    Spec.ipv4Is (fields src dst) (Spec.ipOfFrame raw g.frame) = true := by
  rw [w.ipOfFrame]
  exact IpHdr.Is.ok w.is (by simp [IpFields.inRange, fields, hs, hd]) hfit

theorem Shape.framing (w : g.Shape src dst raw) :
    g.frame = if raw then g.ipDgram else Spec.ethFrame g.ipDgram := by
  rw [w.frame_eq, ipDgram, ethFrame_eq, w.ip.src, w.ip.dst]
  cases raw <;> simp [fields]

end GreFrame
end Resynth
