import Resynth.Spec.Dns
import Resynth.Lemmas.Framing
/-!
# DNS flag word, names, pointers; NetBIOS names; DHCP header — against `Spec/Dns.lean`
-/
namespace Resynth.Wire
open Spec

/-! ## flag word -/

/-- OR of a multiple of `2^k` with something below `2^k` is their sum -/
theorem or_add (x y k : Nat) (hx : x % 2 ^ k = 0) (hy : y < 2 ^ k) : x ||| y = x + y := by
  have hx' : x = (x / 2 ^ k) <<< k := by
    rw [Nat.shiftLeft_eq, Nat.div_mul_cancel (Nat.dvd_of_mod_eq_zero hx)]
  rw [hx', ← Nat.shiftLeft_add_eq_or_of_lt hy]

theorem ite_toNat (b : Bool) (c : Nat) : (if b then c else 0 : Nat) = b.toNat * c := by cases b <;> simp

/-- `dnsFlags` is the sum of the named bits and fields (no enumeration of opcodes: OR of fields in
disjoint bit ranges is addition) -/
theorem dnsFlags_sum' (opcode rcode : Nat) (r aa tc rd ra z ad cd : Bool) :
    dnsFlags opcode r aa tc rd ra z ad cd rcode =
      r.toNat * 32768 + (opcode % 16) * 2048 + aa.toNat * 1024 + tc.toNat * 512 + rd.toNat * 256 +
      ra.toNat * 128 + z.toNat * 64 + ad.toNat * 32 + cd.toNat * 16 + rcode % 16 := by
  unfold dnsFlags
  have ho : opcode &&& 0xf = opcode % 16 := Nat.and_two_pow_sub_one_eq_mod opcode 4
  have hr : rcode &&& 0xf = rcode % 16 := Nat.and_two_pow_sub_one_eq_mod rcode 4
  rw [ho, hr, Nat.shiftLeft_eq]
  simp only [ite_toNat]
  have := Bool.toNat_le r; have := Bool.toNat_le aa; have := Bool.toNat_le tc; have := Bool.toNat_le rd
  have := Bool.toNat_le ra; have := Bool.toNat_le z; have := Bool.toNat_le ad; have := Bool.toNat_le cd
  generalize r.toNat = R at *; generalize aa.toNat = A at *; generalize tc.toNat = T at *
  generalize rd.toNat = D at *; generalize ra.toNat = V at *; generalize z.toNat = Z at *
  generalize ad.toNat = U at *; generalize cd.toNat = C at *
  have hO : opcode % 16 < 16 := Nat.mod_lt _ (by omega)
  have hQ : rcode % 16 < 16 := Nat.mod_lt _ (by omega)
  generalize opcode % 16 = O at *
  generalize rcode % 16 = Q at *
  rw [or_add (R * 32768) (O * 2 ^ 11) 15 (by omega) (by omega)]
  rw [or_add (R * 32768 + O * 2 ^ 11) (A * 1024) 11 (by omega) (by omega)]
  rw [or_add (R * 32768 + O * 2 ^ 11 + A * 1024) (T * 512) 10 (by omega) (by omega)]
  rw [or_add (R * 32768 + O * 2 ^ 11 + A * 1024 + T * 512) (D * 256) 9 (by omega) (by omega)]
  rw [or_add (R * 32768 + O * 2 ^ 11 + A * 1024 + T * 512 + D * 256) (V * 128) 8 (by omega) (by omega)]
  rw [or_add (R * 32768 + O * 2 ^ 11 + A * 1024 + T * 512 + D * 256 + V * 128) (Z * 64) 7 (by omega) (by omega)]
  rw [or_add (R * 32768 + O * 2 ^ 11 + A * 1024 + T * 512 + D * 256 + V * 128 + Z * 64) (U * 32) 6
    (by omega) (by omega)]
  rw [or_add (R * 32768 + O * 2 ^ 11 + A * 1024 + T * 512 + D * 256 + V * 128 + Z * 64 + U * 32) (C * 16) 5
    (by omega) (by omega)]
  rw [or_add (R * 32768 + O * 2 ^ 11 + A * 1024 + T * 512 + D * 256 + V * 128 + Z * 64 + U * 32 + C * 16) Q 4
    (by omega) (by omega)]

theorem dnsFlags_sum (opcode rcode : Nat) (r aa tc rd ra z ad cd : Bool) :
    dnsFlags opcode r aa tc rd ra z ad cd rcode =
      (if r then 32768 else 0) + (opcode % 16) * 2048 + (if aa then 1024 else 0) + (if tc then 512 else 0) +
      (if rd then 256 else 0) + (if ra then 128 else 0) + (if z then 64 else 0) + (if ad then 32 else 0) +
      (if cd then 16 else 0) + rcode % 16 := by
  simp only [ite_toNat]; exact dnsFlags_sum' ..

theorem dnsFlags_lt (opcode rcode : Nat) (r aa tc rd ra z ad cd : Bool) :
    dnsFlags opcode r aa tc rd ra z ad cd rcode < 65536 := by
  rw [dnsFlags_sum']
  have := Bool.toNat_le r; have := Bool.toNat_le aa; have := Bool.toNat_le tc; have := Bool.toNat_le rd
  have := Bool.toNat_le ra; have := Bool.toNat_le z; have := Bool.toNat_le ad; have := Bool.toNat_le cd
  omega

theorem decide_eq_bool (p : Prop) [Decidable p] (b : Bool) (h : p ↔ b.toNat = 1) : decide p = b := by
  cases b <;> simp_all

/-- every field is read back from its bit position -/
theorem splitFlags_dnsFlags (opcode rcode : Nat) (r aa tc rd ra z ad cd : Bool) :
    splitFlags (dnsFlags opcode r aa tc rd ra z ad cd rcode) =
      { qr := r, opcode := opcode % 16, aa := aa, tc := tc, rd := rd, ra := ra, z := z, ad := ad, cd := cd,
        rcode := rcode % 16 } := by
  rw [dnsFlags_sum']
  have := Bool.toNat_le r; have := Bool.toNat_le aa; have := Bool.toNat_le tc; have := Bool.toNat_le rd
  have := Bool.toNat_le ra; have := Bool.toNat_le z; have := Bool.toNat_le ad; have := Bool.toNat_le cd
  have hO : opcode % 16 < 16 := Nat.mod_lt _ (by omega)
  have hQ : rcode % 16 < 16 := Nat.mod_lt _ (by omega)
  simp only [splitFlags, Nat.testBit_eq_decide_div_mod_eq, DnsFlagBits.mk.injEq]
  refine ⟨?_, ?_, ?_, ?_, ?_, ?_, ?_, ?_, ?_, ?_⟩
  · apply decide_eq_bool; omega
  · omega
  · apply decide_eq_bool; omega
  · apply decide_eq_bool; omega
  · apply decide_eq_bool; omega
  · apply decide_eq_bool; omega
  · apply decide_eq_bool; omega
  · apply decide_eq_bool; omega
  · apply decide_eq_bool; omega
  · omega

/-! ## names -/

/-- the folding step of `dnsSplit` -/
def splitStep (p : Bytes × List Bytes) (c : UInt8) : Bytes × List Bytes :=
  if c == 46 then ([], p.2 ++ [p.1]) else (p.1 ++ [c], p.2)

theorem dnsSplit_eq (name : Bytes) :
    dnsSplit name = (name.foldl splitStep ([], [])).2 ++ [(name.foldl splitStep ([], [])).1] := rfl

theorem foldl_splitStep_label (l : Bytes) (hl : l.contains 46 = false) (cur : Bytes) (acc : List Bytes) :
    l.foldl splitStep (cur, acc) = (cur ++ l, acc) := by
  induction l generalizing cur with
  | nil => simp
  | cons c t ih =>
    have hc : (c == 46) = false := by
      simp only [List.contains_cons, Bool.or_eq_false_iff] at hl
      rcases hl with ⟨h1, _⟩
      rw [beq_eq_false_iff_ne] at h1 ⊢; exact fun h => h1 h.symm
    have ht : t.contains 46 = false := by
      simp only [List.contains_cons, Bool.or_eq_false_iff] at hl; exact hl.2
    rw [List.foldl_cons, splitStep, hc]
    simp [ih ht]

theorem foldl_splitStep_joinDots (ls : List Bytes) :
    ∀ (l : Bytes), (∀ x ∈ l :: ls, x.contains 46 = false) → ∀ (cur : Bytes) (acc : List Bytes),
    ((joinDots (l :: ls)).foldl splitStep (cur, acc)).2 ++ [((joinDots (l :: ls)).foldl splitStep (cur, acc)).1] =
      acc ++ (cur ++ l) :: ls := by
  induction ls with
  | nil => intro l h cur acc; simp [joinDots, foldl_splitStep_label l (h l (by simp))]
  | cons m ms ih =>
    intro l h cur acc
    have hl := h l (by simp)
    have hj : joinDots (l :: m :: ms) = l ++ 46 :: joinDots (m :: ms) := rfl
    rw [hj, List.foldl_append, foldl_splitStep_label l hl, List.foldl_cons]
    have : splitStep (cur ++ l, acc) 46 = ([], acc ++ [cur ++ l]) := by simp [splitStep]
    rw [this, ih m (fun x hx => h x (by simp [hx]))]
    simp

/-- splitting the dotted form of dot-free labels gives the labels back -/
theorem dnsSplit_joinDots (labels : List Bytes) (hne : labels ≠ [])
    (h : ∀ l ∈ labels, l.contains 46 = false) : dnsSplit (joinDots labels) = labels := by
  cases labels with
  | nil => exact absurd rfl hne
  | cons l ls =>
    rw [dnsSplit_eq, foldl_splitStep_joinDots ls l h]
    simp

theorem joinDots_cons_cons (a b : Bytes) (r : List Bytes) :
    joinDots (a :: b :: r) = a ++ 46 :: joinDots (b :: r) := rfl

theorem joinDots_snoc_append (acc : List Bytes) (cur z : Bytes) :
    joinDots (acc ++ [cur ++ z]) = joinDots (acc ++ [cur]) ++ z := by
  induction acc with
  | nil => simp [joinDots]
  | cons a as ih =>
    cases as with
    | nil => simp [joinDots_cons_cons, joinDots]
    | cons b bs =>
      simp only [List.cons_append, joinDots_cons_cons] at ih ⊢
      rw [ih]; simp

theorem joinDots_snoc (xs : List Bytes) (hne : xs ≠ []) (y : Bytes) :
    joinDots (xs ++ [y]) = joinDots xs ++ 46 :: y := by
  induction xs with
  | nil => exact absurd rfl hne
  | cons a as ih =>
    cases as with
    | nil => simp [joinDots_cons_cons, joinDots]
    | cons b bs =>
      have := ih (by simp)
      simp only [List.cons_append, joinDots_cons_cons] at this ⊢
      rw [this]; simp

/-- the splitter's fold keeps "what has been read = the pieces joined by dots", and no piece contains a dot -/
theorem foldl_splitStep_inv (name : Bytes) : ∀ (cur : Bytes) (acc : List Bytes),
    joinDots ((name.foldl splitStep (cur, acc)).2 ++ [(name.foldl splitStep (cur, acc)).1]) =
      joinDots (acc ++ [cur]) ++ name ∧
    ((∀ l ∈ acc, l.contains 46 = false) → cur.contains 46 = false →
      (∀ l ∈ (name.foldl splitStep (cur, acc)).2, l.contains 46 = false) ∧
      (name.foldl splitStep (cur, acc)).1.contains 46 = false) := by
  induction name with
  | nil => intro cur acc; exact ⟨by simp, fun ha hc => ⟨ha, hc⟩⟩
  | cons c t ih =>
    intro cur acc
    rw [List.foldl_cons]
    by_cases hc : c = 46
    · subst hc
      have hs : splitStep (cur, acc) 46 = ([], acc ++ [cur]) := by simp [splitStep]
      rw [hs]
      obtain ⟨h1, h2⟩ := ih [] (acc ++ [cur])
      refine ⟨?_, fun ha hcur => h2 ?_ (by simp)⟩
      · rw [h1, joinDots_snoc _ (by simp)]; simp
      · intro l hl
        rcases List.mem_append.mp hl with h | h
        · exact ha l h
        · simp at h; subst h; exact hcur
    · have hb : (c == 46) = false := by simpa using hc
      have hs : splitStep (cur, acc) c = (cur ++ [c], acc) := by simp [splitStep, hb]
      rw [hs]
      obtain ⟨h1, h2⟩ := ih (cur ++ [c]) acc
      refine ⟨?_, fun ha hcur => h2 ha ?_⟩
      · rw [h1, joinDots_snoc_append]; simp
      · have : (46 : UInt8) ≠ c := fun h => hc h.symm
        have hcur' : ¬ 46 ∈ cur := by simpa using hcur
        simp [hcur', this]

/-- every name is the dotted form of what the splitter returns, and those pieces are dot-free -/
theorem joinDots_dnsSplit (name : Bytes) :
    joinDots (dnsSplit name) = name ∧ dnsSplit name ≠ [] ∧ ∀ l ∈ dnsSplit name, l.contains 46 = false := by
  obtain ⟨h1, h2⟩ := foldl_splitStep_inv name [] []
  rw [dnsSplit_eq]
  refine ⟨by simpa [joinDots] using h1, by simp, ?_⟩
  intro l hl
  obtain ⟨ha, hc⟩ := h2 (by simp) (by simp)
  rcases List.mem_append.mp hl with h | h
  · exact ha l h
  · simp at h; subst h; exact hc

theorem b8_ne_zero (n : Nat) (h : 0 < n) (h' : n < 256) : b8 n ≠ 0 := by
  intro e
  have := congrArg UInt8.toNat e
  simp at this; omega

theorem dnsLabel_ne_nil (l : Bytes) : dnsLabel l ≠ [] := by simp [dnsLabel]

/-- RFC 1035 label sequence: labels of 1..63 bytes parse back, whatever follows the root label -/
theorem parseNameAux_labels (labels : List Bytes) (rest : Bytes) :
    (∀ l ∈ labels, 0 < l.length ∧ l.length ≤ 63) →
    ∀ fuel, labels.length < fuel →
      parseNameAux fuel (labels.flatMap dnsLabel ++ 0 :: rest) = some (labels, rest) := by
  induction labels with
  | nil =>
    intro _ fuel hf
    cases fuel with
    | zero => omega
    | succ f => simp [parseNameAux]
  | cons l ls ih =>
    intro h fuel hf
    cases fuel with
    | zero => omega
    | succ f =>
      have hl := h l (by simp)
      have hne : b8 l.length ≠ 0 := b8_ne_zero _ hl.1 (by omega)
      have hn : (b8 l.length).toNat = l.length := by rw [b8_toNat]; omega
      have ih' := ih (fun x hx => h x (by simp [hx])) f (by simpa using hf)
      rw [List.flatMap_cons, dnsLabel, List.cons_append, List.cons_append, List.append_assoc, parseNameAux]
      simp only [hne, if_false, hn]
      rw [if_neg (by omega), if_neg (by simp)]
      simp [ih']

theorem parseName_labels (labels : List Bytes) (rest : Bytes)
    (h : ∀ l ∈ labels, 0 < l.length ∧ l.length ≤ 63) :
    parseName (labels.flatMap dnsLabel ++ 0 :: rest) = some (labels, rest) := by
  unfold parseName
  apply parseNameAux_labels labels rest h
  have := flatMap_length_ge dnsLabel labels (fun l _ => dnsLabel_ne_nil l)
  simp only [List.length_append, List.length_cons]; omega

theorem validLabel_iff (l : Bytes) :
    validLabel l = true ↔ (0 < l.length ∧ l.length ≤ 63) ∧ l.contains 46 = false := by
  simp [validLabel, and_assoc]

theorem parseName_dnsNameFrom (labels : List Bytes) (rest : Bytes) (hne : labels ≠ [])
    (h : ∀ l ∈ labels, validLabel l = true) :
    parseName (dnsNameFrom (joinDots labels) ++ rest) = some (labels, rest) := by
  unfold dnsNameFrom
  rw [dnsSplit_joinDots labels hne (fun l hl => ((validLabel_iff l).mp (h l hl)).2), List.append_assoc]
  exact parseName_labels labels rest (fun l hl => ((validLabel_iff l).mp (h l hl)).1)

/-! ## compression pointers -/

theorem or_three (z : Nat) (h : z < 4) : 3 ||| z = 3 := by
  have : z = 0 ∨ z = 1 ∨ z = 2 ∨ z = 3 := by omega
  rcases this with rfl | rfl | rfl | rfl <;> rfl

/-- for every 16-bit offset the first byte has its top two bits set and the second is the low byte -/
theorem dnsPointer_bits (off : Nat) :
    ∃ a b, dnsPointer off = [a, b] ∧ a.toNat / 64 = 3 ∧ b.toNat = off % 256 := by
  refine ⟨_, _, rfl, ?_, b8_toNat off⟩
  rw [b8_toNat]
  have hy : off / 256 % 256 < 256 := Nat.mod_lt _ (by omega)
  generalize off / 256 % 256 = y at hy
  have hlt : 0xc0 ||| y < 256 := Nat.or_lt_two_pow (n := 8) (by omega) hy
  rw [Nat.mod_eq_of_lt hlt]
  have h6 : (0xc0 ||| y) / 64 = (0xc0 / 64) ||| (y / 64) := by
    have := Nat.shiftRight_or_distrib (a := 0xc0) (b := y) (i := 6)
    simpa [Nat.shiftRight_eq_div_pow] using this
  rw [h6]
  exact or_three _ (by omega)

theorem parsePointer_dnsPointer (off : Nat) (rest : Bytes) (h : off < 16384) :
    parsePointer (dnsPointer off ++ rest) = some (off, rest) := by
  have hy : off / 256 % 256 = off / 256 := Nat.mod_eq_of_lt (by omega)
  have hor : 0xc0 ||| off / 256 = 192 + off / 256 := or_add 192 (off / 256) 6 (by decide) (by omega)
  simp only [dnsPointer, hy, hor, List.cons_append, List.nil_append, parsePointer, b8_toNat]
  rw [if_pos (by omega)]
  congr 2; omega

/-! ## NetBIOS first-level encoding -/

def nbPair (c : UInt8) : Bytes := [b8 (c.toNat / 16 + 65), b8 (c.toNat % 16 + 65)]

theorem netbiosDecodePairs_flatMap (xs : Bytes) : netbiosDecodePairs (xs.flatMap nbPair) = some xs := by
  induction xs with
  | nil => rfl
  | cons c t ih =>
    have hc := c.toNat_lt
    have h1 : (b8 (c.toNat / 16 + 65)).toNat = c.toNat / 16 + 65 := by rw [b8_toNat]; omega
    have h2 : (b8 (c.toNat % 16 + 65)).toNat = c.toNat % 16 + 65 := by rw [b8_toNat]; omega
    have hb : b8 ((c.toNat / 16 + 65 - 65) * 16 + (c.toNat % 16 + 65 - 65)) = c := by
      have : (c.toNat / 16 + 65 - 65) * 16 + (c.toNat % 16 + 65 - 65) = c.toNat := by omega
      rw [this]; simp [b8]
    rw [List.flatMap_cons, nbPair, List.cons_append, List.cons_append, List.nil_append, netbiosDecodePairs]
    rw [h1, h2, if_pos (by omega), ih, hb]
    rfl

theorem flatMap_nbPair_length (xs : Bytes) : (xs.flatMap nbPair).length = 2 * xs.length := by
  induction xs with
  | nil => rfl
  | cons c t ih => rw [List.flatMap_cons, List.length_append, ih]; simp [nbPair]; omega

/-- the 16-byte padded name: 15 bytes of name and spaces, then the suffix -/
def nbPadded (name : Bytes) (suffix : Nat) : Bytes :=
  name ++ List.replicate (15 - name.length) 32 ++ [b8 suffix]

theorem netbiosEncode_eq (name : Bytes) (suffix : Nat) (h : name.length ≤ 15) :
    netbiosEncode name suffix = some ((nbPadded name suffix).flatMap nbPair) := by
  unfold netbiosEncode
  rw [if_neg (by omega)]
  rfl

theorem nbPadded_length (name : Bytes) (suffix : Nat) (h : name.length ≤ 15) :
    (nbPadded name suffix).length = 16 := by
  simp [nbPadded]; omega

/-! ## DHCP header -/

theorem fixedField_length (w : Nat) (v : Bytes) : (fixedField w v).length = w := by
  simp [fixedField, zeros]; omega

theorem fixedField_eq_padTrunc (w : Nat) (v : Bytes) : fixedField w v = padTrunc w v := by
  have : w - min v.length w = w - v.length := by omega
  simp [fixedField, padTrunc, zeros, this]

/-- a segment of known position inside a concatenation -/
theorem dhcpField_of (f : DhcpField) (m pre seg post : Bytes) (hm : m = pre ++ (seg ++ post))
    (hp : pre.length = f.offset) (hs : seg.length = f.width) : dhcpField f m = some seg := by
  subst hm
  unfold dhcpField
  rw [if_pos (by simp; omega), ← hp, ← hs]
  simp

/-- the `i`-th of a list of segments, when the earlier ones add up to the field's offset -/
theorem dhcpField_idx (f : DhcpField) (segs : List Bytes) (i : Nat) (hi : i < segs.length)
    (hp : (segs.take i).flatten.length = f.offset) (hs : segs[i].length = f.width) :
    dhcpField f segs.flatten = some segs[i] := by
  apply dhcpField_of f _ (segs.take i).flatten segs[i] (segs.drop (i + 1)).flatten _ hp hs
  have : segs = segs.take i ++ segs[i] :: segs.drop (i + 1) := by
    rw [← List.drop_eq_getElem_cons hi, List.take_append_drop]
  conv => lhs; rw [this]
  rw [List.flatten_append, List.flatten_cons]

end Resynth.Wire
