import Resynth.Lemmas.BindSplit
/-!
# `splitArgs` computes the three phases of the spec
-/
namespace Resynth.Bind
open Resynth.Spec

/-! ## `arg_pos` versus parameter names -/

theorem argPos_ge_iff (l : List ArgDesc) (nm : String) :
    ∀ n : Nat, (l.findIdx? (fun a => a.name == nm)).any (fun idx => decide (n ≤ idx))
      = ((l.map (·.name)).contains nm && !((l.map (·.name)).take n).contains nm) := by
  induction l with
  | nil => intro n; simp
  | cons a l ih =>
    intro n
    rw [List.findIdx?_cons]
    by_cases h : (a.name == nm) = true
    · have h' : a.name = nm := by simpa using h
      cases n with
      | zero => simp [h']
      | succ m => simp [h']
    · have h' : ¬ a.name = nm := by simpa using h
      have h'' : ¬ nm = a.name := fun e => h' e.symm
      simp only [h, Bool.false_eq_true, ↓reduceIte]
      cases n with
      | zero =>
        have := ih 0
        cases hf : List.findIdx? (fun a => a.name == nm) l <;> simp_all
      | succ m =>
        have := ih m
        cases hf : List.findIdx? (fun a => a.name == nm) l <;> simp_all

theorem namedOk_eq (f : FuncDef) (n : Nat) (ns : List (String × Val)) :
    ∀ keys : List String, namedOk f n keys ns =
      (ns.all (fun e => (paramNames f).contains e.1 && !((paramNames f).take n).contains e.1)
        && decide (ns.map (·.1)).Nodup && ns.all (fun e => !keys.contains e.1)) := by
  induction ns with
  | nil => intro keys; simp [namedOk]
  | cons e r ih =>
    intro keys
    obtain ⟨nm, v⟩ := e
    simp only [namedOk, ih, FuncDef.argPos, argPos_ge_iff, paramNames]
    simp only [List.all_cons, List.map_cons, List.nodup_cons, List.contains_eq_mem, List.mem_append,
      List.mem_singleton, List.mem_map]
    rw [Bool.eq_iff_iff]
    simp only [Bool.and_eq_true, Bool.not_eq_true', decide_eq_true_eq, decide_eq_false_iff_not,
      List.all_eq_true, not_or]
    constructor
    · rintro ⟨⟨h1, h2⟩, ⟨h3, h4⟩, h5⟩
      refine ⟨⟨⟨h1, h3⟩, ⟨?_, h4⟩⟩, h2, fun x hx => (h5 x hx).1⟩
      rintro ⟨x, hx, hxe⟩
      exact (h5 x hx).2 hxe
    · rintro ⟨⟨⟨h1, h3⟩, h6, h7⟩, h2, h5⟩
      refine ⟨⟨h1, h2⟩, ⟨h3, h7⟩, fun x hx => ⟨h5 x hx, ?_⟩⟩
      intro hxe
      exact h6 ⟨x, hx, hxe⟩

theorem namedOk_nil_keys (f : FuncDef) (call : Call) :
    namedOk f (phases f call).lead.length [] (phases f call).named =
      (!unknownName f call && !alreadySupplied f call) := by
  rw [namedOk_eq]
  simp only [unknownName, alreadySupplied]
  generalize (phases f call).named = ns
  generalize (phases f call).lead.length = n
  rw [Bool.eq_iff_iff]
  simp only [List.contains_eq_mem, List.all_eq_true, Bool.and_eq_true, Bool.not_eq_true',
    decide_eq_true_eq, decide_eq_false_iff_not, List.any_eq_false, List.not_mem_nil,
    not_false_eq_true, implies_true, and_true, Bool.or_eq_false_iff, Bool.not_eq_false'
    ]
  constructor
  · rintro ⟨h1, h2⟩
    refine ⟨fun x hx => ?_, h2, fun x hx => ?_⟩
    · simpa using (h1 x hx).1
    · simpa using (h1 x hx).2
  · rintro ⟨h1, h2, h3⟩
    refine ⟨fun x hx => ⟨?_, ?_⟩, h2⟩
    · simpa using h1 x hx
    · simpa using h3 x hx

/-! ## decomposition of the argument list -/

def leadArgs (f : FuncDef) (args : List ArgSpec) : List ArgSpec :=
  (args.takeWhile fun a => a.name.isNone).take (fillable f)
def namedArgs (f : FuncDef) (args : List ArgSpec) : List ArgSpec :=
  (args.drop (leadArgs f args).length).takeWhile fun a => a.name.isSome
def tailArgs (f : FuncDef) (args : List ArgSpec) : List ArgSpec :=
  (args.drop (leadArgs f args).length).dropWhile fun a => a.name.isSome

theorem leadArgs_prefix (f : FuncDef) (args : List ArgSpec) :
    args = leadArgs f args ++ args.drop (leadArgs f args).length := by
  have h1 : leadArgs f args <+: args :=
    (List.take_prefix _ _).trans (List.takeWhile_prefix _)
  have h2 := List.prefix_iff_eq_take.mp h1
  calc args = args.take (leadArgs f args).length ++ args.drop (leadArgs f args).length :=
        (List.take_append_drop _ _).symm
    _ = _ := by rw [← h2]

theorem args_decomp (f : FuncDef) (args : List ArgSpec) :
    args = leadArgs f args ++ (namedArgs f args ++ tailArgs f args) := by
  unfold namedArgs tailArgs
  rw [List.takeWhile_append_dropWhile]
  exact leadArgs_prefix f args

theorem phases_lead (f : FuncDef) (args : List ArgSpec) :
    (phases f (toCall args)).lead = (leadArgs f args).map (·.val) := by
  simp [phases, toCall, leadArgs, List.takeWhile_map, ← List.map_take, isUnnamed, Function.comp_def]

theorem phases_lead_length (f : FuncDef) (args : List ArgSpec) :
    (phases f (toCall args)).lead.length = (leadArgs f args).length := by
  rw [phases_lead]; simp

theorem phases_named (f : FuncDef) (args : List ArgSpec) :
    (phases f (toCall args)).named = namedPart (namedArgs f args) := by
  have hl := phases_lead_length f args
  simp only [phases, List.length_map] at hl
  simp only [phases, hl]
  simp [toCall, namedArgs, namedPart, ← List.map_drop, List.takeWhile_map, List.filterMap_map,
    isNamed, Function.comp_def]

theorem phases_tail (f : FuncDef) (args : List ArgSpec) :
    (phases f (toCall args)).tail = toCall (tailArgs f args) := by
  have hl := phases_lead_length f args
  simp only [phases, List.length_map] at hl
  simp only [phases, hl]
  simp [toCall, tailArgs, ← List.map_drop, List.dropWhile_map, isNamed, Function.comp_def]

theorem mem_takeWhile_imp' {α} (p : α → Bool) (l : List α) (a : α) (h : a ∈ l.takeWhile p) :
    p a = true := by
  induction l with
  | nil => simp at h
  | cons b l ih =>
    rw [List.takeWhile_cons] at h
    by_cases hb : p b = true
    · simp only [hb, ↓reduceIte, List.mem_cons] at h
      rcases h with rfl | h
      · exact hb
      · exact ih h
    · simp [hb] at h

theorem leadArgs_unnamed (f : FuncDef) (args : List ArgSpec) : ∀ a ∈ leadArgs f args, a.name = none := by
  intro a ha
  have := mem_takeWhile_imp' _ _ _ (List.mem_of_mem_take ha)
  simpa using this

theorem namedArgs_named (f : FuncDef) (args : List ArgSpec) : ∀ a ∈ namedArgs f args, a.name ≠ none := by
  intro a ha
  have := mem_takeWhile_imp' _ _ _ ha
  intro h; simp [h] at this

theorem tailArgs_head (f : FuncDef) (args : List ArgSpec) : ∀ a ∈ (tailArgs f args).head?, a.name = none := by
  intro a ha
  have := List.head?_dropWhile_not (fun a : ArgSpec => a.name.isSome) (args.drop (leadArgs f args).length)
  unfold tailArgs at ha
  cases h : (List.dropWhile (fun a : ArgSpec => a.name.isSome) (args.drop (leadArgs f args).length)).head? with
  | none => simp [h] at ha
  | some b =>
    rw [h] at this ha
    simp at ha this
    subst ha
    simpa using this

/-- if nothing was named and a tail starts, the leading arguments exhausted the fillable parameters -/
theorem lead_full (f : FuncDef) (args : List ArgSpec) (hB : namedArgs f args = [])
    (hC : tailArgs f args ≠ []) : fillable f ≤ (leadArgs f args).length := by
  by_cases h : fillable f ≤ (leadArgs f args).length
  · exact h
  · exfalso
    have hlt : (leadArgs f args).length < fillable f := by omega
    have hA : leadArgs f args = args.takeWhile fun a => a.name.isNone := by
      unfold leadArgs at hlt ⊢
      rw [List.length_take] at hlt
      exact List.take_of_length_le (by omega)
    have hd : args.drop (leadArgs f args).length = args.dropWhile fun a => a.name.isNone := by
      have h1 := leadArgs_prefix f args
      have h2 := (List.takeWhile_append_dropWhile (p := fun a : ArgSpec => a.name.isNone) (l := args)).symm
      rw [← hA] at h2
      exact List.append_cancel_left (h1.symm.trans h2)
    -- the rest starts with a named argument, so `namedArgs` is non-empty unless the rest is empty
    have hdec := args_decomp f args
    cases hrest : args.drop (leadArgs f args).length with
    | nil => simp [tailArgs, hrest] at hC
    | cons b bs =>
      have hb : b.name.isNone = false := by
        have := List.head?_dropWhile_not (fun a : ArgSpec => a.name.isNone) args
        rw [← hd, hrest] at this
        simpa using this
      have : namedArgs f args ≠ [] := by
        unfold namedArgs
        rw [hrest, List.takeWhile_cons]
        cases hn : b.name with
        | none => simp [hn] at hb
        | some n => simp
      exact this hB

/-- `splitArgs` yields exactly the three phases, or fails for one of four reasons -/
theorem splitArgs_phases (f : FuncDef) (args : List ArgSpec) :
    (splitArgs f args).toOption.map (fun p => (p.positional, p.named, p.extra)) =
      if unknownName f (toCall args) || alreadySupplied f (toCall args)
          || misplacedNamed f (toCall args) || surplus f (toCall args) then none
      else some ((phases f (toCall args)).lead, (phases f (toCall args)).named,
                 tailValues f (toCall args)) := by
  have hrun : (splitArgs f args).toOption = run f {} args := rfl
  rw [hrun]
  have hno := namedOk_nil_keys f (toCall args)
  unfold misplacedNamed surplus tailValues
  rw [phases_tail]
  rw [phases_lead_length, phases_named] at hno
  rw [phases_lead, phases_named]
  generalize unknownName f (toCall args) = u at hno ⊢
  generalize alreadySupplied f (toCall args) = d at hno ⊢
  conv => lhs; rw [args_decomp f args]
  rw [run_append, run_lead f _ {} rfl (leadArgs_unnamed f args)
    (by simp [leadArgs, List.length_take]; omega)]
  simp only [Option.bind_some]
  rw [run_append, run_named f _ _ (by simp) (namedArgs_named f args)]
  simp only [List.nil_append, List.length_map, List.map_nil]
  rw [hno]
  cases u <;> cases d <;> simp only [Bool.not_true, Bool.not_false, Bool.and_false, Bool.and_true,
    Bool.false_eq_true, ↓reduceIte, Option.bind_none, Option.map_none, Bool.or_true, Bool.true_or,
    Bool.or_false, Bool.false_or, Option.bind_some]
  by_cases hC : tailArgs f args = []
  · simp [hC, run_nil, toCall]
  · rw [run_tail f _ _ (tailArgs_head f args)]
    · simp only [hC, ↓reduceIte]
      have hne : (toCall (tailArgs f args)).isEmpty = false := by
        cases h : tailArgs f args with
        | nil => exact absurd h hC
        | cons a as => simp [toCall]
      have hall : (tailArgs f args).all (fun a => a.name.isNone) =
          !(toCall (tailArgs f args)).any isNamed := by
        rw [Bool.eq_iff_iff]
        simp [toCall, List.any_map, isNamed, Function.comp_def]
      rw [hall, hne]
      cases hasTail f <;> cases (toCall (tailArgs f args)).any isNamed <;> simp [toCall]
    · by_cases hB : namedArgs f args = []
      · right; simpa using lead_full f args hB hC
      · left; simp [hB]

end Resynth.Bind
