import Resynth.Lemmas.ErrLocEof
import Resynth.Lemmas.InterpInvCli
/-!
# Every statement the driver hands to the interpreter is built from tokens of the file

`TokenPos lines l`: `l` is the position of a token the lexer delivers for one of the lines.
`planOf_good`: every statement of every batch of `planOf src` (what `process_file` executes) contains no
empty expression and records only positions of tokens of the file.
-/
namespace Resynth
open LR

/-- `l` is the position the lexer gives to a token of line `i + 1` of the file -/
def TokenPos (lines : List Bytes) (l : Loc) : Prop :=
  ∃ (i : Nat) (raw : Bytes) (ln : String) (pending : Option String) (lo : Lex.LineOut) (t : Tok),
    lines[i]? = some raw ∧ utf8Decode raw = some ln ∧ Lex.line (i + 1) pending ln = .ok lo ∧
    t ∈ lo.toks ∧ t.loc = l

theorem feedToks_good (P : Loc → Prop) : ∀ (ts : List Tok) (c c' : Cfg), Inv c.state c.stack → CfgGood P c →
    (∀ t ∈ ts, P t.loc) → feedToks c ts = .ok c' → Inv c'.state c'.stack ∧ CfgGood P c'
  | [], c, c', hi, hw, _, h => by
    simp only [feedToks, Except.ok.injEq] at h
    subst h; exact ⟨hi, hw⟩
  | t :: ts, c, c', hi, hw, ht, h => by
    simp only [feedToks] at h
    cases hf : feed c t with
    | panic => simp [hf] at h
    | parseError => simp [hf] at h
    | ok c1 =>
      simp only [hf] at h
      exact feedToks_good P ts c1 c' (feed_inv_ok hi hf) (feed_good P c t hi hw (ht t (by simp)) hf)
        (fun t' ht' => ht t' (by simp [ht'])) h

/-- the front-end loop: all batches are `Good P` when the tokens of the remaining lines are at `P`
positions -/
theorem planLines_good (P : Loc → Prop) : ∀ (rest : List Bytes) (f : Front) (lno : Nat),
    Inv f.cfg.state f.cfg.stack → CfgGood P f.cfg →
    (∀ j raw ln pend lo, rest[j]? = some raw → utf8Decode raw = some ln →
      Lex.line (lno + j) pend ln = .ok lo → ∀ t ∈ lo.toks, P t.loc) →
    (∀ b ∈ (planLines f lno rest).1, StmtsGood P b) ∧
    (∀ f', (planLines f lno rest).2 = .ok f' → Inv f'.cfg.state f'.cfg.stack ∧ CfgGood P f'.cfg)
  | [], f, lno, hi, hw, _ => by
    simp only [planLines, List.not_mem_nil, false_imp_iff, implies_true, Except.ok.injEq, true_and]
    rintro f' rfl
    exact ⟨hi, hw⟩
  | raw :: rest, f, lno, hi, hw, hP => by
    simp only [planLines]
    cases h1 : utf8Decode raw with
    | none => simp
    | some ln =>
      simp only []
      cases h2 : Lex.line lno f.pending ln with
      | error col => simp
      | ok lo =>
        simp only []
        cases h3 : feedToks f.cfg lo.toks with
        | error ol => cases ol <;> simp
        | ok cfg =>
          simp only []
          obtain ⟨hi1, hw1⟩ := feedToks_good P lo.toks f.cfg cfg hi hw
            (hP 0 raw ln f.pending lo (by simp) h1 (by simpa using h2)) h3
          obtain ⟨hs, hw2⟩ := takeResults_good P cfg hw1
          have ih := planLines_good P rest ⟨lo.pending, ⟨lno, lo.endCol⟩, cfg.takeResults.2⟩ (lno + 1)
            hi1 hw2 (fun j raw' ln' pend' lo' hj hu hl =>
              hP (j + 1) raw' ln' pend' lo' (by simpa using hj) hu (by rw [← hl]; congr 1; omega))
          refine ⟨?_, ih.2⟩
          intro b hb
          simp only [List.mem_cons] at hb
          rcases hb with rfl | hb
          · exact hs
          · exact ih.1 b hb

theorem finish_kind {pending : Option String} {loc : Loc} {t : Tok} (h : Lex.finish pending loc = some t) :
    t.kind = .strLit := by
  cases pending with
  | none => cases h
  | some p => simp only [Lex.finish, Option.map_some, Option.some.injEq] at h; subst h; rfl

/-- **every statement `process_file` executes was built by the parser from tokens of the file**: it
contains no empty expression and every position it records is the position of a token the lexer
delivered for a line of the file -/
theorem planOf_good (src : Bytes) : ∀ b ∈ (planOf src).batches, StmtsGood (TokenPos (splitLines src)) b := by
  have hpl := planLines_good (TokenPos (splitLines src)) (splitLines src) ⟨none, Loc.nil, Cfg.init⟩ 1
    Inv_init (CfgGood_init _)
    (fun j raw ln pend lo hj hu hl t ht => ⟨j, raw, ln, pend, lo, t, hj, hu, by rw [Nat.add_comm]; exact hl, ht, rfl⟩)
  unfold planOf
  simp only []
  cases h : (planLines ⟨none, Loc.nil, Cfg.init⟩ 1 (splitLines src)).2 with
  | error o => exact hpl.1
  | ok f =>
    obtain ⟨hi, hw⟩ := hpl.2 f h
    simp only []
    cases hp : feedPending f with
    | parseError => exact hpl.1
    | panic => exact hpl.1
    | ok cfg0 =>
      simp only []
      cases he : feed cfg0 eofTok with
      | parseError => exact hpl.1
      | panic => exact hpl.1
      | ok cfg =>
        simp only []
        intro b hb
        simp only [List.mem_append, List.mem_singleton] at hb
        rcases hb with hb | rfl
        · exact hpl.1 b hb
        · unfold feedPending at hp
          cases hfin : Lex.finish f.pending f.lexLoc with
          | none =>
            simp only [hfin] at hp
            cases hp
            exact (takeResults_good _ cfg (feed_eof_good _ f.cfg hi hw he)).1
          | some t =>
            simp only [hfin] at hp
            exact absurd he (feed_str_then_eof f.cfg cfg0 t (finish_kind hfin) hi hp cfg)

/-- the ways the front end (decoder, lexer, parser) ends a run early -/
theorem planLines_error_cls : ∀ (lines : List Bytes) (f : Front) (lno : Nat) (o : Outcome),
    (planLines f lno lines).2 = .error o →
    (o = .failure "Io" "" Loc.nil ∨ ∃ loc, o = .failure "Lex" "" loc ∨ o = .failure "Parse" "" loc) ∨ ∃ x, o = .panic x := by
  intro lines
  induction lines with
  | nil => intro f lno o h; simp [planLines] at h
  | cons raw rest ih =>
    intro f lno o h
    simp only [planLines] at h
    cases h1 : utf8Decode raw with
    | none => simp only [h1] at h; cases h; exact .inl (.inl rfl)
    | some ln =>
      simp only [h1] at h
      cases h2 : Lex.line lno f.pending ln with
      | error col => simp only [h2] at h; cases h; exact .inl (.inr ⟨_, .inl rfl⟩)
      | ok lo =>
        simp only [h2] at h
        cases h3 : feedToks f.cfg lo.toks with
        | error ol =>
          cases ol with
          | none => simp only [h3] at h; cases h; exact .inr ⟨_, rfl⟩
          | some l => simp only [h3] at h; cases h; exact .inl (.inr ⟨_, .inr rfl⟩)
        | ok cfg =>
          simp only [h3] at h
          exact ih _ _ o h

theorem planOf_final_cls (src : Bytes) (o : Outcome) (h : (planOf src).final = some o) :
    (o = .failure "Io" "" Loc.nil ∨ ∃ loc, o = .failure "Lex" "" loc ∨ o = .failure "Parse" "" loc) ∨ ∃ x, o = .panic x := by
  unfold planOf at h
  simp only [] at h
  cases hr : (planLines ⟨none, Loc.nil, Cfg.init⟩ 1 (splitLines src)).2 with
  | error o' =>
    simp only [hr, Option.some.injEq] at h
    subst h
    exact planLines_error_cls _ _ _ _ hr
  | ok f =>
    simp only [hr] at h
    cases hp : feedPending f with
    | parseError => simp only [hp, Option.some.injEq] at h; subst h; exact .inl (.inr ⟨_, .inr rfl⟩)
    | panic => simp only [hp, Option.some.injEq] at h; subst h; exact .inr ⟨_, rfl⟩
    | ok cfg0 =>
      simp only [hp] at h
      cases he : feed cfg0 eofTok with
      | parseError => simp only [he, Option.some.injEq] at h; subst h; exact .inl (.inr ⟨_, .inr rfl⟩)
      | panic => simp only [he, Option.some.injEq] at h; subst h; exact .inr ⟨_, rfl⟩
      | ok cfg => simp [he] at h

end Resynth
