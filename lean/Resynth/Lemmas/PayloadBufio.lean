import Resynth.Lemmas.PayloadExec
/-!
# Buffered reads partition the buffer

`ReadOp` is one call on an `io::BufIO` object; `runReads` performs a whole history of calls through
the `io::BufIO.read` / `io::BufIO.read_all` arms of `exec`; `trace` is the same history on the pure
state `(buf, taken)`.  `runReads_eq` ties the two together, the remaining lemmas describe `trace`.
-/
namespace Resynth.Payload
open Resynth Resynth.Wire

/-- one call on a `BufIO` object -/
inductive ReadOp
  | read (n : Nat)
  | readAll
  deriving DecidableEq, Repr

namespace ReadOp

/-- the `exec` call an operation stands for (the count is passed as a `u64` value) -/
def call (fs : Fs) (i : Nat) (h : Heap) : ReadOp → Res (Val × Heap)
  | .read n => exec fs "io::BufIO.read" (some i) ⟨[.u64 n], []⟩ h
  | .readAll => exec fs "io::BufIO.read_all" (some i) ⟨[], []⟩ h

/-- pure effect on `(buf, taken)`: the slice handed out and the new `taken` -/
def step (buf : Bytes) (taken : Nat) : ReadOp → Bytes × Nat
  | .read n => ((buf.drop taken).take (min (buf.length - taken) n), taken + min (buf.length - taken) n)
  | .readAll => (buf.drop taken, buf.length)

end ReadOp

/-- perform a history of calls on object `i`, collecting the returned values -/
def runReads (fs : Fs) (i : Nat) : Heap → List ReadOp → Res (List Val × Heap)
  | h, [] => .ok ([], h)
  | h, op :: ops =>
    match op.call fs i h with
    | .ok (v, h1) =>
      match runReads fs i h1 ops with
      | .ok (vs, h2) => .ok (v :: vs, h2)
      | .err e l => .err e l
      | .panic s => .panic s
    | .err e l => .err e l
    | .panic s => .panic s

/-- the pure history: for every call `(taken before, slice returned, taken after)` -/
def trace (buf : Bytes) : Nat → List ReadOp → List (Nat × Bytes × Nat)
  | _, [] => []
  | t, op :: ops => (t, (op.step buf t).1, (op.step buf t).2) :: trace buf (op.step buf t).2 ops

/-- `taken` after the whole history -/
def finalTaken (buf : Bytes) : Nat → List ReadOp → Nat
  | t, [] => t
  | t, op :: ops => finalTaken buf (op.step buf t).2 ops

/-- the returned slices, in order -/
def slices (buf : Bytes) (t : Nat) (ops : List ReadOp) : List Bytes := (trace buf t ops).map (·.2.1)

/-! ## `exec` performs `step` -/

theorem set_same {α} (l : List α) (i : Nat) (a : α) (h : l[i]? = some a) : l.set i a = l := by
  obtain ⟨hi, rfl⟩ := List.getElem?_eq_some_iff.mp h
  exact List.set_getElem_self hi

theorem call_eq (fs : Fs) (i : Nat) (h : Heap) (buf : Bytes) (t : Nat) (hi : h[i]? = some (.bufio buf t))
    (op : ReadOp) :
    op.call fs i h = .ok (.str (op.step buf t).1, setObj h i (.bufio buf (op.step buf t).2)) := by
  cases op with
  | read n => exact exec_bufio_read fs h buf t i hi (.u64 n) n rfl
  | readAll => exact exec_bufio_read_all fs h buf t i hi

theorem runReads_eq (fs : Fs) (i : Nat) (buf : Bytes) : ∀ (ops : List ReadOp) (h : Heap) (t : Nat),
    h[i]? = some (.bufio buf t) →
    runReads fs i h ops =
      .ok ((slices buf t ops).map Val.str, setObj h i (.bufio buf (finalTaken buf t ops)))
  | [], h, t, hi => by
    simp only [runReads, slices, trace, finalTaken, setObj, List.map_nil]
    rw [set_same h i _ hi]
  | op :: ops, h, t, hi => by
    have hlt : i < h.length := (List.getElem?_eq_some_iff.mp hi).1
    have hi' : (setObj h i (.bufio buf (op.step buf t).2))[i]? = some (.bufio buf (op.step buf t).2) :=
      List.getElem?_set_self hlt
    rw [runReads, call_eq fs i h buf t hi op]
    simp only
    rw [runReads_eq fs i buf ops _ _ hi']
    simp only [slices, trace, finalTaken, setObj, List.map_cons, List.set_set]

/-! ## the pure history -/

/-- one step from an in-range position: the slice is `buf[t, t')`, and `t ≤ t' ≤ |buf|` -/
theorem step_slice (buf : Bytes) (t : Nat) (ht : t ≤ buf.length) (op : ReadOp) :
    (op.step buf t).1 = (buf.drop t).take ((op.step buf t).2 - t) ∧
      t ≤ (op.step buf t).2 ∧ (op.step buf t).2 ≤ buf.length := by
  cases op with
  | read n =>
    simp only [ReadOp.step]
    refine ⟨by rw [Nat.add_sub_cancel_left], by omega, by omega⟩
  | readAll =>
    simp only [ReadOp.step]
    exact ⟨(List.take_of_length_le (by rw [List.length_drop]; omega)).symm, ht, Nat.le_refl _⟩

/-- a `read(n)` hands out `min n (bytes left)` bytes -/
theorem step_read_length (buf : Bytes) (t n : Nat) :
    ((ReadOp.read n).step buf t).1.length = min n (buf.length - t) := by
  simp [ReadOp.step, List.length_take, List.length_drop]; omega

/-- `Consec buf t tr k`: the entries of `tr` are consecutive half-open intervals of `buf` starting at
`t` and ending at `k`, each carrying exactly the bytes of its interval -/
def Consec (buf : Bytes) : Nat → List (Nat × Bytes × Nat) → Nat → Prop
  | t, [], k => t = k
  | t, e :: rest, k =>
    e.1 = t ∧ t ≤ e.2.2 ∧ e.2.2 ≤ buf.length ∧ e.2.1 = (buf.drop e.1).take (e.2.2 - e.1) ∧ Consec buf e.2.2 rest k

theorem trace_consec (buf : Bytes) : ∀ (ops : List ReadOp) (t : Nat), t ≤ buf.length →
    Consec buf t (trace buf t ops) (finalTaken buf t ops)
  | [], _, _ => rfl
  | op :: ops, t, ht => by
    obtain ⟨h1, h2, h3⟩ := step_slice buf t ht op
    exact ⟨rfl, h2, h3, h1, trace_consec buf ops _ h3⟩

theorem Consec.bounds {buf : Bytes} : ∀ {tr : List (Nat × Bytes × Nat)} {t k : Nat},
    Consec buf t tr k → t ≤ buf.length → t ≤ k ∧ k ≤ buf.length
  | [], t, k, h, ht => by cases h; exact ⟨Nat.le_refl _, ht⟩
  | e :: rest, t, k, h, _ => by
    obtain ⟨_, h2, h3, _, h5⟩ := h
    have := Consec.bounds h5 h3
    exact ⟨by omega, this.2⟩

/-- the slices of consecutive intervals concatenate to the interval they cover -/
theorem Consec.concat {buf : Bytes} : ∀ {tr : List (Nat × Bytes × Nat)} {t k : Nat},
    Consec buf t tr k → t ≤ buf.length → concatParts (tr.map (·.2.1)) = (buf.drop t).take (k - t)
  | [], t, k, h, _ => by cases h; simp [concatParts]
  | e :: rest, t, k, h, ht => by
    obtain ⟨h1, h2, h3, h4, h5⟩ := h
    have hb := Consec.bounds h5 h3
    have ih := Consec.concat h5 h3
    simp only [List.map_cons, concatParts]
    rw [ih, h4, h1]
    have e1 : k - t = (e.2.2 - t) + (k - e.2.2) := by omega
    rw [e1, List.take_add, List.drop_drop]
    have e2 : t + (e.2.2 - t) = e.2.2 := by omega
    rw [e2]

/-- later intervals start at or after `t` -/
theorem Consec.ge_start {buf : Bytes} : ∀ {tr : List (Nat × Bytes × Nat)} {t k : Nat},
    Consec buf t tr k → ∀ e ∈ tr, t ≤ e.1
  | [], _, _, _, e, he => by simp at he
  | e0 :: rest, t, k, h, e, he => by
    obtain ⟨h1, h2, _, _, h5⟩ := h
    rcases List.mem_cons.mp he with rfl | hm
    · omega
    · have := Consec.ge_start h5 e hm; omega

/-- non-overlap: an earlier interval ends before (or where) every later one starts -/
theorem Consec.pairwise {buf : Bytes} : ∀ {tr : List (Nat × Bytes × Nat)} {t k : Nat},
    Consec buf t tr k → tr.Pairwise (fun e e' => e.2.2 ≤ e'.1)
  | [], _, _, _ => List.Pairwise.nil
  | _ :: _, _, _, h => by
    obtain ⟨_, _, _, _, h5⟩ := h
    exact List.Pairwise.cons (fun e' he' => Consec.ge_start h5 e' he') (Consec.pairwise h5)

theorem trace_length (buf : Bytes) : ∀ (ops : List ReadOp) (t : Nat), (trace buf t ops).length = ops.length
  | [], _ => rfl
  | _ :: ops, _ => by simp [trace, trace_length buf ops]

theorem trace_append (buf : Bytes) : ∀ (a b : List ReadOp) (t : Nat),
    trace buf t (a ++ b) = trace buf t a ++ trace buf (finalTaken buf t a) b
  | [], _, _ => rfl
  | op :: a, b, t => by simp [trace, finalTaken, trace_append buf a b]

theorem finalTaken_append (buf : Bytes) : ∀ (a b : List ReadOp) (t : Nat),
    finalTaken buf t (a ++ b) = finalTaken buf (finalTaken buf t a) b
  | [], _, _ => rfl
  | op :: a, b, t => by simp [finalTaken, finalTaken_append buf a b]

theorem slices_append (buf : Bytes) (a b : List ReadOp) (t : Nat) :
    slices buf t (a ++ b) = slices buf t a ++ slices buf (finalTaken buf t a) b := by
  simp [slices, trace_append]

/-- once everything has been handed out every further call returns the empty string -/
theorem exhausted (buf : Bytes) : ∀ (ops : List ReadOp),
    slices buf buf.length ops = ops.map (fun _ => []) ∧ finalTaken buf buf.length ops = buf.length
  | [] => ⟨rfl, rfl⟩
  | op :: ops => by
    have hs : op.step buf buf.length = ([], buf.length) := by
      cases op <;> simp [ReadOp.step]
    obtain ⟨h1, h2⟩ := exhausted buf ops
    simp only [slices] at h1
    simp only [slices, trace, finalTaken, hs, List.map_cons, h1, h2, and_self]

theorem finalTaken_readAll (buf : Bytes) (pre : List ReadOp) (t : Nat) :
    finalTaken buf t (pre ++ [.readAll]) = buf.length := by
  rw [finalTaken_append]; rfl

end Resynth.Payload
