import Resynth.Model.Batch
/-!
# Lemmas about the command-line loop (`Model/Batch.lean`)

* `OutDir`: `get?` after `put` / `del`.
* `Input.report`: the report of one input written out as a function of that input alone;
  `runInput_fst`: it is the first component of `runInput`, whatever the directory and `keep`.
* `runInput_get?_other`: one input touches at most the entry named `outName stem`.
* `runBatchFrom_eq`: the loop, when no input panics, as a `map` (reports), a `foldl` (directory) and
  an `any` (exit status).
* `runBatchFrom_exit_zero`: exit status 0 iff nothing failed (no hypothesis).
* `outName` characterised.
-/
namespace Resynth

/-! ## the output directory -/
namespace OutDir

theorem find?_filter_ne (d : OutDir) {k k' : String} (h : k' ≠ k) :
    (d.filter (·.1 != k)).find? (·.1 == k') = d.find? (·.1 == k') := by
  rw [List.find?_filter]
  congr 1
  funext a
  by_cases hk : a.1 = k' <;> simp [hk, h]

theorem find?_filter_self (d : OutDir) (k : String) :
    (d.filter (·.1 != k)).find? (·.1 == k) = none := by
  simp [List.find?_eq_none]

@[simp] theorem get?_nil (k : String) : OutDir.get? [] k = none := rfl

theorem get?_put_self (d : OutDir) (k : String) (v : Bytes) : (d.put k v).get? k = some v := by
  simp [OutDir.put, OutDir.get?]

theorem get?_put_ne (d : OutDir) {k k' : String} (v : Bytes) (h : k' ≠ k) :
    (d.put k v).get? k' = d.get? k' := by
  have hk : ¬ k = k' := fun hc => h hc.symm
  simp [OutDir.put, OutDir.get?, hk, find?_filter_ne d h]

theorem get?_del_self (d : OutDir) (k : String) : (d.del k).get? k = none := by
  simp [OutDir.del, OutDir.get?]

theorem get?_del_ne (d : OutDir) {k k' : String} (h : k' ≠ k) : (d.del k).get? k' = d.get? k' := by
  simp [OutDir.del, OutDir.get?, find?_filter_ne d h]

end OutDir

/-! ## one input -/

/-- what is printed for one input, as a function of the input alone -/
def Input.report (env : Env) (i : Input) : Report :=
  match i.stem with
  | none => .notAFileName
  | some _ =>
    match i.src with
    | none => .error "Io" "" Loc.nil
    | some src =>
      if !i.outOk then .error "Io" "" Loc.nil
      else if i.unreadable then .error "Io" "" Loc.nil
      else
        match (processFile env i.budget src).outcome with
        | .success => .ok
        | .failure cls detail loc => .error cls detail loc
        | .panic site => .panic site

/-- the report of an input does not depend on the directory nor on `--keep` -/
theorem runInput_fst (env : Env) (keep : Bool) (d : OutDir) (i : Input) :
    (runInput env keep d i).1 = i.report env := by
  unfold runInput Input.report
  cases i.stem with
  | none => rfl
  | some stem =>
    cases i.src with
    | none => rfl
    | some src =>
      simp only []
      cases i.outOk <;> cases i.unreadable <;> simp only [Bool.not_true, Bool.not_false, if_true, if_false,
        Bool.false_eq_true]
      cases (processFile env i.budget src).outcome <;> rfl

/-- no input panics: what `C08.file_total` gives for the real library -/
def NoPanic (env : Env) : Prop := ∀ budget src, ∀ s, (processFile env budget src).outcome ≠ .panic s

theorem report_ne_panic {env : Env} (hnp : NoPanic env) (i : Input) (s : String) : i.report env ≠ .panic s := by
  unfold Input.report
  cases i.stem with
  | none => intro h; cases h
  | some stem =>
    cases hs : i.src with
    | none => intro h; cases h
    | some src =>
      simp only []
      cases i.outOk <;> cases i.unreadable <;> simp only [Bool.not_true, Bool.not_false, if_true, if_false,
        Bool.false_eq_true] <;> try (intro h; cases h)
      cases ho : (processFile env i.budget src).outcome with
      | success => intro h; cases h
      | failure => intro h; cases h
      | panic site => exact absurd ho (hnp _ _ _)

/-- an input without a file name leaves the directory alone -/
theorem runInput_snd_noStem (env : Env) (keep : Bool) (d : OutDir) (i : Input) (h : i.stem = none) :
    (runInput env keep d i).2 = d := by
  unfold runInput; rw [h]

/-- one input touches at most the entry `outName stem` -/
theorem runInput_get?_other (env : Env) (keep : Bool) (d : OutDir) (i : Input) (k : String)
    (h : ∀ stem, i.stem = some stem → k ≠ outName stem) :
    (runInput env keep d i).2.get? k = d.get? k := by
  unfold runInput
  cases hs : i.stem with
  | none => rfl
  | some stem =>
    have hk := h stem hs
    cases i.src with
    | none => cases keep <;> simp [OutDir.get?_del_ne d hk]
    | some src =>
      simp only []
      cases i.outOk <;> cases i.unreadable <;> cases keep <;>
        simp only [Bool.not_true, Bool.not_false, if_true, if_false, Bool.false_eq_true,
          OutDir.get?_del_ne d hk, OutDir.get?_put_ne d _ hk]
      all_goals
        cases (processFile env i.budget src).outcome <;>
          simp only [OutDir.get?_del_ne d hk, OutDir.get?_put_ne d _ hk]

/-- a successful run leaves its output under `outName stem` -/
theorem runInput_get?_success (env : Env) (keep : Bool) (d : OutDir) (i : Input) (stem : String) (src : Bytes)
    (hstem : i.stem = some stem) (hsrc : i.src = some src) (hout : i.outOk = true) (hrd : i.unreadable = false)
    (hok : (processFile env i.budget src).outcome = .success) :
    (runInput env keep d i).2.get? (outName stem) = some (processFile env i.budget src).file := by
  unfold runInput
  simp only [hstem, hsrc, hout, hrd, hok, Bool.not_true, if_false, Bool.false_eq_true, OutDir.get?_put_self]

/-- without `--keep` a failed run leaves nothing new under `outName stem`: the entry is removed, or (the
output could not be created) it is what it was -/
theorem runInput_get?_failed (env : Env) (d : OutDir) (i : Input) (stem : String)
    (hstem : i.stem = some stem) (hnp : ∀ s, i.report env ≠ .panic s) (hf : i.report env ≠ .ok) :
    (runInput env false d i).2.get? (outName stem) = none ∨
    (i.outOk = false ∧ (runInput env false d i).2.get? (outName stem) = d.get? (outName stem)) := by
  unfold Input.report at hnp hf
  unfold runInput
  rw [hstem] at hnp hf ⊢
  cases hsrc : i.src with
  | none => simp [OutDir.get?_del_self]
  | some src =>
    rw [hsrc] at hnp hf
    simp only [] at hnp hf ⊢
    cases hout : i.outOk
    · right; simp
    · left
      rw [hout] at hnp hf
      cases hrd : i.unreadable
      · rw [hrd] at hnp hf
        simp only [Bool.not_true, Bool.false_eq_true, if_false] at hnp hf ⊢
        cases ho : (processFile env i.budget src).outcome with
        | success => rw [ho] at hf; exact absurd rfl hf
        | failure => simp [OutDir.get?_del_self]
        | panic site => rw [ho] at hnp; exact absurd rfl (hnp site)
      · simp [OutDir.get?_del_self]

/-- with `--keep` the output of a run that ends with a diagnostic stays -/
theorem runInput_get?_kept (env : Env) (d : OutDir) (i : Input) (stem : String) (src : Bytes)
    (hstem : i.stem = some stem) (hsrc : i.src = some src) (hout : i.outOk = true) (hrd : i.unreadable = false)
    (hnp : ∀ s, (processFile env i.budget src).outcome ≠ .panic s) :
    (runInput env true d i).2.get? (outName stem) = some (processFile env i.budget src).file := by
  unfold runInput
  simp only [hstem, hsrc, hout, hrd, Bool.not_true, if_false, Bool.false_eq_true]
  cases ho : (processFile env i.budget src).outcome with
  | success => simp [OutDir.get?_put_self]
  | failure => simp [OutDir.get?_put_self]
  | panic site => exact absurd ho (hnp site)

/-- the output file cannot be created: whatever is there stays -/
theorem runInput_snd_noOut (env : Env) (keep : Bool) (d : OutDir) (i : Input) (src : Bytes)
    (hsrc : i.src = some src) (hout : i.outOk = false) : (runInput env keep d i).2 = d := by
  unfold runInput
  cases i.stem with
  | none => rfl
  | some stem => simp [hsrc, hout]

/-! ## the loop -/

/-- the directory after the inputs have been processed one after the other -/
def dirAfter (env : Env) (keep : Bool) (d : OutDir) (inputs : List Input) : OutDir :=
  inputs.foldl (fun d i => (runInput env keep d i).2) d

@[simp] theorem dirAfter_nil (env : Env) (keep : Bool) (d : OutDir) : dirAfter env keep d [] = d := rfl
@[simp] theorem dirAfter_cons (env : Env) (keep : Bool) (d : OutDir) (i : Input) (rest : List Input) :
    dirAfter env keep d (i :: rest) = dirAfter env keep (runInput env keep d i).2 rest := rfl
theorem dirAfter_append (env : Env) (keep : Bool) (d : OutDir) (a b : List Input) :
    dirAfter env keep d (a ++ b) = dirAfter env keep (dirAfter env keep d a) b := by
  simp [dirAfter, List.foldl_append]

/-- the names of the output files the inputs are compiled to -/
def outNames (inputs : List Input) : List String := (inputs.filterMap (·.stem)).map outName

theorem mem_outNames {inputs : List Input} {i : Input} {stem : String} (hi : i ∈ inputs) (hs : i.stem = some stem) :
    outName stem ∈ outNames inputs :=
  List.mem_map.2 ⟨stem, List.mem_filterMap.2 ⟨i, hi, hs⟩, rfl⟩

theorem outNames_append (a b : List Input) : outNames (a ++ b) = outNames a ++ outNames b := by
  simp [outNames]

theorem outNames_cons_some (i : Input) (rest : List Input) (stem : String) (h : i.stem = some stem) :
    outNames (i :: rest) = outName stem :: outNames rest := by
  simp [outNames, h]

/-- entries whose name no input produces are never touched -/
theorem dirAfter_get?_other (env : Env) (keep : Bool) (k : String) : ∀ (inputs : List Input) (d : OutDir),
    k ∉ outNames inputs → (dirAfter env keep d inputs).get? k = d.get? k := by
  intro inputs
  induction inputs with
  | nil => intro d _; rfl
  | cons i rest ih =>
    intro d hk
    rw [dirAfter_cons, ih]
    · exact runInput_get?_other env keep d i k (fun stem hs hc => hk (hc ▸ mem_outNames (List.mem_cons_self) hs))
    · intro hc
      apply hk
      unfold outNames at hc ⊢
      obtain ⟨s, hs, rfl⟩ := List.mem_map.1 hc
      obtain ⟨j, hj, hjs⟩ := List.mem_filterMap.1 hs
      exact List.mem_map.2 ⟨s, List.mem_filterMap.2 ⟨j, List.mem_cons_of_mem _ hj, hjs⟩, rfl⟩

/-- with pairwise distinct output names, the entry of an input is the one its own run leaves, and no
earlier input has touched it -/
theorem dirAfter_get?_at (env : Env) (keep : Bool) (d0 : OutDir) (pre post : List Input) (i : Input) (stem : String)
    (hstem : i.stem = some stem) (hd : (outNames (pre ++ i :: post)).Pairwise (· ≠ ·)) :
    (dirAfter env keep d0 (pre ++ i :: post)).get? (outName stem) =
        (runInput env keep (dirAfter env keep d0 pre) i).2.get? (outName stem) ∧
      (dirAfter env keep d0 pre).get? (outName stem) = d0.get? (outName stem) := by
  rw [outNames_append, outNames_cons_some i post stem hstem, List.pairwise_append] at hd
  obtain ⟨_, h2, h3⟩ := hd
  have hpre : outName stem ∉ outNames pre := fun hc => h3 _ hc _ List.mem_cons_self rfl
  have hpost : outName stem ∉ outNames post := fun hc => (List.pairwise_cons.1 h2).1 _ hc rfl
  refine ⟨?_, dirAfter_get?_other env keep _ pre d0 hpre⟩
  rw [dirAfter_append, dirAfter_cons, dirAfter_get?_other env keep _ post _ hpost]

/-- the loop when no input panics -/
theorem runBatchFrom_eq (env : Env) (keep : Bool) : ∀ (inputs : List Input) (d : OutDir) (acc : List Report)
    (failed : Bool), (∀ i ∈ inputs, ∀ s, i.report env ≠ .panic s) →
    runBatchFrom env keep d inputs acc failed =
      ⟨acc.reverse ++ inputs.map (·.report env), dirAfter env keep d inputs,
        if failed || inputs.any (fun i => (i.report env).failed) then 1 else 0⟩ := by
  intro inputs
  induction inputs with
  | nil => intro d acc failed _; simp [runBatchFrom]
  | cons i rest ih =>
    intro d acc failed h
    have hi := h i List.mem_cons_self
    rw [← runInput_fst env keep d i] at hi
    unfold runBatchFrom
    split
    · next s d' heq => rw [heq] at hi; exact absurd rfl (hi s)
    · next r d' _ heq =>
      rw [ih _ _ _ (fun j hj => h j (List.mem_cons_of_mem _ hj))]
      have h1 : r = i.report env := by rw [← runInput_fst env keep d i, heq]
      have h2 : d' = (runInput env keep d i).2 := by rw [heq]
      subst h1 h2
      simp [Bool.or_assoc]

/-- exit status 0 means: nothing failed (panics included) -/
theorem runBatchFrom_exit_zero (env : Env) (keep : Bool) : ∀ (inputs : List Input) (d : OutDir) (acc : List Report)
    (failed : Bool), (runBatchFrom env keep d inputs acc failed).exit = 0 ↔
      (failed = false ∧ ∀ i ∈ inputs, i.report env = .ok) := by
  intro inputs
  induction inputs with
  | nil => intro d acc failed; cases failed <;> simp [runBatchFrom]
  | cons i rest ih =>
    intro d acc failed
    unfold runBatchFrom
    split
    · next s d' heq =>
      have : i.report env = .panic s := by rw [← runInput_fst env keep d i, heq]
      simp [this]
    · next r d' _ heq =>
      have h1 : r = i.report env := by rw [← runInput_fst env keep d i, heq]
      subst h1
      rw [ih]
      cases hr : i.report env <;> cases failed <;> simp [Report.failed, hr]

theorem failed_iff (r : Report) : r.failed = true ↔ r ≠ .ok := by
  cases r <;> simp [Report.failed]

/-! ## `outName` -/

theorem dropWhile_all_ne_dot (l : List Char) (h : ∀ c ∈ l, c ≠ '.') : l.dropWhile (· != '.') = [] := by
  induction l with
  | nil => rfl
  | cons c l ih =>
    have := h c List.mem_cons_self
    simp only [List.dropWhile_cons]
    rw [if_pos (by simpa using this)]
    exact ih (fun c hc => h c (List.mem_cons_of_mem _ hc))

theorem dropWhile_ne_dot (l r : List Char) (h : ∀ c ∈ l, c ≠ '.') :
    (l ++ '.' :: r).dropWhile (· != '.') = '.' :: r := by
  induction l with
  | nil => simp
  | cons c l ih =>
    have hc : c ≠ '.' := h c List.mem_cons_self
    simp only [List.cons_append, List.dropWhile_cons]
    rw [if_pos (by simpa using hc)]
    exact ih (fun c hc => h c (List.mem_cons_of_mem _ hc))

/-- no dot: the stem is the name -/
theorem outName_noDot (stem : String) (h : '.' ∉ stem.toList) : outName stem = stem := by
  unfold outName
  have : (stem.toList.reverse.dropWhile (· != '.')) = [] := by
    exact dropWhile_all_ne_dot _ (fun c hc he => h (he ▸ List.mem_reverse.1 hc))
  simp only [this]

/-- the last dot that is not the first character, and what follows it, are dropped -/
theorem outName_split (stem : String) (p e : List Char) (hs : stem.toList = p ++ '.' :: e) (he : '.' ∉ e)
    (hp : p ≠ []) : outName stem = String.ofList p := by
  unfold outName
  have : (stem.toList.reverse.dropWhile (· != '.')) = '.' :: p.reverse := by
    rw [hs, List.reverse_append, List.reverse_cons, List.append_assoc]
    exact dropWhile_ne_dot _ _ (fun c hc hcd => he (hcd ▸ List.mem_reverse.1 hc))
  simp only [this]
  simp [hp]

/-- a leading dot is not an extension -/
theorem outName_leadingDot (stem : String) (e : List Char) (hs : stem.toList = '.' :: e) (he : '.' ∉ e) :
    outName stem = stem := by
  unfold outName
  have : (stem.toList.reverse.dropWhile (· != '.')) = ['.'] := by
    rw [hs, List.reverse_cons]
    exact dropWhile_ne_dot _ _ (fun c hc hcd => he (hcd ▸ List.mem_reverse.1 hc))
  simp only [this]
  simp

end Resynth
