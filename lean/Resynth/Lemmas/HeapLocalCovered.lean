import Resynth.Lemmas.ExecCovered
import Resynth.Lemmas.HeapLocalStd
import Resynth.Lemmas.HeapLocalProto
import Resynth.Lemmas.HeapLocalIp
import Resynth.Lemmas.HeapLocalTcp
import Resynth.Lemmas.HeapLocalTunnel
/-!
# C14 (heap): all 85 covered library functions are local

GENERATED (tools script reproduced at the end of this file).
-/
namespace Resynth.C14Heap
open Resynth.C08

/-- every covered function is local in the sense of `LocalAt`: as a method (`m = true`) when it is
registered under a class, as a free function otherwise -/
theorem covered_local : ∀ e ∈ covered, LocalAt e.1.isSome e.2.path := by
  unfold covered
  simp only [List.forall_mem_cons, List.not_mem_nil, false_imp_iff, implies_true, and_true]
  exact ⟨
    local_std_be16,
    local_std_be32,
    local_std_be64,
    local_std_le16,
    local_std_le32,
    local_std_le64,
    local_std_u8,
    local_std_len_be64,
    local_std_len_be32,
    local_std_len_be16,
    local_std_len_u8,
    local_text_concat,
    local_text_crlflines,
    local_text_len,
    local_io_BufIO_read,
    local_io_BufIO_read_all,
    local_io_file,
    local_io_bufio,
    local_ipv4_IpFrag_fragment,
    local_ipv4_IpFrag_tail,
    local_ipv4_IpFrag_datagram,
    local_ipv4_tcp_TcpFlow_open,
    local_ipv4_tcp_TcpFlow_client_message,
    local_ipv4_tcp_TcpFlow_server_message,
    local_ipv4_tcp_TcpFlow_client_segment,
    local_ipv4_tcp_TcpFlow_server_segment,
    local_ipv4_tcp_TcpFlow_client_raw_segment,
    local_ipv4_tcp_TcpFlow_server_raw_segment,
    local_ipv4_tcp_TcpFlow_client_hdr,
    local_ipv4_tcp_TcpFlow_server_hdr,
    local_ipv4_tcp_TcpFlow_client_ack,
    local_ipv4_tcp_TcpFlow_server_ack,
    local_ipv4_tcp_TcpFlow_client_hole,
    local_ipv4_tcp_TcpFlow_server_hole,
    local_ipv4_tcp_TcpFlow_client_close,
    local_ipv4_tcp_TcpFlow_server_close,
    local_ipv4_tcp_TcpFlow_client_reset,
    local_ipv4_tcp_TcpFlow_server_reset,
    local_ipv4_tcp_flow,
    local_ipv4_udp_UdpFlow_client_dgram,
    local_ipv4_udp_UdpFlow_server_dgram,
    local_ipv4_udp_UdpFlow_client_raw_dgram,
    local_ipv4_udp_UdpFlow_server_raw_dgram,
    local_ipv4_udp_flow,
    local_ipv4_udp_broadcast,
    local_ipv4_udp_unicast,
    local_ipv4_udp_hdr,
    local_ipv4_icmp_Icmp_echo,
    local_ipv4_icmp_Icmp_echo_reply,
    local_ipv4_icmp_flow,
    local_ipv4_datagram,
    local_ipv4_frag,
    local_dns_flags,
    local_dns_hdr,
    local_dns_name,
    local_dns_pointer,
    local_dns_question,
    local_dns_answer,
    local_dns_host,
    local_netbios_ns_flags,
    local_netbios_name_encode,
    local_dhcp_hdr,
    local_dhcp_option,
    local_tls_message,
    local_tls_extension,
    local_tls_client_hello,
    local_tls_server_hello,
    local_tls_ciphers,
    local_tls_certificates,
    local_tls_sni,
    local_vxlan_Vxlan_dgram,
    local_vxlan_Vxlan_encap,
    local_vxlan_session,
    local_gre_Gre_encap,
    local_gre_session,
    local_eth_frame,
    local_eth_from_ip,
    local_erspan1_Erspan1_encap,
    local_erspan1_session,
    local_erspan2_Erspan2_encap,
    local_erspan2_session,
    local_time_jump_seconds,
    local_time_jump_millis,
    local_time_jump_micros,
    local_time_jump_nanos⟩

end Resynth.C14Heap

/-
def pat(n):
    # rcases pattern giving n+2 cases: lengths 0..n, and > n
    s = "args"
    for k in range(n+1, 0, -1):
        s = f"_ | ⟨a{k}, {s}⟩"
    return s
if __name__ == "__main__":
    import sys
    print(pat(int(sys.argv[1])))

import re, sys
sys.path.insert(0, '/tmp/pa_H/scratch')
from gen_pat import pat
root = '/tmp/pa_H/lean/Resynth/'
src = open(root + 'Model/Stdlib.lean').read()
arms = {}
for m in re.finditer(r'^\s*\|\s*"([^"]+)",\s*\[([^\]]*)\]\s*=>', src, re.M):
    a = m.group(2).strip()
    arms[m.group(1)] = 0 if a == '' else len(a.split(','))
# covered order and classes
cov = open(root + 'Lemmas/ExecCovered.lean').read()
entries = re.findall(r'^\s*\((none|some "[^"]+"), (sig_\w+)\)', cov, re.M)
assert len(entries) == 85, len(entries)
fam_of = {}
sigpath = {}
for fam in ['Std', 'Proto', 'Ip', 'Tcp', 'Tunnel']:
    t = open(root + f'Lemmas/Exec{fam}.lean').read()
    for m in re.finditer(r'def (sig_\w+) : FuncDef := ⟨"([^"]+)"', t):
        fam_of[m.group(1)] = fam
        sigpath[m.group(1)] = m.group(2)
files = {f: [] for f in ['Std', 'Proto', 'Ip', 'Tcp', 'Tunnel']}
names = []
for cls, sig in entries:
    path = sigpath[sig]
    n = arms[path]
    meth = cls != 'none'
    nm = 'local_' + sig[4:]
    names.append((nm, meth, sig))
    body = f'theorem {nm} : LocalAt {"true" if meth else "false"} "{path}" := by\n'
    body += '  intro fs this av h h2 hthis\n  obtain ⟨args, extra⟩ := av\n'
    body += f'  rcases args with {pat(n)}\n'
    if meth:
        body += '  · local_fn_core\n' * n
        body += '  · local_method_core\n  · local_fn_core\n'
    else:
        body += '  all_goals local_fn_core\n'
    files[fam_of[sig]].append(body)
for fam, bodies in files.items():
    with open(root + f'Lemmas/HeapLocal{fam}.lean', 'w') as f:
        f.write(f'''import Resynth.Lemmas.HeapLocalBasics
/ -!
# C14 (heap): every arm of `exec` is local to the object it is called on ({fam})

GENERATED by the script quoted at the end of `Lemmas/HeapLocalCovered.lean`: one lemma per function of
`Lemmas/Exec{fam}.lean`, for ALL argument vectors (the arity split has one case per wrong length,
which ends in the `no model for` panic, and one for the right length).
- /
namespace Resynth.C14Heap

''')
        f.write('\n'.join(bodies))
        f.write('\nend Resynth.C14Heap\n')
with open(root + 'Lemmas/HeapLocalCovered.lean', 'w') as f:
    f.write('import Resynth.Lemmas.ExecCovered\n')
    for fam in files:
        f.write(f'import Resynth.Lemmas.HeapLocal{fam}\n')
    f.write('''/ -!
# C14 (heap): all 85 covered library functions are local

GENERATED (tools script reproduced at the end of this file).
- /
namespace Resynth.C14Heap
open Resynth.C08

/ -- every covered function is local in the sense of `LocalAt`: as a method (`m = true`) when it is
registered under a class, as a free function otherwise - /
theorem covered_local : ∀ e ∈ covered, LocalAt e.1.isSome e.2.path := by
  unfold covered
  simp only [List.forall_mem_cons, List.not_mem_nil, false_imp_iff, implies_true, and_true]
  exact ⟨
''')
    f.write(',\n'.join('    ' + nm for nm, _, _ in names))
    f.write('⟩\n\nend Resynth.C14Heap\n')
    f.write('\n/ -\n' + open('/tmp/pa_H/scratch/gen_pat.py').read() + '\n' + open(__file__).read().replace('/ -', '/ -').replace('- /', '- /') + '\n- /\n')

-/
