import Resynth.Spec.Calling
import Resynth.Model.Bind
/-!
# The three-state machine `splitArgs`, phase by phase
-/
namespace Resynth.Bind
open Resynth.Spec

/-- the spec's view of an argument list -/
def toCall (args : List ArgSpec) : Call := args.map fun a => (a.name, a.val)

/-- run the machine from state `p`, forgetting the error message -/
def run (f : FuncDef) (p : Prep) (args : List ArgSpec) : Option Prep :=
  (args.foldlM (splitStep f) p).toOption

theorem toOption_bind {ε α β} (x : Except ε α) (g : α → Except ε β) :
    (x >>= g).toOption = x.toOption.bind fun a => (g a).toOption := by
  cases x <;> rfl

theorem run_nil (f : FuncDef) (p : Prep) : run f p [] = some p := rfl

theorem run_cons (f : FuncDef) (p : Prep) (a : ArgSpec) (as : List ArgSpec) :
    run f p (a :: as) = (splitStep f p a).toOption.bind fun q => run f q as := by
  simp only [run, List.foldlM_cons, toOption_bind]

theorem run_append (f : FuncDef) (p : Prep) (as bs : List ArgSpec) :
    run f p (as ++ bs) = (run f p as).bind fun q => run f q bs := by
  simp only [run, List.foldlM_append, toOption_bind]

theorem minArgs_eq (f : FuncDef) : f.minArgs = mandatoryCount f := by
  unfold FuncDef.minArgs mandatoryCount
  congr 2
  funext a
  unfold isMandatory
  cases a.decl <;> rfl

theorem isCollect_eq (f : FuncDef) : f.isCollect = hasTail f := rfl

theorem mandatoryCount_le (f : FuncDef) : mandatoryCount f ≤ f.args.length :=
  List.length_filter_le _ _

theorem fillable_le (f : FuncDef) : fillable f ≤ f.args.length := by
  unfold fillable; split
  · exact mandatoryCount_le f
  · exact Nat.le_refl _

/-! ## phase 1: unnamed arguments below the fill limit are pushed -/

theorem run_lead (f : FuncDef) (as : List ArgSpec) :
    ∀ (p : Prep), p.phase = .anon → (∀ a ∈ as, a.name = none) →
      p.positional.length + as.length ≤ fillable f →
      run f p as = some { p with positional := p.positional ++ as.map (·.val) } := by
  induction as with
  | nil => intro p _ _ _; simp [run_nil]
  | cons a as ih =>
    intro p hp hall hlen
    have ha : a.name = none := hall a (by simp)
    simp only [List.length_cons] at hlen
    have hlt : p.positional.length < fillable f := by omega
    have h1 : splitStep f p a = .ok { p with positional := p.positional ++ [a.val] } := by
      have hle := fillable_le f
      have hm := mandatoryCount_le f
      unfold fillable at hlt
      simp only [splitStep, hp, ha, isCollect_eq, minArgs_eq]
      cases hc : hasTail f <;> simp [hc] at hlt ⊢
      · omega
      · rw [if_neg (by omega), if_neg (by omega)]
    rw [run_cons, h1]
    simp only [Except.toOption, Option.bind_some]
    rw [ih { p with positional := p.positional ++ [a.val] } hp (fun b hb => hall b (by simp [hb]))
      (by simp only [List.length_cons, List.length_append, List.length_nil] at hlen ⊢; omega)]
    simp

/-! ## phase 3: once collecting, always collecting -/

theorem run_collectOnly (f : FuncDef) (as : List ArgSpec) :
    ∀ (p : Prep), p.phase = .collectOnly →
      run f p as =
        if as = [] then some p
        else if hasTail f && as.all (fun a => a.name.isNone) then
          some { p with extra := p.extra ++ as.map (·.val) }
        else none := by
  induction as with
  | nil => intro p _; simp [run_nil]
  | cons a as ih =>
    intro p hp
    rw [run_cons]
    cases hc : hasTail f
    · simp [splitStep, hp, isCollect_eq, hc, Except.toOption]
    · cases hn : a.name with
      | some n => simp [splitStep, hp, isCollect_eq, hc, hn, Except.toOption]
      | none =>
        simp only [splitStep, hp, isCollect_eq, hc, hn, Except.toOption]
        simp only [Bool.not_true, Bool.false_eq_true, ↓reduceIte, Option.bind_some]
        rw [ih _ rfl]
        by_cases has : as = []
        · subst has; simp [hn]
        · simp [has, hn, hc]

/-- an unnamed argument in a state where nothing can be filled any more starts the tail -/
theorem step_startTail (f : FuncDef) (p : Prep) (a : ArgSpec) (ha : a.name = none)
    (hp : p.phase ≠ .anon ∨ fillable f ≤ p.positional.length) :
    (splitStep f p a).toOption =
      if hasTail f then some { p with extra := p.extra ++ [a.val], phase := .collectOnly } else none := by
  cases hph : p.phase with
  | anon =>
    have hlen : fillable f ≤ p.positional.length := by
      rcases hp with h | h
      · exact absurd hph h
      · exact h
    unfold fillable at hlen
    cases hc : hasTail f
    · simp [hc] at hlen
      simp [splitStep, hph, ha, isCollect_eq, hc, Except.toOption, hlen]
    · simp [hc] at hlen
      simp [splitStep, hph, ha, isCollect_eq, minArgs_eq, hc, Except.toOption, hlen]
  | optional =>
    cases hc : hasTail f <;> simp [splitStep, hph, ha, isCollect_eq, hc, Except.toOption]
  | collectOnly =>
    cases hc : hasTail f <;> simp [splitStep, hph, ha, isCollect_eq, hc, Except.toOption]

/-- phase 3 from any state in which the next unnamed argument cannot fill a parameter -/
theorem run_tail (f : FuncDef) (p : Prep) (as : List ArgSpec)
    (hhead : ∀ a ∈ as.head?, a.name = none)
    (hp : p.phase ≠ .anon ∨ fillable f ≤ p.positional.length) :
    run f p as =
      if as = [] then some p
      else if hasTail f && as.all (fun a => a.name.isNone) then
        some { p with extra := p.extra ++ as.map (·.val), phase := .collectOnly }
      else none := by
  cases as with
  | nil => simp [run_nil]
  | cons a as =>
    have ha : a.name = none := hhead a (by simp)
    rw [run_cons, step_startTail f p a ha hp]
    cases hc : hasTail f
    · simp
    · simp only [↓reduceIte, Option.bind_some]
      rw [run_collectOnly f as _ rfl]
      by_cases has : as = []
      · subst has; simp [ha]
      · simp [has, ha, hc]

/-! ## phase 2: named arguments -/

/-- the named arguments `ns` are acceptable after `n` filled parameters and the names `keys` -/
def namedOk (f : FuncDef) (n : Nat) : List String → List (String × Val) → Bool
  | _, [] => true
  | keys, (nm, _) :: r =>
    (f.argPos nm).any (fun idx => decide (n ≤ idx))
    && !keys.contains nm && namedOk f n (keys ++ [nm]) r

def namedPart (as : List ArgSpec) : List (String × Val) :=
  as.filterMap fun a => a.name.map (·, a.val)

theorem any_fst_eq (l : List (String × Val)) (nm : String) :
    (l.any fun e => e.1 == nm) = (l.map (·.1)).contains nm := by
  induction l with
  | nil => rfl
  | cons e l ih =>
    simp only [List.any_cons, ih, List.map_cons, List.contains_cons]
    rw [BEq.comm]

theorem run_named (f : FuncDef) (as : List ArgSpec) :
    ∀ (p : Prep), p.phase ≠ .collectOnly → (∀ a ∈ as, a.name ≠ none) →
      run f p as =
        if namedOk f p.positional.length (p.named.map (·.1)) (namedPart as) then
          some { p with named := p.named ++ namedPart as,
                        phase := if as = [] then p.phase else .optional }
        else none := by
  induction as with
  | nil => intro p _ _; simp [run_nil, namedPart, namedOk]
  | cons a as ih =>
    intro p hp hall
    obtain ⟨nm, hn⟩ : ∃ nm, a.name = some nm := by
      cases h : a.name with
      | none => exact absurd h (hall a (by simp))
      | some nm => exact ⟨nm, rfl⟩
    have hstep : (splitStep f p a).toOption =
        if (f.argPos nm).any (fun idx => decide (p.positional.length ≤ idx))
            && !(p.named.map (·.1)).contains nm then
          some { p with named := p.named ++ [(nm, a.val)], phase := .optional }
        else none := by
      rw [← any_fst_eq]
      cases hph : p.phase with
      | collectOnly => exact absurd hph hp
      | anon =>
        cases hpos : f.argPos nm with
        | none => simp [splitStep, hph, hn, hpos, Except.toOption]
        | some idx =>
          by_cases h1 : idx < p.positional.length
          · simp [splitStep, hph, hn, hpos, Except.toOption, h1]; omega
          · by_cases h2 : (p.named.any fun e => e.1 == nm) = true
            · simp [splitStep, hph, hn, hpos, Except.toOption, h1, h2]
            · have h1' : p.positional.length ≤ idx := by omega
              simp [splitStep, hph, hn, hpos, Except.toOption, h1, h2, h1']
      | optional =>
        cases hpos : f.argPos nm with
        | none => simp [splitStep, hph, hn, hpos, Except.toOption]
        | some idx =>
          by_cases h1 : idx < p.positional.length
          · simp [splitStep, hph, hn, hpos, Except.toOption, h1]; omega
          · by_cases h2 : (p.named.any fun e => e.1 == nm) = true
            · simp [splitStep, hph, hn, hpos, Except.toOption, h1, h2]
            · have h1' : p.positional.length ≤ idx := by omega
              simp [splitStep, hph, hn, hpos, Except.toOption, h1, h2, h1']
    rw [run_cons, hstep]
    have hnp : namedPart (a :: as) = (nm, a.val) :: namedPart as := by
      simp [namedPart, hn]
    rw [hnp]
    simp only [namedOk]
    split
    · rename_i hc
      simp only [Option.bind_some]
      rw [ih _ (by simp) (fun b hb => hall b (by simp [hb]))]
      simp only [hc, Bool.true_and]
      simp [List.append_assoc]
    · rename_i hc
      simp only [Bool.not_eq_true] at hc
      simp only [hc, Bool.false_and]
      simp

end Resynth.Bind
