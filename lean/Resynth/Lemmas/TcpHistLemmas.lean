import Resynth.Lemmas.TcpFlowLemmas
/-!
# Histories of calls: counters and emitted segments (by induction over the call list)
-/
namespace Resynth
open TcpStream TcpFlow

theorem TcpOp.run_cons (f : TcpFlow) (op : TcpOp) (ops : List TcpOp) :
    TcpOp.run f (op :: ops)
      = ((TcpOp.run (TcpOp.step f op).1 ops).1, (TcpOp.step f op).2 ++ (TcpOp.run (TcpOp.step f op).1 ops).2) := rfl

/-- after a call, each counter has advanced by what the call consumes on it (nothing if overridden) -/
theorem step_counter (f : TcpFlow) (hf : FlowWf f) (op : TcpOp) (hop : opWf op = true) :
    (TcpOp.step f op).1.clSeq = (f.clSeq + opConsumes .c2s op) % 4294967296
    ∧ (TcpOp.step f op).1.svSeq = (f.svSeq + opConsumes .s2c op) % 4294967296 := by
  obtain ⟨_, h1, h2⟩ := step_spec f hf op hop
  obtain ⟨hc, hs⟩ := hf
  rw [h1, h2]
  simp only [opConsumes, ovFor]
  constructor
  · split <;> simp_all <;> omega
  · split <;> simp_all <;> omega

theorem step_wf (f : TcpFlow) (hf : FlowWf f) (op : TcpOp) (hop : opWf op = true) :
    FlowWf (TcpOp.step f op).1 := by
  obtain ⟨h1, h2⟩ := step_counter f hf op hop
  unfold FlowWf
  omega

theorem run_counters (f : TcpFlow) (hf : FlowWf f) (h : List TcpOp) (hh : histWf h = true) :
    (TcpOp.run f h).1.clSeq = (f.clSeq + consumedOps .c2s h) % 4294967296
    ∧ (TcpOp.run f h).1.svSeq = (f.svSeq + consumedOps .s2c h) % 4294967296 := by
  induction h generalizing f with
  | nil =>
    obtain ⟨hc, hs⟩ := hf
    simp only [TcpOp.run, consumedOps_nil]
    omega
  | cons op ops ih =>
    simp only [histWf, List.all_cons, Bool.and_eq_true] at hh
    obtain ⟨h1, h2⟩ := step_counter f hf op hh.1
    obtain ⟨i1, i2⟩ := ih (TcpOp.step f op).1 (step_wf f hf op hh.1) (by simpa [histWf] using hh.2)
    rw [TcpOp.run_cons]
    simp only [i1, i2, h1, h2, consumedOps_cons]
    omega

theorem run_wf (f : TcpFlow) (hf : FlowWf f) (h : List TcpOp) (hh : histWf h = true) :
    FlowWf (TcpOp.run f h).1 := by
  obtain ⟨h1, h2⟩ := run_counters f hf h hh
  unfold FlowWf
  omega

theorem run_segments_aux (c0 s0 : Nat) (rest pre : List TcpOp) (f : TcpFlow)
    (hh : histWf rest = true)
    (hc : f.clSeq = counterAfter c0 s0 pre .c2s) (hs : f.svSeq = counterAfter c0 s0 pre .s2c) :
    (TcpOp.run f rest).2.map Out.toSegment = expectedOpsAux c0 s0 pre rest := by
  induction rest generalizing pre f with
  | nil => rfl
  | cons op ops ih =>
    simp only [histWf, List.all_cons, Bool.and_eq_true] at hh
    have hf : FlowWf f := by
      unfold FlowWf; rw [hc, hs]; unfold counterAfter; omega
    obtain ⟨hseg, _, _⟩ := step_spec f hf op hh.1
    obtain ⟨h1, h2⟩ := step_counter f hf op hh.1
    rw [TcpOp.run_cons]
    simp only [List.map_append, hseg, expectedOpsAux, hc, hs]
    congr 1
    apply ih (pre ++ [op]) _ (by simpa [histWf] using hh.2)
    · rw [h1, hc]; simp only [counterAfter, consumedOps_snoc]; omega
    · rw [h2, hs]; simp only [counterAfter, consumedOps_snoc]; omega

/-- every history, overrides included: the emitted segments are the expected ones -/
theorem run_segments (f : TcpFlow) (hf : FlowWf f) (h : List TcpOp) (hh : histWf h = true) :
    (TcpOp.run f h).2.map Out.toSegment = expectedOps f.clSeq f.svSeq h := by
  obtain ⟨hc, hs⟩ := hf
  apply run_segments_aux f.clSeq f.svSeq h [] f hh
  · simp only [counterAfter, isn, consumedOps_nil]; omega
  · simp only [counterAfter, isn, consumedOps_nil]; omega

theorem run_flags (f : TcpFlow) (h : List TcpOp) :
    ∀ o ∈ (TcpOp.run f h).2, o.flags = o.toSegment.flagByte := by
  induction h generalizing f with
  | nil => simp [TcpOp.run]
  | cons op ops ih =>
    rw [TcpOp.run_cons]
    intro o ho
    rcases List.mem_append.mp ho with h1 | h1
    · exact step_flags f op o h1
    · exact ih _ o h1

/-- pointwise reading of "the emitted segments are the expected ones" -/
theorem run_segment_pointwise (f : TcpFlow) (h : List TcpOp) (o : Out) (ho : o ∈ (TcpOp.run f h).2)
    (hseg : (TcpOp.run f h).2.map Out.toSegment = expectedEvs f.clSeq f.svSeq (h.flatMap TcpOp.events)) :
    ∃ pre e post, h.flatMap TcpOp.events = pre ++ e :: post
      ∧ e.segment f.clSeq f.svSeq pre = some o.toSegment
      ∧ o.seq = (isn f.clSeq f.svSeq o.dir + consumed o.dir pre) % 4294967296
      ∧ (o.flags.testBit 4 = true →
          o.ack = (isn f.clSeq f.svSeq o.dir.peer + consumed o.dir.peer pre) % 4294967296) := by
  have hm : o.toSegment ∈ expectedEvs f.clSeq f.svSeq (h.flatMap TcpOp.events) := by
    rw [← hseg]; exact List.mem_map_of_mem ho
  obtain ⟨pre, e, post, h1, h2⟩ := expectedEvs_mem _ _ _ _ hm
  refine ⟨pre, e, post, h1, h2, ?_, ?_⟩
  · cases e <;> simp only [Ev.segment, Option.some.injEq, reduceCtorEq] at h2 <;>
      (have hd := congrArg Segment.dir h2; have hq := congrArg Segment.seq h2
       simp only [Out.toSegment] at hd hq; rw [← hq, ← hd]; rfl)
  · intro hb
    cases e <;> simp only [Ev.segment, Option.some.injEq, reduceCtorEq] at h2 <;>
      (have hd := congrArg Segment.dir h2; have ha := congrArg Segment.ack h2
       simp only [Out.toSegment, hb, if_true] at hd ha)
    · rename_i d k
      cases hk : k.hasAck <;> simp only [hk, if_true, Option.some.injEq, Bool.false_eq_true, if_false, reduceCtorEq] at ha
      rw [← ha, ← hd]; rfl
    · simp only [Option.some.injEq] at ha; rw [← ha, ← hd]; rfl
    · simp only [Option.some.injEq] at ha; rw [← ha, ← hd]; rfl

theorem noOverrides_histWf (h : List TcpOp) (hno : noOverrides h = true) : histWf h = true := by
  simp only [noOverrides, histWf, List.all_eq_true] at *
  intro op hop
  have := hno op hop
  simp only [noOverride, Bool.and_eq_true, Option.isNone_iff_eq_none] at this
  simp [opWf, this.1, this.2]

end Resynth
