import Resynth.Lemmas.Frag
/-!
# Lemmas for C07: the RFC 791 reassembler (`Spec.reassemble`)
-/
namespace Resynth
open Spec

theorem agree_eq_some_iff {α : Type} [DecidableEq α] (l : List α) (x : α) :
    agree l = some x ↔ l ≠ [] ∧ ∀ y ∈ l, y = x := by
  cases l with
  | nil => simp [agree]
  | cons a l =>
    simp only [agree, List.all_eq_true, decide_eq_true_eq]
    constructor
    · intro h
      split at h
      · rename_i hall
        cases h
        exact ⟨by simp, by intro y hy; cases hy with | head => rfl | tail _ hy => exact hall y hy⟩
      · cases h
    · rintro ⟨_, h⟩
      have ha : a = x := h a (by simp)
      subst ha
      rw [if_pos]
      intro y hy
      exact h y (by simp [hy])

theorem agree_perm {α : Type} [DecidableEq α] {l₁ l₂ : List α} (h : l₁.Perm l₂) :
    agree l₁ = agree l₂ := by
  apply Option.ext
  intro x
  rw [agree_eq_some_iff, agree_eq_some_iff]
  have hn : l₁ ≠ [] ↔ l₂ ≠ [] := by
    constructor
    · intro h1 h2; subst h2; exact h1 h.eq_nil
    · intro h1 h2; subst h2; exact h1 h.nil_eq.symm
  constructor
  · rintro ⟨a, b⟩; exact ⟨hn.1 a, fun y hy => b y (h.mem_iff.2 hy)⟩
  · rintro ⟨a, b⟩; exact ⟨hn.2 a, fun y hy => b y (h.mem_iff.1 hy)⟩

/-- `Spec.reassemble` is a function of the multiset of fragments. -/
theorem reassemble_perm' {fs₁ fs₂ : List Frag} (h : fs₁.Perm fs₂) :
    reassemble fs₁ = reassemble fs₂ := by
  have hk : agree (fs₁.map Frag.key) = agree (fs₂.map Frag.key) := agree_perm (h.map _)
  have ht : totalLen fs₁ = totalLen fs₂ := agree_perm ((h.filter _).map _)
  have hb : bufferAt fs₁ = bufferAt fs₂ := by
    funext i; exact agree_perm (h.filterMap _)
  simp only [reassemble, hk, ht, hb]

theorem mapM_eq_some_map {α β : Type} (l : List α) (g : α → Option β) (g' : α → β)
    (h : ∀ x ∈ l, g x = some (g' x)) : l.mapM g = some (l.map g') := by
  induction l with
  | nil => simp
  | cons a l ih =>
    simp [List.mapM_cons, h a (by simp), ih (fun x hx => h x (by simp [hx]))]

theorem mapM_range_eq_some (l : Bytes) (g : Nat → Option UInt8)
    (h : ∀ i, (hi : i < l.length) → g i = some l[i]) : (List.range l.length).mapM g = some l := by
  rw [mapM_eq_some_map _ g (fun i => l.getD i 0)]
  · congr 1
    apply List.ext_getElem
    · simp
    · intro i h1 h2
      simp [List.getD_eq_getElem?_getD, h2]
  · intro i hi
    have hi' : i < l.length := by simpa using hi
    simp [h i hi', List.getD_eq_getElem?_getD, hi']

/-- the fragment record that `fragment(off, len)` must decode to -/
def fragRec (f : IpFrag) (off len : Nat) : Frag :=
  { src := f.hdr.saddr, dst := f.hdr.daddr, proto := f.hdr.protocol, id := f.hdr.id
    ttl := f.hdr.ttl, evil := f.hdr.fragOff.testBit 15, df := f.hdr.fragOff.testBit 14
    mf := decide (min (8 * (off + len)) f.payload.length < f.payload.length)
    offset := off
    data := fragSlice f.payload off len }

theorem decodeFrag_fragment (f : IpFrag) (off len : Nat) (raw : Bool) (hr : f.hdr.InRange)
    (hoff : off < 8192) (hfit : 20 + f.payload.length ≤ 65535) :
    decodeFrag (stripEth raw (f.fragment off len raw)) = some (fragRec f off len) := by
  rw [fragment_eq, decodeFrag_ipDgramFrag _ _ _ _ _ hr hoff]
  · rfl
  · rw [fragSlice_length]; omega

theorem octetAt_fragRec (f : IpFrag) (off len i : Nat) :
    (fragRec f off len).octetAt i =
      if 8 * off ≤ i ∧ i < min (8 * (off + len)) f.payload.length then f.payload[i]? else none := by
  simp only [Frag.octetAt, fragRec, fragSlice]
  by_cases h1 : 8 * off ≤ i
  · simp only [h1, if_true, true_and, List.getElem?_take, List.getElem?_drop]
    have e : 8 * off + (i - 8 * off) = i := by omega
    rw [e]
    by_cases h2 : i < min (8 * (off + len)) f.payload.length
    · rw [if_pos h2, if_pos (by omega)]
    · rw [if_neg h2, if_neg (by omega)]
  · simp [h1]

/-- Fragments of `f` for requests that start inside the payload (`8*off ≤ n`, the domain on which
the Rust slice does not panic) and cover it reassemble to the payload. -/
theorem reassemble_fragRecs (f : IpFrag) (rs : List (Nat × Nat)) (hn : 0 < f.payload.length)
    (hr : ∀ r ∈ rs, 8 * r.1 ≤ f.payload.length)
    (hcov : ∀ i, i < f.payload.length → ∃ r ∈ rs, 8 * r.1 ≤ i ∧ i < 8 * (r.1 + r.2)) :
    reassemble (rs.map fun r => fragRec f r.1 r.2) = some f.payload := by
  have hkey : agree ((rs.map fun r => fragRec f r.1 r.2).map Frag.key) =
      some (f.hdr.saddr, f.hdr.daddr, f.hdr.protocol, f.hdr.id) := by
    rw [agree_eq_some_iff]
    obtain ⟨r, hrm, _⟩ := hcov 0 hn
    refine ⟨?_, ?_⟩
    · intro h
      have : rs = [] := by simpa using h
      subst this; cases hrm
    · intro y hy
      simp only [List.map_map, List.mem_map, Function.comp] at hy
      obtain ⟨r, _, rfl⟩ := hy
      rfl
  have htot : totalLen (rs.map fun r => fragRec f r.1 r.2) = some f.payload.length := by
    rw [totalLen, agree_eq_some_iff]
    refine ⟨?_, ?_⟩
    · obtain ⟨r, hrm, h1, h2⟩ := hcov (f.payload.length - 1) (by omega)
      apply List.ne_nil_of_mem (a := (fragRec f r.1 r.2).endPos)
      simp only [List.mem_map, List.mem_filter]
      refine ⟨_, ⟨⟨r, hrm, rfl⟩, ?_⟩, rfl⟩
      simp [fragRec]; omega
    · intro y hy
      simp only [List.mem_map, List.mem_filter] at hy
      obtain ⟨_, ⟨⟨r, hrm, rfl⟩, hmf⟩, rfl⟩ := hy
      have h8 := hr r hrm
      simp [fragRec] at hmf
      simp [Frag.endPos, fragRec, fragSlice_length]
      omega
  have hbuf : ∀ i, (hi : i < f.payload.length) →
      bufferAt (rs.map fun r => fragRec f r.1 r.2) i = some f.payload[i] := by
    intro i hi
    rw [bufferAt, agree_eq_some_iff]
    refine ⟨?_, ?_⟩
    · obtain ⟨r, hrm, h1, h2⟩ := hcov i hi
      apply List.ne_nil_of_mem (a := f.payload[i])
      simp only [List.mem_filterMap, List.mem_map]
      refine ⟨_, ⟨r, hrm, rfl⟩, ?_⟩
      rw [octetAt_fragRec, if_pos ⟨h1, by omega⟩]
      simp [hi]
    · intro y hy
      simp only [List.mem_filterMap, List.mem_map] at hy
      obtain ⟨_, ⟨r, _, rfl⟩, ho⟩ := hy
      rw [octetAt_fragRec] at ho
      split at ho
      · simpa [hi] using ho.symm
      · cases ho
  simp only [reassemble, hkey, htot]
  exact mapM_range_eq_some _ _ hbuf

theorem mapM_perm {α β : Type} (g : α → Option β) {l₁ l₂ : List α} (h : l₁.Perm l₂) :
    ∀ r₁, l₁.mapM g = some r₁ → ∃ r₂, l₂.mapM g = some r₂ ∧ r₁.Perm r₂ := by
  induction h with
  | nil => intro r₁ h; exact ⟨r₁, h, .refl _⟩
  | cons x _ ih =>
    intro r₁ h
    rw [List.mapM_cons] at h
    cases hx : g x with
    | none => simp [hx] at h
    | some y =>
      rename_i l₁ l₂ _
      cases hl : l₁.mapM g with
      | none => simp [hx, hl] at h
      | some r =>
        obtain ⟨r', h1, h2⟩ := ih r hl
        simp [hx, hl] at h
        subst h
        exact ⟨y :: r', by simp [List.mapM_cons, hx, h1], h2.cons y⟩
  | swap x y l =>
    intro r₁ h
    rw [List.mapM_cons, List.mapM_cons] at h
    cases hx : g x with
    | none => cases hy : g y <;> simp [hx, hy] at h
    | some x' =>
      cases hy : g y with
      | none => simp [hy] at h
      | some y' =>
        cases hl : l.mapM g with
        | none => simp [hx, hy, hl] at h
        | some r =>
          simp [hx, hy, hl] at h
          subst h
          exact ⟨x' :: y' :: r, by simp [List.mapM_cons, hx, hy, hl], .swap _ _ _⟩
  | trans _ _ ih₁ ih₂ =>
    intro r₁ h
    obtain ⟨r₂, h2, p2⟩ := ih₁ r₁ h
    obtain ⟨r₃, h3, p3⟩ := ih₂ r₂ h2
    exact ⟨r₃, h3, p2.trans p3⟩

theorem reassemblePkts_perm' {p₁ p₂ : List Bytes} (h : p₁.Perm p₂) :
    reassemblePkts p₁ = reassemblePkts p₂ := by
  simp only [reassemblePkts]
  cases h1 : p₁.mapM decodeFrag with
  | none =>
    cases h2 : p₂.mapM decodeFrag with
    | none => rfl
    | some r₂ =>
      obtain ⟨r, hr, _⟩ := mapM_perm decodeFrag h.symm r₂ h2
      rw [h1] at hr; cases hr
  | some r₁ =>
    obtain ⟨r₂, h2, pr⟩ := mapM_perm decodeFrag h r₁ h1
    rw [h2]
    exact reassemble_perm' pr

/-- a single unfragmented datagram reassembles to its data (also when empty) -/
theorem reassemble_single (fr : Frag) (hmf : fr.mf = false) (hoff : fr.offset = 0) :
    reassemble [fr] = some fr.data := by
  have hbuf : ∀ i, (hi : i < fr.data.length) → bufferAt [fr] i = some fr.data[i] := by
    intro i hi
    simp [bufferAt, Frag.octetAt, hoff, hi, agree]
  simp only [reassemble, totalLen, List.map, List.filter, hmf, Bool.not_false, agree, List.all_nil,
    if_true, Frag.endPos, hoff, Nat.mul_zero, Nat.zero_add]
  exact mapM_range_eq_some _ _ hbuf

end Resynth
