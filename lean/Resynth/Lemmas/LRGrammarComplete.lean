import Resynth.Lemmas.LRGrammarSound
/-!
# Completeness of the reference parser w.r.t. the derivation relation

Every derivation of a nonterminal is found by the corresponding `Spec.sX` (given a follow token
that cannot continue the nonterminal); the tree it builds is the derived tree up to the source
positions of references.
-/
namespace Resynth.Spec

/-- forget the length certificate -/
def plain {ts : List Tok} {α : Type} (r : PR ts α) : Except Nat (α × List Tok) :=
  match r with
  | .ok p => .ok (p.val, p.rest)
  | .error n => .error n

@[simp] theorem plain_ret {ts α} (v : α) (rest : List Tok) (h) :
    plain (ret (ts := ts) v rest h) = .ok (v, rest) := rfl
@[simp] theorem plain_error {ts α} (n : Nat) : plain (ts := ts) (α := α) (.error n) = .error n := rfl

/-- the tokens that can follow an expression in a sentence -/
def FollowE (rest : List Tok) : Prop :=
  ∃ u us, rest = u :: us ∧ (u.kind = .semi ∨ u.kind = .comma ∨ u.kind = .rparen)
/-- the tokens that can follow a primary expression -/
def FollowP (rest : List Tok) : Prop :=
  ∃ u us, rest = u :: us ∧ (u.kind = .semi ∨ u.kind = .comma ∨ u.kind = .rparen ∨ u.kind = .slash)

theorem FollowE.toP {rest} (h : FollowE rest) : FollowP rest := by
  obtain ⟨u, us, e, h⟩ := h; exact ⟨u, us, e, by rcases h with h | h | h <;> simp [h]⟩

/-- equal token lists up to `SameTok` on the first token -/
def SameFirst (ts' ts : List Tok) : Prop := ∃ a b r, ts' = a :: r ∧ ts = b :: r ∧ SameTok a b

theorem SameFirst.refl {ts : List Tok} (h : ts ≠ []) : SameFirst ts ts := by
  cases ts with
  | nil => exact absurd rfl h
  | cons t r => exact ⟨t, t, r, rfl, rfl, SameTok.refl t⟩

theorem sColons_complete {cur pre ms last} (h : Colons cur pre ms last) :
    ∀ (mods : List String) (rest : List Tok), (∃ u us, rest = u :: us ∧ u.kind ≠ .dcolon) →
      sColons mods cur (pre ++ rest) = .ok ((mods ++ ms, last), rest) := by
  induction h with
  | done cur => rintro mods rest ⟨u, us, rfl, hu⟩; cases us <;> simp [sColons, hu]
  | step hc hi _ ih =>
    intro mods rest hr
    simp [sColons, hc, hi, ih _ rest hr]

theorem sDots_complete {pre cs} (h : Dots pre cs) :
    ∀ (comps : List String) (rest : List Tok), (∃ u us, rest = u :: us ∧ u.kind ≠ .dot) →
      sDots comps (pre ++ rest) = .ok (comps ++ cs, rest) := by
  induction h with
  | done => rintro comps rest ⟨u, us, rfl, hu⟩; cases us <;> simp [sDots, hu]
  | step hd hi _ ih =>
    intro comps rest hr
    simp [sDots, hd, hi, ih _ rest hr]

theorem sRef_complete {i : Tok} {cs ds ms first comps} (hc : Colons i.text cs ms first)
    (hd : Dots ds comps) (loc : Loc) (rest : List Tok)
    (hr : ∃ u us, rest = u :: us ∧ u.kind ≠ .dcolon ∧ u.kind ≠ .dot) :
    sRef loc i.text (cs ++ ds ++ rest) = .ok (⟨loc, ms, first :: comps⟩, rest) := by
  obtain ⟨u, us, rfl, hu1, hu2⟩ := hr
  have h1 : sColons [] i.text (cs ++ (ds ++ u :: us)) = .ok (([] ++ ms, first), ds ++ u :: us) := by
    apply sColons_complete hc
    cases hd with
    | done => exact ⟨u, us, rfl, hu1⟩
    | step hd' _ _ => exact ⟨_, _, rfl, by simp [hd']⟩
  have h2 := sDots_complete hd [first] (u :: us) ⟨u, us, rfl, hu2⟩
  simp [sRef, h1, h2, bind, Except.bind, pure, Except.pure]

/-! ### the parser functions, one production at a time -/

theorem plain_ok {ts : List Tok} {α : Type} {r : PR ts α} {v : α} {rest : List Tok}
    (h : plain r = .ok (v, rest)) : ∃ hs, r = .ok ⟨v, rest, hs⟩ := by
  cases r with
  | error n => simp [plain] at h
  | ok p => obtain ⟨a, b, c⟩ := p; simp [plain] at h; obtain ⟨rfl, rfl⟩ := h; exact ⟨c, rfl⟩

theorem plain_sPrimary_lit {t : Tok} {v} (hk : isPlainLit t.kind = true) (hv : litOfToken t = some v)
    (rest : List Tok) : plain (sPrimary (t :: rest)) = .ok (.lit t.loc v, rest) := by
  rw [sPrimary]
  obtain ⟨k, txt, loc⟩ := t
  cases k <;> simp [isPlainLit] at hk <;> simp [hv]

theorem ip4OfToken_kind {t : Tok} {a} (h : ip4OfToken t = some a) : t.kind = .ipv4Lit := by
  unfold ip4OfToken at h; split at h <;> simp_all

theorem plain_sPrimary_ip4 {t u : Tok} {a} (ha : ip4OfToken t = some a) (hu : u.kind ≠ .colon)
    (us : List Tok) : plain (sPrimary (t :: u :: us)) = .ok (.lit t.loc (.ip4 a), u :: us) := by
  rw [sPrimary]; simp [ip4OfToken_kind ha, ha, hu]

theorem plain_sPrimary_sock {t c p : Tok} {a n} (ha : ip4OfToken t = some a) (hc : c.kind = .colon)
    (hp : portOfToken p = some n) (rest : List Tok) :
    plain (sPrimary (t :: c :: p :: rest)) = .ok (.lit t.loc (.sock4 a n), rest) := by
  rw [sPrimary]; simp [ip4OfToken_kind ha, ha, hc, hp]

theorem plain_sPrimary_ref {t u : Tok} {ts us o} (hk : t.kind = .ident)
    (hr : sRef t.loc t.text ts = .ok (o, u :: us)) (hu : u.kind ≠ .lparen) :
    plain (sPrimary (t :: ts)) = .ok (.ref o, u :: us) := by
  rw [sPrimary]; simp only [hk]
  split
  · next n hn => rw [hr] at hn; cases hn
  · next o' rest hn =>
    rw [hr] at hn; cases hn
    dsimp only
    simp [hu]

theorem plain_sPrimary_call {t l : Tok} {ts ts2 o args rest} (hk : t.kind = .ident)
    (hr : sRef t.loc t.text ts = .ok (o, l :: ts2)) (hl : l.kind = .lparen)
    (ha : plain (sArgs .nil ts2) = .ok (args, rest)) :
    plain (sPrimary (t :: ts)) = .ok (.call o args, rest) := by
  obtain ⟨hs, ha⟩ := plain_ok ha
  rw [sPrimary]; simp only [hk]
  split
  · next n hn => rw [hr] at hn; cases hn
  · next o' rest' hn =>
    rw [hr] at hn; cases hn
    dsimp only
    simp [hl, ha]

theorem plain_sExpr_noslash {ts : List Tok} {a} {u : Tok} {us}
    (hp : plain (sPrimary ts) = .ok (a, u :: us)) (hu : u.kind ≠ .slash) :
    plain (sExpr ts) = .ok (a, u :: us) := by
  obtain ⟨hs, hp⟩ := plain_ok hp
  rw [sExpr]; simp [hp, hu]

theorem plain_sExpr_slash {ts : List Tok} {a b} {s : Tok} {us rest}
    (hp : plain (sPrimary ts) = .ok (a, s :: us)) (hs : s.kind = .slash)
    (he : plain (sExpr us) = .ok (b, rest)) :
    plain (sExpr ts) = .ok (.slash a b, rest) := by
  obtain ⟨_, hp⟩ := plain_ok hp
  obtain ⟨_, he⟩ := plain_ok he
  rw [sExpr]; simp [hp, hs, he]

theorem plain_rewrap {ts ts' : List Tok} {α : Type} (r : PR ts' α)
    (f : ∀ p : Parsed ts' α, p.rest.length < ts.length) :
    plain (ts := ts) (match r with
      | .error n => .error n
      | .ok ⟨as, rest1, h⟩ => ret as rest1 (f ⟨as, rest1, h⟩)) = plain r := by
  cases r with
  | error n => rfl
  | ok p => rfl

theorem plain_sArgs_rparen {t : Tok} (h : t.kind = .rparen) (acc : Args) (ts : List Tok) :
    plain (sArgs acc (t :: ts)) = .ok (acc, ts) := by
  rw [sArgs.eq_def]; simp [h]

theorem plain_sArgs_named {t u : Tok} {us e rest} (ht : t.kind = .ident) (hu : u.kind = .colon)
    (he : plain (sExpr us) = .ok (e, rest)) (acc : Args) :
    plain (sArgs acc (t :: u :: us)) = plain (sArgNext (acc.snoc (some t.text) e) rest) := by
  obtain ⟨_, he⟩ := plain_ok he
  rw [sArgs.eq_def]; simp only [ht, hu, he, reduceCtorEq, ↓reduceIte]
  generalize sArgNext _ _ = r
  cases r <;> rfl

theorem plain_sArgs_posIdent {t u : Tok} {us e rest} (ht : t.kind = .ident) (hu : u.kind ≠ .colon)
    (he : plain (sExpr (restamp t u :: u :: us)) = .ok (e, rest)) (acc : Args) :
    plain (sArgs acc (t :: u :: us)) = plain (sArgNext (acc.snoc none e) rest) := by
  obtain ⟨_, he⟩ := plain_ok he
  rw [sArgs.eq_def]; simp only [ht, hu, he, reduceCtorEq, ↓reduceIte]
  generalize sArgNext _ _ = r
  cases r <;> rfl

theorem plain_sArgs_posOther {t : Tok} {ts e rest} (h1 : t.kind ≠ .rparen) (h2 : t.kind ≠ .ident)
    (he : plain (sExpr (t :: ts)) = .ok (e, rest)) (acc : Args) :
    plain (sArgs acc (t :: ts)) = plain (sArgNext (acc.snoc none e) rest) := by
  obtain ⟨_, he⟩ := plain_ok he
  rw [sArgs.eq_def]; simp only [h1, h2, he, ↓reduceIte]
  generalize sArgNext _ _ = r
  cases r <;> rfl

theorem plain_sArgNext_comma {t : Tok} (h : t.kind = .comma) (acc : Args) (ts : List Tok) :
    plain (sArgNext acc (t :: ts)) = plain (sArgs acc ts) := by
  rw [sArgNext.eq_def]; simp only [h, ↓reduceIte]
  generalize sArgs _ _ = r
  cases r <;> rfl

theorem plain_sArgNext_rparen {t : Tok} (h : t.kind = .rparen) (acc : Args) (ts : List Tok) :
    plain (sArgNext acc (t :: ts)) = .ok (acc, ts) := by
  rw [sArgNext.eq_def]; simp [h]

/-- an expression cannot begin with `)` -/
theorem sExpr_not_rparen {t : Tok} {ts r} (h : plain (sExpr (t :: ts)) = .ok r) : t.kind ≠ .rparen := by
  intro hk
  rw [sExpr, sPrimary] at h
  simp [hk] at h

/-- an identifier followed by `:` is a complete expression -/
theorem plain_sExpr_ident_colon {t u : Tok} (ht : t.kind = .ident) (hu : u.kind = .colon)
    (us : List Tok) : plain (sExpr (t :: u :: us)) = .ok (.ref ⟨t.loc, [], [t.text]⟩, u :: us) := by
  have hr : sRef t.loc t.text (u :: us) = .ok (⟨t.loc, [], [t.text]⟩, u :: us) := by
    cases us <;> simp [sRef, sColons, sDots, hu, bind, Except.bind, pure, Except.pure]
  exact plain_sExpr_noslash (plain_sPrimary_ref ht hr (by simp [hu])) (by simp [hu])

/-! ### erasure of reference positions and argument lists -/

theorem eraseRefLocA_appArgs : ∀ a b : Args,
    eraseRefLocA (appArgs a b) = appArgs (eraseRefLocA a) (eraseRefLocA b)
  | .nil, _ => by simp [appArgs, eraseRefLocA]
  | .cons n e r, b => by simp [appArgs, eraseRefLocA, eraseRefLocA_appArgs r b]

theorem FollowP.ne {rest} (h : FollowP rest) :
    ∃ u us, rest = u :: us ∧ u.kind ≠ .dcolon ∧ u.kind ≠ .dot ∧ u.kind ≠ .lparen ∧ u.kind ≠ .colon := by
  obtain ⟨u, us, e, h⟩ := h
  exact ⟨u, us, e, by rcases h with h | h | h | h <;> simp [h]⟩

/-! ### the mutual induction over derivations -/

mutual

theorem complete_primary : ∀ {ts e}, Primary ts e → ∀ (ts' rest : List Tok), SameFirst ts' ts →
    FollowP rest → ∃ e', plain (sPrimary (ts' ++ rest)) = .ok (e', rest) ∧
      eraseRefLocE e' = eraseRefLocE e
  | _, _, .lit (t := t) (v := v) hk hv, ts', rest, hsf, _ => by
    obtain ⟨a, b, r, rfl, e2, hab⟩ := hsf
    simp only [List.cons.injEq] at e2; obtain ⟨rfl, rfl⟩ := e2
    have : a = t := hab.2.2 (by intro h; rw [h] at hk; simp [isPlainLit] at hk)
    subst this
    exact ⟨_, plain_sPrimary_lit hk hv rest, rfl⟩
  | _, _, .ip4 (t := t) (a := a) ha, ts', rest, hsf, hf => by
    obtain ⟨x, b, r, rfl, e2, hab⟩ := hsf
    simp only [List.cons.injEq] at e2; obtain ⟨rfl, rfl⟩ := e2
    have : x = t := hab.2.2 (by rw [ip4OfToken_kind ha]; simp)
    subst this
    obtain ⟨u, us, rfl, _, _, _, hu⟩ := hf.ne
    exact ⟨_, plain_sPrimary_ip4 ha hu us, rfl⟩
  | _, _, .sock (t := t) (c := c) (p := p) ha hc hp, ts', rest, hsf, _ => by
    obtain ⟨x, b, r, rfl, e2, hab⟩ := hsf
    simp only [List.cons.injEq] at e2; obtain ⟨rfl, rfl⟩ := e2
    have : x = t := hab.2.2 (by rw [ip4OfToken_kind ha]; simp)
    subst this
    exact ⟨_, plain_sPrimary_sock ha hc hp rest, rfl⟩
  | _, _, .ref href, ts', rest, hsf, hf => by
    cases href with
    | @mk i cs ds ms first comps loc hi hc hd =>
      obtain ⟨x, b, r, rfl, e2, hab⟩ := hsf
      simp only [List.cons_append, List.cons.injEq] at e2; obtain ⟨rfl, rfl⟩ := e2
      obtain ⟨u, us, rfl, h1, h2, h3, _⟩ := hf.ne
      have hx : x.kind = .ident := by rw [hab.1, hi]
      have hr := sRef_complete (i := i) hc hd x.loc (u :: us) ⟨u, us, rfl, h1, h2⟩
      rw [← hab.2.1] at hr
      refine ⟨.ref ⟨x.loc, ms, first :: comps⟩, ?_, ?_⟩
      · exact plain_sPrimary_ref hx hr h3
      · simp [eraseRefLocE]
  | _, _, .call (l := l) (r := r) (as := as) (args := args) href hl hal hr, ts', rest, hsf, _ => by
    cases href with
    | @mk i cs ds ms first comps loc hi hc hd =>
      obtain ⟨x, b, r', rfl, e2, hab⟩ := hsf
      simp only [List.cons_append, List.cons.injEq] at e2; obtain ⟨rfl, rfl⟩ := e2
      have hx : x.kind = .ident := by rw [hab.1, hi]
      have hsr := sRef_complete (i := i) hc hd x.loc (l :: (as ++ r :: rest))
        ⟨l, _, rfl, by simp [hl], by simp [hl]⟩
      rw [← hab.2.1] at hsr
      obtain ⟨as', ha1, ha2⟩ := complete_args hal .nil r rest hr
      refine ⟨.call ⟨x.loc, ms, first :: comps⟩ as', ?_, ?_⟩
      · have := plain_sPrimary_call hx hsr hl (by simpa using ha1)
        rw [show x :: (cs ++ ds ++ l :: as ++ [r]) ++ rest
          = x :: (cs ++ ds ++ l :: (as ++ r :: rest)) by simp]
        exact this
      · simp [eraseRefLocE, ha2]

theorem complete_expr : ∀ {ts e}, Expression ts e → ∀ (ts' rest : List Tok), SameFirst ts' ts →
    FollowE rest → ∃ e', plain (sExpr (ts' ++ rest)) = .ok (e', rest) ∧
      eraseRefLocE e' = eraseRefLocE e
  | _, _, .prim hp, ts', rest, hsf, hf => by
    obtain ⟨e', h1, h2⟩ := complete_primary hp ts' rest hsf hf.toP
    obtain ⟨u, us, rfl, hu⟩ := hf
    exact ⟨e', plain_sExpr_noslash h1 (by rcases hu with h | h | h <;> simp [h]), h2⟩
  | _, _, .slash (ts := ts) (us := us) (s := s) hp hs he, ts', rest, hsf, hf => by
    obtain ⟨x, b, r, rfl, e2, hab⟩ := hsf
    have IHp := complete_primary hp
    have hne := hp.ne_nil
    obtain ⟨b', h3, h4⟩ := complete_expr he us rest (SameFirst.refl he.ne_nil) hf
    clear hp
    cases ts with
    | nil => exact absurd rfl hne
    | cons t0 ts0 =>
      simp only [List.cons_append, List.cons.injEq] at e2; obtain ⟨rfl, rfl⟩ := e2
      obtain ⟨a', h1, h2⟩ := IHp (x :: ts0) (s :: (us ++ rest))
        ⟨x, _, ts0, rfl, rfl, hab⟩ ⟨s, _, rfl, by simp [hs]⟩
      refine ⟨.slash a' b', ?_, by simp [eraseRefLocE, h2, h4]⟩
      have := plain_sExpr_slash h1 hs h3
      rw [show x :: (ts0 ++ s :: us) ++ rest = x :: ts0 ++ s :: (us ++ rest) by simp]
      exact this

theorem complete_args : ∀ {pre as}, ArgList pre as → ∀ (acc : Args) (r : Tok) (rest : List Tok),
    r.kind = .rparen → ∃ as', plain (sArgs acc (pre ++ r :: rest)) = .ok (appArgs acc as', rest) ∧
      eraseRefLocA as' = eraseRefLocA as
  | _, _, .nil, acc, r, rest, hr => ⟨.nil, by simpa using plain_sArgs_rparen hr acc rest, rfl⟩
  | _, _, .last (n := n) harg, acc, r, rest, hr => by
    obtain ⟨e', h1, h2⟩ := complete_arg harg acc r rest (.inr hr)
    refine ⟨.cons n e' .nil, ?_, by simp [eraseRefLocA, h1]⟩
    rw [h2, plain_sArgNext_rparen hr, snoc_eq_appArgs]
  | _, _, .cons (ts := ts) (n := n) (us := us) (c := c) harg hc hal, acc, r, rest, hr => by
    obtain ⟨e', h1, h2⟩ := complete_arg harg acc c (us ++ r :: rest) (.inl hc)
    obtain ⟨as', h3, h4⟩ := complete_args hal (acc.snoc n e') r rest hr
    refine ⟨.cons n e' as', ?_, by simp [eraseRefLocA, h1, h4]⟩
    have : ts ++ c :: us ++ r :: rest = ts ++ c :: (us ++ r :: rest) := by simp
    rw [this, h2, plain_sArgNext_comma hc, h3, appArgs_snoc]

theorem complete_arg : ∀ {ts n e}, Arg ts n e → ∀ (acc : Args) (f : Tok) (rest : List Tok),
    (f.kind = .comma ∨ f.kind = .rparen) → ∃ e', eraseRefLocE e' = eraseRefLocE e ∧
      plain (sArgs acc (ts ++ f :: rest)) = plain (sArgNext (acc.snoc n e') (f :: rest))
  | _, _, _, .named (i := i) (c := c) (ts := ts) hi hc he, acc, f, rest, hf => by
    have hfe : FollowE (f :: rest) := ⟨f, rest, rfl, by rcases hf with h | h <;> simp [h]⟩
    obtain ⟨e', h1, h2⟩ := complete_expr he ts (f :: rest) (SameFirst.refl he.ne_nil) hfe
    exact ⟨e', h2, by simpa using plain_sArgs_named hi hc h1 acc⟩
  | _, _, _, .pos (ts := ts) he, acc, f, rest, hf => by
    have hfe : FollowE (f :: rest) := ⟨f, rest, rfl, by rcases hf with h | h <;> simp [h]⟩
    have IH := complete_expr he
    have hne := he.ne_nil
    clear he
    cases ts with
    | nil => exact absurd rfl hne
    | cons t ts1 =>
      obtain ⟨e0, h01, h02⟩ := IH (t :: ts1) (f :: rest) (SameFirst.refl (by simp)) hfe
      have hnr : t.kind ≠ .rparen := sExpr_not_rparen (by simpa using h01)
      by_cases hi : t.kind = .ident
      · -- the identifier is re-stamped with the position of the next token
        cases hts : ts1 ++ f :: rest with
        | nil => simp at hts
        | cons u us =>
          have hu : u.kind ≠ .colon := by
            intro hu
            have h01' : plain (sExpr (t :: u :: us)) = .ok (e0, f :: rest) := by
              rw [← hts]; simpa using h01
            rw [plain_sExpr_ident_colon hi hu] at h01'
            simp only [Except.ok.injEq, Prod.mk.injEq, List.cons.injEq] at h01'
            obtain ⟨_, rfl, _⟩ := h01'
            rcases hf with h | h <;> simp [h] at hu
          obtain ⟨e', h1, h2⟩ := IH (restamp t u :: ts1) (f :: rest)
            ⟨restamp t u, t, ts1, rfl, rfl, by simp [SameTok, restamp, hi]⟩ hfe
          refine ⟨e', h2, ?_⟩
          have h1' : plain (sExpr (restamp t u :: u :: us)) = .ok (e', f :: rest) := by
            rw [← hts]; simpa using h1
          have := plain_sArgs_posIdent hi hu h1' acc
          rw [← hts] at this
          simpa using this
      · exact ⟨e0, h02, by simpa using plain_sArgs_posOther hnr hi (by simpa using h01) acc⟩

end

/-! ### statements and programs -/

theorem parseExpr_of_plain {ts : List Tok} {r} (h : plain (sExpr ts) = .ok r) : parseExpr ts = .ok r := by
  unfold parseExpr; unfold plain at h
  cases hs : sExpr ts with
  | error n => simp [hs] at h
  | ok p => simpa [hs] using h

theorem complete_stmt {ts s} (h : Statement ts s) (rest : List Tok) :
    ∃ s', sStmt (ts ++ rest) = .ok (s', rest) ∧ eraseRefLoc s' = eraseRefLoc s := by
  cases h with
  | imp hk hi hs =>
    exact ⟨_, by simp [sStmt, hk, expect, hi, hs, bind, Except.bind, pure, Except.pure], rfl⟩
  | @assign k i q sm ts e hk hi hq he hs =>
    obtain ⟨e', h1, h2⟩ := complete_expr he ts (sm :: rest) (SameFirst.refl he.ne_nil)
      ⟨sm, rest, rfl, .inl hs⟩
    have h1' := parseExpr_of_plain h1
    refine ⟨.assign i.loc i.text e', ?_, by simp [eraseRefLoc, h2]⟩
    have : k :: i :: q :: ts ++ [sm] ++ rest = k :: i :: q :: (ts ++ sm :: rest) := by simp
    rw [this]
    simp [sStmt, hk, expect, hi, hq, h1', hs, bind, Except.bind, pure, Except.pure]
  | @expr t sm ts e hk he hs =>
    obtain ⟨e', h1, h2⟩ := complete_expr he (t :: ts) (sm :: rest) (SameFirst.refl (by simp))
      ⟨sm, rest, rfl, .inl hs⟩
    have h1' := parseExpr_of_plain h1
    refine ⟨.expr e', ?_, by simp [eraseRefLoc, h2]⟩
    have : t :: ts ++ [sm] ++ rest = t :: (ts ++ sm :: rest) := by simp
    rw [this]
    simp only [List.cons_append] at h1'
    simp [sStmt, hk, expect, h1', hs, bind, Except.bind, pure, Except.pure]

theorem Statement.first {ts s} (h : Statement ts s) : ∃ t ts0, ts = t :: ts0 ∧ t.kind ≠ .eof := by
  cases h with
  | imp hk _ _ => exact ⟨_, _, rfl, by simp [hk]⟩
  | assign hk _ _ _ _ => exact ⟨_, _, rfl, by simp [hk]⟩
  | expr hk _ _ => exact ⟨_, _, rfl, by simp [hk]⟩

theorem complete_program {ts ss} (h : Program ts ss) : ∀ acc : List Stmt,
    ∃ ss', sProgram acc ts = .ok (acc ++ ss') ∧ ss'.map eraseRefLoc = ss.map eraseRefLoc := by
  induction h with
  | eof he => intro acc; exact ⟨[], by simp [sProgram, he], rfl⟩
  | @cons ts s us ss hs _ ih =>
    intro acc
    obtain ⟨s', h1, h2⟩ := complete_stmt hs us
    obtain ⟨ss', h3, h4⟩ := ih (acc ++ [s'])
    obtain ⟨t, ts0, rfl, ht⟩ := hs.first
    refine ⟨s' :: ss', ?_, by simp [h2, h4]⟩
    simp only [List.cons_append] at h1 ⊢
    rw [sProgram.eq_def]
    simp only [ht, ↓reduceIte]
    split
    · next n hn => rw [h1] at hn; cases hn
    · next s2 rest hn => rw [h1] at hn; cases hn; simpa using h3

end Resynth.Spec
