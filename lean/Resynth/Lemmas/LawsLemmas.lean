import Resynth.Lemmas.InterpTrace
import Resynth.Lemmas.InterpSubst
import Resynth.Lemmas.InterpInvTime
/-!
# Helper lemmas for `Props/C14Laws.lean`

* closed forms of `addStmt` on `import m`, `let x = <literal>`, `let b = a`
* `emitVal` of a packet-valued value: exact effect on clock / records
* folds of `emitVal` over two use lists carrying the same values
* repeated `updateTime`
-/
namespace Resynth.Sem

/-! ## `import` -/

/-- closed form of `import m`: `regs` does not occur -/
theorem addStmt_imp_eq (env : Env) (st : PState) (loc : Loc) (m : String) :
    addStmt env st (.imp loc m) =
      if m ∈ st.imports then .ok { st with loc := loc }
      else match env.lib.get m with
        | some .module => .ok { st with loc := loc, imports := st.imports ++ [m] }
        | none => .err (.import_ m) loc
        | some _ => .panic "toplevel_module: unreachable" := by
  simp only [addStmt]
  by_cases h : m ∈ st.imports
  · simp [h]
  · simp only [List.contains_eq_mem, h, decide_false, Bool.false_eq_true, if_false]
    split <;> simp_all

/-! ## `let x = <literal>` -/

theorem addStmt_let_lit_eq (env : Env) (st : PState) (loc l : Loc) (x : String) (lit : Lit) :
    addStmt env st (.assign loc x (.lit l lit)) =
      if x ∈ keys st.regs then .err (.multipleAssign x) loc
      else .ok { st with loc := l, regs := st.regs ++ [(x, Val.ofLit lit)] } := by
  simp only [addStmt]
  by_cases h : x ∈ keys st.regs
  · rw [if_pos ((lookupReg_isSome_iff _ _).2 h), if_pos h]
  · rw [if_neg (fun hc => h ((lookupReg_isSome_iff _ _).1 hc)), if_neg h]
    rfl

/-! ## `let b = a` -/

theorem addStmt_alias_eq (env : Env) (st : PState) (l l' : Loc) (a b : String) (v : Val)
    (ha : lookupReg st.regs a = some v) (hb : b ∉ keys st.regs) :
    addStmt env st (.assign l b (.ref ⟨l', [], [a]⟩)) =
      .ok { st with loc := l', regs := st.regs ++ [(b, v)] } := by
  simp only [addStmt]
  rw [if_neg (fun hc => hb ((lookupReg_isSome_iff _ _).1 hc))]
  rw [eval_ref_var env { st with loc := l } l' a v ha]
  rfl

/-- a bound name is different from a fresh one -/
theorem ne_of_bound_of_fresh {regs : List (String × Val)} {a b : String} {v : Val}
    (ha : lookupReg regs a = some v) (hb : b ∉ keys regs) : a ≠ b := by
  rintro rfl
  exact hb ((lookupReg_isSome_iff _ _).1 (by rw [ha]; rfl))

theorem lookupReg_snoc_old (regs : List (String × Val)) (a b : String) (v w : Val)
    (ha : lookupReg regs a = some v) : lookupReg (regs ++ [(b, w)]) a = some v := by
  rw [lookupReg_append, ha]; rfl

theorem lookupReg_snoc_new (regs : List (String × Val)) (b : String) (w : Val) (hb : b ∉ keys regs) :
    lookupReg (regs ++ [(b, w)]) b = some w := by
  rw [lookupReg_append, (lookupReg_eq_none_iff _ _).2 hb, lookupReg_cons, if_pos rfl]; rfl

/-! ## `emitVal` of packets -/

theorem emitVal_pkts_ok {st st' : PState} {v : Val} {ps : List Packet} (hv : v.toPktGen? = some ps)
    (h : emitVal st v = .ok st') :
    st'.now = st.now + (ps.map Packet.bitTime).sum ∧
    st'.emitted = st.emitted ++ ps.map (fun p => (st.now + (ps.map Packet.bitTime).sum, p.frame)) ∧
    st'.warnings = st.warnings ∧ st'.regs = st.regs ∧ st'.imports = st.imports ∧ st'.heap = st.heap ∧
    st'.loc = st.loc := by
  cases v <;> simp only [Val.toPktGen?, Option.some.injEq, reduceCtorEq] at hv
  case pkt p =>
    subst hv
    simp only [emitVal] at h
    obtain ⟨st1, h1, h⟩ := Res.bind_eq_ok.1 h
    obtain ⟨w, rfl⟩ := writeRecord_ok h
    rw [updateTime_ok h1]
    simp
  case pktgen qs =>
    subst hv
    simp only [emitVal] at h
    obtain ⟨st1, h1, h⟩ := Res.bind_eq_ok.1 h
    obtain ⟨w, rfl⟩ := writeRecords_ok _ h
    rw [foldl_updateTime_ok _ h1]
    simp

/-- values of type Pkt / PktGen are exactly those with a packet-list view -/
theorem toPktGen_isSome_iff (v : Val) : v.toPktGen?.isSome = true ↔ (v.valType = .pkt ∨ v.valType = .pktgen) := by
  cases v <;> simp [Val.toPktGen?, Val.valType]

/-! ## folds of `emitVal` -/

theorem foldlM_emitVal_sim {skip : String → Prop} :
    ∀ (us1 us2 : List (Loc × String × Val)), us1.map (·.2.2) = us2.map (·.2.2) →
    ∀ {s1 s2 : PState}, Sim skip s1 s2 →
    ResRel (Sim skip) (us1.foldlM (fun s u => emitVal { s with loc := u.1 } u.2.2) s1)
      (us2.foldlM (fun s u => emitVal { s with loc := u.1 } u.2.2) s2)
  | [], [], _, _, _, h => .ok h
  | [], _ :: _, hv, _, _, _ => by simp at hv
  | _ :: _, [], hv, _, _, _ => by simp at hv
  | u1 :: us1, u2 :: us2, hv, s1, s2, h => by
    simp only [List.map_cons, List.cons.injEq] at hv
    simp only [List.foldlM_cons]
    rw [hv.1]
    refine ResRel.bind (emitVal_sim u2.2.2 (h.setLoc _ _)) ?_
    intro a b hab
    exact foldlM_emitVal_sim us1 us2 hv.2 hab

/-! ## `reloc id` is the identity -/

mutual
theorem Expr.reloc_id : ∀ e : Expr, e.reloc id = e
  | .nil => rfl
  | .lit _ _ => rfl
  | .ref _ => rfl
  | .call o a => by simp only [Expr.reloc, Args.reloc_id a]; rfl
  | .slash a b => by simp only [Expr.reloc, Expr.reloc_id a, Expr.reloc_id b]
theorem Args.reloc_id : ∀ a : Args, a.reloc id = a
  | .nil => rfl
  | .cons _ e rest => by simp only [Args.reloc, Expr.reloc_id e, Args.reloc_id rest]
end

theorem Stmt.reloc_id (s : Stmt) : s.reloc id = s := by
  cases s <;> simp [Stmt.reloc, Expr.reloc_id]

/-! ## repeated jumps -/

theorem updateTime_eq (st : PState) (n : Nat) :
    updateTime st n = if st.now + n < u64Max then .ok { st with now := st.now + n } else .err .runtime st.loc := rfl

end Resynth.Sem
