import Resynth.Lemmas.LitNum
/-!
# Dotted quads: `splitOnDot`, `parseOctet`, `parseIpv4` (helper lemmas for C17)
-/
namespace Resynth.LitQuad
open Resynth Resynth.Spec Resynth.LitNum

/-! ## `splitOnDot` as a structural recursion -/

/-- recursive characterisation of `splitOnDot` -/
def splitDot : List Char → List (List Char)
  | [] => [[]]
  | c :: cs =>
    if c == '.' then [] :: splitDot cs
    else match splitDot cs with
      | h :: t => (c :: h) :: t
      | [] => [[c]]

/-- `cur` is prepended to the first field -/
def prependHead (cur : List Char) : List (List Char) → List (List Char)
  | h :: t => (cur ++ h) :: t
  | [] => [cur]

/-- the parts joined with dots again -/
def joinDot : List (List Char) → List Char
  | [] => []
  | [x] => x
  | x :: y :: r => x ++ '.' :: joinDot (y :: r)

theorem splitDot_ne_nil (cs : List Char) : splitDot cs ≠ [] := by
  cases cs with
  | nil => simp [splitDot]
  | cons c cs =>
    unfold splitDot
    split
    · simp
    · split <;> simp

theorem prependHead_nil {l : List (List Char)} (h : l ≠ []) : prependHead [] l = l := by
  cases l with
  | nil => exact absurd rfl h
  | cons a t => rfl

theorem prependHead_snoc (cur : List Char) (c : Char) (l : List (List Char)) (hl : l ≠ []) :
    prependHead (cur ++ [c]) l = prependHead cur (prependHead [c] l) := by
  cases l with
  | nil => exact absurd rfl hl
  | cons a t => simp [prependHead]

theorem splitDot_cons_of_ne (c : Char) (cs : List Char) (h : (c == '.') = false) :
    splitDot (c :: cs) = prependHead [c] (splitDot cs) := by
  rw [splitDot]
  simp only [h, Bool.false_eq_true, if_false]
  split
  · next h' => rw [h']; rfl
  · next h' => exact absurd h' (splitDot_ne_nil cs)

theorem fold_split (cs : List Char) (cur : List Char) (acc : List (List Char)) :
    (cs.foldl (fun (p : List Char × List (List Char)) c =>
        if c == '.' then ([], p.2 ++ [p.1]) else (p.1 ++ [c], p.2)) (cur, acc)).2 ++
      [(cs.foldl (fun (p : List Char × List (List Char)) c =>
        if c == '.' then ([], p.2 ++ [p.1]) else (p.1 ++ [c], p.2)) (cur, acc)).1]
      = acc ++ prependHead cur (splitDot cs) := by
  induction cs generalizing cur acc with
  | nil => simp [splitDot, prependHead]
  | cons c cs ih =>
    rw [List.foldl_cons]
    by_cases h : (c == '.') = true
    · simp only [h, if_true]
      rw [ih, prependHead_nil (splitDot_ne_nil cs), splitDot]
      simp only [h, if_true, prependHead, List.append_nil, List.append_assoc, List.singleton_append]
    · have h' : (c == '.') = false := by simpa using h
      simp only [h', Bool.false_eq_true, if_false]
      rw [ih, splitDot_cons_of_ne c cs h', prependHead_snoc _ _ _ (splitDot_ne_nil cs)]

theorem splitOnDot_eq (cs : List Char) : splitOnDot cs = splitDot cs := by
  unfold splitOnDot
  have := fold_split cs [] []
  rw [prependHead_nil (splitDot_ne_nil cs), List.nil_append] at this
  exact this

theorem splitDot_nodot {as : List Char} (h : ∀ c ∈ as, (c == '.') = false) : splitDot as = [as] := by
  induction as with
  | nil => rfl
  | cons a as ih =>
    rw [splitDot_cons_of_ne a as (h a List.mem_cons_self),
      ih (fun c hc => h c (List.mem_cons_of_mem _ hc))]
    rfl

theorem splitDot_append_dot {as : List Char} (h : ∀ c ∈ as, (c == '.') = false) (rest : List Char) :
    splitDot (as ++ '.' :: rest) = as :: splitDot rest := by
  induction as with
  | nil => simp [splitDot]
  | cons a as ih =>
    rw [List.cons_append, splitDot_cons_of_ne a _ (h a List.mem_cons_self),
      ih (fun c hc => h c (List.mem_cons_of_mem _ hc))]
    rfl

/-- the requested form: the first field is cut off at the first dot -/
theorem splitOnDot_append_dot {as : List Char} (h : ∀ c ∈ as, (c == '.') = false) (rest : List Char) :
    splitOnDot (as ++ '.' :: rest) = as :: splitOnDot rest := by
  rw [splitOnDot_eq, splitOnDot_eq, splitDot_append_dot h]

theorem joinDot_splitDot (cs : List Char) : joinDot (splitDot cs) = cs := by
  induction cs with
  | nil => rfl
  | cons c cs ih =>
    by_cases h : (c == '.') = true
    · have hc : c = '.' := by simpa using h
      rw [splitDot]
      simp only [h, if_true]
      cases hs : splitDot cs with
      | nil => exact absurd hs (splitDot_ne_nil cs)
      | cons x t => rw [hs] at ih; simp only [joinDot, List.nil_append, ih, hc]
    · have h' : (c == '.') = false := by simpa using h
      rw [splitDot_cons_of_ne c cs h']
      cases hs : splitDot cs with
      | nil => exact absurd hs (splitDot_ne_nil cs)
      | cons x t =>
        rw [hs] at ih
        cases t with
        | nil => simpa [prependHead, joinDot] using ih
        | cons y r => simp only [prependHead, joinDot, List.cons_append, List.nil_append] at ih ⊢; rw [ih]

/-- a text that splits into exactly four fields is those fields joined by dots -/
theorem eq_of_splitOnDot_four {s a b c d : List Char} (h : splitOnDot s = [a, b, c, d]) :
    s = a ++ '.' :: (b ++ '.' :: (c ++ '.' :: d)) := by
  have := joinDot_splitDot s
  rw [← splitOnDot_eq, h] at this
  exact this.symm

theorem isDec_ne_dot {c : Char} (h : isDec c = true) : (c == '.') = false := by
  rw [isDec_iff] at h
  simp only [beq_eq_false_iff_ne, ne_eq]
  intro hc; subst hc
  exact absurd h.1 (by decide)

theorem splitOnDot_four {as bs cs ds : List Char}
    (ha : ∀ c ∈ as, isDec c = true) (hb : ∀ c ∈ bs, isDec c = true)
    (hc : ∀ c ∈ cs, isDec c = true) (hd : ∀ c ∈ ds, isDec c = true) :
    splitOnDot (as ++ '.' :: (bs ++ '.' :: (cs ++ '.' :: ds))) = [as, bs, cs, ds] := by
  rw [splitOnDot_append_dot (fun c h => isDec_ne_dot (ha c h)),
    splitOnDot_append_dot (fun c h => isDec_ne_dot (hb c h)),
    splitOnDot_append_dot (fun c h => isDec_ne_dot (hc c h)),
    splitOnDot_eq, splitDot_nodot (fun c h => isDec_ne_dot (hd c h))]

/-! ## octets -/

/-- the canonical spelling of an octet, digit by digit -/
def explicitOctet (n : Nat) : List Char :=
  if n < 10 then [Char.ofNat (48 + n)]
  else if n < 100 then [Char.ofNat (48 + n / 10), Char.ofNat (48 + n % 10)]
  else [Char.ofNat (48 + n / 100), Char.ofNat (48 + n / 10 % 10), Char.ofNat (48 + n % 10)]

set_option maxRecDepth 100000 in
theorem canonOctet_fin : ∀ n : Fin 256, canonOctet n.val = explicitOctet n.val := by decide

theorem canonOctet_eq {n : Nat} (h : n ≤ 255) : canonOctet n = explicitOctet n :=
  canonOctet_fin ⟨n, by omega⟩

set_option maxRecDepth 100000 in
theorem parseOctet_fin : ∀ n : Fin 256, parseOctet (canonOctet n.val) = some n.val := by decide

theorem parseOctet_canon {n : Nat} (h : n ≤ 255) : parseOctet (canonOctet n) = some n :=
  parseOctet_fin ⟨n, by omega⟩

theorem char_of_decDigit {c : Char} (h : isDec c = true) : Char.ofNat (48 + decDigitVal c) = c := by
  rw [isDec_iff] at h
  have : 48 + decDigitVal c = c.toNat := by unfold decDigitVal; omega
  rw [this, Char.ofNat_toNat]

theorem decDigit_pos {c : Char} (h : isDec c = true) (h0 : c ≠ '0') : 1 ≤ decDigitVal c := by
  rw [isDec_iff] at h
  unfold decDigitVal
  have : c.toNat ≠ 48 := by
    intro e; apply h0; rw [← Char.ofNat_toNat c, e]
  omega

/-- what `parseOctet` checks, as propositions -/
theorem parseOctet_some_iff (cs : List Char) (n : Nat) :
    parseOctet cs = some n ↔
      cs ≠ [] ∧ cs.length ≤ 3 ∧ (∀ c ∈ cs, isDec c = true) ∧
      ¬ (cs.length > 1 ∧ cs.head? = some '0') ∧ decValue cs = n ∧ n ≤ 255 := by
  unfold parseOctet
  by_cases hall : ∀ c ∈ cs, isDec c = true
  · have hall' : cs.all isDigit = true := by
      rw [List.all_eq_true]; exact hall
    rw [digitsVal_dec hall]
    by_cases h1 : cs = []
    · simp [h1]
    by_cases h2 : cs.length > 3
    · simp only [h2]; simp; intro _ h; omega
    by_cases h3 : cs.length > 1 ∧ cs.head? = some '0'
    · simp [h1, h2, hall', h3]
    · have h3' : (decide (cs.length > 1) && (cs.head? == some '0')) = false := by
        rw [Bool.and_eq_false_iff]
        by_cases hl : cs.length > 1
        · right; simp only [beq_eq_false_iff_ne, ne_eq]; intro hh; exact h3 ⟨hl, hh⟩
        · left; simpa using hl
      simp only [h3', hall', List.isEmpty_iff, h1, h2, decide_false, Bool.or_false, Bool.not_true,
        Bool.false_eq_true, if_false]
      constructor
      · intro h
        split at h
        · next hn => cases h; exact ⟨h1, by omega, hall, h3, rfl, hn⟩
        · cases h
      · rintro ⟨_, _, _, _, rfl, hn⟩
        simp [hn]
  · have hall' : cs.all isDigit = false := by
      rw [Bool.eq_false_iff, Ne, List.all_eq_true]; exact hall
    simp only [hall', Bool.not_false, Bool.or_true, if_true]
    constructor
    · intro h; cases h
    · rintro ⟨_, _, h, _⟩; exact absurd h hall

/-- `parseOctet` accepts only the canonical spelling of a number ≤ 255 -/
theorem parseOctet_some {cs : List Char} {n : Nat} (h : parseOctet cs = some n) :
    n ≤ 255 ∧ cs = canonOctet n := by
  rw [parseOctet_some_iff] at h
  obtain ⟨hne, hlen, hall, hz, hv, hn⟩ := h
  refine ⟨hn, ?_⟩
  rw [canonOctet_eq hn]
  match cs, hne, hlen, hall, hz, hv with
  | [c0], _, _, hall, _, hv =>
    have d0 := hall c0 (by simp)
    have l0 := decDigit_lt d0
    simp only [decValue, posValue, List.length_nil, Nat.pow_zero, Nat.mul_one, Nat.add_zero] at hv
    subst hv
    simp only [explicitOctet, l0, if_true, char_of_decDigit d0]
  | [c0, c1], _, _, hall, hz, hv =>
    have d0 := hall c0 (by simp)
    have d1 := hall c1 (by simp)
    have l0 := decDigit_lt d0
    have l1 := decDigit_lt d1
    have p0 : 1 ≤ decDigitVal c0 := decDigit_pos d0 (by
      intro e; apply hz; subst e; exact ⟨by simp, rfl⟩)
    simp only [decValue, posValue, List.length_nil, List.length_cons, Nat.pow_zero, Nat.mul_one,
      Nat.add_zero, Nat.zero_add, Nat.pow_one] at hv
    have a1 : ¬ n < 10 := by omega
    have a2 : n < 100 := by omega
    have e0 : n / 10 = decDigitVal c0 := by omega
    have e1 : n % 10 = decDigitVal c1 := by omega
    simp only [explicitOctet, a1, a2, if_true, if_false, e0, e1, char_of_decDigit d0,
      char_of_decDigit d1]
  | [c0, c1, c2], _, _, hall, hz, hv =>
    have d0 := hall c0 (by simp)
    have d1 := hall c1 (by simp)
    have d2 := hall c2 (by simp)
    have l0 := decDigit_lt d0
    have l1 := decDigit_lt d1
    have l2 := decDigit_lt d2
    have p0 : 1 ≤ decDigitVal c0 := decDigit_pos d0 (by
      intro e; apply hz; subst e; exact ⟨by simp, rfl⟩)
    simp only [decValue, posValue, List.length_nil, List.length_cons, Nat.pow_zero, Nat.mul_one,
      Nat.add_zero, Nat.zero_add, Nat.pow_one, Nat.reduceAdd, Nat.reducePow] at hv
    have a1 : ¬ n < 10 := by omega
    have a2 : ¬ n < 100 := by omega
    have e0 : n / 100 = decDigitVal c0 := by omega
    have e1 : n / 10 % 10 = decDigitVal c1 := by omega
    have e2 : n % 10 = decDigitVal c2 := by omega
    simp only [explicitOctet, a1, a2, if_false, e0, e1, e2, char_of_decDigit d0,
      char_of_decDigit d1, char_of_decDigit d2]
  | _ :: _ :: _ :: _ :: _, _, hlen, _, _, _ => simp at hlen

theorem parseOctet_range {cs : List Char} (hv : decValue cs > 255) :
    parseOctet cs = none := by
  cases hp : parseOctet cs with
  | none => rfl
  | some n =>
    rw [parseOctet_some_iff] at hp
    omega

theorem parseOctet_zero_padded {cs : List Char} (hl : cs.length > 1) (h0 : cs.head? = some '0') :
    parseOctet cs = none := by
  cases hp : parseOctet cs with
  | none => rfl
  | some n =>
    rw [parseOctet_some_iff] at hp
    exact absurd ⟨hl, h0⟩ hp.2.2.2.1

theorem parseOctet_zero_padded_spec {cs : List Char} (h : zeroPadded cs = true) :
    parseOctet cs = none := by
  simp only [zeroPadded, Bool.and_eq_true, decide_eq_true_eq, beq_iff_eq] at h
  exact parseOctet_zero_padded h.1 h.2

/-! ## `parseIpv4` -/

theorem quadValue_eq (a b c d : Nat) :
    a * 16777216 + b * 65536 + c * 256 + d = quadValue a b c d := rfl

theorem parseIpv4_parts {as bs cs ds : List Char}
    (ha : ∀ c ∈ as, isDec c = true) (hb : ∀ c ∈ bs, isDec c = true)
    (hc : ∀ c ∈ cs, isDec c = true) (hd : ∀ c ∈ ds, isDec c = true) :
    parseIpv4 (String.ofList (as ++ '.' :: (bs ++ '.' :: (cs ++ '.' :: ds)))) =
      (parseOctet as).bind fun a => (parseOctet bs).bind fun b =>
        (parseOctet cs).bind fun c => (parseOctet ds).bind fun d => some (quadValue a b c d) := by
  unfold parseIpv4
  rw [String.toList_ofList, splitOnDot_four ha hb hc hd]
  rfl

theorem parseIpv4_some {s : String} {n : Nat} (h : parseIpv4 s = some n) :
    ∃ a b c d, a ≤ 255 ∧ b ≤ 255 ∧ c ≤ 255 ∧ d ≤ 255 ∧
      s = quadText a b c d ∧ n = quadValue a b c d := by
  unfold parseIpv4 at h
  split at h
  · next as bs cs ds hs =>
    cases ha : parseOctet as with
    | none => simp [ha] at h
    | some a =>
    cases hb : parseOctet bs with
    | none => simp [ha, hb] at h
    | some b =>
    cases hc : parseOctet cs with
    | none => simp [ha, hb, hc] at h
    | some c =>
    cases hd : parseOctet ds with
    | none => simp [ha, hb, hc, hd] at h
    | some d =>
    simp only [ha, hb, hc, hd, Option.bind_eq_bind, Option.bind_some, Option.pure_def,
      Option.some.injEq] at h
    obtain ⟨a1, a2⟩ := parseOctet_some ha
    obtain ⟨b1, b2⟩ := parseOctet_some hb
    obtain ⟨c1, c2⟩ := parseOctet_some hc
    obtain ⟨d1, d2⟩ := parseOctet_some hd
    refine ⟨a, b, c, d, a1, b1, c1, d1, ?_, h.symm⟩
    have := eq_of_splitOnDot_four hs
    rw [a2, b2, c2, d2] at this
    rw [quadText, ← this, String.ofList_toList]
  · cases h

theorem canonOctet_dec {n : Nat} (h : n ≤ 255) : ∀ c ∈ canonOctet n, isDec c = true := by
  have := parseOctet_canon h
  rw [parseOctet_some_iff] at this
  exact this.2.2.1

theorem parseIpv4_canon {a b c d : Nat} (ha : a ≤ 255) (hb : b ≤ 255) (hc : c ≤ 255) (hd : d ≤ 255) :
    parseIpv4 (quadText a b c d) = some (quadValue a b c d) := by
  rw [quadText, parseIpv4_parts (canonOctet_dec ha) (canonOctet_dec hb) (canonOctet_dec hc)
    (canonOctet_dec hd), parseOctet_canon ha, parseOctet_canon hb, parseOctet_canon hc,
    parseOctet_canon hd]
  rfl

theorem bind_none_of_any {α β : Type} (x : Option α) (f : α → Option β) (h : ∀ a, f a = none) :
    x.bind f = none := by
  cases x with
  | none => rfl
  | some a => exact h a

theorem parseIpv4_none_of_octet {as bs cs ds : List Char}
    (ha : ∀ c ∈ as, isDec c = true) (hb : ∀ c ∈ bs, isDec c = true)
    (hc : ∀ c ∈ cs, isDec c = true) (hd : ∀ c ∈ ds, isDec c = true)
    (h : parseOctet as = none ∨ parseOctet bs = none ∨ parseOctet cs = none ∨ parseOctet ds = none) :
    parseIpv4 (String.ofList (as ++ '.' :: (bs ++ '.' :: (cs ++ '.' :: ds)))) = none := by
  rw [parseIpv4_parts ha hb hc hd]
  rcases h with h | h | h | h
  · rw [h]; rfl
  · apply bind_none_of_any; intro a; rw [h]; rfl
  · apply bind_none_of_any; intro a; apply bind_none_of_any; intro b; rw [h]; rfl
  · apply bind_none_of_any; intro a; apply bind_none_of_any; intro b
    apply bind_none_of_any; intro c; rw [h]; rfl

end Resynth.LitQuad
