import Resynth.Lemmas.ErrLocGroup
import Resynth.Lemmas.ErrLocFile
/-!
# The `k`-th statement `process_file` executes is built from the `k`-th `;`-terminated group of tokens

`fileToks src`: the tokens the lexer delivers for the file, line after line, up to the first line that
cannot be decoded or lexed.  `InGroup toks k l`: `l` is the position of a token of `toks` that has exactly
`k` tokens `;` before it.
-/
namespace Resynth
open LR

/-- the tokens of the lines, in order, up to the first line that does not decode or lex -/
def lexedToks (pending : Option String) (lno : Nat) : List Bytes → List Tok
  | [] => []
  | raw :: rest =>
    match utf8Decode raw with
    | none => []
    | some ln =>
      match Lex.line lno pending ln with
      | .error _ => []
      | .ok lo => lo.toks ++ lexedToks lo.pending (lno + 1) rest

/-- the token stream of a file (what the parser is fed, before the end-of-input tokens) -/
def fileToks (src : Bytes) : List Tok := lexedToks none 1 (splitLines src)

/-- `l` is the position of a token with exactly `k` tokens `;` before it: a token of the `k`-th
(0-based) `;`-terminated group -/
def InGroup (toks : List Tok) (k : Nat) (l : Loc) : Prop :=
  ∃ (i : Nat) (t : Tok), toks[i]? = some t ∧ t.loc = l ∧ semis (toks.take i) = k

theorem feedToks_I2 (P : Nat → Loc → Prop) (base : Nat) : ∀ (ts : List Tok) (c c' : Cfg),
    Inv c.state c.stack → I2 P base c →
    (∀ (j : Nat) (t : Tok), ts[j]? = some t → P (idx base c + semis (ts.take j)) t.loc) →
    feedToks c ts = .ok c' →
    Inv c'.state c'.stack ∧ I2 P base c' ∧ idx base c' = idx base c + semis ts
  | [], c, c', hi, hI, _, h => by
    simp only [feedToks, Except.ok.injEq] at h
    subst h; exact ⟨hi, hI, by simp [semis_nil]⟩
  | t :: ts, c, c', hi, hI, ht, h => by
    simp only [feedToks] at h
    cases hf : feed c t with
    | panic => simp [hf] at h
    | parseError => simp [hf] at h
    | ok c1 =>
      simp only [hf] at h
      obtain ⟨hI1, hidx⟩ := feed_I2 P base c t hi hI (.inr (by simpa [semis_nil] using ht 0 t rfl)) hf
      obtain ⟨h1, h2, h3⟩ := feedToks_I2 P base ts c1 c' (feed_inv_ok hi hf) hI1
        (fun j t' hj => by
          have := ht (j + 1) t' (by simpa using hj)
          rw [List.take_succ_cons, semis_cons] at this
          rw [hidx]
          simpa [Nat.add_assoc] using this) h
      exact ⟨h1, h2, by rw [h3, hidx, semis_cons]; omega⟩

theorem getElem?_flatten_cons {α} (b : List α) (bs : List (List α)) (k : Nat) :
    (b :: bs).flatten[k]? = if k < b.length then b[k]? else bs.flatten[k - b.length]? := by
  rw [List.flatten_cons]
  split
  · next h => exact List.getElem?_append_left h
  · next h => exact List.getElem?_append_right (by omega)

/-- the front-end loop: the `k`-th statement handed over (counting from `base`) is built from tokens of
group `base + k` -/
theorem planLines_I2 (toks : List Tok) : ∀ (rest : List Bytes) (f : Front) (lno base : Nat) (fed : List Tok),
    Inv f.cfg.state f.cfg.stack → I2 (InGroup toks) base f.cfg → idx base f.cfg = semis fed →
    toks = fed ++ lexedToks f.pending lno rest →
    (∀ (k : Nat) (s : Stmt), (planLines f lno rest).1.flatten[k]? = some s → s.Good (InGroup toks (base + k))) ∧
    (∀ f', (planLines f lno rest).2 = .ok f' → Inv f'.cfg.state f'.cfg.stack ∧
      I2 (InGroup toks) (base + (planLines f lno rest).1.flatten.length) f'.cfg)
  | [], f, lno, base, fed, hi, hI, _, _ => by
    simp only [planLines, List.flatten_nil, List.getElem?_nil, reduceCtorEq, false_imp_iff, implies_true,
      Except.ok.injEq, true_and, List.length_nil, Nat.add_zero]
    rintro f' rfl
    exact ⟨hi, hI⟩
  | raw :: rest, f, lno, base, fed, hi, hI, hidx, htoks => by
    simp only [planLines]
    cases h1 : utf8Decode raw with
    | none => simp
    | some ln =>
      simp only []
      cases h2 : Lex.line lno f.pending ln with
      | error col => simp
      | ok lo =>
        simp only []
        cases h3 : feedToks f.cfg lo.toks with
        | error ol => cases ol <;> simp
        | ok cfg =>
          simp only []
          simp only [lexedToks, h1, h2] at htoks
          obtain ⟨hi1, hI1, hidx1⟩ := feedToks_I2 (InGroup toks) base lo.toks f.cfg cfg hi hI
            (fun j t hj => by
              refine ⟨fed.length + j, t, ?_, rfl, ?_⟩
              · rw [htoks, List.getElem?_append_right (by omega), Nat.add_sub_cancel_left,
                  List.getElem?_append_left (by
                    rcases Nat.lt_or_ge j lo.toks.length with h | h
                    · exact h
                    · rw [List.getElem?_eq_none h] at hj; cases hj)]
                exact hj
              · rw [htoks, List.take_append, List.take_of_length_le (by omega), semis_append, hidx,
                  Nat.add_sub_cancel_left, List.take_append, semis_append]
                have : j - lo.toks.length = 0 := by
                  rcases Nat.lt_or_ge j lo.toks.length with h | h
                  · omega
                  · rw [List.getElem?_eq_none h] at hj; cases hj
                rw [this, List.take_zero, semis_nil]
                omega) h3
          obtain ⟨hs, hI2, hidx2⟩ := takeResults_I2 (InGroup toks) base cfg hI1
          have ih := planLines_I2 toks rest ⟨lo.pending, ⟨lno, lo.endCol⟩, cfg.takeResults.2⟩ (lno + 1)
            (base + cfg.stmts.length) (fed ++ lo.toks) hi1 hI2
            (by rw [hidx2, hidx1, hidx, semis_append]) (by rw [htoks, List.append_assoc])
          constructor
          · intro k s hk
            rw [getElem?_flatten_cons] at hk
            split at hk
            · exact hs k s hk
            · next hlt =>
              have := ih.1 _ s hk
              have e : base + cfg.stmts.length + (k - cfg.takeResults.1.length) = base + k := by
                have : cfg.takeResults.1.length = cfg.stmts.length := rfl
                omega
              rw [e] at this
              exact this
          · intro f' hf'
            have := ih.2 f' hf'
            have e : base + cfg.stmts.length +
                (planLines ⟨lo.pending, ⟨lno, lo.endCol⟩, cfg.takeResults.2⟩ (lno + 1) rest).1.flatten.length =
                base + (cfg.takeResults.1 :: (planLines ⟨lo.pending, ⟨lno, lo.endCol⟩, cfg.takeResults.2⟩ (lno + 1) rest).1).flatten.length := by
              have : cfg.takeResults.1.length = cfg.stmts.length := rfl
              simp only [List.flatten_cons, List.length_append]
              omega
            rw [e] at this
            exact this

/-- **the `k`-th statement `process_file` executes is built from the tokens of the `k`-th
`;`-terminated group of the file's token stream** -/
theorem planOf_group (src : Bytes) (k : Nat) (s : Stmt) (h : (planOf src).batches.flatten[k]? = some s) :
    s.Good (InGroup (fileToks src) k) := by
  have hpl := planLines_I2 (fileToks src) (splitLines src) ⟨none, Loc.nil, Cfg.init⟩ 1 0 []
    Inv_init (I2_init _) (by simp [idx, Cfg.init, pending, semis_nil]) (by simp [fileToks])
  simp only [Nat.zero_add] at hpl
  unfold planOf at h
  simp only [] at h
  cases hr : (planLines ⟨none, Loc.nil, Cfg.init⟩ 1 (splitLines src)).2 with
  | error o => simp only [hr] at h; exact hpl.1 k s h
  | ok f =>
    obtain ⟨hi, hI⟩ := hpl.2 f hr
    simp only [hr] at h
    cases hp : feedPending f with
    | parseError => simp only [hp] at h; exact hpl.1 k s h
    | panic => simp only [hp] at h; exact hpl.1 k s h
    | ok cfg0 =>
      simp only [hp] at h
      cases he : feed cfg0 eofTok with
      | parseError => simp only [he] at h; exact hpl.1 k s h
      | panic => simp only [he] at h; exact hpl.1 k s h
      | ok cfg =>
        simp only [he] at h
        unfold feedPending at hp
        cases hfin : Lex.finish f.pending f.lexLoc with
        | some t =>
          simp only [hfin] at hp
          exact absurd he (feed_str_then_eof f.cfg cfg0 t (finish_kind hfin) hi hp cfg)
        | none =>
          simp only [hfin] at hp
          cases hp
          obtain ⟨hI', _⟩ := feed_I2 _ _ f.cfg eofTok hi hI (.inl rfl) he
          rw [List.flatten_append] at h
          rcases Nat.lt_or_ge k (planLines ⟨none, Loc.nil, Cfg.init⟩ 1 (splitLines src)).1.flatten.length with hlt | hge
          · rw [List.getElem?_append_left hlt] at h; exact hpl.1 k s h
          · rw [List.getElem?_append_right hge] at h
            simp only [List.flatten_cons, List.flatten_nil, List.append_nil] at h
            have := hI'.stmts _ s h
            have e : (planLines ⟨none, Loc.nil, Cfg.init⟩ 1 (splitLines src)).1.flatten.length +
                (k - (planLines ⟨none, Loc.nil, Cfg.init⟩ 1 (splitLines src)).1.flatten.length) = k := by omega
            rw [e] at this
            exact this

end Resynth
