import Resynth.Lemmas.LRStep
/-! # `feed` never panics on configurations satisfying the invariant -/
namespace Resynth.LR

theorem step_inv (c : Cfg) (t : Tok) (h : Inv c.state c.stack) :
    StepOk c.state c.stack (step c t) := by
  obtain ⟨st, s, ss⟩ := c
  obtain ⟨k, txt, loc⟩ := t
  cases st
  case initial => exact si_initial s ss k txt loc h
  case import_ => exact si_import_ s ss k txt loc h
  case importEnd => exact si_importEnd s ss k txt loc h
  case reduceImport => exact si_reduceImport s ss k txt loc h
  case let_ => exact si_let_ s ss k txt loc h
  case assign => exact si_assign s ss k txt loc h
  case refComponent => exact si_refComponent s ss k txt loc h
  case reduceModule => exact si_reduceModule s ss k txt loc h
  case refModule => exact si_refModule s ss k txt loc h
  case reduceObject => exact si_reduceObject s ss k txt loc h
  case reduceRefCall => exact si_reduceRefCall s ss k txt loc h
  case reduceRefNaked => exact si_reduceRefNaked s ss k txt loc h
  case refObject => exact si_refObject s ss k txt loc h
  case refObjEnd => exact si_refObjEnd s ss k txt loc h
  case reduceCall => exact si_reduceCall s ss k txt loc h
  case reduceArg => exact si_reduceArg s ss k txt loc h
  case argNext => exact si_argNext s ss k txt loc h
  case exprArg => exact si_exprArg s ss k txt loc h
  case argName => exact si_argName s ss k txt loc h
  case argVal => exact si_argVal s ss k txt loc h
  case exprStmt => exact si_exprStmt s ss k txt loc h
  case expr => exact si_expr s ss k txt loc h
  case exprRvalue => exact si_exprRvalue s ss k txt loc h
  case ipv4 => exact si_ipv4 s ss k txt loc h
  case ipv4Colon => exact si_ipv4Colon s ss k txt loc h
  case reduceLiteralExpr => exact si_reduceLiteralExpr s ss k txt loc h
  case reduceRefExpr => exact si_reduceRefExpr s ss k txt loc h
  case reduceCallExpr => exact si_reduceCallExpr s ss k txt loc h
  case slash => exact si_slash s ss k txt loc h
  case reduceExpr => exact si_reduceExpr s ss k txt loc h
  case reduceSockAddr => exact si_reduceSockAddr s ss k txt loc h
  case exprStmtEnd => exact si_exprStmtEnd s ss k txt loc h
  case assignStmtEnd => exact si_assignStmtEnd s ss k txt loc h
  case reduceBop => exact si_reduceBop s ss k txt loc h
  case reduceAssign => exact si_reduceAssign s ss k txt loc h
  case reduceExprStmt => exact si_reduceExprStmt s ss k txt loc h
  case reduceAssignStmt => exact si_reduceAssignStmt s ss k txt loc h
  case reduceStmt => exact si_reduceStmt s ss k txt loc h
  case accept => exact si_accept s ss k txt loc h

/-- what `feed` guarantees -/
def FeedOk : Res Cfg → Prop
  | .ok c' => Inv c'.state c'.stack
  | .parseError => True
  | .panic => False

theorem feedAux_inv (fuel : Nat) (c : Cfg) (t : Tok) (h : Inv c.state c.stack)
    (hf : c.stack.length + rank c.state < fuel) : FeedOk (feedAux fuel c t) := by
  induction fuel generalizing c with
  | zero => omega
  | succ n ih =>
    have hs := step_inv c t h
    unfold feedAux
    cases hst : step c t with
    | parseError => simp [FeedOk]
    | panic => simp [hst, StepOk] at hs
    | ok r =>
      obtain ⟨c', b⟩ := r
      cases b with
      | true => simpa [hst, StepOk, FeedOk] using hs
      | false =>
        simp only [hst, StepOk] at hs
        exact ih c' hs.1 (by omega)

theorem feed_inv (c : Cfg) (t : Tok) (h : Inv c.state c.stack) : FeedOk (feed c t) :=
  feedAux_inv _ c t h (by have := rank_le c.state; omega)

theorem Inv_init : Inv Cfg.init.state Cfg.init.stack := by simp [Cfg.init, Inv]

/-- what `feedList` guarantees -/
def RunOk : Run → Prop
  | .done c' => Inv c'.state c'.stack
  | .parseError _ => True
  | .panic _ => False

theorem feedList_inv (c : Cfg) (i : Nat) (ts : List Tok) (h : Inv c.state c.stack) :
    RunOk (feedList c i ts) := by
  induction ts generalizing c i with
  | nil => simpa [feedList, RunOk] using h
  | cons t ts ih =>
    have hf := feed_inv c t h
    unfold feedList
    cases hft : feed c t with
    | ok c' => simp only [hft, FeedOk] at hf; exact ih c' (i + 1) hf
    | parseError => simp [RunOk]
    | panic => simp [hft, FeedOk] at hf

end Resynth.LR
