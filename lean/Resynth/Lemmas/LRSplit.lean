import Resynth.Model.LR
/-!
# The statement vector is write-only: `get_results` between lines changes nothing

`feed` only ever appends to `Parser::stmts`, and never looks at it.  Hence feeding line by line
with `get_results` after each line yields the same statements and the same error position as
feeding all tokens at once.
-/
namespace Resynth.LR

def Res.map {α β} (f : α → β) : Res α → Res β
  | .ok a => .ok (f a) | .parseError => .parseError | .panic => .panic

instance : LawfulMonad Res := LawfulMonad.mk' Res
  (id_map := fun x => by cases x <;> rfl)
  (pure_bind := fun _ _ => rfl)
  (bind_assoc := fun x _ _ => by cases x <;> rfl)

theorem Res.map_bind {α β γ} (x : Res α) (f : α → Res β) (g : β → γ) :
    Res.map g (x >>= f) = x >>= (fun a => Res.map g (f a)) := by cases x <;> rfl

/-- the same parser with `pre` in front of its finished statements -/
def Cfg.prepend (pre : List Stmt) (c : Cfg) : Cfg := { c with stmts := pre ++ c.stmts }

theorem step_prepend (pre : List Stmt) (st : State) (s : Stack) (ss : List Stmt) (t : Tok) :
    step ⟨st, s, pre ++ ss⟩ t = Res.map (fun r => (r.1.prepend pre, r.2)) (step ⟨st, s, ss⟩ t) := by
  cases st
  case reduceStmt =>
    simp only [step, dispatch]
    split <;> simp [Res.map, bind, Cfg.prepend, pure]
  case accept => rfl
  all_goals (
    simp only [step, dispatch]
    simp only [bind_assoc, Res.map_bind]
    congr 1 <;> (try (funext x; obtain ⟨a, s'⟩ := x; cases a <;> rfl)))

theorem feedAux_prepend (pre : List Stmt) (fuel : Nat) (c : Cfg) (t : Tok) :
    feedAux fuel (c.prepend pre) t = Res.map (Cfg.prepend pre) (feedAux fuel c t) := by
  induction fuel generalizing c with
  | zero => rfl
  | succ n ih =>
    obtain ⟨st, s, ss⟩ := c
    simp only [feedAux, Cfg.prepend, step_prepend]
    cases h : step ⟨st, s, ss⟩ t with
    | parseError => rfl
    | panic => rfl
    | ok r =>
      obtain ⟨c', b⟩ := r
      cases b with
      | true => rfl
      | false => simpa [Res.map, Cfg.prepend] using ih c'

theorem feed_prepend (pre : List Stmt) (c : Cfg) (t : Tok) :
    feed (c.prepend pre) t = Res.map (Cfg.prepend pre) (feed c t) :=
  feedAux_prepend pre _ c t

def Run.map (f : Cfg → Cfg) : Run → Run
  | .done c => .done (f c) | .parseError i => .parseError i | .panic i => .panic i

theorem feedList_prepend (pre : List Stmt) (c : Cfg) (i : Nat) (ts : List Tok) :
    feedList (c.prepend pre) i ts = Run.map (Cfg.prepend pre) (feedList c i ts) := by
  induction ts generalizing c i with
  | nil => rfl
  | cons t ts ih =>
    simp only [feedList, feed_prepend]
    cases h : feed c t with
    | ok c' => simpa [Res.map] using ih c' (i + 1)
    | parseError => rfl
    | panic => rfl

theorem feedList_append (c : Cfg) (i : Nat) (a b : List Tok) :
    feedList c i (a ++ b) =
      match feedList c i a with
      | .done c' => feedList c' (i + a.length) b
      | .parseError j => .parseError j
      | .panic j => .panic j := by
  induction a generalizing c i with
  | nil => simp [feedList]
  | cons t a ih =>
    simp only [List.cons_append, feedList]
    cases h : feed c t with
    | ok c' => simp only [ih]; simp [Nat.add_assoc, Nat.add_comm 1]
    | parseError => rfl
    | panic => rfl

/-- the outcome of feeding `ts` and then `EOF` from configuration `c` -/
def finish (c : Cfg) (i : Nat) (ts : List Tok) : Outcome :=
  match feedList c i (ts ++ [eofTok]) with
  | .done c' => .ok c'.stmts
  | .parseError j => .parseError j
  | .panic j => .panic j

theorem parseLinesAux_eq (lines : List (List Tok)) : ∀ (c : Cfg) (i : Nat) (acc : List Stmt),
    c.stmts = [] → parseLinesAux c i acc lines = finish (c.prepend acc) i lines.flatten := by
  induction lines with
  | nil =>
    intro c i acc hc
    simp only [parseLinesAux, finish, List.flatten_nil, List.nil_append, feedList_prepend]
    cases feedList c i [eofTok] <;> simp [Run.map, Cfg.prepend, Cfg.takeResults]
  | cons l ls ih =>
    intro c i acc hc
    simp only [parseLinesAux, finish, List.flatten_cons, List.append_assoc]
    rw [feedList_append, feedList_prepend]
    cases h : feedList c i l with
    | done c' =>
      simp only [Run.map]
      rw [ih _ _ _ (by simp [Cfg.takeResults])]
      simp [finish, Cfg.prepend, Cfg.takeResults]
    | parseError j => simp [Run.map]
    | panic j => simp [Run.map]

theorem parseLines_eq_parseAll (lines : List (List Tok)) :
    parseLines lines = parseAll lines.flatten := by
  unfold parseLines
  rw [parseLinesAux_eq lines Cfg.init 0 [] rfl]
  simp only [finish, parseAll, Cfg.prepend, Cfg.init, List.nil_append, Cfg.takeResults]
  cases feedList _ _ _ <;> rfl

end Resynth.LR
