import Resynth.Lemmas.LREquiv
import Resynth.Lemmas.LRSplit
import Resynth.Lemmas.LRGrammarComplete
/-!
# Every reachable configuration can be completed to a sentence

`completion c` is an explicit token sequence that, fed to the reference parser resumed at the
configuration `c`, ends in acceptance.  Together with `lr_eq_spec` this shows that the automaton
only ever reports an error when the tokens read so far are still a viable prefix.
-/
namespace Resynth.LR
open Resynth.Spec

def tk (k : TokKind) (s : String := "") : Tok := ⟨k, s, Loc.nil⟩

/-- the closing tokens owed by the contexts on the stack, then `;` and `EOF` -/
def closeCtx : Stack → List Tok
  | [.st .exprStmtEnd] => [tk .semi, tk .eof]
  | [.st .assignStmtEnd, .assignTo _, .loc _] => [tk .semi, tk .eof]
  | .st .reduceBop :: .slash :: .expr _ :: c => closeCtx c
  | .st .reduceArg :: .argName _ :: .argList _ :: .obj _ :: c => tk .rparen :: closeCtx c
  | _ => []

def IsOk (r : R) : Prop := ∃ ss, r = .ok ss

theorem closeCtx_head {c} (h : ECtx c) :
    ∃ t ts, closeCtx c = t :: ts ∧ (t.kind = .semi ∨ t.kind = .rparen) := by
  induction h with
  | stmt => exact ⟨_, _, rfl, .inl rfl⟩
  | asg => exact ⟨_, _, rfl, .inl rfl⟩
  | arg n l o _ _ => exact ⟨_, _, rfl, .inr rfl⟩
  | bop e _ ih => simpa [closeCtx] using ih

theorem isOk_close {c} (h : ECtx c) : ∀ ss e,
    IsOk (kExpr ss c e (closeCtx c)) ∧ IsOk (kSlashTail (kExpr ss c) e (closeCtx c)) := by
  induction h with
  | stmt =>
    intro ss e
    simp [IsOk, kExpr, closeCtx, kSlashTail, rStmtEnd, expect, tk, sProgram]
  | asg l t =>
    intro ss e
    simp [IsOk, kExpr, closeCtx, kSlashTail, rStmtEnd, expect, tk, sProgram]
  | @arg c n l o hc ih =>
    intro ss e
    have h1 : IsOk (kExpr ss (.st .reduceArg :: .argName n :: .argList l :: .obj o :: c) e
        (tk .rparen :: closeCtx c)) := by
      simp only [kExpr]
      rw [rArgNext_rparen (by rfl)]
      exact (ih ss _).2
    exact ⟨h1, by simpa [kSlashTail, closeCtx, tk] using h1⟩
  | @bop c a hc ih =>
    intro ss e
    obtain ⟨t, ts, hct, hk⟩ := closeCtx_head hc
    have h1 : IsOk (kExpr ss (.st .reduceBop :: .slash :: .expr a :: c) e (closeCtx c)) := by
      simp only [kExpr]; exact (ih ss _).1
    refine ⟨by simpa [closeCtx] using h1, ?_⟩
    simp only [closeCtx]
    rw [hct] at h1 ⊢
    rcases hk with hk | hk <;> simpa [kSlashTail, hk] using h1

theorem isOk_kExpr {c} (h : ECtx c) (ss e) : IsOk (kExpr ss c e (closeCtx c)) := (isOk_close h ss e).1
theorem isOk_kSlash {c} (h : ECtx c) (ss e) : IsOk (kSlashTail (kExpr ss c) e (closeCtx c)) :=
  (isOk_close h ss e).2

theorem isOk_colons {c} (h : ECtx c) (ss p x) : IsOk (rColons (kExpr ss c) p x (closeCtx c)) := by
  obtain ⟨t, ts, hct, hk⟩ := closeCtx_head h
  have := isOk_kSlash h ss (.ref ⟨p.loc, p.module, p.object ++ [x]⟩)
  rw [hct] at this ⊢
  rcases hk with hk | hk <;> (rw [rColons_other (by simp [hk]) (by simp [hk]) (by simp [hk])]; exact this)

theorem isOk_dots {c} (h : ECtx c) (ss p x) : IsOk (rDots (kExpr ss c) p x (closeCtx c)) := by
  obtain ⟨t, ts, hct, hk⟩ := closeCtx_head h
  have := isOk_kSlash h ss (.ref ⟨p.loc, p.module, p.object ++ [x]⟩)
  rw [hct] at this ⊢
  rcases hk with hk | hk <;> (rw [rDots_other (by simp [hk]) (by simp [hk])]; exact this)

theorem isOk_ipv4 {c} (h : ECtx c) (ss l a) : IsOk (rIpv4 (kExpr ss c) l a (closeCtx c)) := by
  obtain ⟨t, ts, hct, hk⟩ := closeCtx_head h
  have := isOk_kSlash h ss (.lit l (.ip4 a))
  rw [hct] at this ⊢
  rcases hk with hk | hk <;> simpa [rIpv4, hk] using this

/-- an argument `x` followed by `)` closes a call -/
theorem isOk_argIdent {c} (h : ECtx c) (ss : List Stmt) (o : ObjRef) (l : Args) (n : Option String)
    (loc : Loc) (x : String) :
    IsOk (andThen (sExpr (⟨.ident, x, loc⟩ :: tk .rparen :: closeCtx c))
      (fun e rest => rArgNext (kExpr ss c) o (l.snoc n e) rest)) := by
  rw [sExpr_ident (by rfl), rColons_other (by simp [tk]) (by simp [tk]) (by simp [tk])]
  simp only [kSlashTail, tk, reduceCtorEq, ↓reduceIte]
  rw [rArgNext_rparen (by rfl)]
  exact isOk_kSlash h ss _

theorem portOfToken_zero : portOfToken (tk .intLit "0") = some 0 := by decide

/-- tokens completing the sentence from a configuration -/
def completion (c : Cfg) : List Tok :=
  match c.state, c.stack with
  | .initial, _ => [tk .eof]
  | .import_, _ => [tk .ident "x", tk .semi, tk .eof]
  | .importEnd, _ => [tk .semi, tk .eof]
  | .reduceImport, _ => [tk .eof]
  | .let_, _ => [tk .ident "x", tk .equals, tk .ident "x", tk .semi, tk .eof]
  | .assign, _ => [tk .equals, tk .ident "x", tk .semi, tk .eof]
  | .exprRvalue, _ => [tk .ident "x", tk .semi, tk .eof]
  | .exprStmt, _ => [tk .ident "x", tk .semi, tk .eof]
  | .expr, c => tk .ident "x" :: closeCtx c
  | .refComponent, _ :: _ :: c => closeCtx c
  | .reduceModule, _ :: _ :: c => tk .ident "x" :: closeCtx c
  | .refModule, _ :: c => tk .ident "x" :: closeCtx c
  | .reduceObject, _ :: _ :: c => tk .ident "x" :: closeCtx c
  | .refObject, _ :: c => tk .ident "x" :: closeCtx c
  | .refObjEnd, _ :: _ :: c => closeCtx c
  | .reduceRefCall, _ :: _ :: c => tk .rparen :: closeCtx c
  | .reduceRefNaked, _ :: _ :: c => closeCtx c
  | .reduceRefExpr, _ :: c => closeCtx c
  | .exprArg, _ :: _ :: c => tk .rparen :: closeCtx c
  | .argNext, _ :: _ :: c => tk .rparen :: closeCtx c
  | .argName, _ :: _ :: _ :: c => tk .rparen :: closeCtx c
  | .argVal, _ :: _ :: _ :: c => tk .ident "x" :: tk .rparen :: closeCtx c
  | .reduceArg, _ :: _ :: _ :: _ :: c => tk .rparen :: closeCtx c
  | .reduceCall, _ :: _ :: _ :: c => closeCtx c
  | .reduceCallExpr, _ :: c => closeCtx c
  | .ipv4, _ :: _ :: c => closeCtx c
  | .ipv4Colon, _ :: _ :: c => tk .intLit "0" :: closeCtx c
  | .reduceSockAddr, _ :: _ :: _ :: _ :: c => closeCtx c
  | .reduceLiteralExpr, _ :: _ :: c => closeCtx c
  | .slash, _ :: c => closeCtx c
  | .reduceExpr, _ :: c => closeCtx c
  | .reduceBop, _ :: _ :: _ :: c => closeCtx c
  | .exprStmtEnd, _ => [tk .semi, tk .eof]
  | .reduceExprStmt, _ => [tk .eof]
  | .assignStmtEnd, _ => [tk .semi, tk .eof]
  | .reduceAssign, _ => [tk .eof]
  | .reduceAssignStmt, _ => [tk .eof]
  | .reduceStmt, _ => [tk .eof]
  | _, _ => []

theorem isOk_ok (ss : List Stmt) : IsOk (.ok ss) := ⟨ss, rfl⟩

theorem isOk_exprIdent {c} (h : ECtx c) (ss : List Stmt) :
    IsOk (andThen (sExpr (tk .ident "x" :: closeCtx c)) (kExpr ss c)) := by
  rw [sExpr_ident (by rfl)]; exact isOk_colons h ss _ _

theorem isOk_stmtIdent (k : Expr → List Tok → R)
    (hk : ∀ e, IsOk (k e [tk .semi, tk .eof])) :
    IsOk (andThen (sExpr [tk .ident "x", tk .semi, tk .eof]) k) := by
  rw [sExpr_ident (by rfl), rColons_other (by simp [tk]) (by simp [tk]) (by simp [tk])]
  simpa [kSlashTail, tk] using hk _

theorem resume_completion (c : Cfg) (h : Inv c.state c.stack) : IsOk (resume c (completion c)) := by
  obtain ⟨st, s, ss⟩ := c
  have hstmt : ∀ (ss : List Stmt) (s : Stmt), IsOk (rStmtEnd ss s [tk .semi, tk .eof]) := by
    intro ss s; simp [IsOk, rStmtEnd, expect, tk, sProgram]
  cases st <;> simp only [Inv] at h
  case initial => subst h; simp [resume, completion, IsOk, tk, sProgram]
  case import_ => subst h; simpa [resume, completion, expect, tk] using hstmt _ _
  case importEnd => (split at h <;> try contradiction); simpa [resume, completion] using hstmt _ _
  case reduceImport => (split at h <;> try contradiction); simp [resume, completion, IsOk, tk, sProgram]
  case let_ =>
    subst h
    simp only [resume, completion, expect, tk, ↓reduceIte, andThen'_ok, rRvalue]
    exact isOk_stmtIdent _ (fun e => by simpa [kExpr, tk] using hstmt _ _)
  case assign =>
    (split at h <;> try contradiction)
    simp only [resume, completion, expect, tk, ↓reduceIte, andThen'_ok, rRvalue]
    exact isOk_stmtIdent _ (fun e => by simpa [kExpr, tk] using hstmt _ _)
  case exprRvalue =>
    (split at h <;> try contradiction)
    simp only [resume, completion, rRvalue]
    exact isOk_stmtIdent _ (fun e => by simpa [kExpr, tk] using hstmt _ _)
  case exprStmt =>
    subst h
    simp only [resume, completion]
    exact isOk_stmtIdent _ (fun e => by simpa [kExpr, tk] using hstmt _ _)
  case expr => simpa [resume, completion] using isOk_exprIdent h ss
  case refComponent => (split at h <;> try contradiction); simpa [resume, completion] using isOk_colons h ss _ _
  case reduceModule =>
    (split at h <;> try contradiction)
    simpa [resume, completion, rRefModule, tk] using isOk_colons h ss _ _
  case refModule =>
    (split at h <;> try contradiction)
    simpa [resume, completion, rRefModule, tk] using isOk_colons h ss _ _
  case reduceObject =>
    (split at h <;> try contradiction)
    simpa [resume, completion, rRefObject, tk] using isOk_dots h ss _ _
  case refObject =>
    (split at h <;> try contradiction)
    simpa [resume, completion, rRefObject, tk] using isOk_dots h ss _ _
  case refObjEnd => (split at h <;> try contradiction); simpa [resume, completion] using isOk_dots h ss _ _
  case reduceRefCall =>
    (split at h <;> try contradiction)
    simp only [resume, completion]; rw [rArgs_rparen (by rfl)]; exact isOk_kSlash h ss _
  case reduceRefNaked => (split at h <;> try contradiction); simpa [resume, completion] using isOk_kSlash h ss _
  case reduceRefExpr => (split at h <;> try contradiction); simpa [resume, completion] using isOk_kSlash h ss _
  case exprArg =>
    (split at h <;> try contradiction)
    simp only [resume, completion]; rw [rArgs_rparen (by rfl)]; exact isOk_kSlash h ss _
  case argNext =>
    (split at h <;> try contradiction)
    simp only [resume, completion]; rw [rArgNext_rparen (by rfl)]; exact isOk_kSlash h ss _
  case argName =>
    (split at h <;> try contradiction)
    simp only [resume, completion, rArgName, tk, reduceCtorEq, ↓reduceIte]
    exact isOk_argIdent h ss _ _ _ _ _
  case argVal =>
    (split at h <;> try contradiction)
    simp only [resume, completion, rArgVal, tk, reduceCtorEq, ↓reduceIte]
    exact isOk_argIdent h ss _ _ _ _ _
  case reduceArg =>
    (split at h <;> try contradiction)
    simp only [resume, completion]; rw [rArgNext_rparen (by rfl)]; exact isOk_kSlash h ss _
  case reduceCall => (split at h <;> try contradiction); simpa [resume, completion] using isOk_kSlash h ss _
  case reduceCallExpr => (split at h <;> try contradiction); simpa [resume, completion] using isOk_kSlash h ss _
  case ipv4 => (split at h <;> try contradiction); simpa [resume, completion] using isOk_ipv4 h ss _ _
  case ipv4Colon =>
    (split at h <;> try contradiction)
    simpa [resume, completion, rPort, portOfToken_zero] using isOk_kSlash h ss _
  case reduceSockAddr =>
    (split at h <;> try contradiction)
    simpa [resume, completion] using isOk_kSlash h.2 ss _
  case reduceLiteralExpr => (split at h <;> try contradiction); simpa [resume, completion] using isOk_kSlash h ss _
  case slash => (split at h <;> try contradiction); simpa [resume, completion] using isOk_kSlash h ss _
  case reduceExpr => (split at h <;> try contradiction); simpa [resume, completion] using isOk_kExpr h ss _
  case reduceBop => (split at h <;> try contradiction); simpa [resume, completion] using isOk_kExpr h ss _
  case exprStmtEnd => (split at h <;> try contradiction); simpa [resume, completion] using hstmt _ _
  case reduceExprStmt => (split at h <;> try contradiction); simp [resume, completion, IsOk, tk, sProgram]
  case assignStmtEnd => (split at h <;> try contradiction); simpa [resume, completion] using hstmt _ _
  case reduceAssign => (split at h <;> try contradiction); simp [resume, completion, IsOk, tk, sProgram]
  case reduceAssignStmt => (split at h <;> try contradiction); simp [resume, completion, IsOk, tk, sProgram]
  case reduceStmt => (split at h <;> try contradiction); simp [resume, completion, IsOk, tk, sProgram]
  case accept => subst h; simp [resume, completion, IsOk]

/-! ### runs that end in an error -/

theorem feedList_done_resume (c : Cfg) (i : Nat) (pre : List Tok) (h : Inv c.state c.stack) :
    ∀ c', feedList c i pre = .done c' →
      (∀ rest, resume c (pre ++ rest) = resume c' rest) ∧ Inv c'.state c'.stack := by
  induction pre generalizing c i with
  | nil => intro c' hc; simp [feedList] at hc; subst hc; exact ⟨fun _ => rfl, h⟩
  | cons t pre ih =>
    intro c' hc
    simp only [feedList] at hc
    cases hf : feed c t with
    | ok c1 =>
      simp only [hf] at hc
      have hs := fun rest => feed_sim c t (pre ++ rest) h
      simp only [hf, FeedSim] at hs
      obtain ⟨h1, h2⟩ := ih c1 (i + 1) (hs []).2.1 c' hc
      exact ⟨fun rest => by rw [List.cons_append, (hs rest).1, h1], h2⟩
    | parseError => simp [hf] at hc
    | panic => simp [hf] at hc

/-- a run that reports an error at index `j` got through the first `j - i` tokens and failed at
the next one -/
theorem feedList_error_split (c : Cfg) (i : Nat) (ts : List Tok) (j : Nat)
    (h : feedList c i ts = .parseError j) :
    ∃ pre t post c', ts = pre ++ t :: post ∧ i + pre.length = j ∧
      feedList c i pre = .done c' ∧ feed c' t = .parseError := by
  induction ts generalizing c i with
  | nil => simp [feedList] at h
  | cons t ts ih =>
    simp only [feedList] at h
    cases hf : feed c t with
    | ok c1 =>
      simp only [hf] at h
      obtain ⟨pre, t', post, c', e1, e2, e3, e4⟩ := ih c1 (i + 1) h
      refine ⟨t :: pre, t', post, c', by simp [e1], by simp; omega, ?_, e4⟩
      simp [feedList, hf, e3]
    | parseError =>
      simp only [hf, Run.parseError.injEq] at h
      exact ⟨[], t, ts, c, rfl, by simpa using h, rfl, hf⟩
    | panic => simp [hf] at h

theorem program_ends_eof {ts ss} (h : Program ts ss) : ∃ w e, ts = w ++ [e] ∧ e.kind = .eof := by
  induction h with
  | eof he => exact ⟨[], _, rfl, he⟩
  | @cons ts0 _ _ _ _ _ ih => obtain ⟨w, e, rfl, he⟩ := ih; exact ⟨ts0 ++ w, e, by simp, he⟩

/-- the error is reported exactly at the end of a viable prefix -/
theorem viable_of_error (fed : List Tok) (i : Nat) (h : feedList Cfg.init 0 fed = .parseError i) :
    (∃ suffix ss, Program (fed.take i ++ suffix) ss) ∧
    (∀ rest ss, ¬ Program (fed.take (i + 1) ++ rest) ss) := by
  obtain ⟨pre, t, post, c', e1, e2, e3, e4⟩ := feedList_error_split _ _ _ _ h
  simp only [Nat.zero_add] at e2
  obtain ⟨hres, hinv⟩ := feedList_done_resume Cfg.init 0 pre Inv_init c' e3
  have htake : fed.take i = pre := by rw [e1, ← e2]; simp
  have htake1 : fed.take (i + 1) = pre ++ [t] := by
    rw [e1, ← e2, List.take_append]; simp [List.take_of_length_le]
  constructor
  · obtain ⟨ss, hok⟩ := resume_completion c' hinv
    rw [← hres, resume_init] at hok
    obtain ⟨ss', _, hp⟩ := sProgram_sound hok
    exact ⟨completion c', ss', by rw [htake]; exact hp⟩
  · intro rest ss hp
    rw [htake1] at hp
    obtain ⟨w, e, hw, he⟩ := program_ends_eof hp
    obtain ⟨ss', hcp, _⟩ := complete_program hp []
    have hsim := feedList_sim Cfg.init 0 w e he Inv_init
    have hrun : feedList Cfg.init 0 (w ++ [e]) = .parseError i := by
      rw [← hw, List.append_assoc, feedList_append, e3]
      simp [feedList, e4, e2]
    rw [hrun] at hsim
    simp only [RunSim] at hsim
    rw [resume_init, ← hw, hcp] at hsim
    simp at hsim

end Resynth.LR
