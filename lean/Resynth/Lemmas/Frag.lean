import Resynth.Model.Flows
import Resynth.Spec.Rfc791
/-!
# Lemmas for C07: decoding what `IpFrag` emits
-/
namespace Resynth

/-- drop the 14-byte Ethernet header of a framed packet -/
def stripEth (raw : Bool) (b : Bytes) : Bytes := if raw then b else b.drop 14

@[simp] theorem b8_toNat (n : Nat) : (b8 n).toNat = n % 256 := by
  simp [b8]

@[simp] theorem macOfIp_length (ip : Nat) : (macOfIp ip).length = 6 := by
  simp [macOfIp, be32]

theorem ethHdr_length (d s : Bytes) (p : Nat) (hd : d.length = 6) (hs : s.length = 6) :
    (ethHdr d s p).length = 14 := by
  simp [ethHdr, be16, hd, hs]

/-- header fields as the Rust types bound them -/
structure IpHdr.InRange (h : IpHdr) : Prop where
  ver : h.ihlVersion = 0x45
  id : h.id < 65536
  fragOff : h.fragOff < 65536
  ttl : h.ttl < 256
  protocol : h.protocol < 256
  saddr : h.saddr < 4294967296
  daddr : h.daddr < 4294967296

open Spec in
theorem decodeFrag_serialize (h : IpHdr) (data : Bytes) (hr : h.InRange)
    (hlen : h.totLen = 20 + data.length) (hfit : 20 + data.length ≤ 65535) :
    decodeFrag (h.serialize ++ data) = some
      { src := h.saddr, dst := h.daddr, proto := h.protocol, id := h.id, ttl := h.ttl
        evil := h.fragOff.testBit 15, df := h.fragOff.testBit 14, mf := h.fragOff.testBit 13
        offset := h.fragOff % 8192, data := data } := by
  obtain ⟨h1, h2, h3, h4, h5, h6, h7⟩ := hr
  simp only [IpHdr.serialize, be16, be32, List.cons_append, List.nil_append, decodeFrag, u16, u32,
    b8_toNat]
  have e16 : ∀ x, x < 65536 → x / 256 % 256 * 256 + x % 256 = x := by intro x hx; omega
  have e32 : ∀ x, x < 4294967296 →
      ((x / 16777216 % 256 * 256 + x / 65536 % 256) * 256 + x / 256 % 256) * 256 + x % 256 = x := by
    intro x hx; omega
  have ht : h.totLen < 65536 := by omega
  rw [e16 _ h2, e16 _ h3, e16 _ ht, e32 _ h6, e32 _ h7, Nat.mod_eq_of_lt h4, Nat.mod_eq_of_lt h5,
    h1, hlen]
  simp [b8]

/-- the flags/offset word written by `frag(off, mf)`: the context's evil/DF bits, MF as requested,
and the 13-bit offset -/
theorem fragWord (h : IpHdr) (off : Nat) (mf : Bool) (hoff : off < 8192) :
    ((h.setFragOff off).setMf mf).fragOff < 65536 ∧
    ((h.setFragOff off).setMf mf).fragOff.testBit 15 = h.fragOff.testBit 15 ∧
    ((h.setFragOff off).setMf mf).fragOff.testBit 14 = h.fragOff.testBit 14 ∧
    ((h.setFragOff off).setMf mf).fragOff.testBit 13 = mf ∧
    ((h.setFragOff off).setMf mf).fragOff % 8192 = off := by
  have o1 : off % 65536 = off := by omega
  have t13 : off.testBit 13 = false := Nat.testBit_lt_two_pow (by omega)
  have t14 : off.testBit 14 = false := Nat.testBit_lt_two_pow (by omega)
  have t15 : off.testBit 15 = false := Nat.testBit_lt_two_pow (by omega)
  have l1 : Nat.testBit 57344 15 = true := by decide
  have l2 : Nat.testBit 57344 14 = true := by decide
  have l3 : Nat.testBit 57344 13 = true := by decide
  have l4 : Nat.testBit 57343 15 = true := by decide
  have l5 : Nat.testBit 57343 14 = true := by decide
  have l6 : Nat.testBit 57343 13 = false := by decide
  have l7 : Nat.testBit 8192 15 = false := by decide
  have l8 : Nat.testBit 8192 14 = false := by decide
  have l9 : Nat.testBit 8192 13 = true := by decide
  have b1 : off ||| h.fragOff &&& 57344 < 2 ^ 16 :=
    Nat.or_lt_two_pow (by omega) (Nat.and_lt_two_pow _ (by omega))
  have m1 : (off ||| h.fragOff &&& 57344) % 2 ^ 13 = off := by
    rw [Nat.or_mod_two_pow, Nat.and_mod_two_pow]; simp; omega
  cases mf <;> simp only [IpHdr.setMf, IpHdr.setFlag, IpHdr.setFragOff, o1] <;>
    simp [Nat.testBit_or, Nat.testBit_and, t13, t14, t15, l1, l2, l3, l4, l5, l6, l7, l8, l9]
  · constructor
    · exact Nat.lt_of_le_of_lt Nat.and_le_left b1
    · show _ % 2 ^ 13 = off
      rw [Nat.and_mod_two_pow, m1]
      show off &&& 2 ^ 13 - 1 = off
      rw [Nat.and_two_pow_sub_one_eq_mod]; omega
  · constructor
    · exact Nat.or_lt_two_pow (n := 16) b1 (by omega)
    · show _ % 2 ^ 13 = off
      rw [Nat.or_mod_two_pow, m1]; simp

theorem stripEth_ipDgramFrag (h : IpHdr) (payload : Bytes) (raw : Bool) (off : Nat) (mf : Bool) :
    stripEth raw (ipDgramFrag h payload raw off mf) = ipDgramFrag h payload true off mf := by
  cases raw
  · have := ethHdr_length (macOfIp h.daddr) (macOfIp h.saddr) 0x0800 (by simp) (by simp)
    simp [stripEth, ipDgramFrag, List.append_assoc, this]
  · rfl

open Spec in
/-- what `IpDgram::new(h, payload, raw).frag(off, mf)` decodes to -/
theorem decodeFrag_ipDgramFrag (h : IpHdr) (payload : Bytes) (raw : Bool) (off : Nat) (mf : Bool)
    (hr : h.InRange) (hoff : off < 8192) (hfit : 20 + payload.length ≤ 65535) :
    decodeFrag (stripEth raw (ipDgramFrag h payload raw off mf)) = some
      { src := h.saddr, dst := h.daddr, proto := h.protocol, id := h.id, ttl := h.ttl
        evil := h.fragOff.testBit 15, df := h.fragOff.testBit 14, mf := mf
        offset := off, data := payload } := by
  rw [stripEth_ipDgramFrag]
  obtain ⟨w1, w2, w3, w4, w5⟩ :=
    fragWord { h with totLen := (payload.length % 65536 + 20) % 65536 } off mf hoff
  simp only [ipDgramFrag, if_true, List.nil_append]
  rw [decodeFrag_serialize _ payload]
  · simp only [IpHdr.calcCsum, w2, w3, w4, w5]
    simp [IpHdr.setMf, IpHdr.setFlag, IpHdr.setFragOff]
  · obtain ⟨h1, h2, h3, h4, h5, h6, h7⟩ := hr
    constructor <;> first | simpa [IpHdr.calcCsum] using w1 | simpa [IpHdr.calcCsum, IpHdr.setMf, IpHdr.setFlag, IpHdr.setFragOff]
  · simp [IpHdr.calcCsum, IpHdr.setMf, IpHdr.setFlag, IpHdr.setFragOff]; omega
  · exact hfit

/-- stdlib `ipv4::frag(src, dst, id:, evil:, df:, ttl:, proto:, *payload)`: default header, then
`set_id`, `set_evil`, `set_df`, `set_ttl`, `set_protocol`, `set_saddr`, `set_daddr` -/
def mkFragCtx (src dst id : Nat) (evil df : Bool) (ttl proto : Nat) (payload : Bytes) : IpFrag :=
  let h0 : IpHdr := {}
  let h1 : IpHdr := { h0 with id := id }
  let h2 := (h1.setEvil evil).setDf df
  { hdr := { h2 with ttl := ttl, protocol := proto, saddr := src, daddr := dst }, payload := payload }

theorem mkFragCtx_inRange (src dst id : Nat) (evil df : Bool) (ttl proto : Nat) (payload : Bytes)
    (hs : src < 4294967296) (hd : dst < 4294967296) (hi : id < 65536) (ht : ttl < 256)
    (hp : proto < 256) : (mkFragCtx src dst id evil df ttl proto payload).hdr.InRange := by
  refine ⟨?_, ?_, ?_, ?_, ?_, ?_, ?_⟩
  case refine_3 =>
    cases evil <;> cases df <;> simp [mkFragCtx, IpHdr.setEvil, IpHdr.setDf, IpHdr.setFlag]
  all_goals simp [mkFragCtx, IpHdr.setEvil, IpHdr.setDf, IpHdr.setFlag, *]

theorem mkFragCtx_evil (src dst id : Nat) (evil df : Bool) (ttl proto : Nat) (payload : Bytes) :
    (mkFragCtx src dst id evil df ttl proto payload).hdr.fragOff.testBit 15 = evil := by
  cases evil <;> cases df <;> simp [mkFragCtx, IpHdr.setEvil, IpHdr.setDf, IpHdr.setFlag] <;> decide

theorem mkFragCtx_df (src dst id : Nat) (evil df : Bool) (ttl proto : Nat) (payload : Bytes) :
    (mkFragCtx src dst id evil df ttl proto payload).hdr.fragOff.testBit 14 = df := by
  cases evil <;> cases df <;> simp [mkFragCtx, IpHdr.setEvil, IpHdr.setDf, IpHdr.setFlag] <;> decide

/-- the octets `[8*off, min (8*(off+len)) n)` of the payload (empty when `8*off` is beyond) -/
def fragSlice (payload : Bytes) (off len : Nat) : Bytes :=
  (payload.drop (8 * off)).take (min (8 * (off + len)) payload.length - 8 * off)

/-- the model's slice is the plain slice -/
theorem fragment_eq (f : IpFrag) (off len : Nat) (raw : Bool) :
    f.fragment off len raw =
      ipDgramFrag f.hdr (fragSlice f.payload off len) raw off
        (decide (min (8 * (off + len)) f.payload.length < f.payload.length)) := by
  simp only [IpFrag.fragment, fragSlice]
  have e1 : off * 8 + len * 8 = 8 * (off + len) := by omega
  rw [e1]
  congr 1
  · by_cases h : off * 8 ≤ min (8 * (off + len)) f.payload.length
    · rw [Nat.min_eq_left h, Nat.mul_comm off 8]
    · have h' : min (off * 8) (min (8 * (off + len)) f.payload.length) =
          min (8 * (off + len)) f.payload.length := by omega
      have h'' : min (8 * (off + len)) f.payload.length - 8 * off = 0 := by omega
      rw [h', h'']; simp
  · by_cases h : min (8 * (off + len)) f.payload.length = f.payload.length
    · simp [h]
    · have : min (8 * (off + len)) f.payload.length < f.payload.length := by omega
      simp [h, this]

theorem fragSlice_length (payload : Bytes) (off len : Nat) :
    (fragSlice payload off len).length = min (8 * (off + len)) payload.length - 8 * off := by
  simp [fragSlice]; omega

end Resynth
