import Resynth.Model.Csum
import Resynth.Spec.Net
/-!
# Internet checksum arithmetic: Model `sum16`/`csumFold` versus the Spec verifier
-/
namespace Resynth

/-! ## bytes -/

@[simp] theorem b8_toNat_mod (n : Nat) : (b8 n).toNat = n % 256 := by
  simp [b8]

theorem u8_lt (a : UInt8) : a.toNat < 256 := a.toNat_lt

theorem b8_mod (n : Nat) : b8 (n % 256) = b8 n := by
  apply UInt8.toNat_inj.mp; simp

theorem b8_congr {m n : Nat} (h : m % 256 = n % 256) : b8 m = b8 n := by
  apply UInt8.toNat_inj.mp; simpa using h

theorem be16_mod (n : Nat) : be16 (n % 65536) = be16 n := by
  unfold be16
  congr 1
  · apply b8_congr; omega
  · congr 1; apply b8_congr; omega

theorem be32_mod (n : Nat) : be32 (n % 4294967296) = be32 n := by
  unfold be32
  have h1 : b8 (n % 4294967296 / 16777216) = b8 (n / 16777216) := by apply b8_congr; omega
  have h2 : b8 (n % 4294967296 / 65536) = b8 (n / 65536) := by apply b8_congr; omega
  have h3 : b8 (n % 4294967296 / 256) = b8 (n / 256) := by apply b8_congr; omega
  have h4 : b8 (n % 4294967296) = b8 n := by apply b8_congr; omega
  rw [h1, h2, h3, h4]

@[simp] theorem be16_length (n : Nat) : (be16 n).length = 2 := rfl
@[simp] theorem be32_length (n : Nat) : (be32 n).length = 4 := rfl

/-! ## `sum16` -/

theorem sum16_append_even (xs ys : Bytes) (h : xs.length % 2 = 0) :
    sum16 (xs ++ ys) = sum16 xs + sum16 ys := by
  induction xs using sum16.induct with
  | case1 => simp [sum16]
  | case2 a => simp at h
  | case3 a b rest ih =>
    have h' : rest.length % 2 = 0 := by simp at h; omega
    simp [sum16, ih h']; omega

theorem sum16_le (b : Bytes) : sum16 b ≤ 65535 * ((b.length + 1) / 2) := by
  induction b using sum16.induct with
  | case1 => simp [sum16]
  | case2 a => have := u8_lt a; simp [sum16]; omega
  | case3 a b rest ih =>
    have := u8_lt a; have := u8_lt b
    simp [sum16] at *; omega

@[simp] theorem sum16_be16 (n : Nat) : sum16 (be16 n) = n % 65536 := by
  simp [sum16, be16]; omega

@[simp] theorem sum16_be32 (n : Nat) : sum16 (be32 n) = n / 65536 % 65536 + n % 65536 := by
  simp [sum16, be32]; omega

/-! ## the Spec verifier in closed form -/

/-- canonical one's-complement representative of a plain sum: `0` stays `0`, every other
multiple of 65535 is `0xffff` -/
def onesNorm (s : Nat) : Nat := if s = 0 then 0 else (s - 1) % 65535 + 1

theorem onesAdd_norm (x w : Nat) (hw : w ≤ 65535) :
    Spec.onesAdd (onesNorm x) w = onesNorm (x + w) := by
  unfold Spec.onesAdd onesNorm
  by_cases hx : x = 0
  · subst hx
    by_cases hw0 : w = 0
    · subst hw0; simp
    · have : ¬ (65536 ≤ w) := by omega
      simp [hw0, this]; omega
  · have hxw : x + w ≠ 0 := by omega
    simp only [hx, hxw, if_false]
    split <;> omega

theorem foldl_onesAdd (ws : List Nat) (x : Nat) (h : ∀ w ∈ ws, w ≤ 65535) :
    ws.foldl Spec.onesAdd (onesNorm x) = onesNorm (x + ws.sum) := by
  induction ws generalizing x with
  | nil => simp
  | cons w ws ih =>
    simp only [List.foldl_cons, List.sum_cons]
    rw [onesAdd_norm x w (h w (by simp)), ih (x + w) (fun v hv => h v (by simp [hv]))]
    congr 1; omega

theorem words_le (b : Bytes) : ∀ w ∈ Spec.words b, w ≤ 65535 := by
  induction b using Spec.words.induct with
  | case1 => simp [Spec.words]
  | case2 a => have := u8_lt a; simp [Spec.words]; omega
  | case3 a b rest ih =>
    have := u8_lt a; have := u8_lt b
    intro w hw
    simp [Spec.words] at hw
    rcases hw with rfl | hw
    · omega
    · exact ih w hw

theorem words_sum (b : Bytes) : (Spec.words b).sum = sum16 b := by
  induction b using Spec.words.induct with
  | case1 => simp [Spec.words, sum16]
  | case2 a => simp [Spec.words, sum16]
  | case3 a b rest ih => simp [Spec.words, sum16, ih]

theorem onesSum_eq (b : Bytes) : Spec.onesSum b = onesNorm (sum16 b) := by
  have := foldl_onesAdd (Spec.words b) 0 (words_le b)
  simpa [Spec.onesSum, onesNorm, words_sum] using this

/-- The Spec verifier accepts exactly when the plain sum of words is a non-zero multiple of
65535. -/
theorem csumOk_iff (b : Bytes) : Spec.csumOk b = true ↔ 0 < sum16 b ∧ sum16 b % 65535 = 0 := by
  simp only [Spec.csumOk, onesSum_eq, onesNorm, beq_iff_eq]
  split <;> omega

/-! ## the Model's fold -/

theorem fold2_eq_norm (s : Nat) (h : s < 4294967296) : fold1 (fold1 s) = onesNorm s := by
  unfold fold1 onesNorm
  split <;> omega

theorem csumFold_eq (s : Nat) (h : s < 4294967296) : csumFold s = 65535 - onesNorm s := by
  unfold csumFold
  rw [fold2_eq_norm s h]
  unfold onesNorm
  split <;> omega

theorem csumFold_le (s : Nat) : csumFold s ≤ 65535 := by
  unfold csumFold; omega

/-- Adding the folded checksum to the sum it was computed from gives a non-zero multiple of
65535 — including when the sum needs two carries and when the checksum comes out as zero. -/
theorem csumFold_verifies (s : Nat) (h : s < 4294967296) :
    0 < s + csumFold s ∧ (s + csumFold s) % 65535 = 0 := by
  rw [csumFold_eq s h]
  unfold onesNorm
  split <;> omega

/-- RFC 768 substitution: transmitting 0xffff for a computed 0 still verifies (0xffff ≡ 0). -/
theorem csumFold_udp_verifies (s : Nat) (h : s < 4294967296) (c' : Nat)
    (hc' : c' = if csumFold s = 0 then 0xffff else csumFold s) :
    c' ≠ 0 ∧ c' ≤ 65535 ∧ 0 < s + c' ∧ (s + c') % 65535 = 0 := by
  have := csumFold_verifies s h
  have := csumFold_le s
  subst hc'
  split <;> omega

end Resynth
