import Resynth.Lemmas.InterpSim
/-!
# Inlining a let-bound literal

`e.subst x lit` replaces every plain use of the variable `x` (the expression `.ref ⟨l, [], [x]⟩`)
by the literal expression `.lit l lit` at the same position.  When `x` is bound to the value of
`lit`, evaluation is *identical* (value, state, error positions).  Combined with `eval_sim`
(positions are unobservable) this gives inlining with arbitrary positions: `Expr.substR`.
-/
namespace Resynth.Sem

mutual
def _root_.Resynth.Expr.subst (x : String) (lit : Lit) : Expr → Expr
  | .nil => .nil
  | .lit l v => .lit l v
  | .ref o => if o.modules = [] ∧ o.components = [x] then .lit o.loc lit else .ref o
  | .call o a => .call o (a.subst x lit)
  | .slash a b => .slash (a.subst x lit) (b.subst x lit)
def _root_.Resynth.Args.subst (x : String) (lit : Lit) : Args → Args
  | .nil => .nil
  | .cons n e rest => .cons n (e.subst x lit) (rest.subst x lit)
end

def _root_.Resynth.Stmt.subst (x : String) (lit : Lit) : Stmt → Stmt
  | .imp l m => .imp l m
  | .assign l t e => .assign l t (e.subst x lit)
  | .expr e => .expr (e.subst x lit)

/-- substitution with arbitrary new positions everywhere (`r` renames positions) -/
def _root_.Resynth.Expr.substR (r : Loc → Loc) (x : String) (lit : Lit) (e : Expr) : Expr := (e.subst x lit).reloc r
def _root_.Resynth.Stmt.substR (r : Loc → Loc) (x : String) (lit : Lit) (s : Stmt) : Stmt := (s.subst x lit).reloc r

theorem Res.bind_congr_ok {α β : Type} {x : Res α} {f g : α → Res β} (h : ∀ a, x = .ok a → f a = g a) :
    (x >>= f) = (x >>= g) := by
  cases x with
  | ok a => exact h a rfl
  | err e l => rfl
  | panic s => rfl

theorem eval_ref_var (env : Env) (st : PState) (l : Loc) (x : String) (v : Val)
    (h : lookupReg st.regs x = some v) :
    eval env st (.ref ⟨l, [], [x]⟩) = .ok (v, { st with loc := l }) := by
  simp [eval, evalObjRef, evalLocalRef, h]

mutual
theorem eval_subst (env : Env) (x : String) (lit : Lit) : ∀ (e : Expr) (st : PState),
    lookupReg st.regs x = some (Val.ofLit lit) → eval env st (e.subst x lit) = eval env st e
  | .nil, _, _ => rfl
  | .lit _ _, _, _ => rfl
  | .ref o, st, h => by
    simp only [Expr.subst]
    split
    · rename_i hc
      obtain ⟨l, ms, cs⟩ := o
      simp only at hc
      obtain ⟨rfl, rfl⟩ := hc
      rw [eval_ref_var env st l x _ h]
      rfl
    · rfl
  | .call o a, st, h => by
    simp only [Expr.subst, eval]
    rw [evalArgs_subst env x lit a { st with loc := o.loc } h]
  | .slash a b, st, h => by
    simp only [Expr.subst, eval]
    rw [eval_subst env x lit a st h]
    refine Res.bind_congr_ok ?_
    rintro ⟨av, st1⟩ h1
    have hr : lookupReg st1.regs x = some (Val.ofLit lit) := by
      rw [(eval_frame env a _ _ _ h1).regs]; exact h
    simp only
    rw [eval_subst env x lit b st1 hr]
theorem evalArgs_subst (env : Env) (x : String) (lit : Lit) : ∀ (a : Args) (st : PState),
    lookupReg st.regs x = some (Val.ofLit lit) → evalArgs env st (a.subst x lit) = evalArgs env st a
  | .nil, _, _ => rfl
  | .cons n e rest, st, h => by
    simp only [Args.subst, evalArgs]
    rw [eval_subst env x lit e st h]
    refine Res.bind_congr_ok ?_
    rintro ⟨v, st1⟩ h1
    have hr : lookupReg st1.regs x = some (Val.ofLit lit) := by
      rw [(eval_frame env e _ _ _ h1).regs]; exact h
    simp only
    rw [evalArgs_subst env x lit rest st1 hr]
end

theorem addStmt_subst (env : Env) (x : String) (lit : Lit) (s : Stmt) (st : PState)
    (h : lookupReg st.regs x = some (Val.ofLit lit)) :
    addStmt env st (s.subst x lit) = addStmt env st s := by
  cases s with
  | imp l m => rfl
  | assign l t e =>
    simp only [Stmt.subst, addStmt]
    rw [eval_subst env x lit e { st with loc := l } h]
  | expr e =>
    simp only [Stmt.subst]
    rw [addStmt_expr, addStmt_expr, eval_subst env x lit e st h]

/-- a binding, once made, is seen unchanged by every later statement -/
theorem addStmt_lookup_stable {env : Env} {st st' : PState} {s : Stmt} {x : String} {v : Val}
    (h : addStmt env st s = .ok st') (hx : lookupReg st.regs x = some v) : lookupReg st'.regs x = some v := by
  rcases addStmt_regs h with h' | ⟨t, w, _, h'⟩
  · rw [h']; exact hx
  · rw [h', lookupReg_append, hx]; rfl

theorem addStmts_subst (env : Env) (x : String) (lit : Lit) : ∀ (ss : List Stmt) (st : PState),
    lookupReg st.regs x = some (Val.ofLit lit) →
    addStmts env st (ss.map (Stmt.subst x lit)) = addStmts env st ss
  | [], _, _ => rfl
  | s :: ss, st, h => by
    simp only [List.map_cons, addStmts]
    rw [addStmt_subst env x lit s st h]
    refine Res.bind_congr_ok ?_
    intro st1 h1
    exact addStmts_subst env x lit ss st1 (addStmt_lookup_stable h1 h)

/-! ## `mentions` is insensitive to positions -/

mutual
theorem Expr.mentions_reloc (r : Loc → Loc) (y : String) : ∀ e : Expr, (e.reloc r).mentions y = e.mentions y
  | .nil => rfl
  | .lit _ _ => rfl
  | .ref _ => rfl
  | .call o a => by simp only [Expr.reloc, Expr.mentions, Args.mentions_reloc r y a]; rfl
  | .slash a b => by
    simp only [Expr.reloc, Expr.mentions, Expr.mentions_reloc r y a, Expr.mentions_reloc r y b]
theorem Args.mentions_reloc (r : Loc → Loc) (y : String) : ∀ a : Args, (a.reloc r).mentions y = a.mentions y
  | .nil => rfl
  | .cons _ e rest => by
    simp only [Args.reloc, Args.mentions, Expr.mentions_reloc r y e, Args.mentions_reloc r y rest]
end

theorem Stmt.mentions_reloc (r : Loc → Loc) (y : String) (s : Stmt) : (s.reloc r).mentions y = s.mentions y := by
  cases s <;> simp [Stmt.reloc, Stmt.mentions, Expr.mentions_reloc]

/-- erase every position -/
def _root_.Resynth.Expr.erase (e : Expr) : Expr := e.reloc (fun _ => Loc.nil)
def _root_.Resynth.Stmt.erase (s : Stmt) : Stmt := s.reloc (fun _ => Loc.nil)

/-- two expressions that differ only in positions evaluate alike from related states -/
theorem eval_sim_erase {skip : String → Prop} (env : Env) {e e' : Expr} (he : e.erase = e'.erase)
    {st st' : PState} (h : Sim skip st st') (hm : ∀ y, skip y → e'.mentions y = false) :
    ResRel (VSim skip) (eval env st e) (eval env st' e') := by
  have hm' : ∀ y, skip y → e.mentions y = false := fun y hy => by
    rw [← Expr.mentions_reloc (fun _ => Loc.nil) y e, ← Expr.erase, he, Expr.erase, Expr.mentions_reloc]
    exact hm y hy
  have h1 := (eval_sim env (fun _ => Loc.nil) e st st (Sim.refl st) hm').symm
  have h2 := eval_sim env (fun _ => Loc.nil) e' st st' h hm
  rw [← Expr.erase, ← he] at h2
  refine (h1.trans h2).mono ?_
  rintro a c ⟨b, ⟨hab1, hab2⟩, hbc1, hbc2⟩
  exact ⟨hab1.symm.trans hbc1, hab2.symm.trans hbc2⟩

theorem addStmts_sim_erase {skip : String → Prop} (env : Env) {ss ss' : List Stmt}
    (he : ss.map Stmt.erase = ss'.map Stmt.erase)
    {st st' : PState} (h : Sim skip st st') (hm : ∀ s ∈ ss', ∀ y, skip y → s.mentions y = false) :
    ResRel (Sim skip) (addStmts env st ss) (addStmts env st' ss') := by
  have hm' : ∀ s ∈ ss, ∀ y, skip y → s.mentions y = false := by
    intro s hs y hy
    have : s.erase ∈ ss'.map Stmt.erase := by rw [← he]; exact List.mem_map_of_mem hs
    obtain ⟨s', hs', hse⟩ := List.mem_map.1 this
    rw [← Stmt.mentions_reloc (fun _ => Loc.nil) y s, ← Stmt.erase, ← hse, Stmt.erase, Stmt.mentions_reloc]
    exact hm s' hs' y hy
  have h1 := (addStmts_sim env (fun _ => Loc.nil) ss (Sim.refl st) hm').symm
  have h2 := addStmts_sim env (fun _ => Loc.nil) ss' h hm
  have he' : ss'.map (Stmt.reloc fun _ => Loc.nil) = ss.map (Stmt.reloc fun _ => Loc.nil) := he.symm
  rw [he'] at h2
  refine (h1.trans h2).mono ?_
  rintro a c ⟨b, hab, hbc⟩
  exact hab.symm.trans hbc

end Resynth.Sem
