import Resynth.Lemmas.NetBuilders
/-!
# Nesting of tunnel layers

`tunWrap layers inner` applies the tunnel builders from the inside out.  Each builder only puts
headers in front of its payload, so the inner packet survives byte for byte and every outer
IPv4 header is well formed.
-/
namespace Resynth

open Spec (IpFields)

/-- one tunnel layer: the flow object whose `encap` is applied -/
inductive TunLayer where
  | gre (f : GreFlow)
  | erspan1 (f : Erspan1Flow)
  | erspan2 (f : Erspan2Flow) (portIndex : Nat)
  | vxlan (f : VxlanFlow)

namespace TunLayer

/-- the bytes the layer's `encap` emits for payload `inner` -/
def encap : TunLayer → Bytes → Bytes
  | gre f, b => (f.encap b).2
  | erspan1 f, b => f.encap b
  | erspan2 f p, b => (f.encap b p).2
  | vxlan f, b => f.encap b

def raw : TunLayer → Bool
  | gre f => f.raw
  | erspan1 f => f.raw
  | erspan2 f _ => f.raw
  | vxlan f => f.raw

/-- length of the Ethernet header in front of the layer's IP header -/
def ethLen (l : TunLayer) : Nat := if l.raw then 0 else 14

/-- number of tunnel header bytes between the layer's IP header and the inner packet -/
def tunLen : TunLayer → Nat
  | gre f => 4 + (if (f.flags &&& 0x1000 != 0) = true then 4 else 0)
  | erspan1 _ => 4
  | erspan2 _ _ => 16
  | vxlan _ => 16

/-- all bytes the layer puts in front of the inner packet -/
def hdrLen (l : TunLayer) : Nat := l.ethLen + 20 + l.tunLen

/-- the IPv4 fields of the layer's own header -/
def fields : TunLayer → IpFields
  | gre f => { src := f.cl, dst := f.sv, proto := 47 }
  | erspan1 f => { src := f.cl, dst := f.sv, proto := 47 }
  | erspan2 f _ => { src := f.cl, dst := f.sv, proto := 47 }
  | vxlan f => { src := f.cl.ip, dst := f.sv.ip, proto := 17 }

def inRange : TunLayer → Bool
  | gre f => decide (f.cl < 4294967296) && decide (f.sv < 4294967296)
  | erspan1 f => decide (f.cl < 4294967296) && decide (f.sv < 4294967296)
  | erspan2 f _ => decide (f.cl < 4294967296) && decide (f.sv < 4294967296)
  | vxlan f => decide (f.cl.ip < 4294967296) && decide (f.sv.ip < 4294967296)

theorem ipOfFrame_eq_drop (l : TunLayer) (b : Bytes) : Spec.ipOfFrame l.raw b = b.drop l.ethLen := by
  unfold Spec.ipOfFrame ethLen; cases l.raw <;> simp

/-- **Nesting, one layer**: the output is `hdrLen` bytes of headers followed by the untouched
inner packet. -/
theorem encap_split (l : TunLayer) (inner : Bytes) :
    ∃ hdrs : Bytes, hdrs.length = l.hdrLen ∧ l.encap inner = hdrs ++ inner := by
  cases l with
  | gre f =>
    refine ⟨_, ?_, by rw [encap, gre_eq, GreFrame.push_frame]⟩
    have := (gre_shape f inner).eth
    simp only [GreFrame.push] at this
    cases hraw : f.raw <;> simp [hdrLen, ethLen, raw, tunLen, greBase_payload_length, this, hraw] <;> omega
  | erspan1 f =>
    refine ⟨_, ?_, by rw [encap, erspan1_eq, GreFrame.push_frame]⟩
    have := (erspan1_shape f inner).eth
    simp only [GreFrame.push] at this
    cases hraw : f.raw <;> simp [hdrLen, ethLen, raw, tunLen, erspan1Base_payload_length, this, hraw] <;> omega
  | erspan2 f p =>
    refine ⟨_, ?_, by rw [encap, erspan2_eq, GreFrame.push_frame]⟩
    have := (erspan2_shape f inner p).eth
    simp only [GreFrame.push] at this
    cases hraw : f.raw <;> simp [hdrLen, ethLen, raw, tunLen, erspan2Base_payload_length, this, hraw] <;> omega
  | vxlan f =>
    refine ⟨_, ?_, by rw [encap, vxlan_split]⟩
    cases hraw : f.raw <;> simp [hdrLen, ethLen, raw, tunLen, hraw] <;> omega

theorem encap_length (l : TunLayer) (inner : Bytes) : (l.encap inner).length = l.hdrLen + inner.length := by
  obtain ⟨hdrs, h1, h2⟩ := l.encap_split inner
  rw [h2, List.length_append, h1]

/-- **C02 for one tunnel layer**: the outer IPv4 header is well formed and carries the tunnel
endpoints and protocol, whenever the outer datagram fits 16 bits. -/
theorem outer_ok (l : TunLayer) (inner : Bytes) (hr : l.inRange = true)
    (hfit : 20 + l.tunLen + inner.length ≤ 65535) :
    Spec.ipv4Is l.fields (Spec.ipOfFrame l.raw (l.encap inner)) = true := by
  cases l with
  | gre f =>
    simp only [inRange, Bool.and_eq_true, decide_eq_true_eq] at hr
    rw [encap, gre_eq]
    apply (gre_shape f inner).ipv4 hr.1 hr.2
    rw [GreFrame.push_payload_length, greBase_payload_length]
    simp [tunLen] at hfit ⊢; omega
  | erspan1 f =>
    simp only [inRange, Bool.and_eq_true, decide_eq_true_eq] at hr
    rw [encap, erspan1_eq]
    apply (erspan1_shape f inner).ipv4 hr.1 hr.2
    rw [GreFrame.push_payload_length, erspan1Base_payload_length]
    simp [tunLen] at hfit ⊢; omega
  | erspan2 f p =>
    simp only [inRange, Bool.and_eq_true, decide_eq_true_eq] at hr
    rw [encap, erspan2_eq]
    apply (erspan2_shape f inner p).ipv4 hr.1 hr.2
    rw [GreFrame.push_payload_length, erspan2Base_payload_length]
    simp [tunLen] at hfit ⊢; omega
  | vxlan f =>
    simp only [inRange, Bool.and_eq_true, decide_eq_true_eq] at hr
    rw [encap, vxlan_eq]
    apply (vxlan_shape f inner).ipv4 (by simp) (by simp) (udpFields_inRange _ _ hr.1 hr.2)
    simp [tunLen] at hfit
    simp; omega

end TunLayer

/-- apply the layers, innermost last: `tunWrap [a, b] x = a.encap (b.encap x)` -/
def tunWrap : List TunLayer → Bytes → Bytes
  | [], b => b
  | l :: ls, b => l.encap (tunWrap ls b)

/-- total number of header bytes in front of the innermost packet -/
def tunWrapHdrLen : List TunLayer → Nat
  | [] => 0
  | l :: ls => l.hdrLen + tunWrapHdrLen ls

/-- where each layer's IPv4 header starts in the final packet, and the fields it must carry -/
def tunWrapLayout : List TunLayer → List (Nat × IpFields)
  | [] => []
  | l :: ls => (l.ethLen, l.fields) :: (tunWrapLayout ls).map fun p => (l.hdrLen + p.1, p.2)

/-- every layer's IP datagram fits in 65535 bytes -/
def tunWrapFits : List TunLayer → Bytes → Bool
  | [], _ => true
  | l :: ls, b => decide (20 + l.tunLen + (tunWrap ls b).length ≤ 65535) && tunWrapFits ls b

theorem tunWrap_length (ls : List TunLayer) (inner : Bytes) :
    (tunWrap ls inner).length = tunWrapHdrLen ls + inner.length := by
  induction ls with
  | nil => simp [tunWrap, tunWrapHdrLen]
  | cons l ls ih => simp [tunWrap, tunWrapHdrLen, TunLayer.encap_length, ih]; omega

/-- **Nesting**: after any number of tunnel layers the inner packet is still there, unchanged,
behind all the headers. -/
theorem tunWrap_inner (ls : List TunLayer) (inner : Bytes) :
    (tunWrap ls inner).drop (tunWrapHdrLen ls) = inner := by
  induction ls with
  | nil => simp [tunWrap, tunWrapHdrLen]
  | cons l ls ih =>
    obtain ⟨hdrs, h1, h2⟩ := l.encap_split (tunWrap ls inner)
    rw [tunWrap, h2, tunWrapHdrLen, ← h1, ← List.drop_drop]
    simp [ih]

/-- **C02 through nesting**: every IPv4 header of every layer, at its offset in the final
packet, starts a well-formed datagram with that layer's fields. -/
theorem tunWrap_all_ok (ls : List TunLayer) (inner : Bytes) (hr : ∀ l ∈ ls, l.inRange = true)
    (hfit : tunWrapFits ls inner = true) :
    ∀ p ∈ tunWrapLayout ls, Spec.ipv4Is p.2 ((tunWrap ls inner).drop p.1) = true := by
  induction ls with
  | nil => intro p hp; simp [tunWrapLayout] at hp
  | cons l ls ih =>
    simp only [tunWrapFits, Bool.and_eq_true, decide_eq_true_eq] at hfit
    intro p hp
    simp only [tunWrapLayout, List.mem_cons, List.mem_map] at hp
    rcases hp with rfl | ⟨q, hq, rfl⟩
    · rw [tunWrap, ← TunLayer.ipOfFrame_eq_drop]
      exact l.outer_ok _ (hr l (by simp)) hfit.1
    · obtain ⟨hdrs, h1, h2⟩ := l.encap_split (tunWrap ls inner)
      rw [tunWrap, h2, ← h1, ← List.drop_drop]
      simp only [List.drop_left]
      exact ih (fun l' hl' => hr l' (by simp [hl'])) hfit.2 q hq

/-- an IPv4 datagram found at offset `k` of the inner packet is found, equally well formed, at
offset `tunWrapHdrLen ls + k` of the wrapped packet -/
theorem tunWrap_inner_ok (ls : List TunLayer) (inner : Bytes) (k : Nat)
    (h : Spec.ipv4Ok (inner.drop k) = true) :
    Spec.ipv4Ok ((tunWrap ls inner).drop (tunWrapHdrLen ls + k)) = true := by
  rw [← List.drop_drop, tunWrap_inner]; exact h

end Resynth
