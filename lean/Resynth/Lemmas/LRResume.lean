import Resynth.Lemmas.LRInv
import Resynth.Spec.Grammar
/-!
# What the reference parser still has to do from a configuration of the automaton

`resume c ts` is the result the recursive-descent parser `Spec.sProgram` produces when it is
"resumed" in the middle of a sentence: `c` is a configuration of the automaton (satisfying `Inv`),
`ts` the unread tokens.  The stack of `c` is read as the continuation of the recursive descent
(`kExpr`).  `LRSim.resume_step` shows that every loop iteration of `Parser::feed` leaves `resume`
unchanged, and a `ParseError` happens exactly where `resume` reports the error.

This file: the definitions, and the unfolding lemmas of the spec in continuation form.
-/
namespace Resynth.LR
open Resynth.Spec

/-- final result of the reference parser -/
abbrev R := Except Nat (List Stmt)

/-- continue with the value and the rest of a successful parse -/
def andThen {ts : List Tok} {α : Type} (r : PR ts α) (k : α → List Tok → R) : R :=
  match r with
  | .ok p => k p.val p.rest
  | .error n => .error n

/-- continue with the value and the rest of a successful parse (results without certificate) -/
def andThen' {α : Type} (r : Except Nat (α × List Tok)) (k : α → List Tok → R) : R :=
  match r with
  | .ok p => k p.1 p.2
  | .error n => .error n

@[simp] theorem andThen_ok {ts α} (p : Parsed ts α) (k : α → List Tok → R) :
    andThen (.ok p) k = k p.val p.rest := rfl
@[simp] theorem andThen_ret {ts α} (v : α) (rest : List Tok) (h) (k : α → List Tok → R) :
    andThen (ret (ts := ts) v rest h) k = k v rest := rfl
@[simp] theorem andThen_error {ts α} (n : Nat) (k : α → List Tok → R) :
    andThen (ts := ts) (.error n) k = .error n := rfl
@[simp] theorem andThen'_ok {α} (p : α × List Tok) (k : α → List Tok → R) :
    andThen' (.ok p) k = k p.1 p.2 := rfl
@[simp] theorem andThen'_error {α} (n : Nat) (k : α → List Tok → R) :
    andThen' (.error n) k = .error n := rfl

/-- after a primary `e`: an optional `'/' expr`, then `k` (state `Slash`) -/
def kSlashTail (k : Expr → List Tok → R) (e : Expr) : List Tok → R
  | [] => k e []
  | t :: ts =>
    if t.kind = .slash then andThen (sExpr ts) (fun b rest => k (.slash e b) rest) else k e (t :: ts)

/-- after an argument: state `ArgNext` -/
def rArgNext (k : Expr → List Tok → R) (o : ObjRef) (l : Args) (ts : List Tok) : R :=
  andThen (sArgNext l ts) (fun args rest => kSlashTail k (.call o args) rest)

/-- after `(` or `,`: state `ExprArg` -/
def rArgs (k : Expr → List Tok → R) (o : ObjRef) (l : Args) (ts : List Tok) : R :=
  andThen (sArgs l ts) (fun args rest => kSlashTail k (.call o args) rest)

/-- after a complete reference: a call or a naked reference -/
def kRefEnd (k : Expr → List Tok → R) (o : ObjRef) : List Tok → R
  | [] => k (.ref o) []
  | l :: ts => if l.kind = .lparen then rArgs k o .nil ts else kSlashTail k (.ref o) (l :: ts)

/-- states `RefObjEnd`: `x` is the component read last -/
def rDots (k : Expr → List Tok → R) (p : PathB) (x : String) (ts : List Tok) : R :=
  andThen' (sDots (p.object ++ [x]) ts) (fun comps r => kRefEnd k ⟨p.loc, p.module, comps⟩ r)

/-- state `RefComponent`: `x` is the identifier read last -/
def rColons (k : Expr → List Tok → R) (p : PathB) (x : String) (ts : List Tok) : R :=
  andThen' (sColons p.module x ts) (fun mc r1 =>
    andThen' (sDots (p.object ++ [mc.2]) r1) (fun comps r2 => kRefEnd k ⟨p.loc, mc.1, comps⟩ r2))

/-- state `RefModule` (after `::`) -/
def rRefModule (k : Expr → List Tok → R) (p : PathB) : List Tok → R
  | [] => .error 0
  | i :: ts => if i.kind = .ident then rColons k p i.text ts else .error (i :: ts).length

/-- state `RefObject` (after `.`) -/
def rRefObject (k : Expr → List Tok → R) (p : PathB) : List Tok → R
  | [] => .error 0
  | i :: ts => if i.kind = .ident then rDots k p i.text ts else .error (i :: ts).length

/-- state `IPv4Colon` -/
def rPort (k : Expr → List Tok → R) (l : Loc) (a : Nat) : List Tok → R
  | [] => .error 0
  | p :: ts =>
    match portOfToken p with
    | some n => kSlashTail k (.lit l (.sock4 a n)) ts
    | none => .error (p :: ts).length

/-- state `IPv4` -/
def rIpv4 (k : Expr → List Tok → R) (l : Loc) (a : Nat) : List Tok → R
  | [] => k (.lit l (.ip4 a)) []
  | c :: ts => if c.kind = .colon then rPort k l a ts else kSlashTail k (.lit l (.ip4 a)) (c :: ts)

/-- state `ArgName`: the identifier `x` has been read at the start of an argument -/
def rArgName (k : Expr → List Tok → R) (o : ObjRef) (l : Args) (x : String) : List Tok → R
  | [] => .error 0
  | u :: us =>
    if u.kind = .colon then
      andThen (sExpr us) (fun e rest => rArgNext k o (l.snoc (some x) e) rest)
    else
      andThen (sExpr (⟨.ident, x, u.loc⟩ :: u :: us)) (fun e rest => rArgNext k o (l.snoc none e) rest)

/-- state `ArgVal` -/
def rArgVal (k : Expr → List Tok → R) (o : ObjRef) (l : Args) (n : Option String) : List Tok → R
  | [] => .error 0
  | t :: ts =>
    if t.kind = .rparen then
      match n with
      | none => kSlashTail k (.call o l) ts
      | some _ => .error (t :: ts).length
    else andThen (sExpr (t :: ts)) (fun e rest => rArgNext k o (l.snoc n e) rest)

/-- statement end: `;` then the rest of the program -/
def rStmtEnd (ss : List Stmt) (s : Stmt) (ts : List Tok) : R :=
  andThen' (expect .semi ts) (fun _ r => sProgram (ss ++ [s]) r)

/-- the continuation encoded by the stack below an expression (state `ReduceExpr`) -/
def kExpr (ss : List Stmt) : Stack → Expr → List Tok → R
  | [.st .exprStmtEnd], e, ts => rStmtEnd ss (.expr e) ts
  | [.st .assignStmtEnd, .assignTo x, .loc l], e, ts => rStmtEnd ss (.assign l x e) ts
  | .st .reduceBop :: .slash :: .expr a :: c, e, ts => kExpr ss c (.slash a e) ts
  | .st .reduceArg :: .argName n :: .argList l :: .obj o :: c, e, ts =>
      rArgNext (kExpr ss c) o (l.snoc n e) ts
  | _, _, _ => .error 0

/-- after `let x =` -/
def rRvalue (ss : List Stmt) (x : String) (l : Loc) (ts : List Tok) : R :=
  andThen (sExpr ts) (kExpr ss [.st .assignStmtEnd, .assignTo x, .loc l])

/-- the reference parser resumed at a configuration of the automaton -/
def resume (c : Cfg) (ts : List Tok) : R :=
  let ss := c.stmts
  match c.state, c.stack with
  | .initial, [] => sProgram ss ts
  | .import_, [] =>
      andThen' (expect .ident ts) (fun i r => rStmtEnd ss (.imp i.loc i.text) r)
  | .importEnd, [.module m, .loc l] => rStmtEnd ss (.imp l m) ts
  | .reduceImport, [.module m, .loc l] => sProgram (ss ++ [.imp l m]) ts
  | .let_, [] =>
      andThen' (expect .ident ts) (fun i r =>
        andThen' (expect .equals r) (fun _ r' => rRvalue ss i.text i.loc r'))
  | .assign, [.assignTo x, .loc l] => andThen' (expect .equals ts) (fun _ r => rRvalue ss x l r)
  | .exprRvalue, [.assignTo x, .loc l] => rRvalue ss x l ts
  | .exprStmt, [] => andThen (sExpr ts) (kExpr ss [.st .exprStmtEnd])
  | .expr, c => andThen (sExpr ts) (kExpr ss c)
  | .refComponent, .comp x :: .path p :: c => rColons (kExpr ss c) p x ts
  | .reduceModule, .comp x :: .path p :: c =>
      rRefModule (kExpr ss c) { p with module := p.module ++ [x] } ts
  | .refModule, .path p :: c => rRefModule (kExpr ss c) p ts
  | .reduceObject, .comp x :: .path p :: c =>
      rRefObject (kExpr ss c) { p with object := p.object ++ [x] } ts
  | .refObject, .path p :: c => rRefObject (kExpr ss c) p ts
  | .refObjEnd, .comp x :: .path p :: c => rDots (kExpr ss c) p x ts
  | .reduceRefCall, .comp x :: .path p :: c =>
      rArgs (kExpr ss c) ⟨p.loc, p.module, p.object ++ [x]⟩ .nil ts
  | .reduceRefNaked, .comp x :: .path p :: c =>
      kSlashTail (kExpr ss c) (.ref ⟨p.loc, p.module, p.object ++ [x]⟩) ts
  | .reduceRefExpr, .obj o :: c => kSlashTail (kExpr ss c) (.ref o) ts
  | .exprArg, .argList l :: .obj o :: c => rArgs (kExpr ss c) o l ts
  | .argNext, .argList l :: .obj o :: c => rArgNext (kExpr ss c) o l ts
  | .argName, .argName (some x) :: .argList l :: .obj o :: c => rArgName (kExpr ss c) o l x ts
  | .argVal, .argName n :: .argList l :: .obj o :: c => rArgVal (kExpr ss c) o l n ts
  | .reduceArg, .expr e :: .argName n :: .argList l :: .obj o :: c =>
      rArgNext (kExpr ss c) o (l.snoc n e) ts
  | .reduceCall, _ :: .argList l :: .obj o :: c => kSlashTail (kExpr ss c) (.call o l) ts
  | .reduceCallExpr, .call o a :: c => kSlashTail (kExpr ss c) (.call o a) ts
  | .ipv4, .lit (.ip4 a) :: .loc l :: c => rIpv4 (kExpr ss c) l a ts
  | .ipv4Colon, .lit (.ip4 a) :: .loc l :: c => rPort (kExpr ss c) l a ts
  | .reduceSockAddr, .lit (.u64 p) :: .loc _ :: .lit (.ip4 a) :: .loc l :: c =>
      kSlashTail (kExpr ss c) (.lit l (.sock4 a p)) ts
  | .reduceLiteralExpr, .lit v :: .loc l :: c => kSlashTail (kExpr ss c) (.lit l v) ts
  | .slash, .expr e :: c => kSlashTail (kExpr ss c) e ts
  | .reduceExpr, .expr e :: c => kExpr ss c e ts
  | .reduceBop, .expr b :: .slash :: .expr a :: c => kExpr ss c (.slash a b) ts
  | .exprStmtEnd, [.expr e] => rStmtEnd ss (.expr e) ts
  | .reduceExprStmt, [.expr e] => sProgram (ss ++ [.expr e]) ts
  | .assignStmtEnd, [.expr e, .assignTo x, .loc l] => rStmtEnd ss (.assign l x e) ts
  | .reduceAssign, [.expr e, .assignTo x, .loc l] => sProgram (ss ++ [.assign l x e]) ts
  | .reduceAssignStmt, [.assign l x e] => sProgram (ss ++ [.assign l x e]) ts
  | .reduceStmt, [.stmt s] => sProgram (ss ++ [s]) ts
  | .accept, [] => match ts with | [] => .ok ss | _ :: _ => .error ts.length
  | _, _ => .error 0

theorem sExpr_andThen (ts : List Tok) (k : Expr → List Tok → R) :
    andThen (sExpr ts) k = andThen (sPrimary ts) (kSlashTail k) := by
  rw [sExpr]
  cases sPrimary ts with
  | error n => simp
  | ok p =>
    obtain ⟨a, rest, h⟩ := p
    cases rest with
    | nil => simp [kSlashTail]
    | cons s rest1 =>
      by_cases hs : s.kind = .slash
      · simp [kSlashTail, hs]
        cases sExpr rest1 with
        | error n => simp
        | ok q => obtain ⟨b, r2, h2⟩ := q; simp
      · simp [kSlashTail, hs]

theorem rColons_new (k : Expr → List Tok → R) (loc : Loc) (x : String) (ts : List Tok) :
    rColons k (PathB.new loc) x ts = andThen' (sRef loc x ts) (kRefEnd k) := by
  simp only [rColons, PathB.new, sRef, List.nil_append]
  cases h1 : sColons [] x ts with
  | error m => simp [bind, Except.bind]
  | ok a =>
    cases h2 : sDots [a.1.2] a.2 with
    | error m => simp [h2, bind, Except.bind]
    | ok b => simp [h2, bind, Except.bind, pure, Except.pure]

@[simp] theorem kSlashTail_nil (k : Expr → List Tok → R) (e : Expr) : kSlashTail k e [] = k e [] := rfl

theorem sExpr_ident {t : Tok} (h : t.kind = .ident) (ts : List Tok) (k : Expr → List Tok → R) :
    andThen (sExpr (t :: ts)) k = rColons k (PathB.new t.loc) t.text ts := by
  rw [sExpr_andThen, rColons_new, sPrimary]
  simp only [h]
  split
  · next n hn => simp [hn]
  · next o rest hn =>
    simp only [hn, andThen'_ok]
    split
    · simp [kRefEnd]
    · simp only [kRefEnd]
      split
      · simp only [rArgs]
        generalize sArgs Args.nil _ = r
        cases r with
        | error m => simp
        | ok q => simp
      · simp

/-- token kinds of the plain literals -/
theorem sExpr_lit {t : Tok}
    (h : t.kind = .strLit ∨ t.kind = .boolLit ∨ t.kind = .hexLit ∨ t.kind = .intLit)
    (ts : List Tok) (k : Expr → List Tok → R) :
    andThen (sExpr (t :: ts)) k =
      match litOfToken t with
      | some v => kSlashTail k (.lit t.loc v) ts
      | none => .error (ts.length + 1) := by
  rw [sExpr_andThen, sPrimary]
  obtain ⟨kd, txt, loc⟩ := t
  cases kd <;> simp at h <;> simp only [] <;> cases litOfToken _ <;> simp

theorem sExpr_ipv4 {t : Tok} (h : t.kind = .ipv4Lit) (ts : List Tok) (k : Expr → List Tok → R) :
    andThen (sExpr (t :: ts)) k =
      match ip4OfToken t with
      | some a => rIpv4 k t.loc a ts
      | none => .error (ts.length + 1) := by
  rw [sExpr_andThen, sPrimary]
  simp only [h]
  cases ip4OfToken t with
  | none => simp
  | some a =>
    simp only []
    cases ts with
    | nil => simp [rIpv4]
    | cons c ts2 =>
      simp only [rIpv4]
      split
      · cases ts2 with
        | nil => simp [rPort]
        | cons p ts3 => simp only [rPort]; cases portOfToken p <;> simp
      · simp

theorem sExpr_other {t : Tok} (h1 : t.kind ≠ .ident) (h2 : t.kind ≠ .strLit) (h3 : t.kind ≠ .boolLit)
    (h4 : t.kind ≠ .hexLit) (h5 : t.kind ≠ .intLit) (h6 : t.kind ≠ .ipv4Lit)
    (ts : List Tok) (k : Expr → List Tok → R) :
    andThen (sExpr (t :: ts)) k = .error (ts.length + 1) := by
  rw [sExpr_andThen, sPrimary]
  obtain ⟨kd, txt, loc⟩ := t
  cases kd <;> simp_all


/-! ### argument lists -/

theorem rArgs_rparen {t : Tok} (h : t.kind = .rparen) (ts : List Tok) (k : Expr → List Tok → R) (o l) :
    rArgs k o l (t :: ts) = kSlashTail k (.call o l) ts := by
  unfold rArgs; rw [sArgs.eq_def]; simp [h]

theorem rArgs_ident {t : Tok} (h : t.kind = .ident) (ts : List Tok) (k : Expr → List Tok → R) (o l) :
    rArgs k o l (t :: ts) = rArgName k o l t.text ts := by
  unfold rArgs
  rw [sArgs.eq_def]
  simp only [h, reduceCtorEq, ↓reduceIte]
  cases ts with
  | nil => simp [rArgName]
  | cons u us =>
    simp only [rArgName]
    have hre : restamp t u = ⟨.ident, t.text, u.loc⟩ := by simp [restamp, h]
    split
    · generalize sExpr us = r
      cases r with
      | error n => simp
      | ok p =>
        simp only [andThen_ok, rArgNext]
        generalize sArgNext _ _ = r2
        cases r2 <;> simp
    · rw [← hre]
      generalize sExpr _ = r
      cases r with
      | error n => simp
      | ok p =>
        simp only [andThen_ok, rArgNext]
        generalize sArgNext _ _ = r2
        cases r2 <;> simp

theorem rArgs_other {t : Tok} (h1 : t.kind ≠ .rparen) (h2 : t.kind ≠ .ident) (ts : List Tok)
    (k : Expr → List Tok → R) (o l) :
    rArgs k o l (t :: ts) = rArgVal k o l none (t :: ts) := by
  unfold rArgs
  rw [sArgs.eq_def]
  simp only [h1, h2, ↓reduceIte, rArgVal]
  generalize sExpr _ = r
  cases r with
  | error n => simp
  | ok p =>
    simp only [andThen_ok, rArgNext]
    generalize sArgNext _ _ = r2
    cases r2 <;> simp

theorem rArgNext_comma {t : Tok} (h : t.kind = .comma) (ts : List Tok) (k : Expr → List Tok → R) (o l) :
    rArgNext k o l (t :: ts) = rArgs k o l ts := by
  unfold rArgNext rArgs
  rw [sArgNext.eq_def]
  simp only [h, ↓reduceIte]
  generalize sArgs _ _ = r
  cases r <;> simp

theorem rArgNext_rparen {t : Tok} (h : t.kind = .rparen) (ts : List Tok) (k : Expr → List Tok → R) (o l) :
    rArgNext k o l (t :: ts) = kSlashTail k (.call o l) ts := by
  unfold rArgNext; rw [sArgNext.eq_def]; simp [h]

theorem rArgNext_other {t : Tok} (h1 : t.kind ≠ .comma) (h2 : t.kind ≠ .rparen) (ts : List Tok)
    (k : Expr → List Tok → R) (o l) :
    rArgNext k o l (t :: ts) = .error (ts.length + 1) := by
  unfold rArgNext; rw [sArgNext.eq_def]; simp [h1, h2]

/-! ### statements -/

theorem sProgram_eof {t : Tok} (h : t.kind = .eof) (ss : List Stmt) (ts : List Tok) :
    sProgram ss (t :: ts) = match ts with | [] => .ok ss | _ :: _ => .error ts.length := by
  rw [sProgram.eq_def]; cases ts <;> simp [h]

theorem sProgram_stmt {t : Tok} (h : t.kind ≠ .eof) (ss : List Stmt) (ts : List Tok) :
    sProgram ss (t :: ts) = andThen' (sStmt (t :: ts)) (fun s r => sProgram (ss ++ [s]) r) := by
  rw [sProgram.eq_def]; simp only [h, ↓reduceIte]
  split <;> simp [*]

theorem parseExpr_andThen (ts : List Tok) (k : Expr → List Tok → R) :
    andThen' (parseExpr ts) k = andThen (sExpr ts) k := by
  unfold parseExpr; cases sExpr ts <;> simp

theorem sProgram_import {t : Tok} (h : t.kind = .kwImport) (ss : List Stmt) (ts : List Tok) :
    sProgram ss (t :: ts) =
      andThen' (expect .ident ts) (fun i r => rStmtEnd ss (.imp i.loc i.text) r) := by
  rw [sProgram_stmt (by simp [h])]
  simp only [sStmt, h, rStmtEnd]
  cases expect .ident ts with
  | error n => simp [bind, Except.bind]
  | ok a =>
    cases h2 : expect .semi a.2 with
    | error n => simp [h2, bind, Except.bind]
    | ok b => simp [h2, bind, Except.bind, pure, Except.pure]

theorem sProgram_let {t : Tok} (h : t.kind = .kwLet) (ss : List Stmt) (ts : List Tok) :
    sProgram ss (t :: ts) =
      andThen' (expect .ident ts) (fun i r =>
        andThen' (expect .equals r) (fun _ r' => rRvalue ss i.text i.loc r')) := by
  rw [sProgram_stmt (by simp [h])]
  simp only [sStmt, h, rRvalue]
  cases expect .ident ts with
  | error n => simp [bind, Except.bind]
  | ok a =>
    cases h2 : expect .equals a.2 with
    | error n => simp [h2, bind, Except.bind]
    | ok b =>
      simp only [← parseExpr_andThen]
      cases h3 : parseExpr b.2 with
      | error n => simp [h2, h3, bind, Except.bind]
      | ok c =>
        cases h4 : expect .semi c.2 with
        | error n => simp [h2, h3, h4, bind, Except.bind, kExpr, rStmtEnd]
        | ok d => simp [h2, h3, h4, bind, Except.bind, pure, Except.pure, kExpr, rStmtEnd]

theorem sProgram_ident {t : Tok} (h : t.kind = .ident) (ss : List Stmt) (ts : List Tok) :
    sProgram ss (t :: ts) = andThen (sExpr (t :: ts)) (kExpr ss [.st .exprStmtEnd]) := by
  rw [sProgram_stmt (by simp [h])]
  simp only [sStmt, h]
  rw [← parseExpr_andThen]
  cases h3 : parseExpr (t :: ts) with
  | error n => simp [bind, Except.bind]
  | ok c =>
    cases h4 : expect .semi c.2 with
    | error n => simp [h4, bind, Except.bind, kExpr, rStmtEnd]
    | ok d => simp [h4, bind, Except.bind, pure, Except.pure, kExpr, rStmtEnd]

theorem sProgram_other {t : Tok} (h1 : t.kind ≠ .eof) (h2 : t.kind ≠ .kwImport) (h3 : t.kind ≠ .kwLet)
    (h4 : t.kind ≠ .ident) (ss : List Stmt) (ts : List Tok) :
    sProgram ss (t :: ts) = .error (ts.length + 1) := by
  rw [sProgram_stmt h1]
  obtain ⟨kd, txt, loc⟩ := t
  cases kd <;> simp_all [sStmt]


/-! ### references -/

theorem rColons_dcolon {t : Tok} (h : t.kind = .dcolon) (ts : List Tok) (k : Expr → List Tok → R) (p x) :
    rColons k p x (t :: ts) = rRefModule k { p with module := p.module ++ [x] } ts := by
  cases ts with
  | nil => simp [rColons, sColons, h, rRefModule]
  | cons i ts =>
    by_cases hi : i.kind = .ident <;> simp [rColons, sColons, h, rRefModule, hi]

theorem rColons_dot {t : Tok} (h : t.kind = .dot) (ts : List Tok) (k : Expr → List Tok → R) (p x) :
    rColons k p x (t :: ts) = rRefObject k { p with object := p.object ++ [x] } ts := by
  cases ts with
  | nil => simp [rColons, sColons, sDots, h, rRefObject]
  | cons i ts =>
    by_cases hi : i.kind = .ident <;> simp [rColons, sColons, sDots, h, rRefObject, rDots, hi]

theorem rColons_lparen {t : Tok} (h : t.kind = .lparen) (ts : List Tok) (k : Expr → List Tok → R) (p x) :
    rColons k p x (t :: ts) = rArgs k ⟨p.loc, p.module, p.object ++ [x]⟩ .nil ts := by
  cases ts <;> simp [rColons, sColons, sDots, h, kRefEnd]

theorem rColons_other {t : Tok} (h1 : t.kind ≠ .dcolon) (h2 : t.kind ≠ .dot) (h3 : t.kind ≠ .lparen)
    (ts : List Tok) (k : Expr → List Tok → R) (p x) :
    rColons k p x (t :: ts) = kSlashTail k (.ref ⟨p.loc, p.module, p.object ++ [x]⟩) (t :: ts) := by
  cases ts <;> simp [rColons, sColons, sDots, h1, h2, h3, kRefEnd]

theorem rDots_dot {t : Tok} (h : t.kind = .dot) (ts : List Tok) (k : Expr → List Tok → R) (p x) :
    rDots k p x (t :: ts) = rRefObject k { p with object := p.object ++ [x] } ts := by
  cases ts with
  | nil => simp [rDots, sDots, h, rRefObject]
  | cons i ts =>
    by_cases hi : i.kind = .ident <;> simp [sDots, h, rRefObject, rDots, hi]

theorem rDots_lparen {t : Tok} (h : t.kind = .lparen) (ts : List Tok) (k : Expr → List Tok → R) (p x) :
    rDots k p x (t :: ts) = rArgs k ⟨p.loc, p.module, p.object ++ [x]⟩ .nil ts := by
  cases ts <;> simp [rDots, sDots, h, kRefEnd]

theorem rDots_other {t : Tok} (h2 : t.kind ≠ .dot) (h3 : t.kind ≠ .lparen)
    (ts : List Tok) (k : Expr → List Tok → R) (p x) :
    rDots k p x (t :: ts) = kSlashTail k (.ref ⟨p.loc, p.module, p.object ++ [x]⟩) (t :: ts) := by
  cases ts <;> simp [rDots, sDots, h2, h3, kRefEnd]

end Resynth.LR
