import Resynth.Lemmas.LexSelect
/-!
# Lifting `scanOne = select` through the scan loop: `Lex.line = Spec.lexLine`
-/
namespace Resynth.LexLemmas
open Resynth Resynth.Lex Resynth.Spec

/-! ## bounds on a selected match -/

theorem select_spec {cs : List Char} {r : LexRule} {n : Nat} (h : select cs = some (r, n)) :
    r ∈ rules ∧ matchLen r cs = some n := by
  simp only [select] at h
  obtain ⟨l1, a, l2, hl, ha, _⟩ := List.findSome?_eq_some_iff.1 h
  simp only [Option.map_eq_some_iff, Prod.mk.injEq] at ha
  obtain ⟨m, hm, rfl, rfl⟩ := ha
  exact ⟨by rw [hl]; simp, hm⟩

theorem select_bounds {cs : List Char} {r : LexRule} {n : Nat} (h : select cs = some (r, n)) :
    0 < n ∧ n ≤ cs.length := by
  have := (select_spec h).2
  unfold matchLen at this
  rw [longest_eq_some] at this
  exact ⟨this.1, this.2.1⟩

/-- every anchored match consumes at least one character and stays inside the text -/
theorem scanOne_bounds {cs : List Char} {c : Cls} {n : Nat} (h : scanOne cs = some (c, n)) :
    0 < n ∧ n ≤ cs.length := by
  rw [scanOne_eq_spec] at h
  simp only [Option.map_eq_some_iff, Prod.mk.injEq] at h
  obtain ⟨⟨r, m⟩, hs, _, rfl⟩ := h
  exact select_bounds hs

/-! ## byte lengths -/

theorem byteLen_nil : byteLen [] = 0 := by simp [byteLen]

theorem byteLen_append (a b : List Char) : byteLen (a ++ b) = byteLen a + byteLen b := by
  simp [byteLen, String.ofList_append, String.utf8ByteSize_append]

theorem byteLen_cons (c : Char) (cs : List Char) : byteLen (c :: cs) = c.utf8Size + byteLen cs := by
  simp [byteLen, String.ofList_cons, String.utf8ByteSize_append, String.utf8ByteSize_singleton]

theorem utf8Len_eq (cs : List Char) : utf8Len cs = byteLen cs := by
  have : ∀ (n : Nat), cs.foldl (fun n c => n + c.utf8Size) n = n + byteLen cs := by
    induction cs with
    | nil => intro n; simp [byteLen_nil]
    | cons c cs ih => intro n; rw [List.foldl_cons, ih, byteLen_cons]; omega
  simpa [utf8Len] using this 0

/-! ## tiling -/

theorem tileFrom_drop (k : Nat) (cs : List Char) (hk : k ≤ cs.length) :
    tileFrom k cs = tile (cs.drop k) := by
  induction k generalizing cs with
  | zero => rfl
  | succ k ih =>
    cases cs with
    | nil => simp at hk
    | cons c cs => rw [tileFrom, ih cs (by simpa using hk)]; rfl

theorem tile_nil : tile [] = ([], true) := rfl

theorem tile_cons_none {c : Char} {rest : List Char} (h : select (c :: rest) = none) :
    tile (c :: rest) = ([], false) := by
  simp [tile, tileFrom, h]

theorem tile_cons_some {cs : List Char} {r : LexRule} {n : Nat} (h : select cs = some (r, n)) :
    tile cs = (⟨r, cs.take n⟩ :: (tile (cs.drop n)).1, (tile (cs.drop n)).2) := by
  have hb := select_bounds h
  cases cs with
  | nil => simp at hb; omega
  | cons c rest =>
    simp only [tile, tileFrom, h]
    rw [tileFrom_drop (n - 1) rest (by simp at hb; omega)]
    obtain ⟨m, rfl⟩ : ∃ m, n = m + 1 := ⟨n - 1, by omega⟩
    simp [tile]

/-! ## the spec, continued from a position inside the line -/

/-- the spec's result for the rest `cs` of a line at byte offset `pos`, with `acc` the
collected string literal and `toks0` the tokens read so far -/
def specFrom (lno pos : Nat) (acc : Option String) (toks0 : List Tok) (cs : List Char) :
    Except Nat (List Tok × Option String) :=
  match tile cs with
  | (ls, true) => .ok (toks0 ++ (readToks lno pos acc ls).1, (readToks lno pos acc ls).2)
  | (ls, false) => .error (pos + 1 + byteLen (ls.flatMap (·.text)))

theorem specFrom_nil (lno pos : Nat) (acc : Option String) (toks0 : List Tok) :
    specFrom lno pos acc toks0 [] = .ok (toks0, acc) := by
  simp [specFrom, tile_nil, readToks]

theorem specFrom_none {lno pos : Nat} {acc : Option String} {toks0 : List Tok} {c : Char}
    {rest : List Char} (h : select (c :: rest) = none) :
    specFrom lno pos acc toks0 (c :: rest) = .error (pos + 1) := by
  simp [specFrom, tile_cons_none h, byteLen_nil]

theorem specFrom_skip {lno pos : Nat} {acc : Option String} {toks0 : List Tok} {cs : List Char}
    {r : LexRule} {n : Nat} (h : select cs = some (r, n)) (hk : r.kind = none) :
    specFrom lno pos acc toks0 cs = specFrom lno (pos + byteLen (cs.take n)) acc toks0 (cs.drop n) := by
  simp only [specFrom, tile_cons_some h]
  rcases tile (cs.drop n) with ⟨ls, ok⟩
  cases ok
  · simp [byteLen_append]; omega
  · simp [readToks, hk]

theorem specFrom_str {lno pos : Nat} {acc : Option String} {toks0 : List Tok} {cs : List Char}
    {r : LexRule} {n : Nat} (h : select cs = some (r, n)) (hk : r.kind = some .strLit) :
    specFrom lno pos acc toks0 cs =
      specFrom lno (pos + byteLen (cs.take n)) (some (acc.getD "" ++ strInner (cs.take n))) toks0
        (cs.drop n) := by
  simp only [specFrom, tile_cons_some h]
  rcases tile (cs.drop n) with ⟨ls, ok⟩
  cases ok
  · simp [byteLen_append]; omega
  · simp [readToks, hk]

theorem specFrom_tok {lno pos : Nat} {acc : Option String} {toks0 : List Tok} {cs : List Char}
    {r : LexRule} {n : Nat} {k : TokKind} (h : select cs = some (r, n)) (hk : r.kind = some k)
    (hs : k ≠ .strLit) :
    specFrom lno pos acc toks0 cs =
      specFrom lno (pos + byteLen (cs.take n)) none
        (toks0 ++ (acc.map fun s => (⟨.strLit, s, ⟨lno, pos + 1⟩⟩ : Tok)).toList ++
          [⟨k, tokVal k (cs.take n), ⟨lno, pos + 1⟩⟩]) (cs.drop n) := by
  simp only [specFrom, tile_cons_some h]
  rcases tile (cs.drop n) with ⟨ls, ok⟩
  cases ok
  · simp [byteLen_append]; omega
  · cases k <;> first | exact absurd rfl hs | simp [readToks, hk]

/-! ## the model's loop -/

/-- the collected pieces as the spec sees them -/
def accOf (strs : List String) : Option String :=
  if strs.isEmpty then none else some (String.join strs)

def projSt (s : St) : List Tok × Option String := (s.toks, accOf s.strs)

theorem accOf_getD (strs : List String) : (accOf strs).getD "" = String.join strs := by
  cases strs <;> simp [accOf, String.join_nil]

theorem accOf_snoc (strs : List String) (x : String) :
    accOf (strs ++ [x]) = some ((accOf strs).getD "" ++ x) := by
  rw [accOf_getD]
  simp [accOf, String.join_append, String.join_cons, String.join_nil]

theorem clsOf_none {r : LexRule} (h : r.kind = none) : clsOf r = .skip := by simp [clsOf, h]
theorem clsOf_str {r : LexRule} (h : r.kind = some .strLit) : clsOf r = .str := by simp [clsOf, h]
theorem clsOf_tok {r : LexRule} {k : TokKind} (h : r.kind = some k) (hs : k ≠ .strLit) :
    clsOf r = .tok k := by
  cases k <;> first | exact absurd rfl hs | simp [clsOf, h]

theorem tokText_eq (k : TokKind) (txt : List Char) : tokText k txt = tokVal k txt := by
  cases k <;> rfl

theorem loop_eq_spec (lno : Nat) : ∀ (fuel pos : Nat) (cs : List Char) (s : St), cs.length < fuel →
    (loop lno fuel pos cs s).map projSt = specFrom lno pos (accOf s.strs) s.toks cs := by
  intro fuel
  induction fuel with
  | zero => intro pos cs s h; omega
  | succ fuel ih =>
    intro pos cs s hlen
    cases cs with
    | nil => simp [loop, specFrom_nil, Except.map, projSt]
    | cons c rest =>
      rw [loop]
      simp only [List.isEmpty_cons, Bool.false_eq_true, if_false]
      rw [scanOne_eq_spec]
      cases hsel : select (c :: rest) with
      | none => simp [specFrom_none hsel, Except.map]
      | some p =>
        obtain ⟨r, n⟩ := p
        have hb := select_bounds hsel
        have hdrop : ((c :: rest).drop n).length < fuel := by
          rw [List.length_drop]; simp at hlen hb ⊢; omega
        have htake : ((c :: rest).take n).length = n := by
          rw [List.length_take]; omega
        simp only [Option.map_some]
        cases hk : r.kind with
        | none =>
          rw [clsOf_none hk, specFrom_skip hsel hk]
          simp only []
          rw [ih _ _ _ hdrop, utf8Len_eq]
        | some k =>
          by_cases hs : k = .strLit
          · subst hs
            rw [clsOf_str hk, specFrom_str hsel hk]
            simp only []
            rw [ih _ _ _ hdrop, utf8Len_eq, accOf_snoc]
            congr 3
            simp only [strInner]
            rw [List.dropLast_eq_take, List.length_drop, htake]
            congr 2
          · rw [clsOf_tok hk hs, specFrom_tok hsel hk hs]
            simp only []
            rw [ih _ _ _ hdrop, utf8Len_eq, tokText_eq]
            cases hstrs : s.strs with
            | nil => simp [flushStrs, hstrs, accOf]
            | cons x xs => simp [flushStrs, hstrs, accOf]

/-- the initial pieces for a carried literal -/
def strsOf (pending : Option String) : List String :=
  match pending with | some p => [p] | none => []

theorem accOf_strsOf (pending : Option String) : accOf (strsOf pending) = pending := by
  cases pending <;> simp [strsOf, accOf, String.join_cons, String.join_nil]

theorem specFrom_zero (lno : Nat) (pending : Option String) (ln : String) :
    specFrom lno 0 pending [] ln.toList = lexLine lno pending ln := by
  simp only [specFrom, lexLine]
  rcases tile ln.toList with ⟨ls, ok⟩
  cases ok <;> simp

/-- the model's `Lex.line` is the spec's `lexLine` -/
theorem line_eq_spec (lno : Nat) (pending : Option String) (ln : String) :
    (Lex.line lno pending ln).map (fun o => (o.toks, o.pending)) = lexLine lno pending ln := by
  have h := loop_eq_spec lno (ln.toList.length + 1) 0 ln.toList
    { strs := strsOf pending } (by omega)
  rw [accOf_strsOf] at h
  simp only [] at h
  rw [specFrom_zero] at h
  rw [← h]
  simp only [Lex.line]
  change Except.map _ (match loop lno (ln.toList.length + 1) 0 ln.toList { strs := strsOf pending } with
    | .error c => .error c
    | .ok s => .ok _) = _
  cases loop lno (ln.toList.length + 1) 0 ln.toList { strs := strsOf pending } with
  | error e => rfl
  | ok s => rfl

end Resynth.LexLemmas
