import Resynth.Model.Interp
/-!
# Lemmas: what `eval` can and cannot touch

* `eval_only_loc_heap`: a successful `eval`/`evalArgs` changes `loc` and `heap` only.
* `eval_frame`: `eval`/`evalArgs` neither read nor write `now`, `wr`, `emitted`, `warnings`
  (equational frame rule, all three result kinds).
* `eval_loc_indep`: the value and heap a successful `eval` returns do not depend on the incoming `loc`.
-/
namespace Resynth

@[simp] theorem Res.bind_ok_eq {α β} (a : α) (f : α → Res β) : (Res.ok a >>= f) = f a := rfl
@[simp] theorem Res.bind_err_eq {α β} (e : ErrKind) (l : Loc) (f : α → Res β) : (Res.err e l >>= f) = Res.err e l := rfl
@[simp] theorem Res.bind_panic_eq {α β} (s : String) (f : α → Res β) : (Res.panic s >>= f) = Res.panic s := rfl
@[simp] theorem Res.pure_eq_ok {α} (a : α) : (pure a : Res α) = Res.ok a := rfl

def Res.mapOk {α β} (f : α → β) : Res α → Res β
  | .ok a => .ok (f a)
  | .err e l => .err e l
  | .panic s => .panic s

@[simp] theorem Res.mapOk_ok {α β} (f : α → β) (a : α) : Res.mapOk f (.ok a) = .ok (f a) := rfl
@[simp] theorem Res.mapOk_err {α β} (f : α → β) (e l) : Res.mapOk f (.err e l) = .err e l := rfl
@[simp] theorem Res.mapOk_panic {α β} (f : α → β) (s) : Res.mapOk f (.panic s) = .panic s := rfl

/-- overwrite the output-side fields of the interpreter state -/
def PState.setOut (st : PState) (n : Nat) (w : BufW) (em : List (Nat × Bytes)) (ws : List Loc) : PState :=
  { st with now := n, wr := w, emitted := em, warnings := ws }

@[simp] theorem PState.setOut_now (st n w em ws) : (PState.setOut st n w em ws).now = n := rfl
@[simp] theorem PState.setOut_wr (st n w em ws) : (PState.setOut st n w em ws).wr = w := rfl
@[simp] theorem PState.setOut_emitted (st n w em ws) : (PState.setOut st n w em ws).emitted = em := rfl
@[simp] theorem PState.setOut_warnings (st n w em ws) : (PState.setOut st n w em ws).warnings = ws := rfl
@[simp] theorem PState.setOut_regs (st n w em ws) : (PState.setOut st n w em ws).regs = st.regs := rfl
@[simp] theorem PState.setOut_imports (st n w em ws) : (PState.setOut st n w em ws).imports = st.imports := rfl
@[simp] theorem PState.setOut_heap (st n w em ws) : (PState.setOut st n w em ws).heap = st.heap := rfl
@[simp] theorem PState.setOut_loc (st n w em ws) : (PState.setOut st n w em ws).loc = st.loc := rfl
theorem PState.setOut_self (st : PState) : st.setOut st.now st.wr st.emitted st.warnings = st := rfl
theorem PState.setOut_withLoc (st : PState) (n w em ws l) :
    { st.setOut n w em ws with loc := l } = ({ st with loc := l } : PState).setOut n w em ws := rfl
theorem PState.setOut_withHeap (st : PState) (n w em ws h) :
    { st.setOut n w em ws with heap := h } = ({ st with heap := h } : PState).setOut n w em ws := rfl

/-! ## helper functions depend on `regs`, `imports`, `heap`, `loc` only -/

theorem evalObjRef_setOut (env : Env) (st : PState) (n w em ws) (o : ObjRef) :
    evalObjRef env (st.setOut n w em ws) o = evalObjRef env st o := rfl

theorem evalObjRef_congr (env : Env) (s t : PState) (o : ObjRef)
    (h1 : s.regs = t.regs) (h2 : s.imports = t.imports) (h3 : s.loc = t.loc) :
    evalObjRef env s o = evalObjRef env t o := by
  simp only [evalObjRef, evalExternRef, evalLocalRef, h1, h2, h3]

theorem bindAndExec_setOut (env : Env) (st : PState) (n w em ws) (f : FuncDef) (this : Option Nat)
    (args : List ArgSpec) :
    bindAndExec env (st.setOut n w em ws) f this args =
      (bindAndExec env st f this args).mapOk (fun r => (r.1, r.2.setOut n w em ws)) := by
  unfold bindAndExec
  split
  · rfl
  · rfl
  · simp only [PState.setOut_heap, PState.setOut_loc]
    split
    · split <;> rfl
    · rfl
    · rfl

/-! ## the frame rule -/

mutual
theorem eval_frame (env : Env) (n : Nat) (w : BufW) (em : List (Nat × Bytes)) (ws : List Loc) :
    ∀ (e : Expr) (st : PState), eval env (st.setOut n w em ws) e =
      (eval env st e).mapOk (fun r => (r.1, r.2.setOut n w em ws))
  | .nil, st => by simp [eval]
  | .lit loc v, st => by simp only [eval, Res.mapOk_ok]; rfl
  | .ref o, st => by
    simp only [eval, PState.setOut_withLoc, evalObjRef_setOut]
    cases evalObjRef env { st with loc := o.loc } o <;> simp
  | .call o args, st => by
    simp only [eval, PState.setOut_withLoc, evalObjRef_setOut]
    cases evalObjRef env { st with loc := o.loc } o with
    | err e l => simp
    | panic s => simp
    | ok callee =>
      simp only [Res.bind_ok_eq]
      cases callee <;> simp only [Res.mapOk_err]
      · rw [evalArgs_frame env n w em ws args]
        cases evalArgs env { st with loc := o.loc } args with
        | err e l => simp
        | panic s => simp
        | ok r =>
          simp only [Res.mapOk_ok, Res.bind_ok_eq]
          cases funcOf env _ with
          | err e l => simp
          | panic s => simp
          | ok f => simp only [Res.bind_ok_eq, bindAndExec_setOut]
      · rw [evalArgs_frame env n w em ws args]
        cases evalArgs env { st with loc := o.loc } args with
        | err e l => simp
        | panic s => simp
        | ok r =>
          simp only [Res.mapOk_ok, Res.bind_ok_eq]
          cases funcOf env _ with
          | err e l => simp
          | panic s => simp
          | ok f => simp only [Res.bind_ok_eq, bindAndExec_setOut]
  | .slash a b, st => by
    simp only [eval]
    rw [eval_frame env n w em ws a]
    cases eval env st a with
    | err e l => simp
    | panic s => simp
    | ok r =>
      simp only [Res.mapOk_ok, Res.bind_ok_eq, PState.setOut_loc]
      split
      · simp
      · rw [eval_frame env n w em ws b]
        cases eval env r.2 b with
        | err e l => simp
        | panic s => simp
        | ok r2 =>
          simp only [Res.mapOk_ok, Res.bind_ok_eq, PState.setOut_loc]
          split
          · simp
          · split
            · split
              · simp
              · simp only [Res.mapOk_ok]; rfl
            · simp

theorem evalArgs_frame (env : Env) (n : Nat) (w : BufW) (em : List (Nat × Bytes)) (ws : List Loc) :
    ∀ (a : Args) (st : PState), evalArgs env (st.setOut n w em ws) a =
      (evalArgs env st a).mapOk (fun r => (r.1, r.2.setOut n w em ws))
  | .nil, st => by simp [evalArgs]
  | .cons nm e rest, st => by
    simp only [evalArgs]
    rw [eval_frame env n w em ws e]
    cases eval env st e with
    | err e l => simp
    | panic s => simp
    | ok r =>
      simp only [Res.mapOk_ok, Res.bind_ok_eq]
      rw [evalArgs_frame env n w em ws rest]
      cases evalArgs env r.2 rest <;> simp
end

/-! ## a successful `eval` changes `loc` and `heap` only -/

/-- `t` differs from `s` at most in `loc` and `heap` -/
def OnlyLH (s t : PState) : Prop :=
  t.now = s.now ∧ t.regs = s.regs ∧ t.imports = s.imports ∧ t.wr = s.wr ∧ t.warnings = s.warnings ∧
    t.emitted = s.emitted

theorem OnlyLH.refl (s : PState) : OnlyLH s s := ⟨rfl, rfl, rfl, rfl, rfl, rfl⟩
theorem OnlyLH.trans {s t u : PState} (h1 : OnlyLH s t) (h2 : OnlyLH t u) : OnlyLH s u := by
  obtain ⟨a1, a2, a3, a4, a5, a6⟩ := h1
  obtain ⟨b1, b2, b3, b4, b5, b6⟩ := h2
  exact ⟨b1.trans a1, b2.trans a2, b3.trans a3, b4.trans a4, b5.trans a5, b6.trans a6⟩
theorem OnlyLH.withLoc (s : PState) (l : Loc) : OnlyLH s { s with loc := l } := ⟨rfl, rfl, rfl, rfl, rfl, rfl⟩

theorem bindAndExec_ok (env : Env) (st : PState) (f : FuncDef) (this : Option Nat) (args : List ArgSpec)
    (r : Val × PState) (h : bindAndExec env st f this args = .ok r) :
    ∃ hp, r.2 = { st with heap := hp } := by
  unfold bindAndExec at h
  split at h
  · cases h
  · cases h
  · split at h
    · split at h
      · cases h
      · cases h; exact ⟨_, rfl⟩
    · cases h
    · cases h

theorem bindAndExec_onlyLH (env : Env) (st : PState) (f : FuncDef) (this : Option Nat) (args : List ArgSpec)
    (r : Val × PState) (h : bindAndExec env st f this args = .ok r) : OnlyLH st r.2 := by
  obtain ⟨hp, hh⟩ := bindAndExec_ok env st f this args r h
  rw [hh]; exact ⟨rfl, rfl, rfl, rfl, rfl, rfl⟩

mutual
theorem eval_onlyLH (env : Env) : ∀ (e : Expr) (st : PState) (r : Val × PState),
    eval env st e = .ok r → OnlyLH st r.2
  | .nil, st, r, h => by simp only [eval] at h; cases h; exact OnlyLH.refl _
  | .lit loc v, st, r, h => by simp only [eval] at h; cases h; exact OnlyLH.withLoc _ _
  | .ref o, st, r, h => by
    simp only [eval] at h
    cases h1 : evalObjRef env { st with loc := o.loc } o with
    | err e l => simp [h1] at h
    | panic s => simp [h1] at h
    | ok v => simp only [h1, Res.bind_ok_eq, Res.pure_eq_ok] at h; cases h; exact OnlyLH.withLoc _ _
  | .call o args, st, r, h => by
    simp only [eval] at h
    cases h1 : evalObjRef env { st with loc := o.loc } o with
    | err e l => simp [h1] at h
    | panic s => simp [h1] at h
    | ok callee =>
      simp only [h1, Res.bind_ok_eq] at h
      cases callee <;> try (simp at h; done)
      · rename_i path
        cases h2 : evalArgs env { st with loc := o.loc } args with
        | err e l => simp [h2] at h
        | panic s => simp [h2] at h
        | ok ra =>
          simp only [h2, Res.bind_ok_eq] at h
          have ha := evalArgs_onlyLH env args _ _ h2
          cases h3 : funcOf env path with
          | err e l => simp [h3] at h
          | panic s => simp [h3] at h
          | ok f =>
            simp only [h3, Res.bind_ok_eq] at h
            exact ((OnlyLH.withLoc st o.loc).trans ha).trans (bindAndExec_onlyLH _ _ _ _ _ _ h)
      · rename_i id cls path
        cases h2 : evalArgs env { st with loc := o.loc } args with
        | err e l => simp [h2] at h
        | panic s => simp [h2] at h
        | ok ra =>
          simp only [h2, Res.bind_ok_eq] at h
          have ha := evalArgs_onlyLH env args _ _ h2
          cases h3 : funcOf env path with
          | err e l => simp [h3] at h
          | panic s => simp [h3] at h
          | ok f =>
            simp only [h3, Res.bind_ok_eq] at h
            exact ((OnlyLH.withLoc st o.loc).trans ha).trans (bindAndExec_onlyLH _ _ _ _ _ _ h)
  | .slash a b, st, r, h => by
    simp only [eval] at h
    cases h1 : eval env st a with
    | err e l => simp [h1] at h
    | panic s => simp [h1] at h
    | ok ra =>
      simp only [h1, Res.bind_ok_eq] at h
      have ha := eval_onlyLH env a _ _ h1
      split at h
      · cases h
      · cases h2 : eval env ra.2 b with
        | err e l => simp [h2] at h
        | panic s => simp [h2] at h
        | ok rb =>
          simp only [h2, Res.bind_ok_eq] at h
          have hb := eval_onlyLH env b _ _ h2
          split at h
          · cases h
          · split at h
            · split at h
              · cases h
              · cases h; exact (ha.trans hb).trans (OnlyLH.withLoc _ _)
            · cases h

theorem evalArgs_onlyLH (env : Env) : ∀ (a : Args) (st : PState) (r : List ArgSpec × PState),
    evalArgs env st a = .ok r → OnlyLH st r.2
  | .nil, st, r, h => by simp only [evalArgs] at h; cases h; exact OnlyLH.refl _
  | .cons nm e rest, st, r, h => by
    simp only [evalArgs] at h
    cases h1 : eval env st e with
    | err e l => simp [h1] at h
    | panic s => simp [h1] at h
    | ok re =>
      simp only [h1, Res.bind_ok_eq] at h
      have he := eval_onlyLH env e _ _ h1
      cases h2 : evalArgs env re.2 rest with
      | err e l => simp [h2] at h
      | panic s => simp [h2] at h
      | ok rr =>
        simp only [h2, Res.bind_ok_eq, Res.pure_eq_ok] at h
        cases h
        exact he.trans (evalArgs_onlyLH env rest _ rr h2)
end

/-! ## the incoming `loc` influences error locations only -/

theorem bindAndExec_loc (env : Env) (st : PState) (f : FuncDef) (this : Option Nat) (args : List ArgSpec)
    (r : Val × PState) (l : Loc) (h : bindAndExec env st f this args = .ok r) :
    bindAndExec env { st with loc := l } f this args = .ok (r.1, { r.2 with loc := l }) := by
  unfold bindAndExec at h ⊢
  split at h
  · cases h
  · cases h
  · rename_i av hav
    split at h
    · rename_i v hp hex
      split at h
      · cases h
      · rename_i hne
        cases h
        simp only [hex, if_neg hne]
    · cases h
    · cases h

mutual
theorem eval_loc_indep (env : Env) : ∀ (e : Expr) (st : PState) (r : Val × PState) (l : Loc),
    eval env st e = .ok r → ∃ l', eval env { st with loc := l } e = .ok (r.1, { r.2 with loc := l' })
  | .nil, st, r, l, h => by simp only [eval] at h ⊢; cases h; exact ⟨l, rfl⟩
  | .lit loc v, st, r, l, h => by simp only [eval] at h ⊢; cases h; exact ⟨loc, rfl⟩
  | .ref o, st, r, l, h => by
    have : eval env { st with loc := l } (.ref o) = eval env st (.ref o) := by simp only [eval]
    exact ⟨r.2.loc, by rw [this, h]⟩
  | .call o args, st, r, l, h => by
    have : eval env { st with loc := l } (.call o args) = eval env st (.call o args) := by simp only [eval]
    exact ⟨r.2.loc, by rw [this, h]⟩
  | .slash a b, st, r, l, h => by
    simp only [eval] at h ⊢
    cases h1 : eval env st a with
    | err e l => simp [h1] at h
    | panic s => simp [h1] at h
    | ok ra =>
      simp only [h1, Res.bind_ok_eq] at h
      obtain ⟨l1, ha⟩ := eval_loc_indep env a st ra l h1
      simp only [ha, Res.bind_ok_eq]
      split at h
      · cases h
      · rename_i hip
        simp only [hip]
        cases h2 : eval env ra.2 b with
        | err e l => simp [h2] at h
        | panic s => simp [h2] at h
        | ok rb =>
          simp only [h2, Res.bind_ok_eq] at h
          obtain ⟨l2, hb⟩ := eval_loc_indep env b ra.2 rb l1 h2
          simp only [hb, Res.bind_ok_eq]
          split at h
          · cases h
          · rename_i hint
            simp only [hint]
            split at h
            · rename_i ip port hip' hport
              split at h
              · cases h
              · rename_i hp
                cases h
                simp only [hp, Bool.false_eq_true, if_false]
                exact ⟨l1, rfl⟩
            · cases h

theorem evalArgs_loc_indep (env : Env) : ∀ (a : Args) (st : PState) (r : List ArgSpec × PState) (l : Loc),
    evalArgs env st a = .ok r → ∃ l', evalArgs env { st with loc := l } a = .ok (r.1, { r.2 with loc := l' })
  | .nil, st, r, l, h => by simp only [evalArgs] at h ⊢; cases h; exact ⟨l, rfl⟩
  | .cons nm e rest, st, r, l, h => by
    simp only [evalArgs] at h ⊢
    cases h1 : eval env st e with
    | err e l => simp [h1] at h
    | panic s => simp [h1] at h
    | ok re =>
      simp only [h1, Res.bind_ok_eq] at h
      obtain ⟨l1, he⟩ := eval_loc_indep env e st re l h1
      simp only [he, Res.bind_ok_eq]
      cases h2 : evalArgs env re.2 rest with
      | err e l => simp [h2] at h
      | panic s => simp [h2] at h
      | ok rr =>
        simp only [h2, Res.bind_ok_eq, Res.pure_eq_ok] at h
        obtain ⟨l2, hr⟩ := evalArgs_loc_indep env rest re.2 rr l1 h2
        simp only [hr, Res.bind_ok_eq, Res.pure_eq_ok]
        cases h
        exact ⟨l2, rfl⟩
end

end Resynth
