import Resynth.Lemmas.NetBuilders
/-!
# C18 helpers for the non-TCP builders: "framed = ethFrame raw, and recognised by the Spec"
-/
namespace Resynth

/-- the statement shape of C18 for one packet -/
def Framed (framed raw : Bytes) : Prop :=
  framed = Spec.ethFrame raw ∧ Spec.ethMatchesIp framed = true

def FramedBroadcast (framed raw : Bytes) : Prop :=
  framed = Spec.ethFrameBroadcast raw ∧ Spec.ethBroadcastMatchesIp framed = true

theorem Framed.of_eq {a d : Bytes} (h : a = Spec.ethFrame d) (hd : 20 ≤ d.length) : Framed a d :=
  ⟨h, by rw [h]; exact ethMatchesIp_ethFrame d hd⟩

theorem FramedBroadcast.of_eq {a d : Bytes} (h : a = Spec.ethFrameBroadcast d) (hd : 20 ≤ d.length) :
    FramedBroadcast a d :=
  ⟨h, by rw [h]; exact ethBroadcastMatchesIp_ethFrameBroadcast d hd⟩

theorem UdpDgram.ipDgram_length (d : UdpDgram) : 20 ≤ d.ipDgram.length := by
  simp [UdpDgram.ipDgram]

/-- two UDP datagrams that differ only in the raw flag -/
theorem UdpDgram.framed (d d' : UdpDgram) (h1 : d.raw = false) (h2 : d'.raw = true)
    (hD : d.ethDst = macOfIp d.ip.daddr) (hS : d.ethSrc = macOfIp d.ip.saddr)
    (he : d.ipDgram = d'.ipDgram) : Framed d.frame d'.frame := by
  have e' : d'.frame = d'.ipDgram := by simp [UdpDgram.frame, UdpDgram.ipDgram, h2]
  have e := UdpDgram.framing_of d false h1 hD hS
  simp only [Bool.false_eq_true, if_false] at e
  rw [e', ← he]
  exact Framed.of_eq e d.ipDgram_length

theorem UdpDgram.framedBroadcast (d d' : UdpDgram) (h1 : d.raw = false) (h2 : d'.raw = true)
    (hD : d.ethDst = macBroadcast) (hS : d.ethSrc = macOfIp d.ip.saddr)
    (he : d.ipDgram = d'.ipDgram) : FramedBroadcast d.frame d'.frame := by
  have e' : d'.frame = d'.ipDgram := by simp [UdpDgram.frame, UdpDgram.ipDgram, h2]
  have e := UdpDgram.framing_bcast_of d false h1 hD hS
  simp only [Bool.false_eq_true, if_false] at e
  rw [e', ← he]
  exact FramedBroadcast.of_eq e d.ipDgram_length

theorem GreFrame.framed {g g' : GreFrame} {src dst : Nat} (w : g.Shape src dst false)
    (w' : g'.Shape src dst true) (he : g.ipDgram = g'.ipDgram) : Framed g.frame g'.frame := by
  have e := w.framing
  have e' := w'.framing
  simp only [Bool.false_eq_true, if_false] at e
  simp only [if_true] at e'
  rw [e', ← he]
  exact Framed.of_eq e (by simp [GreFrame.ipDgram])

theorem icmp_framed (src dst typ id seq : Nat) (bytes : Bytes) :
    Framed (icmpEcho src dst false typ id seq bytes) (icmpEcho src dst true typ id seq bytes) := by
  refine Framed.of_eq (icmp_framing src dst typ id seq bytes) ?_
  rw [icmpEcho_eq]; simp

theorem ipDgramFrag_framed (h : IpHdr) (payload : Bytes) (off : Nat) (mf : Bool) :
    Framed (ipDgramFrag h payload false off mf) (ipDgramFrag h payload true off mf) := by
  refine Framed.of_eq (ipDgramFrag_framing h payload off mf) ?_
  rw [ipDgramFrag_eq]; simp

end Resynth
