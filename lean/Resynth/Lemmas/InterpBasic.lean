import Resynth.Model.Interp
/-!
# Basic facts about the interpreter model (`Model/Interp.lean`)

* `Res` monad laws used everywhere
* `lookupReg` / key membership
* frame lemma: `eval`/`evalArgs` change only `heap` and `loc`
* `addStmt` frame facts: `regs` only grows at the end, by a fresh key
* `addStmts` over `++`
-/
namespace Resynth.Sem

/-! ## `Res` -/

@[simp] theorem Res.ok_bind {α β} (a : α) (f : α → Res β) : (Res.ok a >>= f) = f a := rfl
@[simp] theorem Res.err_bind {α β} (e : ErrKind) (l : Loc) (f : α → Res β) : (Res.err e l >>= f) = .err e l := rfl
@[simp] theorem Res.panic_bind {α β} (s : String) (f : α → Res β) : (Res.panic s >>= f) = .panic s := rfl
@[simp] theorem Res.pure_eq {α} (a : α) : (pure a : Res α) = .ok a := rfl

theorem Res.bind_eq_ok {α β} {x : Res α} {f : α → Res β} {b : β} :
    (x >>= f) = .ok b ↔ ∃ a, x = .ok a ∧ f a = .ok b := by
  cases x <;> simp

theorem Res.bind_assoc {α β γ} (x : Res α) (f : α → Res β) (g : β → Res γ) :
    (x >>= f >>= g) = (x >>= fun a => f a >>= g) := by
  cases x <;> simp

/-! ## `lookupReg` -/

def keys (regs : List (String × Val)) : List String := regs.map (·.1)

theorem lookupReg_nil (n : String) : lookupReg [] n = none := rfl

theorem lookupReg_cons (k : String) (v : Val) (r : List (String × Val)) (n : String) :
    lookupReg ((k, v) :: r) n = if k = n then some v else lookupReg r n := by
  unfold lookupReg
  by_cases h : k = n <;> simp [h]

theorem lookupReg_append (a b : List (String × Val)) (n : String) :
    lookupReg (a ++ b) n = (lookupReg a n).or (lookupReg b n) := by
  induction a with
  | nil => simp [lookupReg_nil]
  | cons kv a ih =>
    obtain ⟨k, v⟩ := kv
    rw [List.cons_append, lookupReg_cons, lookupReg_cons, ih]
    split <;> simp

theorem lookupReg_isSome_iff (regs : List (String × Val)) (n : String) :
    (lookupReg regs n).isSome = true ↔ n ∈ keys regs := by
  induction regs with
  | nil => simp [lookupReg_nil, keys]
  | cons kv r ih =>
    obtain ⟨k, v⟩ := kv
    rw [lookupReg_cons]
    by_cases h : k = n
    · simp [h, keys]
    · simp only [h, if_false, ih, keys, List.map_cons, List.mem_cons]
      constructor
      · exact Or.inr
      · rintro (h' | h')
        · exact absurd h'.symm h
        · exact h'

theorem lookupReg_eq_none_iff (regs : List (String × Val)) (n : String) :
    lookupReg regs n = none ↔ n ∉ keys regs := by
  rw [← lookupReg_isSome_iff]
  cases lookupReg regs n <;> simp

theorem lookupReg_mem {regs : List (String × Val)} {n : String} {v : Val}
    (h : lookupReg regs n = some v) : (n, v) ∈ regs := by
  induction regs with
  | nil => simp [lookupReg_nil] at h
  | cons kv r ih =>
    obtain ⟨k, w⟩ := kv
    rw [lookupReg_cons] at h
    split at h
    · rename_i hk; cases h; simp [hk]
    · exact List.mem_cons_of_mem _ (ih h)

/-! ## frame: what `eval` can change -/

/-- `st'` differs from `st` at most in `heap` and `loc` -/
structure Frame (st st' : PState) : Prop where
  now : st'.now = st.now
  regs : st'.regs = st.regs
  imports : st'.imports = st.imports
  wr : st'.wr = st.wr
  warnings : st'.warnings = st.warnings
  emitted : st'.emitted = st.emitted

theorem Frame.refl (st : PState) : Frame st st := ⟨rfl, rfl, rfl, rfl, rfl, rfl⟩

theorem Frame.trans {a b c : PState} (h1 : Frame a b) (h2 : Frame b c) : Frame a c :=
  ⟨h2.now.trans h1.now, h2.regs.trans h1.regs, h2.imports.trans h1.imports, h2.wr.trans h1.wr,
   h2.warnings.trans h1.warnings, h2.emitted.trans h1.emitted⟩

theorem Frame.setLoc (st : PState) (l : Loc) : Frame st { st with loc := l } := ⟨rfl, rfl, rfl, rfl, rfl, rfl⟩
theorem Frame.setHeap (st : PState) (h : Heap) : Frame st { st with heap := h } := ⟨rfl, rfl, rfl, rfl, rfl, rfl⟩

theorem bindAndExec_frame {env : Env} {st : PState} {f : FuncDef} {this : Option Nat} {args : List ArgSpec}
    {v : Val} {st' : PState} (h : bindAndExec env st f this args = .ok (v, st')) : Frame st st' := by
  unfold bindAndExec at h
  split at h <;> try (simp at h; done)
  split at h <;> try (simp at h; done)
  split at h <;> try (simp at h; done)
  simp only [Res.ok.injEq, Prod.mk.injEq] at h
  rw [← h.2]; exact Frame.setHeap _ _

mutual
theorem eval_frame (env : Env) : ∀ (e : Expr) (st : PState) (v : Val) (st' : PState),
    eval env st e = .ok (v, st') → Frame st st'
  | .nil, st, v, st', h => by
    simp only [eval, Res.ok.injEq, Prod.mk.injEq] at h
    rw [← h.2]; exact Frame.refl _
  | .lit loc l, st, v, st', h => by
    simp only [eval, Res.ok.injEq, Prod.mk.injEq] at h
    rw [← h.2]; exact Frame.setLoc _ _
  | .ref o, st, v, st', h => by
    simp only [eval] at h
    cases hr : evalObjRef env { st with loc := o.loc } o <;> simp [hr] at h
    rw [← h.2]; exact Frame.setLoc _ _
  | .call o args, st, v, st', h => by
    simp only [eval] at h
    obtain ⟨callee, hc, h⟩ := Res.bind_eq_ok.1 h
    split at h
    · obtain ⟨⟨argv, st1⟩, ha, h⟩ := Res.bind_eq_ok.1 h
      obtain ⟨f, hf, h⟩ := Res.bind_eq_ok.1 h
      exact ((Frame.setLoc st o.loc).trans (evalArgs_frame env args _ _ _ ha)).trans (bindAndExec_frame h)
    · obtain ⟨⟨argv, st1⟩, ha, h⟩ := Res.bind_eq_ok.1 h
      obtain ⟨f, hf, h⟩ := Res.bind_eq_ok.1 h
      exact ((Frame.setLoc st o.loc).trans (evalArgs_frame env args _ _ _ ha)).trans (bindAndExec_frame h)
    · simp at h
  | .slash a b, st, v, st', h => by
    simp only [eval] at h
    obtain ⟨⟨av, st1⟩, h1, h⟩ := Res.bind_eq_ok.1 h
    split at h
    · simp at h
    obtain ⟨⟨bv, st2⟩, h2, h⟩ := Res.bind_eq_ok.1 h
    split at h
    · simp at h
    split at h
    · split at h
      · simp at h
      · simp only [Res.ok.injEq, Prod.mk.injEq] at h
        have := (eval_frame env a _ _ _ h1).trans (eval_frame env b _ _ _ h2)
        rw [← h.2]
        exact this.trans (Frame.setLoc _ _)
    · simp at h
theorem evalArgs_frame (env : Env) : ∀ (a : Args) (st : PState) (vs : List ArgSpec) (st' : PState),
    evalArgs env st a = .ok (vs, st') → Frame st st'
  | .nil, st, vs, st', h => by
    simp only [evalArgs, Res.ok.injEq, Prod.mk.injEq] at h
    rw [← h.2]; exact Frame.refl _
  | .cons n e rest, st, vs, st', h => by
    simp only [evalArgs] at h
    obtain ⟨⟨v, st1⟩, h1, h⟩ := Res.bind_eq_ok.1 h
    obtain ⟨⟨vs', st2⟩, h2, h⟩ := Res.bind_eq_ok.1 h
    simp only [Res.pure_eq, Res.ok.injEq, Prod.mk.injEq] at h
    rw [← h.2]
    exact (eval_frame env e _ _ _ h1).trans (evalArgs_frame env rest _ _ _ h2)
end

/-! ## the writer side of `addStmt` -/

theorem updateTime_ok {st st' : PState} {ns : Nat} (h : updateTime st ns = .ok st') :
    st' = { st with now := st.now + ns } := by
  unfold updateTime at h
  split at h <;> simp at h
  exact h.symm

theorem writeRecord_ok {st st' : PState} {p : Packet} (h : writeRecord st p = .ok st') :
    ∃ w, st' = { st with wr := w, emitted := st.emitted ++ [(st.now, p.frame)] } := by
  unfold writeRecord at h
  split at h
  · simp at h
  · split at h
    split at h
    · simp only [Res.ok.injEq] at h
      exact ⟨_, h.symm⟩
    · simp at h

theorem writeRecords_ok : ∀ (ps : List Packet) {st st' : PState}, writeRecords st ps = .ok st' →
    ∃ w, st' = { st with wr := w, emitted := st.emitted ++ ps.map (fun p => (st.now, p.frame)) }
  | [], st, st', h => by
    simp only [writeRecords, Res.ok.injEq] at h
    exact ⟨st.wr, by simp [← h]⟩
  | p :: ps, st, st', h => by
    simp only [writeRecords] at h
    obtain ⟨st1, h1, h⟩ := Res.bind_eq_ok.1 h
    obtain ⟨w1, rfl⟩ := writeRecord_ok h1
    obtain ⟨w2, rfl⟩ := writeRecords_ok ps h
    exact ⟨w2, by simp⟩

theorem foldl_updateTime_ok : ∀ (ps : List Packet) {st st' : PState},
    ps.foldlM (fun st p => updateTime st p.bitTime) st = .ok st' →
    st' = { st with now := st.now + (ps.map Packet.bitTime).sum }
  | [], st, st', h => by
    simp only [List.foldlM_nil, Res.pure_eq, Res.ok.injEq] at h
    simp [← h]
  | p :: ps, st, st', h => by
    simp only [List.foldlM_cons] at h
    obtain ⟨st1, h1, h⟩ := Res.bind_eq_ok.1 h
    rw [updateTime_ok h1] at h
    rw [foldl_updateTime_ok ps h]
    simp [Nat.add_assoc]

/-- frames carried by a packet-valued value -/
def _root_.Resynth.Val.frames : Val → List Bytes
  | .pkt p => [p.frame]
  | .pktgen ps => ps.map (·.frame)
  | _ => []

/-- the part of `addStmt (.expr e)` that runs after `eval` -/
def emitVal (st : PState) (v : Val) : Res PState :=
  match v with
  | .nil => pure st
  | .pkt p => do
    let st ← updateTime st p.bitTime
    writeRecord st p
  | .pktgen ps => do
    let st ← ps.foldlM (fun st p => updateTime st p.bitTime) st
    writeRecords st ps
  | .timejump ns => updateTime st ns
  | _ => pure { st with warnings := st.warnings ++ [st.loc] }

theorem addStmt_expr (env : Env) (st : PState) (e : Expr) :
    addStmt env st (.expr e) = (eval env st e >>= fun r => emitVal r.2 r.1) := by
  simp only [addStmt, emitVal]
  rfl

theorem emitVal_ok {st st' : PState} {v : Val} (h : emitVal st v = .ok st') :
    st'.regs = st.regs ∧ st'.imports = st.imports ∧ st'.heap = st.heap ∧ st'.loc = st.loc ∧
    st'.emitted.map (·.2) = st.emitted.map (·.2) ++ v.frames := by
  unfold emitVal at h
  split at h
  · simp only [Res.pure_eq, Res.ok.injEq] at h
    simp [← h, Val.frames]
  · obtain ⟨st1, h1, h⟩ := Res.bind_eq_ok.1 h
    obtain ⟨w, rfl⟩ := writeRecord_ok h
    rw [updateTime_ok h1]
    simp [Val.frames]
  · obtain ⟨st1, h1, h⟩ := Res.bind_eq_ok.1 h
    obtain ⟨w, rfl⟩ := writeRecords_ok _ h
    rw [foldl_updateTime_ok _ h1]
    simp [Val.frames, Function.comp_def]
  · rw [updateTime_ok h]
    simp [Val.frames]
  · simp only [Res.pure_eq, Res.ok.injEq] at h
    rw [← h]
    rename_i h1 h2 h3 h4
    cases v <;> simp_all [Val.frames]

/-! ## `addStmt`: effect on `regs` and `imports` -/

theorem addStmt_imp_ok {env : Env} {st st' : PState} {loc : Loc} {m : String}
    (h : addStmt env st (.imp loc m) = .ok st') :
    st'.regs = st.regs ∧ st'.heap = st.heap ∧ st'.emitted = st.emitted ∧ st'.wr = st.wr ∧ st'.now = st.now ∧
    (st'.imports = st.imports ∨ (m ∉ st.imports ∧ st'.imports = st.imports ++ [m])) := by
  simp only [addStmt] at h
  split at h
  · simp only [Res.ok.injEq] at h
    simp [← h]
  · rename_i hc
    split at h <;> simp at h
    simp at hc
    simp [← h, hc]

theorem addStmt_assign_ok {env : Env} {st st' : PState} {loc : Loc} {t : String} {e : Expr}
    (h : addStmt env st (.assign loc t e) = .ok st') :
    t ∉ keys st.regs ∧ ∃ v st1, eval env { st with loc := loc } e = .ok (v, st1) ∧
      st' = { st1 with regs := st.regs ++ [(t, v)] } := by
  simp only [addStmt] at h
  split at h
  · simp at h
  · rename_i hc
    obtain ⟨⟨v, st1⟩, h1, h⟩ := Res.bind_eq_ok.1 h
    simp only [Res.pure_eq, Res.ok.injEq] at h
    refine ⟨?_, v, st1, h1, ?_⟩
    · rw [← lookupReg_isSome_iff]; exact hc
    · rw [← h, (eval_frame env e _ _ _ h1).regs]

theorem addStmt_expr_ok {env : Env} {st st' : PState} {e : Expr}
    (h : addStmt env st (.expr e) = .ok st') :
    ∃ v st1, eval env st e = .ok (v, st1) ∧ emitVal st1 v = .ok st' := by
  rw [addStmt_expr] at h
  obtain ⟨⟨v, st1⟩, h1, h⟩ := Res.bind_eq_ok.1 h
  exact ⟨v, st1, h1, h⟩

/-- one statement extends `regs` by at most one binding, at the end, under a fresh name -/
theorem addStmt_regs {env : Env} {st st' : PState} {s : Stmt} (h : addStmt env st s = .ok st') :
    st'.regs = st.regs ∨ ∃ t v, t ∉ keys st.regs ∧ st'.regs = st.regs ++ [(t, v)] := by
  cases s with
  | imp loc m => exact Or.inl (addStmt_imp_ok h).1
  | assign loc t e =>
    obtain ⟨hf, v, st1, _, rfl⟩ := addStmt_assign_ok h
    exact Or.inr ⟨t, v, hf, rfl⟩
  | expr e =>
    obtain ⟨v, st1, h1, h2⟩ := addStmt_expr_ok h
    exact Or.inl ((emitVal_ok h2).1.trans (eval_frame env e _ _ _ h1).regs)

/-! ## `addStmts` -/

theorem addStmts_append (env : Env) : ∀ (a b : List Stmt) (st : PState),
    addStmts env st (a ++ b) = (addStmts env st a >>= fun st' => addStmts env st' b)
  | [], b, st => by simp [addStmts]
  | s :: a, b, st => by
    simp only [List.cons_append, addStmts, Res.bind_assoc]
    congr 1
    funext st1
    exact addStmts_append env a b st1

theorem addStmts_regs (env : Env) : ∀ (ss : List Stmt) (st st' : PState),
    addStmts env st ss = .ok st' → (keys st.regs).Nodup →
    (keys st'.regs).Nodup ∧ ∃ ext, st'.regs = st.regs ++ ext
  | [], st, st', h, hn => by
    simp only [addStmts, Res.ok.injEq] at h
    subst h
    exact ⟨hn, [], by simp⟩
  | s :: ss, st, st', h, hn => by
    simp only [addStmts] at h
    obtain ⟨st1, h1, h⟩ := Res.bind_eq_ok.1 h
    have hn1 : (keys st1.regs).Nodup ∧ ∃ ext, st1.regs = st.regs ++ ext := by
      rcases addStmt_regs h1 with h | ⟨t, v, hf, h⟩
      · rw [h]; exact ⟨hn, [], by simp⟩
      · refine ⟨?_, [(t, v)], h⟩
        rw [h]
        simp only [keys, List.map_append, List.map_cons, List.map_nil]
        rw [List.nodup_append]
        refine ⟨hn, by simp, ?_⟩
        intro a ha b hb
        simp only [List.mem_singleton] at hb
        subst hb
        rintro rfl
        exact hf ha
    obtain ⟨hn2, ext2, h2⟩ := addStmts_regs env ss st1 st' h hn1.1
    obtain ⟨ext1, h1'⟩ := hn1.2
    exact ⟨hn2, ext1 ++ ext2, by rw [h2, h1', List.append_assoc]⟩

/-- `regs` only grows at the end -/
theorem addStmts_regs_ext (env : Env) : ∀ (ss : List Stmt) (st st' : PState),
    addStmts env st ss = .ok st' → ∃ ext, st'.regs = st.regs ++ ext
  | [], st, st', h => by
    simp only [addStmts, Res.ok.injEq] at h
    subst h
    exact ⟨[], by simp⟩
  | s :: ss, st, st', h => by
    simp only [addStmts] at h
    obtain ⟨st1, h1, h⟩ := Res.bind_eq_ok.1 h
    obtain ⟨ext2, h2⟩ := addStmts_regs_ext env ss st1 st' h
    rcases addStmt_regs h1 with h' | ⟨t, v, _, h'⟩
    · exact ⟨ext2, by rw [h2, h']⟩
    · exact ⟨(t, v) :: ext2, by rw [h2, h']; simp⟩

theorem addStmts_imports_ext (env : Env) : ∀ (ss : List Stmt) (st st' : PState),
    addStmts env st ss = .ok st' → ∃ ext, st'.imports = st.imports ++ ext
  | [], st, st', h => by
    simp only [addStmts, Res.ok.injEq] at h
    subst h
    exact ⟨[], by simp⟩
  | s :: ss, st, st', h => by
    simp only [addStmts] at h
    obtain ⟨st1, h1, h⟩ := Res.bind_eq_ok.1 h
    obtain ⟨ext2, h2⟩ := addStmts_imports_ext env ss st1 st' h
    have h1' : st1.imports = st.imports ∨ ∃ m, st1.imports = st.imports ++ [m] := by
      cases s with
      | imp loc m =>
        rcases (addStmt_imp_ok h1).2.2.2.2.2 with h' | ⟨_, h'⟩
        · exact Or.inl h'
        · exact Or.inr ⟨m, h'⟩
      | assign loc t e =>
        obtain ⟨_, v, st2, he, rfl⟩ := addStmt_assign_ok h1
        exact Or.inl (eval_frame env e _ _ _ he).imports
      | expr e =>
        obtain ⟨v, st2, he, h2'⟩ := addStmt_expr_ok h1
        exact Or.inl ((emitVal_ok h2').2.1.trans (eval_frame env e _ _ _ he).imports)
    rcases h1' with h' | ⟨m, h'⟩
    · exact ⟨ext2, by rw [h2, h']⟩
    · exact ⟨m :: ext2, by rw [h2, h']; simp⟩

end Resynth.Sem
