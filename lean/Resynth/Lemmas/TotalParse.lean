import Resynth.Lemmas.TotalLex
import Resynth.Lemmas.LRFeed
/-!
# Whole-file totality (C08): every syntax tree the parser builds is well formed

`ObjRef.WF`: at least one component (so `eval_obj_ref` never reaches its `unreachable!()`), and
neither `.` nor `:` inside module or component names (`Plain`).  `NodeWF` lifts this to the nodes of the parser stack;
`step_wf` shows each loop iteration of `Parser::feed` keeps every node on the stack and every finished
statement well formed, provided the token is `TokOk` (identifier text is `Plain`).
-/
namespace Resynth

def ObjRef.WF (o : ObjRef) : Prop :=
  o.components ≠ [] ∧ (∀ s ∈ o.modules, Plain s) ∧ (∀ s ∈ o.components, Plain s)

mutual
def Expr.WF : Expr → Prop
  | .nil => True
  | .lit _ _ => True
  | .ref o => o.WF
  | .call o a => o.WF ∧ a.WF
  | .slash a b => a.WF ∧ b.WF
def Args.WF : Args → Prop
  | .nil => True
  | .cons _ e r => e.WF ∧ r.WF
end

def Stmt.WF : Stmt → Prop
  | .imp _ m => Plain m
  | .assign _ _ e => e.WF
  | .expr e => e.WF

@[simp] theorem Args.WF_snoc : ∀ (l : Args) (n : Option String) (e : Expr), (l.snoc n e).WF ↔ l.WF ∧ e.WF
  | .nil, n, e => by simp [Args.snoc, Args.WF]
  | .cons m f r, n, e => by simp [Args.snoc, Args.WF, Args.WF_snoc r n e, and_assoc]

namespace LR

/-- well-formedness of one stack node -/
def NodeWF : Node → Prop
  | .comp s => Plain s
  | .module s => Plain s
  | .argName (some s) => Plain s
  | .argList l => l.WF
  | .path p => (∀ s ∈ p.module, Plain s) ∧ (∀ s ∈ p.object, Plain s)
  | .obj o => o.WF
  | .expr e => e.WF
  | .assign _ _ e => e.WF
  | .call o a => o.WF ∧ a.WF
  | .stmt s => s.WF
  | _ => True

def StackWF : Stack → Prop
  | [] => True
  | n :: s => NodeWF n ∧ StackWF s

def StmtsWF (ss : List Stmt) : Prop := ∀ s ∈ ss, s.WF

/-- every node on the stack and every finished statement is well formed -/
def CfgWF (c : Cfg) : Prop := StackWF c.stack ∧ StmtsWF c.stmts

/-- what one loop iteration guarantees about well-formedness -/
def StepWF : Res (Cfg × Bool) → Prop
  | .ok (c', _) => CfgWF c'
  | _ => True

@[simp] theorem StackWF_nil : StackWF [] ↔ True := Iff.rfl
@[simp] theorem StackWF_cons (n s) : StackWF (n :: s) ↔ NodeWF n ∧ StackWF s := Iff.rfl
@[simp] theorem StmtsWF_append (a : List Stmt) (s : Stmt) : StmtsWF (a ++ [s]) ↔ StmtsWF a ∧ s.WF := by
  simp [StmtsWF, List.mem_append, or_imp, forall_and]
theorem StmtsWF_nil : StmtsWF [] := by simp [StmtsWF]

end LR
end Resynth
